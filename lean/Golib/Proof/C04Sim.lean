/-
C04 helper lemmas, part 5: the sift routines are parametric in the container.  If two containers
are related by `R` and their `Less`/`Swap` callbacks respect `R` (same answers, same panics),
then `up`, `down`, `fix`, `build` respect `R` too.  Instantiated with the plain slice this
transfers the heap-order theorems to every lawful `Interface` implementation — in particular
to the recording container of the harness and (with `R` = "same values, consistent indices")
to `Heap`.
-/
import Golib.Proof.C04SliceOps

set_option linter.unusedSimpArgs false
set_option linter.unusedVariables false

namespace Golib.C04

/-- Both panic, or both succeed with related results. -/
def RelO {α β : Type} (R : α → β → Prop) : Option α → Option β → Prop
  | none, none => True
  | some a, some b => R a b
  | _, _ => False

/-- The interface laws relative to another container. -/
structure Sim {σ₁ σ₂ : Type} (o₁ : Ops σ₁) (o₂ : Ops σ₂) (R : σ₁ → σ₂ → Prop) : Prop where
  less : ∀ a b j i, R a b → RelO (fun x y => R x.1 y.1 ∧ x.2 = y.2) (o₁.less a j i) (o₂.less b j i)
  swap : ∀ a b i j, R a b → RelO R (o₁.swap a i j) (o₂.swap b i j)

variable {σ₁ σ₂ : Type} {o₁ : Ops σ₁} {o₂ : Ops σ₂} {R : σ₁ → σ₂ → Prop}

theorem up_sim (hs : Sim o₁ o₂ R) : ∀ (f : Nat) (a : σ₁) (b : σ₂) (j : Int), R a b →
    RelO R (up o₁ f a j) (up o₂ f b j) := by
  intro f
  induction f with
  | zero => intro a b j _; simp [up, RelO]
  | succ f ih =>
    intro a b j hab
    rw [up, up]
    by_cases hij : Int.tdiv (j - 1) 2 = j
    · simp only [hij, if_true]; exact hab
    · simp only [hij, if_false]
      have hl := hs.less a b j (Int.tdiv (j - 1) 2) hab
      cases h1 : o₁.less a j (Int.tdiv (j - 1) 2) with
      | none => cases h2 : o₂.less b j (Int.tdiv (j - 1) 2) with
        | none => simp [RelO]
        | some y => rw [h1, h2] at hl; exact hl.elim
      | some x => cases h2 : o₂.less b j (Int.tdiv (j - 1) 2) with
        | none => rw [h1, h2] at hl; exact hl.elim
        | some y =>
          rw [h1, h2] at hl
          obtain ⟨a1, r1⟩ := x
          obtain ⟨b1, r2⟩ := y
          simp only [RelO] at hl
          obtain ⟨hab1, rfl⟩ := hl
          cases r1 with
          | false => exact hab1
          | true =>
            simp only []
            have hw := hs.swap a1 b1 (Int.tdiv (j - 1) 2) j hab1
            cases h3 : o₁.swap a1 (Int.tdiv (j - 1) 2) j with
            | none => cases h4 : o₂.swap b1 (Int.tdiv (j - 1) 2) j with
              | none => simp [RelO]
              | some y => rw [h3, h4] at hw; exact hw.elim
            | some a2 => cases h4 : o₂.swap b1 (Int.tdiv (j - 1) 2) j with
              | none => rw [h3, h4] at hw; exact hw.elim
              | some b2 => rw [h3, h4] at hw; exact ih a2 b2 _ hw

/-- helper: related `less` results, as a case split usable in `down` -/
theorem relO_less_cases {x : Option (σ₁ × Bool)} {y : Option (σ₂ × Bool)}
    (h : RelO (fun x y => R x.1 y.1 ∧ x.2 = y.2) x y) :
    (x = none ∧ y = none) ∨ ∃ a b r, x = some (a, r) ∧ y = some (b, r) ∧ R a b := by
  cases x with
  | none => cases y with
    | none => exact Or.inl ⟨rfl, rfl⟩
    | some y => exact h.elim
  | some x => cases y with
    | none => exact h.elim
    | some y =>
      obtain ⟨a, r1⟩ := x; obtain ⟨b, r2⟩ := y
      simp only [RelO] at h
      obtain ⟨h1, rfl⟩ := h
      exact Or.inr ⟨a, b, r1, rfl, rfl, h1⟩

theorem relO_swap_cases {x : Option σ₁} {y : Option σ₂} (h : RelO R x y) :
    (x = none ∧ y = none) ∨ ∃ a b, x = some a ∧ y = some b ∧ R a b := by
  cases x with
  | none => cases y with
    | none => exact Or.inl ⟨rfl, rfl⟩
    | some y => exact h.elim
  | some x => cases y with
    | none => exact h.elim
    | some y => exact Or.inr ⟨x, y, rfl, rfl, h⟩

theorem down_sim (hs : Sim o₁ o₂ R) : ∀ (f : Nat) (a : σ₁) (b : σ₂) (i n : Int), R a b →
    RelO (fun x y => R x.1 y.1 ∧ x.2 = y.2) (down o₁ f a i n) (down o₂ f b i n) := by
  intro f
  induction f with
  | zero => intro a b i n _; simp [down, RelO]
  | succ f ih =>
    intro a b i n hab
    rw [down, down]
    by_cases hstop : 2 * i + 1 ≥ n ∨ 2 * i + 1 < 0
    · simp only [hstop, if_true]; exact ⟨hab, rfl⟩
    · simp only [hstop, if_false]
      -- first comparison (or none)
      have h1 : RelO (fun x y => R x.1 y.1 ∧ x.2 = y.2)
          (if 2 * i + 1 + 1 < n then o₁.less a (2 * i + 1 + 1) (2 * i + 1) else some (a, false))
          (if 2 * i + 1 + 1 < n then o₂.less b (2 * i + 1 + 1) (2 * i + 1) else some (b, false)) := by
        split
        · exact hs.less a b _ _ hab
        · exact ⟨hab, rfl⟩
      rcases relO_less_cases h1 with ⟨e1, e2⟩ | ⟨a1, b1, r, e1, e2, hab1⟩
      · rw [e1, e2]; simp [RelO]
      · rw [e1, e2]
        simp only []
        rcases relO_less_cases (hs.less a1 b1 (if r = true then 2 * i + 1 + 1 else 2 * i + 1) i hab1) with
          ⟨e3, e4⟩ | ⟨a2, b2, r2, e3, e4, hab2⟩
        · rw [e3, e4]; simp [RelO]
        · rw [e3, e4]
          cases r2 with
          | false => exact ⟨hab2, rfl⟩
          | true =>
            simp only []
            rcases relO_swap_cases (hs.swap a2 b2 i (if r = true then 2 * i + 1 + 1 else 2 * i + 1) hab2) with
              ⟨e5, e6⟩ | ⟨a3, b3, e5, e6, hab3⟩
            · rw [e5, e6]; simp [RelO]
            · rw [e5, e6]; exact ih a3 b3 _ n hab3

theorem downB_sim (hs : Sim o₁ o₂ R) (a : σ₁) (b : σ₂) (i n : Int) (hab : R a b) :
    RelO (fun x y => R x.1 y.1 ∧ x.2 = y.2) (downB o₁ a i n) (downB o₂ b i n) := by
  rcases relO_less_cases (R := R) (x := (down o₁ (fuelOf n) a i n).map fun p => (p.1, decide (p.2 > i)))
      (y := (down o₂ (fuelOf n) b i n).map fun p => (p.1, decide (p.2 > i))) (by
    have := down_sim hs (fuelOf n) a b i n hab
    cases h1 : down o₁ (fuelOf n) a i n <;> cases h2 : down o₂ (fuelOf n) b i n <;>
      rw [h1, h2] at this <;> simp [RelO] at this ⊢
    obtain ⟨h3, h4⟩ := this
    exact ⟨h3, by rw [h4]⟩) with ⟨e1, e2⟩ | ⟨a1, b1, r, e1, e2, h⟩
  · simp only [downB]; rw [e1, e2]; simp [RelO]
  · simp only [downB]; rw [e1, e2]; exact ⟨h, rfl⟩

theorem fix_sim (hs : Sim o₁ o₂ R) (a : σ₁) (b : σ₂) (i n : Int) (hab : R a b) :
    RelO R (fix o₁ a i n) (fix o₂ b i n) := by
  rcases relO_less_cases (downB_sim hs a b i n hab) with ⟨e1, e2⟩ | ⟨a1, b1, r, e1, e2, h⟩
  · simp only [fix, e1, e2]; simp [RelO]
  · simp only [fix, e1, e2]
    cases r with
    | true => exact h
    | false => exact up_sim hs _ a1 b1 i h

theorem buildLoop_sim (hs : Sim o₁ o₂ R) (n : Int) : ∀ (k : Nat) (a : σ₁) (b : σ₂), R a b →
    RelO R (buildLoop o₁ n k a) (buildLoop o₂ n k b) := by
  intro k
  induction k with
  | zero => intro a b hab; exact hab
  | succ k ih =>
    intro a b hab
    rcases relO_less_cases (downB_sim hs a b (k : Int) n hab) with ⟨e1, e2⟩ | ⟨a1, b1, r, e1, e2, h⟩
    · simp only [buildLoop, e1, e2]; simp [RelO]
    · simp only [buildLoop, e1, e2]; exact ih a1 b1 h

theorem build_sim (hs : Sim o₁ o₂ R) (a : σ₁) (b : σ₂) (n : Int) (hab : R a b) :
    RelO R (build o₁ a n) (build o₂ b n) :=
  buildLoop_sim hs n _ a b hab

/-! ### the recording container of the harness is a lawful `Interface` -/

theorem rec_sim (cmp : Int → Int → Bool) :
    Sim (recOps cmp) (sliceOps cmp) (fun r s => r.data = s) := by
  refine ⟨fun a b j i hab => ?_, fun a b i j hab => ?_⟩
  · subst hab
    simp only [recOps, sliceOps]
    cases nth a.data j <;> cases nth a.data i <;> simp [RelO]
  · subst hab
    simp only [recOps, sliceOps]
    cases swapL a.data i j <;> simp [RelO]


theorem relO_some {α β : Type} {R : α → β → Prop} {x : Option α} {b : β} (h : RelO R x (some b)) :
    ∃ a, x = some a ∧ R a b := by
  cases x with
  | none => exact h.elim
  | some a => exact ⟨a, rfl, h⟩

end Golib.C04
