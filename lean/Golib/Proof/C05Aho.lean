/-
C05 helper lemmas: the Aho–Corasick argument on labels.  Under `FailOK t` (every non-root
node's `fail` is the longest proper suffix that is a node — established for
`BuildFailureLinks` in `C05Bfs.lean`) the automaton state after a text is the longest
suffix of the text that is a node, and the output walk lists exactly the suffixes that
are inserted patterns.
-/
import Golib.Proof.C05Nodes

set_option linter.unusedSimpArgs false
set_option linter.unusedVariables false

namespace Golib.C05
open Golib

/-- The failure table is right: `fail n` = longest proper suffix of `n` that is a node. -/
def FailOK (t : Trie) : Prop :=
  ∀ n, IsNode t.pats n → n ≠ [] → t.failOf n = some (lps t.pats n)

/-! ### the fallback loop = the automaton transition -/

theorem lns_snoc_of_mem {ps : List (List Step)} {node : Label} {v : Int}
    (h : IsNode ps (node ++ [v])) : lns ps (node ++ [v]) = node ++ [v] := lns_of_isNode h

theorem lns_snoc_of_not_mem {ps : List (List Step)} {node : Label} {v : Int} (hne : node ≠ [])
    (h : ¬ IsNode ps (node ++ [v])) : lns ps (node ++ [v]) = lns ps (lps ps node ++ [v]) := by
  cases node with
  | nil => exact absurd rfl hne
  | cons a l =>
    have : isNodeB ps (a :: (l ++ [v])) = false := by
      simpa [IsNode] using h
    simp only [List.cons_append, lns, this, lps, List.tail_cons]
    exact lns_snoc ps l v

theorem lns_singleton_of_not_mem {ps : List (List Step)} {v : Int}
    (h : ¬ IsNode ps ([] ++ [v])) : lns ps ([] ++ [v]) = [] := by
  have : isNodeB ps [v] = false := by simpa [IsNode] using h
  simp [lns, this]

/-- Result of `idx := index(node.children, v)` for a node. -/
theorem index_children {t : Trie} {node : Label} {cs : List Int} (hc : t.children node = some cs)
    (v : Int) :
    (∃ i, index cs v = some (some i) ∧ cs[i]? = some v ∧ IsNode t.pats (node ++ [v])) ∨
    (index cs v = some none ∧ ¬ IsNode t.pats (node ++ [v])) := by
  have hs := children_sorted hc
  rcases index_spec cs v hs with ⟨i, h1, h2⟩ | ⟨h1, h2⟩
  · exact Or.inl ⟨i, h1, h2, (mem_children_iff hc v).1 (List.mem_of_getElem? h2)⟩
  · exact Or.inr ⟨h1, fun h => h2 ((mem_children_iff hc v).2 h)⟩

theorem fallLoop_spec (t : Trie) (hF : FailOK t) (v : Int) :
    ∀ (fuel : Nat) (node : Label) (idx : Option Nat) (cs : List Int), node.length < fuel →
      IsNode t.pats node → t.children node = some cs → index cs v = some idx →
      (∃ m i cs', fallLoop t v fuel node idx = some (m, some i) ∧ t.children m = some cs' ∧
          cs'[i]? = some v ∧ m ++ [v] = lns t.pats (node ++ [v])) ∨
      (fallLoop t v fuel node idx = some ([], none) ∧ lns t.pats (node ++ [v]) = []) := by
  intro fuel
  induction fuel with
  | zero => intro node _ _ h; omega
  | succ fuel ih =>
    intro node idx cs hlen hnode hc hidx
    simp only [fallLoop]
    rcases index_children hc v with ⟨i, h1, h2, h3⟩ | ⟨h1, h3⟩
    · -- found at this node
      rw [hidx] at h1; cases h1
      simp only [reduceCtorEq, and_false, if_false]
      exact Or.inl ⟨node, i, cs, rfl, hc, h2, (lns_snoc_of_mem h3).symm⟩
    · rw [hidx] at h1; cases h1
      by_cases hroot : node = []
      · subst hroot
        simp only [ne_eq, not_true_eq_false, false_and, if_false]
        exact Or.inr ⟨by trivial, lns_singleton_of_not_mem h3⟩
      · simp only [ne_eq, hroot, not_false_eq_true, and_self, if_true, hF node hnode hroot]
        obtain ⟨cs', hc'⟩ := children_exists t.pats (lps t.pats node)
        have hc'' : t.children (lps t.pats node) = some cs' := hc'
        simp only [hc'']
        have hidx' : ∃ idx', index cs' v = some idx' := by
          rcases index_children hc'' v with ⟨i, h, _⟩ | ⟨h, _⟩
          · exact ⟨_, h⟩
          · exact ⟨_, h⟩
        obtain ⟨idx', hidx'⟩ := hidx'
        simp only [hidx']
        rw [lns_snoc_of_not_mem hroot h3]
        exact ih (lps t.pats node) idx' cs' (by have := lps_length_lt t.pats node hroot; omega)
          (lps_isNode _ _) hc'' hidx'

/-- One automaton step (`fallback` then `childAt`): the new state is the longest suffix of
`node ++ [v]` that is a node; never panics. -/
theorem fallback_spec (t : Trie) (hF : FailOK t) (node : Label) (v : Int) (hnode : IsNode t.pats node) :
    (∃ m i, fallback t node v = some (m, some i) ∧
        childAt t m i = some (lns t.pats (node ++ [v])) ∧ lns t.pats (node ++ [v]) ≠ []) ∨
    (fallback t node v = some ([], none) ∧ lns t.pats (node ++ [v]) = []) := by
  obtain ⟨cs, hc⟩ := children_exists t.pats node
  have hc' : t.children node = some cs := hc
  have hidx : ∃ idx, index cs v = some idx := by
    rcases index_children hc' v with ⟨i, h, _⟩ | ⟨h, _⟩
    · exact ⟨_, h⟩
    · exact ⟨_, h⟩
  obtain ⟨idx, hidx⟩ := hidx
  simp only [fallback, hc', hidx]
  rcases fallLoop_spec t hF v (node.length + 1) node idx cs (by omega) hnode hc' hidx with
    ⟨m, i, cs', h1, h2, h3, h4⟩ | ⟨h1, h2⟩
  · refine Or.inl ⟨m, i, h1, ?_, ?_⟩
    · simp only [childAt, h2, h3, Option.map_some, h4]
    · rw [← h4]; simp
  · exact Or.inr ⟨h1, h2⟩

/-! ### the output walk -/

/-- The non-empty suffixes of `n`, longest first. -/
def neTails : Label → List Label
  | [] => []
  | a :: l => (a :: l) :: neTails l

theorem mem_neTails (m : Label) : ∀ n, m ∈ neTails n ↔ m ≠ [] ∧ m <:+ n
  | [] => by
    simp only [neTails, List.not_mem_nil, false_iff, not_and]
    intro h hs; exact h (List.suffix_nil.1 hs)
  | a :: l => by
    simp only [neTails, List.mem_cons, mem_neTails m l, List.suffix_cons_iff]
    constructor
    · rintro (h | ⟨h1, h2⟩)
      · subst h; exact ⟨by simp, Or.inl rfl⟩
      · exact ⟨h1, Or.inr h2⟩
    · rintro ⟨h1, h2 | h2⟩
      · exact Or.inl h2
      · exact Or.inr ⟨h1, h2⟩

theorem isEnd_iff (ps : List (List Step)) (m : Label) : isEnd ps m = true ↔ ∃ p ∈ ps, lab p = m := by
  simp [isEnd]

theorem isEnd_isNode {ps : List (List Step)} {m : Label} (h : isEnd ps m = true) : IsNode ps m := by
  obtain ⟨p, hp, rfl⟩ := (isEnd_iff ps m).1 h
  exact (isNode_iff ps _).2 (Or.inr ⟨p, hp, List.prefix_refl _⟩)

/-- Only suffixes that are nodes can be pattern ends, so the walk may start at `lns n`. -/
theorem filter_isEnd_lns (ps : List (List Step)) : ∀ n,
    (neTails n).filter (isEnd ps) = (neTails (lns ps n)).filter (isEnd ps)
  | [] => rfl
  | a :: l => by
    simp only [lns]
    by_cases h : isNodeB ps (a :: l) = true
    · simp only [h, if_true]
    · simp only [h]
      have : isEnd ps (a :: l) = false := by
        cases he : isEnd ps (a :: l) with
        | false => rfl
        | true => exact absurd (isEnd_isNode he) h
      simp only [neTails, List.filter_cons, this]
      exact filter_isEnd_lns ps l

/-- Scopes emitted at byte offset `i` in state `n`: one per suffix of `n` that is an
inserted pattern, longest first. -/
def outSpec (ps : List (List Step)) (i : Nat) (n : Label) : List Scope :=
  ((neTails n).filter (isEnd ps)).map fun m => ⟨(i : Int) - sizeOf ps m, i⟩

theorem outSpec_lns (ps : List (List Step)) (i : Nat) (n : Label) :
    outSpec ps i (lns ps n) = outSpec ps i n := by
  simp only [outSpec, ← filter_isEnd_lns]

theorem outWalk_spec (t : Trie) (hF : FailOK t) (i : Nat) : ∀ (fuel : Nat) (n : Label),
    n.length < fuel → IsNode t.pats n → outWalk t i fuel n = some (outSpec t.pats i n) := by
  intro fuel
  induction fuel with
  | zero => intro n h; omega
  | succ fuel ih =>
    intro n hlen hn
    cases n with
    | nil => simp [outWalk, outSpec, neTails]
    | cons a l =>
      have hne : a :: l ≠ [] := by simp
      simp only [outWalk, ne_eq, hne, not_false_eq_true, if_true, hF (a :: l) hn hne]
      have hl := lps_length_lt t.pats (a :: l) hne
      rw [ih (lps t.pats (a :: l)) (by omega) (lps_isNode _ _)]
      simp only [Option.map_some, lps, List.tail_cons, outSpec_lns]
      simp only [outSpec, neTails, List.filter_cons]
      split <;> simp

theorem any_eq_filter_ne_nil {α} (p : α → Bool) : ∀ l : List α, l.any p = !(l.filter p).isEmpty
  | [] => rfl
  | a :: l => by
    simp only [List.any_cons, List.filter_cons]
    cases h : p a <;> simp [any_eq_filter_ne_nil p l]

theorem anyEndWalk_spec (t : Trie) (hF : FailOK t) : ∀ (fuel : Nat) (n : Label),
    n.length < fuel → IsNode t.pats n →
    anyEndWalk t fuel n = some ((neTails n).any (isEnd t.pats)) := by
  intro fuel
  induction fuel with
  | zero => intro n h; omega
  | succ fuel ih =>
    intro n hlen hn
    cases n with
    | nil => simp [anyEndWalk, neTails]
    | cons a l =>
      have hne : a :: l ≠ [] := by simp
      simp only [anyEndWalk, ne_eq, hne, not_false_eq_true, if_true]
      by_cases he : isEnd t.pats (a :: l) = true
      · simp [he, neTails]
      · simp only [he, hF (a :: l) hn hne]
        have hl := lps_length_lt t.pats (a :: l) hne
        rw [ih (lps t.pats (a :: l)) (by omega) (lps_isNode _ _)]
        have h1 := filter_isEnd_lns t.pats l
        simp only [neTails, List.any_cons, he, Bool.false_or, lps, List.tail_cons, Bool.false_eq_true, if_false]
        congr 1
        rw [any_eq_filter_ne_nil, any_eq_filter_ne_nil, h1]

/-! ### `find` and `Match` -/

/-- What `find` must emit on the remaining `steps`, after the runes `seen`, at byte
offset `i`: at every end position, one scope per suffix of the text read so far that is
an inserted pattern, longest first. -/
def findSpec (ps : List (List Step)) : List Step → Label → Nat → List Scope
  | [], _, _ => []
  | (r, sz) :: rest, seen, i =>
    outSpec ps (i + sz) (seen ++ [r]) ++ findSpec ps rest (seen ++ [r]) (i + sz)

def matchSpec (ps : List (List Step)) : List Step → Label → Bool
  | [], _ => false
  | (r, _) :: rest, seen => (neTails (seen ++ [r])).any (isEnd ps) || matchSpec ps rest (seen ++ [r])

theorem findLoop_spec (t : Trie) (hF : FailOK t) : ∀ (steps : List Step) (seen : Label) (i : Nat)
    (acc : List Scope),
    findLoop t steps (lns t.pats seen) i acc = some (acc ++ findSpec t.pats steps seen i) := by
  intro steps
  induction steps with
  | nil => intro seen i acc; simp [findLoop, findSpec]
  | cons st rest ih =>
    intro seen i acc
    obtain ⟨r, sz⟩ := st
    simp only [findLoop, findSpec]
    have hstate := lns_snoc t.pats seen r
    rcases fallback_spec t hF (lns t.pats seen) r (lns_isNode _ _) with ⟨m, idx, h1, h2, h3⟩ | ⟨h1, h2⟩
    · simp only [h1, h2]
      rw [← hstate] at h3 ⊢
      rw [outWalk_spec t hF (i + sz) _ _ (Nat.lt_succ_self _) (lns_isNode _ _)]
      simp only [outSpec_lns]
      rw [ih (seen ++ [r]) (i + sz), List.append_assoc]
    · simp only [h1]
      rw [← hstate] at h2
      have hout : outSpec t.pats (i + sz) (seen ++ [r]) = [] := by
        rw [← outSpec_lns, h2]; rfl
      have := ih (seen ++ [r]) (i + sz) acc
      rw [h2] at this
      rw [this, hout, List.nil_append]

/-- `find` on the decoded text under a correct failure table: no panic, and exactly the
specified scopes in the specified order. -/
theorem findSteps_spec (t : Trie) (hF : FailOK t) (steps : List Step) :
    findSteps t steps = some (findSpec t.pats steps [] 0) := by
  have := findLoop_spec t hF steps [] 0 []
  simpa [findSteps, lns] using this

theorem matchLoop_spec (t : Trie) (hF : FailOK t) : ∀ (steps : List Step) (seen : Label),
    matchLoop t steps (lns t.pats seen) = some (matchSpec t.pats steps seen) := by
  intro steps
  induction steps with
  | nil => intro seen; simp [matchLoop, matchSpec]
  | cons st rest ih =>
    intro seen
    obtain ⟨r, sz⟩ := st
    simp only [matchLoop, matchSpec]
    have hstate := lns_snoc t.pats seen r
    have hany : (neTails (seen ++ [r])).any (isEnd t.pats)
        = (neTails (lns t.pats (seen ++ [r]))).any (isEnd t.pats) := by
      rw [any_eq_filter_ne_nil, any_eq_filter_ne_nil, filter_isEnd_lns]
    rcases fallback_spec t hF (lns t.pats seen) r (lns_isNode _ _) with ⟨m, idx, h1, h2, h3⟩ | ⟨h1, h2⟩
    · simp only [h1, h2]
      rw [← hstate] at h3 ⊢
      rw [anyEndWalk_spec t hF _ _ (Nat.lt_succ_self _) (lns_isNode _ _), ← hany]
      cases hb : (neTails (seen ++ [r])).any (isEnd t.pats)
      · simp only [Bool.false_or]; exact ih (seen ++ [r])
      · simp
    · simp only [h1]
      rw [← hstate] at h2
      have : (neTails (seen ++ [r])).any (isEnd t.pats) = false := by
        rw [hany, h2]; rfl
      rw [this, Bool.false_or]
      have := ih (seen ++ [r])
      rw [h2] at this
      exact this

theorem matchSteps_spec (t : Trie) (hF : FailOK t) (steps : List Step) :
    matchSteps t steps = some (matchSpec t.pats steps []) := by
  have := matchLoop_spec t hF steps []
  simpa [matchSteps, lns] using this

/-- `Match` is true iff `find` reports something. -/
theorem matchSpec_iff_findSpec (ps : List (List Step)) : ∀ (steps : List Step) (seen : Label) (i : Nat),
    matchSpec ps steps seen = true ↔ findSpec ps steps seen i ≠ [] := by
  intro steps
  induction steps with
  | nil => intro seen i; simp [matchSpec, findSpec]
  | cons st rest ih =>
    intro seen i
    obtain ⟨r, sz⟩ := st
    simp only [matchSpec, findSpec, Bool.or_eq_true, ne_eq, List.append_eq_nil_iff, Classical.not_and_iff_not_or_not,
      ih (seen ++ [r]) (i + sz)]
    have : (neTails (seen ++ [r])).any (isEnd ps) = true ↔ ¬ outSpec ps (i + sz) (seen ++ [r]) = [] := by
      rw [any_eq_filter_ne_nil]
      simp only [outSpec, List.map_eq_nil_iff]
      cases h : List.filter (isEnd ps) (neTails (seen ++ [r])) <;> simp
    rw [this]

/-! ### the automaton state -/

/-- The state transitions of `Match` / `find` / `FuzzySearch` alone. -/
def stateLoop (t : Trie) : List Step → Label → Option Label
  | [], node => some node
  | (r, _) :: rest, node =>
    match fallback t node r with
    | none => none
    | some (node, none) => stateLoop t rest node
    | some (node, some idx) =>
      match childAt t node idx with
      | none => none
      | some node' => stateLoop t rest node'

/-- After reading `steps` from the state of `seen`, the state is the longest suffix of the
runes read so far that is a trie node. -/
theorem stateLoop_spec (t : Trie) (hF : FailOK t) : ∀ (steps : List Step) (seen : Label),
    stateLoop t steps (lns t.pats seen) = some (lns t.pats (seen ++ lab steps)) := by
  intro steps
  induction steps with
  | nil => intro seen; simp [stateLoop, lab]
  | cons st rest ih =>
    intro seen
    obtain ⟨r, sz⟩ := st
    simp only [stateLoop]
    have hstate := lns_snoc t.pats seen r
    have hl : seen ++ lab ((r, sz) :: rest) = (seen ++ [r]) ++ lab rest := by simp [lab]
    rcases fallback_spec t hF (lns t.pats seen) r (lns_isNode _ _) with ⟨m, idx, h1, h2, h3⟩ | ⟨h1, h2⟩
    · simp only [h1, h2]
      rw [← hstate, hl]; exact ih (seen ++ [r])
    · simp only [h1]
      rw [← hstate] at h2
      have := ih (seen ++ [r])
      rw [h2] at this
      rw [hl]; exact this

end Golib.C05
