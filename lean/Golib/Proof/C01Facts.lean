/-
C01 — obligations tying the model's program-counter order to the source.
`Golib.Gen.C01.*Ops` is rewritten by the go/ast extractor on every run from
ringz/sync.go (shared-memory accesses in source order, including which expression is
stored into the slot's sequence number).  Each obligation RUNS the model's `step`
function for one thread alone and compares the sequence of program counters with the
extracted list.
-/
import Golib.Gen.FactsC01
import Golib.Model.C01Ring
import Golib.Model.C01Wait
import Golib.Model.C01Heap

namespace Golib.C01

def cfg32x2 : Cfg := { M := 2 ^ 32, cap := 2 }

theorem facts_push : soloSrc cfg32x2 (init cfg32x2 [[.push 5]]) 8 = Gen.C01.pushOps := by decide

/-- a one-element ring: push 5 by a first thread, then the observed thread pops -/
def oneElem : State :=
  { head := 0, tail := 1, slots := [⟨1, 5⟩, ⟨1, 0⟩], threads := [mkThread [.pop]], crashed := false }

theorem facts_pop : soloSrc cfg32x2 oneElem 9 = Gen.C01.popOps := by decide

theorem facts_len : soloSrc cfg32x2 (init cfg32x2 [[.len]]) 4 = Gen.C01.lenOps := by decide
theorem facts_isEmpty : soloSrc cfg32x2 (init cfg32x2 [[.isEmpty]]) 4 = Gen.C01.isEmptyOps := by decide
theorem facts_isFull : soloSrc cfg32x2 (init cfg32x2 [[.isFull]]) 4 = Gen.C01.isFullOps := by decide

/-- the expression stored by `Push` is `seq+1`, by `Pop` `seq+mask` (semantics of the
two store program counters, on a concrete state with a wrap-around) -/
theorem facts_store_exprs :
    (step cfg32x2 { oneElem with threads := [⟨.pushStore 1 4294967295, []⟩] } 0).2.acc = .stSeq 1 0 ∧
    (step cfg32x2 { oneElem with threads := [⟨.popStore 0 4294967295 7, []⟩] } 0).2.acc = .stSeq 0 0 := by
  decide

/-- the waiting forms have the control shape the model `waitCall` mirrors: in the ticker
loop the attempt's result is tested before the deadline -/
theorem facts_wait_shape :
    Gen.C01.pushWaitShape = waitShape ∧ Gen.C01.popWaitShape = waitShape := by decide

/-- `Init` unconditionally allocates its slot array (`World.init`) -/
theorem facts_init_allocates : Gen.C01.initValues = initValuesShape := by decide

end Golib.C01
