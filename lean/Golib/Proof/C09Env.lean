/-
Helper lemmas for C09: the CBC and GCM envelopes (`SaltBySecret*`, `Encrypt/Decrypt`,
`GCMEncrypt/GCMDecrypt`): wire format, parsing, totality.
-/
import Golib.Proof.C09Cred
import Golib.Proof.C08Main

namespace Golib.C09
open Golib.C08

/-- key = first 32 bytes, IV = last 16 bytes of the EVP key material -/
def evpKey (md5 : Bytes → Bytes) (secret salt : Bytes) : Bytes := (evp md5 secret salt).take 32
def evpIV (md5 : Bytes → Bytes) (secret salt : Bytes) : Bytes := (evp md5 secret salt).drop 32

theorem evpKey_length (md5 : Bytes → Bytes) (hmd : Md5Len md5) (secret salt : Bytes) :
    (evpKey md5 secret salt).length = 32 := by
  simp [evpKey, evp_length md5 hmd]

theorem evpIV_length (md5 : Bytes → Bytes) (hmd : Md5Len md5) (secret salt : Bytes) :
    (evpIV md5 secret salt).length = 16 := by
  simp [evpIV, evp_length md5 hmd]

theorem evpKey_ok (md5 : Bytes → Bytes) (hmd : Md5Len md5) (secret salt : Bytes) :
    keyOK (evpKey md5 secret salt) = true := by
  simp [keyOK, evpKey_length md5 hmd]

/-- md5 yields bytes -/
def Md5Bytes (md5 : Bytes → Bytes) : Prop := ∀ x, IsBytes (md5 x)

theorem evp_isBytes (md5 : Bytes → Bytes) (hb : Md5Bytes md5) (secret salt : Bytes) :
    IsBytes (evp md5 secret salt) := by
  unfold evp
  exact isBytes_append.mpr ⟨isBytes_append.mpr ⟨hb _, hb _⟩, hb _⟩

theorem evpKey_isBytes (md5 : Bytes → Bytes) (hb : Md5Bytes md5) (secret salt : Bytes) :
    IsBytes (evpKey md5 secret salt) := isBytes_take 32 (evp_isBytes md5 hb secret salt)

theorem evpIV_isBytes (md5 : Bytes → Bytes) (hb : Md5Bytes md5) (secret salt : Bytes) :
    IsBytes (evpIV md5 secret salt) := isBytes_drop 32 (evp_isBytes md5 hb secret salt)

theorem cred_slices (md5 : Bytes → Bytes) (hmd : Md5Len md5) (secret salt : Bytes) :
    sliceTo (evp md5 secret salt) keyLen = some (evpKey md5 secret salt) ∧
    sliceFrom (evp md5 secret salt) keyLen = some (evpIV md5 secret salt) := by
  have hl := evp_length md5 hmd secret salt
  exact ⟨sliceTo_nat _ 32 (by omega), sliceFrom_nat _ 32 (by omega)⟩

theorem header_length : fixedSaltHeader.length = 8 := by decide

theorem header_isBytes : IsBytes fixedSaltHeader := by
  intro y hy
  simp only [fixedSaltHeader, List.mem_cons, List.not_mem_nil, or_false] at hy
  omega

/-- building `|Salted__|salt|…body…|` in a zeroed buffer -/
theorem header_build (n : Nat) (salt : Bytes) (hs : salt.length = 8) :
    ∃ body,
      (let dst1 := copyInto (List.replicate (aesBlockSize + n) 0) fixedSaltHeader
       match sliceFrom dst1 8 with
       | none => none
       | some t8 =>
         let dst2 := dst1.take 8 ++ copyInto t8 salt
         match sliceFrom dst2 aesBlockSize with
         | none => none
         | some b => some (dst2.take aesBlockSize, b)) = some (fixedSaltHeader ++ salt, body) ∧
      body.length = n := by
  have h8 := header_length
  simp only [aesBlockSize]
  have e1 : copyInto (List.replicate (16 + n) 0) fixedSaltHeader
      = fixedSaltHeader ++ List.replicate (8 + n) 0 := by
    rw [copyInto_fits _ _ (by simp [h8]; omega), h8]; simp; omega
  rw [e1]
  have e2 : sliceFrom (fixedSaltHeader ++ List.replicate (8 + n) 0) 8 = some (List.replicate (8 + n) 0) := by
    have := sliceFrom_nat (fixedSaltHeader ++ List.replicate (8 + n) 0) 8 (by simp [h8])
    rw [← h8, List.drop_left] at this; rw [h8] at this; exact this
  rw [e2]
  simp only []
  have e3 : (fixedSaltHeader ++ List.replicate (8 + n) 0).take 8 = fixedSaltHeader :=
    List.take_left' h8
  have e4 : copyInto (List.replicate (8 + n) 0) salt = salt ++ List.replicate n 0 := by
    rw [copyInto_fits _ _ (by simp [hs]), hs]; simp
  rw [e3, e4]
  have hl : (fixedSaltHeader ++ salt).length = 16 := by simp [h8, hs]
  have e5 : sliceFrom (fixedSaltHeader ++ (salt ++ List.replicate n 0)) ((16 : Nat) : Int)
      = some (List.replicate n 0) := by
    rw [sliceFrom_nat _ 16 (by simp [h8, hs]; omega), ← List.append_assoc, ← hl, List.drop_left]
  rw [e5]
  simp only []
  refine ⟨List.replicate n 0, ?_, by simp⟩
  rw [← List.append_assoc, ← hl, List.take_left]

/-- slicing the header off any input of at least 16 bytes -/
theorem parse_slices (ct : Bytes) (h : 16 ≤ ct.length) :
    sliceTo ct 8 = some (ct.take 8) ∧ sliceTo ct aesBlockSize = some (ct.take 16) ∧
    sliceFrom (ct.take 16) 8 = some ((ct.take 16).drop 8) ∧
    sliceFrom ct aesBlockSize = some (ct.drop 16) := by
  refine ⟨sliceTo_nat ct 8 (by omega), sliceTo_nat ct 16 (by omega), ?_, sliceFrom_nat ct 16 (by omega)⟩
  exact sliceFrom_nat (ct.take 16) 8 (by simp; omega)

theorem envelope_parts (salt body : Bytes) (hs : salt.length = 8) :
    (fixedSaltHeader ++ salt ++ body).take 8 = fixedSaltHeader ∧
    ((fixedSaltHeader ++ salt ++ body).take 16).drop 8 = salt ∧
    (fixedSaltHeader ++ salt ++ body).drop 16 = body := by
  have h8 := header_length
  have hl : (fixedSaltHeader ++ salt).length = 16 := by simp [h8, hs]
  refine ⟨?_, ?_, ?_⟩
  · rw [List.append_assoc]; exact List.take_left' h8
  · rw [List.take_left' hl, ← h8, List.drop_left]
  · rw [← hl, List.drop_left]

/-! ### CBC envelope -/

theorem saltBySecretCBCEncrypt_spec (P : Prims) (hmd : Md5Len P.md5) (salt pt secret : Bytes)
    (hs : salt.length = 8) :
    saltBySecretCBCEncrypt P salt pt secret =
      .ok (fixedSaltHeader ++ salt ++
        cbcEncrypt (P.C.E (evpKey P.md5 secret salt)) (evpIV P.md5 secret salt) (padded pt)) := by
  unfold saltBySecretCBCEncrypt
  rw [deriveCred_eq P.md5 hmd]
  simp only []
  obtain ⟨hk, hiv⟩ := cred_slices P.md5 hmd secret salt
  rw [hk, hiv]
  simp only []
  obtain ⟨body, hb, hbl⟩ := header_build (cbcEncryptLen pt.length) salt hs
  simp only [] at hb
  -- walk through the two slices following `header_build`
  generalize hd1 : copyInto (List.replicate (aesBlockSize + cbcEncryptLen pt.length) 0) fixedSaltHeader = dst1 at hb ⊢
  cases h8 : sliceFrom dst1 8 with
  | none => rw [h8] at hb; cases hb
  | some t8 =>
    rw [h8] at hb
    simp only [] at hb ⊢
    cases h16 : sliceFrom (dst1.take 8 ++ copyInto t8 salt) aesBlockSize with
    | none => rw [h16] at hb; cases hb
    | some b =>
      rw [h16] at hb
      simp only [] at hb ⊢
      injection hb with hb
      injection hb with hb1 hb2
      subst hb2
      rw [aesCBCEncrypt_spec P.C b pt _ _ (evpKey_ok P.md5 hmd secret salt)
        (evpIV_length P.md5 hmd secret salt) hbl]
      simp only []
      rw [hb1]

theorem saltBySecretCBCDecrypt_total (P : Prims) (hmd : Md5Len P.md5)
    (hD : ∀ k, keyOK k = true → ∀ x, x.length = 16 → (P.C.D k x).length = 16)
    (ct secret : Bytes) (reuse : Bool) :
    saltBySecretCBCDecrypt P ct secret reuse ≠ .panic := by
  unfold saltBySecretCBCDecrypt
  split
  · simp
  · rename_i hlen
    have hlen' : 32 ≤ ct.length ∧ ct.length % 16 = 0 := by
      rw [and15] at hlen; simp only [aesBlockSize] at hlen; omega
    obtain ⟨s1, s2, s3, s4⟩ := parse_slices ct (by omega)
    rw [s1, s2]
    simp only []
    split
    · simp
    · rw [s3]
      simp only []
      rw [deriveCred_eq P.md5 hmd]
      simp only []
      obtain ⟨hk, hiv⟩ := cred_slices P.md5 hmd secret ((ct.take 16).drop 8)
      rw [hk, hiv, s4]
      simp only []
      generalize hlay : (if reuse = true then DecLayout.inplace
        else DecLayout.fresh (List.replicate (ct.drop 16).length 0)) = lay
      have hbl : 16 ≤ (ct.drop 16).length ∧ (ct.drop 16).length % 16 = 0 := by
        simp only [List.length_drop]; omega
      have hlayl : ∀ d, lay = .fresh d → d.length = (ct.drop 16).length := by
        intro d hd
        cases reuse <;> simp at hlay
        · rw [← hlay] at hd; injection hd with hd; rw [← hd]; simp
        · rw [← hlay] at hd; cases hd
      obtain ⟨hnp, hiff⟩ := (main_cbc_decrypt_rejects P.C lay (ct.drop 16)
        (evpKey P.md5 secret ((ct.take 16).drop 8)) (evpIV P.md5 secret ((ct.take 16).drop 8))).2.2
        (evpKey_ok P.md5 hmd _ _) (evpIV_length P.md5 hmd _ _) hbl.1 hbl.2 hlayl (hD _ (evpKey_ok P.md5 hmd _ _))
      cases hr : aesCBCDecrypt P.C lay (ct.drop 16) (evpKey P.md5 secret ((ct.take 16).drop 8))
          (evpIV P.md5 secret ((ct.take 16).drop 8)) with
      | panic => exact absurd hr hnp
      | err e => simp
      | ok r =>
        obtain ⟨n, d⟩ := r
        simp only []
        obtain ⟨hd, p, hp1, hp16, hn, _⟩ := (hiff n d).1 hr
        have hdl : d.length = (ct.drop 16).length := by
          rw [hd]
          exact cbcDecrypt_length _ (hD _ (evpKey_ok P.md5 hmd _ _)) ((ct.drop 16).length / 16) _ _
            (evpIV_length P.md5 hmd _ _) (by omega)
        have : sliceTo d n = some (d.take n.toNat) := by
          unfold sliceTo
          have : 0 ≤ n ∧ n ≤ (d.length : Int) := by omega
          rw [if_pos this]
        rw [this]
        simp

/-! ### GCM envelope -/

/-- the GCM nonce: the first 12 IV bytes -/
def evpNonce (md5 : Bytes → Bytes) (secret salt : Bytes) : Bytes := (evpIV md5 secret salt).take 12

theorem evpNonce_slice (md5 : Bytes → Bytes) (hmd : Md5Len md5) (secret salt : Bytes) :
    sliceTo (evpIV md5 secret salt) nonceSize = some (evpNonce md5 secret salt) ∧
    evpNonce md5 secret salt ≠ [] := by
  have hl := evpIV_length md5 hmd secret salt
  refine ⟨sliceTo_nat _ 12 (by omega), ?_⟩
  intro h
  have : (evpNonce md5 secret salt).length = 12 := by simp [evpNonce, hl]
  rw [h] at this; simp at this

theorem saltBySecretGCMEncrypt_spec (P : Prims) (hmd : Md5Len P.md5)
    (hseal : ∀ k, keyOK k = true → ∀ n p a, (P.A.sealF k n p a).length = p.length + 16)
    (salt pt secret ad : Bytes) (hs : salt.length = 8) :
    saltBySecretGCMEncrypt P salt pt secret ad =
      .ok (fixedSaltHeader ++ salt ++
        P.A.sealF (evpKey P.md5 secret salt) (evpNonce P.md5 secret salt) pt ad) := by
  unfold saltBySecretGCMEncrypt
  rw [deriveCred_eq P.md5 hmd]
  simp only []
  obtain ⟨hk, hiv⟩ := cred_slices P.md5 hmd secret salt
  rw [hk, hiv]
  simp only []
  obtain ⟨hn, hne⟩ := evpNonce_slice P.md5 hmd secret salt
  rw [hn]
  simp only []
  obtain ⟨body, hb, hbl⟩ := header_build (gcmEncryptLen pt.length) salt hs
  simp only [] at hb
  generalize hd1 : copyInto (List.replicate (aesBlockSize + gcmEncryptLen pt.length) 0) fixedSaltHeader = dst1 at hb ⊢
  cases h8 : sliceFrom dst1 8 with
  | none => rw [h8] at hb; cases hb
  | some t8 =>
    rw [h8] at hb
    simp only [] at hb ⊢
    cases h16 : sliceFrom (dst1.take 8 ++ copyInto t8 salt) aesBlockSize with
    | none => rw [h16] at hb; cases hb
    | some b =>
      rw [h16] at hb
      simp only [] at hb ⊢
      injection hb with hb
      injection hb with hb1 hb2
      subst hb2
      rw [(main_gcm_lens P.A b pt _ _ ad (hseal _ (evpKey_ok P.md5 hmd secret salt)) (evpKey_ok P.md5 hmd secret salt) hne hbl).2.2]
      simp only []
      rw [hb1]

/-- what `SaltBySecretGCMDecrypt` answers on an input with a well-formed header -/
theorem saltBySecretGCMDecrypt_eq (P : Prims) (hmd : Md5Len P.md5)
    (hopenlen : ∀ k, keyOK k = true → ∀ n c a p, P.A.openF k n c a = some p → c.length = p.length + 16)
    (ct secret ad : Bytes) (reuse : Bool) (h16 : 16 ≤ ct.length)
    (hmagic : ct.take 8 = fixedSaltHeader) :
    saltBySecretGCMDecrypt P ct secret ad reuse =
      match P.A.openF (evpKey P.md5 secret ((ct.take 16).drop 8))
          (evpNonce P.md5 secret ((ct.take 16).drop 8)) (ct.drop 16) ad with
      | none => .err "open"
      | some p => .ok p := by
  unfold saltBySecretGCMDecrypt
  have hl : ¬ ct.length < aesBlockSize := by simp only [aesBlockSize]; omega
  rw [if_neg hl]
  obtain ⟨s1, s2, s3, s4⟩ := parse_slices ct h16
  rw [s1, s2]
  simp only []
  have hm : ¬ ct.take 8 ≠ fixedSaltHeader := by simp [hmagic]
  rw [if_neg hm, s3]
  simp only []
  rw [deriveCred_eq P.md5 hmd]
  simp only []
  obtain ⟨hk, hiv⟩ := cred_slices P.md5 hmd secret ((ct.take 16).drop 8)
  rw [hk, hiv, s4]
  simp only []
  obtain ⟨hn, hne⟩ := evpNonce_slice P.md5 hmd secret ((ct.take 16).drop 8)
  rw [hn]
  simp only []
  unfold aesGCMDecrypt
  have hk' : ¬ (¬ keyOK (evpKey P.md5 secret ((ct.take 16).drop 8)) = true) := by
    simp [evpKey_ok P.md5 hmd]
  have hn' : ¬ (evpNonce P.md5 secret ((ct.take 16).drop 8)).length = 0 :=
    fun h => hne (List.length_eq_zero_iff.mp h)
  rw [if_neg hk', if_neg hn']
  cases ho : P.A.openF (evpKey P.md5 secret ((ct.take 16).drop 8))
      (evpNonce P.md5 secret ((ct.take 16).drop 8)) (ct.drop 16) ad with
  | none => rfl
  | some p =>
    simp only []
    have hpl := hopenlen _ (evpKey_ok P.md5 hmd _ _) _ _ _ _ ho
    generalize hdst : (if reuse = true then ct.drop 16 else List.replicate (ct.drop 16).length 0) = dst
    have hdl : dst.length = (ct.drop 16).length := by
      rw [← hdst]; cases reuse <;> simp
    have happ : appendInto dst p = p ++ dst.drop p.length := by
      unfold appendInto
      have : p.length ≤ dst.length := by omega
      rw [if_pos this]
    rw [happ]
    have hlen : (p ++ dst.drop p.length).length = p.length + 16 := by
      simp only [List.length_append, List.length_drop]; omega
    have : sliceTo (p ++ dst.drop p.length) (gcmDecryptLen (p ++ dst.drop p.length).length) = some p := by
      rw [hlen]
      have : gcmDecryptLen (p.length + 16) = ((p.length : Nat) : Int) := by
        simp only [gcmDecryptLen, gcmTagSize]; omega
      rw [this, sliceTo_nat _ _ (by omega), List.take_left]
    rw [this]

theorem saltBySecretGCMDecrypt_total (P : Prims) (hmd : Md5Len P.md5)
    (hopenlen : ∀ k, keyOK k = true → ∀ n c a p, P.A.openF k n c a = some p → c.length = p.length + 16)
    (ct secret ad : Bytes) (reuse : Bool) :
    saltBySecretGCMDecrypt P ct secret ad reuse ≠ .panic := by
  by_cases h16 : 16 ≤ ct.length
  · by_cases hm : ct.take 8 = fixedSaltHeader
    · rw [saltBySecretGCMDecrypt_eq P hmd hopenlen ct secret ad reuse h16 hm]
      split <;> simp
    · unfold saltBySecretGCMDecrypt
      have hl : ¬ ct.length < aesBlockSize := by simp only [aesBlockSize]; omega
      rw [if_neg hl]
      obtain ⟨s1, s2, _, _⟩ := parse_slices ct h16
      rw [s1, s2]
      simp only []
      have : ct.take 8 ≠ fixedSaltHeader := hm
      rw [if_pos this]; simp
  · unfold saltBySecretGCMDecrypt
    have hl : ct.length < aesBlockSize := by simp only [aesBlockSize]; omega
    rw [if_pos hl]; simp

end Golib.C09
