/-
Go `int` is 64 bits; the models compute in unbounded `Int`.  This file states the guard under
which the two agree: every integer `Knapsack` / `FindDpSolvers` ever ADDS UP is the total of a
sub-selection of the items (the only additions in the code are `dp[i-w].score + value` and
`currentValue + value`, and the left operand is the recorded total of a recorded
sub-selection), and the total of any sub-selection lies between `-G` and `G`, where `G` is
the sum of the absolute values.  So `G < 2^63` (for positive values: the sum of all values
`< 2^63`) excludes overflow.
-/
import Golib.Proof.C18Knap
import Golib.Proof.C18SolvV

namespace Golib.C18

variable {α : Type}

/-- Sum of absolute values. -/
def absSum (f : α → Int) (l : List α) : Int := (l.map fun x => (f x).natAbs).sum

theorem absSum_cons (f : α → Int) (x : α) (l : List α) :
    absSum f (x :: l) = (f x).natAbs + absSum f l := by
  simp [absSum]

theorem absSum_nonneg (f : α → Int) : ∀ l : List α, 0 ≤ absSum f l
  | [] => by simp [absSum]
  | x :: l => by
    have := absSum_nonneg f l
    rw [absSum_cons]; omega

/-- The total of any sub-selection is bounded by the sum of the absolute values. -/
theorem isum_sublist_bound (f : α → Int) : ∀ {t l : List α}, t.Sublist l →
    -absSum f l ≤ isum f t ∧ isum f t ≤ absSum f l := by
  intro t l h
  induction h with
  | slnil => simp [isum, absSum]
  | cons x _ ih =>
    rw [absSum_cons]; omega
  | cons_cons x _ ih =>
    rw [absSum_cons]
    simp only [isum, List.map_cons, List.sum_cons] at ih ⊢
    omega

def fitsInt64 (x : Int) : Prop := -(2 : Int) ^ 63 ≤ x ∧ x < (2 : Int) ^ 63

theorem vsum_eq_isum (f : α → Int) (l : List α) : vsum f l = isum f l := rfl

/-- The addition in `Knapsack`'s inner loop: for a cell that is good for the processed items
`pre` (its score is the total of its recorded sub-selection — the table invariant `TableGood`
of the correctness proof), `dp[i-w].score + value` is the total of the sub-selection
`items ++ [item]` of `pre ++ [item]`. -/
theorem knap_addition_is_total (wf : α → Nat) (vf : α → Int) (pre : List α) (i : Nat)
    (src : Cell α) (x : α) (g : CellGood wf vf pre i src) :
    src.1 + vf x = isum vf (src.2 ++ [x]) ∧ (src.2 ++ [x]).Sublist (pre ++ [x]) := by
  obtain ⟨h1, _, h3, _⟩ := g
  refine ⟨?_, List.Sublist.append h1 (List.Sublist.refl _)⟩
  rw [← vsum_eq_isum, vsum_snoc, h3]

/-- The addition in `FindDpSolvers`: for a sound entry (its key is the total of its recorded
sub-selection of `pre`), `currentValue + value` is the total of `solver ++ [item]`. -/
theorem solv_addition_is_total (vf : α → Int) (pre : List α) (e : Int × List α) (x : α)
    (g : EntrySound vf pre e) :
    e.1 + vf x = isum vf (e.2 ++ [x]) ∧ (e.2 ++ [x]).Sublist (pre ++ [x]) := by
  refine ⟨?_, List.Sublist.append g.1 (List.Sublist.refl _)⟩
  rw [isum_snoc, g.2]

/-- The guard: if the sum of the absolute values is `< 2^63`, the total of every sub-selection
fits a Go `int` — in particular every sum formed by the two additions above, every table
score, every map key and the returned optimum. -/
theorem totals_fit_int64 (f : α → Int) (items : List α) (hg : absSum f items < (2 : Int) ^ 63)
    (t : List α) (ht : t.Sublist items) : fitsInt64 (isum f t) := by
  have := isum_sublist_bound f ht
  unfold fitsInt64
  omega

end Golib.C18
