/-
The executable AES-GCM of `Golib/Model/C08Gcm.lean` satisfies the AEAD hypotheses of the
C08/C09 property theorems: `Seal` appends a 16-byte tag, and `Open` inverts `Seal`.
Only the key-expansion length invariant (`encryptBlock_length`, file `C08AesKey`) is needed
for these: GCTR is an xor with a key stream of 16-element blocks, hence an involution.  No
hypothesis on the nonce, the plaintext or the additional data is needed.
The last section (`gcm_seal_bytes`: the sealed message consists of bytes) uses
`aes_encrypt_isBytes` from `C08AesInv`.
-/
import Golib.Model.C08Gcm
import Golib.Proof.C08AesInv

namespace Golib.C08
open AES GCM

theorem ofNatBE_length (len n : Nat) : (ofNatBE len n).length = len := by simp [ofNatBE]

theorem gctr_nil (key : Bytes) (f : Nat) (cb : List Nat) : gctr key f cb [] = [] := by
  cases f <;> simp [gctr]

theorem gctr_length (key : Bytes) (hk : keyOK key = true) :
    ∀ (f : Nat) (cb x : List Nat), x.length ≤ f → (gctr key f cb x).length = x.length := by
  intro f
  induction f with
  | zero =>
    intro cb x h
    have : x = [] := List.length_eq_zero_iff.mp (by omega)
    subst this; simp [gctr]
  | succ f ih =>
    intro cb x h
    cases x with
    | nil => simp [gctr]
    | cons a x =>
      simp only [gctr, List.isEmpty_cons, Bool.false_eq_true, if_false]
      rw [List.length_append, xorBlock_length, encryptBlock_length key _ hk,
        ih _ _ (by simp only [List.length_drop, List.length_cons] at h ⊢; omega)]
      simp only [List.length_take, List.length_drop, List.length_cons]
      omega

theorem gctr_succ (key : Bytes) (f : Nat) (cb x : List Nat) (hx : x.isEmpty = false) :
    gctr key (f + 1) cb x =
      xorBlock (x.take 16) (encryptBlock key cb) ++ gctr key f (inc32 cb) (x.drop 16) := by
  rw [gctr]; simp only [hx, Bool.false_eq_true, if_false]

theorem gctr_involution (key : Bytes) (hk : keyOK key = true) :
    ∀ (f : Nat) (cb x : List Nat), x.length ≤ f → gctr key f cb (gctr key f cb x) = x := by
  intro f
  induction f with
  | zero =>
    intro cb x h
    have : x = [] := List.length_eq_zero_iff.mp (by omega)
    subst this; simp [gctr]
  | succ f ih =>
    intro cb x h
    cases hx : x.isEmpty with
    | true =>
      have : x = [] := List.isEmpty_iff.mp hx
      subst this; simp [gctr]
    | false =>
      have hpos : 0 < x.length := by
        cases x with
        | nil => simp at hx
        | cons _ _ => simp
      have hks := encryptBlock_length key cb hk
      have hrestlen : (x.drop 16).length ≤ f := by
        simp only [List.length_drop]; omega
      rw [gctr_succ key f cb x hx]
      generalize hxb : xorBlock (x.take 16) (encryptBlock key cb) = xb
      generalize hrest : gctr key f (inc32 cb) (x.drop 16) = rest
      have hxbl : xb.length = min 16 x.length := by
        rw [← hxb, xorBlock_length, hks, List.length_take]; omega
      have hne : (xb ++ rest).isEmpty = false := by
        cases xb with
        | nil => simp at hxbl; omega
        | cons _ _ => rfl
      have hsplit : (xb ++ rest).take 16 = xb ∧ (xb ++ rest).drop 16 = rest := by
        by_cases hl : 16 ≤ x.length
        · have : xb.length = 16 := by omega
          rw [← this]; simp
        · have hd : x.drop 16 = [] := List.drop_eq_nil_of_le (by omega)
          have : rest = [] := by rw [← hrest, hd, gctr_nil]
          subst this
          have hlt : xb.length ≤ 16 := by omega
          simp [List.take_of_length_le hlt, List.drop_eq_nil_of_le hlt]
      rw [gctr_succ key f cb _ hne, hsplit.1, hsplit.2, ← hxb,
        xorBlock_cancel _ _ (by rw [hks, List.length_take]; omega),
        ← hrest, ih _ _ hrestlen, List.take_append_drop]

theorem tagOf_length (key : Bytes) (hk : keyOK key = true) (h : Nat) (j ad c : List Nat) :
    (tagOf key h j ad c).length = 16 := by
  simp only [tagOf]
  rw [xorBlock_length, encryptBlock_length key _ hk, ofNatBE_length]; rfl

/-- `Seal` returns the ciphertext (same length as the plaintext) followed by a 16-byte tag. -/
theorem gcm_seal_length (key nonce p ad : Bytes) (hk : keyOK key = true) :
    (GCM.gcmSeal key nonce p ad).length = p.length + 16 := by
  simp only [gcmSeal]
  rw [List.length_append, tagOf_length key hk, gctr_length key hk _ _ _ (Nat.le_refl _)]

/-- `Open` inverts `Seal` (same key, nonce and additional data). -/
theorem gcm_open_seal (key nonce p ad : Bytes) (hk : keyOK key = true) :
    GCM.gcmOpen key nonce (GCM.gcmSeal key nonce p ad) ad = some p := by
  unfold gcmSeal gcmOpen
  simp only []
  generalize hh : toNatBE (encryptBlock key (List.replicate 16 0)) = h
  generalize hj : j0 h nonce = j
  generalize hc : gctr key p.length (inc32 j) p = c
  have hcl : c.length = p.length := by rw [← hc]; exact gctr_length key hk _ _ _ (Nat.le_refl _)
  have htl := tagOf_length key hk h j ad c
  have hlen : (c ++ tagOf key h j ad c).length - 16 = c.length := by
    rw [List.length_append, htl]; omega
  have hnot : ¬ (c ++ tagOf key h j ad c).length < 16 := by
    rw [List.length_append, htl]; omega
  rw [if_neg hnot, hlen, List.take_left, List.drop_left, if_pos rfl, hcl, ← hc,
    gctr_involution key hk _ _ _ (Nat.le_refl _)]

/-- an accepted ciphertext is 16 bytes longer than the plaintext returned. -/
theorem gcm_open_length (key nonce c ad p : Bytes) (hk : keyOK key = true)
    (h : GCM.gcmOpen key nonce c ad = some p) : c.length = p.length + 16 := by
  simp only [gcmOpen] at h
  split at h
  · exact absurd h (by simp)
  · split at h
    · injection h with h
      rw [← h, gctr_length key hk _ _ _ (by simp)]
      simp only [List.length_take]; omega
    · exact absurd h (by simp)

/-! ### the sealed message consists of bytes -/

theorem ofNatBE_isBytes (len n : Nat) : IsBytes (ofNatBE len n) := by
  intro y hy
  obtain ⟨i, _, rfl⟩ := List.mem_map.mp hy
  exact Nat.mod_lt _ (by decide)

theorem isBytes_takeG {x : Bytes} (h : IsBytes x) (n : Nat) : IsBytes (x.take n) :=
  fun y hy => h y (List.mem_of_mem_take hy)

theorem isBytes_dropG {x : Bytes} (h : IsBytes x) (n : Nat) : IsBytes (x.drop n) :=
  fun y hy => h y (List.mem_of_mem_drop hy)

theorem gctr_isBytes (key : Bytes) (hk : keyOK key = true) (hkb : IsBytes key) :
    ∀ (f : Nat) (cb x : List Nat), IsBytes x → IsBytes (gctr key f cb x) := by
  intro f
  induction f with
  | zero => intro cb x _; simp [gctr, IsBytes]
  | succ f ih =>
    intro cb x hx
    cases he : x.isEmpty with
    | true => rw [gctr]; simp [he, IsBytes]
    | false =>
      rw [gctr_succ key f cb x he]
      exact allP_append.mpr
        ⟨xorBlock_isBytes _ _ (isBytes_takeG hx 16) (aes_encrypt_isBytes key cb hk hkb),
          ih _ _ (isBytes_dropG hx 16)⟩

set_option linter.unusedVariables false in
/-- `Seal` returns bytes (`hn` is not needed: counter blocks only go through `encryptBlock`). -/
theorem gcm_seal_bytes (key nonce p ad : Bytes) (hk : keyOK key = true) (hkb : IsBytes key)
    (hn : IsBytes nonce) (hp : IsBytes p) : IsBytes (GCM.gcmSeal key nonce p ad) := by
  unfold gcmSeal
  simp only []
  exact allP_append.mpr
    ⟨gctr_isBytes key hk hkb _ _ _ hp,
      xorBlock_isBytes _ _ (aes_encrypt_isBytes key _ hk hkb) (ofNatBE_isBytes _ _)⟩

end Golib.C08
