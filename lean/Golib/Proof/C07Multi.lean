/-
C07: text made of backslash-free runs and ANY NUMBER of well-formed escapes (adjacent ones
included) is decoded escape by escape; the runs are preserved byte for byte.  Generalises
`embedded` (one escape) by induction over the segments.
-/
import Golib.Proof.C07Embedded
import Golib.Proof.C07Round
import Golib.Proof.C07Utf16

namespace Golib.C07
open Golib

/-- `WF c esc den`: `esc` is a well-formed escape of codec `c` and denotes the bytes `den`. -/
inductive WF : Codec → Bytes → Bytes → Prop
  | octal (X : Bytes) : X.length = 3 → (∀ c ∈ X, isDigit 8 c = true) → valOf 8 X ≤ 255 →
      WF .octal (92 :: X) [valOf 8 X]
  | hex (X : Bytes) : X.length = 2 → (∀ c ∈ X, isDigit 16 c = true) →
      WF .hex (92 :: 120 :: X) [valOf 16 X]
  | unicode (X : Bytes) : X.length = 8 → (∀ c ∈ X, isDigit 16 c = true) → valOf 16 X ≤ 0x10FFFF →
      WF .unicode (92 :: 85 :: X) (Utf8.encodeRune (valOf 16 X : Nat))
  | bmp (X : Bytes) : X.length = 4 → (∀ c ∈ X, isDigit 16 c = true) →
      (valOf 16 X < 0xd800 ∨ valOf 16 X ≥ 0xe000) →
      WF .utf16 (92 :: 117 :: X) (Utf8.encodeRune (valOf 16 X : Nat))
  | pair (X Y : Bytes) : X.length = 4 → Y.length = 4 → (∀ c ∈ X, isDigit 16 c = true) →
      (∀ c ∈ Y, isDigit 16 c = true) → (0xd800 ≤ valOf 16 X ∧ valOf 16 X < 0xdc00) →
      (0xdc00 ≤ valOf 16 Y ∧ valOf 16 Y < 0xe000) →
      WF .utf16 (92 :: 117 :: X ++ (92 :: 117 :: Y))
        (Utf8.encodeRune (((valOf 16 X - 0xd800) * 1024 + (valOf 16 Y - 0xdc00) + 0x10000 : Nat) : Int))

/-- `Denotes c s out`: `s` consists of backslash-free runs and well-formed escapes of `c`;
`out` is `s` with every escape replaced by what it denotes. -/
inductive Denotes (c : Codec) : Bytes → Bytes → Prop
  | lit (t : Bytes) : 92 ∉ t → Denotes c t t
  | esc (pre e den rest out : Bytes) : 92 ∉ pre → WF c e den → Denotes c rest out →
      Denotes c (pre ++ e ++ rest) (pre ++ den ++ out)

theorem Codec.litSpec (c : Codec) : ∃ w, LitSpec c.dec w := by
  cases c
  · exact ⟨4, octal_litSpec⟩
  · exact ⟨4, hex_litSpec⟩
  · exact ⟨10, unicode_litSpec⟩
  · exact ⟨6, utf16_litSpec⟩

theorem Codec.headLit (c : Codec) : HeadLit c.dec := by
  cases c
  · exact octal_headLit
  · exact hex_headLit
  · exact unicode_headLit
  · exact utf16_headLit

/-- One well-formed escape in front of an arbitrary rest. -/
theorem wf_step {c : Codec} {e den : Bytes} (h : WF c e den) (r : Bytes) :
    parseFun c.dec (e ++ r) = den ++ parseFun c.dec r := by
  cases h with
  | octal X hl hd hv =>
    have hp := parseUint_digits (base := 8) (bits := 8) (by omega) (by omega) (by omega) hd (by omega)
    rw [hl] at hp
    have := octal_step (r := r) hl hp
    rw [Nat.mod_eq_of_lt (by omega)] at this
    simpa [Codec.dec] using this
  | hex X hl hd =>
    have hlt := valOf_lt (base := 16) (by omega) X hd
    rw [hl] at hlt
    have hp := parseUint_digits (base := 16) (bits := 8) (by omega) (by omega) (by omega) hd (by omega)
    rw [hl] at hp
    have := hex_step (r := r) hl hp
    rw [Nat.mod_eq_of_lt (by omega)] at this
    simpa [Codec.dec] using this
  | unicode X hl hd hv =>
    have hp := parseUint_digits (base := 16) (bits := 32) (by omega) (by omega) (by omega) hd (by omega)
    rw [hl] at hp
    simpa [Codec.dec] using unicode_step (r := r) hl hp hv
  | bmp X hl hd hv =>
    have hlt := valOf_lt (base := 16) (by omega) X hd
    rw [hl] at hlt
    have hp := parseUint_digits (base := 16) (bits := 16) (by omega) (by omega) (by omega) hd (by omega)
    rw [hl] at hp
    simpa [Codec.dec] using utf16_step1 (r := r) hl hp hv
  | pair X Y hl hl2 hd hd2 hv hw =>
    have hlt := valOf_lt (base := 16) (by omega) X hd
    have hlt2 := valOf_lt (base := 16) (by omega) Y hd2
    rw [hl] at hlt
    rw [hl2] at hlt2
    have hp := parseUint_digits (base := 16) (bits := 16) (by omega) (by omega) (by omega) hd (by omega)
    have hq := parseUint_digits (base := 16) (bits := 16) (by omega) (by omega) (by omega) hd2 (by omega)
    rw [hl] at hp
    rw [hl2] at hq
    have := utf16_step2 (r := r) hl hl2 hp hv hq hw
    obtain ⟨q, hq'⟩ : ∃ q, valOf 16 X = 0xd800 + q := ⟨valOf 16 X - 0xd800, by omega⟩
    obtain ⟨t, ht'⟩ : ∃ t, valOf 16 Y = 0xdc00 + t := ⟨valOf 16 Y - 0xdc00, by omega⟩
    have hdec : utf16Dec (valOf 16 X) (valOf 16 Y) =
        (((valOf 16 X - 0xd800) * 1024 + (valOf 16 Y - 0xdc00) + 0x10000 : Nat) : Int) := by
      rw [hq', ht', utf16Dec_pair q t (by omega) (by omega), Nat.add_sub_cancel_left,
        Nat.add_sub_cancel_left]
    rw [hdec] at this
    simpa [Codec.dec, List.append_assoc] using this

theorem denotes_parseFun {c : Codec} {s out : Bytes} (h : Denotes c s out) :
    parseFun c.dec s = out := by
  induction h with
  | lit t ht => exact parseFun_no_backslash c.headLit t ht
  | esc pre e den rest out hpre hwf _ ih =>
    obtain ⟨w, hl⟩ := c.litSpec
    rw [List.append_assoc, parseFun_lit_prefix hl pre _ hpre, wf_step hwf, ih, List.append_assoc]

end Golib.C07
