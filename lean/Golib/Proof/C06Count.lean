/-
C06 helper lemmas: the counting clause of `Replace`.

`mergeScopes` does not merge scopes that merely touch (`stop > start` is strict), so a
maximal covered region of the text may consist of several merged scopes, each of which
receives one copy of the replacement.  `coalesce` glues touching scopes of the merged list
into the maximal covered regions; `assemble_coalesce` rewrites the output of `Replace` as
"per maximal region `R`: `cntIn r R` copies", and `cntIn_le` / `cntIn_pos` bound that number
by the number of occurrences inside the region and by 1.
-/
import Golib.Proof.C06Assemble

set_option linter.unusedSimpArgs false
set_option linter.unusedVariables false

namespace Golib.C06
open Golib Golib.C05

/-- `[a, b)` is a maximal covered region of `l`: non-empty, every position in it is inside
some scope of `l`, and the positions just before and just after it are not. -/
def MaxRegion (l : List Scope) (a b : Int) : Prop :=
  a < b ∧ (∀ x, a ≤ x → x < b → covered l x) ∧ ¬ covered l (a - 1) ∧ ¬ covered l b

/-- Scope `s` lies inside `R`. -/
def insideB (R s : Scope) : Bool := decide (R.start ≤ s.start ∧ s.stop ≤ R.stop)

/-- Number of entries of `l` that lie inside `R`. -/
def cntIn (l : List Scope) (R : Scope) : Nat := l.countP (insideB R)

/-- `k` copies of `repl`, concatenated. -/
def copies (k : Nat) (repl : List Nat) : List Nat := (List.replicate k repl).flatten

/-- Increasing with a gap: earlier `stop <` later `start`. -/
def Separated (l : List Scope) : Prop := l.Pairwise fun a b => a.stop < b.start

/-- Glue touching neighbours of an increasing disjoint list. -/
def coalesce : List Scope → List Scope
  | [] => []
  | s :: ss =>
    match coalesce ss with
    | [] => [s]
    | R :: Rs => if s.stop = R.start then ⟨s.start, R.stop⟩ :: Rs else s :: R :: Rs

theorem copies_one (repl : List Nat) : copies 1 repl = repl := by simp [copies]

theorem copies_succ (k : Nat) (repl : List Nat) : copies (k + 1) repl = repl ++ copies k repl := by
  simp [copies, List.replicate_succ]

theorem MaxRegion_congr {l1 l2 : List Scope} (h : ∀ x, covered l1 x ↔ covered l2 x) (a b : Int) :
    MaxRegion l1 a b ↔ MaxRegion l2 a b := by
  unfold MaxRegion
  constructor
  · rintro ⟨h1, h2, h3, h4⟩
    exact ⟨h1, fun x hx1 hx2 => (h x).1 (h2 x hx1 hx2), fun hc => h3 ((h _).2 hc), fun hc => h4 ((h _).2 hc)⟩
  · rintro ⟨h1, h2, h3, h4⟩
    exact ⟨h1, fun x hx1 hx2 => (h x).2 (h2 x hx1 hx2), fun hc => h3 ((h _).1 hc), fun hc => h4 ((h _).1 hc)⟩

/-- A scope that meets a maximal covered region lies inside it. -/
theorem inside_of_meets {l : List Scope} {a b : Int} (hm : MaxRegion l a b) {s : Scope} (hs : s ∈ l)
    (x : Int) (hx1 : a ≤ x) (hx2 : x < b) (hs1 : s.start ≤ x) (hs2 : x < s.stop) :
    a ≤ s.start ∧ s.stop ≤ b := by
  obtain ⟨_, _, h3, h4⟩ := hm
  constructor
  · by_cases h : a ≤ s.start
    · exact h
    · exact absurd ⟨s, hs, by omega, by omega⟩ h3
  · by_cases h : s.stop ≤ b
    · exact h
    · exact absurd ⟨s, hs, by omega, by omega⟩ h4

/-! ### coalesce -/

theorem coalesce_lb (lo : Int) : ∀ (r : List Scope), (∀ t ∈ r, lo ≤ t.start) →
    ∀ R ∈ coalesce r, lo ≤ R.start := by
  intro r
  induction r with
  | nil => intro _ R hR; simp [coalesce] at hR
  | cons s ss ih =>
    intro h R hR
    have ih' := ih (fun t ht => h t (by simp [ht]))
    simp only [coalesce] at hR
    cases hc : coalesce ss with
    | nil =>
      rw [hc] at hR; simp only [List.mem_singleton] at hR
      subst hR; exact h _ (by simp)
    | cons R0 Rs =>
      rw [hc] at hR ih'
      simp only [] at hR
      split at hR
      · simp only [List.mem_cons] at hR
        rcases hR with rfl | hR
        · exact h s (by simp)
        · exact ih' R (by simp [hR])
      · simp only [List.mem_cons] at hR
        rcases hR with rfl | rfl | hR
        · exact h _ (by simp)
        · exact ih' _ (by simp)
        · exact ih' R (by simp [hR])

theorem coalesce_spec : ∀ (r : List Scope), Disjoint r → AllNonEmpty r →
    Separated (coalesce r) ∧ AllNonEmpty (coalesce r) ∧ (∀ x, covered (coalesce r) x ↔ covered r x) := by
  intro r
  induction r with
  | nil => intro _ _; exact ⟨by simp [coalesce, Separated], by simp [coalesce, AllNonEmpty], fun x => Iff.rfl⟩
  | cons s ss ih =>
    intro hd hne
    simp only [Disjoint, List.pairwise_cons] at hd
    have hsne : s.start < s.stop := hne s (by simp)
    obtain ⟨i1, i2, i3⟩ := ih hd.2 (fun t ht => hne t (by simp [ht]))
    have hlb := coalesce_lb s.stop ss hd.1
    simp only [coalesce]
    cases hc : coalesce ss with
    | nil =>
      rw [hc] at i3
      refine ⟨by simp [Separated], ?_, ?_⟩
      · intro t ht; simp only [List.mem_singleton] at ht; subst ht; exact hsne
      · intro x
        rw [covered_cons, covered_cons, ← i3 x]
    | cons R Rs =>
      rw [hc] at i1 i2 i3 hlb
      have hRne : R.start < R.stop := i2 R (by simp)
      have hsR : s.stop ≤ R.start := hlb R (by simp)
      simp only [Separated, List.pairwise_cons] at i1
      simp only []
      split
      · rename_i heq
        refine ⟨?_, ?_, ?_⟩
        · simp only [Separated, List.pairwise_cons]
          exact ⟨fun R' hR' => i1.1 R' hR', i1.2⟩
        · intro t ht
          simp only [List.mem_cons] at ht
          rcases ht with rfl | ht
          · show s.start < R.stop; omega
          · exact i2 t (by simp [ht])
        · intro x
          rw [covered_cons, covered_cons, ← i3 x, covered_cons]
          simp only []
          constructor
          · rintro (h | h)
            · by_cases hx : x < s.stop
              · exact Or.inl ⟨h.1, hx⟩
              · exact Or.inr (Or.inl ⟨by omega, h.2⟩)
            · exact Or.inr (Or.inr h)
          · rintro (h | h | h)
            · exact Or.inl ⟨h.1, by omega⟩
            · exact Or.inl ⟨by omega, h.2⟩
            · exact Or.inr h
      · rename_i hneq
        refine ⟨?_, ?_, ?_⟩
        · simp only [Separated, List.pairwise_cons]
          refine ⟨?_, i1.1, i1.2⟩
          intro R' hR'
          simp only [List.mem_cons] at hR'
          rcases hR' with rfl | hR'
          · omega
          · have := i1.1 R' hR'; omega
        · intro t ht
          simp only [List.mem_cons] at ht
          rcases ht with rfl | ht
          · exact hsne
          · exact i2 t (by simpa using ht)
        · intro x
          rw [covered_cons, covered_cons (l := ss), ← i3 x]

theorem sep_cases : ∀ (L : List Scope), Separated L → ∀ R ∈ L, ∀ R' ∈ L,
    R = R' ∨ R.stop < R'.start ∨ R'.stop < R.start := by
  intro L
  induction L with
  | nil => intro _ R hR; simp at hR
  | cons a l ih =>
    intro hs R hR R' hR'
    simp only [Separated, List.pairwise_cons] at hs
    simp only [List.mem_cons] at hR hR'
    rcases hR with rfl | hR <;> rcases hR' with rfl | hR'
    · exact Or.inl rfl
    · exact Or.inr (Or.inl (hs.1 R' hR'))
    · exact Or.inr (Or.inr (hs.1 R hR))
    · exact ih hs.2 R hR R' hR'

/-- Every member of a separated list of non-empty scopes is a maximal covered region of it. -/
theorem region_max (L : List Scope) (hs : Separated L) (hne : AllNonEmpty L) (R : Scope) (hR : R ∈ L) :
    MaxRegion L R.start R.stop := by
  have hR1 : R.start < R.stop := hne R hR
  refine ⟨hR1, fun x h1 h2 => ⟨R, hR, h1, h2⟩, ?_, ?_⟩
  · rintro ⟨R', hR', h1, h2⟩
    have := hne R' hR'; unfold Scope.NonEmpty at this
    rcases sep_cases L hs R hR R' hR' with rfl | h | h <;> omega
  · rintro ⟨R', hR', h1, h2⟩
    have := hne R' hR'; unfold Scope.NonEmpty at this
    rcases sep_cases L hs R hR R' hR' with rfl | h | h <;> omega

/-- …and there are no other maximal covered regions. -/
theorem region_all (L : List Scope) (hs : Separated L) (hne : AllNonEmpty L) (a b : Int)
    (hm : MaxRegion L a b) : (⟨a, b⟩ : Scope) ∈ L := by
  obtain ⟨R, hR, h1, h2⟩ := hm.2.1 a (Int.le_refl _) hm.1
  have hmR := region_max L hs hne R hR
  obtain ⟨i1, i2⟩ := inside_of_meets hm hR a (Int.le_refl _) hm.1 h1 h2
  have hRne : R.start < R.stop := hne R hR
  -- the region [a,b) meets R, so it lies inside R as well
  have ha : R.start = a := by omega
  have hb : R.stop = b := by
    by_cases h : R.stop < b
    · exact absurd (hm.2.1 R.stop (by omega) h) hmR.2.2.2
    · omega
  have : R = ⟨a, b⟩ := by cases R; simp only [Scope.mk.injEq]; exact ⟨ha, hb⟩
  rw [← this]; exact hR

/-! ### the output of `Replace`, region by region -/

theorem assemble_congr (text : List Nat) (f g : Scope → List Nat) : ∀ (l : List Scope) (begin : Nat),
    (∀ R ∈ l, f R = g R) → assemble text f begin l = assemble text g begin l := by
  intro l
  induction l with
  | nil => intro _ _; rfl
  | cons s ss ih =>
    intro begin h
    simp only [assemble, h s (by simp), ih s.stop.toNat (fun R hR => h R (by simp [hR]))]

theorem cntIn_cons (s : Scope) (l : List Scope) (R : Scope) :
    cntIn (s :: l) R = cntIn l R + if insideB R s then 1 else 0 := by
  simp only [cntIn, List.countP_cons]

theorem assemble_coalesce (text repl : List Nat) : ∀ (r : List Scope) (begin : Nat),
    Disjoint r → AllNonEmpty r →
    assemble text (fun _ => repl) begin r
      = assemble text (fun R => copies (cntIn r R) repl) begin (coalesce r) := by
  intro r
  induction r with
  | nil => intro _ _ _; rfl
  | cons s ss ih =>
    intro begin hd hne
    simp only [Disjoint, List.pairwise_cons] at hd
    have hsne : s.start < s.stop := hne s (by simp)
    have hne' : AllNonEmpty ss := fun t ht => hne t (by simp [ht])
    have ih' := ih s.stop.toNat hd.2 hne'
    obtain ⟨i1, i2, _⟩ := coalesce_spec ss hd.2 hne'
    have hlb := coalesce_lb s.stop ss hd.1
    -- no scope of `ss` lies inside `s`
    have hzero : cntIn ss s = 0 := by
      simp only [cntIn, List.countP_eq_zero, insideB, decide_eq_true_eq]
      intro t ht
      have h1 := hd.1 t ht
      have h2 : t.start < t.stop := hne' t ht
      omega
    simp only [assemble, coalesce]
    rw [ih']
    cases hc : coalesce ss with
    | nil =>
      simp only [assemble, cntIn_cons, hzero, insideB, Int.le_refl, and_self, decide_true, if_true,
        Nat.zero_add, copies_one]
    | cons R Rs =>
      rw [hc] at i1 i2 hlb
      have hRne : R.start < R.stop := i2 R (by simp)
      have hsR : s.stop ≤ R.start := hlb R (by simp)
      simp only [Separated, List.pairwise_cons] at i1
      -- `s` lies inside no later region
      have hout : ∀ R' ∈ Rs, insideB R' s = false := by
        intro R' hR'
        have := i1.1 R' hR'
        simp only [insideB, decide_eq_false_iff_not]; omega
      simp only []
      split
      · rename_i heq
        have hin : insideB ⟨s.start, R.stop⟩ s = true := by
          simp only [insideB, decide_eq_true_eq]; omega
        have hcnt : cntIn ss ⟨s.start, R.stop⟩ = cntIn ss R := by
          simp only [cntIn]
          apply List.countP_congr
          intro t ht
          have h1 := hd.1 t ht
          simp only [insideB, decide_eq_true_eq]
          constructor <;> intro h <;> omega
        simp only [assemble, cntIn_cons, hin, if_true, hcnt, copies_succ]
        have hempty : (text.take R.start.toNat).drop s.stop.toNat = [] := by
          rw [heq]; simp
        rw [hempty, List.nil_append]
        have hcong := assemble_congr text (fun R => copies (cntIn ss R) repl)
          (fun R => copies (cntIn (s :: ss) R) repl) Rs R.stop.toNat
          (fun R' hR' => by simp only [cntIn_cons, hout R' hR']; simp)
        rw [hcong]
        simp only [List.append_assoc]
        congr 2
        simp only [cntIn_cons]
      · rename_i hneq
        have hself : insideB s s = true := by simp [insideB]
        have hRout : insideB R s = false := by
          simp only [insideB, decide_eq_false_iff_not]; omega
        have hcong := assemble_congr text (fun R => copies (cntIn ss R) repl)
          (fun R => copies (cntIn (s :: ss) R) repl) (R :: Rs) s.stop.toNat
          (fun R' hR' => by
            simp only [List.mem_cons] at hR'
            rcases hR' with rfl | hR'
            · simp only [cntIn_cons, hRout]; simp
            · simp only [cntIn_cons, hout R' hR']; simp)
        rw [hcong]
        simp only [assemble, cntIn_cons, hzero, hself, if_true, copies_one, Nat.zero_add]

/-! ### bounds on the number of copies per region -/

theorem nodup_subset_length : ∀ (A B : List Int), A.Nodup → A ⊆ B → A.length ≤ B.length := by
  intro A
  induction A with
  | nil => intro B _ _; simp
  | cons a A' ih =>
    intro B hn hsub
    simp only [List.nodup_cons] at hn
    have ha : a ∈ B := hsub (by simp)
    have hsub' : A' ⊆ B.erase a := by
      intro x hx
      have hxa : x ≠ a := fun h => hn.1 (h ▸ hx)
      exact (List.mem_erase_of_ne hxa).2 (hsub (by simp [hx]))
    have := ih (B.erase a) hn.2 hsub'
    rw [List.length_erase_of_mem ha] at this
    have hpos : 0 < B.length := List.length_pos_of_mem ha
    simp only [List.length_cons]; omega

theorem disjoint_starts_lt : ∀ (r : List Scope), Disjoint r → AllNonEmpty r →
    r.Pairwise fun a b => a.start < b.start := by
  intro r hd hne
  unfold Disjoint at hd
  induction r with
  | nil => exact List.Pairwise.nil
  | cons s ss ih =>
    simp only [List.pairwise_cons] at hd ⊢
    refine ⟨fun t ht => ?_, ih hd.2 (fun t ht => hne t (by simp [ht]))⟩
    have h1 := hd.1 t ht
    have h2 : s.start < s.stop := hne s (by simp)
    omega

/-- At most as many merged scopes inside a window as there are occurrences inside it: each
merged scope begins with an occurrence contained in it, and merged scopes have distinct starts. -/
theorem cntIn_le {orig r : List Scope} (hm : Merged orig r) (R : Scope) : cntIn r R ≤ cntIn orig R := by
  simp only [cntIn, List.countP_eq_length_filter]
  have hA : ((r.filter (insideB R)).map (·.start)).Nodup := by
    have h1 := disjoint_starts_lt r hm.disj hm.ne
    have h2 : (r.filter (insideB R)).Pairwise fun a b => a.start < b.start :=
      h1.sublist List.filter_sublist
    have h3 : ((r.filter (insideB R)).map (·.start)).Pairwise (· < ·) := by
      rw [List.pairwise_map]; exact h2
    exact h3.imp (fun h => Int.ne_of_lt h)
  have hsub : (r.filter (insideB R)).map (·.start) ⊆ (orig.filter (insideB R)).map (·.start) := by
    intro x hx
    simp only [List.mem_map, List.mem_filter] at hx ⊢
    obtain ⟨s, ⟨hs, hin⟩, rfl⟩ := hx
    obtain ⟨o, ho, e1, e2⟩ := hm.starts s hs
    refine ⟨o, ⟨ho, ?_⟩, e1⟩
    simp only [insideB, decide_eq_true_eq] at hin ⊢
    omega
  have := nodup_subset_length _ _ hA hsub
  simpa using this

/-- At least one merged scope inside every maximal covered region. -/
theorem cntIn_pos {r : List Scope} {a b : Int} (hm : MaxRegion r a b) : 1 ≤ cntIn r ⟨a, b⟩ := by
  obtain ⟨s, hs, h1, h2⟩ := hm.2.1 a (Int.le_refl _) hm.1
  obtain ⟨i1, i2⟩ := inside_of_meets hm hs a (Int.le_refl _) hm.1 h1 h2
  have : 0 < cntIn r ⟨a, b⟩ := by
    simp only [cntIn, List.countP_pos_iff]
    exact ⟨s, hs, by simp only [insideB, decide_eq_true_eq]; exact ⟨i1, i2⟩⟩
  omega

end Golib.C06
