/-
C04 helper lemmas, part 10: `Push`, the (repaired) `Init` incl. re-`Init`, and `PopAll` of `Heap`.
-/
import Golib.Proof.C04HeapOps

set_option linter.unusedSimpArgs false
set_option linter.unusedVariables false

namespace Golib.C04
open Golib.C13 (PM IM)

/-! ### `Push` -/

theorem fresh_unowned {m : HMem} (hc : MemCore m) {e : Nat} (he : m.fresh ≤ e) : m.own.get e = none := by
  cases ho : m.own.get e with
  | none => rfl
  | some h' =>
    have hh' := hc.ownR e h' ho
    have := hc.ltf h' hh' e ((hc.own e h' hh').1 ho)
    omega

theorem push_spec {cm : Nat → Int → Int → Bool} {m : HMem} {h : Nat} (hs : SWO (cm h)) (hh : h < 2) (hok : MemOK cm m) (x : Int) :
    ∃ m', m.push (cm h) h x = some (m', m.fresh) ∧ MemOK cm m' ∧
      (m'.arr h).Perm (m.fresh :: m.arr h) ∧ m'.arr (oth h) = m.arr (oth h) ∧
      m'.val = m.val.set m.fresh x ∧ m'.fresh = m.fresh + 1 := by
  let m1 : HMem := { m with fresh := m.fresh + 1, val := m.val.set m.fresh x }
  have hc0 := hok.core
  have hc : MemCore m1 :=
    ⟨fun h' hh' => ⟨(hc0.idx h' hh').nodup, (hc0.idx h' hh').index⟩, hc0.own, hc0.ownR,
     fun h' hh' e he => Nat.lt_succ_of_lt (hc0.ltf h' hh' e he)⟩
  have hl : LeftOK m1 (fun y => y ≠ m.fresh) := by
    intro e hne hf ho
    have hf' : e < m.fresh + 1 := hf
    exact hok.left e trivial (by omega) ho
  have ho : ∀ h', h' < 2 → HeapOrd (cm h') m1 h' := by
    intro h' hh'
    rw [heapOrd_iff]
    refine ordAt_congr (m := m) rfl ?_ ((heapOrd_iff (cm h') m h').1 (hok.ord h' hh'))
    intro e he
    have := hc0.ltf h' hh' e he
    show (m.val.set m.fresh x).get e = _
    rw [IM.get_set]
    have : e ≠ m.fresh := by omega
    simp [this]
  obtain ⟨m', hrun, hok', hperm, hoth, hval, hfresh⟩ :=
    pushElement_core hs (m := m1) (e := m.fresh) hh hc hl ho (Nat.lt_succ_self _)
      (fresh_unowned hc0 (Nat.le_refl _))
  refine ⟨m', ?_, hok', hperm, hoth, hval, hfresh⟩
  show (m1.pushElement (cm h) h m.fresh).map (fun m2 => (m2, m.fresh)) = _
  rw [hrun]; rfl

/-! ### `Init` -/

theorem detachAll_spec (l : List Nat) : ∀ m : HMem,
    (m.detachAll l).a0 = m.a0 ∧ (m.detachAll l).a1 = m.a1 ∧ (m.detachAll l).val = m.val ∧
    (m.detachAll l).fresh = m.fresh ∧
    (∀ e, (m.detachAll l).own.get e = if e ∈ l then none else m.own.get e) ∧
    (∀ e, (m.detachAll l).idx.get e = if e ∈ l then -1 else m.idx.get e) := by
  induction l with
  | nil => intro m; simp [HMem.detachAll]
  | cons a l ih =>
    intro m
    obtain ⟨h1, h2, h3, h4, h5, h6⟩ := ih { m with own := m.own.set a none, idx := m.idx.set a (-1) }
    refine ⟨h1, h2, h3, h4, ?_, ?_⟩
    · intro e
      simp only [HMem.detachAll]
      rw [h5 e, PM.get_set]
      by_cases hel : e ∈ l <;> by_cases hea : e = a <;> simp [hel, hea]
    · intro e
      simp only [HMem.detachAll]
      rw [h6 e, IM.get_set]
      by_cases hel : e ∈ l <;> by_cases hea : e = a <;> simp [hel, hea]

theorem allocInit_spec (h : Nat) : ∀ (vs : List Int) (i : Nat) (m : HMem) (acc : List Nat),
    ∃ m', HMem.allocInit h vs i m acc = (m', acc ++ List.range' m.fresh vs.length) ∧
      m'.a0 = m.a0 ∧ m'.a1 = m.a1 ∧ m'.fresh = m.fresh + vs.length ∧
      (∀ e, m'.own.get e = if m.fresh ≤ e ∧ e < m.fresh + vs.length then some h else m.own.get e) ∧
      (∀ e, m'.idx.get e = if m.fresh ≤ e ∧ e < m.fresh + vs.length then ((i + (e - m.fresh) : Nat) : Int)
              else m.idx.get e) ∧
      (∀ e, m'.val.get e = if m.fresh ≤ e ∧ e < m.fresh + vs.length then vs.getD (e - m.fresh) 0
              else m.val.get e) := by
  intro vs
  induction vs with
  | nil => intro i m acc; exact ⟨m, by simp [HMem.allocInit], rfl, rfl, rfl, by simp; omega, by simp; omega, by simp; omega⟩
  | cons v vs ih =>
    intro i m acc
    let m1 : HMem := { m with fresh := m.fresh + 1, val := m.val.set m.fresh v,
                              own := m.own.set m.fresh (some h), idx := m.idx.set m.fresh (i : Int) }
    obtain ⟨m', hrun, h1, h2, h3, h4, h5, h6⟩ := ih (i + 1) m1 (acc ++ [m.fresh])
    refine ⟨m', ?_, h1, h2, ?_, ?_, ?_, ?_⟩
    · simp only [HMem.allocInit]
      rw [hrun]
      simp [List.range'_succ, m1]
    · rw [h3]; simp [m1]; omega
    · intro e
      rw [h4 e]
      show (if m.fresh + 1 ≤ e ∧ e < m.fresh + 1 + vs.length then some h
        else (m.own.set m.fresh (some h)).get e) = _
      rw [PM.get_set]
      simp only [List.length_cons]
      by_cases c1 : m.fresh + 1 ≤ e ∧ e < m.fresh + 1 + vs.length
      · have : m.fresh ≤ e ∧ e < m.fresh + (vs.length + 1) := by omega
        simp [c1, this]
      · by_cases c2 : e = m.fresh
        · subst c2
          rw [if_neg c1, if_pos rfl, if_pos (by omega)]
        · have : ¬ (m.fresh ≤ e ∧ e < m.fresh + (vs.length + 1)) := by omega
          simp [c1, c2, this]
    · intro e
      rw [h5 e]
      show (if m.fresh + 1 ≤ e ∧ e < m.fresh + 1 + vs.length then (((i + 1 + (e - (m.fresh + 1)) : Nat)) : Int)
        else (m.idx.set m.fresh (i : Int)).get e) = _
      rw [IM.get_set]
      simp only [List.length_cons]
      by_cases c1 : m.fresh + 1 ≤ e ∧ e < m.fresh + 1 + vs.length
      · have : m.fresh ≤ e ∧ e < m.fresh + (vs.length + 1) := by omega
        simp only [c1, this, if_true, and_self]
        omega
      · by_cases c2 : e = m.fresh
        · subst c2
          rw [if_neg c1, if_pos rfl, if_pos (by omega)]
          simp
        · have : ¬ (m.fresh ≤ e ∧ e < m.fresh + (vs.length + 1)) := by omega
          simp [c1, c2, this]
    · intro e
      rw [h6 e]
      show (if m.fresh + 1 ≤ e ∧ e < m.fresh + 1 + vs.length then vs.getD (e - (m.fresh + 1)) 0
        else (m.val.set m.fresh v).get e) = _
      rw [IM.get_set]
      simp only [List.length_cons]
      by_cases c1 : m.fresh + 1 ≤ e ∧ e < m.fresh + 1 + vs.length
      · have : m.fresh ≤ e ∧ e < m.fresh + (vs.length + 1) := by omega
        simp only [c1, this, if_true, and_self]
        have : e - m.fresh = (e - (m.fresh + 1)) + 1 := by omega
        rw [this, List.getD_cons_succ]
      · by_cases c2 : e = m.fresh
        · subst c2
          rw [if_neg c1, if_pos rfl, if_pos (by omega)]
          simp
        · have : ¬ (m.fresh ≤ e ∧ e < m.fresh + (vs.length + 1)) := by omega
          simp [c1, c2, this]

/-- `h.cmp = c` in a comparator table -/
def updC (cm : Nat → Int → Int → Bool) (h : Nat) (c : Int → Int → Bool) : Nat → Int → Int → Bool :=
  fun h' => if h' = h then c else cm h'

theorem updC_self (cm : Nat → Int → Int → Bool) (h : Nat) (c : Int → Int → Bool) : updC cm h c h = c := by
  simp [updC]

theorem updC_oth {h : Nat} (hh : h < 2) {cm : Nat → Int → Int → Bool} {c : Int → Int → Bool} :
    updC cm h c (oth h) = cm (oth h) := by
  simp [updC, oth_ne hh]

theorem init_spec {cm : Nat → Int → Int → Bool} {cmp} (hs : SWO cmp) {m : HMem} {h : Nat} (hh : h < 2) (hok : MemOK cm m)
    (vs : List Int) :
    ∃ m', m.init cmp h vs = some m' ∧ MemOK (updC cm h cmp) m' ∧
      (m'.arr h).Perm (List.range' m.fresh vs.length) ∧ m'.arr (oth h) = m.arr (oth h) ∧
      m'.fresh = m.fresh + vs.length ∧
      (∀ e, m'.val.get e = if m.fresh ≤ e ∧ e < m.fresh + vs.length then vs.getD (e - m.fresh) 0
              else m.val.get e) := by
  have hc0 := hok.core
  obtain ⟨d1, d2, d3, d4, d5, d6⟩ := detachAll_spec (m.arr h) m
  obtain ⟨m1, hal, a1, a2, a3, a4, a5, a6⟩ := allocInit_spec h vs 0 (m.detachAll (m.arr h)) []
  rw [d4] at hal a3 a4 a5 a6
  simp only [List.nil_append] at hal
  let f := m.fresh
  let L := vs.length
  let m2 : HMem := m1.setArr h (List.range' f L)
  have hrun0 : m.init cmp h vs = build (heapOps cmp h) m2 ((List.range' f L).length : Int) := by
    simp only [HMem.init, hal]
    rfl
  have inR : ∀ e, e ∈ List.range' f L ↔ (f ≤ e ∧ e < f + L) := fun e => List.mem_range'_1
  have A2 : m2.arr h = List.range' f L := arr_setArr m1 h _
  have O2 : m2.arr (oth h) = m.arr (oth h) :=
    (arr_setArr_oth m1 h _).trans (arr_congr m m1 (oth h) (a1.trans d1) (a2.trans d2))
  have F2 : m2.fresh = f + L := (fresh_setArr m1 h _).trans a3
  have OWN2 : ∀ e, m2.own.get e = if f ≤ e ∧ e < f + L then some h
      else if e ∈ m.arr h then none else m.own.get e := by
    intro e; rw [own_setArr, a4 e, d5 e]
  have IDX2 : ∀ e, m2.idx.get e = if f ≤ e ∧ e < f + L then (((0 + (e - f) : Nat)) : Int)
      else if e ∈ m.arr h then -1 else m.idx.get e := by
    intro e; rw [idx_setArr, a5 e, d6 e]
  have VAL2 : ∀ e, m2.val.get e = if f ≤ e ∧ e < f + L then vs.getD (e - f) 0 else m.val.get e := by
    intro e; rw [val_setArr, a6 e, d3]
  -- old elements are below `f`
  have oldlt : ∀ h', h' < 2 → ∀ e, e ∈ m.arr h' → ¬ (f ≤ e ∧ e < f + L) := by
    intro h' hh' e he
    have : e < f := hc0.ltf h' hh' e he
    omega
  have arr2 : ∀ h', h' < 2 → ∀ e, (e ∈ m2.arr h' ↔ if h' = h then (f ≤ e ∧ e < f + L) else e ∈ m.arr h') := by
    intro h' hh' e
    rcases eq_or_oth hh hh' with rfl | rfl
    · rw [A2, inR]; simp
    · rw [O2]; simp [oth_ne hh]
  have hI2 : IdxInv m2 h := by
    refine ⟨by rw [A2]; exact List.nodup_range' 1, ?_⟩
    intro k e hk
    rw [A2] at hk
    have hkL : k < L := by
      have := (List.getElem?_eq_some_iff.1 hk).1
      simpa using this
    rw [List.getElem?_range' hkL] at hk
    have : e = f + k := by simpa using (Option.some.inj hk).symm
    rw [IDX2 e, if_pos (by omega)]
    omega
  have hc2 : MemCore m2 := by
    refine ⟨?_, ?_, ?_, ?_⟩
    · intro h' hh'
      rcases eq_or_oth hh hh' with rfl | rfl
      · exact hI2
      · have hI := hc0.idx (oth h) (oth_lt2 h)
        refine ⟨by rw [O2]; exact hI.nodup, ?_⟩
        intro k e hk
        rw [O2] at hk
        have he : e ∈ m.arr (oth h) := List.mem_of_getElem? hk
        rw [IDX2 e, if_neg (oldlt _ (oth_lt2 h) e he), if_neg (hc0.disjoint' hh he)]
        exact hI.index k e hk
    · intro e h' hh'
      rw [OWN2 e, arr2 h' hh' e]
      by_cases c1 : f ≤ e ∧ e < f + L
      · simp only [c1, if_true]
        by_cases c2 : h' = h
        · simp [c2, c1]
        · simp only [c2, if_false]
          constructor
          · intro h1; exact absurd (Option.some.inj h1).symm c2
          · intro h1; exact absurd c1 (oldlt h' hh' e h1)
      · simp only [c1, if_false]
        by_cases c3 : e ∈ m.arr h
        · simp only [c3, if_true]
          by_cases c2 : h' = h
          · simp [c2, c1]
          · simp only [c2, if_false]
            rcases eq_or_oth hh hh' with rfl | rfl
            · exact absurd rfl c2
            · simp [hc0.disjoint hh c3]
        · simp only [c3, if_false]
          by_cases c2 : h' = h
          · subst c2
            simp only [if_true, c1, iff_false]
            intro h1; exact c3 ((hc0.own e h' hh').1 h1)
          · simp only [c2, if_false]
            exact hc0.own e h' hh'
    · intro e h' he
      rw [OWN2 e] at he
      by_cases c1 : f ≤ e ∧ e < f + L
      · simp only [c1, if_true] at he
        rw [← Option.some.inj he]; exact hh
      · simp only [c1, if_false] at he
        by_cases c3 : e ∈ m.arr h
        · simp [c3] at he
        · simp only [c3, if_false] at he
          exact hc0.ownR e h' he
    · intro h' hh' e he
      rw [F2]
      have := (arr2 h' hh' e).1 he
      by_cases c2 : h' = h
      · simp only [c2, if_true] at this; omega
      · simp only [c2, if_false] at this
        have : e < f := hc0.ltf h' hh' e this
        omega
  have hl2 : LeftOK m2 (fun _ => True) := by
    intro e _ hef heo
    rw [OWN2 e] at heo
    rw [IDX2 e]
    by_cases c1 : f ≤ e ∧ e < f + L
    · simp [c1] at heo
    · simp only [c1, if_false] at heo ⊢
      by_cases c3 : e ∈ m.arr h
      · simp [c3]
      · simp only [c3, if_false] at heo ⊢
        rw [F2] at hef
        exact hok.left e trivial (by omega) heo
  have ho2 : HeapOrd (cm (oth h)) m2 (oth h) := by
    rw [heapOrd_iff]
    refine ordAt_congr (m := m) O2 ?_ ((heapOrd_iff (cm (oth h)) m (oth h)).1 (hok.ord _ (oth_lt2 h)))
    intro e he
    rw [VAL2 e, if_neg (oldlt _ (oth_lt2 h) e he)]
  have hs' := cmpId_swo hs m2.val
  obtain ⟨s', hb, _, hperm', hheap'⟩ := build_spec hs' (ids m2 h)
  have hlenI : ((ids m2 h).length : Int) = ((List.range' f L).length : Int) := by
    simp [A2]
  rw [hlenI] at hb
  obtain ⟨m', hrun, R⟩ := build_transfer (cmp := cmp) (SiftRel.refl hI2) hb
  refine ⟨m', hrun0.trans hrun, sift_memOK (c := updC cm h cmp) hh hc2 hl2 (by rw [updC_oth hh]; exact ho2) R
      (by rw [updC_self]; exact hheap'), ?_, R.other.trans O2,
    R.fresh.trans F2, ?_⟩
  · exact R.perm.trans (by rw [A2])
  · intro e; rw [R.val]; exact VAL2 e

/-! ### `PopAll` -/

theorem popAll_spec {cm : Nat → Int → Int → Bool} {h : Nat} (hs : SWO (cm h)) (hh : h < 2) : ∀ (n : Nat) (m : HMem),
    (m.arr h).length = n → MemOK cm m →
    ∃ m' xs, HMem.popAll (cm h) h (n + 1) m = some (m', xs) ∧ MemOK cm m' ∧ m'.arr h = [] ∧
      m'.arr (oth h) = m.arr (oth h) ∧ m'.val = m.val ∧ m'.fresh = m.fresh ∧
      xs.Perm ((m.arr h).map m.val.get) ∧ xs.Pairwise (fun a b => (cm h) b a = false) := by
  intro n
  induction n with
  | zero =>
    intro m hlen hok
    have h0 : m.arr h = [] := List.length_eq_zero_iff.1 hlen
    refine ⟨m, [], ?_, hok, h0, rfl, rfl, rfl, by simp [h0], List.Pairwise.nil⟩
    rw [HMem.popAll, (pop_spec hs hh hok).1 h0]
  | succ n ih =>
    intro m hlen hok
    have hne : m.arr h ≠ [] := by intro h0; rw [h0] at hlen; simp at hlen
    obtain ⟨m1, hpop, hrm⟩ := (pop_spec hs hh hok).2 hne
    let e0 := elemAt m h 0
    have hlen1 : (m1.arr h).length = n := by
      have := hrm.perm.length_eq; simp at this; omega
    obtain ⟨m', xs, hrun, hok', hemp, hoth, hval, hfresh, hperm, hsorted⟩ := ih m1 hlen1 hrm.ok
    have hmin := heapOrd_root_min hs (hok.ord h hh)
    refine ⟨m', m1.val.get e0 :: xs, ?_, hok', hemp, hoth.trans hrm.other, hval.trans hrm.val,
      hfresh.trans hrm.fresh, ?_, ?_⟩
    · rw [HMem.popAll]; simp only [hpop, hrun]; rfl
    · have p1 : ((e0 :: m1.arr h).map m.val.get).Perm ((m.arr h).map m.val.get) := hrm.perm.map _
      rw [hrm.val]
      refine List.Perm.trans ?_ p1
      simp only [List.map_cons]
      exact List.Perm.cons _ (by rw [← hrm.val]; exact hperm)
    · refine List.Pairwise.cons ?_ hsorted
      intro y hy
      obtain ⟨e, he, rfl⟩ := List.mem_map.1 (hperm.subset hy)
      have : e ∈ m.arr h := hrm.perm.mem_iff.1 (List.mem_cons_of_mem _ he)
      rw [hrm.val]
      exact hmin e this

end Golib.C04
