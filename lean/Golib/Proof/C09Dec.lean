/-
The buffer-level wrappers `base64DecodeW` / `hexDecodeW` (`Golib/Model/C09Dec.lean`) never
panic, and agree with the pure decoders of `Model/C09Enc.lean`:

* `Enc.b64DecodeRaw` refines `Enc.b64Decode` and writes at most `DecodedLen(len(src))` bytes;
* under that length contract `base64DecodeW` is total;
* C15's buffer-level `hexDecode?` agrees with the pure `Enc.hexDecode`.
-/
import Golib.Model.C09Dec
import Golib.Proof.C09EncInv
import Golib.Proof.C15Hex

namespace Golib.C09
open Golib.C08

/-! ### `b64DecodeRaw` refines `b64Decode` -/

theorem b64RawLoop_some : ∀ (fuel : Nat) (s out o : List Nat),
    Enc.b64DecodeLoop fuel s out = some o → Enc.b64DecodeRawLoop fuel s out = (o, true) := by
  intro fuel
  induction fuel with
  | zero => intro s out o h; simp [Enc.b64DecodeLoop] at h
  | succ n ih =>
    intro s out o h
    cases s with
    | nil =>
      simp only [Enc.b64DecodeLoop, Option.some.injEq] at h
      simp [Enc.b64DecodeRawLoop, h]
    | cons c s =>
      simp only [Enc.b64DecodeLoop, List.length_cons] at h
      simp only [Enc.b64DecodeRawLoop, List.length_cons]
      cases hq : Enc.quantum 0 [] (c :: s) (s.length + 1 + 5) with
      | none => simp [hq] at h
      | some qr =>
        obtain ⟨q, rest⟩ := qr
        simp only [hq] at h
        exact ih _ _ _ h

theorem b64RawLoop_none : ∀ (fuel : Nat) (s out : List Nat),
    Enc.b64DecodeLoop fuel s out = none → (Enc.b64DecodeRawLoop fuel s out).2 = false := by
  intro fuel
  induction fuel with
  | zero => intro s out _; simp [Enc.b64DecodeRawLoop]
  | succ n ih =>
    intro s out h
    cases s with
    | nil => simp [Enc.b64DecodeLoop] at h
    | cons c s =>
      simp only [Enc.b64DecodeLoop, List.length_cons] at h
      simp only [Enc.b64DecodeRawLoop, List.length_cons]
      cases hq : Enc.quantum 0 [] (c :: s) (s.length + 1 + 5) with
      | none => rfl
      | some qr =>
        obtain ⟨q, rest⟩ := qr
        simp only [hq] at h
        exact ih _ _ h

theorem b64DecodeRaw_some (s o : List Nat) (h : Enc.b64Decode s = some o) :
    Enc.b64DecodeRaw s = (o, true) :=
  b64RawLoop_some _ _ _ _ h

theorem b64DecodeRaw_none (s : List Nat) (h : Enc.b64Decode s = none) :
    (Enc.b64DecodeRaw s).2 = false :=
  b64RawLoop_none _ _ _ h

/-! ### the length contract of `Decode` -/

theorem skipNL_cons_length {l r : List Nat} {x : Nat} (h : Enc.skipNL l = x :: r) :
    1 ≤ l.length := by
  cases l with
  | nil => simp [Enc.skipNL] at h
  | cons a l => simp

/-- One `decodeQuantum` on ARBITRARY input: it gathers at most 4 sextets; a full quantum
consumed at least one character per missing sextet; a short one (clean end or padding) ends
the input, and unless it is empty the quantum spans at least `4 - j` more characters. -/
theorem quantum_shape : ∀ (fuel j : Nat) (acc src q rest : List Nat), acc.length = j → j ≤ 4 →
    Enc.quantum j acc src fuel = some (q, rest) →
    q.length ≤ 4 ∧ (q.length = 4 → rest.length + (4 - j) ≤ src.length) ∧
      (q.length < 4 → rest = [] ∧ (q.length = 0 ∨ 4 - j ≤ src.length)) := by
  intro fuel
  induction fuel with
  | zero => intro j acc src q rest _ _ h; simp [Enc.quantum] at h
  | succ n ih =>
    intro j acc src q rest hacc hj h
    simp only [Enc.quantum] at h
    split at h
    · -- j = 4
      simp only [Option.some.injEq, Prod.mk.injEq] at h
      obtain ⟨rfl, rfl⟩ := h
      omega
    · rename_i hj4
      split at h
      · -- src = []
        split at h
        · simp only [Option.some.injEq, Prod.mk.injEq] at h
          obtain ⟨rfl, rfl⟩ := h
          refine ⟨by omega, by omega, fun _ => ⟨rfl, Or.inl (by omega)⟩⟩
        · simp at h
      · rename_i c rest'
        split at h
        · -- a sextet
          obtain ⟨h1, h2, h3⟩ := ih (j + 1) _ rest' q rest (by simp [hacc]) (by omega) h
          simp only [List.length_cons]
          refine ⟨h1, fun e => ?_, fun e => ?_⟩
          · have := h2 e; omega
          · obtain ⟨hr, hh⟩ := h3 e
            exact ⟨hr, by omega⟩
        · split at h
          · -- newline
            obtain ⟨h1, h2, h3⟩ := ih j _ rest' q rest hacc hj h
            simp only [List.length_cons]
            refine ⟨h1, fun e => ?_, fun e => ?_⟩
            · have := h2 e; omega
            · obtain ⟨hr, hh⟩ := h3 e
              exact ⟨hr, by omega⟩
          · split at h
            · simp at h
            · split at h
              · simp at h
              · rename_i hj2
                -- padding: `q = acc`, `rest = []`
                split at h
                · simp at h
                · rename_i r hr1
                  split at h
                  · simp only [Option.some.injEq, Prod.mk.injEq] at h
                    obtain ⟨rfl, rfl⟩ := h
                    have hlen : 4 - j ≤ (c :: rest').length := by
                      simp only [List.length_cons]
                      split at hr1
                      · split at hr1
                        · rename_i r' hsk
                          have := skipNL_cons_length hsk
                          omega
                        · simp at hr1
                      · omega
                    refine ⟨by omega, by omega, fun _ => ⟨rfl, Or.inr hlen⟩⟩
                  · simp at h

theorem sextetsToBytes_length (q : List Nat) :
    (Enc.sextetsToBytes q).length ≤ 3 ∧ (q.length = 4 → (Enc.sextetsToBytes q).length = 3) ∧
      (q.length = 0 → (Enc.sextetsToBytes q).length = 0) := by
  simp only [Enc.sextetsToBytes]
  split <;> simp_all

theorem b64RawLoop_len : ∀ (fuel : Nat) (s out : List Nat),
    (Enc.b64DecodeRawLoop fuel s out).1.length ≤ out.length + s.length / 4 * 3 := by
  intro fuel
  induction fuel with
  | zero => intro s out; simp [Enc.b64DecodeRawLoop]
  | succ n ih =>
    intro s out
    cases s with
    | nil => simp [Enc.b64DecodeRawLoop]
    | cons c s =>
      simp only [Enc.b64DecodeRawLoop, List.length_cons]
      cases hq : Enc.quantum 0 [] (c :: s) (s.length + 1 + 5) with
      | none => simp
      | some qr =>
        obtain ⟨q, rest⟩ := qr
        simp only
        have h1 := ih rest (out ++ Enc.sextetsToBytes q)
        have ⟨_, h4, hlt⟩ := quantum_shape _ 0 [] (c :: s) q rest rfl (by omega) hq
        have ⟨b3, b4, b0⟩ := sextetsToBytes_length q
        have hl : (c :: s).length = s.length + 1 := rfl
        simp only [List.length_append] at h1
        rcases Nat.lt_or_ge q.length 4 with hq4 | hq4
        · obtain ⟨rfl, hh⟩ := hlt hq4
          simp only [List.length_nil] at h1
          rcases hh with hh | hh
          · have := b0 hh; omega
          · omega
        · have := h4 (by omega); have := b4 (by omega); omega

/-- the stdlib contract "Decode writes at most DecodedLen(len(src)) bytes", for the Lean decoder -/
theorem b64DecodeRaw_len (s : Bytes) : (Enc.b64DecodeRaw s).1.length ≤ s.length / 4 * 3 := by
  have := b64RawLoop_len (s.length + 1) s []
  simpa [Enc.b64DecodeRaw] using this

/-! ### `strz.Base64Decode` -/

theorem base64DecodeW_eq (decode : B64Decode) (h : ∀ s, (decode s).1.length ≤ s.length / 4 * 3)
    (s : Bytes) :
    base64DecodeW decode s = if (decode s).2 then .ok (decode s).1 else .err "b64" := by
  have hs := h s
  unfold base64DecodeW
  rcases hd : decode s with ⟨out, ok⟩
  rw [hd] at hs
  simp only at hs ⊢
  have h1 : ¬ (List.replicate (s.length / 4 * 3) 0).length < out.length := by
    simp only [List.length_replicate]; omega
  rw [if_neg h1]
  have h2 : sliceTo (out ++ (List.replicate (s.length / 4 * 3) 0).drop out.length) out.length
      = some out := by
    simp [sliceTo]
    omega
  rw [h2]

theorem base64DecodeW_total (decode : B64Decode)
    (h : ∀ s, (decode s).1.length ≤ s.length / 4 * 3) (s : Bytes) :
    base64DecodeW decode s ≠ .panic := by
  rw [base64DecodeW_eq decode h s]
  split <;> simp

theorem base64DecodeW_encode (x : Bytes) (hx : IsBytes x) :
    base64DecodeW Enc.b64DecodeRaw (Enc.b64Encode x) = .ok x := by
  rw [base64DecodeW_eq _ b64DecodeRaw_len, b64DecodeRaw_some _ _ (b64_decode_encode x hx)]
  rfl

/-! ### `strz.HexDecode` -/

theorem fromHexChar_eq (c : Nat) : Golib.C15.fromHexChar c = Enc.fromHexChar c := rfl

theorem fromHexChar_lt {c x : Nat} (h : Enc.fromHexChar c = some x) : x < 16 := by
  simp only [Enc.fromHexChar] at h
  split at h
  · simp only [Option.some.injEq] at h; omega
  · split at h
    · simp only [Option.some.injEq] at h; omega
    · split at h
      · simp only [Option.some.injEq] at h; omega
      · simp at h

theorem nibbles_or : ∀ x, x < 16 → ∀ y, y < 16 → ((x <<< 4) % 256) ||| y = x * 16 + y := by
  decide

/-- the pure `Enc.hexDecode` is C15's pair-wise decoding with the error forgotten -/
theorem hexDecode_eq_pure : ∀ s : List Nat,
    Enc.hexDecode s =
      if (Golib.C15.hexDecodePure s).2 = .ok then some (Golib.C15.hexDecodePure s).1 else none
  | [] => by simp [Enc.hexDecode, Golib.C15.hexDecodePure]
  | [c] => by
    cases hc : Enc.fromHexChar c <;>
      simp [Enc.hexDecode, Golib.C15.hexDecodePure, fromHexChar_eq, hc]
  | a :: b :: rest => by
    have ih := hexDecode_eq_pure rest
    cases ha : Enc.fromHexChar a with
    | none => simp [Enc.hexDecode, Golib.C15.hexDecodePure, fromHexChar_eq, ha]
    | some x =>
      cases hb : Enc.fromHexChar b with
      | none => simp [Enc.hexDecode, Golib.C15.hexDecodePure, fromHexChar_eq, ha, hb]
      | some y =>
        simp only [Enc.hexDecode, Golib.C15.hexDecodePure, fromHexChar_eq, ha, hb, ih,
          nibbles_or x (fromHexChar_lt ha) y (fromHexChar_lt hb)]
        by_cases hp : (Golib.C15.hexDecodePure rest).2 = .ok <;> simp [hp]

theorem hexDecodeW_pure (s : Bytes) :
    hexDecodeW s =
      if (Golib.C15.hexDecodePure s).2 = .ok then .ok (Golib.C15.hexDecodePure s).1 else .err "hex" := by
  unfold hexDecodeW
  rw [Golib.C15.hexDecode?_eq]
  rcases Golib.C15.hexDecodePure s with ⟨out, e⟩
  cases e <;> simp

theorem hexDecodeW_total (s : Bytes) : hexDecodeW s ≠ .panic := by
  rw [hexDecodeW_pure]
  split <;> simp

theorem hexDecodeW_eq_pure (s : Bytes) :
    hexDecodeW s = match Enc.hexDecode s with | some o => .ok o | none => .err "hex" := by
  rw [hexDecodeW_pure, hexDecode_eq_pure]
  split <;> simp

theorem hexDecodeW_encode (x : Bytes) (hx : IsBytes x) : hexDecodeW (Enc.hexEncode x) = .ok x := by
  rw [hexDecodeW_eq_pure, hex_decode_encode x hx]

end Golib.C09
