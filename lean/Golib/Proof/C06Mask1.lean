/-
C06 helper lemmas for the rune-wise reading of `ReplaceWithMask` (part 1: decoding facts).
* `wsum`, `Boundary`: byte offsets at which a decoder step of the text starts;
* a window of consecutive steps is the decoding of exactly its own bytes (`decodeAll_take`);
* `Utf8.runeCount` counts the decoder steps (`runeCount_eq`);
* the mask rune is written as one valid sequence (`encodeRune_step`);
* the scopes of `find` start and stop at step boundaries (`find_boundaries`).
-/
import Golib.Proof.C06Assemble
import Golib.Proof.C05Exact

set_option linter.unusedSimpArgs false
set_option linter.unusedVariables false

namespace Golib.C06
open Golib Golib.C05

/-- Sum of the widths of a list of steps. -/
def wsum (X : List Step) : Nat := (X.map (·.2)).sum

theorem wsum_nil : wsum [] = 0 := rfl
theorem wsum_cons (st : Step) (X : List Step) : wsum (st :: X) = st.2 + wsum X := by
  simp [wsum]
theorem wsum_append (X Y : List Step) : wsum (X ++ Y) = wsum X + wsum Y := by
  simp [wsum, List.sum_append]

/-- `x` is the byte offset of a step boundary of `text`. -/
def Boundary (text : List Nat) (x : Nat) : Prop := ∃ X Y, decodeAll text = X ++ Y ∧ wsum X = x

/-! ### one step depends only on its own bytes -/

/-- A valid step is determined by its own bytes. -/
theorem decodeStep_agree (c : Nat) (cs cs' : List Nat) (r : Int) (w : Nat) (hc : c < 256)
    (h : decodeStep (c :: cs) = (r, w)) (hr : 0 ≤ r) (he : cs'.take (w - 1) = cs.take (w - 1)) :
    decodeStep (c :: cs') = (r, w) := by
  have := decodeStep_stable c cs (cs'.drop (w - 1)) r w hc h hr
  rw [← he, List.take_append_drop] at this
  exact this

/-- An invalid byte stays invalid when the bytes after it change, provided every run of
continuation bytes at the front of the new rest is also at the front of the old rest. -/
theorem decodeStep_invalid_agree (c : Nat) (cs cs' : List Nat) (r : Int) (w : Nat)
    (hb : Bytes (c :: cs')) (h : decodeStep (c :: cs) = (r, w)) (hr : r < 0) (hbs : Bytes (c :: cs))
    (he : ∀ k, k ≤ cs'.length → (∀ x ∈ cs'.take k, Utf8.isCont x = true) → cs.take k = cs'.take k) :
    decodeStep (c :: cs') = (r, w) := by
  have hc : c < 256 := hb c (by simp)
  rcases decodeStep_cases c cs hbs with ⟨_, h1⟩ | ⟨h0, h1⟩ | ⟨_, r1, w1, h1, _, _, h4, _⟩
  · rw [h1] at h; simp only [Prod.mk.injEq] at h; omega
  · rcases decodeStep_cases c cs' hb with ⟨h0', _⟩ | ⟨_, h2⟩ | ⟨_, r2, w2, h2, h3, h4, h5, _, _, h8⟩
    · omega
    · rw [h2, ← h, h1]
    · exfalso
      have hk := he (w2 - 1) (by omega) h8
      have := decodeStep_agree c cs' cs r2 w2 hc h2 (by omega) hk
      rw [h] at this
      simp only [Prod.mk.injEq] at this
      omega
  · rw [h1] at h; simp only [Prod.mk.injEq] at h; omega

/-- Cutting the input anywhere at or after the end of the first step does not change that step. -/
theorem decodeStep_take (b : Nat) (rest : List Nat) (r : Int) (w k : Nat) (hb : Bytes (b :: rest))
    (h : decodeStep (b :: rest) = (r, w)) (hk : w ≤ k) :
    decodeStep ((b :: rest).take k) = (r, w) := by
  have hc : b < 256 := hb b (by simp)
  have hw := decodeStep_spec b rest hb
  rw [h] at hw
  simp only [] at hw
  obtain ⟨k', rfl⟩ : ∃ k', k = k' + 1 := ⟨k - 1, by omega⟩
  rw [List.take_succ_cons]
  by_cases hr : 0 ≤ r
  · apply decodeStep_agree b rest _ r w hc h hr
    rw [List.take_take, Nat.min_eq_left (by omega)]
  · apply decodeStep_invalid_agree b rest _ r w _ h (by omega) hb
    · intro j hj _
      rw [List.take_take, Nat.min_eq_left (by rw [List.length_take] at hj; omega)]
    · have := hb.take (k' + 1)
      rw [List.take_succ_cons] at this
      exact this

/-! ### windows of steps -/

theorem decodeAll_drop (text : List Nat) (hb : Bytes text) (X Y : List Step)
    (h : decodeAll text = X ++ Y) : decodeAll (text.drop (wsum X)) = Y ∧ wsum X ≤ text.length := by
  obtain ⟨h1, h2, h3⟩ := decodeAll_split text hb X Y h
  have h2' : wsum X = (encodeLabel (lab X)).length := h2
  have : text.drop (wsum X) = encodeLabel (lab Y) := by
    rw [h2']; conv => lhs; rw [h1]
    simp
  rw [this]
  refine ⟨h3, ?_⟩
  rw [h2']; conv => rhs; rw [h1]
  simp

/-- The first steps of a byte string are the decoding of the bytes they span. -/
theorem decodeAll_take : ∀ (W : List Step) (bs : List Nat) (Y : List Step), Bytes bs →
    decodeAll bs = W ++ Y → decodeAll (bs.take (wsum W)) = W := by
  intro W
  induction W with
  | nil => intro bs Y _ _; simp [wsum_nil, decodeAll_nil]
  | cons st W ih =>
    intro bs Y hb h
    cases bs with
    | nil => rw [decodeAll_nil] at h; simp at h
    | cons b rest =>
      rw [decodeAll_cons b rest hb, List.cons_append, List.cons.injEq] at h
      obtain ⟨hst, hrest⟩ := h
      obtain ⟨r, w⟩ := st
      have hw := decodeStep_spec b rest hb
      rw [hst] at hw hrest
      simp only [] at hw hrest
      rw [wsum_cons]
      simp only []
      have hstep := decodeStep_take b rest r w (w + wsum W) hb hst (by omega)
      obtain ⟨k', hk'⟩ : ∃ k', w + wsum W = k' + 1 := ⟨w + wsum W - 1, by omega⟩
      have hbt := hb.take (w + wsum W)
      rw [hk'] at hstep hbt ⊢
      rw [List.take_succ_cons] at hstep hbt ⊢
      rw [decodeAll_cons b _ hbt, hstep]
      simp only [List.cons.injEq, true_and]
      have : (b :: rest.take k').drop w = ((b :: rest).drop w).take (wsum W) := by
        rw [← List.take_succ_cons, ← hk', List.drop_take]
        congr 1; omega
      rw [this]
      exact ih _ Y (hb.drop w) hrest

/-- Two boundaries `a ≤ b` cut out a window of steps. -/
theorem steps_split (X Y X' Y' : List Step) (hpos : ∀ st ∈ X ++ Y, 1 ≤ st.2)
    (h : X' ++ Y' = X ++ Y) (hle : wsum X ≤ wsum X') : ∃ G, X' = X ++ G ∧ Y = G ++ Y' := by
  rcases List.append_eq_append_iff.1 h with ⟨a, h1, h2⟩ | ⟨c, h1, h2⟩
  · -- X = X' ++ a, Y' = a ++ Y
    have hz : wsum a = 0 := by
      rw [h1, wsum_append] at hle; omega
    have : a = [] := by
      cases a with
      | nil => rfl
      | cons st a =>
        exfalso
        have := hpos st (by rw [h1]; simp)
        rw [wsum_cons] at hz; omega
    subst this
    exact ⟨[], by simpa using h1.symm, by simpa using h2.symm⟩
  · exact ⟨c, h1, h2⟩

theorem boundary_split (text : List Nat) (hb : Bytes text) (X Y : List Step) (x : Nat)
    (h : decodeAll text = X ++ Y) (hx : Boundary text x) (hle : wsum X ≤ x) :
    ∃ G Y', Y = G ++ Y' ∧ wsum G = x - wsum X := by
  obtain ⟨X', Y', h1, h2⟩ := hx
  have hpos : ∀ st ∈ X ++ Y, 1 ≤ st.2 := by
    intro st hst; rw [← h] at hst; exact (decodeAll_wf text hb st hst).2
  obtain ⟨G, hG1, hG2⟩ := steps_split X Y X' Y' hpos (by rw [← h1, h]) (by omega)
  refine ⟨G, Y', hG2, ?_⟩
  rw [hG1, wsum_append] at h2; omega

/-! ### RuneCount counts decoder steps -/

theorem decodeRune_width (b : Nat) (rest : List Nat) (hb : Bytes (b :: rest)) :
    (if (Utf8.decodeRune (b :: rest)).2 = 0 then 1 else (Utf8.decodeRune (b :: rest)).2)
      = (decodeStep (b :: rest)).2 := by
  by_cases ha : b < 0x80
  · have hl : Utf8.leader b = some (1, 0, 0) := by
      unfold Utf8.leader; rw [if_pos ha]
    simp only [decodeStep, ha, if_true, Utf8.decodeRune, hl]
    simp
  · rcases decodeRune_cases b rest hb (by omega) with h | ⟨r, w, h, h2, _⟩
    · simp only [decodeStep, ha, if_false, h, and_self, if_true]
      simp
    · have : ¬ (r = Utf8.runeError ∧ w = 1) := by omega
      simp only [decodeStep, ha, if_false, h, this]
      rw [if_neg (by omega)]

theorem rangeDecode_go_length : ∀ (fuel off : Nat) (bs : List Nat), Bytes bs → bs.length ≤ fuel →
    (Utf8.rangeDecode.go fuel off bs).length = (decodeAll bs).length := by
  intro fuel
  induction fuel with
  | zero =>
    intro off bs _ hle
    have : bs = [] := List.eq_nil_of_length_eq_zero (by omega)
    subst this; simp [Utf8.rangeDecode.go, decodeAll_nil]
  | succ fuel ih =>
    intro off bs hb hle
    cases bs with
    | nil => simp [Utf8.rangeDecode.go, decodeAll_nil]
    | cons b rest =>
      have hw := decodeRune_width b rest hb
      have hs := decodeStep_spec b rest hb
      rw [decodeAll_cons b rest hb]
      rcases hd : Utf8.decodeRune (b :: rest) with ⟨r, sz⟩
      rw [hd] at hw
      simp only [] at hw
      simp only [Utf8.rangeDecode.go, hd, List.length_cons, hw]
      rw [ih _ _ (hb.drop _)]
      simp only [List.length_drop]
      simp only [List.length_cons] at hle hs ⊢
      omega

/-- `utf8.RuneCount` is the number of decoder steps. -/
theorem runeCount_eq (bs : List Nat) (hb : Bytes bs) : Utf8.runeCount bs = (decodeAll bs).length := by
  unfold Utf8.runeCount Utf8.rangeDecode
  exact rangeDecode_go_length _ 0 bs hb (Nat.le_refl _)

/-! ### the mask rune is written as one valid sequence -/

theorem leader2_table : ∀ b : Fin 256, 0xC2 ≤ b.val → b.val ≤ 0xDF →
    Utf8.leader b.val = some (2, 0x80, 0xBF) := by decide +kernel
theorem leader3_table : ∀ b : Fin 256, 0xE0 ≤ b.val → b.val ≤ 0xEF →
    Utf8.leader b.val = some (3, if b.val = 0xE0 then 0xA0 else 0x80, if b.val = 0xED then 0x9F else 0xBF) := by
  decide +kernel
theorem leader4_table : ∀ b : Fin 256, 0xF0 ≤ b.val → b.val ≤ 0xF4 →
    Utf8.leader b.val = some (4, if b.val = 0xF0 then 0x90 else 0x80, if b.val = 0xF4 then 0x8F else 0xBF) := by
  decide +kernel

/-- Well-formed UTF-8 sequences (Unicode table 3-7). -/
def WFSeq (bs : List Nat) : Prop :=
  (∃ b, bs = [b] ∧ b < 0x80) ∨
  (∃ b0 b1, bs = [b0, b1] ∧ 0xC2 ≤ b0 ∧ b0 ≤ 0xDF ∧ 0x80 ≤ b1 ∧ b1 ≤ 0xBF) ∨
  (∃ b0 b1 b2, bs = [b0, b1, b2] ∧ 0xE0 ≤ b0 ∧ b0 ≤ 0xEF ∧
    (if b0 = 0xE0 then 0xA0 else 0x80) ≤ b1 ∧ b1 ≤ (if b0 = 0xED then 0x9F else 0xBF) ∧
    0x80 ≤ b2 ∧ b2 ≤ 0xBF) ∨
  (∃ b0 b1 b2 b3, bs = [b0, b1, b2, b3] ∧ 0xF0 ≤ b0 ∧ b0 ≤ 0xF4 ∧
    (if b0 = 0xF0 then 0x90 else 0x80) ≤ b1 ∧ b1 ≤ (if b0 = 0xF4 then 0x8F else 0xBF) ∧
    0x80 ≤ b2 ∧ b2 ≤ 0xBF ∧ 0x80 ≤ b3 ∧ b3 ≤ 0xBF)

theorem isCont_of (b : Nat) (h0 : 0x80 ≤ b) (h1 : b ≤ 0xBF) : Utf8.isCont b = true := by
  simp only [Utf8.isCont, Bool.and_eq_true, decide_eq_true_eq]; omega

theorem wfSeq_step (bs : List Nat) (h : WFSeq bs) :
    ∃ r : Int, 0 ≤ r ∧ 1 ≤ bs.length ∧ Bytes bs ∧ ∀ t, decodeStep (bs ++ t) = (r, bs.length) := by
  rcases h with ⟨b, rfl, h0⟩ | ⟨b0, b1, rfl, h0, h1, h2, h3⟩ | ⟨b0, b1, b2, rfl, h0, h1, h2, h3, h4, h5⟩ |
      ⟨b0, b1, b2, b3, rfl, h0, h1, h2, h3, h4, h5, h6, h7⟩
  · refine ⟨(b : Int), by omega, by simp, ?_, ?_⟩
    · intro x hx; simp only [List.mem_singleton] at hx; omega
    · intro t; simp only [List.cons_append, List.nil_append, decodeStep, h0, if_true, List.length_singleton]
  · have hl := leader2_table ⟨b0, by omega⟩ h0 h1
    simp only [] at hl
    refine ⟨(((b0 % 32) * 64 + b1 % 64 : Nat) : Int), by omega, by simp, ?_, ?_⟩
    · intro x hx; simp only [List.mem_cons, List.not_mem_nil, or_false] at hx; omega
    · intro t
      have hd : Utf8.decodeRune (b0 :: b1 :: t) = ((((b0 % 32) * 64 + b1 % 64 : Nat) : Int), 2) := by
        simp only [Utf8.decodeRune, hl, h2, h3, and_self, if_true]
      simp only [List.cons_append, List.nil_append, decodeStep, hd, List.length_cons, List.length_nil]
      rw [if_neg (by omega), if_neg (by omega)]
  · have hl := leader3_table ⟨b0, by omega⟩ h0 h1
    simp only [] at hl
    have hc := isCont_of b2 h4 h5
    refine ⟨(((b0 % 16) * 4096 + (b1 % 64) * 64 + b2 % 64 : Nat) : Int), by omega, by simp, ?_, ?_⟩
    · intro x hx; simp only [List.mem_cons, List.not_mem_nil, or_false] at hx
      split at h3 <;> omega
    · intro t
      have hd : Utf8.decodeRune (b0 :: b1 :: b2 :: t)
          = ((((b0 % 16) * 4096 + (b1 % 64) * 64 + b2 % 64 : Nat) : Int), 3) := by
        simp only [Utf8.decodeRune, hl, h2, h3, hc, and_self, if_true]
      simp only [List.cons_append, List.nil_append, decodeStep, hd, List.length_cons, List.length_nil]
      rw [if_neg (by omega), if_neg (by omega)]
  · have hl := leader4_table ⟨b0, by omega⟩ h0 h1
    simp only [] at hl
    have hc2 := isCont_of b2 h4 h5
    have hc3 := isCont_of b3 h6 h7
    refine ⟨(((b0 % 8) * 262144 + (b1 % 64) * 4096 + (b2 % 64) * 64 + b3 % 64 : Nat) : Int), by omega,
      by simp, ?_, ?_⟩
    · intro x hx; simp only [List.mem_cons, List.not_mem_nil, or_false] at hx
      split at h3 <;> omega
    · intro t
      have hd : Utf8.decodeRune (b0 :: b1 :: b2 :: b3 :: t)
          = ((((b0 % 8) * 262144 + (b1 % 64) * 4096 + (b2 % 64) * 64 + b3 % 64 : Nat) : Int), 4) := by
        simp only [Utf8.decodeRune, hl, h2, h3, hc2, hc3, and_self, if_true]
      simp only [List.cons_append, List.nil_append, decodeStep, hd, List.length_cons, List.length_nil]
      rw [if_neg (by omega), if_neg (by omega)]

theorem wfSeq_fffd : WFSeq [0xEF, 0xBF, 0xBD] :=
  Or.inr (Or.inr (Or.inl ⟨0xEF, 0xBF, 0xBD, rfl, by decide⟩))

theorem encodeRune_wf (mask : Int) : WFSeq (Utf8.encodeRune mask) := by
  by_cases hneg : mask < 0
  · unfold Utf8.encodeRune; rw [if_pos hneg]; exact wfSeq_fffd
  · obtain ⟨n, rfl⟩ := Int.eq_ofNat_of_zero_le (show 0 ≤ mask by omega)
    unfold Utf8.encodeRune
    simp only [Int.toNat_natCast]
    rw [if_neg hneg]
    by_cases h1 : (n : Int) < 0x80
    · rw [if_pos h1]; exact Or.inl ⟨n, rfl, by omega⟩
    · rw [if_neg h1]
      by_cases h2 : (n : Int) < 0x800
      · rw [if_pos h2]
        exact Or.inr (Or.inl ⟨_, _, rfl, by omega, by omega, by omega, by omega⟩)
      · rw [if_neg h2]
        by_cases h3 : Utf8.isSurrogate (n : Int) = true ∨ Utf8.maxRune < (n : Int)
        · rw [if_pos h3]; exact wfSeq_fffd
        · rw [if_neg h3]
          simp only [Utf8.isSurrogate, Utf8.maxRune, Bool.and_eq_true, decide_eq_true_eq, not_or] at h3
          by_cases h4 : (n : Int) < 0x10000
          · rw [if_pos h4]
            refine Or.inr (Or.inr (Or.inl ⟨_, _, _, rfl, by omega, by omega, ?_, ?_, by omega, by omega⟩))
            · split <;> omega
            · split <;> omega
          · rw [if_neg h4]
            refine Or.inr (Or.inr (Or.inr ⟨_, _, _, _, rfl, by omega, by omega, ?_, ?_, by omega, by omega,
              by omega, by omega⟩))
            · split <;> omega
            · split <;> omega

/-- `WriteRune(mask)` emits one valid sequence: decoded as a single (non-negative) rune of
exactly that width, whatever follows. -/
theorem encodeRune_step (mask : Int) : ∃ r : Int, 0 ≤ r ∧ 1 ≤ (Utf8.encodeRune mask).length ∧
    Bytes (Utf8.encodeRune mask) ∧
    ∀ t, decodeStep (Utf8.encodeRune mask ++ t) = (r, (Utf8.encodeRune mask).length) :=
  wfSeq_step _ (encodeRune_wf mask)

/-! ### scopes of `find` start and stop at step boundaries -/

theorem boundary_of_label_prefix (text : List Nat) (ht : Bytes text) (u w : Label)
    (h : lab (decodeAll text) = u ++ w) : Boundary text (encodeLabel u).length := by
  obtain ⟨X, Y, h1, h2, _⟩ := List.map_eq_append_iff.1 h
  refine ⟨X, Y, h1, ?_⟩
  have hwf : StepsWF X := fun st hst => decodeAll_wf text ht st (by rw [h1]; simp [hst])
  have := hwf.widths
  unfold wsum
  rw [this]
  have : lab X = u := h2
  rw [this]

/-- Every scope reported by `find` starts and stops at a step boundary of the text. -/
theorem find_boundaries (pats : List (List Nat)) (text : List Nat) (hp : ∀ p ∈ pats, Bytes p)
    (ht : Bytes text) (t : Trie) (hbuilt : Trie.ofPatterns pats = some t) :
    ∀ s ∈ findSpec t.pats (decodeAll text) [] 0,
      0 ≤ s.start ∧ 0 ≤ s.stop ∧ Boundary text s.start.toNat ∧ Boundary text s.stop.toNat := by
  obtain ⟨t', h1, h2, h3⟩ := ofPatterns_spec pats
  rw [hbuilt] at h1; cases h1
  have hwf := decodedPats_wf pats hp
  rw [h2]
  have htw := decodeAll_wf text ht
  intro s hs
  obtain ⟨u, m, w, e1, e2, e3, e4, e5, e6⟩ := findSpec_mem _ hwf _ [] 0 htw rfl s hs
  rw [List.nil_append] at e1
  have b1 := boundary_of_label_prefix text ht u (m ++ w) (by rw [e1, List.append_assoc])
  have b2 := boundary_of_label_prefix text ht (u ++ m) w e1
  rw [encodeLabel_append, List.length_append] at b2
  rw [e4, e5, Int.toNat_natCast, Int.toNat_natCast]
  exact ⟨by omega, by omega, b1, b2⟩

end Golib.C06
