/-
C07 — tie between the definitions `go2lean` regenerates from `strz/std_strconv.go` on every run
(`Golib/Gen/TransC07.lean`) and the hand-written model of the helpers the escape codecs use
(`Golib/Model/C07Enc.lean`: `lower`, `upper`, `digitVal`, `parseUintLoop`, `parseUint`).

Representation: the model uses `Nat` bytes (`< 256`) and `List Nat` byte strings; the translation
uses `BitVec 8` and `List (BitVec 8)`.  The abstraction function is `BitVec.toNat`, stated
explicitly in every tie.  The byte-level helpers are tied by exhausting the 256 bytes, so any
rewrite of the Go text that computes the same function keeps the tie.
-/
import Golib.Gen.TransC07
import Golib.Model.C07Enc

set_option linter.unusedSimpArgs false

namespace Golib.C07
open Golib.GoSem

/-- Lift a statement checked on the 256 byte values to every `BitVec 8`. -/
theorem forall_byte {P : BitVec 8 → Prop} (h : ∀ n, n < 256 → P (BitVec.ofNat 8 n)) (c : BitVec 8) : P c := by
  have := h c.toNat c.isLt
  simpa using this

theorem trans_lower_eq (c : BitVec 8) :
    Golib.Gen.Trans.C07.lower c = .ok (BitVec.ofNat 8 (Golib.C07.lower c.toNat)) := by
  revert c
  apply forall_byte
  decide +kernel

theorem trans_upper_eq (c : BitVec 8) :
    Golib.Gen.Trans.C07.upper c = .ok (BitVec.ofNat 8 (Golib.C07.upper c.toNat)) := by
  revert c
  apply forall_byte
  decide +kernel

end Golib.C07
