/-
C07 — tie between the definitions `go2lean` regenerates from `strz/std_strconv.go` on every run
(`Golib/Gen/TransC07.lean`) and the hand-written model of the helpers the escape codecs use
(`Golib/Model/C07Enc.lean`: `lower`, `upper`, `digitVal`, `parseUintLoop`, `parseUint`).

Representation: the model uses `Nat` bytes (`< 256`) and `List Nat` byte strings; the translation
uses `BitVec 8` and `List (BitVec 8)`.  The abstraction function is `BitVec.toNat`, stated
explicitly in every tie.  The byte-level helpers are tied by exhausting the 256 bytes, so any
rewrite of the Go text that computes the same function keeps the tie.
-/
import Golib.Gen.TransC07
import Golib.Model.C07Enc

set_option linter.unusedSimpArgs false

namespace Golib.C07.Tie
open Golib.GoSem

/-- Lift a statement checked on the 256 byte values to every `BitVec 8`. -/
theorem forall_byte {P : BitVec 8 → Prop} (h : ∀ n, n < 256 → P (BitVec.ofNat 8 n)) (c : BitVec 8) : P c := by
  have := h c.toNat c.isLt
  simpa using this

theorem trans_lower_eq (c : BitVec 8) :
    Golib.Gen.Trans.C07.lower c = .ok (BitVec.ofNat 8 (Golib.C07.lower c.toNat)) := by
  revert c
  apply forall_byte
  decide +kernel

theorem trans_upper_eq (c : BitVec 8) :
    Golib.Gen.Trans.C07.upper c = .ok (BitVec.ofNat 8 (Golib.C07.upper c.toNat)) := by
  revert c
  apply forall_byte
  decide +kernel

/-! ### `parseUint` -/

section
open Golib.Gen.Trans.C07 (parseUint_loop1)

/-- Abstraction of a byte string. -/
def bytesOf (s : List (BitVec 8)) : Bytes := s.map BitVec.toNat

/-- What the translated loop answers for the model's loop result `(v, j, ok)`. -/
def flowOf (r : Nat × Nat × Bool) : Flow (BitVec 64 × Int × Bool) (BitVec 64 × Int) :=
  if r.2.2 then .done (BitVec.ofNat 64 r.1, (r.2.1 : Int)) else .ret (BitVec.ofNat 64 r.1, (r.2.1 : Int), false)

/-- The digit switch in `BitVec 8` form (checked on all 256 bytes). -/
theorem digitVal_bv (c : BitVec 8) :
    digitVal c.toNat =
      if 48#8 ≤ c ∧ c ≤ 57#8 then some (c - 48#8).toNat
      else if 97#8 ≤ (c ||| 32#8) ∧ (c ||| 32#8) ≤ 122#8 then some ((c ||| 32#8) - 97#8 + 10#8).toNat
      else none := by
  revert c
  apply forall_byte
  decide +kernel

theorem lower_ok (c : BitVec 8) : Golib.Gen.Trans.C07.lower c = .ok (c ||| 32#8) := by
  revert c
  apply forall_byte
  decide +kernel

theorem mul_toNat (n : BitVec 64) (base : Nat) :
    (n * BitVec.ofNat 64 base).toNat = (n.toNat * base) % 2 ^ 64 := by
  simp [BitVec.toNat_mul, Nat.mul_mod]

theorem idx_append (pre : List (BitVec 8)) (c : BitVec 8) (rest : List (BitVec 8)) :
    GoSem.idx (pre ++ c :: rest) (pre.length : Int) = .ok c := by
  simp [GoSem.idx]

theorem setWidth_toNat (d : BitVec 8) : (BitVec.setWidth 64 d).toNat = d.toNat := by
  simp only [BitVec.toNat_setWidth]; omega

/-- closes the part of the loop body after the digit `d` is known: the conditions of the
translated code (`BitVec`) and of the model (`Nat`) are brought to the same `Nat` form, then both
sides are split. -/
macro "tail_tac" : tactic => `(tactic|
  (simp only [ge_iff_le, gt_iff_lt, BitVec.le_def, BitVec.lt_def, BitVec.toNat_add, setWidth_toNat, mul_toNat,
      BitVec.toNat_ofNat, Bool.or_eq_true, Bool.and_eq_true, decide_eq_true_eq, bytesOf]
   repeat' split
   all_goals first
     | rfl
     | (simp only [flowOf]; done)
     | (simp_all [flowOf]; done)
     | (exfalso; omega)))

theorem loop_eq (base : Nat) (cutoff maxVal : BitVec 64) (rest : List (BitVec 8)) :
    ∀ (pre : List (BitVec 8)) (n : BitVec 64) (fuel : Nat), rest.length < fuel →
      parseUint_loop1 fuel (pre ++ rest) (base : Int) cutoff maxVal n (pre.length : Int)
        = .ok (flowOf (parseUintLoop base cutoff.toNat maxVal.toNat (bytesOf rest) pre.length n.toNat)) := by
  induction rest with
  | nil =>
    intro pre n fuel hf
    obtain ⟨f, rfl⟩ : ∃ f, fuel = f + 1 := ⟨fuel - 1, by simp at hf; omega⟩
    simp [parseUint_loop1, bytesOf, parseUintLoop, flowOf]
  | cons c rest ih =>
    intro pre n fuel hf
    obtain ⟨f, rfl⟩ : ∃ f, fuel = f + 1 := ⟨fuel - 1, by simp at hf; omega⟩
    have hf' : rest.length < f := by simp at hf; omega
    have hstep := ih (pre ++ [c]) 
    simp only [List.append_assoc, List.singleton_append, List.length_append, List.length_singleton, Int.natCast_add, Int.natCast_one] at hstep
    unfold parseUint_loop1
    simp only [bytesOf, List.map_cons, parseUintLoop, digitVal_bv c, idx_append, lower_ok, bind, pure, Res.bind_ok', BitVec.ofInt_natCast]
    have hlen : (pre.length : Int) < Int.ofNat (pre ++ c :: rest).length := by simp; omega
    simp only [hlen, decide_true, if_true, hstep _ f hf']
    by_cases h1 : 48#8 ≤ c ∧ c ≤ 57#8
    · simp only [h1, and_self, decide_true, Bool.and_self, if_true]
      generalize c - 48#8 = d
      tail_tac
    · simp only [Bool.and_eq_true, decide_eq_true_eq, h1, if_false]
      generalize c ||| 32#8 = l
      by_cases h2a : 97#8 ≤ l <;> by_cases h2b : l ≤ 122#8 <;>
        simp only [h2a, h2b, and_self, and_true, and_false, decide_true, decide_false, if_true, if_false, Res.bind_ok',
          Bool.false_eq_true, flowOf]
      generalize l - 97#8 + 10#8 = d
      tail_tac

/-- A successful run of the model's loop ends at `len(s)`. -/
theorem parseUintLoop_true_idx (base cutoff maxVal : Nat) :
    ∀ (s : Bytes) (i n v j : Nat), parseUintLoop base cutoff maxVal s i n = (v, j, true) → j = i + s.length := by
  intro s
  induction s with
  | nil => intro i n v j h; simp [parseUintLoop] at h; simp only [List.length_nil]; omega
  | cons c rest ih =>
    intro i n v j h
    simp only [parseUintLoop] at h
    repeat' split at h
    all_goals first
      | (have := ih _ _ _ _ h; simp only [List.length_cons]; omega)
      | (exfalso; simp at h; done)

theorem cutoff_toNat (base : Nat) (h2 : 2 ≤ base) (hb : base < 2 ^ 64) :
    (18446744073709551615#64 / BitVec.ofNat 64 base + 1#64).toNat = (2 ^ 64 - 1) / base + 1 := by
  have hq : (2 ^ 64 - 1) / base < 2 ^ 63 := by
    apply Nat.div_lt_of_lt_mul; omega
  simp only [BitVec.toNat_add, BitVec.toNat_udiv, BitVec.toNat_ofNat]
  rw [Nat.mod_eq_of_lt hb]
  simp only [Nat.reducePow, Nat.reduceMod, Nat.reduceSub] at hq ⊢
  generalize 18446744073709551615 / base = q at hq ⊢
  omega

theorem maxVal_toNat (bitSize : Nat) (hb : bitSize < 2 ^ 64) :
    ((1#64 <<< (BitVec.ofNat 64 bitSize).toNat) - 1#64).toNat = (2 ^ bitSize % 2 ^ 64 + 2 ^ 64 - 1) % 2 ^ 64 := by
  simp only [BitVec.toNat_sub, BitVec.toNat_shiftLeft, BitVec.toNat_ofNat, Nat.shiftLeft_eq, Nat.one_mul]
  rw [Nat.mod_eq_of_lt hb]
  simp only [Nat.reducePow, Nat.reduceMod, Nat.reduceSub]
  omega

/-- The regenerated `parseUint` IS the hand-written model for every byte string, every base
`2 ≤ base < 2^64` and every `bitSize < 2^64` (the codecs call it with 8/16 and 8/16/32). -/
theorem trans_parseUint_eq (s : List (BitVec 8)) (base bitSize : Nat)
    (h2 : 2 ≤ base) (hb : base < 2 ^ 64) (hbits : bitSize < 2 ^ 64) :
    Golib.Gen.Trans.C07.parseUint s (base : Int) (bitSize : Int)
      = .ok (BitVec.ofNat 64 (Golib.C07.parseUint (bytesOf s) base bitSize).1,
             ((Golib.C07.parseUint (bytesOf s) base bitSize).2.1 : Int),
             (Golib.C07.parseUint (bytesOf s) base bitSize).2.2) := by
  unfold Golib.Gen.Trans.C07.parseUint Golib.C07.parseUint
  have hne : BitVec.ofNat 64 base ≠ 0 := by
    intro h0
    have := congrArg BitVec.toNat h0
    simp only [BitVec.toNat_ofNat, Nat.mod_eq_of_lt hb, BitVec.ofNat_eq_ofNat, BitVec.toNat_zero] at this
    omega
  have hl := loop_eq base (18446744073709551615#64 / BitVec.ofNat 64 base + 1#64)
    ((1#64 <<< (BitVec.ofNat 64 bitSize).toNat) - 1#64) s [] 0#64 (s.length + 1) (by omega)
  simp only [List.nil_append, List.length_nil, Int.natCast_zero, cutoff_toNat base h2 hb,
    maxVal_toNat bitSize hbits, BitVec.toNat_zero] at hl
  simp only [BitVec.ofInt_natCast, GoSem.udiv, hne, if_false, bind, pure, Res.bind_ok', hl]
  generalize hr : parseUintLoop base ((2 ^ 64 - 1) / base + 1) ((2 ^ bitSize % 2 ^ 64 + 2 ^ 64 - 1) % 2 ^ 64) (bytesOf s) 0 0 = r
  obtain ⟨v, j, ok⟩ := r
  cases ok with
  | false => simp [flowOf]
  | true =>
    have := parseUintLoop_true_idx _ _ _ _ _ _ _ _ hr
    simp [flowOf, this, bytesOf]

/-- Where the model does not apply: base 0 is a division by zero in `maxUint64/uint64(base)`. -/
theorem trans_parseUint_base0 (s : List (BitVec 8)) (bitSize : Int) :
    Golib.Gen.Trans.C07.parseUint s 0 bitSize = .panic := by
  unfold Golib.Gen.Trans.C07.parseUint
  simp [GoSem.udiv, bind]

end

/-! ### `toUpper` -/

section
open Golib.Gen.Trans.C07 (toUpper_loop1)

/-- `upper` on `BitVec 8` through the model. -/
def upperBV (c : BitVec 8) : BitVec 8 := BitVec.ofNat 8 (Golib.C07.upper c.toNat)

theorem upper_ok (c : BitVec 8) : Golib.Gen.Trans.C07.upper c = .ok (upperBV c) := trans_upper_eq c

theorem upper_lt (c : BitVec 8) : Golib.C07.upper c.toNat < 256 := by
  revert c; apply forall_byte; decide +kernel

theorem setIdx_append {α : Type} (out : List α) (x v : α) (tail : List α) :
    GoSem.setIdx (out ++ x :: tail) (out.length : Int) v = .ok (out ++ v :: tail) := by
  simp [GoSem.setIdx]

theorem toUpper_loop_eq (rest : List (BitVec 8)) :
    ∀ (pre : List (BitVec 8)) (fuel : Nat), rest.length < fuel →
      toUpper_loop1 fuel (pre ++ rest) (pre.length : Int) (pre.map upperBV ++ rest)
        = .ok ((pre ++ rest).map upperBV) := by
  induction rest with
  | nil =>
    intro pre fuel hf
    obtain ⟨f, rfl⟩ : ∃ f, fuel = f + 1 := ⟨fuel - 1, by simp at hf; omega⟩
    simp [toUpper_loop1]
  | cons c rest ih =>
    intro pre fuel hf
    obtain ⟨f, rfl⟩ : ∃ f, fuel = f + 1 := ⟨fuel - 1, by simp at hf; omega⟩
    have hf' : rest.length < f := by simp at hf; omega
    have hstep := ih (pre ++ [c]) f hf'
    simp only [List.append_assoc, List.singleton_append, List.length_append, List.length_singleton,
      Int.natCast_add, Int.natCast_one, List.map_append, List.map_cons, List.map_nil] at hstep
    have hlen : (pre.length : Int) < Int.ofNat (pre ++ c :: rest).length := by simp; omega
    have hset := setIdx_append (pre.map upperBV) c (upperBV c) rest
    simp only [List.length_map] at hset
    unfold toUpper_loop1
    simp only [hlen, decide_true, if_true, idx_append, upper_ok, hset, bind, pure, Res.bind_ok', hstep,
      List.map_append, List.map_cons]

theorem trans_toUpper_eq (dst : List (BitVec 8)) :
    Golib.Gen.Trans.C07.toUpper dst = .ok ((Golib.C07.toUpper (bytesOf dst)).map (BitVec.ofNat 8)) := by
  unfold Golib.Gen.Trans.C07.toUpper
  have h := toUpper_loop_eq dst [] (dst.length + 1) (by omega)
  simp only [List.nil_append, List.length_nil, Int.natCast_zero, List.map_nil] at h
  simp only [bind, pure, h, Res.bind_ok', Golib.C07.toUpper, bytesOf, List.map_map]
  rfl

end

end Golib.C07.Tie
