/-
C14 helper lemmas, part 8: what `firstOcc` (the specification of Unique / UniqueByKey) means:
an element is kept exactly when no earlier element (and no key seen before) has its key.
-/
import Golib.Proof.C14Values

namespace Golib.C14

theorem firstOcc_congr (key : Int → Int) (s1 s2 l : List Int)
    (h : ∀ k, s1.contains k = s2.contains k) : firstOcc key s1 l = firstOcc key s2 l := by
  induction l generalizing s1 s2 with
  | nil => rfl
  | cons v vs ih =>
    simp only [firstOcc, h (key v)]
    split
    · exact ih s1 s2 h
    · congr 1
      apply ih
      intro k
      simp only [List.contains_cons, h k]

theorem firstOcc_append (key : Int → Int) (seen a b : List Int) :
    firstOcc key seen (a ++ b) = firstOcc key seen a ++ firstOcc key (a.map key ++ seen) b := by
  induction a generalizing seen with
  | nil => simp [firstOcc]
  | cons x a ih =>
    simp only [List.cons_append, firstOcc, List.map_cons]
    by_cases hx : seen.contains (key x) = true
    · simp only [hx, if_true, ih seen]
      congr 1
      apply firstOcc_congr
      intro k
      simp only [List.contains_cons, List.contains_append]
      by_cases hk : k = key x
      · subst hk
        have : key x ∈ seen := by simpa using hx
        simp [this]
      · have : (k == key x) = false := by simpa using hk
        simp [this]
    · simp only [hx, Bool.false_eq_true, if_false, ih (key x :: seen), List.cons_append]
      congr 2
      apply firstOcc_congr
      intro k
      simp only [List.contains_cons, List.contains_append, List.contains_cons]
      cases (k == key x) <;> simp

/-- An element whose key occurred before (in `seen` or earlier in the slice) is dropped. -/
theorem firstOcc_drop (key : Int → Int) (seen a b : List Int) (v : Int)
    (h : (a.map key ++ seen).contains (key v) = true) :
    firstOcc key seen (a ++ v :: b) = firstOcc key seen a ++ firstOcc key (a.map key ++ seen) b := by
  rw [firstOcc_append, firstOcc]
  simp only [h, if_true]

/-- The first element with a new key is kept, at its position. -/
theorem firstOcc_keep (key : Int → Int) (seen a b : List Int) (v : Int)
    (h : (a.map key ++ seen).contains (key v) = false) :
    firstOcc key seen (a ++ v :: b) =
      firstOcc key seen a ++ v :: firstOcc key (key v :: (a.map key ++ seen)) b := by
  rw [firstOcc_append, firstOcc]
  simp only [h, Bool.false_eq_true, if_false]

end Golib.C14
