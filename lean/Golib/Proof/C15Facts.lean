/-
Obligations tying the regenerated facts (`Golib/Gen/FactsC15.lean`, rewritten from the Go
source on every run) to what the C15 model assumes. If the source changes one of these
facts, this file stops compiling and `Golib.Props.C15` with it.
-/
import Golib.Gen.FactsC15
import Golib.Model.C15Parse

namespace Golib.C15

/-- `hextable` is the lower-case digit table. -/
theorem facts_hextable :
    Golib.Gen.C15.hextable = [48, 49, 50, 51, 52, 53, 54, 55, 56, 57, 97, 98, 99, 100, 101, 102] := by
  decide

/-- `maxUint64 = 1<<64 - 1` and `typez.WordBits = 64`, as the `ParseUint` model assumes. -/
theorem facts_parse : Golib.Gen.C15.maxUint64 = maxUint64 ∧ Golib.Gen.C15.wordBits = wordBits := by
  decide

/-- Which calls each helper makes: every digest / HMAC helper is `strz.HexEncode` applied to
one stdlib digest (`md5.Sum`, `sha256.Sum224`, …, `hmac.New` + `Sum`), the `…ToString`
variants only wrap the `[]byte` variant in `UnsafeString`, `HexDecodeInPlace` is
`hex.Decode`, the Base64 helpers call the stdlib `enc.Encode` / `enc.Decode`, and the hex
wrappers call the modelled `hexEncode` / `hexDecode`. -/
theorem facts_calls : Golib.Gen.C15.calls =
  [("hashz.Hmac", ["hmac.New", "strz.UnsafeStrOrBytesToBytes", "hh.Write", "strz.UnsafeStrOrBytesToBytes", "strz.HexEncode", "hh.Sum"])
  , ("hashz.HmacToString", ["strz.UnsafeString", "Hmac"])
  , ("hashz.Md5", ["md5.Sum", "strz.UnsafeStrOrBytesToBytes", "strz.HexEncode"])
  , ("hashz.Md5Stream", ["md5.New", "io.Copy", "strz.HexEncode", "h.Sum"])
  , ("hashz.Md5ToString", ["strz.UnsafeString", "Md5"])
  , ("hashz.Sha1", ["sha1.Sum", "strz.UnsafeStrOrBytesToBytes", "strz.HexEncode"])
  , ("hashz.Sha1Stream", ["sha1.New", "io.Copy", "strz.HexEncode", "h.Sum"])
  , ("hashz.Sha1ToString", ["strz.UnsafeString", "Sha1"])
  , ("hashz.Sha224", ["sha256.Sum224", "strz.UnsafeStrOrBytesToBytes", "strz.HexEncode"])
  , ("hashz.Sha224Stream", ["sha256.New224", "io.Copy", "strz.HexEncode", "h.Sum"])
  , ("hashz.Sha224ToString", ["strz.UnsafeString", "Sha224"])
  , ("hashz.Sha256", ["sha256.Sum256", "strz.UnsafeStrOrBytesToBytes", "strz.HexEncode"])
  , ("hashz.Sha256Stream", ["sha256.New", "io.Copy", "strz.HexEncode", "h.Sum"])
  , ("hashz.Sha256ToString", ["strz.UnsafeString", "Sha256"])
  , ("hashz.Sha384", ["sha512.Sum384", "strz.UnsafeStrOrBytesToBytes", "strz.HexEncode"])
  , ("hashz.Sha384Stream", ["sha512.New384", "io.Copy", "strz.HexEncode", "h.Sum"])
  , ("hashz.Sha384ToString", ["strz.UnsafeString", "Sha384"])
  , ("hashz.Sha512", ["sha512.Sum512", "strz.UnsafeStrOrBytesToBytes", "strz.HexEncode"])
  , ("hashz.Sha512Stream", ["sha512.New", "io.Copy", "strz.HexEncode", "h.Sum"])
  , ("hashz.Sha512ToString", ["strz.UnsafeString", "Sha512"])
  , ("hashz.Sha512_224", ["sha512.Sum512_224", "strz.UnsafeStrOrBytesToBytes", "strz.HexEncode"])
  , ("hashz.Sha512_224ToString", ["strz.UnsafeString", "Sha512_224"])
  , ("hashz.Sha512_256", ["sha512.Sum512_256", "strz.UnsafeStrOrBytesToBytes", "strz.HexEncode"])
  , ("hashz.Sha512_256ToString", ["strz.UnsafeString", "Sha512_256"])
  , ("strz.Base64Decode", ["make", "enc.DecodedLen", "len", "enc.Decode", "UnsafeStrOrBytesToBytes"])
  , ("strz.Base64DecodeToString", ["Base64Decode", "UnsafeString"])
  , ("strz.Base64Encode", ["make", "enc.EncodedLen", "len", "enc.Encode", "UnsafeStrOrBytesToBytes"])
  , ("strz.Base64EncodeToString", ["UnsafeString", "Base64Encode"])
  , ("strz.HexDecode", ["make", "hex.DecodedLen", "len", "hexDecode"])
  , ("strz.HexDecodeInPlace", ["hex.Decode"])
  , ("strz.HexDecodeToString", ["HexDecode", "UnsafeString"])
  , ("strz.HexEncode", ["make", "hex.EncodedLen", "len", "hexEncode"])
  , ("strz.HexEncodeToString", ["UnsafeString", "HexEncode"])
  , ("strz.IPv4ToLong", ["strings.Split", "strconv.ParseInt", "uint32"])
  , ("strz.LongToIPv4", ["net.IPv4().String", "net.IPv4", "byte", "byte", "byte", "byte"])] := by
  decide

end Golib.C15
