/-
Obligations tying the regenerated facts (`Golib/Gen/FactsC15.lean`, rewritten from the Go
source on every run) to what the C15 model assumes. If the source changes one of these
facts, this file stops compiling and `Golib.Props.C15` with it.
-/
import Golib.Gen.FactsC15
import Golib.Model.C15Parse

namespace Golib.C15

/-- `hextable` is the lower-case digit table. -/
theorem facts_hextable :
    Golib.Gen.C15.hextable = [48, 49, 50, 51, 52, 53, 54, 55, 56, 57, 97, 98, 99, 100, 101, 102] := by
  decide

/-- `maxUint64 = 1<<64 - 1` and `typez.WordBits = 64`, as the `ParseUint` model assumes. -/
theorem facts_parse : Golib.Gen.C15.maxUint64 = maxUint64 ∧ Golib.Gen.C15.wordBits = wordBits := by
  decide

/-- Which calls each helper makes (outermost call expressions, in source order): every digest / HMAC helper is `strz.HexEncode` applied to
one stdlib digest (`md5.Sum`, `sha256.Sum224`, …, `hmac.New` + `Sum`), the `…ToString`
variants only wrap the `[]byte` variant in `UnsafeString`, `HexDecodeInPlace` is
`hex.Decode`, the Base64 helpers call the stdlib `enc.Encode` / `enc.Decode`, and the hex
wrappers call the modelled `hexEncode` / `hexDecode`. -/
theorem facts_calls : Golib.Gen.C15.calls =
  [("hashz.Hmac", ["hmac.New(h, strz.UnsafeStrOrBytesToBytes(key))", "hh.Write(strz.UnsafeStrOrBytesToBytes(data))", "strz.HexEncode(hh.Sum(nil))"])
  , ("hashz.HmacToString", ["strz.UnsafeString(Hmac(key, data, h))"])
  , ("hashz.Md5", ["md5.Sum(strz.UnsafeStrOrBytesToBytes(s))", "strz.HexEncode(h[:])"])
  , ("hashz.Md5Stream", ["md5.New()", "io.Copy(h, s)", "strz.HexEncode(h.Sum(nil))"])
  , ("hashz.Md5ToString", ["strz.UnsafeString(Md5(s))"])
  , ("hashz.Sha1", ["sha1.Sum(strz.UnsafeStrOrBytesToBytes(s))", "strz.HexEncode(h[:])"])
  , ("hashz.Sha1Stream", ["sha1.New()", "io.Copy(h, s)", "strz.HexEncode(h.Sum(nil))"])
  , ("hashz.Sha1ToString", ["strz.UnsafeString(Sha1(s))"])
  , ("hashz.Sha224", ["sha256.Sum224(strz.UnsafeStrOrBytesToBytes(s))", "strz.HexEncode(h[:])"])
  , ("hashz.Sha224Stream", ["sha256.New224()", "io.Copy(h, s)", "strz.HexEncode(h.Sum(nil))"])
  , ("hashz.Sha224ToString", ["strz.UnsafeString(Sha224(s))"])
  , ("hashz.Sha256", ["sha256.Sum256(strz.UnsafeStrOrBytesToBytes(s))", "strz.HexEncode(h[:])"])
  , ("hashz.Sha256Stream", ["sha256.New()", "io.Copy(h, s)", "strz.HexEncode(h.Sum(nil))"])
  , ("hashz.Sha256ToString", ["strz.UnsafeString(Sha256(s))"])
  , ("hashz.Sha384", ["sha512.Sum384(strz.UnsafeStrOrBytesToBytes(s))", "strz.HexEncode(h[:])"])
  , ("hashz.Sha384Stream", ["sha512.New384()", "io.Copy(h, s)", "strz.HexEncode(h.Sum(nil))"])
  , ("hashz.Sha384ToString", ["strz.UnsafeString(Sha384(s))"])
  , ("hashz.Sha512", ["sha512.Sum512(strz.UnsafeStrOrBytesToBytes(s))", "strz.HexEncode(h[:])"])
  , ("hashz.Sha512Stream", ["sha512.New()", "io.Copy(h, s)", "strz.HexEncode(h.Sum(nil))"])
  , ("hashz.Sha512ToString", ["strz.UnsafeString(Sha512(s))"])
  , ("hashz.Sha512_224", ["sha512.Sum512_224(strz.UnsafeStrOrBytesToBytes(s))", "strz.HexEncode(h[:])"])
  , ("hashz.Sha512_224ToString", ["strz.UnsafeString(Sha512_224(s))"])
  , ("hashz.Sha512_256", ["sha512.Sum512_256(strz.UnsafeStrOrBytesToBytes(s))", "strz.HexEncode(h[:])"])
  , ("hashz.Sha512_256ToString", ["strz.UnsafeString(Sha512_256(s))"])
  , ("strz.Base64Decode", ["make([]byte, enc.DecodedLen(len(s)))", "enc.Decode(dst, UnsafeStrOrBytesToBytes(s))"])
  , ("strz.Base64DecodeToString", ["Base64Decode(s, enc)", "UnsafeString(b)"])
  , ("strz.Base64Encode", ["make([]byte, enc.EncodedLen(len(s)))", "enc.Encode(dst, UnsafeStrOrBytesToBytes(s))"])
  , ("strz.Base64EncodeToString", ["UnsafeString(Base64Encode(s, enc))"])
  , ("strz.HexDecode", ["make([]byte, hex.DecodedLen(len(s)))", "hexDecode(dst, s)"])
  , ("strz.HexDecodeInPlace", ["hex.Decode(b, b)"])
  , ("strz.HexDecodeToString", ["HexDecode(s)", "UnsafeString(b)"])
  , ("strz.HexEncode", ["make([]byte, hex.EncodedLen(len(s)))", "hexEncode(dst, s)"])
  , ("strz.HexEncodeToString", ["UnsafeString(HexEncode(s))"])
  , ("strz.IPv4ToLong", ["strings.Split(ip, \".\")", "strconv.ParseInt(v, 10, 32)", "uint32(n)"])
  , ("strz.LongToIPv4", ["net.IPv4(byte(long >> 24), byte(long >> 16), byte(long >> 8), byte(long)).String()"])] := by
  decide

end Golib.C15
