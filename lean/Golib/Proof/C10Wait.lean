/-
C10 (SyncRing, one goroutine): `PushWait` / `PopWait`.  On ANY state a failed `Push`/`Pop`
leaves the ring unchanged, hence: a wait with `maxWait ≥ 0` returns exactly what
`Push`/`Pop` returns (whatever the tick times are, as long as the clock eventually reaches
`maxWait`), and a wait with `maxWait < 0` returns `true` if the first attempt succeeds and
never returns otherwise.
-/
import Golib.Model.C10Sync

set_option linter.unusedSimpArgs false
set_option linter.unusedVariables false

namespace Golib.C10

theorem push_false_eq {r r1 : SyncRing} {v : Int} (h : r.push v = some (r1, false)) : r1 = r := by
  simp only [SyncRing.push] at h
  split at h
  · cases h
  · split at h
    · simp only [Option.some.injEq, Prod.mk.injEq] at h; exact h.1.symm
    · simp only [Option.some.injEq, Prod.mk.injEq] at h; exact absurd h.2 (by simp)

theorem pop_false_eq {r r1 : SyncRing} {x : Int} (h : r.pop = some (r1, x, false)) :
    r1 = r ∧ x = 0 := by
  simp only [SyncRing.pop] at h
  split at h
  · cases h
  · split at h
    · simp only [Option.some.injEq, Prod.mk.injEq] at h; exact ⟨h.1.symm, h.2.1.symm⟩
    · simp only [Option.some.injEq, Prod.mk.injEq] at h; exact absurd h.2.2 (by simp)

theorem pushTicks_fail (v : Int) (w : Int) (r : SyncRing) (hf : r.push v = some (r, false)) :
    ∀ ticks : List Int, (∃ t ∈ ticks, w ≤ t) → pushTicks v w ticks r = some (.done (r, false)) := by
  intro ticks
  induction ticks with
  | nil => intro ⟨t, ht, _⟩; cases ht
  | cons now ts ih =>
    intro ⟨t, ht, hle⟩
    simp only [pushTicks, hf]
    by_cases hn : now ≥ w
    · simp only [hn, if_true]
    · simp only [hn, if_false]
      rcases List.mem_cons.mp ht with rfl | ht'
      · exact absurd hle hn
      · exact ih ⟨t, ht', hle⟩

theorem popTicks_fail (w : Int) (r : SyncRing) (hf : r.pop = some (r, 0, false)) :
    ∀ ticks : List Int, (∃ t ∈ ticks, w ≤ t) → popTicks w ticks r = some (.done (r, 0, false)) := by
  intro ticks
  induction ticks with
  | nil => intro ⟨t, ht, _⟩; cases ht
  | cons now ts ih =>
    intro ⟨t, ht, hle⟩
    simp only [popTicks, hf]
    by_cases hn : now ≥ w
    · simp only [hn, if_true]
    · simp only [hn, if_false]
      rcases List.mem_cons.mp ht with rfl | ht'
      · exact absurd hle hn
      · exact ih ⟨t, ht', hle⟩

/-- `PushWait(v, maxWait)` with `maxWait ≥ 0` returns exactly what `Push(v)` returns (same
state, same boolean), provided the clock reaches `maxWait` (no condition for `maxWait = 0`). -/
theorem pushWait_nonneg (r : SyncRing) (v : Int) (w : Int) (ticks : List Int) (fuel : Nat)
    (hw : 0 ≤ w) (ht : w = 0 ∨ ∃ t ∈ ticks, w ≤ t) :
    r.pushWait v w ticks fuel = (r.push v).map WaitRes.done := by
  have hneg : ¬ (w < 0) := by omega
  simp only [SyncRing.pushWait, hneg, if_false]
  cases hp : r.push v with
  | none => rfl
  | some res =>
    obtain ⟨r1, ok⟩ := res
    cases ok with
    | true => rfl
    | false =>
      have := push_false_eq hp
      subst this
      simp only [Option.map_some]
      by_cases h0 : w = 0
      · simp only [h0, if_true]
      · simp only [h0, if_false]
        rcases ht with h | h
        · exact absurd h h0
        · exact pushTicks_fail v w r1 hp ticks h

theorem popWait_nonneg (r : SyncRing) (w : Int) (ticks : List Int) (fuel : Nat)
    (hw : 0 ≤ w) (ht : w = 0 ∨ ∃ t ∈ ticks, w ≤ t) :
    r.popWait w ticks fuel = (r.pop).map WaitRes.done := by
  have hneg : ¬ (w < 0) := by omega
  simp only [SyncRing.popWait, hneg, if_false]
  cases hp : r.pop with
  | none => rfl
  | some res =>
    obtain ⟨r1, x, ok⟩ := res
    cases ok with
    | true => rfl
    | false =>
      obtain ⟨h1, h2⟩ := pop_false_eq hp
      subst h1; subst h2
      simp only [Option.map_some]
      by_cases h0 : w = 0
      · simp only [h0, if_true]
      · simp only [h0, if_false]
        rcases ht with h | h
        · exact absurd h h0
        · exact popTicks_fail w r1 hp ticks h

theorem nominalTicks_reaches (w : Nat) : ∃ t ∈ nominalTicks w, (w : Int) ≤ t := by
  refine ⟨((w / 10 + 1) * 10 : Nat), ?_, by omega⟩
  simp only [nominalTicks, List.mem_map, List.mem_range]
  exact ⟨w / 10, by omega, rfl⟩

theorem pushSpin_fail (v : Int) (r : SyncRing) (hf : r.push v = some (r, false)) :
    ∀ fuel, pushSpin v fuel r = some .blocks := by
  intro fuel
  induction fuel with
  | zero => rfl
  | succ n ih => simp only [pushSpin, hf, ih]

theorem popSpin_fail (r : SyncRing) (hf : r.pop = some (r, 0, false)) :
    ∀ fuel, popSpin fuel r = some .blocks := by
  intro fuel
  induction fuel with
  | zero => rfl
  | succ n ih => simp only [popSpin, hf, ih]

/-- `PushWait(v, maxWait)` with `maxWait < 0`: returns `true` at once if `Push` succeeds; if
`Push` fails, no amount of spinning makes it return (one goroutine). -/
theorem pushWait_neg (r : SyncRing) (v : Int) (w : Int) (ticks : List Int) (hw : w < 0) :
    (∀ r1, r.push v = some (r1, true) → ∀ fuel, 0 < fuel →
        r.pushWait v w ticks fuel = some (.done (r1, true))) ∧
    (∀ r1, r.push v = some (r1, false) → ∀ fuel, r.pushWait v w ticks fuel = some .blocks) := by
  refine ⟨?_, ?_⟩
  · intro r1 hp fuel hf
    obtain ⟨n, rfl⟩ : ∃ n, fuel = n + 1 := ⟨fuel - 1, by omega⟩
    simp only [SyncRing.pushWait, hw, if_true, pushSpin, hp]
  · intro r1 hp fuel
    have := push_false_eq hp
    subst this
    simp only [SyncRing.pushWait, hw, if_true]
    exact pushSpin_fail v r1 hp fuel

theorem popWait_neg (r : SyncRing) (w : Int) (ticks : List Int) (hw : w < 0) :
    (∀ r1 x, r.pop = some (r1, x, true) → ∀ fuel, 0 < fuel →
        r.popWait w ticks fuel = some (.done (r1, x, true))) ∧
    (∀ r1 x, r.pop = some (r1, x, false) → ∀ fuel, r.popWait w ticks fuel = some .blocks) := by
  refine ⟨?_, ?_⟩
  · intro r1 x hp fuel hf
    obtain ⟨n, rfl⟩ : ∃ n, fuel = n + 1 := ⟨fuel - 1, by omega⟩
    simp only [SyncRing.popWait, hw, if_true, popSpin, hp]
  · intro r1 x hp fuel
    obtain ⟨h1, h2⟩ := pop_false_eq hp
    subst h1; subst h2
    simp only [SyncRing.popWait, hw, if_true]
    exact popSpin_fail r1 hp fuel

/-- A timed `PushWait` that answers `false` has not pushed: whatever the tick times are
(also when the expiring tick is the one on which a push would succeed — the loop attempts
the push BEFORE it tests the expiry), the ring it leaves is the ring it found. -/
theorem pushTicks_false (v w : Int) :
    ∀ (ticks : List Int) (r r1 : SyncRing),
      pushTicks v w ticks r = some (.done (r1, false)) → r1 = r := by
  intro ticks
  induction ticks with
  | nil => intro r r1 h; simp [pushTicks] at h
  | cons now ts ih =>
    intro r r1 h
    simp only [pushTicks] at h
    cases hp : r.push v with
    | none => simp [hp] at h
    | some res =>
      obtain ⟨r2, ok⟩ := res
      cases ok with
      | true => simp [hp] at h
      | false =>
        have := push_false_eq hp
        subst this
        simp only [hp] at h
        split at h
        · simp only [Option.some.injEq, WaitRes.done.injEq, Prod.mk.injEq] at h; exact h.1.symm
        · exact ih r2 r1 h

/-- ... and on the expiring tick a push that succeeds is reported as `true`. -/
theorem pushTicks_success_on_expiry (v w now : Int) (ts : List Int) (r r1 : SyncRing)
    (hp : r.push v = some (r1, true)) :
    pushTicks v w (now :: ts) r = some (.done (r1, true)) := by
  simp only [pushTicks, hp]

theorem popTicks_false (w : Int) :
    ∀ (ticks : List Int) (r r1 : SyncRing) (x : Int),
      popTicks w ticks r = some (.done (r1, x, false)) → r1 = r := by
  intro ticks
  induction ticks with
  | nil => intro r r1 x h; simp [popTicks] at h
  | cons now ts ih =>
    intro r r1 x h
    simp only [popTicks] at h
    cases hp : r.pop with
    | none => simp [hp] at h
    | some res =>
      obtain ⟨r2, y, ok⟩ := res
      cases ok with
      | true => simp [hp] at h
      | false =>
        have := (pop_false_eq hp).1
        subst this
        simp only [hp] at h
        split at h
        · simp only [Option.some.injEq, WaitRes.done.injEq, Prod.mk.injEq] at h; exact h.1.symm
        · exact ih r2 r1 x h

theorem popTicks_success_on_expiry (w now : Int) (ts : List Int) (r r1 : SyncRing) (x : Int)
    (hp : r.pop = some (r1, x, true)) :
    popTicks w (now :: ts) r = some (.done (r1, x, true)) := by
  simp only [popTicks, hp]

/-- In the driver a wait with `maxWait ≥ 0` prints what the plain operation prints. -/
theorem step_pushW (r : SyncRing) (v : Int) (w : Nat) : r.step (.pushW v w) = r.step (.push v) := by
  simp only [SyncRing.step,
    pushWait_nonneg r v w (nominalTicks w) 0 (by omega) (Or.inr (nominalTicks_reaches w))]
  cases r.push v with
  | none => rfl
  | some res => obtain ⟨r1, ok⟩ := res; rfl

theorem step_popW (r : SyncRing) (w : Nat) : r.step (.popW w) = r.step .pop := by
  simp only [SyncRing.step,
    popWait_nonneg r w (nominalTicks w) 0 (by omega) (Or.inr (nominalTicks_reaches w))]
  cases r.pop with
  | none => rfl
  | some res => obtain ⟨r1, x, ok⟩ := res; rfl

end Golib.C10
