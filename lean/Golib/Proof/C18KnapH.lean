/-
Knapsack on the heap refines Knapsack on values: `tmp` and the cells never share a buffer,
for every tie-breaker and every growth policy of `append`.
-/
import Golib.Model.C18KnapH
import Golib.Proof.C18Heap

namespace Golib.C18

variable {α : Type}

/-- The heap-level state represents the value-level table `dpV`, without aliasing. -/
structure KInv (st : KSt α) (dpV : List (Cell α)) : Prop where
  len : st.dp.length = dpV.length
  tmpOk : st.tmp.buf < st.heap.length
  cells : ∀ (i : Nat) (c : Int × Slice), st.dp[i]? = some c → ∃ items, dpV[i]? = some (c.1, items) ∧ readS st.heap c.2 = some items
  neTmp : ∀ (i : Nat) (c : Int × Slice), st.dp[i]? = some c → c.2.buf ≠ st.tmp.buf
  distinct : ∀ (i j : Nat) (c d : Int × Slice), i ≠ j → st.dp[i]? = some c → st.dp[j]? = some d → c.2.buf ≠ d.2.buf

theorem readS_zero (h : Heap α) (b : Nat) (hb : b < h.length) : readS h ⟨b, 0⟩ = some [] := by
  unfold readS
  rw [List.getElem?_eq_getElem hb]
  simp

theorem readS_frame {h h' : Heap α} {b : Nat} (fr : ∀ j, j ≠ b → j < h.length → h'[j]? = h[j]?)
    {s : Slice} {v : List α} (hs : s.buf ≠ b) (hr : readS h s = some v) : readS h' s = some v := by
  rw [readS_congr (fr s.buf hs (readS_some_lt hr).1)]
  exact hr

theorem buildTmp_spec (grow : Nat → Nat) (item : α) (h : Heap α) (tmp src : Slice) (sv : List α)
    (hsrc : readS h src = some sv) (htmp : tmp.buf < h.length) :
    ∃ h2 t2, buildTmp grow item h tmp src = some (h2, t2) ∧ readS h2 t2 = some (sv ++ [item]) ∧
      h.length ≤ h2.length ∧ t2.buf < h2.length ∧ (t2.buf = tmp.buf ∨ h.length ≤ t2.buf) ∧
      (∀ (s : Slice) (v : List α), s.buf ≠ tmp.buf → readS h s = some v → readS h2 s = some v) := by
  obtain ⟨h1, t1, e1, r1, l1, v1, b1, f1⟩ := appendS_spec grow h ⟨tmp.buf, 0⟩ sv [] (readS_zero h tmp.buf htmp)
  obtain ⟨h2, t2, e2, r2, l2, v2, b2, f2⟩ := appendS_spec grow h1 t1 [item] ([] ++ sv) r1
  refine ⟨h2, t2, ?_, by simpa using r2, by omega, v2, ?_, ?_⟩
  · simp only [buildTmp, hsrc, e1, e2]
  · simp only [] at b1
    rcases b2 with b2 | b2
    · rcases b1 with b1 | b1
      · exact Or.inl (by rw [b2, b1])
      · exact Or.inr (by omega)
    · exact Or.inr (by omega)
  · intro s v hs hr
    have hlt := (readS_some_lt hr).1
    have hs1 : s.buf ≠ t1.buf := by
      simp only [] at b1
      rcases b1 with b1 | b1 <;> omega
    have r1' : readS h1 s = some v := readS_frame (b := tmp.buf) (fun j hj hjl => f1 j hj hjl) hs hr
    exact readS_frame (b := t1.buf) f2 hs1 r1'

theorem storeCell_spec (grow : Nat → Nat) (h : Heap α) (cur tmp : Slice) (tv : List α)
    (ht : readS h tmp = some tv) (hc : cur.buf < h.length) :
    ∃ h3 c', storeCell grow h cur tmp = some (h3, c') ∧ readS h3 c' = some tv ∧
      h.length ≤ h3.length ∧ c'.buf < h3.length ∧ (c'.buf = cur.buf ∨ c'.buf = h.length) ∧
      (∀ (s : Slice) (v : List α), s.buf ≠ cur.buf → readS h s = some v → readS h3 s = some v) := by
  obtain ⟨h3, c', e, r, l, v, b, f⟩ := appendS_spec grow h ⟨cur.buf, 0⟩ tv [] (readS_zero h cur.buf hc)
  refine ⟨h3, c', ?_, by simpa using r, l, v, b, ?_⟩
  · simp only [storeCell, ht, e]
  · intro s v' hs hr
    exact readS_frame (b := cur.buf) (fun j hj hjl => f j hj hjl) hs hr

/-- Keeping the table and replacing `tmp` (the rejected tie-break). -/
theorem KInv.reject {st : KSt α} {dpV : List (Cell α)} (inv : KInv st dpV) {h2 : Heap α} {t2 : Slice}
    (hl : st.heap.length ≤ h2.length) (ht : t2.buf < h2.length)
    (hb : t2.buf = st.tmp.buf ∨ st.heap.length ≤ t2.buf)
    (fr : ∀ (s : Slice) (v : List α), s.buf ≠ st.tmp.buf → readS st.heap s = some v → readS h2 s = some v) :
    KInv { st with heap := h2, tmp := t2 } dpV := by
  refine ⟨inv.len, ht, ?_, ?_, inv.distinct⟩
  · intro i c hc
    obtain ⟨items, h1, h2'⟩ := inv.cells i c hc
    exact ⟨items, h1, fr c.2 items (inv.neTmp i c hc) h2'⟩
  · intro i c hc
    obtain ⟨items, _, hr⟩ := inv.cells i c hc
    have := (readS_some_lt hr).1
    have := inv.neTmp i c hc
    simp only []
    rcases hb with hb | hb <;> omega

/-- Replacing cell `k` by a copy of `tmp` stored in the cell's own (or a fresh) buffer. -/
theorem KInv.commit {st : KSt α} {dpV : List (Cell α)} (inv : KInv st dpV) {k : Nat} {cur : Int × Slice}
    (hcur : st.dp[k]? = some cur) {h2 h3 : Heap α} {t2 c' : Slice} {tv : List α} (score : Int)
    (hl : st.heap.length ≤ h2.length) (ht : t2.buf < h2.length)
    (hb : t2.buf = st.tmp.buf ∨ st.heap.length ≤ t2.buf)
    (fr : ∀ (s : Slice) (v : List α), s.buf ≠ st.tmp.buf → readS st.heap s = some v → readS h2 s = some v)
    (rt : readS h2 t2 = some tv)
    (rc : readS h3 c' = some tv) (hl3 : h2.length ≤ h3.length)
    (hb3 : c'.buf = cur.2.buf ∨ c'.buf = h2.length)
    (fr3 : ∀ (s : Slice) (v : List α), s.buf ≠ cur.2.buf → readS h2 s = some v → readS h3 s = some v) :
    KInv { heap := h3, tmp := t2, dp := st.dp.set k (score, c') } (dpV.set k (score, tv)) := by
  have hk : k < st.dp.length := (List.getElem?_eq_some_iff.mp hcur).1
  have hcurlt : cur.2.buf < st.heap.length := by
    obtain ⟨_, _, hr⟩ := inv.cells k cur hcur
    exact (readS_some_lt hr).1
  have hcurne := inv.neTmp k cur hcur
  refine ⟨by simp [inv.len], by simp only []; omega, ?_, ?_, ?_⟩
  · intro i c hc
    simp only [] at hc ⊢
    by_cases hik : i = k
    · subst hik
      rw [List.getElem?_set_self hk] at hc
      cases hc
      exact ⟨tv, by rw [List.getElem?_set_self (by rw [← inv.len]; exact hk)], rc⟩
    · rw [List.getElem?_set_ne (fun e => hik e.symm)] at hc
      obtain ⟨items, h1, hr⟩ := inv.cells i c hc
      refine ⟨items, by rw [List.getElem?_set_ne (fun e => hik e.symm)]; exact h1, ?_⟩
      exact fr3 c.2 items (inv.distinct i k c cur hik hc hcur) (fr c.2 items (inv.neTmp i c hc) hr)
  · intro i c hc
    simp only [] at hc ⊢
    by_cases hik : i = k
    · subst hik
      rw [List.getElem?_set_self hk] at hc
      cases hc
      simp only []
      rcases hb3 with hb3 | hb3 <;> rcases hb with hb | hb <;> omega
    · rw [List.getElem?_set_ne (fun e => hik e.symm)] at hc
      obtain ⟨items, _, hr⟩ := inv.cells i c hc
      have := (readS_some_lt hr).1
      have := inv.neTmp i c hc
      rcases hb with hb | hb <;> omega
  · intro i j c d hij hc hd
    simp only [] at hc hd
    have old : ∀ (i : Nat) (c : Int × Slice), i ≠ k → st.dp[i]? = some c →
        c.2.buf < st.heap.length ∧ c.2.buf ≠ cur.2.buf := by
      intro i c hik hc
      obtain ⟨_, _, hr⟩ := inv.cells i c hc
      exact ⟨(readS_some_lt hr).1, inv.distinct i k c cur hik hc hcur⟩
    by_cases hik : i = k
    · subst hik
      rw [List.getElem?_set_self hk] at hc
      cases hc
      rw [List.getElem?_set_ne hij] at hd
      have := old j d (fun e => hij e.symm) hd
      simp only []
      rcases hb3 with hb3 | hb3 <;> omega
    · rw [List.getElem?_set_ne (fun e => hik e.symm)] at hc
      by_cases hjk : j = k
      · subst hjk
        rw [List.getElem?_set_self hk] at hd
        cases hd
        have := old i c hik hc
        simp only []
        rcases hb3 with hb3 | hb3 <;> omega
      · rw [List.getElem?_set_ne (fun e => hjk e.symm)] at hd
        exact inv.distinct i j c d hij hc hd

/-- Heap-level result `rh` refines value-level result `rv`. -/
def RefK (rv : Option (List (Cell α))) (rh : Option (KSt α)) : Prop :=
  match rv with
  | none => rh = none
  | some dpV' => ∃ st', rh = some st' ∧ KInv st' dpV'

theorem KInv.get_none {st : KSt α} {dpV : List (Cell α)} (inv : KInv st dpV) {i : Nat}
    (h : st.dp[i]? = none) : dpV[i]? = none := by
  rw [List.getElem?_eq_none_iff] at h ⊢
  rw [← inv.len]; exact h

section
variable (br : Option (List α → List α → Bool)) (grow : Nat → Nat)

theorem kStep_refines (item : α) (w : Nat) (value : Int) (n : Nat) (st : KSt α) (dpV : List (Cell α))
    (inv : KInv st dpV) : RefK (kStep br item w value n dpV) (kStepH br grow item w value n st) := by
  unfold RefK
  cases hsn : st.dp[n]? with
  | none =>
    have := inv.get_none hsn
    simp only [kStep, kStepH, hsn, this]
  | some src =>
    cases hcn : st.dp[w + n]? with
    | none =>
      have := inv.get_none hcn
      obtain ⟨i1, hv1, _⟩ := inv.cells n src hsn
      simp only [kStep, kStepH, hsn, hcn, this, hv1]
    | some cur =>
      obtain ⟨items1, hv1, hr1⟩ := inv.cells n src hsn
      obtain ⟨items2, hv2, hr2⟩ := inv.cells (w + n) cur hcn
      have hcurlt := (readS_some_lt hr2).1
      obtain ⟨h2, t2, eb, rt, hl, ht, hb, fr⟩ :=
        buildTmp_spec grow item st.heap st.tmp src.2 items1 hr1 inv.tmpOk
      obtain ⟨h3, c', es, rc, hl3, _, hb3, fr3⟩ :=
        storeCell_spec grow h2 cur.2 t2 (items1 ++ [item]) rt (by omega)
      have hcur2 : readS h2 cur.2 = some items2 := fr cur.2 items2 (inv.neTmp (w + n) cur hcn) hr2
      simp only [kStep, kStepH, hsn, hcn, hv1, hv2]
      by_cases hgt : src.1 + value > cur.1
      · simp only [hgt, if_true, eb, es]
        exact ⟨_, rfl, inv.commit hcn (src.1 + value) hl ht hb fr rt rc hl3 hb3 fr3⟩
      · simp only [hgt, if_false]
        by_cases heq : src.1 + value = cur.1
        · simp only [heq, if_true]
          cases br with
          | none => exact ⟨st, rfl, inv⟩
          | some b =>
            simp only [eb, hcur2, rt]
            by_cases hacc : b items2 (items1 ++ [item]) = true
            · simp only [hacc, if_true, es]
              have := inv.commit hcn (src.1 + value) hl ht hb fr rt rc hl3 hb3 fr3
              rw [heq] at this
              exact ⟨_, rfl, this⟩
            · simp only [hacc, Bool.false_eq_true, if_false]
              exact ⟨_, rfl, inv.reject hl ht hb fr⟩
        · simp only [heq, if_false]
          exact ⟨st, rfl, inv⟩

theorem kInner_refines (item : α) (w : Nat) (value : Int) : ∀ (n : Nat) (st : KSt α) (dpV : List (Cell α)),
    KInv st dpV → RefK (kInner br item w value n dpV) (kInnerH br grow item w value n st)
  | 0, st, dpV, inv => by simp only [RefK, kInner, kInnerH]; exact ⟨st, rfl, inv⟩
  | n + 1, st, dpV, inv => by
    have hs := kStep_refines br grow item w value n st dpV inv
    unfold RefK at hs
    simp only [kInner, kInnerH]
    cases hv : kStep br item w value n dpV with
    | none => rw [hv] at hs; simp only [hs, RefK]
    | some dpV' =>
      rw [hv] at hs
      obtain ⟨st', e, inv'⟩ := hs
      simp only [e]
      exact kInner_refines item w value n st' dpV' inv'

theorem kItems_refines (wf : α → Nat) (vf : α → Int) (W : Nat) : ∀ (items : List α) (st : KSt α)
    (dpV : List (Cell α)), KInv st dpV →
    RefK (kItems br wf vf W items dpV) (kItemsH br grow wf vf W items st)
  | [], st, dpV, inv => by simp only [RefK, kItems, kItemsH]; exact ⟨st, rfl, inv⟩
  | x :: xs, st, dpV, inv => by
    have hs := kInner_refines br grow x (wf x) (vf x) (W + 1 - wf x) st dpV inv
    unfold RefK at hs
    simp only [kItems, kItemsH]
    cases hv : kInner br x (wf x) (vf x) (W + 1 - wf x) dpV with
    | none => rw [hv] at hs; simp only [hs, RefK]
    | some dpV' =>
      rw [hv] at hs
      obtain ⟨st', e, inv'⟩ := hs
      simp only [e]
      exact kItems_refines wf vf W xs st' dpV' inv'

theorem kInit_inv (W : Nat) : KInv (kInitH W : KSt α) (List.replicate (W + 1) ((0 : Int), ([] : List α))) := by
  refine ⟨by simp [kInitH], by simp [kInitH], ?_, ?_, ?_⟩
  · intro i c hc
    simp only [kInitH, List.getElem?_map, List.getElem?_range] at hc
    by_cases hi : i < W + 1
    · simp only [List.getElem?_range hi, Option.map_some, Option.some.injEq] at hc
      subst hc
      refine ⟨[], by simp [List.getElem?_replicate, hi], ?_⟩
      exact readS_zero _ (i + 1) (by simp [kInitH]; omega)
    · rw [List.getElem?_eq_none (by simp; omega)] at hc
      simp at hc
  · intro i c hc
    simp only [kInitH, List.getElem?_map] at hc
    by_cases hi : i < W + 1
    · simp only [List.getElem?_range hi, Option.map_some, Option.some.injEq] at hc
      subst hc; simp [kInitH]
    · rw [List.getElem?_eq_none (by simp; omega)] at hc
      simp at hc
  · intro i j c d hij hc hd
    simp only [kInitH, List.getElem?_map] at hc hd
    by_cases hi : i < W + 1
    · by_cases hj : j < W + 1
      · simp only [List.getElem?_range hi, List.getElem?_range hj, Option.map_some, Option.some.injEq] at hc hd
        subst hc; subst hd; simp; exact hij
      · rw [List.getElem?_eq_none (by simp; omega)] at hd
        simp at hd
    · rw [List.getElem?_eq_none (by simp; omega)] at hc
      simp at hc

/-- `Knapsack` with its real buffers returns exactly what `Knapsack` on values returns. -/
theorem knapsackH_refines (wf : α → Nat) (vf : α → Int) (W : Nat) (items : List α) :
    knapsackH br grow wf vf W items = knapsack br wf vf W items := by
  have hs := kItems_refines br grow wf vf W items (kInitH W) _ (kInit_inv W)
  unfold RefK at hs
  unfold knapsackH knapsack
  cases hv : kItems br wf vf W items (List.replicate (W + 1) (0, [])) with
  | none => rw [hv] at hs; simp only [hs]
  | some dpV' =>
    rw [hv] at hs
    obtain ⟨st', e, inv'⟩ := hs
    simp only [e]
    cases hc : st'.dp[W]? with
    | none => simp [inv'.get_none hc]
    | some c =>
      obtain ⟨its, h1, h2⟩ := inv'.cells W c hc
      simp [h1, h2]

end

end Golib.C18
