/-
C05 — what the hand-written model `Golib/Model/C05Trie.lean` takes from the source text of
`algz/trie.go`, re-extracted by go/ast on every run into `Golib/Gen/FactsC05.lean`
(`go/props/c05/facts.go`: targeted expressions, rendered by go/printer and
whitespace-normalised, so reformatting, comments and the order of the functions are not
noticed).  Each fact is compared with the literal the model mirrors.  A revert of F3
(`back` / `depth` counted in runes), of F11 (invalid byte → U+FFFD; `range` over the string;
`buf.WriteRune` in the DFS) or a single-token change of one of these expressions makes this
file fail to build, independently of the random search.
-/
import Golib.Gen.FactsC05
import Golib.Model.C05Trie

namespace Golib.C05

/-- Every extracted source fact equals the literal the model was written against; the last
conjunct says (by unfolding) that the model's `buildFail` starts from `Queue.init N` with
the very `N` extracted from `queue.Init(N)` in `BuildFailureLinks`. -/
def SourceFacts : Prop :=
    Golib.Gen.C05.extractorOK = true ∧
    -- functions calling `decodeRune` (sorted)
    Golib.Gen.C05.decodeRuneCallers = ["*Trie.FuzzySearch", "*Trie.Insert", "*Trie.Match", "*Trie.PrefixSearch", "*Trie.find"] ∧
    -- functions calling the helper `writeRune` (sorted)
    Golib.Gen.C05.writeRuneCallers = ["*Trie.FuzzySearch", "*Trie.PrefixSearch"] ∧
    -- functions calling the helper `runeLen` (sorted)
    Golib.Gen.C05.runeLenCallers = ["*Trie.FuzzySearch", "*Trie.PrefixSearch"] ∧
    -- functions calling a method `.WriteRune` (sorted)
    Golib.Gen.C05.bufWriteRuneCallers = ["*Trie.ReplaceWithMask", "writeRune"] ∧
    -- functions calling utf8.DecodeRune / DecodeRuneInString / DecodeLastRune… (sorted)
    Golib.Gen.C05.stdDecodeCallers = ["decodeRune"] ∧
    -- functions that `range` over (or `[]rune`-convert) a string parameter (sorted)
    Golib.Gen.C05.rangeOverString = [] ∧
    -- signature of decodeRune
    Golib.Gen.C05.decodeSig = "func(s string, i int) (rune, int)" ∧
    -- decodeRune: condition of the ASCII fast path
    Golib.Gen.C05.decodeAsciiCond = "b := s[i]; b < utf8.RuneSelf" ∧
    -- decodeRune: the ASCII fast path
    Golib.Gen.C05.decodeAsciiThen = ["return rune(b), 1"] ∧
    -- decodeRune: the standard decoding step
    Golib.Gen.C05.decodeStd = "r, size := utf8.DecodeRuneInString(s[i:])" ∧
    -- decodeRune: condition of the invalid-byte branch (F11)
    Golib.Gen.C05.decodeInvalidCond = "r == utf8.RuneError && size == 1" ∧
    -- decodeRune: what the invalid-byte branch returns (F11)
    Golib.Gen.C05.decodeInvalidThen = ["return -1 - rune(s[i]), 1"] ∧
    -- decodeRune: final return
    Golib.Gen.C05.decodeRet = "return r, size" ∧
    -- writeRune: condition
    Golib.Gen.C05.writeRuneCond = "r < 0" ∧
    -- writeRune: then-branch
    Golib.Gen.C05.writeRuneThen = ["buf.WriteByte(byte(-1 - r))", "return"] ∧
    -- writeRune: final statement
    Golib.Gen.C05.writeRuneElse = "buf.WriteRune(r)" ∧
    -- *Trie.index: statements before the loop (for `index`: bounds and the early-out)
    Golib.Gen.C05.indexPre = ["low, high := 0, len(children)", "if high == 0 || val < children[0].val || val > children[high-1].val { return -1 }"] ∧
    -- *Trie.index: loop header `init; cond; post`
    Golib.Gen.C05.indexLoop = "; low < high; " ∧
    -- *Trie.index: the midpoint
    Golib.Gen.C05.indexMid = "mid := int(uint(low+high) >> 1)" ∧
    -- *Trie.index: the comparisons of the if / else-if chain in the loop, in order
    Golib.Gen.C05.indexConds = ["children[mid].val == val", "children[mid].val < val"] ∧
    -- *Trie.index: the branches of that chain (last = else), in order
    Golib.Gen.C05.indexArms = ["return mid", "low = mid + 1", "high = mid"] ∧
    -- *Trie.index: statements after the loop
    Golib.Gen.C05.indexPost = ["return -1"] ∧
    -- *Trie.findChildIndex: statements before the loop (for `index`: bounds and the early-out)
    Golib.Gen.C05.findChildPre = ["low, high := 0, len(children)"] ∧
    -- *Trie.findChildIndex: loop header `init; cond; post`
    Golib.Gen.C05.findChildLoop = "; low < high; " ∧
    -- *Trie.findChildIndex: the midpoint
    Golib.Gen.C05.findChildMid = "mid := int(uint(low+high) >> 1)" ∧
    -- *Trie.findChildIndex: the comparisons of the if / else-if chain in the loop, in order
    Golib.Gen.C05.findChildConds = ["children[mid].val < val"] ∧
    -- *Trie.findChildIndex: the branches of that chain (last = else), in order
    Golib.Gen.C05.findChildArms = ["low = mid + 1", "high = mid"] ∧
    -- *Trie.findChildIndex: statements after the loop
    Golib.Gen.C05.findChildPost = ["return low"] ∧
    -- Insert: the empty-pattern guard
    Golib.Gen.C05.insertGuard = "len(pattern) == 0 → return" ∧
    -- Insert: loop header
    Golib.Gen.C05.insertLoop = "i := 0; i < len(pattern); " ∧
    -- Insert: first statements of the loop body (decode, advance i, THEN search: size = offset after the rune)
    Golib.Gen.C05.insertHead = ["r, size = decodeRune(pattern, i)", "i += size", "idx := t.findChildIndex(node.children, r)"] ∧
    -- Insert: condition for creating a child
    Golib.Gen.C05.insertCond = "idx >= len(node.children) || node.children[idx].val != r" ∧
    -- Insert: create + shift + store
    Golib.Gen.C05.insertThen = ["child := childNode{val: r, node: &trieNode{size: i}}", "node.children = append(node.children, child)", "copy(node.children[idx+1:], node.children[idx:])", "node.children[idx] = child", "node = child.node"] ∧
    -- Insert: descend into the existing child
    Golib.Gen.C05.insertElse = ["node = node.children[idx].node"] ∧
    -- Insert: the node literal
    Golib.Gen.C05.insertNewNode = "&trieNode{size: i}" ∧
    -- Insert: last statement
    Golib.Gen.C05.insertEnd = "node.isEnd = true" ∧
    -- functions assigning to a field `.isEnd` (sorted)
    Golib.Gen.C05.isEndWriters = ["*Trie.Insert"] ∧
    -- BuildFailureLinks: N of `queue.Init(N)`
    Golib.Gen.C05.queueInitCap = 10 ∧
    -- BuildFailureLinks: what the first loop ranges over
    Golib.Gen.C05.seedRange = "t.root.children" ∧
    -- BuildFailureLinks: body of the first loop
    Golib.Gen.C05.seedBody = ["t.root.children[i].node.fail = &t.root", "queue.Push(t.root.children[i].node)"] ∧
    -- BuildFailureLinks: header of the queue loop
    Golib.Gen.C05.bfsLoop = "; !queue.IsEmpty(); " ∧
    -- BuildFailureLinks: first statement of the queue loop
    Golib.Gen.C05.bfsPop = "curr := queue.Pop()" ∧
    -- BuildFailureLinks: the inner range loop `key, value := range X`
    Golib.Gen.C05.bfsRange = "_, child := range curr.children" ∧
    -- BuildFailureLinks: where the walk starts
    Golib.Gen.C05.failInit = "failNode := curr.fail" ∧
    -- BuildFailureLinks: header of the walk along the fail links
    Golib.Gen.C05.failWalkLoop = "; failNode != nil; " ∧
    -- BuildFailureLinks: body of the walk
    Golib.Gen.C05.failWalkBody = ["idx = t.index(failNode.children, child.val)", "if idx >= 0 { break }", "failNode = failNode.fail"] ∧
    -- BuildFailureLinks: statements after the walk (set child.fail, push)
    Golib.Gen.C05.failAssign = ["if failNode == nil { child.node.fail = &t.root } else { child.node.fail = failNode.children[idx].node }", "queue.Push(child.node)"] ∧
    -- find: header of the text loop
    Golib.Gen.C05.findLoop = "i := 0; i < len(text); " ∧
    -- find: first statements of the loop body (decode, advance i, index)
    Golib.Gen.C05.findHead = ["r, size = decodeRune(text, i)", "i += size", "idx := t.index(node.children, r)"] ∧
    -- find: condition of the fallback loop
    Golib.Gen.C05.findFallbackCond = "node != &t.root && idx < 0" ∧
    -- find: body of the fallback loop
    Golib.Gen.C05.findFallbackBody = ["node = node.fail", "idx = t.index(node.children, r)"] ∧
    -- find: condition of the output walk
    Golib.Gen.C05.findOutCond = "tempNode != &t.root" ∧
    -- find: body of the output walk
    Golib.Gen.C05.findOutBody = ["if tempNode.isEnd { *scopes = append(*scopes, scope{i - tempNode.size, i}) }", "tempNode = tempNode.fail"] ∧
    -- find: the scope emitted for a node with isEnd
    Golib.Gen.C05.findScope = "scope{i - tempNode.size, i}" ∧
    -- find: condition for taking the child
    Golib.Gen.C05.findStepCond = "idx >= 0" ∧
    -- find: first two statements of that branch
    Golib.Gen.C05.findStepHead = ["node = node.children[idx].node", "tempNode := node"] ∧
    -- Match: header of the text loop
    Golib.Gen.C05.matchLoop = "i := 0; i < len(text); " ∧
    -- Match: first statements of the loop body
    Golib.Gen.C05.matchHead = ["v, size := decodeRune(text, i)", "i += size", "idx := t.index(node.children, v)"] ∧
    -- Match: condition of the fallback loop
    Golib.Gen.C05.matchFallbackCond = "node != &t.root && idx < 0" ∧
    -- Match: body of the fallback loop
    Golib.Gen.C05.matchFallbackBody = ["node = node.fail", "idx = t.index(node.children, v)"] ∧
    -- Match: condition of the output walk
    Golib.Gen.C05.matchOutCond = "tempNode != &t.root" ∧
    -- Match: body of the output walk
    Golib.Gen.C05.matchOutBody = ["if tempNode.isEnd { return true }", "tempNode = tempNode.fail"] ∧
    -- Match: last statement
    Golib.Gen.C05.matchRet = "return false" ∧
    -- *Trie.PrefixSearch: RHS of `back :=` (F3: bytes, not runes)
    Golib.Gen.C05.backPrefix = "int(cur.depth + int32(runeLen(cur.r)) - stack[last-1].depth)" ∧
    -- *Trie.PrefixSearch: depth field of the trieFrame pushes, in source order (initial push, child push)
    Golib.Gen.C05.frameDepthsPrefix = ["0", "cur.depth + int32(runeLen(cur.r))"] ∧
    -- *Trie.PrefixSearch: the call of Truncate
    Golib.Gen.C05.truncatePrefix = "buf.Truncate(buf.Len() - back)" ∧
    -- *Trie.PrefixSearch: how a popped rune is written
    Golib.Gen.C05.writePrefix = "writeRune(&buf, cur.r)" ∧
    -- *Trie.PrefixSearch: first statements of the DFS loop (pop, write, collect)
    Golib.Gen.C05.dfsHeadPrefix = ["last := len(stack) - 1", "cur := stack[last]", "stack = stack[:last]", "writeRune(&buf, cur.r)", "if cur.node.isEnd { ret = append(ret, buf.String()) }"] ∧
    -- *Trie.PrefixSearch: the leaf test of the DFS loop
    Golib.Gen.C05.leafCondPrefix = "len(cur.node.children) == 0" ∧
    -- *Trie.PrefixSearch: the leaf branch (break on empty stack, truncate, continue)
    Golib.Gen.C05.leafBodyPrefix = ["if len(stack) == 0 { break }", "back := int(cur.depth + int32(runeLen(cur.r)) - stack[last-1].depth)", "buf.Truncate(buf.Len() - back)", "continue"] ∧
    -- *Trie.PrefixSearch: what the child push ranges over
    Golib.Gen.C05.pushRangePrefix = "cur.node.children" ∧
    -- *Trie.FuzzySearch: RHS of `back :=` (F3: bytes, not runes)
    Golib.Gen.C05.backFuzzy = "int(cur.depth + int32(runeLen(cur.r)) - stack[last-1].depth)" ∧
    -- *Trie.FuzzySearch: depth field of the trieFrame pushes, in source order (initial push, child push)
    Golib.Gen.C05.frameDepthsFuzzy = ["0", "cur.depth + int32(runeLen(cur.r))"] ∧
    -- *Trie.FuzzySearch: the call of Truncate
    Golib.Gen.C05.truncateFuzzy = "buf.Truncate(buf.Len() - back)" ∧
    -- *Trie.FuzzySearch: how a popped rune is written
    Golib.Gen.C05.writeFuzzy = "writeRune(&buf, cur.r)" ∧
    -- *Trie.FuzzySearch: first statements of the DFS loop (pop, write, collect)
    Golib.Gen.C05.dfsHeadFuzzy = ["last := len(stack) - 1", "cur := stack[last]", "stack = stack[:last]", "writeRune(&buf, cur.r)", "if cur.node.isEnd { ret = append(ret, buf.String()) }"] ∧
    -- *Trie.FuzzySearch: the leaf test of the DFS loop
    Golib.Gen.C05.leafCondFuzzy = "len(cur.node.children) == 0" ∧
    -- *Trie.FuzzySearch: the leaf branch (break on empty stack, truncate, continue)
    Golib.Gen.C05.leafBodyFuzzy = ["if len(stack) == 0 { break }", "back := int(cur.depth + int32(runeLen(cur.r)) - stack[last-1].depth)", "buf.Truncate(buf.Len() - back)", "continue"] ∧
    -- *Trie.FuzzySearch: what the child push ranges over
    Golib.Gen.C05.pushRangeFuzzy = "cur.node.children" ∧
    -- PrefixSearch: header of the key walk
    Golib.Gen.C05.prefixWalkLoop = "i := 0; i < len(key); " ∧
    -- PrefixSearch: body of the key walk (no fallback)
    Golib.Gen.C05.prefixWalkBody = ["v, size := decodeRune(key, i)", "i += size", "idx := t.index(node.children, v)", "if idx < 0 { return nil }", "node = node.children[idx].node"] ∧
    -- FuzzySearch: condition of the fallback loop
    Golib.Gen.C05.fuzzyFallbackCond = "node != &t.root && idx < 0" ∧
    -- FuzzySearch: body of the fallback loop
    Golib.Gen.C05.fuzzyFallbackBody = ["node = node.fail", "idx = t.index(node.children, v)"] ∧
    -- FuzzySearch: condition of the outer fail-chain loop
    Golib.Gen.C05.fuzzyOuterCond = "node != &t.root" ∧
    -- FuzzySearch: first statements of the outer loop
    Golib.Gen.C05.fuzzyOuterHead = ["buf.WriteString(key[len(key)-node.size:])", "if node.isEnd { ret = append(ret, key[len(key)-node.size:]) }", "for _, ch := range node.children { stack = append(stack, trieFrame{ch.val, 0, ch.node}) }"] ∧
    -- FuzzySearch: last statements of the outer loop
    Golib.Gen.C05.fuzzyOuterTail = ["buf.Reset()", "node = node.fail"] ∧
    -- FuzzySearch: condition of the leaf shortcut
    Golib.Gen.C05.fuzzyShortCond = "len(node.children) == 0 && node.fail == &t.root" ∧
    -- FuzzySearch: body of the leaf shortcut
    Golib.Gen.C05.fuzzyShortBody = ["if node.isEnd { return []string{key[len(key)-node.size:]} }", "return nil"] ∧
    -- *trieNodeQueue.Init: top-level statements
    Golib.Gen.C05.queueInit = ["q.nodes = make([]*trieNode, cap)", "q.cap = uint32(cap)"] ∧
    -- *trieNodeQueue.IsFull: top-level statements
    Golib.Gen.C05.queueIsFull = ["return q.tail-q.head == q.cap"] ∧
    -- *trieNodeQueue.IsEmpty: top-level statements
    Golib.Gen.C05.queueIsEmpty = ["return q.head == q.tail"] ∧
    -- *trieNodeQueue.Push: top-level statements
    Golib.Gen.C05.queuePush = ["if q.IsFull() { tailPos := (q.tail - 1) % q.cap headPos := q.head % q.cap q.cap = q.cap * 2 newNodes := make([]*trieNode, q.cap) if tailPos > headPos { copy(newNodes, q.nodes[headPos:tailPos+1]) } else { n := copy(newNodes, q.nodes[headPos:]) copy(newNodes[n:], q.nodes[:tailPos+1]) } q.nodes = newNodes q.tail = q.tail - q.head q.head = 0 }", "q.nodes[q.tail%q.cap] = node", "q.tail++"] ∧
    -- *trieNodeQueue.Pop: top-level statements
    Golib.Gen.C05.queuePop = ["if q.IsEmpty() { return nil }", "node := q.nodes[q.head%q.cap]", "q.head++", "return node"] ∧
    -- model: `buildFail` uses `Queue.init` of the extracted capacity
    (∀ ps : List (List Step), buildFail ps =
      match childrenOf ps [] with
      | none => none
      | some cs =>
        match seedRoot cs { q := Queue.init Golib.Gen.C05.queueInitCap, F := [] } with
        | none => none
        | some s0 => (bfsLoop ps (nodeBound ps + 1) s0).map (·.F))

theorem c05_facts_holds : SourceFacts := by
  unfold SourceFacts
  repeat' apply And.intro
  all_goals first | exact fun _ => rfl | rfl

end Golib.C05
