/-
C08 — lemmas about the memo model (`Model/C08Memo.lean`): which process-wide memos are
invisible, and why every other one shows on a two-call history.
-/
import Golib.Model.C08Memo

namespace Golib.C08.Memo

section generic
variable {Cfg κ Obj : Type} [DecidableEq κ]

theorem lookup_mem {k : κ} {o : Obj} : ∀ {t : Table κ Obj}, lookup k t = some o → (k, o) ∈ t
  | [], h => by simp [lookup] at h
  | (k', o') :: t, h => by
    unfold lookup at h
    split at h
    · next hk => injection h with h; subst hk; subst h; exact List.mem_cons_self
    · exact List.mem_cons_of_mem _ (lookup_mem h)

theorem lookup_head (k : κ) (o : Obj) (t : Table κ Obj) : lookup k ((k, o) :: t) = some o := by
  simp [lookup]

/-- a hit returns an object built from SOME configuration with the same identity -/
theorem get_fst_of_sound (ident : Cfg → κ) (build : Cfg → Obj) (evict : Table κ Obj → Table κ Obj)
    (t : Table κ Obj) (c : Cfg) (ht : Sound ident build t) :
    ∃ c', ident c' = ident c ∧ (get ident build evict t c).1 = build c' := by
  unfold get
  cases h : lookup (ident c) t with
  | none => exact ⟨c, rfl, rfl⟩
  | some o =>
    obtain ⟨c', h1, h2⟩ := ht _ _ (lookup_mem h)
    exact ⟨c', h1, h2.symm⟩

theorem get_snd_sound (ident : Cfg → κ) (build : Cfg → Obj) (evict : Table κ Obj → Table κ Obj)
    (hev : ∀ t e, e ∈ evict t → e ∈ t)
    (t : Table κ Obj) (c : Cfg) (ht : Sound ident build t) :
    Sound ident build (get ident build evict t c).2 := by
  unfold get
  cases h : lookup (ident c) t with
  | some o => exact ht
  | none =>
    intro k o hm
    rcases List.mem_cons.1 hm with hm | hm
    · injection hm with h1 h2; exact ⟨c, h1.symm, h2.symm⟩
    · exact ht k o (hev _ _ hm)

/-- TRANSPARENT: an identity that separates every two configurations whose objects differ makes
the memo invisible — for every eviction policy that only drops entries, every sound table to
start from (the empty one in particular) and every history, each call gets exactly the object
built from its own configuration. -/
theorem run_transparent (ident : Cfg → κ) (build : Cfg → Obj) (evict : Table κ Obj → Table κ Obj)
    (hsep : ∀ c c', ident c = ident c' → build c = build c')
    (hev : ∀ t e, e ∈ evict t → e ∈ t) :
    ∀ (cs : List Cfg) (t : Table κ Obj), Sound ident build t → run ident build evict t cs = cs.map build
  | [], _, _ => rfl
  | c :: cs, t, ht => by
    obtain ⟨c', h1, h2⟩ := get_fst_of_sound ident build evict t c ht
    simp only [run, List.map_cons]
    rw [h2, hsep c' c h1, run_transparent ident build evict hsep hev cs _ (get_snd_sound ident build evict hev t c ht)]

/-- CONFLATED: two configurations with the same identity, called one after the other, get the
SAME object — from every state of the table (whatever the process did before) and under every
eviction policy. -/
theorem run_two_calls_same_object (ident : Cfg → κ) (build : Cfg → Obj) (evict : Table κ Obj → Table κ Obj)
    (t : Table κ Obj) (c1 c2 : Cfg) (hid : ident c1 = ident c2) :
    ∃ o, run ident build evict t [c1, c2] = [o, o] := by
  simp only [run, get]
  cases h : lookup (ident c1) t with
  | some o => exact ⟨o, by simp [← hid, h]⟩
  | none => exact ⟨build c1, by simp [← hid, lookup_head]⟩

/-- from the empty table the second call gets the FIRST call's object -/
theorem run_two_calls_fresh (ident : Cfg → κ) (build : Cfg → Obj) (evict : Table κ Obj → Table κ Obj)
    (c1 c2 : Cfg) (hid : ident c1 = ident c2) :
    run ident build evict [] [c1, c2] = [build c1, build c1] := by
  simp [run, get, lookup, ← hid]

end generic

/-! ### The partial identities collide exactly on the generator's key families -/

theorem pad32_zero_ext (k : Bytes) (j : Nat) (h : k.length + j ≤ 32) :
    pad32 (k ++ List.replicate j 0) = pad32 k := by
  unfold pad32
  rw [List.append_assoc, List.length_append, List.length_replicate]
  congr 1
  apply List.ext_getElem
  · simp only [List.length_append, List.length_replicate]; omega
  · intro i h1 h2
    simp only [List.getElem_append, List.getElem_replicate, List.length_replicate]
    split <;> rfl

theorem identNoLen_collides (k : Bytes) (j n : Nat) (h : k.length + j ≤ 32) :
    identNoLen ⟨k ++ List.replicate j 0, n⟩ = identNoLen ⟨k, n⟩ := by
  simp only [identNoLen, pad32_zero_ext k j h]

theorem identFirst16_collides (p x y : Bytes) (n : Nat) (hp : p.length = 16) (hxy : x.length = y.length) :
    identFirst16 ⟨p ++ x, n⟩ = identFirst16 ⟨p ++ y, n⟩ := by
  simp [identFirst16, hp, hxy]

theorem identFirst24_collides (p x y : Bytes) (n : Nat) (hp : p.length = 24) (hxy : x.length = y.length) :
    identFirst24 ⟨p ++ x, n⟩ = identFirst24 ⟨p ++ y, n⟩ := by
  simp [identFirst24, hp, hxy]

theorem identLast16_collides (x y s : Bytes) (n : Nat) (hs : s.length = 16) (hxy : x.length = y.length) :
    identLast16 ⟨x ++ s, n⟩ = identLast16 ⟨y ++ s, n⟩ := by
  simp [identLast16, hs, hxy]

theorem identNoNonceLen_collides (k : Bytes) (n n' : Nat) :
    identNoNonceLen ⟨k, n⟩ = identNoNonceLen ⟨k, n'⟩ := rfl

theorem identNoIV_collides (k iv iv' : Bytes) : identNoIV ⟨k, iv⟩ = identNoIV ⟨k, iv'⟩ := rfl

theorem identFull_injective (c c' : GcmCfg) (h : identFull c = identFull c') : c = c' := by
  obtain ⟨k, n⟩ := c; obtain ⟨k', n'⟩ := c'
  simp only [identFull, Prod.mk.injEq] at h
  rw [h.1, h.2]

/-! ### The GCM helpers through a memo -/

theorem sealWith_own (A : AEAD) (dst pt key nonce ad : Bytes) (hk : keyOK key = true) (hn : nonce.length ≠ 0) :
    sealWith A ⟨key, nonce.length⟩ dst pt nonce ad = aesGCMEncrypt A dst pt key nonce ad := by
  simp [sealWith, aesGCMEncrypt, hk, hn]

theorem openWith_own (A : AEAD) (dst ct key nonce ad : Bytes) (hk : keyOK key = true) (hn : nonce.length ≠ 0) :
    openWith A ⟨key, nonce.length⟩ dst ct nonce ad = aesGCMDecrypt A dst ct key nonce ad := by
  simp only [openWith, aesGCMDecrypt, hk, hn]
  simp only [ne_eq, not_true_eq_false, if_false]
  cases A.openF key nonce ct ad <;> rfl

/-- a memo keyed by an identity that separates configurations (`identFull`, or anything
injective) is invisible: every call, from every sound table, answers as the stateless
`AESGCMEncrypt` / `AESGCMDecrypt` — and leaves a sound table. -/
theorem gcm_memo_transparent {κ : Type} [DecidableEq κ] (A : AEAD) (ident : GcmCfg → κ)
    (evict : Table κ GcmCfg → Table κ GcmCfg)
    (hinj : ∀ c c', ident c = ident c' → c = c') (hev : ∀ t e, e ∈ evict t → e ∈ t)
    (t : Table κ GcmCfg) (ht : Sound ident id t) (dst data key nonce ad : Bytes) :
    (aesGCMEncryptMemo A ident evict t dst data key nonce ad).1 = aesGCMEncrypt A dst data key nonce ad ∧
    (aesGCMDecryptMemo A ident evict t dst data key nonce ad).1 = aesGCMDecrypt A dst data key nonce ad ∧
    Sound ident id (aesGCMEncryptMemo A ident evict t dst data key nonce ad).2 ∧
    Sound ident id (aesGCMDecryptMemo A ident evict t dst data key nonce ad).2 := by
  unfold aesGCMEncryptMemo aesGCMDecryptMemo
  by_cases hk : keyOK key = true
  · by_cases hn : nonce.length = 0
    · simp [hk, hn, aesGCMEncrypt, aesGCMDecrypt, ht]
    · obtain ⟨c', h1, h2⟩ := get_fst_of_sound ident id evict t ⟨key, nonce.length⟩ ht
      have hc := hinj _ _ h1
      simp only [id] at h2
      have hs := get_snd_sound ident id evict hev t ⟨key, nonce.length⟩ ht
      simp only [hk, hn, not_true_eq_false, if_false, h2, hc]
      exact ⟨sealWith_own A dst data key nonce ad hk hn, openWith_own A dst data key nonce ad hk hn, hs, hs⟩
  · have hk' : keyOK key = false := by simpa using hk
    simp [hk', aesGCMEncrypt, aesGCMDecrypt, ht]

/-- C08-J's shape: two valid calls whose configurations the memo's identity conflates, made one
after the other from the EMPTY table — the second call is answered with the FIRST call's key and
nonce size. -/
theorem gcm_memo_second_call_uses_first {κ : Type} [DecidableEq κ] (A : AEAD) (ident : GcmCfg → κ)
    (evict : Table κ GcmCfg → Table κ GcmCfg)
    (dst1 pt1 key1 nonce1 ad1 dst2 pt2 key2 nonce2 ad2 : Bytes)
    (hk1 : keyOK key1 = true) (hn1 : nonce1.length ≠ 0) (hk2 : keyOK key2 = true) (hn2 : nonce2.length ≠ 0)
    (hid : ident ⟨key1, nonce1.length⟩ = ident ⟨key2, nonce2.length⟩) :
    let r1 := aesGCMEncryptMemo A ident evict [] dst1 pt1 key1 nonce1 ad1
    r1.1 = aesGCMEncrypt A dst1 pt1 key1 nonce1 ad1 ∧
    (aesGCMEncryptMemo A ident evict r1.2 dst2 pt2 key2 nonce2 ad2).1 =
      sealWith A ⟨key1, nonce1.length⟩ dst2 pt2 nonce2 ad2 ∧
    (aesGCMDecryptMemo A ident evict r1.2 dst2 pt2 key2 nonce2 ad2).1 =
      openWith A ⟨key1, nonce1.length⟩ dst2 pt2 nonce2 ad2 := by
  simp only [aesGCMEncryptMemo, aesGCMDecryptMemo, hk1, hk2, hn1, hn2, not_true_eq_false, if_false,
    get, lookup, id, ← hid, if_true]
  exact ⟨sealWith_own A dst1 pt1 key1 nonce1 ad1 hk1 hn1, trivial, trivial⟩

/-- the same for CBC with the iv dropped from the identity: the second call encrypts under the
first call's iv -/
theorem cbc_memo_second_call_uses_first {κ : Type} [DecidableEq κ] (C : Cipher) (ident : CbcCfg → κ)
    (evict : Table κ CbcCfg → Table κ CbcCfg)
    (dst1 pt1 key1 iv1 dst2 pt2 key2 iv2 : Bytes)
    (hk1 : keyOK key1 = true) (hk2 : keyOK key2 = true)
    (hid : ident ⟨key1, iv1⟩ = ident ⟨key2, iv2⟩) :
    let r1 := aesCBCEncryptMemo C ident evict [] dst1 pt1 key1 iv1
    r1.1 = aesCBCEncrypt C dst1 pt1 key1 iv1 ∧
    (aesCBCEncryptMemo C ident evict r1.2 dst2 pt2 key2 iv2).1 = aesCBCEncrypt C dst2 pt2 key1 iv1 := by
  simp only [aesCBCEncryptMemo, hk1, hk2, not_true_eq_false, if_false, get, lookup, id, ← hid, if_true]
  exact ⟨trivial, trivial⟩

end Golib.C08.Memo
