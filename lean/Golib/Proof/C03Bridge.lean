/-
C03 ↔ C02: the ordered-map interface the RoaringBitmap model uses for its bucket list
(`omGet/omSet/omSetValue/omRemove`, `Model/C03Roaring.lean`) is the sorted-map specification
that C02 proves the skip list refines (`OMap.get/set/erase`, `Proof/C02Inv.lean`), for the
built-in order on the `uint16` keys.
-/
import Golib.Proof.C02Inv
import Golib.Model.C03Roaring

set_option linter.unusedSimpArgs false

namespace Golib.C03
open Golib.C02 (OMap.get OMap.set OMap.erase)

/-- The built-in order of the bucket keys as a comparator. -/
def cmpNat (a b : Nat) : Int := if a < b then -1 else if a = b then 0 else 1

theorem cmpNat_total : Golib.C02.TotalCmp cmpNat := by
  refine ⟨?_, ?_, ?_⟩ <;> intros <;> simp only [cmpNat] at * <;> (repeat' split) <;> omega

def KeySorted (cs : OMap) : Prop := (cs.map Prod.fst).Pairwise (· < ·)

theorem omGet_eq (cs : OMap) (k : Nat) : omGet cs k = OMap.get cs k := by
  induction cs with
  | nil => rfl
  | cons p rest ih =>
    obtain ⟨a, c⟩ := p
    unfold omGet OMap.get
    by_cases h : a = k
    · simp [h]
    · simp only [h, if_false, List.find?_cons, decide_false]
      rw [ih]; rfl

theorem filter_lt_eq_nil {cs : OMap} {a : Nat} (h : ∀ p ∈ cs, a < p.1) {k : Nat} (hk : k ≤ a) :
    cs.filter (fun p => decide (cmpNat p.1 k < 0)) = [] := by
  rw [List.filter_eq_nil_iff]
  intro p hp
  have := h p hp
  have h2 : ¬ cmpNat p.1 k < 0 := by simp only [cmpNat]; (repeat' split) <;> omega
  simpa using h2

theorem omGet_none_of_lt {cs : OMap} {a : Nat} (h : ∀ p ∈ cs, a < p.1) {k : Nat} (hk : k ≤ a) :
    omGet cs k = none := by
  induction cs with
  | nil => rfl
  | cons q r ih =>
    obtain ⟨b, d⟩ := q
    have hb := h (b, d) (by simp)
    simp only [] at hb
    unfold omGet
    have : b ≠ k := by omega
    simp only [this, if_false]
    exact ih (fun p hp => h p (by simp [hp]))

theorem filter_gt_eq_self {cs : OMap} {a : Nat} (h : ∀ p ∈ cs, a < p.1) {k : Nat} (hk : k ≤ a) :
    cs.filter (fun p => decide (cmpNat k p.1 < 0)) = cs := by
  rw [List.filter_eq_self]
  intro p hp
  have := h p hp
  have h2 : cmpNat k p.1 < 0 := by simp only [cmpNat]; (repeat' split) <;> omega
  simpa using h2

theorem head_lt {a : Nat} {c : Container} {rest : OMap} (hs : KeySorted ((a, c) :: rest)) :
    ∀ p ∈ rest, a < p.1 := by
  intro p hp
  have := (List.pairwise_cons.mp hs).1 p.1 (List.mem_map_of_mem hp)
  exact this

theorem omSet_eq {cs : OMap} (hs : KeySorted cs) (k : Nat) (c : Container) :
    omSet cs k c = OMap.set cmpNat cs k c := by
  induction cs with
  | nil => rfl
  | cons p rest ih =>
    obtain ⟨a, c0⟩ := p
    have hlt := head_lt hs
    have hs' : KeySorted rest := (List.pairwise_cons.mp hs).2
    unfold omSet OMap.set
    by_cases h1 : k < a
    · have e1 : ((a, c0) :: rest).filter (fun p => decide (cmpNat p.1 k < 0)) = [] := by
        rw [List.filter_cons]
        have : ¬ cmpNat a k < 0 := by simp only [cmpNat]; (repeat' split) <;> omega
        simp only [this, decide_false, Bool.false_eq_true, if_false]
        exact filter_lt_eq_nil hlt (by omega)
      have e2 : ((a, c0) :: rest).filter (fun p => decide (cmpNat k p.1 < 0)) = (a, c0) :: rest := by
        rw [List.filter_cons]
        have : cmpNat k a < 0 := by simp only [cmpNat]; (repeat' split) <;> omega
        simp only [this, decide_true, if_true]
        rw [filter_gt_eq_self hlt (by omega)]
      simp [h1, e1, e2]
    · by_cases h2 : k = a
      · subst h2
        have e1 : ((k, c0) :: rest).filter (fun p => decide (cmpNat p.1 k < 0)) = [] := by
          rw [List.filter_cons]
          have : ¬ cmpNat k k < 0 := by simp [cmpNat]
          simp only [this, decide_false, Bool.false_eq_true, if_false]
          exact filter_lt_eq_nil hlt (Nat.le_refl _)
        have e2 : ((k, c0) :: rest).filter (fun p => decide (cmpNat k p.1 < 0)) = rest := by
          rw [List.filter_cons]
          have : ¬ cmpNat k k < 0 := by simp [cmpNat]
          simp only [this, decide_false, Bool.false_eq_true, if_false]
          exact filter_gt_eq_self hlt (Nat.le_refl _)
        simp [e1, e2]
      · have e1 : ((a, c0) :: rest).filter (fun p => decide (cmpNat p.1 k < 0)) =
            (a, c0) :: rest.filter (fun p => decide (cmpNat p.1 k < 0)) := by
          rw [List.filter_cons]
          have : cmpNat a k < 0 := by simp only [cmpNat]; (repeat' split) <;> omega
          simp [this]
        have e2 : ((a, c0) :: rest).filter (fun p => decide (cmpNat k p.1 < 0)) =
            rest.filter (fun p => decide (cmpNat k p.1 < 0)) := by
          rw [List.filter_cons]
          have : ¬ cmpNat k a < 0 := by simp only [cmpNat]; (repeat' split) <;> omega
          simp [this]
        simp only [h1, h2, if_false, e1, e2, List.cons_append]
        rw [ih hs']; rfl

theorem omRemove_eq {cs : OMap} (hs : KeySorted cs) (k : Nat) :
    omRemove cs k = OMap.erase cmpNat cs k := by
  induction cs with
  | nil => rfl
  | cons p rest ih =>
    obtain ⟨a, c0⟩ := p
    have hlt := head_lt hs
    have hs' : KeySorted rest := (List.pairwise_cons.mp hs).2
    unfold omRemove OMap.erase
    by_cases h2 : a = k
    · subst h2
      have e1 : ((a, c0) :: rest).filter (fun p => decide (cmpNat p.1 a < 0)) = [] := by
        rw [List.filter_cons]
        have : ¬ cmpNat a a < 0 := by simp [cmpNat]
        simp only [this, decide_false, Bool.false_eq_true, if_false]
        exact filter_lt_eq_nil hlt (Nat.le_refl _)
      have e2 : ((a, c0) :: rest).filter (fun p => decide (cmpNat a p.1 < 0)) = rest := by
        rw [List.filter_cons]
        have : ¬ cmpNat a a < 0 := by simp [cmpNat]
        simp only [this, decide_false, Bool.false_eq_true, if_false]
        exact filter_gt_eq_self hlt (Nat.le_refl _)
      simp [e1, e2]
    · by_cases h1 : k < a
      · have e1 : ((a, c0) :: rest).filter (fun p => decide (cmpNat p.1 k < 0)) = [] := by
          rw [List.filter_cons]
          have : ¬ cmpNat a k < 0 := by simp only [cmpNat]; (repeat' split) <;> omega
          simp only [this, decide_false, Bool.false_eq_true, if_false]
          exact filter_lt_eq_nil hlt (by omega)
        have e2 : ((a, c0) :: rest).filter (fun p => decide (cmpNat k p.1 < 0)) = (a, c0) :: rest := by
          rw [List.filter_cons]
          have : cmpNat k a < 0 := by simp only [cmpNat]; (repeat' split) <;> omega
          simp only [this, decide_true, if_true]
          rw [filter_gt_eq_self hlt (by omega)]
        -- k is below every key: nothing to remove
        have hno : omRemove rest k = rest := by
          rw [ih hs']
          unfold OMap.erase
          rw [filter_lt_eq_nil hlt (by omega), filter_gt_eq_self hlt (by omega)]; rfl
        simp [h2, e1, e2, hno]
      · have e1 : ((a, c0) :: rest).filter (fun p => decide (cmpNat p.1 k < 0)) =
            (a, c0) :: rest.filter (fun p => decide (cmpNat p.1 k < 0)) := by
          rw [List.filter_cons]
          have : cmpNat a k < 0 := by simp only [cmpNat]; (repeat' split) <;> omega
          simp [this]
        have e2 : ((a, c0) :: rest).filter (fun p => decide (cmpNat k p.1 < 0)) =
            rest.filter (fun p => decide (cmpNat k p.1 < 0)) := by
          rw [List.filter_cons]
          have : ¬ cmpNat k a < 0 := by simp only [cmpNat]; (repeat' split) <;> omega
          simp [this]
        simp only [h2, if_false, e1, e2, List.cons_append]
        rw [ih hs']; rfl

/-- `node.SetValue` on the node found under a present key is `Set` of that key. -/
theorem omSetValue_eq {cs : OMap} (hs : KeySorted cs) (k : Nat) (c : Container)
    (hk : (omGet cs k).isSome = true) : omSetValue cs k c = omSet cs k c := by
  induction cs with
  | nil => simp [omGet] at hk
  | cons p rest ih =>
    obtain ⟨a, c0⟩ := p
    have hlt := head_lt hs
    have hs' : KeySorted rest := (List.pairwise_cons.mp hs).2
    unfold omSetValue omSet
    by_cases h2 : a = k
    · subst h2; simp
    · have hk' : (omGet rest k).isSome = true := by simpa [omGet, h2] using hk
      have hne : k ≠ a := fun e => h2 e.symm
      -- k is present in rest, hence above a
      have : ¬ k < a := by
        intro hlt'
        have : omGet rest k = none := omGet_none_of_lt hlt (by omega)
        rw [this] at hk'; cases hk'
      simp only [h2, if_false, this, hne]
      rw [ih hs' hk']

end Golib.C03
