/-
C05: `BuildFailureLinks` (algz/trie.go 62–93) computes, for every non-root node, the
longest proper suffix that is a trie node; it never panics and never runs out of fuel.
-/
import Golib.Proof.C05Aho
import Golib.Proof.C05Queue

set_option linter.unusedSimpArgs false
set_option linter.unusedVariables false

namespace Golib.C05
open Golib

/-! ### association-list facts -/

theorem lookup_cons_ne {F : FailTab} {k n v : Label} (h : n ≠ k) :
    List.lookup n ((k, v) :: F) = F.lookup n := by
  rw [List.lookup_cons]
  have : (n == k) = false := by simpa using h
  rw [this]

theorem lookup_some_mem {E : FailTab} {n f : Label} (h : E.lookup n = some f) : (n, f) ∈ E := by
  induction E with
  | nil => simp at h
  | cons e E ih =>
    obtain ⟨k, v⟩ := e
    by_cases hk : n = k
    · subst hk
      rw [List.lookup_cons_self] at h
      cases h; exact List.mem_cons_self
    · rw [lookup_cons_ne hk] at h
      exact List.mem_cons_of_mem _ (ih h)

theorem lookup_ne_none_iff {E : FailTab} {n : Label} : E.lookup n ≠ none ↔ ∃ f, (n, f) ∈ E := by
  induction E with
  | nil => simp
  | cons e E ih =>
    obtain ⟨k, v⟩ := e
    by_cases hk : n = k
    · subst hk
      rw [List.lookup_cons_self]
      simp only [ne_eq, reduceCtorEq, not_false_eq_true, true_iff]
      exact ⟨v, List.mem_cons_self⟩
    · rw [lookup_cons_ne hk, ih]
      constructor
      · rintro ⟨f, hf⟩; exact ⟨f, List.mem_cons_of_mem _ hf⟩
      · rintro ⟨f, hf⟩
        rcases List.mem_cons.1 hf with h | h
        · cases h; exact absurd rfl hk
        · exact ⟨f, h⟩

/-- The entry written for the child `curr ++ [r]`. -/
def entry (ps : List (List Step)) (curr : Label) (r : Int) : Label × Label :=
  (curr ++ [r], lps ps (curr ++ [r]))

/-- The entries written while processing the child runes `cs` of `curr` (newest first). -/
def entries (ps : List (List Step)) (curr : Label) (cs : List Int) : FailTab :=
  (cs.map (entry ps curr)).reverse

theorem mem_entries {ps : List (List Step)} {curr : Label} {cs : List Int} {n f : Label} :
    (n, f) ∈ entries ps curr cs ↔ ∃ r ∈ cs, n = curr ++ [r] ∧ f = lps ps n := by
  simp only [entries, List.mem_reverse, List.mem_map, entry, Prod.mk.injEq]
  constructor
  · rintro ⟨r, hr, h1, h2⟩; subst h1; exact ⟨r, hr, rfl, h2.symm⟩
  · rintro ⟨r, hr, h1, h2⟩; subst h1; exact ⟨r, hr, rfl, h2.symm⟩

theorem lookup_entries_some {ps : List (List Step)} {curr : Label} {cs : List Int} {F : FailTab}
    {n f : Label} (h : (entries ps curr cs ++ F).lookup n = some f) :
    (∃ r ∈ cs, n = curr ++ [r] ∧ f = lps ps n) ∨ F.lookup n = some f := by
  rw [List.lookup_append] at h
  cases he : (entries ps curr cs).lookup n with
  | none => rw [he] at h; exact Or.inr (by simpa using h)
  | some g =>
    rw [he] at h
    have : g = f := by simpa using h
    subst this
    exact Or.inl (mem_entries.1 (lookup_some_mem he))

theorem lookup_entries_ne_none {ps : List (List Step)} {curr : Label} {cs : List Int} {F : FailTab}
    {n : Label} : (entries ps curr cs ++ F).lookup n ≠ none ↔
      (∃ r ∈ cs, n = curr ++ [r]) ∨ F.lookup n ≠ none := by
  rw [List.lookup_append]
  have h1 := lookup_ne_none_iff (E := entries ps curr cs) (n := n)
  cases he : (entries ps curr cs).lookup n with
  | none =>
    rw [he] at h1
    simp only [Option.none_or]
    constructor
    · exact Or.inr
    · rintro (⟨r, hr, hn⟩ | h)
      · exact (h1.2 ⟨_, mem_entries.2 ⟨r, hr, hn, rfl⟩⟩ rfl).elim
      · exact h
  | some g =>
    simp only [Option.some_or, ne_eq, reduceCtorEq, not_false_eq_true, true_iff]
    obtain ⟨r, hr, hn, _⟩ := mem_entries.1 (lookup_some_mem he)
    exact Or.inl ⟨r, hr, hn⟩

/-! ### the inner `for failNode != nil` walk -/

theorem index_children' {ps : List (List Step)} {node : Label} {cs : List Int}
    (hc : childrenOf ps node = some cs) (v : Int) :
    (∃ i, index cs v = some (some i) ∧ cs[i]? = some v ∧ IsNode ps (node ++ [v])) ∨
    (index cs v = some none ∧ ¬ IsNode ps (node ++ [v])) :=
  index_children (t := ⟨ps, []⟩) hc v

theorem failWalk_spec (ps : List (List Step)) (F : FailTab) (r : Int) (hroot : F.lookup [] = none) :
    ∀ (fuel : Nat) (m : Label), IsNode ps m → m.length + 2 ≤ fuel →
      (∀ n, IsNode ps n → n ≠ [] → n.length ≤ m.length → F.lookup n = some (lps ps n)) →
      (failWalk ps F r fuel (some m) = some none ∧ lns ps (m ++ [r]) = []) ∨
      (∃ m' idx cs', failWalk ps F r fuel (some m) = some (some (m', idx)) ∧
          childrenOf ps m' = some cs' ∧ cs'[idx]? = some r ∧ m' ++ [r] = lns ps (m ++ [r])) := by
  intro fuel
  induction fuel with
  | zero => intro m _ h; omega
  | succ fuel ih =>
    intro m hm hlen hF
    obtain ⟨cs, hc⟩ := children_exists ps m
    simp only [failWalk, hc]
    rcases index_children' hc r with ⟨i, h1, h2, h3⟩ | ⟨h1, h3⟩
    · simp only [h1]
      exact Or.inr ⟨m, i, cs, rfl, hc, h2, (lns_snoc_of_mem h3).symm⟩
    · simp only [h1]
      by_cases hr : m = []
      · subst hr
        rw [hroot]
        cases fuel with
        | zero => simp at hlen
        | succ fuel => exact Or.inl ⟨rfl, lns_singleton_of_not_mem h3⟩
      · rw [hF m hm hr (Nat.le_refl _), lns_snoc_of_not_mem hr h3]
        have hl := lps_length_lt ps m hr
        exact ih (lps ps m) (lps_isNode _ _) (by omega)
          (fun n hn hne hle => hF n hn hne (by omega))

theorem lps_snoc {ps : List (List Step)} {curr : Label} (hne : curr ≠ []) (r : Int) :
    lps ps (curr ++ [r]) = lns ps (lps ps curr ++ [r]) := by
  cases curr with
  | nil => exact absurd rfl hne
  | cons a l =>
    simp only [lps, List.cons_append, List.tail_cons]
    exact lns_snoc ps l r

/-! ### the two `for … range children` loops, in closed form -/

theorem processChildren_spec (ps : List (List Step)) (curr : Label) (hcn : IsNode ps curr)
    (hne : curr ≠ []) :
    ∀ (rs : List Int) (q : Queue) (F : FailTab), q.Inv → F.lookup [] = none →
      (∀ n, IsNode ps n → n ≠ [] → n.length ≤ curr.length → F.lookup n = some (lps ps n)) →
      ∃ q', processChildren ps curr rs ⟨q, F⟩ = some ⟨q', entries ps curr rs ++ F⟩ ∧ q'.Inv ∧
        q'.content = q.content ++ rs.map (fun r => curr ++ [r]) := by
  intro rs
  induction rs with
  | nil =>
    intro q F hq _ _
    exact ⟨q, by simp [processChildren, entries], hq, by simp⟩
  | cons r rs ih =>
    intro q F hq hroot hF
    have hl := lps_length_lt ps curr hne
    have htarget : ∃ q', processChildren ps curr (r :: rs) ⟨q, F⟩ =
        (match q.push (curr ++ [r]) with
          | none => none
          | some q' => processChildren ps curr rs ⟨q', entry ps curr r :: F⟩) ∧ q' = q := by
      refine ⟨q, ?_, rfl⟩
      simp only [processChildren, hF curr hcn hne (Nat.le_refl _)]
      rcases failWalk_spec ps F r hroot (curr.length + 2) (lps ps curr) (lps_isNode _ _) (by omega)
          (fun n hn hne' hle => hF n hn hne' (by omega)) with ⟨h1, h2⟩ | ⟨m', idx, cs', h1, h2, h3, h4⟩
      · simp only [h1, entry, lps_snoc hne r, h2]; rfl
      · simp only [h1, h2, h3, Option.map_some, entry, lps_snoc hne r, h4]; rfl
    obtain ⟨_, hpc, _⟩ := htarget
    rw [hpc]
    obtain ⟨q1, hp1, hq1, hc1⟩ := Queue.push_spec q (curr ++ [r]) hq
    simp only [hp1]
    have hkey : ∀ n : Label, n.length ≤ curr.length → n ≠ curr ++ [r] := by
      intro n hn he
      have := congrArg List.length he
      simp only [List.length_append, List.length_cons, List.length_nil] at this
      omega
    obtain ⟨q2, hp2, hq2, hc2⟩ := ih q1 (entry ps curr r :: F) hq1
      (by
        have : ([] : Label) ≠ curr ++ [r] := by simp
        simp only [entry]; rw [lookup_cons_ne this]; exact hroot)
      (by
        intro n hn hne' hle
        simp only [entry]; rw [lookup_cons_ne (hkey n hle)]; exact hF n hn hne' hle)
    refine ⟨q2, ?_, hq2, ?_⟩
    · rw [hp2]
      simp only [entries, List.map_cons, List.reverse_cons, List.append_assoc, List.singleton_append]
    · rw [hc2, hc1]
      simp only [List.map_cons, List.append_assoc, List.singleton_append]

theorem seedRoot_spec (ps : List (List Step)) :
    ∀ (rs : List Int) (q : Queue) (F : FailTab), q.Inv →
      ∃ q', seedRoot rs ⟨q, F⟩ = some ⟨q', entries ps [] rs ++ F⟩ ∧ q'.Inv ∧
        q'.content = q.content ++ rs.map (fun r => [] ++ [r]) := by
  intro rs
  induction rs with
  | nil =>
    intro q F hq
    exact ⟨q, by simp [seedRoot, entries], hq, by simp⟩
  | cons r rs ih =>
    intro q F hq
    obtain ⟨q1, hp1, hq1, hc1⟩ := Queue.push_spec q [r] hq
    simp only [seedRoot, hp1]
    obtain ⟨q2, hp2, hq2, hc2⟩ := ih q1 (([r], []) :: F) hq1
    refine ⟨q2, ?_, hq2, ?_⟩
    · rw [hp2]
      simp only [entries, List.map_cons, List.reverse_cons, List.append_assoc, List.singleton_append,
        entry, lps, lns, List.nil_append, List.tail_cons]
    · rw [hc2, hc1]
      simp only [List.map_cons, List.append_assoc, List.singleton_append, List.nil_append]

/-! ### the BFS invariant -/

/-- The children `curr ++ [r]`, `r ∈ cs`, in child order. -/
def kids (curr : Label) (cs : List Int) : List Label := cs.map fun r => curr ++ [r]

theorem mem_kids {curr : Label} {cs : List Int} {n : Label} :
    n ∈ kids curr cs ↔ ∃ r ∈ cs, n = curr ++ [r] := by
  simp only [kids, List.mem_map]
  constructor
  · rintro ⟨r, hr, h⟩; exact ⟨r, hr, h.symm⟩
  · rintro ⟨r, hr, h⟩; exact ⟨r, hr, h.symm⟩

theorem kids_length {curr : Label} {cs : List Int} {n : Label} (h : n ∈ kids curr cs) :
    n.length = curr.length + 1 := by
  obtain ⟨r, _, rfl⟩ := mem_kids.1 h
  simp

theorem kids_nodup {curr : Label} {cs : List Int} (hs : StrictSorted cs) : (kids curr cs).Nodup := by
  simp only [kids, List.Nodup, List.pairwise_map]
  refine List.Pairwise.imp ?_ hs
  intro a b hab he
  have := List.append_cancel_left he
  simp only [List.cons.injEq, and_true] at this
  omega

theorem kids_sorted (curr : Label) (cs : List Int) :
    (kids curr cs).Pairwise (fun a b => a.length ≤ b.length) := by
  simp only [kids, List.pairwise_map, List.length_append, List.length_cons, List.length_nil]
  exact List.pairwise_of_forall (fun _ _ => Nat.le_refl _)

/-- `P` = nodes already popped (oldest first), `Q` = queue content, `F` = table so far. -/
structure BInv (ps : List (List Step)) (P Q : List Label) (F : FailTab) : Prop where
  root : F.lookup [] = none
  sound : ∀ n f, F.lookup n = some f → IsNode ps n ∧ n ≠ [] ∧ f = lps ps n
  dom : ∀ n, n ∈ P ++ Q ↔ F.lookup n ≠ none
  nodup : (P ++ Q).Nodup
  closed : ∀ p ∈ P, ∀ r, IsNode ps (p ++ [r]) → p ++ [r] ∈ P ++ Q
  depth1 : ∀ r, IsNode ps [r] → [r] ∈ P ++ Q
  parent : ∀ p r, p ≠ [] → p ++ [r] ∈ P ++ Q → p ∈ P
  sorted : Q.Pairwise (fun a b => a.length ≤ b.length)
  band : ∀ a ∈ Q, ∀ b ∈ Q, b.length ≤ a.length + 1

theorem BInv.right {ps : List (List Step)} {P Q : List Label} {F : FailTab} (h : BInv ps P Q F)
    {n : Label} (hn : n ∈ P ++ Q) : IsNode ps n ∧ n ≠ [] ∧ F.lookup n = some (lps ps n) := by
  have h1 := (h.dom n).1 hn
  cases hf : F.lookup n with
  | none => exact absurd hf h1
  | some f =>
    obtain ⟨a, b, c⟩ := h.sound n f hf
    exact ⟨a, b, by rw [c]⟩

/-- Every non-root node not longer than the head of the queue has been discovered. -/
theorem BInv.below {ps : List (List Step)} {P rest : List Label} {curr : Label} {F : FailTab}
    (h : BInv ps P (curr :: rest) F) :
    ∀ (k : Nat) (m : Label), m.length = k + 1 → IsNode ps m → m.length ≤ curr.length →
      m ∈ P ++ curr :: rest := by
  intro k
  induction k with
  | zero =>
    intro m hk hm _
    match m, hk with
    | [r], _ => exact h.depth1 r hm
  | succ k ih =>
    intro m hk hm hle
    rcases List.eq_nil_or_concat m with rfl | ⟨p, r, rfl⟩
    · simp at hk
    · rw [List.concat_eq_append] at hk hm hle ⊢
      simp only [List.length_append, List.length_cons, List.length_nil] at hk hle
      have hp := ih p (by omega) hm.prefix (by omega)
      have hmin : ∀ q ∈ curr :: rest, curr.length ≤ q.length := by
        intro q hq
        rcases List.mem_cons.1 hq with rfl | hq
        · exact Nat.le_refl _
        · exact (List.pairwise_cons.1 h.sorted).1 q hq
      rcases List.mem_append.1 hp with hp | hp
      · exact h.closed p hp r hm
      · have := hmin p hp; omega

theorem BInv.right_below {ps : List (List Step)} {P rest : List Label} {curr : Label} {F : FailTab}
    (h : BInv ps P (curr :: rest) F) (n : Label) (hn : IsNode ps n) (hne : n ≠ [])
    (hle : n.length ≤ curr.length) : F.lookup n = some (lps ps n) := by
  have : n.length = (n.length - 1) + 1 := by
    cases n with
    | nil => exact absurd rfl hne
    | cons a l => simp
  exact (h.right (h.below _ n this hn hle)).2.2

/-- One iteration of the outer loop, on the abstract state. -/
theorem BInv.step {ps : List (List Step)} {P rest : List Label} {curr : Label} {F : FailTab}
    {cs : List Int} (h : BInv ps P (curr :: rest) F) (hc : childrenOf ps curr = some cs) :
    BInv ps (P ++ [curr]) (rest ++ kids curr cs) (entries ps curr cs ++ F) := by
  have hA : (P ++ [curr]) ++ (rest ++ kids curr cs) = (P ++ curr :: rest) ++ kids curr cs := by
    simp only [List.append_assoc, List.singleton_append, List.cons_append, List.nil_append]
  have hcurr : curr ∈ P ++ curr :: rest := by simp
  obtain ⟨hcn, hcne, _⟩ := h.right hcurr
  have hnd := List.nodup_append.1 h.nodup
  have hcP : curr ∉ P := fun hp => hnd.2.2 curr hp curr List.mem_cons_self rfl
  have hfresh : ∀ r, curr ++ [r] ∉ P ++ curr :: rest := fun r hr => hcP (h.parent curr r hcne hr)
  have hmin : ∀ q ∈ rest, curr.length ≤ q.length := (List.pairwise_cons.1 h.sorted).1
  refine ⟨?_, ?_, ?_, ?_, ?_, ?_, ?_, ?_, ?_⟩
  · -- root
    apply Classical.byContradiction; intro hx
    rcases lookup_entries_ne_none.1 hx with ⟨r, _, hr⟩ | hx
    · simp at hr
    · exact hx h.root
  · -- sound
    intro n f hf
    rcases lookup_entries_some hf with ⟨r, hr, rfl, rfl⟩ | hf
    · exact ⟨(mem_children_iff hc r).1 hr, by simp, rfl⟩
    · exact h.sound n f hf
  · -- dom
    intro n
    rw [hA, List.mem_append, mem_kids, lookup_entries_ne_none, h.dom n]
    exact Or.comm
  · -- nodup
    rw [hA, List.nodup_append]
    refine ⟨h.nodup, kids_nodup (children_sorted hc), ?_⟩
    intro a ha b hb hab
    obtain ⟨r, _, rfl⟩ := mem_kids.1 hb
    subst hab
    exact hfresh r ha
  · -- closed
    intro p hp r hr
    rw [hA]
    rcases List.mem_append.1 hp with hp | hp
    · exact List.mem_append_left _ (h.closed p hp r hr)
    · have : p = curr := by simpa using hp
      subst this
      exact List.mem_append_right _ (mem_kids.2 ⟨r, (mem_children_iff hc r).2 hr, rfl⟩)
  · -- depth1
    intro r hr
    rw [hA]
    exact List.mem_append_left _ (h.depth1 r hr)
  · -- parent
    intro p r hp hm
    rw [hA] at hm
    rcases List.mem_append.1 hm with hm | hm
    · exact List.mem_append_left _ (h.parent p r hp hm)
    · obtain ⟨r', _, he⟩ := mem_kids.1 hm
      have : p = curr := List.append_inj_left' he rfl
      subst this
      simp
  · -- sorted
    rw [List.pairwise_append]
    refine ⟨(List.pairwise_cons.1 h.sorted).2, kids_sorted curr cs, ?_⟩
    intro a ha b hb
    rw [kids_length hb]
    exact h.band curr List.mem_cons_self a (List.mem_cons_of_mem _ ha)
  · -- band
    intro a ha b hb
    rcases List.mem_append.1 ha with ha | ha <;> rcases List.mem_append.1 hb with hb | hb
    · exact h.band a (List.mem_cons_of_mem _ ha) b (List.mem_cons_of_mem _ hb)
    · rw [kids_length hb]; have := hmin a ha; omega
    · rw [kids_length ha]
      have := h.band curr List.mem_cons_self b (List.mem_cons_of_mem _ hb); omega
    · rw [kids_length ha, kids_length hb]; omega

/-- The state after the first loop. -/
theorem BInv.init {ps : List (List Step)} {cs : List Int} (hc : childrenOf ps [] = some cs) :
    BInv ps [] (kids [] cs) (entries ps [] cs ++ []) := by
  refine ⟨?_, ?_, ?_, ?_, ?_, ?_, ?_, ?_, ?_⟩
  · apply Classical.byContradiction; intro hx
    rcases lookup_entries_ne_none.1 hx with ⟨r, _, hr⟩ | hx
    · simp at hr
    · exact hx rfl
  · intro n f hf
    rcases lookup_entries_some hf with ⟨r, hr, rfl, rfl⟩ | hf
    · exact ⟨(mem_children_iff hc r).1 hr, by simp, rfl⟩
    · simp at hf
  · intro n
    rw [List.nil_append, mem_kids, lookup_entries_ne_none]
    simp
  · rw [List.nil_append]; exact kids_nodup (children_sorted hc)
  · intro p hp; simp at hp
  · intro r hr
    rw [List.nil_append]
    exact mem_kids.2 ⟨r, (mem_children_iff hc r).2 hr, rfl⟩
  · intro p r hp hm
    rw [List.nil_append] at hm
    obtain ⟨r', _, he⟩ := mem_kids.1 hm
    have : p = [] := List.append_inj_left' he rfl
    exact absurd this hp
  · exact kids_sorted [] cs
  · intro a ha b hb
    rw [kids_length ha, kids_length hb]; omega

/-! ### fuel: at most `nodeBound` nodes are ever popped -/

/-- All non-root nodes (with repetitions): the non-empty prefixes of the pattern labels. -/
def allNodes (ps : List (List Step)) : List Label :=
  ps.flatMap fun p => (List.range p.length).map fun k => (lab p).take (k + 1)

theorem allNodes_length (ps : List (List Step)) : (allNodes ps).length = nodeBound ps := by
  simp only [allNodes, nodeBound, List.length_flatMap, List.length_map, List.length_range]

theorem mem_allNodes {ps : List (List Step)} {n : Label} (hn : IsNode ps n) (hne : n ≠ []) :
    n ∈ allNodes ps := by
  rcases (isNode_iff ps n).1 hn with h | ⟨p, hp, hpre⟩
  · exact absurd h hne
  · simp only [allNodes, List.mem_flatMap, List.mem_map, List.mem_range]
    have h1 := hpre.length_le
    simp only [lab, List.length_map] at h1
    have h2 : 0 < n.length := List.length_pos_iff.2 hne
    refine ⟨p, hp, n.length - 1, by omega, ?_⟩
    have e : n.length - 1 + 1 = n.length := by omega
    rw [e]
    exact (List.prefix_iff_eq_take.1 hpre).symm

theorem BInv.card {ps : List (List Step)} {P Q : List Label} {F : FailTab} (h : BInv ps P Q F) :
    (P ++ Q).length ≤ nodeBound ps := by
  rw [← allNodes_length]
  exact h.nodup.length_le_of_subset (fun n hn => mem_allNodes (h.right hn).1 (h.right hn).2.1)

/-! ### the outer loop -/

theorem bfsLoop_spec (ps : List (List Step)) :
    ∀ (fuel : Nat) (P : List Label) (s : BState), s.q.Inv → BInv ps P s.q.content s.F →
      nodeBound ps + 1 ≤ fuel + P.length →
      ∃ P' s', bfsLoop ps fuel s = some s' ∧ BInv ps P' [] s'.F := by
  intro fuel
  induction fuel with
  | zero =>
    intro P s hq h hf
    have := h.card
    simp only [List.length_append] at this
    omega
  | succ fuel ih =>
    intro P s hq h hf
    obtain ⟨q, F⟩ := s
    simp only at hq h
    cases hQ : q.content with
    | nil =>
      have he : q.isEmpty = true := (Queue.isEmpty_spec q hq).2 hQ
      refine ⟨P, ⟨q, F⟩, ?_, ?_⟩
      · simp only [bfsLoop, he, if_true]
      · rw [hQ] at h; exact h
    | cons curr rest =>
      have he : q.isEmpty = false := by
        cases hb : q.isEmpty with
        | false => rfl
        | true => rw [(Queue.isEmpty_spec q hq).1 hb] at hQ; cases hQ
      rw [hQ] at h
      obtain ⟨q1, hp1, hq1, hc1⟩ := Queue.pop_spec q hq curr rest hQ
      obtain ⟨cs, hc⟩ := children_exists ps curr
      obtain ⟨hcn, hcne, _⟩ := h.right (show curr ∈ P ++ curr :: rest by simp)
      obtain ⟨q2, hp2, hq2, hc2⟩ :=
        processChildren_spec ps curr hcn hcne cs q1 F hq1 h.root h.right_below
      have hstep := h.step hc
      have hcard := h.card
      simp only [List.length_append, List.length_cons] at hcard
      simp only [bfsLoop, he, hp1, hc, hp2, Bool.false_eq_true, if_false]
      apply ih (P ++ [curr]) ⟨q2, _⟩ hq2
      · simp only []
        rw [hc2, hc1]
        exact hstep
      · simp only [List.length_append, List.length_cons, List.length_nil]
        omega

theorem BInv.final {ps : List (List Step)} {P : List Label} {F : FailTab} (h : BInv ps P [] F) :
    ∀ (k : Nat) (n : Label), n.length = k + 1 → IsNode ps n → n ∈ P := by
  intro k
  induction k with
  | zero =>
    intro n hk hn
    match n, hk with
    | [r], _ => simpa using h.depth1 r hn
  | succ k ih =>
    intro n hk hn
    rcases List.eq_nil_or_concat n with rfl | ⟨p, r, rfl⟩
    · simp at hk
    · rw [List.concat_eq_append] at hk hn ⊢
      simp only [List.length_append, List.length_cons, List.length_nil] at hk
      have hp := ih p (by omega) hn.prefix
      simpa using h.closed p hp r hn

/-- `BuildFailureLinks` never panics / runs out of fuel, and the table it writes is exactly
the specification: no entry for the root, and for every non-root node the longest proper
suffix that is a node; nothing else is in the table. -/
theorem buildFail_spec (ps : List (List Step)) :
    ∃ F, buildFail ps = some F ∧
      F.lookup [] = none ∧
      (∀ n, IsNode ps n → n ≠ [] → F.lookup n = some (lps ps n)) ∧
      (∀ n f, F.lookup n = some f → IsNode ps n ∧ n ≠ [] ∧ f = lps ps n) := by
  obtain ⟨cs, hc⟩ := children_exists ps []
  obtain ⟨hqi, hci⟩ := Queue.init_spec 10 (by decide)
  obtain ⟨q0, hs0, hq0, hc0⟩ := seedRoot_spec ps cs (Queue.init 10) [] hqi
  have h0 := BInv.init hc
  obtain ⟨P', s', hl, hfin⟩ := bfsLoop_spec ps (nodeBound ps + 1) [] ⟨q0, entries ps [] cs ++ []⟩ hq0
    (by simp only []; rw [hc0, hci]; exact h0) (by simp)
  refine ⟨s'.F, ?_, hfin.root, ?_, hfin.sound⟩
  · simp only [buildFail, hc, hs0, hl, Option.map_some]
  · intro n hn hne
    have hk : n.length = (n.length - 1) + 1 := by
      have := List.length_pos_iff.2 hne; omega
    have hP : n ∈ P' ++ [] := by simpa using hfin.final _ n hk hn
    exact (hfin.right hP).2.2

/-- "he", "she": the node `she` fails to `he`, `sh` to `h`, `s`/`h` to the root. -/
example : (buildFail [[(104, 1), (101, 1)], [(115, 1), (104, 1), (101, 1)]]).map
      (fun F => [F.lookup [115, 104, 101], F.lookup [115, 104], F.lookup [115], F.lookup [104],
        F.lookup [104, 101], F.lookup []])
    = some [some [104, 101], some [104], some [], some [], some [], none] := by decide +kernel

end Golib.C05
