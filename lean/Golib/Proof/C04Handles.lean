/-
C04 helper lemmas, part 6: `Heap` with element handles — the cached index of every element in
`h.values` equals its real position, through every `swapEle` and hence through `up`, `down`,
`fix`, `build`; stale and foreign handles are ignored.
-/
import Golib.Proof.C04Sim

set_option linter.unusedSimpArgs false
set_option linter.unusedVariables false

namespace Golib.C04
open Golib.C13 (PM IM)

/-- `e.index` of every element of heap `h` is its real position in `h.values`. -/
structure IdxInv (m : HMem) (h : Nat) : Prop where
  nodup : (m.arr h).Nodup
  index : ∀ (k : Nat) (e : Nat), (m.arr h)[k]? = some e → m.idx.get e = (k : Int)

theorem arr_setArr (m : HMem) (h : Nat) (a : List Nat) : (m.setArr h a).arr h = a := by
  unfold HMem.setArr HMem.arr; split <;> simp [*]

theorem idx_setArr (m : HMem) (h : Nat) (a : List Nat) : (m.setArr h a).idx = m.idx := by
  unfold HMem.setArr; split <;> rfl

theorem arr_congr (m m2 : HMem) (h : Nat) (h0 : m2.a0 = m.a0) (h1 : m2.a1 = m.a1) :
    m2.arr h = m.arr h := by unfold HMem.arr; rw [h0, h1]

theorem nth_some_iff {α : Type} (s : List α) (i : Int) (a : α) :
    nth s i = some a ↔ ∃ k : Nat, i = (k : Int) ∧ s[k]? = some a := by
  unfold nth
  constructor
  · intro h
    split at h
    · next h0 => exact ⟨i.toNat, by omega, h⟩
    · cases h
  · rintro ⟨k, rfl, h⟩
    simp [h]

/-- `swapEle` keeps the cached indices exact. -/
theorem swapEle_idxInv {cmp} {m m' : HMem} {h : Nat} {i j : Int} (hI : IdxInv m h)
    (hs : (heapOps cmp h).swap m i j = some m') : IdxInv m' h := by
  simp only [heapOps] at hs
  cases hsw : swapL (m.arr h) i j with
  | none => simp [hsw] at hs
  | some a =>
    simp only [hsw] at hs
    -- the swap succeeded: both indices are positions
    unfold swapL at hsw
    cases hi : nth (m.arr h) i with
    | none => simp [hi] at hsw
    | some x =>
      cases hj : nth (m.arr h) j with
      | none => simp [hi, hj] at hsw
      | some y =>
        simp only [hi, hj, Option.some.injEq] at hsw
        obtain ⟨ki, rfl, hxi⟩ := (nth_some_iff _ _ _).1 hi
        obtain ⟨kj, rfl, hyj⟩ := (nth_some_iff _ _ _).1 hj
        simp only [Int.toNat_natCast] at hsw
        have hki : ki < (m.arr h).length := (List.getElem?_eq_some_iff.1 hxi).1
        have hkj : kj < (m.arr h).length := (List.getElem?_eq_some_iff.1 hyj).1
        have ha_i : nth a (ki : Int) = some (if ki = kj then x else y) := by
          rw [nth_some_iff]; refine ⟨ki, rfl, ?_⟩
          rw [← hsw]; simp only [List.getElem?_set, List.length_set]
          by_cases e : kj = ki
          · subst e; simp [hki]
          · simp [e, Ne.symm e, hki]
        have ha_j : nth a (kj : Int) = some x := by
          rw [nth_some_iff]; refine ⟨kj, rfl, ?_⟩
          rw [← hsw]; simp [List.getElem?_set, hkj]
        simp only [ha_i, ha_j, Option.some.injEq] at hs
        subst hs
        have hperm : a.Perm (m.arr h) := by
          rw [← hsw]
          rw [List.perm_iff_count]; intro z
          by_cases e : ki = kj
          · subst e
            have : x = y := by rw [hxi] at hyj; exact Option.some.inj hyj
            subst this
            rw [List.set_set]
            have : (m.arr h).set ki x = m.arr h := by
              have := List.getElem?_eq_some_iff.1 hxi
              rw [← this.2]; exact List.set_getElem_self _
            rw [this]
          · rw [List.count_set (by simpa using hkj), List.count_set hki]
            simp only [List.getElem_set, e, if_false]
            have g1 : (m.arr h)[ki] = x := (List.getElem?_eq_some_iff.1 hxi).2
            have g2 : (m.arr h)[kj] = y := (List.getElem?_eq_some_iff.1 hyj).2
            have c1 : 0 < (m.arr h).count x := List.count_pos_iff.2 (g1 ▸ List.getElem_mem _)
            have c2 : 0 < (m.arr h).count y := List.count_pos_iff.2 (g2 ▸ List.getElem_mem _)
            rw [g1, g2]
            by_cases h1 : x = z <;> by_cases h2 : y = z <;> simp [h1, h2, beq_iff_eq] <;>
              (try subst h1) <;> (try subst h2) <;> omega
        have earr : ∀ (x1 x2 : IM), ({ ({ (m.setArr h a) with idx := x1 } : HMem) with idx := x2 } : HMem).arr h = a :=
          fun x1 x2 => (arr_congr (m.setArr h a) _ h rfl rfl).trans (arr_setArr m h a)
        refine ⟨?_, ?_⟩
        · rw [earr]
          exact (List.Perm.nodup_iff hperm).2 hI.nodup
        · intro k e hk
          rw [earr] at hk
          simp only [idx_setArr, IM.get_set]
          rw [← hsw] at hk
          simp only [List.getElem?_set, List.length_set] at hk
          -- injectivity of positions in `m.arr h`
          have inj : ∀ (a b z : Nat), (m.arr h)[a]? = some z → (m.arr h)[b]? = some z → a = b := by
            intro a b z h1 h2
            have h1' := List.getElem?_eq_some_iff.1 h1
            have h2' := List.getElem?_eq_some_iff.1 h2
            exact (List.getElem_inj (h₀ := h1'.1) (h₁ := h2'.1) hI.nodup).1 (h1'.2.trans h2'.2.symm)
          by_cases ekj : kj = k
          · subst ekj
            simp [hkj] at hk
            subst hk; simp
          · simp only [ekj, if_false] at hk
            by_cases eki : ki = k
            · subst eki
              have hne : ¬ (ki = kj) := fun hh => ekj hh.symm
              simp [hki] at hk
              subst hk
              have hyx : y ≠ x := fun hh => hne (inj _ _ _ hxi (hh ▸ hyj))
              simp [hne, hyx]
            · simp only [eki, if_false] at hk
              have h1 : e ≠ x := fun hh => eki (inj _ _ _ hxi (hh ▸ hk))
              have h2 : e ≠ y := fun hh => ekj (inj _ _ _ hyj (hh ▸ hk))
              have h3 : e ≠ (if ki = kj then x else y) := by split <;> assumption
              simp only [h1, h2, h3, if_false]
              exact hI.index k e hk

/-- `less` never changes the memory. -/
theorem heapLess_same {cmp} {m m' : HMem} {h : Nat} {j i : Int} {r : Bool}
    (hl : (heapOps cmp h).less m j i = some (m', r)) : m' = m := by
  simp only [heapOps] at hl
  split at hl
  · simp at hl; exact hl.1.symm
  · cases hl

theorem heap_self_sim (cmp : Int → Int → Bool) (h : Nat) :
    Sim (heapOps cmp h) (heapOps cmp h) (fun a b => a = b ∧ IdxInv a h) := by
  refine ⟨fun a b j i hab => ?_, fun a b i j hab => ?_⟩
  · obtain ⟨rfl, hI⟩ := hab
    cases hl : (heapOps cmp h).less a j i with
    | none => simp [RelO]
    | some x =>
      obtain ⟨m', r⟩ := x
      have := heapLess_same hl
      subst this
      exact ⟨⟨rfl, hI⟩, rfl⟩
  · obtain ⟨rfl, hI⟩ := hab
    cases hs : (heapOps cmp h).swap a i j with
    | none => simp [RelO]
    | some m' => exact ⟨rfl, swapEle_idxInv hI hs⟩

/-- `fix` / `up` / `down` / `build` with `swapEle` keep every cached index exact. -/
theorem heap_sift_idxInv {cmp} {m : HMem} {h : Nat} (hI : IdxInv m h) :
    (∀ i n m', fix (heapOps cmp h) m i n = some m' → IdxInv m' h) ∧
    (∀ j m', upF (heapOps cmp h) m j = some m' → IdxInv m' h) ∧
    (∀ i n m' b, downB (heapOps cmp h) m i n = some (m', b) → IdxInv m' h) ∧
    (∀ n m', build (heapOps cmp h) m n = some m' → IdxInv m' h) := by
  have S := heap_self_sim cmp h
  refine ⟨fun i n m' e => ?_, fun j m' e => ?_, fun i n m' b e => ?_, fun n m' e => ?_⟩
  · have := fix_sim S m m i n ⟨rfl, hI⟩
    rw [e] at this; exact this.2
  · have := up_sim S (fuelOf j) m m j ⟨rfl, hI⟩
    simp only [upF] at e
    rw [e] at this; exact this.2
  · have := downB_sim S m m i n ⟨rfl, hI⟩
    rw [e] at this; exact this.1.2
  · have := build_sim S m m n ⟨rfl, hI⟩
    rw [e] at this; exact this.2

/-- Stale handles (`e.heap == nil`) and handles of another heap are ignored by `Remove`/`Fix`. -/
theorem heap_handles_ignored (cmp : Int → Int → Bool) (m : HMem) (h e : Nat)
    (hown : m.own.get e ≠ some h) :
    m.remove cmp h e = some m ∧ m.fixElem cmp h e = some m := by
  have : m.own.get e = none ∨ m.own.get e ≠ some h := Or.inr hown
  simp [HMem.remove, HMem.fixElem, this]

/-- `h.pop()`: the element that leaves reports `Index() == -1` and has no owner. -/
theorem popLast_left (m m' : HMem) (h e : Nat) (hp : m.popLast h = some (m', e)) :
    m'.idx.get e = -1 ∧ m'.own.get e = none := by
  simp only [HMem.popLast] at hp
  cases hn : nth (m.arr h) (((m.arr h).length : Int) - 1) with
  | none => simp [hn] at hp
  | some x =>
    simp only [hn, Option.some.injEq, Prod.mk.injEq] at hp
    obtain ⟨rfl, rfl⟩ := hp
    simp [IM.get_set, PM.get_set]

end Golib.C04
