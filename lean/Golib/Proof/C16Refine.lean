/-
C16 helper lemmas, part 4: `setz.Bits` (cached length) invariant under every operation and
every history; `dsz.Bits` is the same machine without return values.
-/
import Golib.Proof.C16Iter

namespace Golib.C16

/-- The cached length equals the cardinality. -/
def Bits.Inv (b : Bits) : Prop := b.length = (card b.bm.set : Int)

theorem Bits.inv_empty : Bits.empty.Inv := by
  simp [Bits.Inv, Bits.empty, Bitmap.empty, card, members, membersFrom]

theorem Bits.add_inv (b b' : Bits) (n : Nat) (ch : Bool) (hi : b.Inv) (h : b.add n = some (b', ch)) :
    b'.Inv := by
  unfold Bits.add at h
  split at h
  · simp at h
  · rename_i bm hb
    simp only [Option.some.injEq, Prod.mk.injEq] at h
    obtain ⟨rfl, rfl⟩ := h
    have := add_card _ _ _ _ hb
    simp only [Bits.Inv] at hi ⊢
    simp only [if_true] at this
    omega
  · rename_i bm hb
    simp only [Option.some.injEq, Prod.mk.injEq] at h
    obtain ⟨rfl, rfl⟩ := h
    have := add_card _ _ _ _ hb
    simp only [Bits.Inv] at hi ⊢
    simp only [Bool.false_eq_true, if_false] at this
    omega

theorem Bits.remove_inv (b b' : Bits) (n : Nat) (ch : Bool) (hi : b.Inv)
    (h : b.remove n = some (b', ch)) : b'.Inv := by
  unfold Bits.remove at h
  split at h
  · simp at h
  · rename_i bm hb
    simp only [Option.some.injEq, Prod.mk.injEq] at h
    obtain ⟨rfl, rfl⟩ := h
    have := remove_card _ _ _ _ hb
    simp only [Bits.Inv] at hi ⊢
    simp only [if_true] at this
    omega
  · rename_i bm hb
    simp only [Option.some.injEq, Prod.mk.injEq] at h
    obtain ⟨rfl, rfl⟩ := h
    have := remove_card _ _ _ _ hb
    simp only [Bits.Inv] at hi ⊢
    simp only [Bool.false_eq_true, if_false] at this
    omega

theorem Bits.diff_inv (b : Bits) (o : Bitmap) : (b.diff o).Inv := by
  simp [Bits.Inv, Bits.diff, len_eq_card]
theorem Bits.intersect_inv (b : Bits) (o : Bitmap) : (b.intersect o).Inv := by
  simp [Bits.Inv, Bits.intersect, len_eq_card]
theorem Bits.merge_inv (b : Bits) (o : Bitmap) : (b.merge o).Inv := by
  simp [Bits.Inv, Bits.merge, len_eq_card]
theorem Bits.grow_inv (b : Bits) (n : Nat) (hi : b.Inv) : ({ b with bm := b.bm.grow n } : Bits).Inv := by
  simp only [Bits.Inv, grow_card] at hi ⊢; exact hi

/-- One step of an arbitrary history of a `Bits` value: any element operation with any
argument, any bulk operation with any other operand (of any word length). -/
inductive Bits.Step : Bits → Bits → Prop
  | add (b b' : Bits) (n : Nat) (ch : Bool) : b.add n = some (b', ch) → Bits.Step b b'
  | remove (b b' : Bits) (n : Nat) (ch : Bool) : b.remove n = some (b', ch) → Bits.Step b b'
  | grow (b : Bits) (n : Nat) : Bits.Step b { b with bm := b.bm.grow n }
  | diff (b : Bits) (o : Bitmap) : Bits.Step b (b.diff o)
  | intersect (b : Bits) (o : Bitmap) : Bits.Step b (b.intersect o)
  | merge (b : Bits) (o : Bitmap) : Bits.Step b (b.merge o)

inductive Bits.Reachable : Bits → Prop
  | init : Bits.Reachable Bits.empty
  | step (b b' : Bits) : Bits.Reachable b → Bits.Step b b' → Bits.Reachable b'

theorem Bits.step_inv (b b' : Bits) (hi : b.Inv) (h : Bits.Step b b') : b'.Inv := by
  cases h with
  | add _ n ch h => exact Bits.add_inv _ _ _ _ hi h
  | remove _ n ch h => exact Bits.remove_inv _ _ _ _ hi h
  | grow n => exact Bits.grow_inv _ _ hi
  | diff o => exact Bits.diff_inv _ _
  | intersect o => exact Bits.intersect_inv _ _
  | merge o => exact Bits.merge_inv _ _

theorem Bits.reachable_inv (b : Bits) (h : Bits.Reachable b) : b.Inv := by
  induction h with
  | init => exact Bits.inv_empty
  | step b b' _ hs ih => exact Bits.step_inv b b' ih hs

/-! ### dsz.Bits = the same machine -/

def DBits.toBits (d : DBits) : Bits := ⟨d.length, ⟨d.set⟩⟩
def Bits.toD (b : Bits) : DBits := ⟨b.length, b.bm.set⟩

theorem DBits.add_eq (d : DBits) (n : Nat) :
    d.add n = (d.toBits.add n).map fun r => r.1.toD := by
  simp only [DBits.add, Bits.add, Bitmap.add, DBits.toBits, Bits.toD]
  by_cases h : n >>> 6 ≥ d.set.length
  · simp only [h, if_true]
    cases (d.set ++ List.replicate (n >>> 6 + 1 - d.set.length) 0#64)[n >>> 6]? with
    | none => rfl
    | some w =>
      simp only []
      cases setIdx (d.set ++ List.replicate (n >>> 6 + 1 - d.set.length) 0#64) (n >>> 6) (w ||| bitMask (n &&& 63)) <;> rfl
  · simp only [h, if_false]
    cases d.set[n >>> 6]? with
    | none => rfl
    | some w =>
      simp only []
      by_cases hb : (w &&& bitMask (n &&& 63)) == 0#64
      · simp only [hb, if_true]
        cases setIdx d.set (n >>> 6) (w ||| bitMask (n &&& 63)) <;> rfl
      · simp only [hb, Bool.false_eq_true, if_false]; rfl

theorem DBits.remove_eq (d : DBits) (n : Nat) :
    d.remove n = (d.toBits.remove n).map fun r => r.1.toD := by
  simp only [DBits.remove, Bits.remove, Bitmap.remove, DBits.toBits, Bits.toD]
  by_cases h : n >>> 6 < d.set.length
  · simp only [h, if_true]
    cases d.set[n >>> 6]? with
    | none => rfl
    | some w =>
      simp only []
      by_cases hb : (w &&& bitMask (n &&& 63)) != 0#64
      · simp only [hb, if_true]
        cases setIdx d.set (n >>> 6) (w &&& ~~~ bitMask (n &&& 63)) <;> rfl
      · simp only [hb, Bool.false_eq_true, if_false]; rfl
  · simp only [h, if_false]; rfl

theorem DBits.contains_eq (d : DBits) (n : Nat) : d.contains n = d.toBits.bm.contains n := rfl
theorem DBits.grow_eq (d : DBits) (n : Nat) :
    (d.grow n).toBits = { d.toBits with bm := d.toBits.bm.grow n } := by
  simp only [DBits.grow, Bitmap.grow, DBits.toBits]
  by_cases h : n >>> 6 ≥ d.set.length <;> simp only [h, if_true, if_false]
theorem DBits.len_eq (d : DBits) : d.len = d.toBits.len := rfl
theorem DBits.cap_eq (d : DBits) : d.cap = d.toBits.bm.cap := rfl

end Golib.C16
