/-
The executable AES of `Golib/Model/C08Aes.lean` against the algebraic definitions of
FIPS-197:

* the S-box table is `affine ∘ inverse`: `subByte b = sboxAffine (gfInv b)`, where `gfInv`
  is `b^254` in GF(2^8) (computed with the model's own `gmul`) and is a multiplicative
  inverse (`gmul b (gfInv b) = 1` for `b ≠ 0`), and `sboxAffine` is the FIPS-197 §5.1.1
  affine map `x ⊕ rotl x 1 ⊕ rotl x 2 ⊕ rotl x 3 ⊕ rotl x 4 ⊕ 0x63`;
* the InvMixColumns matrix times the MixColumns matrix is the identity over GF(2^8), in the
  index convention of `mixColumn` (row `k` has entry `m[(j - k) mod 4]` at column `j`).

All table facts are 256-case (or 16-case) kernel evaluations.
`gmul` itself is characterised in `C08AesPoly` (`gmul_is_clmul_mod`: carry-less product
modulo `x^8+x^4+x^3+x+1`), imported here.
-/
import Golib.Proof.C08AesInv
import Golib.Proof.C08AesPoly

namespace Golib.C08
open AES

/-! ### S-box -/

/-- `b^254` in GF(2^8) by square-and-multiply (`254 = 2+4+8+16+32+64+128`); `gfInv 0 = 0`. -/
def gfInv (b : Nat) : Nat :=
  let b2 := gmul b b
  let b4 := gmul b2 b2
  let b8 := gmul b4 b4
  let b16 := gmul b8 b8
  let b32 := gmul b16 b16
  let b64 := gmul b32 b32
  let b128 := gmul b64 b64
  gmul b2 (gmul b4 (gmul b8 (gmul b16 (gmul b32 (gmul b64 b128)))))

/-- rotate an 8-bit value left by `k ≤ 8` -/
def rotl8 (x k : Nat) : Nat := ((x <<< k) ||| (x >>> (8 - k))) % 256

/-- the affine transformation of FIPS-197 §5.1.1 -/
def sboxAffine (x : Nat) : Nat :=
  x ^^^ rotl8 x 1 ^^^ rotl8 x 2 ^^^ rotl8 x 3 ^^^ rotl8 x 4 ^^^ 0x63

theorem sbox_is_algebraic_fin : ∀ b : Fin 256, subByte b.val = sboxAffine (gfInv b.val) := by
  decide +kernel

/-- the S-box table is the affine map applied to the GF(2^8) inverse -/
theorem sbox_is_algebraic : ∀ b, b < 256 → AES.subByte b = sboxAffine (gfInv b) :=
  fun b h => sbox_is_algebraic_fin ⟨b, h⟩

theorem gfInv_is_inverse_fin : ∀ b : Fin 256, 0 < b.val → gmul b.val (gfInv b.val) = 1 := by
  decide +kernel

/-- `gfInv b` is the multiplicative inverse of `b ≠ 0` in GF(2^8) -/
theorem gfInv_is_inverse : ∀ b, 0 < b → b < 256 → AES.gmul b (gfInv b) = 1 :=
  fun b h0 h => gfInv_is_inverse_fin ⟨b, h⟩ h0

theorem gfInv_zero : gfInv 0 = 0 := by decide +kernel

theorem gfInv_lt (b : Nat) : gfInv b < 256 := gmul_lt _ _

/-- the inverse S-box table inverts the S-box table (restated from `C08AesInv`) -/
theorem invSbox_inverts_sbox : ∀ b, b < 256 → AES.invSubByte (AES.subByte b) = b :=
  invSubByte_subByte

theorem subByte_invSubByte_fin : ∀ b : Fin 256, subByte (invSubByte b.val) = b.val := by
  decide +kernel

/-- … and the other way round: both tables are permutations of the bytes -/
theorem sbox_inverts_invSbox : ∀ b, b < 256 → AES.subByte (AES.invSubByte b) = b :=
  fun b h => subByte_invSubByte_fin ⟨b, h⟩

/-! ### MixColumns matrices -/

/-- first row of the MixColumns matrix -/
def mcM : List Nat := [2, 3, 1, 1]
/-- first row of the InvMixColumns matrix -/
def mcM' : List Nat := [14, 11, 13, 9]

theorem mixColumns_uses_mcM (s : List Nat) : mixColumns s = mixWith mcM s := rfl
theorem invMixColumns_uses_mcM' (s : List Nat) : invMixColumns s = mixWith mcM' s := rfl

/-- the index convention of `mixColumn`: output `k` is `Σ_j m[(j - k) mod 4] · a_j` -/
theorem mixColumn_entry (m : List Nat) (a0 a1 a2 a3 : Nat) (k : Nat) (hk : k < 4) :
    (mixColumn m a0 a1 a2 a3).getD k 0 =
      (List.range 4).foldl
        (fun z j => z ^^^ gmul (m.getD ((j + 4 - k) % 4) 0) ([a0, a1, a2, a3].getD j 0)) 0 := by
  have h : k = 0 ∨ k = 1 ∨ k = 2 ∨ k = 3 := by omega
  rcases h with rfl | rfl | rfl | rfl <;>
    simp [mixColumn, List.range_succ, List.foldl_cons]

theorem mix_invmix_matrix_identity_fin : ∀ k i : Fin 4,
    (List.range 4).foldl
      (fun z j => z ^^^ gmul (mcM'.getD ((j + 4 - k.val) % 4) 0) (mcM.getD ((i.val + 4 - j) % 4) 0)) 0 =
      if k.val = i.val then 1 else 0 := by
  decide +kernel

/-- (InvMixColumns matrix) × (MixColumns matrix) = identity over GF(2^8): entry `(k, i)` of
the product is `Σ_j M'[k][j] · M[j][i]` with `M'[k][j] = mcM'[(j-k) mod 4]`,
`M[j][i] = mcM[(i-j) mod 4]`. -/
theorem mix_invmix_matrix_identity : ∀ k i, k < 4 → i < 4 →
    (List.range 4).foldl
      (fun z j => z ^^^ gmul (mcM'.getD ((j + 4 - k) % 4) 0) (mcM.getD ((i + 4 - j) % 4) 0)) 0 =
      if k = i then 1 else 0 :=
  fun k i hk hi => mix_invmix_matrix_identity_fin ⟨k, hk⟩ ⟨i, hi⟩

theorem invmix_mix_matrix_identity_fin : ∀ k i : Fin 4,
    (List.range 4).foldl
      (fun z j => z ^^^ gmul (mcM.getD ((j + 4 - k.val) % 4) 0) (mcM'.getD ((i.val + 4 - j) % 4) 0)) 0 =
      if k.val = i.val then 1 else 0 := by
  decide +kernel

/-- the product in the other order is the identity too -/
theorem invmix_mix_matrix_identity : ∀ k i, k < 4 → i < 4 →
    (List.range 4).foldl
      (fun z j => z ^^^ gmul (mcM.getD ((j + 4 - k) % 4) 0) (mcM'.getD ((i + 4 - j) % 4) 0)) 0 =
      if k = i then 1 else 0 :=
  fun k i hk hi => invmix_mix_matrix_identity_fin ⟨k, hk⟩ ⟨i, hi⟩

end Golib.C08
