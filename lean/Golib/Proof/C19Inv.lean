/-
C19 — the inductive invariant of the Limiter machine and its preservation by every step.
-/
import Golib.Model.C19Lim

namespace Golib.C19

/-- What the handler must have received on behalf of a task so far. -/
def Task.expectedHandled (t : Task) : List HVal :=
  match t.outcome.recovered with
  | none => []
  | some v => if 6 ≤ t.pc.rank then [.val v] else []

structure TaskOK (t : Task) : Prop where
  starts : t.starts = if 4 ≤ t.pc.rank then 1 else 0
  handled : t.handled = t.expectedHandled
  noCleanupPanic : t.pc ≠ .cleanupPanicked

structure Inv (n₀ : Nat) (s : St) : Prop where
  hn : s.n = n₀
  hk : s.k = s.tasks.countP (fun t => t.pc.holdsToken)
  hwg : s.wg = s.tasks.countP (fun t => t.pc.inWg)
  hkn : s.k ≤ s.n
  htasks : ∀ t ∈ s.tasks, TaskOK t
  hwait : ∀ w ∈ s.waiters, ∀ i ∈ w.before, ∃ t, s.tasks[i]? = some t ∧ 3 ≤ t.pc.rank ∧
            (w.returned = true → 7 ≤ t.pc.rank)

theorem countP_set_some {p : Task → Bool} {l : List Task} {i : Nat} {t t' : Task}
    (h : l[i]? = some t) :
    (l.set i t').countP p + (if p t = true then 1 else 0)
      = l.countP p + (if p t' = true then 1 else 0) ∧ (p t = true → 0 < l.countP p) := by
  obtain ⟨hi, rfl⟩ := List.getElem?_eq_some_iff.1 h
  have hpos : p l[i] = true → 0 < l.countP p := fun hp =>
    List.countP_pos_iff.2 ⟨l[i], List.getElem_mem hi, hp⟩
  refine ⟨?_, hpos⟩
  rw [List.countP_set hi]
  by_cases hp : p l[i] = true
  · have := hpos hp
    simp only [hp, if_true]
    omega
  · simp only [hp]
    simp

theorem Inv.init (limit : Int) : Inv (limitOf limit) (newLimiter limit) :=
  { hn := rfl, hk := rfl, hwg := rfl, hkn := Nat.zero_le _
    htasks := fun _ h => by simp [newLimiter] at h
    hwait := fun _ h => by simp [newLimiter] at h }

/-- Replacing task `i` by a later stage of itself, with matching counter updates. -/
theorem Inv.set_task {n₀ : Nat} {s : St} (hi : Inv n₀ s) {i : Nat} {t : Task}
    (ht : s.tasks[i]? = some t) (t' : Task) (k' wg' : Nat)
    (hk : k' + (if t.pc.holdsToken = true then 1 else 0) = s.k + (if t'.pc.holdsToken = true then 1 else 0))
    (hwg : wg' + (if t.pc.inWg = true then 1 else 0) = s.wg + (if t'.pc.inWg = true then 1 else 0))
    (hkn : k' ≤ s.n) (hok : TaskOK t') (hrank : t.pc.rank ≤ t'.pc.rank) :
    Inv n₀ { s with k := k', wg := wg', tasks := s.tasks.set i t' } := by
  have c1 := (countP_set_some (p := fun t => t.pc.holdsToken) (t' := t') ht).1
  have c2 := (countP_set_some (p := fun t => t.pc.inWg) (t' := t') ht).1
  have hk0 := hi.hk
  have hwg0 := hi.hwg
  refine { hn := hi.hn, hk := ?_, hwg := ?_, hkn := hkn, htasks := ?_, hwait := ?_ }
  · show k' = _
    simp only [] at c1 ⊢
    omega
  · show wg' = _
    simp only [] at c2 ⊢
    omega
  · intro x hx
    rcases List.mem_or_eq_of_mem_set hx with h | h
    · exact hi.htasks x h
    · exact h ▸ hok
  · intro w hw j hj
    obtain ⟨t0, ht0, h3, h7⟩ := hi.hwait w hw j hj
    show ∃ t, (s.tasks.set i t')[j]? = some t ∧ _
    by_cases hij : i = j
    · subst hij
      have : t0 = t := by rw [ht] at ht0; exact (Option.some.inj ht0).symm
      subst this
      have hlen : i < s.tasks.length := (List.getElem?_eq_some_iff.1 ht).1
      refine ⟨t', by simp [hlen], by omega, fun hr => ?_⟩
      have := h7 hr
      omega
    · exact ⟨t0, by simp [hij, ht0], h3, h7⟩

theorem holds_pos {n₀ : Nat} {s : St} (hi : Inv n₀ s) {i : Nat} {t : Task}
    (ht : s.tasks[i]? = some t) (h : t.pc.holdsToken = true) : 0 < s.k := by
  rw [hi.hk]
  exact (countP_set_some (p := fun t => t.pc.holdsToken) (t' := t) ht).2 h

theorem inWg_pos {n₀ : Nat} {s : St} (hi : Inv n₀ s) {i : Nat} {t : Task}
    (ht : s.tasks[i]? = some t) (h : t.pc.inWg = true) : 0 < s.wg := by
  rw [hi.hwg]
  exact (countP_set_some (p := fun t => t.pc.inWg) (t' := t) ht).2 h

theorem Inv.adv {n₀ : Nat} {s s' : St} (hi : Inv n₀ s) {i : Nat} (h : s.adv i = some s') :
    Inv n₀ s' := by
  unfold St.adv at h
  split at h
  · cases h
  · rename_i t ht
    have hok := hi.htasks t (List.mem_of_getElem? ht)
    have hs := hok.starts
    have hh := hok.handled
    obtain ⟨pc, outcome, starts, handled⟩ := t
    simp only [] at h hs hh
    cases pc <;> simp only [] at h
    · -- new → sent
      split at h
      · rename_i hlt
        cases h
        refine hi.set_task ht _ _ _ (by simp [Pc.holdsToken]) (by simp [Pc.inWg]) (by omega) ?_ (by simp [Pc.rank])
        exact ⟨by simpa [Pc.rank] using hs, by simpa [Task.expectedHandled, Pc.rank] using hh, by simp⟩
      · cases h
    · -- sent → added
      cases h
      refine hi.set_task ht _ _ _ (by simp [Pc.holdsToken]) (by simp [Pc.inWg]) hi.hkn ?_ (by simp [Pc.rank])
      exact ⟨by simpa [Pc.rank] using hs, by simpa [Task.expectedHandled, Pc.rank] using hh, by simp⟩
    · -- added → ready
      cases h
      refine hi.set_task ht _ _ _ (by simp [Pc.holdsToken]) (by simp [Pc.inWg]) hi.hkn ?_ (by simp [Pc.rank])
      exact ⟨by simpa [Pc.rank] using hs, by simpa [Task.expectedHandled, Pc.rank] using hh, by simp⟩
    · -- ready → running
      cases h
      refine hi.set_task ht _ _ _ (by simp [Pc.holdsToken]) (by simp [Pc.inWg]) hi.hkn ?_ (by simp [Pc.rank])
      refine ⟨?_, by simpa [Task.expectedHandled, Pc.rank] using hh, by simp⟩
      simp [Pc.rank] at hs ⊢
      omega
    · -- running → recovering
      cases h
      refine hi.set_task ht _ _ _ (by simp [Pc.holdsToken]) (by simp [Pc.inWg]) hi.hkn ?_ (by simp [Pc.rank])
      exact ⟨by simpa [Pc.rank] using hs, by simpa [Task.expectedHandled, Pc.rank] using hh, by simp⟩
    · -- recovering → cleanup
      cases hrec : outcome.recovered <;> simp only [hrec] at h <;> cases h
      · refine hi.set_task ht _ _ _ (by simp [Pc.holdsToken]) (by simp [Pc.inWg]) hi.hkn ?_ (by simp [Pc.rank])
        exact ⟨by simpa [Pc.rank] using hs, by simpa [Task.expectedHandled, Pc.rank, hrec] using hh, by simp⟩
      · refine hi.set_task ht _ _ _ (by simp [Pc.holdsToken]) (by simp [Pc.inWg]) hi.hkn ?_ (by simp [Pc.rank])
        refine ⟨by simpa [Pc.rank] using hs, ?_, by simp⟩
        simp [Task.expectedHandled, Pc.rank, hrec] at hh ⊢
        simp [hh]
    · -- cleanup → wgDone (the zero-counter panic is unreachable)
      have hpos := inWg_pos hi ht (by simp [Pc.inWg])
      split at h
      · omega
      · cases h
        refine hi.set_task ht _ _ _ (by simp [Pc.holdsToken]) (by simp [Pc.inWg]; omega) hi.hkn ?_ (by simp [Pc.rank])
        exact ⟨by simpa [Pc.rank] using hs, by simpa [Task.expectedHandled, Pc.rank] using hh, by simp⟩
    · -- wgDone → exited
      split at h
      · cases h
        have hkn := hi.hkn
        refine hi.set_task ht _ _ _ (by simp [Pc.holdsToken]; omega) (by simp [Pc.inWg]) (by omega) ?_ (by simp [Pc.rank])
        exact ⟨by simpa [Pc.rank] using hs, by simpa [Task.expectedHandled, Pc.rank] using hh, by simp⟩
      · cases h
    · cases h
    · cases h

theorem mem_submittedIdx {s : St} {i : Nat} (h : i ∈ s.submittedIdx) :
    ∃ t, s.tasks[i]? = some t ∧ 3 ≤ t.pc.rank := by
  simp only [St.submittedIdx, List.mem_filter] at h
  obtain ⟨_, h2⟩ := h
  split at h2
  · rename_i t ht
    exact ⟨t, ht, by simpa using h2⟩
  · cases h2

theorem rank_ge_7_of_not_inWg {pc : Pc} (h3 : 3 ≤ pc.rank) (hw : pc.inWg = false) : 7 ≤ pc.rank := by
  cases pc <;> simp_all [Pc.rank, Pc.inWg]

theorem Inv.step {n₀ : Nat} {s s' : St} (hi : Inv n₀ s) {l : Label} (h : s.step l = some s') :
    Inv n₀ s' := by
  cases l with
  | adv i => exact hi.adv h
  | submit o =>
    simp only [St.step, Option.some.injEq] at h
    subst h
    refine { hn := hi.hn, hk := ?_, hwg := ?_, hkn := hi.hkn, htasks := ?_, hwait := ?_ }
    · simp [List.countP_append, Pc.holdsToken, hi.hk]
    · simp [List.countP_append, Pc.inWg, hi.hwg]
    · intro t ht
      rcases List.mem_append.1 ht with h | h
      · exact hi.htasks t h
      · simp only [List.mem_singleton] at h
        subst h
        exact ⟨by simp [Pc.rank], by cases o <;> simp [Task.expectedHandled, Outcome.recovered, Pc.rank], by simp⟩
    · intro w hw j hj
      obtain ⟨t0, ht0, h3, h7⟩ := hi.hwait w hw j hj
      have hlen : j < s.tasks.length := (List.getElem?_eq_some_iff.1 ht0).1
      exact ⟨t0, by rw [List.getElem?_append_left hlen]; exact ht0, h3, h7⟩
  | waitCall =>
    simp only [St.step, Option.some.injEq] at h
    subst h
    refine { hn := hi.hn, hk := hi.hk, hwg := hi.hwg, hkn := hi.hkn, htasks := hi.htasks, hwait := ?_ }
    intro w hw j hj
    rcases List.mem_append.1 hw with h | h
    · exact hi.hwait w h j hj
    · simp only [List.mem_singleton] at h
      subst h
      obtain ⟨t, ht, h3⟩ := mem_submittedIdx hj
      exact ⟨t, ht, h3, by simp⟩
  | waitTimed =>
    simp only [St.step, Option.some.injEq] at h
    subst h
    exact hi
  | setHandler hh =>
    simp only [St.step, Option.some.injEq] at h
    subst h
    exact { hn := hi.hn, hk := hi.hk, hwg := hi.hwg, hkn := hi.hkn, htasks := hi.htasks, hwait := hi.hwait }
  | waitRet j =>
    simp only [St.step] at h
    split at h
    · rename_i w hwj
      split at h
      · rename_i hc
        cases h
        refine { hn := hi.hn, hk := hi.hk, hwg := hi.hwg, hkn := hi.hkn, htasks := hi.htasks, hwait := ?_ }
        intro w' hw' i hi'
        rcases List.mem_or_eq_of_mem_set hw' with h | h
        · exact hi.hwait w' h i hi'
        · subst h
          obtain ⟨t, ht, h3, _⟩ := hi.hwait w (List.mem_of_getElem? hwj) i hi'
          refine ⟨t, ht, h3, fun _ => ?_⟩
          -- wg = 0: nobody is between Add and Done
          have hz : s.tasks.countP (fun t => t.pc.inWg) = 0 := by rw [← hi.hwg]; exact hc.1
          have : t.pc.inWg = false := by
            cases hb : t.pc.inWg
            · rfl
            · have := (countP_set_some (p := fun t => t.pc.inWg) (t' := t) ht).2 hb
              omega
          exact rank_ge_7_of_not_inWg h3 this
      · cases h
    · cases h

theorem Inv.run {n₀ : Nat} {s s' : St} (hi : Inv n₀ s) {ls : List Label} (h : s.run ls = some s') :
    Inv n₀ s' := by
  induction ls generalizing s with
  | nil => simp only [St.run, Option.some.injEq] at h; exact h ▸ hi
  | cons l ls ih =>
    simp only [St.run] at h
    split at h
    · rename_i s1 hs1
      exact ih (hi.step hs1) h
    · cases h

theorem Inv.of_reachable {limit : Int} {s : St} (h : Reachable limit s) : Inv (limitOf limit) s := by
  obtain ⟨ls, hls⟩ := h
  exact (Inv.init limit).run hls

end Golib.C19
