/-
C02 pointer model, part 2: the READ-ONLY methods.  Under the abstraction relation `AbsF f p s`
(`Golib/Proof/C02PtrAbs.lean`) every read-only method of the pointer-level model returns
exactly what the levels-as-lists model returns (node results: the image under the key-to-node
map `f`, i.e. equal when compared through their keys), and does not panic when the list-level
method does not.  All lemmas have the form "list-level result `some r` → pointer-level result
`some r`"; the list level never panics in a reachable state (`step_sim_weak`).

Side conditions on the list state (`RdOk`): the level lists have no duplicate key and only
level-0 nodes carry a value — both follow from `Good cfg s` for a weak-order comparator.
-/
import Golib.Proof.C02PtrAbs
import Golib.Proof.C02Walk

set_option linter.unusedSectionVars false
set_option linter.unusedSimpArgs false
set_option linter.unusedVariables false

namespace Golib.C02

variable {K V : Type} [DecidableEq K]

/-- What the read lemmas need from the list-level invariant. -/
structure RdOk (s : SL K V) : Prop where
  nodup : ∀ l ∈ s.lv, l.Nodup
  vals : ∀ k v, getVal s.vals k = some v → k ∈ chain0 s

theorem Good.rdOk {cfg : Cfg K V} (hc : WeakCmp cfg.cmp) {s : SL K V} (hg : Good cfg s) : RdOk s := by
  refine ⟨hg.lv_nodup hc, ?_⟩
  rcases hg with h | ⟨_, rfl⟩
  · intro k v hv
    exact (h.vals k).mp (getVal_isSome.mp (by rw [hv]; rfl))
  · intro k v hv; simp [SL.zero, getVal] at hv

/-! ### small facts about chains and cursors -/

theorem ChainK.start {p : PSL K V} {f : K → Nat} {i : Nat} {ks : List K} {st : Option Nat}
    (h : ChainK p f i st ks) : st = ks.head?.map f := by
  cases ks with
  | nil => rw [chainK_nil] at h; subst h; rfl
  | cons k ks => exact (chainK_cons.mp h).1

theorem chain0_of_cons {s : SL K V} {l0 : List K} {rest : List (List K)} (h : s.lv = l0 :: rest) :
    chain0 s = l0 := by unfold chain0; rw [h]; rfl

theorem afterNode_mem {c : K} : ∀ {l rest : List K}, afterNode c l = some rest →
    c ∈ l ∧ ∀ k ∈ rest, k ∈ l := by
  intro l
  induction l with
  | nil => intro rest h; simp [afterNode] at h
  | cons x xs ih =>
    intro rest h
    unfold afterNode at h
    by_cases hx : x = c
    · rw [if_pos hx] at h; cases h
      exact ⟨by simp [hx], fun k hk => by simp [hk]⟩
    · rw [if_neg hx] at h
      obtain ⟨h1, h2⟩ := ih h
      exact ⟨by simp [h1], fun k hk => by simp [h2 k hk]⟩

theorem after_mem {cur : Option K} {l rest : List K} (h : after cur l = some rest) :
    ∀ k ∈ rest, k ∈ l := by
  cases cur with
  | none => simp only [after] at h; cases h; exact fun k hk => hk
  | some c => exact (afterNode_mem h).2

/-- A level-0 node: it exists in the heap under `f k`, carries key `k`, has a slot 0, and its
value is the value the list model stores for `k`. -/
theorem AbsF.node0 {f : K → Nat} {p : PSL K V} {s : SL K V} (ha : AbsF f p s) {k : K} (hk : k ∈ chain0 s) :
    ∃ nd nx, p.nodes[f k]? = some nd ∧ nd.key = k ∧ nd.next[0]? = some nx ∧
      getVal s.vals k = some nd.val := by
  cases hlv : s.lv with
  | nil => simp [chain0, hlv] at hk
  | cons l0 rest =>
    rw [chain0_of_cons hlv] at hk
    obtain ⟨st, _, h2⟩ := ha.chains 0 l0 (by rw [hlv]; rfl)
    obtain ⟨nd, nx, h3, h4, h5⟩ := h2.node k hk
    exact ⟨nd, nx, h3, h4, h5, ha.vals k (by rw [chain0_of_cons hlv]; exact hk) nd h3⟩

/-- `node.Key()` of the node of a level-0 key. -/
theorem AbsF.keyOf {f : K → Nat} {p : PSL K V} {s : SL K V} (ha : AbsF f p s) {k : K} (hk : k ∈ chain0 s) :
    p.keyOf (f k) = some k := by
  obtain ⟨nd, _, h1, h2, _, _⟩ := ha.node0 hk
  simp [PSL.keyOf, h1, h2]

/-- The level-0 chain of the pointer state. -/
theorem AbsF.lvZero {f : K → Nat} {p : PSL K V} {s : SL K V} (ha : AbsF f p s) {l0 : List K}
    {rest : List (List K)} (hlv : s.lv = l0 :: rest) :
    ∃ st, p.nextOf none 0 = some st ∧ ChainK p f 0 st l0 :=
  ha.chains 0 l0 (by rw [hlv]; rfl)

/-! ### GetNode / Get / Head / node.Next -/

theorem AbsF.getNode_sim {f : K → Nat} {p : PSL K V} {s : SL K V} (ha : AbsF f p s) (ok : RdOk s)
    (cfg : Cfg K V) (key : K) {r : Option K} (h : s.getNode cfg key = some r) :
    p.getNode cfg key = some (r.map f) := by
  unfold SL.getNode at h
  cases hld : s.levelsDown with
  | none => rw [hld] at h; cases h
  | some ls =>
    rw [hld] at h; simp only [] at h
    obtain ⟨hle, rfl⟩ := levelsDown_some hld
    unfold PSL.getNode
    rw [ha.level]
    exact ha.findLoop_sim ok.nodup cfg.cmp key s.level hle none r h

theorem AbsF.get_sim {f : K → Nat} {p : PSL K V} {s : SL K V} (ha : AbsF f p s) (ok : RdOk s)
    (cfg : Cfg K V) (key : K) {r : V × Bool} (h : s.get cfg key = some r) :
    p.get cfg key = some r := by
  unfold SL.get at h
  cases hn : s.getNode cfg key with
  | none => rw [hn] at h; cases h
  | some n =>
    rw [hn] at h
    unfold PSL.get
    rw [ha.getNode_sim ok cfg key hn]
    cases n with
    | none => exact h
    | some n =>
      simp only [Option.map_some] at h ⊢
      cases hv : getVal s.vals n with
      | none => rw [hv] at h; cases h
      | some v =>
        rw [hv] at h
        obtain ⟨nd, _, h1, _, _, h4⟩ := ha.node0 (ok.vals n v hv)
        rw [hv] at h4; cases h4
        simp only [h1]; exact h

theorem AbsF.head_sim {f : K → Nat} {p : PSL K V} {s : SL K V} (ha : AbsF f p s)
    {r : Option K} (h : s.head = some r) : p.headNode = some (r.map f) := by
  unfold SL.head at h
  unfold PSL.headNode
  rw [ha.len]
  by_cases hz : (s.len == 0) = true
  · rw [if_pos hz] at h ⊢; cases h; rfl
  · rw [if_neg hz] at h ⊢
    cases hlv : s.lv with
    | nil => rw [hlv] at h; cases h
    | cons l0 rest =>
      rw [hlv] at h; simp only [Option.some.injEq] at h
      obtain ⟨st, h1, h2⟩ := ha.lvZero hlv
      rw [h1, h2.start, h]

theorem AbsF.nodeNext_sim {f : K → Nat} {p : PSL K V} {s : SL K V} (ha : AbsF f p s)
    {n : K} {r : Option K} (h : s.nodeNext n = some r) :
    p.nodeNext (f n) = some (r.map f) ∧ n ∈ chain0 s := by
  unfold SL.nodeNext at h
  cases hlv : s.lv with
  | nil => rw [hlv] at h; cases h
  | cons l0 rest =>
    rw [hlv] at h; simp only [] at h
    cases han : afterNode n l0 with
    | none => rw [han] at h; cases h
    | some rest' =>
      rw [han] at h; simp only [Option.map_some, Option.some.injEq] at h
      obtain ⟨st, h1, h2⟩ := ha.lvZero hlv
      obtain ⟨st', h3, h4⟩ := h2.afterNode han
      refine ⟨?_, by rw [chain0_of_cons hlv]; exact (afterNode_mem han).1⟩
      unfold PSL.nodeNext
      rw [h3, h4.start, h]

/-! ### traversal through node handles -/

theorem SL.walkNodes_none (s : SL K V) (fuel : Nat) : s.walkNodes fuel none = some [] := by
  cases fuel <;> rfl

theorem PSL.walkNodes_none (p : PSL K V) (fuel : Nat) : p.walkNodes fuel none = some [] := by
  cases fuel <;> rfl

/-- More fuel does not change a successful list-level walk. -/
theorem SL.walkNodes_mono (s : SL K V) : ∀ (fuel : Nat) (st : Option K) (xs : List (K × V)),
    s.walkNodes fuel st = some xs → ∀ fuel', fuel ≤ fuel' → s.walkNodes fuel' st = some xs := by
  intro fuel
  induction fuel with
  | zero =>
    intro st xs h fuel' _
    cases st with
    | none => rw [SL.walkNodes_none] at h ⊢; exact h
    | some n => simp [SL.walkNodes] at h
  | succ fuel ih =>
    intro st xs h fuel' hle
    cases st with
    | none => rw [SL.walkNodes_none] at h ⊢; exact h
    | some n =>
      obtain ⟨m, rfl⟩ : ∃ m, fuel' = m + 1 := ⟨fuel' - 1, by omega⟩
      unfold SL.walkNodes at h ⊢
      cases hv : getVal s.vals n with
      | none => rw [hv] at h; cases h
      | some v =>
        cases hx : s.nodeNext n with
        | none => rw [hv, hx] at h; cases h
        | some nx =>
          rw [hv, hx] at h; simp only [] at h ⊢
          cases hrec : s.walkNodes fuel nx with
          | none => rw [hrec] at h; cases h
          | some ys =>
            rw [hrec] at h
            rw [ih nx ys hrec m (by omega)]; exact h

/-- `for n := start; n != nil; n = n.Next()` with the same fuel on both sides. -/
theorem AbsF.walkNodes_sim {f : K → Nat} {p : PSL K V} {s : SL K V} (ha : AbsF f p s) (ok : RdOk s) :
    ∀ (fuel : Nat) (st : Option K) (xs : List (K × V)), s.walkNodes fuel st = some xs →
      p.walkNodes fuel (st.map f) = some xs := by
  intro fuel
  induction fuel with
  | zero =>
    intro st xs h
    cases st with
    | none => rw [SL.walkNodes_none] at h; rw [Option.map_none, PSL.walkNodes_none]; exact h
    | some n => simp [SL.walkNodes] at h
  | succ fuel ih =>
    intro st xs h
    cases st with
    | none => rw [SL.walkNodes_none] at h; rw [Option.map_none, PSL.walkNodes_none]; exact h
    | some n =>
      unfold SL.walkNodes at h
      cases hv : getVal s.vals n with
      | none => rw [hv] at h; cases h
      | some v =>
        cases hx : s.nodeNext n with
        | none => rw [hv, hx] at h; cases h
        | some nx =>
          rw [hv, hx] at h; simp only [] at h
          cases hrec : s.walkNodes fuel nx with
          | none => rw [hrec] at h; cases h
          | some ys =>
            rw [hrec] at h
            obtain ⟨nd, nx0, h1, h2, h3, h4⟩ := ha.node0 (ok.vals n v hv)
            rw [hv] at h4; cases h4
            have hnn := (ha.nodeNext_sim hx).1
            simp only [PSL.nodeNext, PSL.nextOf, h1, h3, Option.some.injEq] at hnn
            simp only [Option.map_some]
            unfold PSL.walkNodes
            simp only [h1, h3, hnn, ih nx ys hrec, h2]
            exact h

/-- The level-0 chain is not longer than the pointer fuel. -/
theorem AbsF.chain0_fuel {f : K → Nat} {p : PSL K V} {s : SL K V} (ha : AbsF f p s) (ok : RdOk s) :
    (chain0 s).length < p.fuel := by
  cases hlv : s.lv with
  | nil => simp [chain0, hlv, PSL.fuel]
  | cons l0 rest =>
    rw [chain0_of_cons hlv]
    obtain ⟨st, _, h2⟩ := ha.lvZero hlv
    exact h2.length_lt_fuel (ok.nodup l0 (by rw [hlv]; simp))

theorem AbsF.walk_sim {f : K → Nat} {p : PSL K V} {s : SL K V} (ha : AbsF f p s) (ok : RdOk s)
    {xs : List (K × V)} (h : s.walk = some xs) : p.walk = some xs := by
  unfold SL.walk at h
  cases hh : s.head with
  | none => rw [hh] at h; cases h
  | some hd =>
    rw [hh] at h; simp only [] at h
    unfold PSL.walk
    rw [ha.head_sim hh]; simp only []
    exact ha.walkNodes_sim ok _ _ _
      (SL.walkNodes_mono s _ _ _ h p.fuel (Nat.le_of_lt (ha.chain0_fuel ok)))

theorem AbsF.walkFrom_sim {f : K → Nat} {p : PSL K V} {s : SL K V} (ha : AbsF f p s) (ok : RdOk s)
    (cfg : Cfg K V) (key : K) {xs : List (K × V)} (h : s.walkFrom cfg key = some xs) :
    p.walkFrom cfg key = some xs := by
  unfold SL.walkFrom at h
  cases hh : s.getNode cfg key with
  | none => rw [hh] at h; cases h
  | some hd =>
    rw [hh] at h; simp only [] at h
    unfold PSL.walkFrom
    rw [ha.getNode_sim ok cfg key hh]; simp only []
    exact ha.walkNodes_sim ok _ _ _
      (SL.walkNodes_mono s _ _ _ h p.fuel (Nat.le_of_lt (ha.chain0_fuel ok)))

/-! ### Keys / Values -/

/-- Walking a level-0 chain collects its keys with the values of the list model. -/
theorem AbsF.walkNodes_chain {f : K → Nat} {p : PSL K V} {s : SL K V} (ha : AbsF f p s) :
    ∀ (ks : List K) (st : Option Nat) (fuel : Nat), ChainK p f 0 st ks → (∀ k ∈ ks, k ∈ chain0 s) →
      ks.length < fuel →
      ∃ xs, p.walkNodes fuel st = some xs ∧ xs.map Prod.fst = ks ∧
        valuesOf s.vals ks = some (xs.map Prod.snd) := by
  intro ks
  induction ks with
  | nil =>
    intro st fuel h _ _
    rw [chainK_nil] at h; subst h
    exact ⟨[], PSL.walkNodes_none p fuel, rfl, rfl⟩
  | cons k ks ih =>
    intro st fuel h hm hf
    obtain ⟨h0, nd, nx, h1, h2, h3, h4⟩ := chainK_cons.mp h
    subst h0
    obtain ⟨m, rfl⟩ : ∃ m, fuel = m + 1 := ⟨fuel - 1, by omega⟩
    obtain ⟨xs, e1, e2, e3⟩ := ih nx m h4 (fun x hx => hm x (by simp [hx]))
      (by simp only [List.length_cons] at hf; omega)
    have hv := ha.vals k (hm k (by simp)) nd h1
    refine ⟨(nd.key, nd.val) :: xs, ?_, by simp [e2, h2], ?_⟩
    · unfold PSL.walkNodes
      simp only [h1, h3, e1, Option.map_some]
    · unfold valuesOf
      simp only [hv, e3, List.map_cons]

theorem AbsF.keys_sim {f : K → Nat} {p : PSL K V} {s : SL K V} (ha : AbsF f p s) (ok : RdOk s)
    (cfg : Cfg K V) {r : List K} (h : s.keys cfg = some r) : p.keys cfg = some r := by
  unfold SL.keys at h
  unfold PSL.keys
  rw [ha.len]
  by_cases hz : (s.len == 0) = true
  · rw [if_pos hz] at h ⊢; exact h
  · rw [if_neg hz] at h ⊢
    cases hlv : s.lv with
    | nil => rw [hlv] at h; cases h
    | cons l0 rest =>
      rw [hlv] at h; simp only [] at h
      obtain ⟨st, h1, h2⟩ := ha.lvZero hlv
      obtain ⟨xs, e1, e2, _⟩ := ha.walkNodes_chain l0 st p.fuel h2
        (fun k hk => by rw [chain0_of_cons hlv]; exact hk)
        (h2.length_lt_fuel (ok.nodup l0 (by rw [hlv]; simp)))
      simp only [h1, e1, e2]; exact h

theorem AbsF.values_sim {f : K → Nat} {p : PSL K V} {s : SL K V} (ha : AbsF f p s) (ok : RdOk s)
    (cfg : Cfg K V) {r : List V} (h : s.values cfg = some r) : p.values cfg = some r := by
  unfold SL.values at h
  unfold PSL.values
  rw [ha.len]
  by_cases hz : (s.len == 0) = true
  · rw [if_pos hz] at h ⊢; exact h
  · rw [if_neg hz] at h ⊢
    cases hlv : s.lv with
    | nil => rw [hlv] at h; cases h
    | cons l0 rest =>
      rw [hlv] at h; simp only [] at h
      obtain ⟨st, h1, h2⟩ := ha.lvZero hlv
      obtain ⟨xs, e1, _, e3⟩ := ha.walkNodes_chain l0 st p.fuel h2
        (fun k hk => by rw [chain0_of_cons hlv]; exact hk)
        (h2.length_lt_fuel (ok.nodup l0 (by rw [hlv]; simp)))
      rw [e3] at h
      simp only [h1, e1]; exact h

/-! ### the range loops -/

/-- `for cur.next[0] != nil { next := cur.next[0]; if !f(next.key, next.val) {break}; cur = next }`
against `rangeChain` on the key list after `cur`. -/
theorem AbsF.rangeLoopCur_sim {f : K → Nat} {p : PSL K V} {s : SL K V} (ha : AbsF f p s)
    (cmp : K → K → Int) (end_ : Option K) :
    ∀ (rest : List K) (st : Option Nat) (cur : Ptr) (fuel : Nat) (sk sk' : Sink K V),
      ChainK p f 0 st rest → p.nextOf cur 0 = some st → (∀ k ∈ rest, k ∈ chain0 s) →
      rest.length < fuel → rangeChain cmp end_ s.vals rest sk = some sk' →
      p.rangeLoopCur cmp end_ fuel cur sk = some sk' := by
  intro rest
  induction rest with
  | nil =>
    intro st cur fuel sk sk' h hn _ hf hr
    rw [chainK_nil] at h; subst h
    obtain ⟨m, rfl⟩ : ∃ m, fuel = m + 1 := ⟨fuel - 1, by omega⟩
    simp only [rangeChain, Option.some.injEq] at hr
    unfold PSL.rangeLoopCur
    simp only [hn, hr]
  | cons n rest ih =>
    intro st cur fuel sk sk' h hn hm hf hr
    obtain ⟨h0, nd, nx, h1, h2, h3, h4⟩ := chainK_cons.mp h
    subst h0
    obtain ⟨m, rfl⟩ : ∃ m, fuel = m + 1 := ⟨fuel - 1, by omega⟩
    have hv := ha.vals n (hm n (by simp)) nd h1
    unfold rangeChain at hr
    rw [hv] at hr; simp only [] at hr
    unfold PSL.rangeLoopCur
    simp only [hn, h1, h2]
    cases hcb : callBounded cmp end_ sk n nd.val with
    | mk sk1 go =>
      rw [hcb] at hr
      cases go with
      | false => simp only [] at hr ⊢; exact hr
      | true =>
        simp only [] at hr ⊢
        exact ih nx (some (f n)) m sk1 sk' h4 (by simp [PSL.nextOf, h1, h3])
          (fun k hk => hm k (by simp [hk])) (by simp only [List.length_cons] at hf; omega) hr

/-- `for e := …; e != nil; e = e.next[0] { if !f(e.key, e.val) {break} }` against `rangeChain`
(without end bound) on the key list from `e` on. -/
theorem AbsF.rangeLoopE_sim {f : K → Nat} {p : PSL K V} {s : SL K V} (ha : AbsF f p s)
    (cmp : K → K → Int) :
    ∀ (rest : List K) (st : Option Nat) (fuel : Nat) (sk sk' : Sink K V),
      ChainK p f 0 st rest → (∀ k ∈ rest, k ∈ chain0 s) →
      rest.length < fuel → rangeChain cmp none s.vals rest sk = some sk' →
      p.rangeLoopE fuel st sk = some sk' := by
  intro rest
  induction rest with
  | nil =>
    intro st fuel sk sk' h _ hf hr
    rw [chainK_nil] at h; subst h
    simp only [rangeChain, Option.some.injEq] at hr
    cases fuel <;> simp [PSL.rangeLoopE, hr]
  | cons n rest ih =>
    intro st fuel sk sk' h hm hf hr
    obtain ⟨h0, nd, nx, h1, h2, h3, h4⟩ := chainK_cons.mp h
    subst h0
    obtain ⟨m, rfl⟩ : ∃ m, fuel = m + 1 := ⟨fuel - 1, by omega⟩
    have hv := ha.vals n (hm n (by simp)) nd h1
    unfold rangeChain at hr
    rw [hv] at hr; simp only [callBounded] at hr
    unfold PSL.rangeLoopE
    simp only [h1, h2]
    cases hcb : sk.call n nd.val with
    | mk sk1 go =>
      rw [hcb] at hr
      cases go with
      | false => simp only [] at hr ⊢; exact hr
      | true =>
        simp only [h3] at hr ⊢
        exact ih nx m sk1 sk' h4 (fun k hk => hm k (by simp [hk]))
          (by simp only [List.length_cons] at hf; omega) hr

/-- `Range` / `All`: both loop forms of the Go code give what the list-level `range` gives. -/
theorem AbsF.range_sim {f : K → Nat} {p : PSL K V} {s : SL K V} (ha : AbsF f p s) (ok : RdOk s)
    (cfg : Cfg K V) (stop : Nat) {r : List (K × V)} (h : s.range cfg stop = some r) :
    p.rangeCur cfg stop = some r ∧ p.rangeE cfg stop = some r := by
  unfold SL.range at h
  unfold PSL.rangeCur PSL.rangeE
  rw [ha.len]
  by_cases hz : (s.len == 0) = true
  · rw [if_pos hz] at h ⊢; rw [if_pos hz]; exact ⟨h, h⟩
  · rw [if_neg hz] at h ⊢; rw [if_neg hz]
    cases hlv : s.lv with
    | nil => rw [hlv] at h; cases h
    | cons l0 rest =>
      rw [hlv] at h; simp only [] at h
      cases hrc : rangeChain cfg.cmp none s.vals l0 (Sink.new stop) with
      | none => rw [hrc] at h; cases h
      | some sk' =>
        rw [hrc] at h
        obtain ⟨st, h1, h2⟩ := ha.lvZero hlv
        have hm : ∀ k ∈ l0, k ∈ chain0 s := fun k hk => by rw [chain0_of_cons hlv]; exact hk
        have hfu := h2.length_lt_fuel (ok.nodup l0 (by rw [hlv]; simp))
        rw [ha.rangeLoopCur_sim cfg.cmp none l0 st none p.fuel _ _ h2 h1 hm hfu hrc]
        simp only [h1]
        rw [ha.rangeLoopE_sim cfg.cmp l0 st p.fuel _ _ h2 hm hfu hrc]
        exact ⟨h, h⟩

/-- `RangeWithStart` (`end_ = none`) / `RangeWithRange`. -/
theorem AbsF.rangeFrom_sim {f : K → Nat} {p : PSL K V} {s : SL K V} (ha : AbsF f p s) (ok : RdOk s)
    (cfg : Cfg K V) (start : K) (end_ : Option K) (stop : Nat) {r : List (K × V)}
    (h : s.rangeFrom cfg start end_ stop = some r) : p.rangeFrom cfg start end_ stop = some r := by
  unfold SL.rangeFrom at h
  unfold PSL.rangeFrom
  rw [ha.len]
  by_cases hz : (cfg.fixed && cfg.lazy && (s.len == 0)) = true
  · rw [if_pos hz] at h ⊢; exact h
  · rw [if_neg hz] at h ⊢
    cases hld : s.levelsDown with
    | none => rw [hld] at h; cases h
    | some ls =>
      rw [hld] at h; simp only [] at h
      obtain ⟨hle, rfl⟩ := levelsDown_some hld
      cases hsl : startLoop cfg.cmp start (s.lv.take s.level).reverse none with
      | none => rw [hsl] at h; cases h
      | some r0 =>
        rw [hsl] at h; simp only [] at h
        have hps := ha.startLoop_sim ok.nodup cfg.cmp start s.level hle none r0 hsl
        rw [← ha.level] at hps
        simp only [Option.map_none] at hps
        rw [hps]
        cases hlv : s.lv with
        | nil => rw [hlv] at h; cases h
        | cons l0 rest =>
          rw [hlv] at h; simp only [] at h
          obtain ⟨st, h1, h2⟩ := ha.lvZero hlv
          have hnd0 : l0.Nodup := ok.nodup l0 (by rw [hlv]; simp)
          have hc0 := chain0_of_cons hlv
          cases r0 with
          | inl n =>
            simp only [] at h ⊢
            cases hv : getVal s.vals n with
            | none => rw [hv] at h; cases h
            | some v =>
              rw [hv] at h; simp only [] at h
              obtain ⟨nd, nx0, g1, g2, g3, g4⟩ := ha.node0 (ok.vals n v hv)
              rw [hv] at g4; cases g4
              simp only [g1, g2]
              cases hcb : callBounded cfg.cmp end_ (Sink.new stop) n nd.val with
              | mk sk go =>
                rw [hcb] at h
                cases go with
                | false => simp only [] at h ⊢; exact h
                | true =>
                  simp only [] at h ⊢
                  cases han : afterNode n l0 with
                  | none => rw [han] at h; cases h
                  | some rest' =>
                    rw [han] at h; simp only [] at h
                    cases hrc : rangeChain cfg.cmp end_ s.vals rest' sk with
                    | none => rw [hrc] at h; cases h
                    | some sk' =>
                      rw [hrc] at h
                      obtain ⟨st', h3, h4⟩ := h2.afterNode han
                      have hnd' : rest'.Nodup := after_nodup (cur := some n) hnd0 han
                      rw [ha.rangeLoopCur_sim cfg.cmp end_ rest' st' (some (f n)) p.fuel _ _ h4 h3
                        (fun k hk => by rw [hc0]; exact (afterNode_mem han).2 k hk)
                        (h4.length_lt_fuel hnd') hrc]
                      exact h
          | inr cur =>
            simp only [] at h ⊢
            cases haf : after cur l0 with
            | none => rw [haf] at h; cases h
            | some rest' =>
              rw [haf] at h; simp only [] at h
              cases hrc : rangeChain cfg.cmp end_ s.vals rest' (Sink.new stop) with
              | none => rw [hrc] at h; cases h
              | some sk' =>
                rw [hrc] at h
                obtain ⟨st', h3, h4⟩ := h2.after h1 haf
                have hnd' : rest'.Nodup := after_nodup hnd0 haf
                rw [ha.rangeLoopCur_sim cfg.cmp end_ rest' st' (cur.map f) p.fuel _ _ h4 h3
                  (fun k hk => by rw [hc0]; exact after_mem haf k hk)
                  (h4.length_lt_fuel hnd') hrc]
                exact h

/-! ### all read-only methods at once -/

/-- The node `GetNode` answers is linked at level 0 (so `AbsF.keyOf` / `AbsF.node0` apply to it). -/
theorem getNode_mem_chain0 (cfg : Cfg K V) (hc : WeakCmp cfg.cmp) (hf : cfg.fixed = true) {s : SL K V}
    (hg : Good cfg s) {key n : K} (h : s.getNode cfg key = some (some n)) : n ∈ chain0 s := by
  obtain ⟨s', out, h1, _, h3, _⟩ := step_sim_weak cfg hc hf hg (.getNode key)
  simp only [SL.step, OMap.stepW, h, Option.map_some, Option.some.injEq, Prod.mk.injEq] at h1 h3
  obtain ⟨rfl, rfl⟩ := h1
  simp only [Out.node.injEq, true_and] at h3
  exact (keyW_some h3).1

/-- For a reachable list state `s` (weak-order comparator) represented by the pointer state `p`:
there is a key-to-node map `f` (node `f k` carries key `k` for every linked key) such that every
read-only pointer method returns what the list-level method returns — node results are the
images under `f` of the list-level nodes (= equal when compared through `Key()`), all other
results are equal — and does not panic when the list-level method does not. -/
theorem abs_reads (cfg : Cfg K V) (hc : WeakCmp cfg.cmp) {p : PSL K V} {s : SL K V} (hab : Abs p s)
    (hg : Good cfg s) :
    ∃ f : K → Nat, AbsF f p s ∧ (∀ k ∈ chain0 s, p.keyOf (f k) = some k) ∧
      (∀ key r, s.getNode cfg key = some r → p.getNode cfg key = some (r.map f)) ∧
      (∀ key r, s.get cfg key = some r → p.get cfg key = some r) ∧
      (∀ r, s.head = some r → p.headNode = some (r.map f)) ∧
      (∀ n r, s.nodeNext n = some r → p.nodeNext (f n) = some (r.map f)) ∧
      (∀ r, s.keys cfg = some r → p.keys cfg = some r) ∧
      (∀ r, s.values cfg = some r → p.values cfg = some r) ∧
      (∀ stop r, s.range cfg stop = some r → p.rangeCur cfg stop = some r ∧ p.rangeE cfg stop = some r) ∧
      (∀ start end_ stop r, s.rangeFrom cfg start end_ stop = some r →
        p.rangeFrom cfg start end_ stop = some r) ∧
      (∀ fuel st xs, s.walkNodes fuel st = some xs → p.walkNodes fuel (st.map f) = some xs) ∧
      (∀ xs, s.walk = some xs → p.walk = some xs) ∧
      (∀ key xs, s.walkFrom cfg key = some xs → p.walkFrom cfg key = some xs) := by
  obtain ⟨f, ha⟩ := hab
  have ok := hg.rdOk hc
  exact ⟨f, ha, fun k hk => ha.keyOf hk,
    fun key r h => ha.getNode_sim ok cfg key h,
    fun key r h => ha.get_sim ok cfg key h,
    fun r h => ha.head_sim h,
    fun n r h => (ha.nodeNext_sim h).1,
    fun r h => ha.keys_sim ok cfg h,
    fun r h => ha.values_sim ok cfg h,
    fun stop r h => ha.range_sim ok cfg stop h,
    fun start end_ stop r h => ha.rangeFrom_sim ok cfg start end_ stop h,
    fun fuel st xs h => ha.walkNodes_sim ok fuel st xs h,
    fun xs h => ha.walk_sim ok h,
    fun key xs h => ha.walkFrom_sim ok cfg key h⟩

end Golib.C02
