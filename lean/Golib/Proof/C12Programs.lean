/-
C12 — atomicity for PROGRAMS: every goroutine executes a list of calls (bodies), one
after the other.  The actions of a body are functions of the goroutine-local state, so
the arguments of a later call may depend on the results of earlier ones.  Every
concurrent execution equals the sequential execution of all calls in
critical-section-entry order, where the k-th entry of goroutine `t` is its k-th call
(program order).  Generalises `Proof/C12Atomic.lean` (one call per goroutine).
-/
import Golib.Proof.C12Atomic

namespace Golib.C12

variable {σ μ : Type}

/-- exactly one critical section in a body -/
def oneAcq (es : List Ev) : Prop := (es.filter Ev.isAcquire).length = 1

/-- The obligation on a call body of a program: well locked, exactly one critical section. -/
def CallOK (b : List (Act σ μ)) : Prop := wellLocked (evs b) = true ∧ oneAcq (evs b)

theorem oneAcq_ne_nil {es : List Ev} (h : oneAcq es) : es ≠ [] := by
  intro e; subst e; simp [oneAcq] at h

theorem oneAcq_cons_acq {e : Ev} {es : List Ev} (h : oneAcq (e :: es)) (he : e.isAcquire = true) :
    noAcq es := by
  intro x hx
  cases hxa : x.isAcquire
  · rfl
  · exfalso
    simp only [oneAcq, List.filter_cons, he, if_true, List.length_cons] at h
    have : 0 < (es.filter Ev.isAcquire).length :=
      List.length_pos_of_mem (List.mem_filter.2 ⟨hx, hxa⟩)
    omega

theorem oneAcq_cons_nacq {e : Ev} {es : List Ev} (h : oneAcq (e :: es)) (he : e.isAcquire = false) :
    oneAcq es := by
  simpa [oneAcq, List.filter_cons, he] using h

theorem noAcq_not_oneAcq {es : List Ev} (h : noAcq es) : ¬ oneAcq es := by
  intro h1
  have : es.filter Ev.isAcquire = [] := by
    rw [List.filter_eq_nil_iff]
    intro x hx; simp [h x hx]
  simp [oneAcq, this] at h1

/-- State of the sequential history: shared state, local state of every goroutine, and
how many of its calls each goroutine has performed. -/
structure SeqSt (σ μ : Type) where
  sh : σ
  loc : Nat → μ
  idx : Nat → Nat

/-- Goroutine `t` performs its next call, uninterrupted. -/
def seqStepP (calls : Nat → List (List (Act σ μ))) (q : SeqSt σ μ) (t : Nat) : SeqSt σ μ :=
  { sh := (runActs ((calls t).getD (q.idx t) []) q.sh (q.loc t)).1
    loc := upd q.loc t (runActs ((calls t).getD (q.idx t) []) q.sh (q.loc t)).2
    idx := upd q.idx t (q.idx t + 1) }

/-- The sequential history of an entry order: each occurrence of `t` is `t`'s next call. -/
def seqExecP (calls : Nat → List (List (Act σ μ))) (init : Nat → μ) (s₀ : σ) (order : List Nat) :
    SeqSt σ μ :=
  order.foldl (seqStepP calls) ⟨s₀, init, fun _ => 0⟩

theorem seqExecP_append (calls : Nat → List (List (Act σ μ))) (init : Nat → μ) (s₀ : σ)
    (o : List Nat) (t : Nat) :
    seqExecP calls init s₀ (o ++ [t]) = seqStepP calls (seqExecP calls init s₀ o) t := by
  simp [seqExecP, List.foldl_append]

theorem foldl_seqStepP_idx (calls : Nat → List (List (Act σ μ))) (o : List Nat) (q : SeqSt σ μ) (t : Nat) :
    (o.foldl (seqStepP calls) q).idx t = q.idx t + o.count t := by
  induction o generalizing q with
  | nil => simp
  | cons u o ih =>
    rw [List.foldl_cons, ih, List.count_cons]
    simp only [seqStepP, upd]
    by_cases h : t = u
    · subst h; simp; omega
    · have : ¬ u = t := fun e => h e.symm
      simp [h, this]

/-- Program order: the number of calls of `t` performed = the number of its entries. -/
theorem seqExecP_idx (calls : Nat → List (List (Act σ μ))) (init : Nat → μ) (s₀ : σ)
    (o : List Nat) (t : Nat) : (seqExecP calls init s₀ o).idx t = o.count t := by
  simp [seqExecP, foldl_seqStepP_idx]

section
variable (calls : Nat → List (List (Act σ μ))) (init : Nat → μ) (s₀ : σ)

/-- What relates goroutine `t` to the sequential history `Q`: `cur` = what is left of its
current call; either it has not yet entered the section of its call number `Q.idx t`
(`pre`), or it is inside / behind the section of call number `Q.idx t - 1` (`post`). -/
def ThreadOK (c : Conf σ μ) (Q : SeqSt σ μ) (t : Nat) : Prop :=
  ∃ cur : List (Act σ μ),
    wellLockedFrom (c.th t).mode (evs cur) = true ∧
    (((c.th t).rest = cur ++ ((calls t).drop (Q.idx t + 1)).flatten ∧
        (c.th t).mode = .free ∧ oneAcq (evs cur) ∧ Q.idx t < (calls t).length ∧
        ∀ s, runActs cur s (c.th t).loc = runActs ((calls t).getD (Q.idx t) []) s (Q.loc t))
     ∨
     ((c.th t).rest = cur ++ ((calls t).drop (Q.idx t)).flatten ∧
        noAcq (evs cur) ∧ Q.idx t ≤ (calls t).length ∧
        Q.loc t = (runActs cur c.sh (c.th t).loc).2 ∧
        ((c.th t).mode = .w → (runActs cur c.sh (c.th t).loc).1 = Q.sh)))

structure PInv (c : Conf σ μ) : Prop where
  lock : LockInv c
  thr : ∀ t, ThreadOK calls c (seqExecP calls init s₀ c.order) t
  shFree : (∀ t, (c.th t).mode ≠ .w) → c.sh = (seqExecP calls init s₀ c.order).sh

theorem evs_append (xs ys : List (Act σ μ)) : evs (xs ++ ys) = evs xs ++ evs ys := by
  simp [evs]

theorem wellLocked_prog (h : ∀ t, ∀ b ∈ calls t, CallOK b) (t : Nat) :
    wellLocked (evs (calls t).flatten) = true := by
  have : evs (calls t).flatten = ((calls t).map evs).flatten := by
    show List.map _ _ = _
    rw [List.map_flatten]; rfl
  rw [this]
  exact wellLocked_flatten _ (by
    intro b hb
    obtain ⟨b', hb', rfl⟩ := List.mem_map.1 hb
    exact (h t b' hb').1)

theorem PInv.initial (h : ∀ t, ∀ b ∈ calls t, CallOK b) :
    PInv calls init s₀ (Conf.init s₀ (fun t => (calls t).flatten) init) :=
  { lock := LockInv.init s₀ _ init (wellLocked_prog calls h)
    thr := fun t => by
      refine ⟨[], rfl, Or.inr ⟨?_, ?_, ?_, rfl, ?_⟩⟩
      · simp [Conf.init, seqExecP]
      · intro x hx; cases hx
      · simp [Conf.init, seqExecP]
      · intro hm; simp [Conf.init] at hm
    shFree := fun _ => rfl }

/-- Normal form: when goroutine `t` is about to perform action `a`, `a` is the head of what
is left of its current call. -/
theorem ThreadOK.normal (h : ∀ t, ∀ b ∈ calls t, CallOK b) {c : Conf σ μ} {Q : SeqSt σ μ} {t : Nat}
    (ht : ThreadOK calls c Q t) {a : Act σ μ} {as : List (Act σ μ)} (hrest : (c.th t).rest = a :: as) :
    ∃ cur' : List (Act σ μ),
      wellLockedFrom (c.th t).mode (evs (a :: cur')) = true ∧
      ((as = cur' ++ ((calls t).drop (Q.idx t + 1)).flatten ∧
          (c.th t).mode = .free ∧ oneAcq (evs (a :: cur')) ∧ Q.idx t < (calls t).length ∧
          ∀ s, runActs (a :: cur') s (c.th t).loc = runActs ((calls t).getD (Q.idx t) []) s (Q.loc t))
       ∨
       (as = cur' ++ ((calls t).drop (Q.idx t)).flatten ∧
          noAcq (evs (a :: cur')) ∧ Q.idx t ≤ (calls t).length ∧
          Q.loc t = (runActs (a :: cur') c.sh (c.th t).loc).2 ∧
          ((c.th t).mode = .w → (runActs (a :: cur') c.sh (c.th t).loc).1 = Q.sh))) := by
  obtain ⟨cur, hwl, hcase⟩ := ht
  rcases hcase with ⟨hr, hm, h1, hlt, hrun⟩ | ⟨hr, hna, hle, hloc, hw⟩
  · -- pre: `cur` is not empty
    cases cur with
    | nil => exact absurd rfl (oneAcq_ne_nil (by simpa [evs] using h1))
    | cons a' cur' =>
      rw [hrest, List.cons_append] at hr
      obtain ⟨rfl, rfl⟩ := List.cons.inj hr
      exact ⟨cur', hwl, Or.inl ⟨rfl, hm, h1, hlt, hrun⟩⟩
  · cases cur with
    | cons a' cur' =>
      rw [hrest, List.cons_append] at hr
      obtain ⟨rfl, rfl⟩ := List.cons.inj hr
      exact ⟨cur', hwl, Or.inr ⟨rfl, hna, hle, hloc, hw⟩⟩
    | nil =>
      -- behind its previous call: the next call starts here
      have hmode : (c.th t).mode = .free := by
        simpa [evs, wellLockedFrom] using hwl
      simp only [List.nil_append] at hr
      have hlt : Q.idx t < (calls t).length := by
        apply Classical.byContradiction
        intro hge
        rw [List.drop_eq_nil_of_le (by omega)] at hr
        rw [hrest] at hr; cases hr
      have hdrop : (calls t).drop (Q.idx t) =
          (calls t)[Q.idx t] :: (calls t).drop (Q.idx t + 1) := by
        rw [List.drop_eq_getElem_cons hlt]
      have hget : (calls t).getD (Q.idx t) [] = (calls t)[Q.idx t] := by
        simp [List.getD, List.getElem?_eq_getElem hlt]
      have hok : CallOK ((calls t)[Q.idx t]) := h t _ (List.getElem_mem hlt)
      rw [hdrop, List.flatten_cons, hrest] at hr
      cases hb : (calls t)[Q.idx t] with
      | nil => rw [hb] at hok; exact absurd rfl (oneAcq_ne_nil (by simpa [evs] using hok.2))
      | cons a' cur' =>
        rw [hb, List.cons_append] at hr
        obtain ⟨rfl, rfl⟩ := List.cons.inj hr
        rw [hb] at hok hget
        refine ⟨cur', ?_, Or.inl ⟨rfl, hmode, hok.2, hlt, fun s => ?_⟩⟩
        · rw [hmode]; exact hok.1
        · rw [hget]
          have : Q.loc t = (c.th t).loc := by simpa [runActs] using hloc
          rw [this]

theorem seqStepP_other {Q : SeqSt σ μ} {t u : Nat} (h : u ≠ t) :
    (seqStepP calls Q t).loc u = Q.loc u ∧ (seqStepP calls Q t).idx u = Q.idx u := by
  simp [seqStepP, upd, h]

theorem PInv.step (h : ∀ t, ∀ b ∈ calls t, CallOK b) {c c' : Conf σ μ}
    (hi : PInv calls init s₀ c) (hs : Step c c') : PInv calls init s₀ c' := by
  have hlock' : LockInv c' := hi.lock.step hs
  cases hs with | mk t a as hrest hen =>
  obtain ⟨cur', hwl, hcase⟩ := (hi.thr t).normal calls h hrest
  simp only [evs, List.map_cons] at hwl
  obtain ⟨m', hck, hwl'⟩ := wellLockedFrom_cons hwl
  have hnext := check_next hck
  have hself := after_th_self c t a as
  have hother : ∀ u, u ≠ t → (c.after t a as).th u = c.th u := fun u hu => after_th_other c a as hu
  have hsh : (c.after t a as).sh = (a.apply c.sh (c.th t).loc).1 := rfl
  -- abbreviations
  generalize hQ : seqExecP calls init s₀ c.order = Q at hi hcase
  have hthr : ∀ u, ThreadOK calls c Q u := fun u => by have := hi.thr u; rwa [hQ] at this
  have hshF : (∀ u, (c.th u).mode ≠ .w) → c.sh = Q.sh := fun hall => by
    have := hi.shFree hall; rwa [hQ] at this
  -- other goroutines: their relation survives when the shared state they may look at and
  -- their entries of the history are unchanged
  have keep : ∀ (Q' : SeqSt σ μ) (u : Nat), u ≠ t → Q'.loc u = Q.loc u → Q'.idx u = Q.idx u →
      ((c.th u).mode = .w → Q'.sh = Q.sh ∧ (c.after t a as).sh = c.sh) →
      ((c.after t a as).sh ≠ c.sh → (c.th u).mode = .free) →
      ThreadOK calls (c.after t a as) Q' u := by
    intro Q' u hut hl hx hwsame hchg
    obtain ⟨cu, hwlu, hcu⟩ := hthr u
    refine ⟨cu, by rw [hother u hut]; exact hwlu, ?_⟩
    rw [hother u hut, hl, hx]
    rcases hcu with hp | ⟨hr, hna, hle, hloc, hw⟩
    · exact Or.inl hp
    · refine Or.inr ⟨hr, hna, hle, ?_, ?_⟩
      · by_cases hsame : (c.after t a as).sh = c.sh
        · rw [hsame]; exact hloc
        · have hfree := hchg hsame
          rw [hfree] at hwlu
          rw [hloc]
          exact ((runActs_quiet hwlu hna (by simp) c.sh (c.th u).loc).2 rfl _).symm
      · intro hmw
        obtain ⟨e1, e2⟩ := hwsame hmw
        rw [e1, e2]; exact hw hmw
  by_cases hacq : a.ev.isAcquire = true
  · ------------------------------------------------------------ enters a critical section
    have hord : (c.after t a as).order = c.order ++ [t] := by simp [Conf.after, hacq]
    have hpre := hcase.resolve_right (by
      rintro ⟨_, hna, _, _, _⟩
      have := (noAcq_cons (by simpa [evs] using hna)).1
      simp [hacq] at this)
    obtain ⟨has, hmode, h1, hlt, hrun⟩ := hpre
    have hnoacq : noAcq (evs cur') := oneAcq_cons_acq (by simpa [evs] using h1) hacq
    have happ : a.apply c.sh (c.th t).loc = (c.sh, (c.th t).loc) := acquire_apply a _ _ hacq
    have hnow : ∀ u, (c.th u).mode ≠ .w := by
      intro u
      cases he : a.ev <;> simp_all [Ev.isAcquire, enabled]
    have hshq : c.sh = Q.sh := hshF hnow
    have hsh' : (c.after t a as).sh = c.sh := by rw [hsh, happ]
    have hp : runActs ((calls t).getD (Q.idx t) []) Q.sh (Q.loc t) = runActs cur' c.sh (c.th t).loc := by
      rw [← hrun, runActs_cons, ← hshq, happ]
    have hQ' : seqExecP calls init s₀ (c.after t a as).order = seqStepP calls Q t := by
      rw [hord, seqExecP_append, hQ]
    have hQsh : (seqStepP calls Q t).sh = (runActs cur' c.sh (c.th t).loc).1 := by
      simp only [seqStepP, hp]
    have hQloc : (seqStepP calls Q t).loc t = (runActs cur' c.sh (c.th t).loc).2 := by
      simp only [seqStepP, upd, hp, if_true]
    have hQidx : (seqStepP calls Q t).idx t = Q.idx t + 1 := by simp [seqStepP, upd]
    refine { lock := hlock', thr := ?_, shFree := ?_ }
    · intro u
      rw [hQ']
      by_cases hut : u = t
      · subst hut
        refine ⟨cur', by rw [hself]; show wellLockedFrom ((c.th _).mode.next a.ev) (evs cur') = true; rw [hnext]; exact hwl', Or.inr ?_⟩
        rw [hself, hQidx, hQloc, hQsh, hsh']
        exact ⟨has, hnoacq, hlt, by simp [happ], fun _ => by simp [happ]⟩
      · exact keep _ u hut (seqStepP_other calls hut).1 (seqStepP_other calls hut).2
          (fun hmw => absurd hmw (hnow u)) (fun hne => absurd hsh' hne)
    · intro hall
      rw [hQ', hQsh, hsh']
      have hm'w : m' ≠ .w := by
        have := hall t
        rw [hself] at this
        simpa [hnext] using this
      exact ((runActs_quiet hwl' hnoacq hm'w c.sh (c.th t).loc).1).symm
  · ------------------------------------------------------------ any other action
    have hacq' : a.ev.isAcquire = false := by simpa using hacq
    have hord : (c.after t a as).order = c.order := by simp [Conf.after, hacq']
    have hQ' : seqExecP calls init s₀ (c.after t a as).order = Q := by rw [hord, hQ]
    rcases hcase with ⟨has, hmode, h1, hlt, hrun⟩ | ⟨has, hna, hle, hloc, hw⟩
    · ---------------------------------------- before its section: goroutine-local computation
      have hev : a.ev = .callFn := by
        rw [hmode] at hck
        cases he : a.ev <;> simp_all [Mode.check, Ev.isAcquire]
      have happ : ∀ x, a.apply x (c.th t).loc = (x, a.g (c.th t).loc) := fun x => by
        simp [Act.apply, hev]
      have hsame : (c.after t a as).sh = c.sh := by rw [hsh, happ]
      have hm'free : m' = .free := by
        rw [hmode, hev] at hck; simpa [Mode.check] using hck.symm
      refine { lock := hlock', thr := ?_, shFree := ?_ }
      · intro u
        rw [hQ']
        by_cases hut : u = t
        · subst hut
          refine ⟨cur', by rw [hself]; show wellLockedFrom ((c.th _).mode.next a.ev) (evs cur') = true; rw [hnext]; exact hwl', Or.inl ?_⟩
          rw [hself]
          refine ⟨has, by simp [hnext, hm'free],
            oneAcq_cons_nacq (by simpa [evs] using h1) hacq', hlt, fun s => ?_⟩
          simp only []
          rw [← hrun s, runActs_cons]
          simp only [happ]
        · exact keep Q u hut rfl rfl (fun _ => ⟨rfl, hsame⟩) (fun hne => absurd hsame hne)
      · intro hall
        rw [hQ', hsame]
        apply hshF
        intro u
        by_cases hut : u = t
        · rw [hut, hmode]; simp
        · have := hall u
          rwa [hother u hut] at this
    · ---------------------------------------- inside or behind its section
      have hnoacq : noAcq (evs cur') := (noAcq_cons (by simpa [evs] using hna)).2
      have hK : runActs (a :: cur') c.sh (c.th t).loc
          = runActs cur' (a.apply c.sh (c.th t).loc).1 (a.apply c.sh (c.th t).loc).2 := runActs_cons _ _ _ _
      have hchg : (a.apply c.sh (c.th t).loc).1 ≠ c.sh → (c.th t).mode = .w := by
        intro hne
        have hwr : a.ev.writes = true := by
          cases hb : a.ev.writes
          · exact absurd (apply_fst_of_not_writes a _ _ hb) hne
          · rfl
        have hacc : a.ev.isAccess = true := by
          cases he : a.ev <;> simp_all [Ev.writes, Ev.isAccess]
        exact (hi.lock.access_mode hrest hacc).2 hwr
      refine { lock := hlock', thr := ?_, shFree := ?_ }
      · intro u
        rw [hQ']
        by_cases hut : u = t
        · subst hut
          refine ⟨cur', by rw [hself]; show wellLockedFrom ((c.th _).mode.next a.ev) (evs cur') = true; rw [hnext]; exact hwl', Or.inr ?_⟩
          rw [hself, hsh]
          refine ⟨has, hnoacq, hle, by rw [hloc, hK], fun hmw => ?_⟩
          have hmw0 : (c.th u).mode = .w := by
            simp only [hnext] at hmw
            subst hmw
            exact check_to_w hck hacq'
          have := hw hmw0
          rwa [hK] at this
        · refine keep Q u hut rfl rfl (fun hmw => ⟨rfl, ?_⟩) (fun hne => ?_)
          · have htfree := hi.lock.excl u t hut hmw
            apply Classical.byContradiction
            intro hne
            have := hchg (by rwa [hsh] at hne)
            rw [htfree] at this
            cases this
          · exact hi.lock.excl t u (Ne.symm hut) (hchg (by rwa [hsh] at hne))
      · intro hall
        rw [hQ', hsh]
        by_cases hmw : (c.th t).mode = .w
        · have hm'f : m' ≠ .w := by
            have := hall t
            rw [hself] at this
            simpa [hnext] using this
          have hev : a.ev = .unlock := by
            rw [hmw] at hck
            cases he : a.ev <;> simp_all [Mode.check]
          have hm'free : m' = .free := by
            rw [hmw, hev] at hck; simpa [Mode.check] using hck.symm
          have happ : a.apply c.sh (c.th t).loc = (c.sh, (c.th t).loc) := by
            simp [Act.apply, hev]
          have h1 := hw hmw
          rw [hK, happ] at h1
          rw [happ, ← h1]
          rw [hm'free] at hwl'
          exact ((runActs_quiet hwl' hnoacq (by simp) c.sh (c.th t).loc).1).symm
        · have hall0 : ∀ u, (c.th u).mode ≠ .w := by
            intro u
            by_cases hut : u = t
            · exact hut ▸ hmw
            · have := hall u
              rwa [hother u hut] at this
          have hsame : (a.apply c.sh (c.th t).loc).1 = c.sh := by
            apply Classical.byContradiction
            intro hne
            exact hmw (hchg hne)
          rw [hsame]
          exact hshF hall0

theorem PInv.reach (h : ∀ t, ∀ b ∈ calls t, CallOK b) {c : Conf σ μ}
    (hr : Reach (Conf.init s₀ (fun t => (calls t).flatten) init) c) : PInv calls init s₀ c := by
  induction hr with
  | refl => exact PInv.initial calls init s₀ h
  | step _ hs ih => exact ih.step calls init s₀ h hs

/-- A goroutine that has finished has performed all its calls, and its local state is the
one of the sequential history. -/
theorem ThreadOK.finished (h : ∀ t, ∀ b ∈ calls t, CallOK b) {c : Conf σ μ} {Q : SeqSt σ μ} {t : Nat}
    (ht : ThreadOK calls c Q t) (hdone : (c.th t).rest = []) :
    Q.idx t = (calls t).length ∧ Q.loc t = (c.th t).loc := by
  obtain ⟨cur, _, hcase⟩ := ht
  rcases hcase with ⟨hr, _, h1, _, _⟩ | ⟨hr, _, hle, hloc, _⟩
  · rw [hdone] at hr
    have : cur = [] := (List.append_eq_nil_iff.1 hr.symm).1
    subst this
    exact absurd rfl (oneAcq_ne_nil (by simpa [evs] using h1))
  · rw [hdone] at hr
    obtain ⟨hc, hd⟩ := List.append_eq_nil_iff.1 hr.symm
    subst hc
    refine ⟨?_, by simpa [runActs] using hloc⟩
    apply Classical.byContradiction
    intro hne
    have hlt : Q.idx t < (calls t).length := by omega
    rw [List.drop_eq_getElem_cons hlt, List.flatten_cons] at hd
    have hb := (List.append_eq_nil_iff.1 hd).1
    have hok := h t _ (List.getElem_mem hlt)
    rw [hb] at hok
    exact absurd rfl (oneAcq_ne_nil (by simpa [evs] using hok.2))

end

end Golib.C12
