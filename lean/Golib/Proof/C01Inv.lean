/-
C01 — the inductive invariant of the SyncRing machine with ghost (unbounded) tickets
(`Conc`: `Cfg.M = 0`) and its preservation by every step of every thread.

Every slot `i` is, for exactly one position `p ≡ i (mod cap)`, in one of four phases:
  F  free for `p`       seq = p,     T ≤ p < H + cap
  W  being written      seq = p,     H ≤ p < T,  exactly one thread past its tail-CAS on p
  S  stored             seq = p + 1, H ≤ p < T
  R  being read         seq = p + 1, p < H, T ≤ p + cap, exactly one thread past its head-CAS on p
-/
import Golib.Model.C01Ring
import Golib.Proof.C01Util

namespace Golib.C01
open Golib.C01.Util

/-- The ghost machine: unbounded tickets, capacity ≥ 2, `pos & mask = pos % cap`. -/
structure Ghost (c : Cfg) : Prop where
  M0 : c.M = 0
  cap2 : 2 ≤ c.cap
  idx_mod : ∀ p, c.idx p = p % c.cap

theorem ghost_pow (k : Nat) (hk : 1 ≤ k) : Ghost { M := 0, cap := 2 ^ k } where
  M0 := rfl
  cap2 := by
    have : 2 ^ 1 ≤ 2 ^ k := Nat.pow_le_pow_right (by omega) hk
    simpa using this
  idx_mod := fun p => by
    simp only [Cfg.idx, Cfg.mask]
    exact Nat.and_two_pow_sub_one_eq_mod p k

theorem Ghost.norm {c : Cfg} (g : Ghost c) (x : Nat) : c.norm x = x := by
  simp [Cfg.norm, g.M0]

theorem Ghost.mask {c : Cfg} (g : Ghost c) : c.mask + 1 = c.cap := by
  have := g.cap2
  simp only [Cfg.mask]; omega

/-- sequence number of slot `k` -/
def sq (slots : List Slot) (k : Nat) : Option Nat := (slots[k]?).map (·.seq)

def pushAt (p : Nat) : Pc → Bool
  | .pushWrite _ pos _ => pos == p
  | .pushStore pos _ => pos == p
  | _ => false

def popAt (p : Nat) : Pc → Bool
  | .popRead pos _ => pos == p
  | .popClear pos _ _ => pos == p
  | .popStore pos _ _ => pos == p
  | _ => false

def cW (l : List Thread) (p : Nat) : Nat := l.countP fun th => pushAt p th.pc
def cR (l : List Thread) (p : Nat) : Nat := l.countP fun th => popAt p th.pc

/-- phase of slot `i` whose sequence number is `q` -/
def Phase (cap H T : Nat) (w r : Nat → Nat) (i q : Nat) : Prop :=
  ∃ p, p % cap = i ∧
    ((q = p ∧ T ≤ p ∧ p < H + cap) ∨
     (q = p ∧ H ≤ p ∧ p < T ∧ w p = 1) ∨
     (q = p + 1 ∧ H ≤ p ∧ p < T) ∨
     (q = p + 1 ∧ p < H ∧ T ≤ p + cap ∧ r p = 1))

/-- what a thread's locals are known to satisfy -/
def PcOk (cap H T : Nat) (f : Nat → Option Nat) : Pc → Prop
  | .pushLoadSeq _ pos => pos ≤ T
  | .pushCAS _ pos seq => seq = pos ∧ pos ≤ T ∧ ∃ q, f (pos % cap) = some q ∧ pos ≤ q
  | .pushWrite _ pos seq => seq = pos ∧ H ≤ pos ∧ pos < T ∧ f (pos % cap) = some pos
  | .pushStore pos seq => seq = pos ∧ H ≤ pos ∧ pos < T ∧ f (pos % cap) = some pos
  | .popLoadSeq pos => pos ≤ H
  | .popCAS pos seq => seq = pos + 1 ∧ pos ≤ H ∧ ∃ q, f (pos % cap) = some q ∧ pos + 1 ≤ q
  | .popRead pos seq => seq = pos + 1 ∧ pos < H ∧ f (pos % cap) = some (pos + 1)
  | .popClear pos seq _ => seq = pos + 1 ∧ pos < H ∧ f (pos % cap) = some (pos + 1)
  | .popStore pos seq _ => seq = pos + 1 ∧ pos < H ∧ f (pos % cap) = some (pos + 1)
  | .lenLoadHead t => t ≤ T
  | .emptyLoadTail h => h ≤ H
  | .fullLoadHead t => t ≤ T
  | _ => True

structure Inv (c : Cfg) (s : State) : Prop where
  head_le_tail : s.head ≤ s.tail
  tail_le : s.tail ≤ s.head + c.cap
  slots_len : s.slots.length = c.cap
  not_crashed : s.crashed = false
  phases : ∀ i, i < c.cap → ∃ q, sq s.slots i = some q ∧
    Phase c.cap s.head s.tail (cW s.threads) (cR s.threads) i q
  locals : ∀ th ∈ s.threads, PcOk c.cap s.head s.tail (sq s.slots) th.pc

/-! ### transfer lemmas -/

/-- A slot other than the ones a step touches keeps its phase. -/
theorem Phase.transfer {cap H T H' T' : Nat} {w r w' r' : Nat → Nat} {i q : Nat}
    (h : Phase cap H T w r i q) (hH : H ≤ H') (hH1 : H' ≤ H + 1) (hT : T ≤ T') (hT1 : T' ≤ T + 1)
    (hTi : T' = T + 1 → T % cap ≠ i) (hHi : H' = H + 1 → H % cap ≠ i)
    (hw : ∀ p, p % cap = i → w' p = w p ∧ r' p = r p) :
    Phase cap H' T' w' r' i q := by
  obtain ⟨p, hp, hph⟩ := h
  have ⟨hwp, hrp⟩ := hw p hp
  refine ⟨p, hp, ?_⟩
  have hpT : T' = T + 1 → p ≠ T := fun e e2 => hTi e (by rw [← e2]; exact hp)
  have hpH : H' = H + 1 → p ≠ H := fun e e2 => hHi e (by rw [← e2]; exact hp)
  have hpTc : T' = T + 1 → p + cap ≠ T := fun e e2 => hTi e (by rw [← e2, Nat.add_mod_right]; exact hp)
  rcases hph with ⟨a, b, c⟩ | ⟨a, b, c, d⟩ | ⟨a, b, c⟩ | ⟨a, b, c, d⟩
  · left; refine ⟨a, ?_, by omega⟩
    by_cases e : T' = T + 1
    · have := hpT e; omega
    · omega
  · right; left; refine ⟨a, ?_, by omega, by omega⟩
    by_cases e : H' = H + 1
    · have := hpH e; omega
    · omega
  · right; right; left; refine ⟨a, ?_, by omega⟩
    by_cases e : H' = H + 1
    · have := hpH e; omega
    · omega
  · right; right; right; refine ⟨a, by omega, ?_, by omega⟩
    by_cases e : T' = T + 1
    · have := hpTc e; omega
    · omega

/-- A thread's knowledge survives when the counters only grow, sequence numbers only
grow, and the slot it owns (after its CAS) is untouched. -/
theorem PcOk.transfer {cap H T H' T' : Nat} {f f' : Nat → Option Nat} {pc : Pc}
    (h : PcOk cap H T f pc) (hH : H ≤ H') (hT : T ≤ T')
    (hmono : ∀ k q, f k = some q → ∃ q', f' k = some q' ∧ q ≤ q')
    (hpush : ∀ p, pushAt p pc = true → f' (p % cap) = f (p % cap) ∧ H' ≤ p)
    (hpop : ∀ p, popAt p pc = true → f' (p % cap) = f (p % cap)) :
    PcOk cap H' T' f' pc := by
  cases pc <;> simp only [PcOk, pushAt, popAt, beq_iff_eq, Bool.false_eq_true,
    false_implies, implies_true] at * <;> try omega
  · -- pushCAS
    obtain ⟨a, b, q, hq, hle⟩ := h
    obtain ⟨q', hq', hle'⟩ := hmono _ _ hq
    exact ⟨a, by omega, q', hq', by omega⟩
  · obtain ⟨a, b, c, d⟩ := h
    have hp := hpush _ rfl
    exact ⟨a, hp.2, by omega, by rw [hp.1]; exact d⟩
  · obtain ⟨a, b, c, d⟩ := h
    have hp := hpush _ rfl
    exact ⟨a, hp.2, by omega, by rw [hp.1]; exact d⟩
  · obtain ⟨a, b, q, hq, hle⟩ := h
    obtain ⟨q', hq', hle'⟩ := hmono _ _ hq
    exact ⟨a, by omega, q', hq', by omega⟩
  · obtain ⟨a, b, d⟩ := h
    exact ⟨a, by omega, by rw [hpop _ rfl]; exact d⟩
  · obtain ⟨a, b, d⟩ := h
    exact ⟨a, by omega, by rw [hpop _ rfl]; exact d⟩
  · obtain ⟨a, b, d⟩ := h
    exact ⟨a, by omega, by rw [hpop _ rfl]; exact d⟩

theorem cW_set {l : List Thread} {i : Nat} {th : Thread} (h : l[i]? = some th) (th' : Thread) (p : Nat) :
    cW (l.set i th') p + (pushAt p th.pc).toNat = cW l p + (pushAt p th'.pc).toNat :=
  countP_set_add (p := fun (t : Thread) => pushAt p t.pc) h th'

theorem cR_set {l : List Thread} {i : Nat} {th : Thread} (h : l[i]? = some th) (th' : Thread) (p : Nat) :
    cR (l.set i th') p + (popAt p th.pc).toNat = cR l p + (popAt p th'.pc).toNat :=
  countP_set_add (p := fun (t : Thread) => popAt p t.pc) h th'

theorem sq_set_val {slots : List Slot} {k : Nat} {sl : Slot} (h : slots[k]? = some sl) (v : Int) (j : Nat) :
    sq (slots.set k { sl with val := v }) j = sq slots j := by
  simp only [sq, List.getElem?_set]
  split
  · rename_i e
    subst e
    split
    · simp [h]
    · rename_i hlt
      have := List.getElem?_eq_none (Nat.le_of_not_lt hlt)
      rw [this] at h; simp at h
  · rfl

theorem sq_set_seq {slots : List Slot} {k : Nat} {sl : Slot} (h : slots[k]? = some sl) (x : Nat) (j : Nat) :
    sq (slots.set k { sl with seq := x }) j = if j = k then some x else sq slots j := by
  have hlt : k < slots.length := by
    by_cases hlt : k < slots.length
    · exact hlt
    · have := List.getElem?_eq_none (Nat.le_of_not_lt hlt)
      rw [this] at h; simp at h
  simp only [sq, List.getElem?_set]
  by_cases e : j = k
  · subst e; simp [hlt]
  · have : ¬ k = j := fun e' => e e'.symm
    simp [e, this]

theorem finish_pc_cases (th : Thread) :
    th.finish.pc = .idle ∨ (∃ v, th.finish.pc = .pushLoadTail v) ∨ th.finish.pc = .popLoadHead ∨
      th.finish.pc = .lenLoadTail ∨ th.finish.pc = .emptyLoadHead ∨ th.finish.pc = .fullLoadTail := by
  unfold Thread.finish
  cases th.prog with
  | nil => simp
  | cons c r => cases c <;> simp [start]

theorem finish_not_at (th : Thread) (p : Nat) :
    pushAt p th.finish.pc = false ∧ popAt p th.finish.pc = false := by
  rcases finish_pc_cases th with h | ⟨v, h⟩ | h | h | h | h <;> rw [h] <;> simp [pushAt, popAt]

theorem finish_ok (th : Thread) (cap H T : Nat) (f : Nat → Option Nat) : PcOk cap H T f th.finish.pc := by
  rcases finish_pc_cases th with h | ⟨v, h⟩ | h | h | h | h <;> rw [h] <;> simp [PcOk]

/-- Steps that only move one thread between program counters of the same ownership
class and leave counters and sequence numbers alone. -/
theorem inv_local {c : Cfg} {s : State} (hI : Inv c s) {i : Nat} {th th' : Thread}
    (hth : s.threads[i]? = some th) {slots' : List Slot}
    (hsq : ∀ j, sq slots' j = sq s.slots j) (hlen : slots'.length = s.slots.length)
    (hat : ∀ p, pushAt p th'.pc = pushAt p th.pc ∧ popAt p th'.pc = popAt p th.pc)
    (hnew : PcOk c.cap s.head s.tail (sq s.slots) th'.pc) :
    Inv c { s with slots := slots', threads := s.threads.set i th' } := by
  have hw : ∀ p, cW (s.threads.set i th') p = cW s.threads p := by
    intro p
    have := cW_set hth th' p
    rw [(hat p).1] at this
    omega
  have hr : ∀ p, cR (s.threads.set i th') p = cR s.threads p := by
    intro p
    have := cR_set hth th' p
    rw [(hat p).2] at this
    omega
  have hf : sq slots' = sq s.slots := funext hsq
  refine ⟨hI.head_le_tail, hI.tail_le, by simp only; rw [hlen]; exact hI.slots_len, hI.not_crashed, ?_, ?_⟩
  · intro j hj
    obtain ⟨q, hq, hph⟩ := hI.phases j hj
    refine ⟨q, by simp only; rw [hsq]; exact hq, ?_⟩
    have e1 : cW (s.threads.set i th') = cW s.threads := funext hw
    have e2 : cR (s.threads.set i th') = cR s.threads := funext hr
    simp only [e1, e2]
    exact hph
  · intro b hb
    simp only at hb ⊢
    rw [hf]
    rcases mem_set_cases hb with rfl | ⟨j, _, hj⟩
    · exact hnew
    · exact hI.locals b (List.mem_of_getElem? hj)

/-! ### reading a slot's phase off what a thread knows -/

theorem mod_succ_ne {cap : Nat} (h2 : 2 ≤ cap) (p : Nat) : p % cap ≠ (p + 1) % cap := by
  intro e
  have := eq_of_mod_eq_of_window e (by omega) (by omega)
  omega

theorem phase_F_of {cap H T : Nat} {w r : Nat → Nat} {pos q : Nat} (h2 : 2 ≤ cap)
    (h : Phase cap H T w r (pos % cap) q) (hT : T = pos) (_hHT : H ≤ T) (hTc : T ≤ H + cap)
    (hq : pos ≤ q) : q = pos ∧ pos < H + cap := by
  obtain ⟨p', hp', hc⟩ := h
  rcases hc with ⟨a, b, c⟩ | ⟨a, b, c, _⟩ | ⟨a, b, c⟩ | ⟨a, b, c, _⟩
  · have := eq_of_mod_eq_of_window hp'.symm (by omega) (by omega)
    omega
  · omega
  · exfalso
    have e : pos = p' + 1 := by omega
    rw [e] at hp'
    exact mod_succ_ne h2 p' hp'
  · exfalso
    have e : pos = p' + 1 := by omega
    rw [e] at hp'
    exact mod_succ_ne h2 p' hp'

theorem phase_S_of {cap H T : Nat} {w r : Nat → Nat} {pos q : Nat}
    (h : Phase cap H T w r (pos % cap) q) (hH : H = pos) (_hTc : T ≤ H + cap)
    (hq : pos + 1 ≤ q) : q = pos + 1 ∧ pos < T := by
  obtain ⟨p', hp', hc⟩ := h
  rcases hc with ⟨a, b, c⟩ | ⟨a, b, c, _⟩ | ⟨a, b, c⟩ | ⟨a, b, c, _⟩
  · have := eq_of_mod_eq_of_window hp'.symm (by omega) (by omega)
    omega
  · have := eq_of_mod_eq_of_window hp'.symm (by omega) (by omega)
    omega
  · have := eq_of_mod_eq_of_window hp'.symm (by omega) (by omega)
    omega
  · omega

theorem phase_W_of {cap H T : Nat} {w r : Nat → Nat} {pos : Nat} (h2 : 2 ≤ cap)
    (h : Phase cap H T w r (pos % cap) pos) (hT : pos < T) : w pos = 1 := by
  obtain ⟨p', hp', hc⟩ := h
  rcases hc with ⟨a, b, c⟩ | ⟨a, b, c, d⟩ | ⟨a, b, c⟩ | ⟨a, b, c, _⟩
  · omega
  · rw [a]; exact d
  · exfalso
    rw [a] at hp'
    exact mod_succ_ne h2 p' hp'
  · exfalso
    rw [a] at hp'
    exact mod_succ_ne h2 p' hp'

theorem phase_R_of {cap H T : Nat} {w r : Nat → Nat} {pos : Nat} (h2 : 2 ≤ cap)
    (h : Phase cap H T w r (pos % cap) (pos + 1)) (hH : pos < H) : T ≤ pos + cap ∧ r pos = 1 := by
  obtain ⟨p', hp', hc⟩ := h
  rcases hc with ⟨a, b, c⟩ | ⟨a, b, c, d⟩ | ⟨a, b, c⟩ | ⟨a, b, c, d⟩
  · exfalso
    rw [← a] at hp'
    exact mod_succ_ne h2 pos hp'.symm
  · exfalso
    rw [← a] at hp'
    exact mod_succ_ne h2 pos hp'.symm
  · omega
  · have e : p' = pos := by omega
    subst e
    exact ⟨c, d⟩

theorem PcOk.push_at {cap H T : Nat} {f : Nat → Option Nat} {pc : Pc} {p : Nat}
    (h : PcOk cap H T f pc) (hp : pushAt p pc = true) : H ≤ p ∧ p < T ∧ f (p % cap) = some p := by
  cases pc <;> simp only [PcOk, pushAt, beq_iff_eq, Bool.false_eq_true] at h hp
  · subst hp; exact ⟨h.2.1, h.2.2.1, h.2.2.2⟩
  · subst hp; exact ⟨h.2.1, h.2.2.1, h.2.2.2⟩

theorem PcOk.pop_at {cap H T : Nat} {f : Nat → Option Nat} {pc : Pc} {p : Nat}
    (h : PcOk cap H T f pc) (hp : popAt p pc = true) : p < H ∧ f (p % cap) = some (p + 1) := by
  cases pc <;> simp only [PcOk, popAt, beq_iff_eq, Bool.false_eq_true] at h hp
  · subst hp; exact ⟨h.2.1, h.2.2⟩
  · subst hp; exact ⟨h.2.1, h.2.2⟩
  · subst hp; exact ⟨h.2.1, h.2.2⟩

theorem cW_zero_at_tail {c : Cfg} {s : State} (hI : Inv c s) : cW s.threads s.tail = 0 := by
  apply countP_eq_zero_of_forall
  intro b hb
  cases hp : pushAt s.tail b.pc with
  | false => rfl
  | true =>
    have := (hI.locals b hb).push_at hp
    omega

theorem cR_zero_at_head {c : Cfg} {s : State} (hI : Inv c s) : cR s.threads s.head = 0 := by
  apply countP_eq_zero_of_forall
  intro b hb
  cases hp : popAt s.head b.pc with
  | false => rfl
  | true =>
    have := (hI.locals b hb).pop_at hp
    omega

/-- successful CAS on `tail` -/
theorem inv_pushCAS {c : Cfg} (g : Ghost c) {s : State} (hI : Inv c s) {i : Nat} {th : Thread}
    (hth : s.threads[i]? = some th) {v : Int} {pos seq : Nat} (hpc : th.pc = .pushCAS v pos seq)
    (hT : s.tail = pos) :
    Inv c { s with tail := pos + 1, threads := s.threads.set i { th with pc := .pushWrite v pos seq } } := by
  have hloc := hI.locals th (List.mem_of_getElem? hth)
  simp only [hpc, PcOk] at hloc
  obtain ⟨hseq, _, q, hq, hle⟩ := hloc
  have hk : pos % c.cap < c.cap := Nat.mod_lt _ (by have := g.cap2; omega)
  obtain ⟨q0, hq0, hph⟩ := hI.phases _ hk
  rw [hq] at hq0
  obtain rfl := Option.some.inj hq0
  obtain ⟨hqe, hlt⟩ := phase_F_of g.cap2 hph hT hI.head_le_tail hI.tail_le hle
  subst hqe
  have h0 := cW_zero_at_tail hI
  rw [hT] at h0
  have hwset := fun p => cW_set hth { th with pc := .pushWrite v q seq } p
  have hrset := fun p => cR_set hth { th with pc := .pushWrite v q seq } p
  simp only [hpc, pushAt, popAt, Bool.toNat_false, Nat.add_zero] at hwset hrset
  have hHT := hI.head_le_tail
  refine ⟨by simp only; omega, by simp only; omega, hI.slots_len, hI.not_crashed, ?_, ?_⟩
  · intro j hj
    simp only
    by_cases hjk : j = q % c.cap
    · subst hjk
      refine ⟨q, hq, q, rfl, Or.inr (Or.inl ⟨rfl, by omega, by omega, ?_⟩)⟩
      have := hwset q
      simp only [beq_self_eq_true, Bool.toNat_true] at this
      omega
    · obtain ⟨q', hq', hph'⟩ := hI.phases j hj
      refine ⟨q', hq', hph'.transfer (Nat.le_refl _) (by omega) (by omega) (by omega) ?_ (by omega) ?_⟩
      · intro _; rw [hT]; exact fun e => hjk e.symm
      · intro p hp
        have hne : q ≠ p := fun e => hjk (by rw [← hp, e])
        have := hwset p
        have hb : (q == p) = false := by simp [hne]
        rw [hb] at this
        simp only [Bool.toNat_false, Nat.add_zero] at this
        exact ⟨this, hrset p⟩
  · intro b hb
    simp only at hb ⊢
    rcases mem_set_cases hb with rfl | ⟨j, _, hj⟩
    · simp only [PcOk]
      exact ⟨hseq, by omega, by omega, hq⟩
    · have hbo := hI.locals b (List.mem_of_getElem? hj)
      refine hbo.transfer (Nat.le_refl _) (by omega) (fun k q h => ⟨q, h, Nat.le_refl _⟩) ?_ (fun _ _ => rfl)
      intro p hp
      exact ⟨rfl, (hbo.push_at hp).1⟩

/-- successful CAS on `head` -/
theorem inv_popCAS {c : Cfg} (g : Ghost c) {s : State} (hI : Inv c s) {i : Nat} {th : Thread}
    (hth : s.threads[i]? = some th) {pos seq : Nat} (hpc : th.pc = .popCAS pos seq)
    (hH : s.head = pos) :
    Inv c { s with head := pos + 1, threads := s.threads.set i { th with pc := .popRead pos seq } } := by
  have hloc := hI.locals th (List.mem_of_getElem? hth)
  simp only [hpc, PcOk] at hloc
  obtain ⟨hseq, _, q, hq, hle⟩ := hloc
  have hk : pos % c.cap < c.cap := Nat.mod_lt _ (by have := g.cap2; omega)
  obtain ⟨q0, hq0, hph⟩ := hI.phases _ hk
  rw [hq] at hq0
  obtain rfl := Option.some.inj hq0
  obtain ⟨hqe, hlt⟩ := phase_S_of hph hH hI.tail_le hle
  subst hqe
  have h0 := cR_zero_at_head hI
  rw [hH] at h0
  have hwset := fun p => cW_set hth { th with pc := .popRead pos seq } p
  have hrset := fun p => cR_set hth { th with pc := .popRead pos seq } p
  simp only [hpc, pushAt, popAt, Bool.toNat_false, Nat.add_zero] at hwset hrset
  have hHT := hI.head_le_tail
  have hTc := hI.tail_le
  refine ⟨by simp only; omega, by simp only; omega, hI.slots_len, hI.not_crashed, ?_, ?_⟩
  · intro j hj
    simp only
    by_cases hjk : j = pos % c.cap
    · subst hjk
      refine ⟨pos + 1, hq, pos, rfl, Or.inr (Or.inr (Or.inr ⟨rfl, by omega, by omega, ?_⟩))⟩
      have := hrset pos
      simp only [beq_self_eq_true, Bool.toNat_true] at this
      omega
    · obtain ⟨q', hq', hph'⟩ := hI.phases j hj
      refine ⟨q', hq', hph'.transfer (by omega) (by omega) (Nat.le_refl _) (by omega) (by omega) ?_ ?_⟩
      · intro _; rw [hH]; exact fun e => hjk e.symm
      · intro p hp
        have hne : pos ≠ p := fun e => hjk (by rw [← hp, e])
        have := hrset p
        have hb : (pos == p) = false := by simp [hne]
        rw [hb] at this
        simp only [Bool.toNat_false, Nat.add_zero] at this
        exact ⟨hwset p, this⟩
  · intro b hb
    simp only at hb ⊢
    rcases mem_set_cases hb with rfl | ⟨j, _, hj⟩
    · simp only [PcOk]
      exact ⟨hseq, by omega, hq⟩
    · have hbo := hI.locals b (List.mem_of_getElem? hj)
      refine hbo.transfer (by omega) (Nat.le_refl _) (fun k q h => ⟨q, h, Nat.le_refl _⟩) ?_ (fun _ _ => rfl)
      intro p hp
      have ⟨h1, _, h3⟩ := hbo.push_at hp
      refine ⟨rfl, ?_⟩
      -- a pusher that owns position `head` would see the slot still unpublished
      by_cases e : p = pos
      · subst e
        rw [hq] at h3
        have := Option.some.inj h3
        omega
      · omega

/-- `Push` publishes: `Store(&holder.pos, seq+1)` -/
theorem inv_pushStore {c : Cfg} (g : Ghost c) {s : State} (hI : Inv c s) {i : Nat} {th : Thread}
    (hth : s.threads[i]? = some th) {pos seq : Nat} (hpc : th.pc = .pushStore pos seq)
    {sl : Slot} (hsl : s.slots[pos % c.cap]? = some sl) :
    Inv c { s with slots := s.slots.set (pos % c.cap) { sl with seq := seq + 1 },
                   threads := s.threads.set i th.finish } := by
  have hloc := hI.locals th (List.mem_of_getElem? hth)
  simp only [hpc, PcOk] at hloc
  obtain ⟨hseq, hHp, hpT, hq⟩ := hloc
  subst hseq
  have hk : seq % c.cap < c.cap := Nat.mod_lt _ (by have := g.cap2; omega)
  obtain ⟨q0, hq0, hph⟩ := hI.phases _ hk
  rw [hq] at hq0
  obtain rfl := Option.some.inj hq0
  have hw1 := phase_W_of g.cap2 hph hpT
  have hfin := finish_not_at th
  have hwset : ∀ p, cW (s.threads.set i th.finish) p + (seq == p).toNat = cW s.threads p := by
    intro p
    have := cW_set hth th.finish p
    rw [(hfin p).1, hpc] at this
    simpa [pushAt] using this
  have hrset : ∀ p, cR (s.threads.set i th.finish) p = cR s.threads p := by
    intro p
    have := cR_set hth th.finish p
    rw [(hfin p).2, hpc] at this
    simpa [popAt] using this
  have hsq := sq_set_seq hsl (seq + 1)
  have hTc := hI.tail_le
  refine ⟨hI.head_le_tail, hI.tail_le, by simp only [List.length_set]; exact hI.slots_len,
    hI.not_crashed, ?_, ?_⟩
  · intro j hj
    simp only
    rw [hsq]
    by_cases hjk : j = seq % c.cap
    · subst hjk
      simp only [if_true]
      exact ⟨seq + 1, rfl, seq, rfl, Or.inr (Or.inr (Or.inl ⟨rfl, hHp, hpT⟩))⟩
    · simp only [hjk, if_false]
      obtain ⟨q', hq', hph'⟩ := hI.phases j hj
      refine ⟨q', hq', hph'.transfer (Nat.le_refl _) (by omega) (Nat.le_refl _) (by omega)
        (by omega) (by omega) ?_⟩
      intro p hp
      have hne : seq ≠ p := fun e => hjk (by rw [← hp, e])
      have := hwset p
      have hb : (seq == p) = false := by simp [hne]
      rw [hb] at this
      simp only [Bool.toNat_false, Nat.add_zero] at this
      exact ⟨this, hrset p⟩
  · intro b hb
    simp only at hb ⊢
    rcases mem_set_cases hb with rfl | ⟨j, hji, hj⟩
    · exact finish_ok _ _ _ _ _
    · have hbo := hI.locals b (List.mem_of_getElem? hj)
      refine hbo.transfer (Nat.le_refl _) (Nat.le_refl _) ?_ ?_ ?_
      · intro k q h
        rw [hsq]
        by_cases e : k = seq % c.cap
        · subst e
          rw [hq] at h
          have := Option.some.inj h
          exact ⟨seq + 1, by simp, by omega⟩
        · exact ⟨q, by simp [e, h], Nat.le_refl _⟩
      · intro p hp
        have ⟨h1, h2, h3⟩ := hbo.push_at hp
        refine ⟨?_, h1⟩
        rw [hsq]
        by_cases e : p % c.cap = seq % c.cap
        · exfalso
          have hpe : p = seq := by
            rcases Nat.le_total p seq with hle | hle
            · exact eq_of_mod_eq_of_window e hle (by omega)
            · exact (eq_of_mod_eq_of_window e.symm hle (by omega)).symm
          subst hpe
          have := countP_two (p := fun (t : Thread) => pushAt p t.pc) hji hj hth hp
            (by simp [hpc, pushAt])
          simp only [cW] at hw1
          omega
        · simp [e]
      · intro p hp
        have ⟨h1, h3⟩ := hbo.pop_at hp
        rw [hsq]
        by_cases e : p % c.cap = seq % c.cap
        · exfalso
          rw [e, hq] at h3
          have := Option.some.inj h3
          subst this
          exact mod_succ_ne g.cap2 p e
        · simp [e]

/-- `Pop` releases the slot: `Store(&holder.pos, seq+mask)` -/
theorem inv_popStore {c : Cfg} (g : Ghost c) {s : State} (hI : Inv c s) {i : Nat} {th : Thread}
    (hth : s.threads[i]? = some th) {pos seq : Nat} {v : Int} (hpc : th.pc = .popStore pos seq v)
    {sl : Slot} (hsl : s.slots[pos % c.cap]? = some sl) :
    Inv c { s with slots := s.slots.set (pos % c.cap) { sl with seq := seq + c.mask },
                   threads := s.threads.set i th.finish } := by
  have hloc := hI.locals th (List.mem_of_getElem? hth)
  simp only [hpc, PcOk] at hloc
  obtain ⟨hseq, hpH, hq⟩ := hloc
  subst hseq
  have hmask := g.mask
  have hk : pos % c.cap < c.cap := Nat.mod_lt _ (by have := g.cap2; omega)
  obtain ⟨q0, hq0, hph⟩ := hI.phases _ hk
  rw [hq] at hq0
  obtain rfl := Option.some.inj hq0
  obtain ⟨hTp, hr1⟩ := phase_R_of g.cap2 hph hpH
  have hfin := finish_not_at th
  have hwset : ∀ p, cW (s.threads.set i th.finish) p = cW s.threads p := by
    intro p
    have := cW_set hth th.finish p
    rw [(hfin p).1, hpc] at this
    simpa [pushAt] using this
  have hrset : ∀ p, cR (s.threads.set i th.finish) p + (pos == p).toNat = cR s.threads p := by
    intro p
    have := cR_set hth th.finish p
    rw [(hfin p).2, hpc] at this
    simpa [popAt] using this
  have hsq := sq_set_seq hsl (pos + 1 + c.mask)
  have hHT := hI.head_le_tail
  refine ⟨hI.head_le_tail, hI.tail_le, by simp only [List.length_set]; exact hI.slots_len,
    hI.not_crashed, ?_, ?_⟩
  · intro j hj
    simp only
    rw [hsq]
    by_cases hjk : j = pos % c.cap
    · subst hjk
      simp only [if_true]
      refine ⟨pos + 1 + c.mask, rfl, pos + c.cap, by rw [Nat.add_mod_right], Or.inl ⟨by omega, hTp, by omega⟩⟩
    · simp only [hjk, if_false]
      obtain ⟨q', hq', hph'⟩ := hI.phases j hj
      refine ⟨q', hq', hph'.transfer (Nat.le_refl _) (by omega) (Nat.le_refl _) (by omega)
        (by omega) (by omega) ?_⟩
      intro p hp
      have hne : pos ≠ p := fun e => hjk (by rw [← hp, e])
      have := hrset p
      have hb : (pos == p) = false := by simp [hne]
      rw [hb] at this
      simp only [Bool.toNat_false, Nat.add_zero] at this
      exact ⟨hwset p, this⟩
  · intro b hb
    simp only at hb ⊢
    rcases mem_set_cases hb with rfl | ⟨j, hji, hj⟩
    · exact finish_ok _ _ _ _ _
    · have hbo := hI.locals b (List.mem_of_getElem? hj)
      refine hbo.transfer (Nat.le_refl _) (Nat.le_refl _) ?_ ?_ ?_
      · intro k q h
        rw [hsq]
        by_cases e : k = pos % c.cap
        · subst e
          rw [hq] at h
          have := Option.some.inj h
          exact ⟨pos + 1 + c.mask, by simp, by omega⟩
        · exact ⟨q, by simp [e, h], Nat.le_refl _⟩
      · intro p hp
        have ⟨h1, h2, h3⟩ := hbo.push_at hp
        refine ⟨?_, h1⟩
        rw [hsq]
        by_cases e : p % c.cap = pos % c.cap
        · exfalso
          rw [e, hq] at h3
          have := Option.some.inj h3
          subst this
          exact mod_succ_ne g.cap2 pos e.symm
        · simp [e]
      · intro p hp
        have ⟨h1, h3⟩ := hbo.pop_at hp
        rw [hsq]
        by_cases e : p % c.cap = pos % c.cap
        · exfalso
          rw [e, hq] at h3
          have hpe : p = pos := by have := Option.some.inj h3; omega
          subst hpe
          have := countP_two (p := fun (t : Thread) => popAt p t.pc) hji hj hth hp
            (by simp [hpc, popAt])
          simp only [cR] at hr1
          omega
        · simp [e]

theorem slot_exists {c : Cfg} (g : Ghost c) {s : State} (hI : Inv c s) (pos : Nat) :
    ∃ sl, s.slots[c.idx pos]? = some sl := by
  have hk : pos % c.cap < c.cap := Nat.mod_lt _ (by have := g.cap2; omega)
  rw [g.idx_mod]
  exact ⟨s.slots[pos % c.cap]'(by rw [hI.slots_len]; exact hk), List.getElem?_eq_getElem _⟩

theorem sq_of_slot {slots : List Slot} {k : Nat} {sl : Slot} (h : slots[k]? = some sl) :
    sq slots k = some sl.seq := by simp [sq, h]

set_option maxHeartbeats 1000000 in
/-- Every step of every thread preserves the invariant (ghost tickets). -/
theorem inv_step {c : Cfg} (g : Ghost c) {s : State} (hI : Inv c s) (i : Nat) :
    Inv c (step c s i).1 := by
  unfold step
  cases hth : s.threads[i]? with
  | none => exact hI
  | some th =>
    have hloc := hI.locals th (List.mem_of_getElem? hth)
    have hfin := finish_not_at th
    have hfinat : ∀ {pc : Pc}, th.pc = pc → (∀ p, pushAt p pc = false ∧ popAt p pc = false) →
        ∀ p, pushAt p th.finish.pc = pushAt p th.pc ∧ popAt p th.finish.pc = popAt p th.pc := by
      intro pc e h p
      rw [e, (hfin p).1, (hfin p).2, (h p).1, (h p).2]
      exact ⟨rfl, rfl⟩
    simp only []
    cases hpc : th.pc with
    | idle => exact hI
    | pushLoadTail v =>
      dsimp only
      exact inv_local hI hth (fun _ => rfl) rfl (by intro p; simp [hpc, pushAt, popAt])
        (by simp only [PcOk]; omega)
    | pushLoadSeq v pos =>
      dsimp only
      obtain ⟨sl, hsl⟩ := slot_exists g hI pos
      simp only [hpc, PcOk] at hloc
      rw [hsl]
      dsimp only
      split
      · exact inv_local hI hth (fun _ => rfl) rfl
          (hfinat hpc (by intro p; simp [pushAt, popAt])) (finish_ok _ _ _ _ _)
      · rename_i hne
        refine inv_local hI hth (fun _ => rfl) rfl (by intro p; simp [hpc, pushAt, popAt]) ?_
        simp only [PcOk]
        rw [g.idx_mod] at hsl
        exact ⟨by omega, hloc, sl.seq, sq_of_slot hsl, by omega⟩
    | pushCAS v pos seq =>
      dsimp only
      split
      · rename_i hT
        rw [g.norm]
        exact inv_pushCAS g hI hth hpc hT
      · exact inv_local hI hth (fun _ => rfl) rfl
          (hfinat hpc (by intro p; simp [pushAt, popAt])) (finish_ok _ _ _ _ _)
    | pushWrite v pos seq =>
      dsimp only
      obtain ⟨sl, hsl⟩ := slot_exists g hI pos
      rw [hsl]
      dsimp only
      refine inv_local hI hth (sq_set_val hsl v) (by simp) (by intro p; simp [hpc, pushAt, popAt]) ?_
      simp only [hpc, PcOk] at hloc ⊢
      exact hloc
    | pushStore pos seq =>
      dsimp only
      obtain ⟨sl, hsl⟩ := slot_exists g hI pos
      rw [hsl]
      dsimp only
      rw [g.norm]
      rw [g.idx_mod] at hsl ⊢
      exact inv_pushStore g hI hth hpc hsl
    | popLoadHead =>
      dsimp only
      exact inv_local hI hth (fun _ => rfl) rfl (by intro p; simp [hpc, pushAt, popAt])
        (by simp only [PcOk]; omega)
    | popLoadSeq pos =>
      dsimp only
      obtain ⟨sl, hsl⟩ := slot_exists g hI pos
      simp only [hpc, PcOk] at hloc
      rw [hsl]
      dsimp only
      rw [g.norm]
      split
      · exact inv_local hI hth (fun _ => rfl) rfl
          (hfinat hpc (by intro p; simp [pushAt, popAt])) (finish_ok _ _ _ _ _)
      · rename_i hne
        refine inv_local hI hth (fun _ => rfl) rfl (by intro p; simp [hpc, pushAt, popAt]) ?_
        simp only [PcOk]
        rw [g.idx_mod] at hsl
        exact ⟨by omega, hloc, sl.seq, sq_of_slot hsl, by omega⟩
    | popCAS pos seq =>
      dsimp only
      split
      · rename_i hH
        rw [g.norm]
        exact inv_popCAS g hI hth hpc hH
      · exact inv_local hI hth (fun _ => rfl) rfl
          (hfinat hpc (by intro p; simp [pushAt, popAt])) (finish_ok _ _ _ _ _)
    | popRead pos seq =>
      dsimp only
      obtain ⟨sl, hsl⟩ := slot_exists g hI pos
      rw [hsl]
      dsimp only
      refine inv_local hI hth (fun _ => rfl) rfl (by intro p; simp [hpc, pushAt, popAt]) ?_
      simp only [hpc, PcOk] at hloc ⊢
      exact hloc
    | popClear pos seq v =>
      dsimp only
      obtain ⟨sl, hsl⟩ := slot_exists g hI pos
      rw [hsl]
      dsimp only
      refine inv_local hI hth (sq_set_val hsl 0) (by simp) (by intro p; simp [hpc, pushAt, popAt]) ?_
      simp only [hpc, PcOk] at hloc ⊢
      exact hloc
    | popStore pos seq v =>
      dsimp only
      obtain ⟨sl, hsl⟩ := slot_exists g hI pos
      rw [hsl]
      dsimp only
      rw [g.norm]
      rw [g.idx_mod] at hsl ⊢
      exact inv_popStore g hI hth hpc hsl
    | lenLoadTail =>
      dsimp only
      exact inv_local hI hth (fun _ => rfl) rfl (by intro p; simp [hpc, pushAt, popAt])
        (by simp only [PcOk]; omega)
    | lenLoadHead t =>
      dsimp only
      exact inv_local hI hth (fun _ => rfl) rfl
        (hfinat hpc (by intro p; simp [pushAt, popAt])) (finish_ok _ _ _ _ _)
    | emptyLoadHead =>
      dsimp only
      exact inv_local hI hth (fun _ => rfl) rfl (by intro p; simp [hpc, pushAt, popAt])
        (by simp only [PcOk]; omega)
    | emptyLoadTail h =>
      dsimp only
      exact inv_local hI hth (fun _ => rfl) rfl
        (hfinat hpc (by intro p; simp [pushAt, popAt])) (finish_ok _ _ _ _ _)
    | fullLoadTail =>
      dsimp only
      exact inv_local hI hth (fun _ => rfl) rfl (by intro p; simp [hpc, pushAt, popAt])
        (by simp only [PcOk]; omega)
    | fullLoadHead t =>
      dsimp only
      exact inv_local hI hth (fun _ => rfl) rfl
        (hfinat hpc (by intro p; simp [pushAt, popAt])) (finish_ok _ _ _ _ _)

theorem slotSeq_mod {cap : Nat} (hc : 0 < cap) (k i : Nat) (hi : i < cap) :
    slotSeq cap k i % cap = i := by
  unfold slotSeq
  have hk := Nat.mod_lt k hc
  have e : (k + (i + cap - k % cap) % cap) % cap = (k % cap + (i + cap - k % cap)) % cap := by
    rw [Nat.add_mod, Nat.mod_mod, Nat.add_mod (k % cap) (i + cap - k % cap), Nat.mod_mod]
  have : k % cap + (i + cap - k % cap) = i + cap := by omega
  rw [e, this, Nat.add_mod_right, Nat.mod_eq_of_lt hi]

theorem slotSeq_window {cap : Nat} (hc : 0 < cap) (k i : Nat) :
    k ≤ slotSeq cap k i ∧ slotSeq cap k i < k + cap := by
  unfold slotSeq
  have := Nat.mod_lt (i + cap - k % cap) hc
  omega

/-- The empty ring at any rotation `k` (the state after `k` push/pop pairs; `k = 0`:
a fresh ring) satisfies the invariant, whatever the thread programs are. -/
theorem inv_initAt {c : Cfg} (g : Ghost c) (k : Nat) (progs : List (List Call)) :
    Inv c (initAt c k progs) := by
  have hc : 0 < c.cap := by have := g.cap2; omega
  refine ⟨by simp [initAt], by simp [initAt], by simp [initAt], rfl, ?_, ?_⟩
  · intro i hi
    have hw := slotSeq_window hc k i
    refine ⟨slotSeq c.cap k i, ?_, slotSeq c.cap k i, slotSeq_mod hc k i hi, Or.inl ⟨rfl, ?_, ?_⟩⟩
    · simp [initAt, sq, hi, g.norm]
    · simp only [initAt, g.norm]; exact hw.1
    · simp only [initAt, g.norm]; exact hw.2
  · intro th hth
    simp only [initAt, List.mem_map] at hth
    obtain ⟨pr, _, rfl⟩ := hth
    exact finish_ok _ _ _ _ _

theorem inv_run {c : Cfg} (g : Ghost c) {s : State} (hI : Inv c s) (σ : List Nat) :
    Inv c (run c s σ).1 := by
  induction σ generalizing s with
  | nil => exact hI
  | cons i σ ih =>
    simp only [run]
    exact ih (inv_step g hI i)

/-! ### data-race freedom (SC criterion) -/

/-- the slot whose `value` field the thread's NEXT access touches by a plain
(non-atomic) read or write, if its next access is a plain one -/
def plainSlot (c : Cfg) : Pc → Option Nat
  | .pushWrite _ pos _ => some (c.idx pos)
  | .popRead pos _ => some (c.idx pos)
  | .popClear pos _ _ => some (c.idx pos)
  | _ => none

theorem plainSlot_cases {c : Cfg} {pc : Pc} {k : Nat} (h : plainSlot c pc = some k) :
    ∃ pos, c.idx pos = k ∧ (pushAt pos pc = true ∨ popAt pos pc = true) := by
  cases pc <;> simp only [plainSlot, Option.some.injEq, reduceCtorEq] at h
  · rename_i v pos seq; exact ⟨pos, h, Or.inl (by simp [pushAt])⟩
  · rename_i pos seq; exact ⟨pos, h, Or.inr (by simp [popAt])⟩
  · rename_i pos seq v; exact ⟨pos, h, Or.inr (by simp [popAt])⟩

/-- No two threads are ever both about to make a plain access to the same slot. -/
theorem no_conflict {c : Cfg} (g : Ghost c) {s : State} (hI : Inv c s) {i j : Nat} {a b : Thread}
    (hij : i ≠ j) (hi : s.threads[i]? = some a) (hj : s.threads[j]? = some b) {k : Nat}
    (ha : plainSlot c a.pc = some k) (hb : plainSlot c b.pc = some k) : False := by
  obtain ⟨p1, hk1, h1⟩ := plainSlot_cases ha
  obtain ⟨p2, hk2, h2⟩ := plainSlot_cases hb
  rw [g.idx_mod] at hk1 hk2
  have hka : p1 % c.cap < c.cap := Nat.mod_lt _ (by have := g.cap2; omega)
  obtain ⟨q, hq, hph⟩ := hI.phases _ hka
  have la := hI.locals a (List.mem_of_getElem? hi)
  have lb := hI.locals b (List.mem_of_getElem? hj)
  rcases h1 with h1 | h1 <;> rcases h2 with h2 | h2
  · have ⟨_, a2, a3⟩ := la.push_at h1
    have ⟨_, _, b3⟩ := lb.push_at h2
    rw [hk2, ← hk1, a3] at b3
    obtain rfl := Option.some.inj b3
    rw [a3] at hq
    obtain rfl := Option.some.inj hq
    have hw := phase_W_of g.cap2 hph a2
    have := countP_two (p := fun (t : Thread) => pushAt p1 t.pc) hij hi hj h1 h2
    simp only [cW] at hw
    omega
  · have ⟨_, _, a3⟩ := la.push_at h1
    have ⟨_, b3⟩ := lb.pop_at h2
    rw [hk2, ← hk1, a3] at b3
    have e := Option.some.inj b3
    rw [e] at hk1
    exact mod_succ_ne g.cap2 p2 (by rw [hk1, hk2])
  · have ⟨_, a3⟩ := la.pop_at h1
    have ⟨_, _, b3⟩ := lb.push_at h2
    rw [hk2, ← hk1, a3] at b3
    have e := Option.some.inj b3
    rw [← e] at hk2
    exact mod_succ_ne g.cap2 p1 (by rw [hk1, hk2])
  · have ⟨a2, a3⟩ := la.pop_at h1
    have ⟨_, b3⟩ := lb.pop_at h2
    rw [hk2, ← hk1, a3] at b3
    have e : p1 = p2 := by have := Option.some.inj b3; omega
    subst e
    rw [a3] at hq
    obtain rfl := Option.some.inj hq
    have ⟨_, hr⟩ := phase_R_of g.cap2 hph a2
    have := countP_two (p := fun (t : Thread) => popAt p1 t.pc) hij hi hj h1 h2
    simp only [cR] at hr
    omega

theorem lenOf_le_cap (c : Cfg) (t h : Nat) : c.lenOf t h ≤ c.cap := by
  unfold Cfg.lenOf
  dsimp only
  split <;> omega

theorem ghost_sub {c : Cfg} (g : Ghost c) {t h : Nat} (hle : h ≤ t) : c.sub t h = t - h := by
  simp [Cfg.sub, g.M0, hle]

theorem len_exact {c : Cfg} (g : Ghost c) {s : State} (hI : Inv c s) :
    c.lenOf s.tail s.head = s.tail - s.head ∧
      ((s.head == s.tail) = true ↔ s.tail - s.head = 0) ∧
      ((c.sub s.tail s.head == c.cap) = true ↔ s.tail - s.head = c.cap) := by
  have h1 := hI.head_le_tail
  have h2 := hI.tail_le
  have hs := ghost_sub g h1
  refine ⟨?_, ?_, ?_⟩
  · simp only [Cfg.lenOf, hs]
    split <;> omega
  · simp only [beq_iff_eq]; omega
  · simp only [beq_iff_eq, hs]

end Golib.C01
