/-
C05: the pointer-level model refines the label trie along every history of Insert / Build,
and the pointer-level scan loops return what the label-level ones return.
-/
import Golib.Proof.C05PtrInsert
import Golib.Proof.C05PtrBuild
import Golib.Proof.C05PtrScan
import Golib.Proof.C05Rebuild

set_option linter.unusedSimpArgs false
set_option linter.unusedVariables false

namespace Golib.C05
open Golib

/-- `Insert` of a list of byte patterns, in order. -/
theorem pinsertAll_rep : ∀ (pats : List (List Nat)) (pt : PTrie) (t : Trie) (lbl : List Label),
    Rep pt t lbl →
    ∃ pt' lbl', pt.insertAll pats = some pt' ∧
      Rep pt' (pats.foldl (fun t p => t.insert (decodeAll p)) t) (lbl ++ lbl') := by
  intro pats
  induction pats with
  | nil => intro pt t lbl h; exact ⟨pt, [], rfl, by simpa using h⟩
  | cons p ps ih =>
    intro pt t lbl h
    obtain ⟨pt1, l1, h1, r1⟩ := pinsert_rep pt t lbl (decodeAll p) h
    obtain ⟨pt2, l2, h2, r2⟩ := ih pt1 (t.insert (decodeAll p)) (lbl ++ l1) r1
    refine ⟨pt2, l1 ++ l2, ?_, ?_⟩
    · simp only [PTrie.insertAll, h1, Option.bind_some, h2]
    · simpa [List.append_assoc] using r2

/-- Every child array of a pointer state that represents a label trie is strictly increasing
(sorted and duplicate-free). -/
theorem rep_children_sorted {pt : PTrie} {t : Trie} {lbl : List Label} (h : Rep pt t lbl)
    (id : Nat) (nd : PNode) (hn : pt.nodes[id]? = some nd) : StrictSorted nd.vals := by
  have hlt : id < lbl.length := by
    rw [h.len]; exact (List.getElem?_eq_some_iff.1 hn).1
  have hl : lbl[id]? = some lbl[id] := List.getElem?_eq_getElem hlt
  exact children_sorted (h.kids id nd _ hn hl).1

/-- `Insert`* + `BuildFailureLinks` on the zero value: the pointer model does not panic and
represents the label trie `Trie.ofPatterns pats`. -/
theorem pofPatterns_rep (pats : List (List Nat)) :
    ∃ pt t lbl, PTrie.ofPatterns pats = some pt ∧ Trie.ofPatterns pats = some t ∧ Rep pt t lbl := by
  obtain ⟨pt1, l1, h1, r1⟩ := pinsertAll_rep pats PTrie.empty Trie.empty [[]] rep_empty
  obtain ⟨t, ht, _, _⟩ := ofPatterns_spec pats
  have hfold := foldl_insert (pats.map decodeAll) Trie.empty
  have hpats : (pats.foldl (fun t p => t.insert (decodeAll p)) Trie.empty)
      = (pats.map decodeAll).foldl (fun t p => t.insert p) Trie.empty := by
    rw [List.foldl_map]
  have hfail : (pats.foldl (fun t p => t.insert (decodeAll p)) Trie.empty).fail = [] := by
    rw [hpats, hfold.2]; rfl
  -- the label build
  have hb : Trie.ofPatterns pats
      = (buildFailFrom (pats.foldl (fun t p => t.insert (decodeAll p)) Trie.empty).pats
          (pats.foldl (fun t p => t.insert (decodeAll p)) Trie.empty).fail).map
          fun F => { (pats.foldl (fun t p => t.insert (decodeAll p)) Trie.empty) with fail := F } := by
    rw [hfail]; rfl
  rw [hb] at ht
  cases hF : buildFailFrom (pats.foldl (fun t p => t.insert (decodeAll p)) Trie.empty).pats
      (pats.foldl (fun t p => t.insert (decodeAll p)) Trie.empty).fail with
  | none => rw [hF] at ht; cases ht
  | some F =>
    rw [hF] at ht
    simp only [Option.map_some, Option.some.injEq] at ht
    obtain ⟨pt2, h2, r2⟩ := pbuild_rep pt1 _ _ r1 F hF
    refine ⟨pt2, t, [[]] ++ l1, ?_, ?_, ?_⟩
    · simp only [PTrie.ofPatterns, h1, Option.bind_some, h2]
    · rw [hb, hF]; simp only [Option.map_some]; rw [ht]
    · rw [← ht]; exact r2

end Golib.C05
