/-
C02 helper lemmas, part 10: the comparators the harness drives the lists with are total orders,
or (those that identify distinct keys) weak orders.
-/
import Golib.Proof.C02Chain
import Golib.Model.C02

namespace Golib.C02

theorem cmpInt_total : TotalCmp cmpInt := by
  refine ⟨?_, ?_, ?_⟩ <;> intros <;> simp only [cmpInt] at * <;> (repeat' split) <;> omega

theorem cmpMod3_total : TotalCmp cmpMod3 := by
  have e : ∀ x : Int, x.emod 3 = x % 3 := fun _ => rfl
  refine ⟨?_, ?_, ?_⟩ <;> intros <;> simp only [cmpMod3, cmpInt, e] at * <;> (repeat' split at *) <;> omega

theorem TotalCmp.reverse {K : Type} {cmp : K → K → Int} (h : TotalCmp cmp) : TotalCmp (fun a b => cmp b a) :=
  ⟨fun a b => by rw [h.eq_iff]; exact eq_comm, fun a b => h.gt_iff b a, fun a b c h1 h2 => h.trans c b a h2 h1⟩

theorem cmpBytes_eq_iff : ∀ a b : List Nat, cmpBytes a b = 0 ↔ a = b := by
  intro a
  induction a with
  | nil => intro b; cases b <;> simp [cmpBytes]
  | cons x xs ih =>
    intro b
    cases b with
    | nil => simp [cmpBytes]
    | cons y ys =>
      simp only [cmpBytes]
      split
      · constructor <;> intro h <;> simp_all <;> omega
      · split
        · constructor <;> intro h <;> simp_all <;> omega
        · rw [ih]; have : x = y := by omega
          simp [this]

theorem cmpBytes_gt_iff : ∀ a b : List Nat, 0 < cmpBytes a b ↔ cmpBytes b a < 0 := by
  intro a
  induction a with
  | nil => intro b; cases b <;> simp [cmpBytes]
  | cons x xs ih =>
    intro b
    cases b with
    | nil => simp [cmpBytes]
    | cons y ys =>
      simp only [cmpBytes]
      repeat' split
      all_goals first | omega | exact ih ys | simp

theorem cmpBytes_trans : ∀ a b c : List Nat, cmpBytes a b < 0 → cmpBytes b c < 0 → cmpBytes a c < 0 := by
  intro a
  induction a with
  | nil => intro b c h1 h2; cases b <;> cases c <;> simp_all [cmpBytes]
  | cons x xs ih =>
    intro b c h1 h2
    cases b with
    | nil => simp [cmpBytes] at h1
    | cons y ys =>
      cases c with
      | nil => simp [cmpBytes] at h2
      | cons z zs =>
        simp only [cmpBytes] at *
        repeat' split at *
        all_goals first | omega | (exact ih ys zs h1 h2) | skip

theorem cmpBytes_total : TotalCmp cmpBytes := ⟨cmpBytes_eq_iff, cmpBytes_gt_iff, cmpBytes_trans⟩

theorem cmpLen_total : TotalCmp cmpLen := by
  refine ⟨?_, ?_, ?_⟩
  · intro a b; simp only [cmpLen]; split
    · rename_i h; constructor
      · intro h0; simp only [cmpInt] at h0; (repeat' split at h0) <;> omega
      · intro e; subst e; exact absurd rfl h
    · exact cmpBytes_eq_iff a b
  · intro a b; simp only [cmpLen, cmpInt]
    (repeat' split) <;> first | omega | exact cmpBytes_gt_iff a b
  · intro a b c; simp only [cmpLen, cmpInt]
    (repeat' split) <;> intro h1 h2 <;> first | omega | exact cmpBytes_trans a b c h1 h2

/-! ### comparators that identify distinct keys -/

theorem cmpInt_weak : WeakCmp cmpInt := cmpInt_total.toWeak

/-- Comparing by a projection with a weak order is a weak order. -/
theorem WeakCmp.proj {K J : Type} {cmp : J → J → Int} (h : WeakCmp cmp) (f : K → J) :
    WeakCmp (fun a b => cmp (f a) (f b)) :=
  ⟨fun a => h.refl (f a), fun a b => h.gt_iff (f a) (f b), fun a b c => h.le_trans (f a) (f b) (f c)⟩

theorem cmpHalf_weak : WeakCmp cmpHalf := cmpInt_weak.proj (fun a : Int => a / 2)

theorem cmpLenOnly_weak : WeakCmp cmpLenOnly := cmpInt_weak.proj (fun a : List Nat => (a.length : Int))

/-- The reverse of a weak order is a weak order. -/
theorem WeakCmp.reverse {K : Type} {cmp : K → K → Int} (h : WeakCmp cmp) : WeakCmp (fun a b => cmp b a) :=
  ⟨fun a => h.refl a, fun a b => h.gt_iff b a, fun a b c h1 h2 => h.le_trans c b a h2 h1⟩

/-- `cmpHalf` does identify distinct keys: it is not a total-order comparator. -/
theorem cmpHalf_not_total : ¬ TotalCmp cmpHalf := by
  intro h
  have := (h.eq_iff (4 : Int) 5).mp (by decide)
  omega

/-! ### comparators with arbitrary magnitudes -/

/-- A comparator that agrees in sign with a total-order comparator is one. -/
theorem TotalCmp.of_sign {K : Type} {cmp cmp' : K → K → Int} (h : TotalCmp cmp)
    (hlt : ∀ a b, cmp' a b < 0 ↔ cmp a b < 0) (hgt : ∀ a b, 0 < cmp' a b ↔ 0 < cmp a b) :
    TotalCmp cmp' := by
  refine ⟨?_, ?_, ?_⟩
  · intro a b
    rw [← h.eq_iff a b]
    have h1 := hlt a b
    have h2 := hgt a b
    constructor <;> intro h0 <;> omega
  · intro a b
    rw [hgt, hlt]; exact h.gt_iff a b
  · intro a b c h1 h2
    rw [hlt] at h1 h2 ⊢
    exact h.trans a b c h1 h2

theorem cmpDiff_total : TotalCmp cmpDiff := by
  refine ⟨?_, ?_, ?_⟩ <;> intros <;> simp only [cmpDiff] at * <;> omega

theorem cmpScaled_total : TotalCmp cmpScaled := by
  refine ⟨?_, ?_, ?_⟩ <;> intros <;> simp only [cmpScaled] at * <;> omega

theorem cmpSgnHash_total : TotalCmp cmpSgnHash := by
  refine cmpInt_total.of_sign ?_ ?_ <;> intro a b <;>
    (simp only [cmpSgnHash, cmpInt]
     (repeat' split) <;> omega)

theorem cmpBytesDiff_sign : ∀ a b : List Nat,
    (cmpBytesDiff a b < 0 ↔ cmpBytes a b < 0) ∧ (0 < cmpBytesDiff a b ↔ 0 < cmpBytes a b) := by
  intro a
  induction a with
  | nil => intro b; cases b <;> simp [cmpBytesDiff, cmpBytes]; omega
  | cons x xs ih =>
    intro b
    cases b with
    | nil => simp [cmpBytesDiff, cmpBytes]; omega
    | cons y ys =>
      simp only [cmpBytesDiff, cmpBytes]
      by_cases hxy : x = y
      · subst hxy; simp only [ne_eq, not_true_eq_false, if_false, Nat.lt_irrefl, gt_iff_lt]
        exact ih ys
      · simp only [ne_eq, hxy, not_false_eq_true, if_true, gt_iff_lt]
        (repeat' split) <;> constructor <;> constructor <;> intro h <;> omega

theorem cmpBytesDiff_total : TotalCmp cmpBytesDiff :=
  cmpBytes_total.of_sign (fun a b => (cmpBytesDiff_sign a b).1) (fun a b => (cmpBytesDiff_sign a b).2)

theorem cmpHalfDiff_weak : WeakCmp cmpHalfDiff := by
  have h : WeakCmp (fun a b : Int => 3 * (a - b)) := by
    refine ⟨?_, ?_, ?_⟩ <;> intros <;> omega
  exact h.proj (fun a : Int => a / 2)

/-! ### type matrix: float keys, struct keys, case-insensitive strings -/

theorem cmpF64_weak : WeakCmp cmpF64 := cmpInt_weak.proj (fun a : Int × Bool => a.1)

/-- `-0` and `0` are different keys that compare equal: `float64` keys need the weak-order theorems. -/
theorem cmpF64_not_total : ¬ TotalCmp cmpF64 := by
  intro h
  have := (h.eq_iff (0, true) (0, false)).mp (by decide)
  cases this

theorem cmpPairFirst_weak : WeakCmp cmpPairFirst := cmpInt_weak.proj (fun a : Int × Int => a.1)

theorem cmpPairLex_total : TotalCmp cmpPairLex := by
  refine ⟨?_, ?_, ?_⟩
  · rintro ⟨a1, a2⟩ ⟨b1, b2⟩
    simp only [cmpPairLex, cmpInt, Prod.mk.injEq]
    (repeat' split) <;> constructor <;> intro h <;> omega
  · rintro ⟨a1, a2⟩ ⟨b1, b2⟩
    simp only [cmpPairLex, cmpInt]
    (repeat' split) <;> omega
  · rintro ⟨a1, a2⟩ ⟨b1, b2⟩ ⟨c1, c2⟩
    simp only [cmpPairLex, cmpInt]
    (repeat' split) <;> intro h1 h2 <;> omega

theorem cmpFold_weak : WeakCmp cmpFold := cmpBytes_total.toWeak.proj (fun a : List Nat => a.map lowerByte)

end Golib.C02
