/-
C02 helper lemmas, part 10: the comparators the harness drives the lists with are total orders,
or (those that identify distinct keys) weak orders.
-/
import Golib.Proof.C02Chain
import Golib.Model.C02

namespace Golib.C02

theorem cmpInt_total : TotalCmp cmpInt := by
  refine ⟨?_, ?_, ?_⟩ <;> intros <;> simp only [cmpInt] at * <;> (repeat' split) <;> omega

theorem cmpMod3_total : TotalCmp cmpMod3 := by
  have e : ∀ x : Int, x.emod 3 = x % 3 := fun _ => rfl
  refine ⟨?_, ?_, ?_⟩ <;> intros <;> simp only [cmpMod3, cmpInt, e] at * <;> (repeat' split at *) <;> omega

theorem TotalCmp.reverse {K : Type} {cmp : K → K → Int} (h : TotalCmp cmp) : TotalCmp (fun a b => cmp b a) :=
  ⟨fun a b => by rw [h.eq_iff]; exact eq_comm, fun a b => h.gt_iff b a, fun a b c h1 h2 => h.trans c b a h2 h1⟩

theorem cmpBytes_eq_iff : ∀ a b : List Nat, cmpBytes a b = 0 ↔ a = b := by
  intro a
  induction a with
  | nil => intro b; cases b <;> simp [cmpBytes]
  | cons x xs ih =>
    intro b
    cases b with
    | nil => simp [cmpBytes]
    | cons y ys =>
      simp only [cmpBytes]
      split
      · constructor <;> intro h <;> simp_all <;> omega
      · split
        · constructor <;> intro h <;> simp_all <;> omega
        · rw [ih]; have : x = y := by omega
          simp [this]

theorem cmpBytes_gt_iff : ∀ a b : List Nat, 0 < cmpBytes a b ↔ cmpBytes b a < 0 := by
  intro a
  induction a with
  | nil => intro b; cases b <;> simp [cmpBytes]
  | cons x xs ih =>
    intro b
    cases b with
    | nil => simp [cmpBytes]
    | cons y ys =>
      simp only [cmpBytes]
      repeat' split
      all_goals first | omega | exact ih ys | simp

theorem cmpBytes_trans : ∀ a b c : List Nat, cmpBytes a b < 0 → cmpBytes b c < 0 → cmpBytes a c < 0 := by
  intro a
  induction a with
  | nil => intro b c h1 h2; cases b <;> cases c <;> simp_all [cmpBytes]
  | cons x xs ih =>
    intro b c h1 h2
    cases b with
    | nil => simp [cmpBytes] at h1
    | cons y ys =>
      cases c with
      | nil => simp [cmpBytes] at h2
      | cons z zs =>
        simp only [cmpBytes] at *
        repeat' split at *
        all_goals first | omega | (exact ih ys zs h1 h2) | skip

theorem cmpBytes_total : TotalCmp cmpBytes := ⟨cmpBytes_eq_iff, cmpBytes_gt_iff, cmpBytes_trans⟩

theorem cmpLen_total : TotalCmp cmpLen := by
  refine ⟨?_, ?_, ?_⟩
  · intro a b; simp only [cmpLen]; split
    · rename_i h; constructor
      · intro h0; simp only [cmpInt] at h0; (repeat' split at h0) <;> omega
      · intro e; subst e; exact absurd rfl h
    · exact cmpBytes_eq_iff a b
  · intro a b; simp only [cmpLen, cmpInt]
    (repeat' split) <;> first | omega | exact cmpBytes_gt_iff a b
  · intro a b c; simp only [cmpLen, cmpInt]
    (repeat' split) <;> intro h1 h2 <;> first | omega | exact cmpBytes_trans a b c h1 h2

/-! ### comparators that identify distinct keys -/

theorem cmpInt_weak : WeakCmp cmpInt := cmpInt_total.toWeak

/-- Comparing by a projection with a weak order is a weak order. -/
theorem WeakCmp.proj {K J : Type} {cmp : J → J → Int} (h : WeakCmp cmp) (f : K → J) :
    WeakCmp (fun a b => cmp (f a) (f b)) :=
  ⟨fun a => h.refl (f a), fun a b => h.gt_iff (f a) (f b), fun a b c => h.le_trans (f a) (f b) (f c)⟩

theorem cmpHalf_weak : WeakCmp cmpHalf := cmpInt_weak.proj (fun a : Int => a / 2)

theorem cmpLenOnly_weak : WeakCmp cmpLenOnly := cmpInt_weak.proj (fun a : List Nat => (a.length : Int))

/-- The reverse of a weak order is a weak order. -/
theorem WeakCmp.reverse {K : Type} {cmp : K → K → Int} (h : WeakCmp cmp) : WeakCmp (fun a b => cmp b a) :=
  ⟨fun a => h.refl a, fun a b => h.gt_iff b a, fun a b c h1 h2 => h.le_trans c b a h2 h1⟩

/-- `cmpHalf` does identify distinct keys: it is not a total-order comparator. -/
theorem cmpHalf_not_total : ¬ TotalCmp cmpHalf := by
  intro h
  have := (h.eq_iff (4 : Int) 5).mp (by decide)
  omega

end Golib.C02
