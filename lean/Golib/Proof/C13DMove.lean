/-
C13 helper lemmas, part 6: `MoveToBack`, `MoveBefore`, and frame facts (`val`, `fresh`, `nl`)
that hold for every primitive by computation, independent of any invariant.
-/
import Golib.Proof.C13DWalk

set_option linter.unusedSimpArgs false
set_option linter.unusedVariables false

namespace Golib.C13

/-! ### pure list facts -/

theorem getLast?_erase_ne {z e : Nat} : ∀ (L : List Nat), L.getLast? = some z → z ≠ e →
    (L.erase e).getLast? = some z := by
  intro L
  induction L with
  | nil => intro h; simp at h
  | cons x xs ih =>
    intro h hze
    by_cases hx : x = e
    · subst hx
      cases xs with
      | nil => simp at h; exact absurd h.symm hze
      | cons y ys => simpa [List.getLast?_cons_cons] using h
    · rw [List.erase_cons_tail (by simpa using hx)]
      cases xs with
      | nil => simpa using h
      | cons y ys =>
        rw [List.getLast?_cons_cons] at h
        have h2 := ih h hze
        cases hE : (y :: ys).erase e with
        | nil => rw [hE] at h2; simp at h2
        | cons u us => rw [hE] at h2; rw [List.getLast?_cons_cons]; exact h2

theorem erase_snoc_self {e : Nat} {L0 : List Nat} (h : e ∉ L0) : (L0 ++ [e]).erase e ++ [e] = L0 ++ [e] := by
  have := erase_split e L0 [] h
  simp at this ⊢
  rw [this]

theorem upd_self (A : Nat → List Nat) (l : Nat) {L : List Nat} (h : L = A l) : upd A l L = A := by
  funext k; by_cases hk : k = l <;> simp [upd, hk, h]

theorem upd_upd (A : Nat → List Nat) (l : Nat) (L L' : List Nat) : upd (upd A l L) l L' = upd A l L' := by
  funext k; by_cases hk : k = l <;> simp [upd, hk]

theorem nodup_erase_ring {l e : Nat} {L : List Nat} (nd : (l :: L).Nodup) : (l :: L.erase e).Nodup := by
  simp only [List.nodup_cons] at nd ⊢
  exact ⟨fun hh => nd.1 (List.mem_of_mem_erase hh), nd.2.erase e⟩

/-! ### `MoveToBack` -/

theorem moveToBack_spec {s : DSt} {A : Nat → List Nat} {l : Nat} (e : Nat)
    (h : GInv s A) (hl : l < s.nl) :
    (e ∉ A l → s.moveToBack l e = some s) ∧
    (e ∈ A l → ∃ s', s.moveToBack l e = some s' ∧ GInv s' (upd A l ((A l).erase e ++ [e])) ∧
      s'.val = s.val ∧ s'.fresh = s.fresh ∧ s'.nl = s.nl) := by
  have hown := (h.lists l hl).owner e
  refine ⟨fun hm => ?_, fun hm => ?_⟩
  · have : s.list.get e ≠ some l := fun hh => hm (hown.1 hh)
    simp [DSt.moveToBack, this]
  · have hr := ginv_ring_of_mem h hl hm
    have nd := (h.lists l hl).nodup
    obtain ⟨z, hz, hzm⟩ := getLast_mem_ring l (A l)
    have hat : s.prev.get l = some z := by rw [ring_prev_root hr, hz]
    have hel : e ≠ l := by intro hh; subst hh; simp at nd; exact nd.1 hm
    by_cases hlast : z = e
    · -- already at the back: the guard returns, and the spec changes nothing
      subst hlast
      have hA : (A l).erase z ++ [z] = A l := by
        rcases eq_nil_or_snoc (A l) with h0 | ⟨L0, w, h0⟩
        · rw [h0] at hm; simp at hm
        · rw [h0] at hz nd ⊢
          have : w = z := by
            rw [show l :: (L0 ++ [w]) = (l :: L0) ++ [w] by simp, List.getLast?_append] at hz
            simpa using hz
          subst this
          have hw : w ∉ L0 := by simp [List.nodup_cons, List.nodup_append] at nd; grind
          exact erase_snoc_self hw
      exact ⟨s, by simp [DSt.moveToBack, hat], by rw [upd_self A l hA]; exact h, rfl, rfl, rfl⟩
    · have hz' : (l :: (A l).erase e).getLast? = some z := by
        have := getLast?_erase_ne (e := e) (l :: A l) hz hlast
        rwa [List.erase_cons_tail (by simpa using Ne.symm hel)] at this
      have nd1 := nodup_erase_ring (e := e) nd
      have hzm1 : z ∈ l :: (A l).erase e := List.mem_of_getLast? hz'
      obtain ⟨s', r1, r2, r3⟩ := move_after_mem (a := z) h hl hm hzm1
      rw [insAfterC_last _ nd1 hz'] at r2
      refine ⟨s', ?_, r2, r3⟩
      have : ¬ (s.list.get e ≠ some l ∨ s.prev.get l = some e) := by
        simp [hown.2 hm, hat, hlast]
      simp only [DSt.moveToBack, this, if_false]
      rw [hat, r1]

/-! ### `MoveBefore` -/

theorem moveBefore_spec {s : DSt} {A : Nat → List Nat} {l : Nat} (e mark : Nat)
    (h : GInv s A) (hl : l < s.nl) :
    ((e ∉ A l ∨ e = mark ∨ mark ∉ A l) → s.moveBefore l e mark = some s) ∧
    (e ∈ A l → e ≠ mark → mark ∈ A l → ∃ s', s.moveBefore l e mark = some s' ∧
      GInv s' (upd A l (insBefore e mark ((A l).erase e))) ∧
      s'.val = s.val ∧ s'.fresh = s.fresh ∧ s'.nl = s.nl) := by
  have hown := (h.lists l hl).owner
  refine ⟨fun hm => ?_, fun he hne hm => ?_⟩
  · have : s.list.get e ≠ some l ∨ e = mark ∨ s.list.get mark ≠ some l := by
      rcases hm with h1 | h1 | h1
      · exact Or.inl fun hh => h1 ((hown e).1 hh)
      · exact Or.inr (Or.inl h1)
      · exact Or.inr (Or.inr fun hh => h1 ((hown mark).1 hh))
    simp [DSt.moveBefore, this]
  · have hg : ¬ (s.list.get e ≠ some l ∨ e = mark ∨ s.list.get mark ≠ some l) := by
      simp [(hown e).2 he, (hown mark).2 hm, hne]
    have hr := ginv_ring_of_mem h hl hm
    have nd := (h.lists l hl).nodup
    have hel : e ≠ l := by intro hh; subst hh; simp at nd; exact nd.1 he
    obtain ⟨P, Q, e1, hP⟩ := split_of_mem hm
    obtain ⟨z, hz, hzm⟩ := getLast_mem_ring l P
    have hat : s.prev.get mark = some z := by rw [ring_prev_node (e1 ▸ hr), hz]
    have nd' : (l :: (P ++ mark :: Q)).Nodup := e1 ▸ nd
    by_cases hze : z = e
    · -- `e` already sits right before `mark`: `move(e, e)` returns at once
      subst hze
      have hA : insBefore z mark ((A l).erase z) = A l := by
        rcases eq_nil_or_snoc P with h0 | ⟨P0, w, h0⟩
        · subst h0; simp at hz; exact absurd hz.symm hel
        · subst h0
          have : w = z := by
            rw [show l :: (P0 ++ [w]) = (l :: P0) ++ [w] by simp, List.getLast?_append] at hz
            simpa using hz
          subst this
          have hw : w ∉ P0 := by simp [List.nodup_cons, List.nodup_append] at nd'; grind
          have hmP0 : mark ∉ P0 := fun hh => hP (by simp [hh])
          rw [e1, show P0 ++ [w] ++ mark :: Q = P0 ++ w :: (mark :: Q) by simp,
            erase_split w P0 (mark :: Q) hw, insBefore_split w mark P0 Q hmP0]
      refine ⟨s, ?_, by rw [upd_self A l hA]; exact h, rfl, rfl, rfl⟩
      simp [DSt.moveBefore, hg, hat, DSt.move]
    · -- the predecessor of `mark` is the same with and without `e`
      have hE : ∃ P' Q', (A l).erase e = P' ++ mark :: Q' ∧ (l :: P').getLast? = some z ∧ mark ∉ P' := by
        rw [e1, List.erase_append]
        by_cases heP : e ∈ P
        · refine ⟨P.erase e, Q, by simp [heP], ?_, fun hh => hP (List.mem_of_mem_erase hh)⟩
          have := getLast?_erase_ne (e := e) (l :: P) hz hze
          rwa [List.erase_cons_tail (by simpa using Ne.symm hel)] at this
        · refine ⟨P, (mark :: Q).erase e |>.tail, ?_, hz, hP⟩
          simp only [heP, if_false]
          rw [List.erase_cons_tail (by simpa using hne.symm)]; rfl
      obtain ⟨P', Q', e2, hz2, hP2⟩ := hE
      have nd1 := nodup_erase_ring (e := e) nd
      have hzm1 : z ∈ l :: (A l).erase e := by
        have := List.mem_of_getLast? hz2
        rw [e2]; simp at this ⊢; grind
      obtain ⟨s', r1, r2, r3⟩ := move_after_mem (a := z) h hl he hzm1
      have : insAfterC l ((A l).erase e) z e = insBefore e mark ((A l).erase e) := by
        rw [e2]; exact insAfterC_pred _ (e2 ▸ nd1) hz2
      rw [this] at r2
      refine ⟨s', ?_, r2, r3⟩
      simp only [DSt.moveBefore, hg, if_false]
      rw [hat, r1]

end Golib.C13
