/-
C09, buffer level: the caller's memory is written only where the API documents it.
-/
import Golib.Model.C09Arena
import Golib.Proof.C08Arena
import Golib.Proof.C09Env

namespace Golib.C09.Arena
open Golib.C08 Golib.C08.Arena Golib.C09

def Target.isFresh : Target → Bool
  | .fresh _ => true
  | .input _ _ => false

/-- the only statements that target caller memory are the final decryption of
`SaltBySecretCBCDecrypt` / `SaltBySecretGCMDecrypt` with `reuseCipherText = true`, and they
target the ciphertext argument behind its 16-byte header -/
theorem footprint_spec (n : Nat) (e : Entry) : ∀ t ∈ footprint n e,
    t.isFresh = true ∨
    (e = .saltCBCDecrypt true ∧ t = .input 16 (n - 16)) ∨
    (e = .saltGCMDecrypt true ∧ t = .input 16 (n - 16 - 16)) := by
  cases e with
  | saltCBCDecrypt reuse => cases reuse <;> simp [footprint, fillCredWrites, Target.isFresh]
  | saltGCMDecrypt reuse => cases reuse <;> simp [footprint, fillCredWrites, Target.isFresh]
  | _ => simp [footprint, fillCredWrites, Target.isFresh]

theorem callerPart_within (m m1 : Mem) (cred : Bytes) (lo hi : Nat) (hhi : hi ≤ m.cells.length)
    (h : WritesWithin (withCred m cred) m1 lo hi) : WritesWithin m (callerPart m m1) lo hi := by
  obtain ⟨⟨new, hlog, hnew⟩, hlen, hframe⟩ := h
  refine ⟨⟨new, hlog, hnew⟩, ?_, ?_⟩
  · simp only [callerPart, List.length_take]
    rw [hlen]; simp [withCred]
  · intro i hi'
    simp only [callerPart, List.getElem?_take]
    by_cases hlt : i < m.cells.length
    · simp only [hlt, if_true]
      rw [hframe i hi']
      simp only [withCred]
      rw [List.getElem?_append_left hlt]
    · simp only [hlt, if_false]
      exact (List.getElem?_eq_none (by omega)).symm

/-- `SaltBySecretCBCDecrypt(cipherText, secret, true)`: whatever the outcome, the caller's arena is
written only inside `cipherText[16:]` — the header, the cells in front of and behind the
ciphertext (secret, other data, canaries) keep their content. -/
theorem saltCBCDecryptA_writes_within (P : Prims) (m : Mem) (ct : Win) (secret : Bytes)
    (hmd : Md5Len P.md5) (hct : ct.wf m)
    (hD : ∀ k, keyOK k = true → BlockLen (P.C.D k)) :
    WritesWithin m (saltBySecretCBCDecryptA P m ct secret).1 (ct.off + 16) (ct.off + ct.len) := by
  obtain ⟨hcc, hcm⟩ := hct
  unfold saltBySecretCBCDecryptA
  split
  · exact writesWithin_refl m _ _
  · rename_i hlen
    have hlen' : 32 ≤ ct.len := by simp only [aesBlockSize] at hlen; omega
    split
    · exact writesWithin_refl m _ _
    · rw [deriveCred_eq P.md5 hmd]
      simp only []
      generalize hcred : evp P.md5 secret (List.drop 8 (List.take aesBlockSize (m.rd ct))) = cred
      have hcl : cred.length = 48 := by rw [← hcred]; exact evp_length P.md5 hmd _ _
      generalize hbody : (Win.mk (ct.off + aesBlockSize) (ct.len - aesBlockSize) (ct.cap - aesBlockSize)) = body
      generalize hkey : (Win.mk m.cells.length keyLen credLen) = key
      generalize hiv : (Win.mk (m.cells.length + keyLen) (credLen - keyLen) (credLen - keyLen)) = iv
      have hm0l : (withCred m cred).cells.length = m.cells.length + 48 := by simp [withCred, hcl]
      have hbl : body.off = ct.off + 16 ∧ body.len = ct.len - 16 ∧ body.cap = ct.cap - 16 := by
        rw [← hbody]; simp [aesBlockSize]
      have hbw : body.wf (withCred m cred) := by
        simp only [Win.wf, hm0l]; omega
      have hbr : body.off + body.len ≤ (withCred m cred).cells.length := by
        simp only [hm0l]; omega
      have hw0 := cbcDecryptA_writes_within_dst P.C (withCred m cred) body body key iv hbw hbr (fun hk => hD _ hk)
      have hw : WritesWithin (withCred m cred) (aesCBCDecryptA P.C (withCred m cred) body body key iv).1
          (ct.off + 16) (ct.off + ct.len) := by
        have e1 : body.off = ct.off + 16 := hbl.1
        have e2 : body.off + body.len = ct.off + ct.len := by omega
        rw [e2, e1] at hw0; exact hw0
      have hfin := callerPart_within m _ cred _ _ (by omega) hw
      generalize aesCBCDecryptA P.C (withCred m cred) body body key iv = res at hfin ⊢
      obtain ⟨m1, r⟩ := res
      cases r <;> exact hfin

/-- `SaltBySecretGCMDecrypt(cipherText, secret, additionalData, true)`: the caller's arena is
written only inside `cipherText[16 : len−16]` (plaintext, or zeros after a failed authentication). -/
theorem saltGCMDecryptA_writes_within (P : Prims) (m : Mem) (ct ad : Win) (secret : Bytes)
    (hmd : Md5Len P.md5) (hct : ct.wf m)
    (hopenlen : ∀ k, keyOK k = true → ∀ n c a p, P.A.openF k n c a = some p → c.length = p.length + 16) :
    WritesWithin m (saltBySecretGCMDecryptA P m ct secret ad).1 (ct.off + 16) (ct.off + ct.len) := by
  obtain ⟨hcc, hcm⟩ := hct
  unfold saltBySecretGCMDecryptA
  split
  · exact writesWithin_refl m _ _
  · rename_i hlen
    have hlen' : 16 ≤ ct.len := by simp only [aesBlockSize] at hlen; omega
    split
    · exact writesWithin_refl m _ _
    · rw [deriveCred_eq P.md5 hmd]
      simp only []
      generalize hcred : evp P.md5 secret (List.drop 8 (List.take aesBlockSize (m.rd ct))) = cred
      have hcl : cred.length = 48 := by rw [← hcred]; exact evp_length P.md5 hmd _ _
      generalize hbody : (Win.mk (ct.off + aesBlockSize) (ct.len - aesBlockSize) (ct.cap - aesBlockSize)) = body
      generalize hkey : (Win.mk m.cells.length keyLen credLen) = key
      generalize hn : (Win.mk (m.cells.length + keyLen) nonceSize (credLen - keyLen)) = nonce
      have hm0l : (withCred m cred).cells.length = m.cells.length + 48 := by simp [withCred, hcl]
      have hbl : body.off = ct.off + 16 ∧ body.len = ct.len - 16 ∧ body.cap = ct.cap - 16 := by
        rw [← hbody]; simp [aesBlockSize]
      -- `Open` writes `len(body) − 16` cells at the start of `body`: use the window of that size
      generalize hdst : (Win.mk body.off (body.len - 16) body.cap) = dst
      have hsame : aesGCMDecryptA P.A (withCred m cred) body body key nonce ad =
          aesGCMDecryptA P.A (withCred m cred) dst body key nonce ad := by
        rw [← hdst]; rfl
      have hdw : dst.wf (withCred m cred) := by
        rw [← hdst]; simp only [Win.wf, hm0l]; omega
      have hbr : body.off + body.len ≤ (withCred m cred).cells.length := by
        simp only [hm0l]; omega
      have hw := gcmDecryptA_writes_within_dst P.A (withCred m cred) dst body key nonce ad hdw hbr (fun hk => hopenlen _ hk)
        (by rw [← hdst]; simp only [gcmTagSize]; omega)
      have hw' : WritesWithin (withCred m cred) (aesGCMDecryptA P.A (withCred m cred) body body key nonce ad).1
          (ct.off + 16) (ct.off + ct.len) := by
        rw [hsame]
        obtain ⟨⟨new, hl, hn'⟩, hlen2, hfr⟩ := hw
        have hd : dst.off = ct.off + 16 ∧ dst.off + dst.len ≤ ct.off + ct.len := by
          rw [← hdst]; simp only []; omega
        refine ⟨⟨new, hl, fun r hr => ?_⟩, hlen2, fun i hi => hfr i (by omega)⟩
        have := hn' r hr
        omega
      have hfin := callerPart_within m _ cred _ _ (by omega) hw'
      generalize aesGCMDecryptA P.A (withCred m cred) body body key nonce ad = res at hfin ⊢
      obtain ⟨m1, r⟩ := res
      cases r with
      | ok u => cases u; exact hfin
      | err e => exact hfin
      | panic => exact hfin

end Golib.C09.Arena
