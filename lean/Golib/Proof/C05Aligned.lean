/-
C05 helper lemmas: the exact characterisation of `find` for ARBITRARY byte patterns.

`find` works on the decoded text, so it reports an occurrence of a pattern exactly when the
occurrence is *aligned* with the decoding of the text (`Aligned`): the steps of the text
are the steps of the pattern framed by steps that consume exactly the bytes before it.
Occurrences of valid-UTF-8 patterns are always aligned (`decodeAll_occurrence`); an
occurrence of a pattern with invalid bytes need not be (pattern `E4` inside `E4 BD A0` = 你:
the text is one step, the pattern is the private rune of the lone byte `E4`).
-/
import Golib.Proof.C05Exact

set_option linter.unusedSimpArgs false
set_option linter.unusedVariables false

namespace Golib.C05
open Golib

/-- The occurrence of `p` in `A ++ p ++ B` is aligned with the decoding of the text. -/
def Aligned (A p B : List Nat) : Prop :=
  ∃ X Y, decodeAll (A ++ p ++ B) = X ++ decodeAll p ++ Y ∧ (X.map (·.2)).sum = A.length

/-- Occurrences of non-empty valid-UTF-8 strings in arbitrary bytes are aligned. -/
theorem aligned_of_valid (A p B : List Nat) (hb : Bytes (A ++ p ++ B)) (hv : ValidUtf8 p) (hne : p ≠ []) :
    Aligned A p B := decodeAll_occurrence A p B hb hv hne

/-- Well-formed step lists are determined by their runes. -/
theorem steps_eq_of_lab : ∀ (a b : List Step), StepsWF a → StepsWF b → lab a = lab b → a = b := by
  intro a
  induction a with
  | nil =>
    intro b _ _ h
    cases b with
    | nil => rfl
    | cons _ _ => simp [lab] at h
  | cons st a ih =>
    intro b ha hb h
    cases b with
    | nil => simp [lab] at h
    | cons st' b =>
      obtain ⟨r, w⟩ := st
      obtain ⟨r', w'⟩ := st'
      simp only [lab, List.map_cons, List.cons.injEq] at h
      obtain ⟨hr, hrest⟩ := h
      have h1 := (ha (r, w) (by simp)).1
      have h2 := (hb (r', w') (by simp)).1
      simp only [] at h1 h2 hr
      subst hr
      have hw : w = w' := by rw [h1, h2]
      subst hw
      rw [ih b (fun s hs => ha s (by simp [hs])) (fun s hs => hb s (by simp [hs])) hrest]

/-- Every aligned occurrence of an inserted non-empty pattern (arbitrary bytes) is reported. -/
theorem find_complete_aligned (pats : List (List Nat)) (hp : ∀ p ∈ pats, Bytes p)
    (A p B : List Nat) (hpm : p ∈ pats) (hne : p ≠ []) (hal : Aligned A p B) (hb : Bytes (A ++ p ++ B)) :
    (⟨(A.length : Int), ((A.length + p.length : Nat) : Int)⟩ : Scope)
      ∈ findSpec (decodedPats pats) (decodeAll (A ++ p ++ B)) [] 0 := by
  obtain ⟨X, Y, hdec, hX⟩ := hal
  have hpb := hp p hpm
  have hdne : decodeAll p ≠ [] := fun h => hne ((decodeAll_eq_nil_iff p).1 h)
  rcases List.eq_nil_or_concat (decodeAll p) with h | ⟨M, last, hM⟩
  · exact absurd h hdne
  · obtain ⟨r, sz⟩ := last
    rw [List.concat_eq_append] at hM
    have hsteps : decodeAll (A ++ p ++ B) = (X ++ M) ++ (r, sz) :: Y := by
      rw [hdec, hM]; simp
    have hm : lab (decodeAll p) ∈ neTails ([] ++ lab (X ++ M) ++ [r]) := by
      rw [mem_neTails]
      refine ⟨by rw [hM]; simp [lab], ?_⟩
      rw [hM]
      exact ⟨lab X, by simp [lab]⟩
    have hend : isEnd (decodedPats pats) (lab (decodeAll p)) = true := by
      refine (isEnd_decodedPats pats _ ?_).2 ⟨p, hpm, rfl⟩
      rw [hM]; simp [lab]
    have := findSpec_complete (decodedPats pats) (X ++ M) r sz Y [] 0 _ hm hend
    rw [← hsteps] at this
    have hsz : sizeOf (decodedPats pats) (lab (decodeAll p)) = p.length := by
      rw [sizeOf_eq _ (decodedPats_wf pats hp) _ (isEnd_isNode hend) (by rw [hM]; simp [lab]),
        decodeAll_encode p hpb]
    have hw : ((X ++ M).map (·.2)).sum + sz = A.length + p.length := by
      have h1 := decodeAll_widths p hpb
      rw [hM] at h1
      simp only [List.map_append, List.sum_append, List.map_cons, List.map_nil, List.sum_cons,
        List.sum_nil] at h1 ⊢
      omega
    rw [hsz] at this
    have e1 : (0 + ((X ++ M).map (·.2)).sum + sz : Nat) = A.length + p.length := by omega
    rw [e1] at this
    have e2 : ((A.length + p.length : Nat) : Int) - (p.length : Int) = (A.length : Int) := by omega
    rw [e2] at this
    exact this

/-- Every reported scope is an aligned occurrence of an inserted non-empty pattern. -/
theorem find_sound_aligned (pats : List (List Nat)) (text : List Nat) (hp : ∀ p ∈ pats, Bytes p)
    (ht : Bytes text) (s : Scope) (hs : s ∈ findSpec (decodedPats pats) (decodeAll text) [] 0) :
    ∃ A p B, text = A ++ p ++ B ∧ p ∈ pats ∧ p ≠ [] ∧ Aligned A p B ∧
      s = ⟨(A.length : Int), ((A.length + p.length : Nat) : Int)⟩ := by
  have hwf := decodedPats_wf pats hp
  have htw := decodeAll_wf text ht
  obtain ⟨u, m, w, e1, e2, e3, e4, e5, _⟩ := findSpec_mem _ hwf _ [] 0 htw rfl s hs
  rw [List.nil_append] at e1
  obtain ⟨p, hpm, hpl⟩ := (isEnd_decodedPats pats m e2).1 e3
  have hpe : encodeLabel m = p := by rw [← hpl, decodeAll_encode p (hp p hpm)]
  have htext : text = encodeLabel u ++ p ++ encodeLabel w := by
    rw [← hpe, ← encodeLabel_append, ← encodeLabel_append, ← e1, decodeAll_encode text ht]
  -- split the steps of the text along `u ++ m ++ w`
  have e1' : (decodeAll text).map (·.1) = (u ++ m) ++ w := e1
  obtain ⟨XM, Y, hD, hXM, hY⟩ := List.map_eq_append_iff.1 e1'
  obtain ⟨X, M, hXMs, hXu, hMm⟩ := List.map_eq_append_iff.1 hXM
  have hXwf : StepsWF X := fun st hst => htw st (by rw [hD, hXMs]; simp [hst])
  have hMwf : StepsWF M := fun st hst => htw st (by rw [hD, hXMs]; simp [hst])
  have hMp : M = decodeAll p :=
    steps_eq_of_lab M (decodeAll p) hMwf (decodeAll_wf p (hp p hpm)) (by rw [hpl]; exact hMm)
  have hpne : p ≠ [] := by
    intro h
    rw [h, decodeAll_nil] at hpl
    exact e2 (by simpa [lab] using hpl.symm)
  refine ⟨encodeLabel u, p, encodeLabel w, htext, hpm, hpne, ?_, ?_⟩
  · refine ⟨X, Y, ?_, ?_⟩
    · rw [← htext, hD, hXMs, hMp]
    · rw [hXwf.widths]
      have : lab X = u := hXu
      rw [this]
  · cases s
    simp only [Scope.mk.injEq]
    simp only [] at e4 e5
    refine ⟨e4, ?_⟩
    rw [e5, hpe]

/-- `find` reports exactly the aligned occurrences. -/
theorem find_iff_aligned (pats : List (List Nat)) (text : List Nat) (hp : ∀ p ∈ pats, Bytes p)
    (ht : Bytes text) (s : Scope) :
    s ∈ findSpec (decodedPats pats) (decodeAll text) [] 0 ↔
      ∃ A p B, text = A ++ p ++ B ∧ p ∈ pats ∧ p ≠ [] ∧ Aligned A p B ∧
        s = ⟨(A.length : Int), ((A.length + p.length : Nat) : Int)⟩ := by
  constructor
  · exact find_sound_aligned pats text hp ht s
  · rintro ⟨A, p, B, htext, hpm, hne, hal, rfl⟩
    rw [htext]
    exact find_complete_aligned pats hp A p B hpm hne hal (htext ▸ ht)

end Golib.C05
