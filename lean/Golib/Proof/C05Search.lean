/-
C05 helper lemmas for PrefixSearch / FuzzySearch: the two key walks.
-/
import Golib.Proof.C05Exact
import Golib.Proof.C05Dfs

set_option linter.unusedSimpArgs false
set_option linter.unusedVariables false

namespace Golib.C05
open Golib

/-- `PrefixSearch`'s walk from the root: reaches the node labelled by the key's runes, or
reports `nil` when that is not a node; never panics. -/
theorem descend_spec (t : Trie) : ∀ (steps : List Step) (node : Label), IsNode t.pats node →
    (IsNode t.pats (node ++ lab steps) ∧ descend t steps node = some (some (node ++ lab steps))) ∨
    (¬ IsNode t.pats (node ++ lab steps) ∧ descend t steps node = some none) := by
  intro steps
  induction steps with
  | nil => intro node hn; left; simpa [descend, lab] using hn
  | cons st rest ih =>
    intro node hn
    obtain ⟨v, sz⟩ := st
    obtain ⟨cs, hc⟩ := children_exists t.pats node
    have hc' : t.children node = some cs := hc
    have hl : node ++ lab ((v, sz) :: rest) = (node ++ [v]) ++ lab rest := by simp [lab]
    simp only [descend, hc']
    rcases index_children hc' v with ⟨i, h1, h2, h3⟩ | ⟨h1, h3⟩
    · simp only [h1, h2]
      rw [hl]; exact ih (node ++ [v]) h3
    · simp only [h1]
      right
      refine ⟨fun h => h3 ?_, by trivial⟩
      rw [hl] at h; exact h.prefix

/-- `FuzzySearch`'s walk: follows the automaton; returns `nil` as soon as a rune has no
transition even from the root, otherwise ends in the longest suffix of the key's runes
that is a node. -/
theorem fuzzyDescend_spec (t : Trie) (hF : FailOK t) : ∀ (steps : List Step) (seen : Label),
    fuzzyDescend t steps (lns t.pats seen) = some none ∨
    fuzzyDescend t steps (lns t.pats seen) = some (some (lns t.pats (seen ++ lab steps))) := by
  intro steps
  induction steps with
  | nil => intro seen; right; simp [fuzzyDescend, lab]
  | cons st rest ih =>
    intro seen
    obtain ⟨r, sz⟩ := st
    have hstate := lns_snoc t.pats seen r
    have hl : seen ++ lab ((r, sz) :: rest) = (seen ++ [r]) ++ lab rest := by simp [lab]
    simp only [fuzzyDescend]
    rcases fallback_spec t hF (lns t.pats seen) r (lns_isNode _ _) with ⟨m, idx, h1, h2, h3⟩ | ⟨h1, h2⟩
    · simp only [h1, h2]
      rw [← hstate, hl]; exact ih (seen ++ [r])
    · simp only [h1]; left; trivial

/-! ### facts about a built trie used by both searches -/

theorem decodeAll_runeWidth (bs : List Nat) (hb : Bytes bs) :
    ∀ st ∈ decodeAll bs, runeWidth st.1 = ((writeRune st.1).length : Int) := by
  revert hb
  apply decode_induction (P := fun bs => ∀ st ∈ decodeAll bs, runeWidth st.1 = ((writeRune st.1).length : Int))
  · intro st hst; simp [decodeAll_nil] at hst
  · intro b rest hb ih st hst
    rw [decodeAll_cons b rest hb, List.mem_cons] at hst
    rcases hst with rfl | hst
    · obtain ⟨h1, h2, h3, h4⟩ := decodeStep_spec b rest hb
      rw [h4, h3, List.length_take]; omega
    · exact ih st hst

theorem decodedPats_runeWidth (pats : List (List Nat)) (hp : ∀ p ∈ pats, Bytes p) :
    ∀ p ∈ decodedPats pats, ∀ st ∈ p, runeWidth st.1 = ((writeRune st.1).length : Int) := by
  intro p hpm
  simp only [decodedPats, List.mem_filter, List.mem_map] at hpm
  obtain ⟨⟨q, hq, rfl⟩, _⟩ := hpm
  exact decodeAll_runeWidth q (hp q hq)

/-- The bytes of a pattern-end label are the inserted pattern. -/
theorem isEnd_encode (pats : List (List Nat)) (hp : ∀ p ∈ pats, Bytes p) (m : Label)
    (h : isEnd (decodedPats pats) m = true) :
    encodeLabel m ∈ pats ∧ encodeLabel m ≠ [] ∧ lab (decodeAll (encodeLabel m)) = m := by
  obtain ⟨p, hpm, hl⟩ := (isEnd_iff _ _).1 h
  simp only [decodedPats, List.mem_filter, List.mem_map] at hpm
  obtain ⟨⟨q, hq, rfl⟩, hne⟩ := hpm
  have he : encodeLabel m = q := by rw [← hl, decodeAll_encode q (hp q hq)]
  rw [he]
  refine ⟨hq, ?_, hl⟩
  intro hnil; subst hnil; simp [decodeAll_nil] at hne

theorem isEnd_of_mem (pats : List (List Nat)) (w : List Nat) (hw : w ∈ pats) (hne : w ≠ []) :
    isEnd (decodedPats pats) (lab (decodeAll w)) = true := by
  refine (isEnd_iff _ _).2 ⟨decodeAll w, ?_, rfl⟩
  simp only [decodedPats, List.mem_filter, List.mem_map]
  refine ⟨⟨w, hw, rfl⟩, ?_⟩
  cases hd : decodeAll w with
  | nil => exact absurd ((decodeAll_eq_nil_iff w).1 hd) hne
  | cons a l => rfl

theorem encode_rel {k m : Label} (h : k <+: m) :
    encodeLabel k ++ (m.drop k.length).flatMap writeRune = encodeLabel m := by
  obtain ⟨u, rfl⟩ := h
  simp [encodeLabel]

/-! ### PrefixSearch -/

/-- `PrefixSearch(key)` on a built trie: no panic; the result has no duplicates and consists
of exactly the inserted non-empty patterns whose rune sequence starts with the key's. -/
theorem prefixSearch_spec (pats : List (List Nat)) (hp : ∀ p ∈ pats, Bytes p) (key : List Nat)
    (hk : Bytes key) (t : Trie) (hbuilt : Trie.ofPatterns pats = some t) :
    ∃ res, t.prefixSearch key = some res ∧ res.Nodup ∧
      ∀ w, w ∈ res ↔ (w ∈ pats ∧ w ≠ [] ∧ lab (decodeAll key) <+: lab (decodeAll w)) := by
  obtain ⟨t', h1, h2, h3⟩ := ofPatterns_spec pats
  rw [hbuilt] at h1; cases h1
  have hkey := decodeAll_encode key hk
  generalize hkdef : lab (decodeAll key) = k at hkey
  have hdesc := descend_spec t (decodeAll key) [] (isNode_nil _)
  simp only [List.nil_append, hkdef] at hdesc
  have hmain : ∀ w, (w ∈ pats ∧ w ≠ [] ∧ k <+: lab (decodeAll w)) ↔
      ∃ m, isEnd t.pats m = true ∧ k <+: m ∧ encodeLabel m = w := by
    intro w
    constructor
    · rintro ⟨hw, hne, hpre⟩
      exact ⟨_, by rw [h2]; exact isEnd_of_mem pats w hw hne, hpre, decodeAll_encode w (hp w hw)⟩
    · rintro ⟨m, hm, hpre, rfl⟩
      rw [h2] at hm
      obtain ⟨e1, e2, e3⟩ := isEnd_encode pats hp m hm
      exact ⟨e1, e2, by rw [e3]; exact hpre⟩
  rcases hdesc with ⟨hnode, hd⟩ | ⟨hnode, hd⟩
  · -- the key leads to node k
    obtain ⟨cs, hcs⟩ := children_exists t.pats k
    have hcs' : t.children k = some cs := hcs
    have hw' : ∀ p ∈ t.pats, ∀ st ∈ p, runeWidth st.1 = ((writeRune st.1).length : Int) := by
      rw [h2]; exact decodedPats_runeWidth pats hp
    obtain ⟨ms, hdfs, hnd, hmem⟩ := dfsLoop_spec t runeWidth writeRune hw' k hnode cs hcs' key
      (if isEnd t.pats k = true then [key] else [])
    -- the list of end labels at or below k, in visiting order
    let L : List Label := (if isEnd t.pats k = true then [k] else []) ++ ms.filter (isEnd t.pats)
    have hres : t.prefixSearch key = some (L.map encodeLabel) := by
      have hmap : (if isEnd t.pats k = true then [key] else []) ++
          (ms.filter (isEnd t.pats)).map (fun m => key ++ (m.drop k.length).flatMap writeRune)
          = L.map encodeLabel := by
        simp only [L, List.map_append]
        congr 1
        · split <;> simp [hkey]
        · apply List.map_congr_left
          intro m hm
          have := ((hmem m).1 (List.mem_filter.1 hm).1).2.1
          rw [← hkey]; exact encode_rel this
      simp only [Trie.prefixSearch, prefixSearchWith]
      have hd' : descend t (decodeAllWith decodeStep key) [] = some (some k) := hd
      simp only [hd', hcs']
      cases cs with
      | nil =>
        have : dfsLoop t runeWidth writeRune (nodeBound t.pats + 1) (pushFrames k 0 [] []) key
            (if isEnd t.pats k = true then [key] else []) = some (if isEnd t.pats k = true then [key] else []) := rfl
        rw [this] at hdfs
        have hdfs' := Option.some.inj hdfs
        rw [hmap] at hdfs'
        rw [← hdfs']
        cases he : isEnd t.pats k <;> simp
      | cons c cs =>
        simp only []
        rw [← hmap, ← hdfs]
    have hLmem : ∀ m, m ∈ L ↔ (isEnd t.pats m = true ∧ k <+: m) := by
      intro m
      simp only [L, List.mem_append, List.mem_filter, hmem m]
      constructor
      · rintro (h | ⟨⟨_, h2, _⟩, h3⟩)
        · split at h
          · simp only [List.mem_singleton] at h; subst h; exact ⟨by assumption, List.prefix_refl _⟩
          · simp at h
        · exact ⟨h3, h2⟩
      · rintro ⟨h1, h2⟩
        by_cases hmk : m = k
        · subst hmk; left; simp [h1]
        · right; exact ⟨⟨isEnd_isNode h1, h2, hmk⟩, h1⟩
    have hLnd : L.Nodup := by
      simp only [L, List.nodup_append]
      refine ⟨by split <;> simp, hnd.sublist List.filter_sublist, ?_⟩
      intro a ha b hb hab
      split at ha
      · simp only [List.mem_singleton] at ha; subst ha; subst hab
        exact ((hmem a).1 (List.mem_filter.1 hb).1).2.2 rfl
      · simp at ha
    refine ⟨L.map encodeLabel, hres, ?_, ?_⟩
    · rw [List.nodup_iff_pairwise_ne, List.pairwise_map]
      refine List.Pairwise.imp_of_mem ?_ (List.nodup_iff_pairwise_ne.1 hLnd)
      intro a b ha hb hab heq
      have ea := ((hLmem a).1 ha).1
      have eb := ((hLmem b).1 hb).1
      rw [h2] at ea eb
      have := (isEnd_encode pats hp a ea).2.2
      rw [heq, (isEnd_encode pats hp b eb).2.2] at this
      exact hab this.symm
    · intro w
      rw [hmain w]
      simp only [List.mem_map, hLmem]
      constructor
      · rintro ⟨m, ⟨h1, h2⟩, h3⟩; exact ⟨m, h1, h2, h3⟩
      · rintro ⟨m, h1, h2, h3⟩; exact ⟨m, ⟨h1, h2⟩, h3⟩
  · -- the key leaves the trie
    refine ⟨[], ?_, by simp, ?_⟩
    · simp only [Trie.prefixSearch, prefixSearchWith]
      have hd' : descend t (decodeAllWith decodeStep key) [] = some none := hd
      simp only [hd']
    · intro w
      rw [hmain w]
      simp only [List.not_mem_nil, false_iff, not_exists, not_and]
      intro m hm hpre _
      obtain ⟨u, rfl⟩ := hpre
      exact hnode (isEnd_isNode hm).prefix

/-- Bytes versus runes: a byte prefix that is valid UTF-8 is a rune prefix, and a rune prefix
is always a byte prefix. -/
theorem prefix_bytes_iff (key w : List Nat) (hk : Bytes key) (hw : Bytes w) :
    (lab (decodeAll key) <+: lab (decodeAll w) → key <+: w) ∧
    (ValidUtf8 key → key <+: w → lab (decodeAll key) <+: lab (decodeAll w)) := by
  constructor
  · rintro ⟨u, hu⟩
    refine ⟨encodeLabel u, ?_⟩
    rw [← decodeAll_encode key hk, ← encodeLabel_append, hu, decodeAll_encode w hw]
  · rintro hv ⟨B, rfl⟩
    rw [decodeAll_append_valid key B hw hv]
    exact ⟨lab (decodeAll B), by simp [lab]⟩

/-! ### FuzzySearch -/

/-- `key[len(key)-node.size:]` for a non-root node that is a suffix of the key's runes: the
bytes of the node's label; no panic. -/
theorem key_suffix (ps : List (List Step)) (hwf : ∀ p ∈ ps, StepsWF p) (key : List Nat) (hk : Bytes key)
    (node : Label) (hn : IsNode ps node) (hne : node ≠ []) (hs : node <:+ lab (decodeAll key)) :
    sliceInt? key ((key.length : Int) - sizeOf ps node) key.length = some (encodeLabel node) := by
  obtain ⟨u, hu⟩ := hs
  have hkey : key = encodeLabel u ++ encodeLabel node ++ [] := by
    rw [List.append_nil, ← encodeLabel_append, hu, decodeAll_encode key hk]
  rw [sizeOf_eq ps hwf node hn hne]
  have h := sliceInt?_mid (encodeLabel u) (encodeLabel node) []
  rw [← hkey] at h
  have e1 : (key.length : Int) - ((encodeLabel node).length : Int) = ((encodeLabel u).length : Int) := by
    have := congrArg List.length hkey
    simp only [List.length_append, List.length_nil] at this; omega
  have e2 : (key.length : Int) = (((encodeLabel u).length + (encodeLabel node).length : Nat) : Int) := by
    have := congrArg List.length hkey
    simp only [List.length_append, List.length_nil] at this; omega
  rw [e1]
  conv => lhs; rw [e2]
  exact h

theorem fuzzyOuter_sound (pats : List (List Nat)) (hp : ∀ p ∈ pats, Bytes p) (key : List Nat)
    (hk : Bytes key) (t : Trie) (h2 : t.pats = decodedPats pats) (hF : FailOK t) :
    ∀ (fuel : Nat) (node : Label) (ret : List (List Nat)), node.length < fuel → IsNode t.pats node →
      node <:+ lab (decodeAll key) → (∀ w ∈ ret, w ∈ pats) →
      ∃ res, fuzzyOuter t runeWidth writeRune key fuel node ret = some res ∧ ∀ w ∈ res, w ∈ pats := by
  intro fuel
  induction fuel with
  | zero => intro node _ h; omega
  | succ fuel ih =>
    intro node ret hlen hnode hsuf hret
    by_cases hroot : node = []
    · subst hroot
      exact ⟨ret, by simp [fuzzyOuter], hret⟩
    · have hwf : ∀ p ∈ t.pats, StepsWF p := by rw [h2]; exact decodedPats_wf pats hp
      have hw' : ∀ p ∈ t.pats, ∀ st ∈ p, runeWidth st.1 = ((writeRune st.1).length : Int) := by
        rw [h2]; exact decodedPats_runeWidth pats hp
      obtain ⟨cs, hcs⟩ := children_exists t.pats node
      have hcs' : t.children node = some cs := hcs
      have hslice := key_suffix t.pats hwf key hk node hnode hroot hsuf
      let ret1 := if isEnd t.pats node = true then ret ++ [encodeLabel node] else ret
      have hret1 : ∀ w ∈ ret1, w ∈ pats := by
        intro w hw
        simp only [ret1] at hw
        split at hw
        · rename_i he
          rcases List.mem_append.1 hw with h | h
          · exact hret w h
          · simp only [List.mem_singleton] at h; subst h
            rw [h2] at he; exact (isEnd_encode pats hp node he).1
        · exact hret w hw
      obtain ⟨ms, hdfs, _, hmem⟩ := dfsLoop_spec t runeWidth writeRune hw' node hnode cs hcs'
        (encodeLabel node) ret1
      have hret2 : ∀ w ∈ ret1 ++ (ms.filter (isEnd t.pats)).map
          (fun m => encodeLabel node ++ (m.drop node.length).flatMap writeRune), w ∈ pats := by
        intro w hw
        rcases List.mem_append.1 hw with h | h
        · exact hret1 w h
        · simp only [List.mem_map, List.mem_filter] at h
          obtain ⟨m, ⟨hm1, hm2⟩, rfl⟩ := h
          rw [encode_rel ((hmem m).1 hm1).2.1]
          rw [h2] at hm2; exact (isEnd_encode pats hp m hm2).1
      have hfail := hF node hnode hroot
      obtain ⟨res, hres, hall⟩ := ih (lps t.pats node) _ (by have := lps_length_lt t.pats node hroot; omega)
        (lps_isNode _ _) ((lps_suffix _ _).trans hsuf) hret2
      refine ⟨res, ?_, hall⟩
      simp only [fuzzyOuter, ne_eq, hroot, not_false_eq_true, if_true, hslice, hcs', hfail]
      simp only [ret1] at hdfs
      rw [hdfs]
      exact hres

/-- `FuzzySearch(key)` on a built trie: no panic, and every returned string is an inserted
pattern. -/
theorem fuzzySearch_sound (pats : List (List Nat)) (hp : ∀ p ∈ pats, Bytes p) (key : List Nat)
    (hk : Bytes key) (t : Trie) (hbuilt : Trie.ofPatterns pats = some t) :
    ∃ res, t.fuzzySearch key = some res ∧ ∀ w ∈ res, w ∈ pats := by
  by_cases hempty : key.isEmpty = true
  · obtain ⟨res, h1, _, h3⟩ := prefixSearch_spec pats hp key hk t hbuilt
    refine ⟨res, ?_, fun w hw => ((h3 w).1 hw).1⟩
    simp only [Trie.fuzzySearch, fuzzySearchWith, hempty, if_true]
    exact h1
  · obtain ⟨t', h1, h2, h3⟩ := ofPatterns_spec pats
    rw [hbuilt] at h1; cases h1
    have hwf : ∀ p ∈ t.pats, StepsWF p := by rw [h2]; exact decodedPats_wf pats hp
    simp only [Trie.fuzzySearch, fuzzySearchWith, hempty]
    have hdesc := fuzzyDescend_spec t h3 (decodeAll key) []
    simp only [lns, List.nil_append] at hdesc
    rcases hdesc with hd | hd
    · have hd' : fuzzyDescend t (decodeAllWith decodeStep key) [] = some none := hd
      exact ⟨[], by simp [hd'], by simp⟩
    · have hd' : fuzzyDescend t (decodeAllWith decodeStep key) [] =
          some (some (lns t.pats (lab (decodeAll key)))) := hd
      generalize hnd : lns t.pats (lab (decodeAll key)) = node at hd'
      have hnode : IsNode t.pats node := hnd ▸ lns_isNode _ _
      have hsuf : node <:+ lab (decodeAll key) := hnd ▸ lns_suffix _ _
      obtain ⟨cs, hcs⟩ := children_exists t.pats node
      have hcs' : t.children node = some cs := hcs
      simp only [Bool.false_eq_true, if_false, hd', hcs']
      by_cases hearly : cs.isEmpty = true ∧ t.failOf node = some []
      · simp only [hearly, and_self, if_true]
        by_cases he : isEnd t.pats node = true
        · simp only [he, if_true]
          have hroot : node ≠ [] := by
            intro h; subst h
            obtain ⟨p, hpm, hl⟩ := (isEnd_iff _ _).1 he
            rw [h2] at hpm
            simp only [decodedPats, List.mem_filter] at hpm
            cases p with
            | nil => simp at hpm
            | cons a l => simp [lab] at hl
          rw [key_suffix t.pats hwf key hk node hnode hroot hsuf]
          refine ⟨[encodeLabel node], rfl, ?_⟩
          intro w hw
          simp only [List.mem_singleton] at hw; subst hw
          rw [h2] at he; exact (isEnd_encode pats hp node he).1
        · simp only [he]
          exact ⟨[], rfl, by simp⟩
      · simp only [hearly, if_false]
        exact fuzzyOuter_sound pats hp key hk t h2 h3 (node.length + 1) node [] (by omega) hnode hsuf
          (by simp)

end Golib.C05
