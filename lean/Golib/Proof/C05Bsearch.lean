/-
C05 helper lemmas: the two binary searches (`index`, `findChildIndex`) over a strictly
increasing child array, the sorted insertion of `Insert`, and the child array of a node.
-/
import Golib.Model.C05Trie

set_option linter.unusedSimpArgs false
set_option linter.unusedVariables false

namespace Golib.C05
open Golib

/-- The child array of a node: strictly increasing runes. -/
def StrictSorted (cs : List Int) : Prop := cs.Pairwise (· < ·)

theorem StrictSorted.lt_of_lt {cs : List Int} (h : StrictSorted cs) {i j : Nat} {a b : Int}
    (hi : cs[i]? = some a) (hj : cs[j]? = some b) (hij : i < j) : a < b := by
  have := List.pairwise_iff_getElem.1 h i j (by
    have := List.getElem?_eq_some_iff.1 hi; exact this.1) (by
    have := List.getElem?_eq_some_iff.1 hj; exact this.1) hij
  obtain ⟨_, rfl⟩ := List.getElem?_eq_some_iff.1 hi
  obtain ⟨_, rfl⟩ := List.getElem?_eq_some_iff.1 hj
  exact this

/-! ### index -/

theorem indexLoop_spec (cs : List Int) (val : Int) (hs : StrictSorted cs) :
    ∀ (fuel low high : Nat), high ≤ cs.length → high - low < fuel →
      (∀ j a, j < low → cs[j]? = some a → a < val) →
      (∀ j a, high ≤ j → cs[j]? = some a → val < a) →
      (∃ i, indexLoop cs val fuel low high = some (some i) ∧ cs[i]? = some val) ∨
      (indexLoop cs val fuel low high = some none ∧ val ∉ cs) := by
  intro fuel
  induction fuel with
  | zero => intro low high _ h; omega
  | succ fuel ih =>
    intro low high hh hf hlo hhi
    simp only [indexLoop]
    by_cases hlt : low < high
    · simp only [hlt, if_true]
      have hmid : (low + high) / 2 < cs.length := by omega
      obtain ⟨c, hc⟩ : ∃ c, cs[(low + high) / 2]? = some c := ⟨cs[(low + high) / 2], by simp [hmid]⟩
      simp only [hc]
      by_cases heq : c = val
      · simp only [heq, if_true]
        exact Or.inl ⟨_, rfl, by rw [hc, heq]⟩
      · simp only [heq, if_false]
        by_cases hcl : c < val
        · simp only [hcl, if_true]
          apply ih (( low + high) / 2 + 1) high hh (by omega)
          · intro j a hj ha
            by_cases hjm : j = (low + high) / 2
            · subst hjm; rw [hc] at ha; cases ha; exact hcl
            · have := hs.lt_of_lt ha hc (by omega); omega
          · exact hhi
        · simp only [hcl, if_false]
          apply ih low ((low + high) / 2) (by omega) (by omega) hlo
          intro j a hj ha
          by_cases hjm : j = (low + high) / 2
          · subst hjm; rw [hc] at ha; cases ha; omega
          · have := hs.lt_of_lt hc ha (by omega); omega
    · simp only [hlt, if_false]
      refine Or.inr ⟨by trivial, fun hmem => ?_⟩
      obtain ⟨j, hj, hv⟩ := List.mem_iff_getElem.1 hmem
      have hjv : cs[j]? = some val := by rw [List.getElem?_eq_getElem hj, hv]
      by_cases hjl : j < low
      · have := hlo j val hjl hjv; omega
      · have := hhi j val (by omega) hjv; omega

/-- `index` on a strictly increasing child array: the position of `val`, or `-1` iff absent;
never panics. -/
theorem index_spec (cs : List Int) (val : Int) (hs : StrictSorted cs) :
    (∃ i, index cs val = some (some i) ∧ cs[i]? = some val) ∨
    (index cs val = some none ∧ val ∉ cs) := by
  unfold index
  by_cases h0 : cs.length = 0
  · simp only [h0, if_true]
    have : cs = [] := List.length_eq_zero_iff.1 h0
    subst this
    exact Or.inr ⟨by trivial, by simp⟩
  · simp only [h0, if_false]
    have hpos : 0 < cs.length := by omega
    have hf : cs[0]? = some cs[0] := by simp [hpos]
    have hl : cs[cs.length - 1]? = some (cs[cs.length - 1]'(by omega)) := by
      simp [show cs.length - 1 < cs.length by omega]
    simp only [hf, hl]
    by_cases hout : val < cs[0] ∨ val > cs[cs.length - 1]'(by omega)
    · simp only [hout, if_true]
      refine Or.inr ⟨by trivial, fun hmem => ?_⟩
      obtain ⟨j, hj, hv⟩ := List.mem_iff_getElem.1 hmem
      have hjv : cs[j]? = some val := by rw [List.getElem?_eq_getElem hj, hv]
      rcases hout with h | h
      · by_cases hj0 : j = 0
        · subst hj0; rw [hf] at hjv; cases hjv; omega
        · have := hs.lt_of_lt hf hjv (by omega); omega
      · by_cases hjl : j = cs.length - 1
        · subst hjl; rw [hl] at hjv; cases hjv; omega
        · have := hs.lt_of_lt hjv hl (by omega); omega
    · simp only [hout, if_false]
      apply indexLoop_spec cs val hs (cs.length + 1) 0 cs.length (Nat.le_refl _) (by omega)
      · intro j a hj; omega
      · intro j a hj ha
        have := (List.getElem?_eq_some_iff.1 ha).1; omega

theorem index_mem (cs : List Int) (val : Int) (hs : StrictSorted cs) (hm : val ∈ cs) :
    ∃ i, index cs val = some (some i) ∧ cs[i]? = some val := by
  rcases index_spec cs val hs with h | h
  · exact h
  · exact absurd hm h.2

theorem index_not_mem (cs : List Int) (val : Int) (hs : StrictSorted cs) (hm : val ∉ cs) :
    index cs val = some none := by
  rcases index_spec cs val hs with ⟨i, _, hi⟩ | h
  · exact absurd (List.mem_of_getElem? hi) hm
  · exact h.1

/-! ### findChildIndex -/

theorem findChildLoop_spec (cs : List Int) (val : Int) (hs : StrictSorted cs) :
    ∀ (fuel low high : Nat), high ≤ cs.length → low ≤ high → high - low < fuel →
      (∀ j a, j < low → cs[j]? = some a → a < val) →
      (∀ j a, high ≤ j → cs[j]? = some a → val ≤ a) →
      ∃ k, findChildLoop cs val fuel low high = some k ∧ k ≤ cs.length ∧
        (∀ j a, j < k → cs[j]? = some a → a < val) ∧
        (∀ j a, k ≤ j → cs[j]? = some a → val ≤ a) := by
  intro fuel
  induction fuel with
  | zero => intro low high _ _ h; omega
  | succ fuel ih =>
    intro low high hh hle hf hlo hhi
    simp only [findChildLoop]
    by_cases hlt : low < high
    · simp only [hlt, if_true]
      have hmid : (low + high) / 2 < cs.length := by omega
      obtain ⟨c, hc⟩ : ∃ c, cs[(low + high) / 2]? = some c := ⟨cs[(low + high) / 2], by simp [hmid]⟩
      simp only [hc]
      by_cases hcl : c < val
      · simp only [hcl, if_true]
        apply ih ((low + high) / 2 + 1) high hh (by omega) (by omega)
        · intro j a hj ha
          by_cases hjm : j = (low + high) / 2
          · subst hjm; rw [hc] at ha; cases ha; exact hcl
          · have := hs.lt_of_lt ha hc (by omega); omega
        · exact hhi
      · simp only [hcl, if_false]
        apply ih low ((low + high) / 2) (by omega) (by omega) (by omega) hlo
        intro j a hj ha
        by_cases hjm : j = (low + high) / 2
        · subst hjm; rw [hc] at ha; cases ha; omega
        · have := hs.lt_of_lt hc ha (by omega); omega
    · simp only [hlt, if_false]
      have : low = high := by omega
      subst this
      exact ⟨low, rfl, hh, hlo, hhi⟩

/-- `findChildIndex`: the lower bound of `val` (number of children `< val`); never panics. -/
theorem findChildIndex_spec (cs : List Int) (val : Int) (hs : StrictSorted cs) :
    ∃ k, findChildIndex cs val = some k ∧ k ≤ cs.length ∧
      (∀ j a, j < k → cs[j]? = some a → a < val) ∧
      (∀ j a, k ≤ j → cs[j]? = some a → val ≤ a) := by
  apply findChildLoop_spec cs val hs (cs.length + 1) 0 cs.length (Nat.le_refl _) (Nat.zero_le _) (by omega)
  · intro j a hj; omega
  · intro j a hj ha
    have := (List.getElem?_eq_some_iff.1 ha).1; omega

/-! ### the sorted insertion of `Insert` and the child array of a node -/

theorem mem_take_getElem? {cs : List Int} {k : Nat} {a : Int} (h : a ∈ cs.take k) :
    ∃ j, j < k ∧ cs[j]? = some a := by
  obtain ⟨j, hj⟩ := List.mem_iff_getElem?.1 h
  rw [List.getElem?_take] at hj
  by_cases hjk : j < k
  · simp only [hjk, if_true] at hj; exact ⟨j, hjk, hj⟩
  · simp only [hjk, if_false] at hj; cases hj

theorem mem_drop_getElem? {cs : List Int} {k : Nat} {a : Int} (h : a ∈ cs.drop k) :
    ∃ j, k ≤ j ∧ cs[j]? = some a := by
  obtain ⟨j, hj⟩ := List.mem_iff_getElem?.1 h
  rw [List.getElem?_drop] at hj
  exact ⟨k + j, by omega, hj⟩

theorem strictSorted_insert (cs : List Int) (r : Int) (k : Nat) (hs : StrictSorted cs)
    (hlo : ∀ j a, j < k → cs[j]? = some a → a < r)
    (hhi : ∀ j a, k ≤ j → cs[j]? = some a → r < a) :
    StrictSorted (cs.take k ++ r :: cs.drop k) := by
  unfold StrictSorted at *
  rw [List.pairwise_append]
  refine ⟨List.Pairwise.sublist (List.take_sublist k cs) hs, ?_, ?_⟩
  · rw [List.pairwise_cons]
    refine ⟨fun a ha => ?_, List.Pairwise.sublist (List.drop_sublist k cs) hs⟩
    obtain ⟨j, hj, hja⟩ := mem_drop_getElem? ha
    exact hhi j a hj hja
  · intro a ha b hb
    obtain ⟨i, hi, hia⟩ := mem_take_getElem? ha
    simp only [List.mem_cons] at hb
    rcases hb with hb | hb
    · subst hb; exact hlo i a hi hia
    · obtain ⟨j, hj, hjb⟩ := mem_drop_getElem? hb
      exact StrictSorted.lt_of_lt hs hia hjb (by omega)

theorem mem_insert_iff (cs : List Int) (r : Int) (k : Nat) (x : Int) :
    x ∈ cs.take k ++ r :: cs.drop k ↔ x = r ∨ x ∈ cs := by
  simp only [List.mem_append, List.mem_cons]
  constructor
  · rintro (h | h | h)
    · exact Or.inr (List.mem_of_mem_take h)
    · exact Or.inl h
    · exact Or.inr (List.mem_of_mem_drop h)
  · rintro (h | h)
    · exact Or.inr (Or.inl h)
    · rw [← List.take_append_drop k cs, List.mem_append] at h
      rcases h with h | h
      · exact Or.inl h
      · exact Or.inr (Or.inr h)

/-- One `Insert` step at a node keeps the child array strictly increasing and adds exactly `r`. -/
theorem insertChild_spec (cs : List Int) (r : Int) (hs : StrictSorted cs) :
    ∃ cs', insertChild cs r = some cs' ∧ StrictSorted cs' ∧ ∀ x, x ∈ cs' ↔ x = r ∨ x ∈ cs := by
  obtain ⟨k, hk, hkl, hlo, hhi⟩ := findChildIndex_spec cs r hs
  simp only [insertChild, hk]
  by_cases hge : k ≥ cs.length
  · simp only [hge, if_true]
    refine ⟨_, rfl, strictSorted_insert cs r k hs hlo ?_, mem_insert_iff cs r k⟩
    intro j a hj ha
    have := (List.getElem?_eq_some_iff.1 ha).1; omega
  · simp only [hge, if_false]
    have hklt : k < cs.length := by omega
    obtain ⟨v, hv⟩ : ∃ v, cs[k]? = some v := ⟨cs[k], by simp [hklt]⟩
    simp only [hv]
    by_cases hvr : v = r
    · simp only [hvr, ne_eq, not_true_eq_false, if_false]
      refine ⟨cs, rfl, hs, fun x => ⟨fun h => Or.inr h, fun h => ?_⟩⟩
      rcases h with h | h
      · subst h; rw [hvr] at hv; exact List.mem_of_getElem? hv
      · exact h
    · simp only [ne_eq, hvr, not_false_eq_true, if_true]
      refine ⟨_, rfl, strictSorted_insert cs r k hs hlo ?_, mem_insert_iff cs r k⟩
      intro j a hj ha
      have hrv : r ≤ v := hhi k v (Nat.le_refl _) hv
      by_cases hjk : j = k
      · subst hjk; rw [hv] at ha; cases ha; omega
      · have := StrictSorted.lt_of_lt hs hv ha (by omega); omega

theorem childrenLoop_spec (n : Label) : ∀ (ps : List (List Step)) (cs : List Int), StrictSorted cs →
    ∃ cs', childrenLoop n ps cs = some cs' ∧ StrictSorted cs' ∧
      ∀ x, x ∈ cs' ↔ (x ∈ cs ∨ ∃ p ∈ ps, nextRune? n (lab p) = some x) := by
  intro ps
  induction ps with
  | nil => intro cs hs; exact ⟨cs, rfl, hs, fun x => by simp⟩
  | cons p ps ih =>
    intro cs hs
    simp only [childrenLoop]
    cases hnr : nextRune? n (lab p) with
    | none =>
      obtain ⟨cs', h1, h2, h3⟩ := ih cs hs
      refine ⟨cs', h1, h2, fun x => ?_⟩
      rw [h3 x]
      simp only [List.mem_cons, exists_eq_or_imp, hnr]
      simp
    | some r =>
      obtain ⟨cs1, hc1, hs1, hm1⟩ := insertChild_spec cs r hs
      simp only [hc1]
      obtain ⟨cs', h1, h2, h3⟩ := ih cs1 hs1
      refine ⟨cs', h1, h2, fun x => ?_⟩
      rw [h3 x, hm1 x]
      simp only [List.mem_cons, exists_eq_or_imp, hnr, Option.some.injEq]
      constructor
      · rintro ((h | h) | h)
        · exact Or.inr (Or.inl h.symm)
        · exact Or.inl h
        · exact Or.inr (Or.inr h)
      · rintro (h | h | h)
        · exact Or.inl (Or.inr h)
        · exact Or.inl (Or.inl h.symm)
        · exact Or.inr h

/-- The child array of node `n`: computed without panic, strictly increasing, and it holds
exactly the runes that follow `n` in some inserted pattern. -/
theorem childrenOf_spec (ps : List (List Step)) (n : Label) :
    ∃ cs, childrenOf ps n = some cs ∧ StrictSorted cs ∧
      ∀ x, x ∈ cs ↔ ∃ p ∈ ps, nextRune? n (lab p) = some x := by
  obtain ⟨cs, h1, h2, h3⟩ := childrenLoop_spec n ps [] (by simp [StrictSorted])
  exact ⟨cs, h1, h2, fun x => by rw [h3 x]; simp⟩

end Golib.C05
