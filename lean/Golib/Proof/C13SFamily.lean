/-
C13 helper lemmas, part 11: a FAMILY of `SList`s over one node store (`SFam`) against sequence
semantics (`FA`: one sequence of node ids per list + one value map).  Built on the one-list
simulation with frame (`sapply_refinesO`): a call on list `k` preserves the invariant of every
list, writes no link of another list's nodes, and a node returned by any removing call is in no
list afterwards, so it may enter any list.  Also: loops whose body calls the API on any list of
the family, and what a struct copy (`b := *a`) does.
-/
import Golib.Proof.C13SRefine

set_option linter.unusedSimpArgs false
set_option linter.unusedVariables false

namespace Golib.C13

/-! ### the specification machine for a family -/

structure FA where
  seq   : Nat → List Nat
  val   : Nat → Int
  fresh : Nat
  nl    : Nat

def FA.zero (nl : Nat) : FA := { seq := fun _ => [], val := fun _ => 0, fresh := 0, nl := nl }

def FA.view (a : FA) (k : Nat) : SA := { seq := a.seq k, val := a.val, fresh := a.fresh }

def FA.put (a : FA) (k : Nat) (x : SA) : FA :=
  { a with seq := upd a.seq k x.seq, val := x.val, fresh := x.fresh }

/-- the list that currently holds node `e` -/
def FA.ownerOf (a : FA) (e : Nat) : Option Nat :=
  (List.range a.nl).find? fun k => decide (e ∈ a.seq k)

/-- `e.Next()`: the successor of `e` in the list that holds it; nil if it is last or in no list. -/
def FA.next (a : FA) (e : Nat) : Option Nat :=
  match a.ownerOf e with
  | some k => succOf e (a.seq k)
  | none => none

/-- A call on list `k`: the one-list specification on sequence `k`; nothing else changes. -/
def FA.apply (a : FA) (k : Nat) : SOp → FA × DRes
  | .next e => (a, .ptr (a.next e))
  | op => (a.put k ((a.view k).apply op).1, ((a.view k).apply op).2)

/-- Allowed calls: `k` is a list of the family; a node handed to a node form is allocated and
in NO list of the family (fresh from `new`, or returned by a removing call on any list). -/
def FOk (a : FA) (k : Nat) : SOp → Prop
  | .pushFrontNode e | .pushBackNode e | .insertNodeAt _ e =>
    k < a.nl ∧ e < a.fresh ∧ ∀ j, j < a.nl → e ∉ a.seq j
  | _ => k < a.nl

/-- The invariant of the family: every list satisfies the `SList` invariant on its own
sequence, no node is in two lists, nodes outside every list have `next == nil`. -/
structure FAbs (F : SFam) (a : FA) : Prop where
  lists : ∀ k, k < a.nl → SInv (F.view k) (a.seq k)
  disj  : ∀ k j, k < a.nl → j < a.nl → k ≠ j → ∀ x ∈ a.seq k, x ∉ a.seq j
  alloc : ∀ k, k < a.nl → ∀ x ∈ a.seq k, x < a.fresh
  clean : ∀ n, (∀ k, k < a.nl → n ∉ a.seq k) → F.next.get n = none
  val   : ∀ n, F.val.get n = a.val n
  fresh : F.fresh = a.fresh

theorem fabs_zero (nl : Nat) : FAbs SFam.zero (FA.zero nl) := by
  refine ⟨fun k _ => ?_, fun k j _ _ _ x hx => by simp [FA.zero] at hx,
    fun k _ x hx => by simp [FA.zero] at hx, fun n _ => PM.get_empty n, fun n => IM.get_empty n, rfl⟩
  exact ⟨by simp [SFam.view, SFam.zero, PM.get_empty, FA.zero, ChainTo],
    by simp [SFam.view, SFam.zero, PM.get_empty, FA.zero],
    by simp [SFam.view, SFam.zero, IM.get_empty, FA.zero], by simp [FA.zero]⟩

/-- "is a node of a list other than `k`" -/
def Others (a : FA) (k : Nat) : Nat → Prop := fun n => ∃ j, j < a.nl ∧ j ≠ k ∧ n ∈ a.seq j

theorem fabs_view {F : SFam} {a : FA} {k : Nat} (h : FAbs F a) (hk : k < a.nl) :
    SAbsO (Others a k) (F.view k) (a.view k) := by
  refine ⟨h.lists k hk, h.alloc k hk, fun n hn hO => ?_, fun x hx hO => ?_, fun n hO => ?_, h.val, h.fresh⟩
  · refine h.clean n (fun j hj => ?_)
    by_cases hjk : j = k
    · subst hjk; exact hn
    · exact fun hh => hO ⟨j, hj, hjk, hh⟩
  · obtain ⟨j, hj, hjk, hm⟩ := hO
    exact h.disj k j hk hj (Ne.symm hjk) x hx hm
  · obtain ⟨j, hj, _, hm⟩ := hO
    exact h.alloc j hj n hm

theorem view_put_same (F : SFam) (k : Nat) (s : SSt) : (F.put k s).view k = s := by
  cases s; simp [SFam.view, SFam.put, PM.get_set, IM.get_set]

theorem fabs_put {F : SFam} {a : FA} {k : Nat} {s' : SSt} {x : SA} (h : FAbs F a) (hk : k < a.nl)
    (hs : SAbsO (Others a k) s' x) (hfr : ∀ n, Others a k n → s'.next.get n = F.next.get n) :
    FAbs (F.put k s') (a.put k x) := by
  have hseq_k : (a.put k x).seq k = x.seq := by simp [FA.put]
  have hseq_j : ∀ j, j ≠ k → (a.put k x).seq j = a.seq j := fun j hj => by simp [FA.put, upd, hj]
  have hnl : (a.put k x).nl = a.nl := rfl
  refine ⟨fun j hj => ?_, fun i j hi hj hij y hy => ?_, fun j hj y hy => ?_, fun n hn => ?_,
    hs.val, hs.fresh⟩
  · by_cases hjk : j = k
    · subst hjk; rw [view_put_same, hseq_k]; exact hs.inv
    · rw [hseq_j j hjk]
      have hJ := h.lists j hj
      have hhd : ((F.put k s').view j).head = (F.view j).head := by
        simp [SFam.view, SFam.put, PM.get_set, hjk]
      have htl : ((F.put k s').view j).tail = (F.view j).tail := by
        simp [SFam.view, SFam.put, PM.get_set, hjk]
      have hln : ((F.put k s').view j).len = (F.view j).len := by
        simp [SFam.view, SFam.put, IM.get_set, hjk]
      refine ⟨?_, by rw [htl]; exact hJ.tail, by rw [hln]; exact hJ.len, hJ.nodup⟩
      rw [hhd]
      exact chainTo_frame (fun n hn => hfr n ⟨j, hj, hjk, hn⟩) hJ.chain
  · by_cases hik : i = k
    · subst hik
      rw [hseq_k] at hy; rw [hseq_j j (Ne.symm hij)]
      exact fun hm => hs.disj y hy ⟨j, hj, Ne.symm hij, hm⟩
    · rw [hseq_j i hik] at hy
      by_cases hjk : j = k
      · subst hjk
        rw [hseq_k]
        exact fun hm => hs.disj y hm ⟨i, hi, hik, hy⟩
      · rw [hseq_j j hjk]; exact h.disj i j hi hj hij y hy
  · show y < x.fresh
    by_cases hjk : j = k
    · subst hjk; rw [hseq_k] at hy; exact hs.alloc y hy
    · rw [hseq_j j hjk] at hy; exact hs.oalloc y ⟨j, hj, hjk, hy⟩
  · show s'.next.get n = none
    refine hs.clean n (by have := hn k hk; rwa [hseq_k] at this) (fun hO => ?_)
    obtain ⟨j, hj, hjk, hm⟩ := hO
    have := hn j hj
    rw [hseq_j j hjk] at this
    exact this hm

/-! ### reading `Next` -/

theorem fnext_abs {F : SFam} {a : FA} (h : FAbs F a) (e : Nat) : F.next.get e = a.next e := by
  unfold FA.next FA.ownerOf
  cases hf : (List.range a.nl).find? fun k => decide (e ∈ a.seq k) with
  | none =>
    rw [List.find?_eq_none] at hf
    exact h.clean e (fun k hk => by simpa using hf k (by simpa using hk))
  | some k =>
    have h1 := List.find?_some hf
    have h2 := List.mem_of_find?_eq_some hf
    simp only [decide_eq_true_eq] at h1
    simp only [List.mem_range] at h2
    obtain ⟨p, q, e1, hp⟩ := split_of_mem h1
    have hc := (h.lists k h2).chain
    rw [e1] at hc
    have := chainTo_head (chainTo_mid hc).2
    show F.next.get e = succOf e (a.seq k)
    rw [e1, succOf_split e p q hp]
    exact this

/-! ### one call on one list of the family -/

theorem fa_apply_of_ne (a : FA) (k : Nat) (op : SOp) (hne : ∀ e, op ≠ .next e) :
    a.apply k op = (a.put k ((a.view k).apply op).1, ((a.view k).apply op).2) := by
  cases op <;> first | rfl | exact absurd rfl (hne _)

theorem okO_of_fok {a : FA} {k : Nat} {op : SOp} (h : FOk a k op) (hne : ∀ e, op ≠ .next e) :
    op.okO (Others a k) (a.view k) ∧ k < a.nl := by
  cases op <;> simp only [FOk, SOp.okO, FA.view] at h ⊢ <;>
    first
    | exact ⟨trivial, h⟩
    | exact absurd rfl (hne _)
    | exact ⟨⟨h.2.1, h.2.2 k h.1, fun ⟨j, hj, _, hm⟩ => h.2.2 j hj hm⟩, h.1⟩

theorem put_view_self (a : FA) (k : Nat) : a.put k (a.view k) = a := by
  cases a; simp [FA.put, FA.view, upd_self]

theorem fok_lt {a : FA} {k : Nat} {op : SOp} (h : FOk a k op) : k < a.nl := by
  cases op <;> simp only [FOk] at h <;> first | exact h | exact h.1

/-- One-step simulation for the family: a call on list `k` returns what the sequence semantics
say and the invariant of EVERY list is preserved (frame: other lists are untouched). -/
theorem fapply_refines {F : SFam} {a : FA} {k : Nat} (h : FAbs F a) (op : SOp) (hok : FOk a k op) :
    ∃ F', F.apply k op = some (F', (a.apply k op).2) ∧ FAbs F' (a.apply k op).1 := by
  have hk := fok_lt hok
  by_cases hn : ∃ e, op = .next e
  · obtain ⟨e, rfl⟩ := hn
    refine ⟨F.put k (F.view k), ?_, ?_⟩
    · simp only [SFam.apply, SSt.apply, Option.map_some, FA.apply]
      show some (F.put k (F.view k), DRes.ptr (F.next.get e)) = _
      rw [fnext_abs h e]
    · have := fabs_put h hk (fabs_view h hk) (fun _ _ => rfl)
      rw [put_view_self] at this
      exact this
  · have hne : ∀ e, op ≠ .next e := fun e he => hn ⟨e, he⟩
    obtain ⟨s', r1, r2, r3, _⟩ := sapply_refinesO (fabs_view h hk) op (okO_of_fok hok hne).1
    rw [fa_apply_of_ne a k op hne]
    exact ⟨F.put k s', by simp only [SFam.apply, r1, Option.map_some], fabs_put h hk r2 r3⟩

/-- The frame clause on the specification: a call on list `k` changes no other sequence. -/
theorem fa_frame (a : FA) (k j : Nat) (op : SOp) (hj : j ≠ k) : (a.apply k op).1.seq j = a.seq j := by
  cases op <;> simp [FA.apply, FA.put, upd, hj]

/-! ### histories -/

def FA.run : FA → List (Nat × SOp) → FA × List DRes
  | a, [] => (a, [])
  | a, (k, op) :: ops => let (a1, r) := a.apply k op; let (a2, rs) := a1.run ops; (a2, r :: rs)

def FOpsOk : FA → List (Nat × SOp) → Prop
  | _, [] => True
  | a, (k, op) :: ops => FOk a k op ∧ FOpsOk (a.apply k op).1 ops

instance (a : FA) (k : Nat) (op : SOp) : Decidable (FOk a k op) := by
  cases op <;> simp only [FOk] <;> infer_instance

instance instDecidableFOpsOk : (a : FA) → (ops : List (Nat × SOp)) → Decidable (FOpsOk a ops)
  | _, [] => isTrue trivial
  | a, (k, op) :: ops => by
    simp only [FOpsOk]
    exact @instDecidableAnd _ _ _ (instDecidableFOpsOk _ ops)

theorem frun_refines {F : SFam} {a : FA} (h : FAbs F a) (ops : List (Nat × SOp)) (hok : FOpsOk a ops) :
    ∃ F', F.run ops = some (F', (a.run ops).2) ∧ FAbs F' (a.run ops).1 := by
  induction ops generalizing F a with
  | nil => exact ⟨F, rfl, h⟩
  | cons kop ops ih =>
    obtain ⟨k, op⟩ := kop
    obtain ⟨F1, r1, h1⟩ := fapply_refines h op hok.1
    obtain ⟨F2, r2, h2⟩ := ih h1 hok.2
    exact ⟨F2, by simp [SFam.run, FA.run, r1, r2], h2⟩

/-! ### loops whose body calls the API on any list of the family -/

def FA.rangeAll (body : Nat → List (Nat × SOp)) (stop : Nat → Bool) :
    Nat → Nat → Ptr → FA → List (Nat × Int) → FA × List (Nat × Int) × Bool
  | _, _, none, a, acc => (a, acc.reverse, true)
  | 0, _, some _, a, acc => (a, acc.reverse, false)
  | f + 1, i, some e, a, acc =>
    let y := (e, a.val e)
    let a1 := (a.run (body i)).1
    if stop i then (a1, (y :: acc).reverse, true)
    else FA.rangeAll body stop f (i + 1) (a1.next e) a1 (y :: acc)

def FRangeOk (body : Nat → List (Nat × SOp)) (stop : Nat → Bool) : Nat → Nat → Ptr → FA → Prop
  | _, _, none, _ => True
  | 0, _, some _, _ => True
  | f + 1, i, some e, a =>
    FOpsOk a (body i) ∧
      (stop i = false → FRangeOk body stop f (i + 1) ((a.run (body i)).1.next e) (a.run (body i)).1)

theorem frange_refines (body : Nat → List (Nat × SOp)) (stop : Nat → Bool) :
    ∀ (f i : Nat) (p : Ptr) (F : SFam) (a : FA) (acc : List (Nat × Int)), FAbs F a →
      FRangeOk body stop f i p a →
      ∃ F', SFam.rangeAll body stop f i p F acc =
          some (F', (FA.rangeAll body stop f i p a acc).2.1, (FA.rangeAll body stop f i p a acc).2.2) ∧
        FAbs F' (FA.rangeAll body stop f i p a acc).1 := by
  intro f
  induction f with
  | zero =>
    intro i p F a acc h _
    cases p <;> exact ⟨F, by simp [SFam.rangeAll, FA.rangeAll], by simpa [FA.rangeAll] using h⟩
  | succ f ih =>
    intro i p F a acc h hok
    cases p with
    | none => exact ⟨F, by simp [SFam.rangeAll, FA.rangeAll], by simpa [FA.rangeAll] using h⟩
    | some e =>
      obtain ⟨hops, hrest⟩ := hok
      obtain ⟨F1, r1, h1⟩ := frun_refines h (body i) hops
      by_cases hs : stop i = true
      · refine ⟨F1, ?_, by simpa [FA.rangeAll, hs] using h1⟩
        simp [SFam.rangeAll, FA.rangeAll, r1, hs, h.val e]
      · have hs' : stop i = false := by simpa using hs
        obtain ⟨F', r2, h2⟩ := ih (i + 1) ((a.run (body i)).1.next e) F1 (a.run (body i)).1
          ((e, a.val e) :: acc) h1 (hrest hs')
        refine ⟨F', ?_, by simpa [FA.rangeAll, hs'] using h2⟩
        simp only [SFam.rangeAll, r1, Option.bind_eq_bind, Option.bind_some, hs', h.val e,
          fnext_abs h1 e, FA.rangeAll]
        simpa using r2

/-! ### a struct copy `*b = *a` -/

/-- `*b = *a` for two `SList` values: `head`, `tail`, `len` are copied, the nodes are shared. -/
def SFam.copyList (F : SFam) (a b : Nat) : SFam :=
  { F with hd := F.hd.set b (F.hd.get a), tl := F.tl.set b (F.tl.get a), ln := F.ln.set b (F.ln.get a) }

/-- After copying a NON-EMPTY `SList` by value the two values share their nodes: no assignment of
sequences satisfies the family invariant any more (the copy is outside the property, exactly as a
copied `container/list.List`). -/
theorem slist_copy_breaks {F : SFam} {A : FA} {a b : Nat} (h : FAbs F A) (ha : a < A.nl) (hb : b < A.nl)
    (hab : a ≠ b) (hne : A.seq a ≠ []) : ¬ ∃ A' : FA, A'.nl = A.nl ∧ FAbs (F.copyList a b) A' := by
  rintro ⟨A', hnl, h'⟩
  obtain ⟨x, xs, hL⟩ := List.exists_cons_of_ne_nil hne
  have hhead : F.hd.get a = some x := by
    have := chainTo_head (h.lists a ha).chain
    rw [hL] at this; simpa [SFam.view] using this
  have ha' : a < A'.nl := hnl ▸ ha
  have hb' : b < A'.nl := hnl ▸ hb
  have h1 : (A'.seq a).head? = some x := by
    have := chainTo_head (h'.lists a ha').chain
    simp only [SFam.view, SFam.copyList, PM.get_set, hab, if_false] at this
    rw [← this]; exact hhead
  have h2 : (A'.seq b).head? = some x := by
    have := chainTo_head (h'.lists b hb').chain
    simp only [SFam.view, SFam.copyList, PM.get_set, if_true] at this
    rw [← this]; exact hhead
  have m1 : x ∈ A'.seq a := List.mem_of_mem_head? h1
  have m2 : x ∈ A'.seq b := List.mem_of_mem_head? h2
  exact h'.disj a b ha' hb' hab x m1 m2

end Golib.C13
