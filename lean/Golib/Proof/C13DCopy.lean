/-
C13 helper lemmas, part 7: the loops of `PushBackDList` / `PushFrontDList`, including a list
copied onto itself (`other == l`): the cursor `e` walks the *original* nodes of `other` while
copies are appended to (prepended to) `l`; it never reads a copy because the trip count is the
length at the call.
-/
import Golib.Proof.C13DMove

set_option linter.unusedSimpArgs false
set_option linter.unusedVariables false

namespace Golib.C13

/-- Values after copying the nodes `src` into the fresh ids `f, f+1, …`:
id `f + j` carries the value of `src[j]`, everything else is unchanged. -/
def copyVal (val : Nat → Int) (f : Nat) (src : List Nat) (n : Nat) : Int :=
  if f ≤ n then (match src[n - f]? with | some x => val x | none => val n) else val n

theorem copyVal_nil (val : Nat → Int) (f n : Nat) : copyVal val f [] n = val n := by
  simp [copyVal]

theorem copyVal_step (val : Nat → Int) (f x : Nat) (R : List Nat) (hR : ∀ y ∈ R, y ≠ f) (n : Nat) :
    copyVal (fun m => if m = f then val x else val m) (f + 1) R n = copyVal val f (x :: R) n := by
  unfold copyVal
  by_cases h1 : f + 1 ≤ n
  · have h2 : f ≤ n := by omega
    have h3 : n - f = (n - (f + 1)) + 1 := by omega
    rw [if_pos h1, if_pos h2, h3, List.getElem?_cons_succ]
    cases hg : R[n - (f + 1)]? with
    | none => simp; omega
    | some y =>
      have : y ≠ f := hR y (List.mem_of_getElem? hg)
      simp [this]
  · rw [if_neg h1]
    by_cases h2 : n = f
    · subst h2; simp
    · have : ¬ f ≤ n := by omega
      simp [this, h2]

/-- A list that is initialised (`root.next != nil`) is a ring, empty or not. -/
theorem ring_of_init {s : DSt} {A : Nat → List Nat} {l : Nat} (h : GInv s A) (hl : l < s.nl)
    (hz : s.next.get l ≠ none) : Ring s.next s.prev (l :: A l) := by
  rcases (h.lists l hl).ring with ⟨e, _, _⟩ | hr
  · exact absurd e hz
  · exact hr

theorem ring_next_ne_none {nx pv : PM} {l : Nat} {L : List Nat} (h : Ring nx pv (l :: L)) :
    nx.get l ≠ none := by
  rw [ring_next_root h]; cases L <;> simp

/-- `l.insertValue(v, l.root.prev)` on an initialised list. -/
theorem insertValue_back {s : DSt} {A : Nat → List Nat} {l : Nat} (v : Int)
    (h : GInv s A) (hl : l < s.nl) (hr : Ring s.next s.prev (l :: A l)) :
    ∃ s', s.insertValue l v (s.prev.get l) = some (s', s.fresh) ∧
      GInv s' (upd A l (A l ++ [s.fresh])) ∧
      s'.fresh = s.fresh + 1 ∧ s'.nl = s.nl ∧ s'.val = s.val.set s.fresh v := by
  obtain ⟨z, hz, hzm⟩ := getLast_mem_ring l (A l)
  have hat : s.prev.get l = some z := by rw [ring_prev_root hr, hz]
  obtain ⟨s', r1, r2, r3⟩ := insertValue_after_mem (a := z) v h hl hr hzm
  rw [insAfterC_last _ (h.lists l hl).nodup hz] at r2
  exact ⟨s', by rw [hat]; exact r1, r2, r3⟩

/-- `l.insertValue(v, &l.root)` on an initialised list. -/
theorem insertValue_front {s : DSt} {A : Nat → List Nat} {l : Nat} (v : Int)
    (h : GInv s A) (hl : l < s.nl) (hr : Ring s.next s.prev (l :: A l)) :
    ∃ s', s.insertValue l v (some l) = some (s', s.fresh) ∧
      GInv s' (upd A l (s.fresh :: A l)) ∧
      s'.fresh = s.fresh + 1 ∧ s'.nl = s.nl ∧ s'.val = s.val.set s.fresh v := by
  obtain ⟨s', r1, r2, r3⟩ := insertValue_after_mem (a := l) v h hl hr (by simp)
  rw [insAfterC_root] at r2
  exact ⟨s', r1, r2, r3⟩

/-! ### `PushBackDList` -/

/-- Loop invariant: `other` holds `P ++ R ++ X` where `R` (length `i`) is what is still to be
copied and the cursor stands on its first node (`X` = the copies made so far when
`other == l`, empty otherwise). -/
theorem pushBackLoop_spec {l o : Nat} : ∀ (i : Nat) (s : DSt) (A : Nat → List Nat) (P R X : List Nat)
    (e : Ptr), GInv s A → l < s.nl → o < s.nl → s.next.get l ≠ none → A o = P ++ R ++ X →
    R.length = i → e = (R ++ X).head? →
    ∃ s', DSt.pushBackLoop l i e s = some s' ∧
      GInv s' (upd A l (A l ++ List.range' s.fresh i)) ∧
      s'.fresh = s.fresh + i ∧ s'.nl = s.nl ∧
      ∀ n, s'.val.get n = copyVal s.val.get s.fresh R n := by
  intro i
  induction i with
  | zero =>
    intro s A P R X e h hl ho hinit hA hR he
    have : R = [] := List.length_eq_zero_iff.1 hR
    subst this
    refine ⟨s, rfl, ?_, rfl, rfl, fun n => (copyVal_nil _ _ _).symm⟩
    rw [upd_self]; exact h; simp
  | succ i ih =>
    intro s A P R X e h hl ho hinit hA hR he
    cases R with
    | nil => simp at hR
    | cons x R' =>
      simp only [List.cons_append, List.head?_cons] at he
      subst he
      have hr := ring_of_init h hl hinit
      obtain ⟨s1, r1, g1, f1, n1, v1⟩ := insertValue_back (s.val.get x) h hl hr
      -- the abstract state after the step
      let X' := if o = l then X ++ [s.fresh] else X
      have hA1 : upd A l (A l ++ [s.fresh]) o = (P ++ [x]) ++ R' ++ X' := by
        by_cases hol : o = l
        · subst hol; simp [X', hA]
        · simp [upd_other _ _ _ hol, X', hol, hA]
      have hl1 : l < s1.nl := by rw [n1]; exact hl
      have ho1 : o < s1.nl := by rw [n1]; exact ho
      have hnx : s1.nodeNext x = (R' ++ X').head? :=
        nodeNext_spec (p := P) (q := R' ++ X') g1 ho1 (by rw [hA1]; simp)
      have hinit1 : s1.next.get l ≠ none := by
        have hx : s.fresh ∈ upd A l (A l ++ [s.fresh]) l := by simp
        exact ring_next_ne_none (ginv_ring_of_mem g1 hl1 hx)
      obtain ⟨s', r2, g2, f2, n2, v2⟩ := ih s1 _ (P ++ [x]) R' X' _ g1 hl1 ho1 hinit1 hA1
        (by simpa using hR) hnx
      refine ⟨s', ?_, ?_, by rw [f2, f1]; omega, by rw [n2, n1], fun n => ?_⟩
      · simp only [DSt.pushBackLoop, Option.bind_eq_bind, Option.bind_some, r1]
        exact r2
      · rw [upd_upd, f1] at g2
        simp only [upd_same] at g2
        rw [List.range'_succ]
        simpa using g2
      · rw [v2 n, f1]
        have hR' : ∀ y ∈ R', y ≠ s.fresh := by
          intro y hy hh
          have : y ∈ A o := by rw [hA]; simp [hy]
          have := (h.nodes o ho y this).2
          omega
        rw [← copyVal_step s.val.get s.fresh x R' hR' n]
        congr 1
        funext m
        rw [v1, IM.get_set]

theorem pushBackDList_spec {s : DSt} {A : Nat → List Nat} {l o : Nat}
    (h : GInv s A) (hl : l < s.nl) (ho : o < s.nl) :
    ∃ s', s.pushBackDList l o = some s' ∧
      GInv s' (upd A l (A l ++ List.range' s.fresh (A o).length)) ∧
      s'.fresh = s.fresh + (A o).length ∧ s'.nl = s.nl ∧
      ∀ n, s'.val.get n = copyVal s.val.get s.fresh (A o) n := by
  obtain ⟨g1, g2, g3, g4, g5, _⟩ := lazyInit_spec h hl
  have hl1 : l < (s.lazyInit l).nl := by rw [g5]; exact hl
  have ho1 : o < (s.lazyInit l).nl := by rw [g5]; exact ho
  have f := front_spec g1 ho1
  obtain ⟨s', r1, r2, r3, r4, r5⟩ := pushBackLoop_spec (l := l) (o := o) (A o).length (s.lazyInit l) A
    [] (A o) [] ((s.lazyInit l).front o) g1 hl1 ho1 (ring_next_ne_none g2) (by simp) rfl
    (by rw [f.1]; simp)
  rw [g4] at r2 r3
  rw [g3, g4] at r5
  refine ⟨s', ?_, r2, r3, by rw [r4, g5], r5⟩
  simp only [DSt.pushBackDList, f.2.2, Int.toNat_natCast]
  exact r1

/-! ### `PushFrontDList` -/

/-- Loop invariant: `other` holds `X ++ R ++ P`, `R` still to be copied back to front, the
cursor on its last node. -/
theorem pushFrontLoop_spec {l o : Nat} : ∀ (i : Nat) (s : DSt) (A : Nat → List Nat) (P R X : List Nat)
    (e : Ptr), GInv s A → l < s.nl → o < s.nl → s.next.get l ≠ none → A o = X ++ R ++ P →
    R.length = i → e = (X ++ R).getLast? →
    ∃ s', DSt.pushFrontLoop l i e s = some s' ∧
      GInv s' (upd A l ((List.range' s.fresh i).reverse ++ A l)) ∧
      s'.fresh = s.fresh + i ∧ s'.nl = s.nl ∧
      ∀ n, s'.val.get n = copyVal s.val.get s.fresh R.reverse n := by
  intro i
  induction i with
  | zero =>
    intro s A P R X e h hl ho hinit hA hR he
    have : R = [] := List.length_eq_zero_iff.1 hR
    subst this
    refine ⟨s, rfl, ?_, rfl, rfl, fun n => by simp [copyVal_nil]⟩
    rw [upd_self]; exact h; simp
  | succ i ih =>
    intro s A P R X e h hl ho hinit hA hR he
    rcases eq_nil_or_snoc R with rfl | ⟨R', x, rfl⟩
    · simp at hR
    · have he' : e = some x := by
        rw [he, ← List.append_assoc, List.getLast?_append]; simp
      subst he'
      have hr := ring_of_init h hl hinit
      obtain ⟨s1, r1, g1, f1, n1, v1⟩ := insertValue_front (s.val.get x) h hl hr
      let X' := if o = l then s.fresh :: X else X
      have hA1 : upd A l (s.fresh :: A l) o = X' ++ R' ++ (x :: P) := by
        by_cases hol : o = l
        · subst hol; simp [X', hA]
        · simp [upd_other _ _ _ hol, X', hol, hA]
      have hl1 : l < s1.nl := by rw [n1]; exact hl
      have ho1 : o < s1.nl := by rw [n1]; exact ho
      have hpv : s1.nodePrev x = (X' ++ R').getLast? :=
        nodePrev_spec (p := X' ++ R') (q := P) g1 ho1 (by rw [hA1])
      have hinit1 : s1.next.get l ≠ none := by
        have hx : s.fresh ∈ upd A l (s.fresh :: A l) l := by simp
        exact ring_next_ne_none (ginv_ring_of_mem g1 hl1 hx)
      obtain ⟨s', r2, g2, f2, n2, v2⟩ := ih s1 _ (x :: P) R' X' _ g1 hl1 ho1 hinit1 hA1
        (by simpa using hR) hpv
      refine ⟨s', ?_, ?_, by rw [f2, f1]; omega, by rw [n2, n1], fun n => ?_⟩
      · simp only [DSt.pushFrontLoop, Option.bind_eq_bind, Option.bind_some, r1]
        exact r2
      · rw [upd_upd, f1] at g2
        simp only [upd_same] at g2
        rw [List.range'_succ]
        simpa using g2
      · rw [v2 n, f1]
        have hR' : ∀ y ∈ R'.reverse, y ≠ s.fresh := by
          intro y hy hh
          have : y ∈ A o := by rw [hA]; simp at hy; simp [hy]
          have := (h.nodes o ho y this).2
          omega
        rw [show (R' ++ [x]).reverse = x :: R'.reverse by simp,
          ← copyVal_step s.val.get s.fresh x R'.reverse hR' n]
        congr 1
        funext m
        rw [v1, IM.get_set]

theorem pushFrontDList_spec {s : DSt} {A : Nat → List Nat} {l o : Nat}
    (h : GInv s A) (hl : l < s.nl) (ho : o < s.nl) :
    ∃ s', s.pushFrontDList l o = some s' ∧
      GInv s' (upd A l ((List.range' s.fresh (A o).length).reverse ++ A l)) ∧
      s'.fresh = s.fresh + (A o).length ∧ s'.nl = s.nl ∧
      ∀ n, s'.val.get n = copyVal s.val.get s.fresh (A o).reverse n := by
  obtain ⟨g1, g2, g3, g4, g5, _⟩ := lazyInit_spec h hl
  have hl1 : l < (s.lazyInit l).nl := by rw [g5]; exact hl
  have ho1 : o < (s.lazyInit l).nl := by rw [g5]; exact ho
  have f := front_spec g1 ho1
  obtain ⟨s', r1, r2, r3, r4, r5⟩ := pushFrontLoop_spec (l := l) (o := o) (A o).length (s.lazyInit l) A
    [] (A o) [] ((s.lazyInit l).back o) g1 hl1 ho1 (ring_next_ne_none g2) (by simp) rfl
    (by rw [f.2.1]; simp)
  rw [g4] at r2 r3
  rw [g3, g4] at r5
  refine ⟨s', ?_, r2, r3, by rw [r4, g5], r5⟩
  simp only [DSt.pushFrontDList, f.2.2, Int.toNat_natCast]
  exact r1

end Golib.C13
