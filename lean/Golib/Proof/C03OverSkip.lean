/-
C03 over C02: the RoaringBitmap code run on the skip-list MODEL of property C02
(`Model/C02Skip.lean`: towers as lists, `GetNode/Get/Set/Remove/Head/node.Next/node.Value/
node.SetValue` as the code walks) behaves exactly like the RoaringBitmap model of
`Model/C03Roaring.lean`, which runs on a key-ascending association list.

Only the public results of C02 are used (`step_sim`, `Inv.toMap_sorted`, the fields of `Inv`,
the definitions of the model and of `toMap/chain0/OMap.*`); every auxiliary fact about the
skip list is derived from them in this file.
-/
import Golib.Proof.C02Refine
import Golib.Proof.C03Bridge
import Golib.Proof.C03RB

set_option linter.unusedSimpArgs false
set_option linter.unusedVariables false

namespace Golib.C03
open Golib.C02 (SL Cfg Good Inv toMap chain0 getVal TotalCmp step_sim Op Out)

/-- `listz.SkipList[uint16, container]`: lazy initialisation, the built-in order, the repaired code. -/
def cfgRB : Cfg Nat Container :=
  { cmp := cmpNat, lazy := true, zeroK := 0, zeroV := .arr #[], fixed := true }

/-- `RoaringBitmap{containers, len}` over the skip-list model (`buf` is scratch space). -/
structure RBS where
  sl : SL Nat Container
  len : Int

/-- The zero value `var r RoaringBitmap`: the skip list inside is the (uninitialised) zero value. -/
def RBS.zero : RBS := ⟨SL.zero, 0⟩

/-- `Add(num)`; `w` = the word the skip list's random source returns if `Set` inserts a node. -/
def RBS.add (r : RBS) (num w : Nat) : Option (RBS × Bool) :=
  let high := num >>> 16
  let low := num % 65536
  match r.sl.getNode cfgRB high with                 -- node := r.containers.GetNode(high)
  | none => none
  | some none =>
    match arrAdd #[] low with                        -- ac := &arrayContainer{}; ac.Add(low, buf)
    | none => none
    | some (ac, _, _) =>
      match r.sl.set cfgRB high (.arr ac) 0 w with   -- r.containers.Set(high, ac)
      | none => none
      | some (sl', _) => some (⟨sl', r.len + 1⟩, true)
  | some (some n) =>
    match getVal r.sl.vals n with                    -- node.Value()
    | none => none
    | some c =>
      match c.add low with
      | none => none
      | some (_, nc, ok) =>                          -- node.SetValue(nc)
        some (⟨r.sl.setNodeValue n nc, if ok then r.len + 1 else r.len⟩, ok)

/-- `Remove(num)`.  The container is mutated in place through the pointer `Get` returned; as in
`RB.remove` the new container is stored back in the node that holds it. -/
def RBS.remove (r : RBS) (num : Nat) : Option (RBS × Bool) :=
  let high := num >>> 16
  let low := num % 65536
  match r.sl.get cfgRB high with                     -- c, ok := r.containers.Get(high)
  | none => none
  | some (_, false) => some (r, false)
  | some (c, true) =>
    match c.remove low with
    | none => none
    | some (c', ok) =>
      match r.sl.getNode cfgRB high with             -- the node whose value `c` points to
      | none => none
      | some none => none
      | some (some n) =>
        let sl1 := r.sl.setNodeValue n c'
        if ok then
          if c'.len == 0 then
            match sl1.remove cfgRB high with         -- r.containers.Remove(high)
            | none => none
            | some (sl2, _, _) => some (⟨sl2, r.len - 1⟩, true)
          else some (⟨sl1, r.len - 1⟩, true)
        else some (⟨sl1, r.len⟩, false)

/-- `Contains(num)`. -/
def RBS.contains (r : RBS) (num : Nat) : Option Bool :=
  let high := num >>> 16
  let low := num % 65536
  match r.sl.get cfgRB high with
  | none => none
  | some (_, false) => some false
  | some (c, true) => c.contains low

/-- `for node != nil { (node.Key(), node.Value()); node = node.Next() }`. -/
def nodesLoop (s : SL Nat Container) : Nat → Option Nat → Option OMap
  | _, none => some []
  | 0, some _ => none
  | fuel + 1, some n =>
    match getVal s.vals n with
    | none => none
    | some c =>
      match s.nodeNext n with
      | none => none
      | some nx => (nodesLoop s fuel nx).map ((n, c) :: ·)

/-- The bucket chain that `Range`, `All` and `Iter` walk: `node := Head()`, then `node.Next()`
until nil, at most `Len()+1` rounds (`none`: a panic, or the chain is longer than that). -/
def RBS.nodes (r : RBS) : Option OMap :=
  match r.sl.head with
  | none => none
  | some h => nodesLoop r.sl (r.sl.len.toNat + 1) h

/-! ### what `step_sim` says about each call the bitmap makes -/

theorem cfgRB_total : TotalCmp cfgRB.cmp := cmpNat_total

theorem good_zero : Good cfgRB (SL.zero : SL Nat Container) := Or.inr ⟨rfl, rfl⟩

theorem cmpNat_lt {a b : Nat} : cmpNat a b < 0 ↔ a < b := by
  simp only [cmpNat]; (repeat' split) <;> omega

/-- The abstraction of a reachable skip list is key-ascending. -/
theorem good_keySorted {s : SL Nat Container} (hg : Good cfgRB s) : KeySorted (toMap s) := by
  rcases hg with h | ⟨_, rfl⟩
  · have := Inv.toMap_sorted h
    unfold KeySorted
    rw [List.pairwise_map]
    exact this.imp (fun h => cmpNat_lt.mp h)
  · exact List.Pairwise.nil

theorem sl_getNode {s : SL Nat Container} (hg : Good cfgRB s) (k : Nat) :
    s.getNode cfgRB k = some (if (omGet (toMap s) k).isSome then some k else none) := by
  obtain ⟨s', out, h1, _, h3, _⟩ := step_sim cfgRB cfgRB_total rfl hg (.getNode k)
  simp only [SL.step, Golib.C02.OMap.step] at h1 h3
  rw [omGet_eq]
  cases hn : s.getNode cfgRB k with
  | none => rw [hn] at h1; cases h1
  | some n =>
    rw [hn] at h1
    simp only [Option.map_some, Option.some.injEq, Prod.mk.injEq] at h1
    obtain ⟨rfl, rfl⟩ := h1
    simp only [Prod.mk.injEq, Out.node.injEq, true_and] at h3
    rw [h3]

theorem sl_get {s : SL Nat Container} (hg : Good cfgRB s) (k : Nat) :
    s.get cfgRB k = some (match omGet (toMap s) k with
      | some v => (v, true)
      | none => (cfgRB.zeroV, false)) := by
  obtain ⟨s', out, h1, _, h3, _⟩ := step_sim cfgRB cfgRB_total rfl hg (.get k)
  simp only [SL.step, Golib.C02.OMap.step] at h1 h3
  rw [omGet_eq]
  cases hn : s.get cfgRB k with
  | none => rw [hn] at h1; cases h1
  | some p =>
    obtain ⟨v, b⟩ := p
    rw [hn] at h1
    simp only [Option.map_some, Option.some.injEq, Prod.mk.injEq] at h1
    obtain ⟨rfl, rfl⟩ := h1
    cases hm : Golib.C02.OMap.get (toMap s) k with
    | none =>
      rw [hm] at h3
      simp only [Prod.mk.injEq, Out.valBool.injEq, true_and] at h3
      obtain ⟨rfl, rfl⟩ := h3; rfl
    | some v0 =>
      rw [hm] at h3
      simp only [Prod.mk.injEq, Out.valBool.injEq, true_and] at h3
      obtain ⟨rfl, rfl⟩ := h3; rfl

/-- `node.Value()` on the node `GetNode(k)` found is the binding of `k`. -/
theorem sl_value {s : SL Nat Container} (hg : Good cfgRB s) {k : Nat} {c : Container}
    (hk : omGet (toMap s) k = some c) : getVal s.vals k = some c := by
  have h1 := sl_get hg k
  have h2 := sl_getNode hg k
  rw [hk] at h1 h2
  simp only [Option.isSome_some, if_true] at h1 h2
  unfold SL.get at h1
  rw [h2] at h1
  simp only [] at h1
  cases hv : getVal s.vals k with
  | none => rw [hv] at h1; cases h1
  | some v =>
    rw [hv] at h1
    simp only [Option.some.injEq, Prod.mk.injEq, and_true] at h1
    rw [h1]

theorem sl_set {s : SL Nat Container} (hg : Good cfgRB s) (k : Nat) (c : Container) (w : Nat) :
    ∃ s' b, s.set cfgRB k c 0 w = some (s', b) ∧ Good cfgRB s' ∧ toMap s' = omSet (toMap s) k c := by
  obtain ⟨s', out, h1, h2, h3, _⟩ := step_sim cfgRB cfgRB_total rfl hg (.set k c w)
  simp only [SL.step, Golib.C02.OMap.step] at h1 h3
  cases hn : s.set cfgRB k c 0 w with
  | none => rw [hn] at h1; cases h1
  | some p =>
    obtain ⟨s1, b⟩ := p
    rw [hn] at h1
    simp only [Option.map_some, Option.some.injEq, Prod.mk.injEq] at h1
    obtain ⟨rfl, _⟩ := h1
    simp only [Prod.mk.injEq, and_true] at h3
    exact ⟨s1, b, rfl, h2, by rw [omSet_eq (good_keySorted hg)]; exact h3.1.symm⟩

/-- `node.SetValue(c)` on the node found under a present key. -/
theorem sl_setNodeValue {s : SL Nat Container} (hg : Good cfgRB s) {k : Nat}
    (hk : (omGet (toMap s) k).isSome = true) (c : Container) :
    Good cfgRB (s.setNodeValue k c) ∧ toMap (s.setNodeValue k c) = omSetValue (toMap s) k c := by
  obtain ⟨s', out, h1, h2, h3, _⟩ := step_sim cfgRB cfgRB_total rfl hg (.setNodeValue k c)
  have hn := sl_getNode hg k
  rw [hk] at hn
  rw [omGet_eq] at hk
  simp only [SL.step, Golib.C02.OMap.step, hn, hk, if_true, Option.map_some, Option.some.injEq,
    Prod.mk.injEq] at h1 h3
  obtain ⟨rfl, _⟩ := h1
  rw [← omGet_eq] at hk
  refine ⟨h2, ?_⟩
  rw [omSetValue_eq (good_keySorted hg) k c hk, omSet_eq (good_keySorted hg)]
  exact h3.1.symm

theorem omRemove_absent {cs : OMap} {k : Nat} (h : omGet cs k = none) : omRemove cs k = cs := by
  induction cs with
  | nil => rfl
  | cons p rest ih =>
    obtain ⟨a, c⟩ := p
    unfold omGet at h
    unfold omRemove
    by_cases hak : a = k
    · simp [hak] at h
    · simp only [hak, if_false] at h ⊢
      rw [ih h]

theorem sl_remove {s : SL Nat Container} (hg : Good cfgRB s) (k : Nat) :
    ∃ s' v b, s.remove cfgRB k = some (s', v, b) ∧ Good cfgRB s' ∧ toMap s' = omRemove (toMap s) k := by
  obtain ⟨s', out, h1, h2, h3, _⟩ := step_sim cfgRB cfgRB_total rfl hg (.remove k)
  simp only [SL.step, Golib.C02.OMap.step] at h1 h3
  cases hn : s.remove cfgRB k with
  | none => rw [hn] at h1; cases h1
  | some p =>
    obtain ⟨s1, v, b⟩ := p
    rw [hn] at h1
    simp only [Option.map_some, Option.some.injEq, Prod.mk.injEq] at h1
    obtain ⟨rfl, _⟩ := h1
    refine ⟨s1, v, b, rfl, h2, ?_⟩
    cases hm : Golib.C02.OMap.get (toMap s) k with
    | none =>
      rw [hm] at h3
      simp only [Prod.mk.injEq] at h3
      rw [omRemove_absent (by rw [omGet_eq]; exact hm)]
      exact h3.1.symm
    | some v0 =>
      rw [hm] at h3
      simp only [Prod.mk.injEq] at h3
      rw [omRemove_eq (good_keySorted hg)]
      exact h3.1.symm

/-! ### the Head/Next chain -/

theorem getVal_isSome_iff {vals : List (Nat × Container)} {k : Nat} :
    (getVal vals k).isSome = true ↔ k ∈ vals.map Prod.fst := by
  induction vals with
  | nil => simp [getVal]
  | cons p rest ih =>
    obtain ⟨a, b⟩ := p
    unfold getVal
    by_cases h : a = k
    · simp [h]
    · simp only [h, if_false, List.map_cons, List.mem_cons]
      rw [ih]; constructor
      · exact Or.inr
      · rintro (e | e)
        · exact absurd e.symm h
        · exact e

/-- The binding of a node, as `toMap` reads it. -/
def bindOf (vals : List (Nat × Container)) (k : Nat) : Option (Nat × Container) :=
  (getVal vals k).map (fun v => (k, v))

theorem toMap_bindOf (s : SL Nat Container) : toMap s = (chain0 s).filterMap (bindOf s.vals) := rfl

theorem filterMap_bindOf_keys (vals : List (Nat × Container)) :
    ∀ (l : List Nat), (∀ k ∈ l, ∃ v, getVal vals k = some v) →
      (l.filterMap (bindOf vals)).map Prod.fst = l := by
  intro l
  induction l with
  | nil => intro _; rfl
  | cons x xs ih =>
    intro h
    obtain ⟨v, hv⟩ := h x (by simp)
    have : bindOf vals x = some (x, v) := by simp [bindOf, hv]
    rw [List.filterMap_cons, this]
    simp only [List.map_cons]
    rw [ih (fun k hk => h k (by simp [hk]))]

theorem afterNode_mid {pre rest : List Nat} {n : Nat} (h : n ∉ pre) :
    Golib.C02.afterNode n (pre ++ n :: rest) = some rest := by
  induction pre with
  | nil => simp [Golib.C02.afterNode]
  | cons a pre ih =>
    simp only [List.mem_cons, not_or] at h
    have : a ≠ n := fun e => h.1 e.symm
    simp only [List.cons_append, Golib.C02.afterNode, this, if_false]
    exact ih h.2

theorem nodesLoop_none (s : SL Nat Container) (fuel : Nat) : nodesLoop s fuel none = some [] := by
  cases fuel <;> rfl

theorem nodesLoop_chain (s : SL Nat Container) (l0 : List Nat) (rest0 : List (List Nat))
    (hlv : s.lv = l0 :: rest0) (hnd : l0.Nodup) (hv : ∀ k ∈ l0, ∃ v, getVal s.vals k = some v) :
    ∀ (rest pre : List Nat) (n fuel : Nat), l0 = pre ++ n :: rest → rest.length < fuel →
      nodesLoop s fuel (some n) = some ((n :: rest).filterMap (bindOf s.vals)) := by
  intro rest
  induction rest with
  | nil =>
    intro pre n fuel hl hf
    obtain ⟨f, rfl⟩ : ∃ f, fuel = f + 1 := ⟨fuel - 1, by simp only [List.length_nil] at hf; omega⟩
    obtain ⟨c, hc⟩ := hv n (by rw [hl]; simp)
    have hnp : n ∉ pre := by
      rw [hl] at hnd
      have := (List.nodup_append.mp hnd).2.2
      intro hm; exact this n hm n (by simp) rfl
    have hnx : s.nodeNext n = some none := by
      unfold SL.nodeNext; rw [hlv]; simp only []; rw [hl, afterNode_mid hnp]; rfl
    unfold nodesLoop
    simp only [hc, hnx, nodesLoop_none, Option.map_some, List.filterMap_cons, bindOf, List.filterMap_nil]
  | cons m rest ih =>
    intro pre n fuel hl hf
    obtain ⟨f, rfl⟩ : ∃ f, fuel = f + 1 := ⟨fuel - 1, by simp only [List.length_cons] at hf; omega⟩
    obtain ⟨c, hc⟩ := hv n (by rw [hl]; simp)
    have hnp : n ∉ pre := by
      rw [hl] at hnd
      have := (List.nodup_append.mp hnd).2.2
      intro hm; exact this n hm n (by simp) rfl
    have hnx : s.nodeNext n = some (some m) := by
      unfold SL.nodeNext; rw [hlv]; simp only []; rw [hl, afterNode_mid hnp]; rfl
    have := ih (pre ++ [n]) m f (by rw [hl]; simp) (by simp only [List.length_cons] at hf; omega)
    unfold nodesLoop
    simp only [hc, hnx, this, Option.map_some]
    rw [List.filterMap_cons (a := n)]
    simp only [bindOf, hc, Option.map_some]

/-- The `Head()/Next()` walk over a reachable skip list visits exactly the bindings of its
abstraction, in order, and needs at most `Len()+1` rounds. -/
theorem nodes_good {s : SL Nat Container} (hg : Good cfgRB s) (len : Int) :
    (⟨s, len⟩ : RBS).nodes = some (toMap s) := by
  have hks := good_keySorted hg
  rcases hg with h | ⟨_, rfl⟩
  · have h32 := h.len32
    cases hlv : s.lv with
    | nil => rw [hlv] at h32; simp [Golib.C02.maxLevel] at h32
    | cons l0 rest0 =>
      have hc0 : chain0 s = l0 := by unfold chain0; rw [hlv]; rfl
      have hv : ∀ k ∈ l0, ∃ v, getVal s.vals k = some v := by
        intro k hk
        rw [← hc0] at hk
        exact Option.isSome_iff_exists.mp (getVal_isSome_iff.mpr ((h.vals k).mpr hk))
      have hnd : l0.Nodup := by
        unfold KeySorted at hks
        rw [toMap_bindOf, hc0, filterMap_bindOf_keys s.vals l0 hv] at hks
        exact hks.imp (fun h => Nat.ne_of_lt h)
      have hlen := h.len
      rw [hc0] at hlen
      rw [toMap_bindOf, hc0]
      unfold RBS.nodes SL.head
      simp only [hlv]
      cases hl : l0 with
      | nil =>
        rw [hl] at hlen
        simp only [List.length_nil] at hlen
        simp [hlen, nodesLoop_none]
      | cons n rest =>
        rw [hl] at hlen
        simp only [List.length_cons] at hlen
        have hne : (s.len == 0) = false := by rw [hlen]; simp; omega
        simp only [hne, Bool.false_eq_true, if_false, List.head?_cons]
        rw [← hl]
        rw [nodesLoop_chain s l0 rest0 hlv hnd hv rest [] n _ (by simp [hl]) (by rw [hlen]; omega)]
        rw [hl]
  · simp [RBS.nodes, SL.head, SL.zero, nodesLoop_none]
    rfl

/-! ### the simulation -/

/-- The association-list bitmap `r` and the bitmap over the skip-list model `rs` are in the
same abstract state. -/
def Rel (r : RB) (rs : RBS) : Prop := r.cs = toMap rs.sl ∧ r.len = rs.len ∧ Good cfgRB rs.sl

theorem rel_zero : Rel RB.empty RBS.zero := ⟨rfl, rfl, good_zero⟩

theorem add_sim {r : RB} {rs : RBS} (h : Rel r rs) (x w : Nat) {r' : RB} {ok : Bool}
    (ha : r.add x = some (r', ok)) : ∃ rs', rs.add x w = some (rs', ok) ∧ Rel r' rs' := by
  obtain ⟨hcs, hlen, hg⟩ := h
  obtain ⟨cs, len⟩ := r
  obtain ⟨sl, len'⟩ := rs
  simp only [] at hcs hlen hg
  subst hcs hlen
  unfold RB.add at ha
  unfold RBS.add
  simp only [sl_getNode hg] at ha ⊢
  cases hget : omGet (toMap sl) (x >>> 16) with
  | none =>
    simp only [hget, Option.isSome_none, Bool.false_eq_true, if_false] at ha ⊢
    cases harr : arrAdd #[] (x % 65536) with
    | none => rw [harr] at ha; cases ha
    | some p =>
      obtain ⟨ac, p2, p3⟩ := p
      rw [harr] at ha
      simp only [Option.some.injEq, Prod.mk.injEq] at ha ⊢
      obtain ⟨rfl, rfl⟩ := ha
      obtain ⟨s', b, h1, h2, h3⟩ := sl_set hg (x >>> 16) (.arr ac) w
      rw [h1]
      exact ⟨⟨s', _⟩, rfl, h3.symm, rfl, h2⟩
  | some c =>
    simp only [hget, Option.isSome_some, if_true, sl_value hg hget] at ha ⊢
    cases hadd : c.add (x % 65536) with
    | none => rw [hadd] at ha; cases ha
    | some p =>
      obtain ⟨p1, nc, ok'⟩ := p
      rw [hadd] at ha
      simp only [Option.some.injEq, Prod.mk.injEq] at ha ⊢
      obtain ⟨rfl, rfl⟩ := ha
      obtain ⟨h2, h3⟩ := sl_setNodeValue hg (k := x >>> 16) (by rw [hget]; rfl) nc
      exact ⟨_, ⟨rfl, rfl⟩, h3.symm, rfl, h2⟩

theorem remove_sim {r : RB} {rs : RBS} (h : Rel r rs) (x : Nat) {r' : RB} {ok : Bool}
    (ha : r.remove x = some (r', ok)) : ∃ rs', rs.remove x = some (rs', ok) ∧ Rel r' rs' := by
  obtain ⟨hcs, hlen, hg⟩ := h
  obtain ⟨cs, len⟩ := r
  obtain ⟨sl, len'⟩ := rs
  simp only [] at hcs hlen hg
  subst hcs hlen
  unfold RB.remove at ha
  unfold RBS.remove
  simp only [sl_get hg, sl_getNode hg] at ha ⊢
  cases hget : omGet (toMap sl) (x >>> 16) with
  | none =>
    simp only [hget, Option.some.injEq, Prod.mk.injEq] at ha ⊢
    obtain ⟨rfl, rfl⟩ := ha
    exact ⟨_, ⟨rfl, rfl⟩, rfl, rfl, hg⟩
  | some c =>
    simp only [hget, Option.isSome_some, if_true] at ha ⊢
    cases hrem : c.remove (x % 65536) with
    | none => rw [hrem] at ha; cases ha
    | some p =>
      obtain ⟨c', ok'⟩ := p
      rw [hrem] at ha
      simp only [] at ha ⊢
      obtain ⟨h2, h3⟩ := sl_setNodeValue hg (k := x >>> 16) (by rw [hget]; rfl) c'
      cases ok' with
      | false =>
        simp only [Bool.false_eq_true, if_false, Option.some.injEq, Prod.mk.injEq] at ha ⊢
        obtain ⟨rfl, rfl⟩ := ha
        exact ⟨_, ⟨rfl, rfl⟩, h3.symm, rfl, h2⟩
      | true =>
        simp only [if_true] at ha ⊢
        by_cases hz : (c'.len == 0) = true
        · simp only [hz, if_true, Option.some.injEq, Prod.mk.injEq] at ha ⊢
          obtain ⟨rfl, rfl⟩ := ha
          obtain ⟨s2, v, b, e1, e2, e3⟩ := sl_remove h2 (x >>> 16)
          rw [e1]
          refine ⟨⟨s2, _⟩, rfl, ?_, rfl, e2⟩
          simp only []
          rw [e3, h3]
        · simp only [hz, Bool.false_eq_true, if_false, Option.some.injEq, Prod.mk.injEq] at ha ⊢
          obtain ⟨rfl, rfl⟩ := ha
          exact ⟨_, ⟨rfl, rfl⟩, h3.symm, rfl, h2⟩

theorem contains_sim {r : RB} {rs : RBS} (h : Rel r rs) (x : Nat) : rs.contains x = r.contains x := by
  obtain ⟨hcs, hlen, hg⟩ := h
  unfold RB.contains RBS.contains
  simp only [sl_get hg, hcs]
  cases hget : omGet (toMap rs.sl) (x >>> 16) <;> rfl

theorem nodes_sim {r : RB} {rs : RBS} (h : Rel r rs) : rs.nodes = some r.cs := by
  obtain ⟨hcs, hlen, hg⟩ := h
  obtain ⟨sl, len'⟩ := rs
  rw [hcs]; exact nodes_good hg len'

/-! ### whole call sequences -/

/-- A call on the bitmap (`w` = the word the skip list's random source returns during an `Add`
that creates a bucket). -/
inductive SOp where
  | add (x w : Nat)
  | remove (x : Nat)
  | contains (x : Nat)

/-- The `uint32` argument. -/
def SOp.arg : SOp → Nat
  | .add x _ => x
  | .remove x => x
  | .contains x => x

/-- One call on the association-list model. -/
def RB.stepS (r : RB) : SOp → Option (RB × Bool)
  | .add x _ => r.add x
  | .remove x => r.remove x
  | .contains x => (r.contains x).map fun b => (r, b)

/-- The same call on the bitmap over the skip-list model. -/
def RBS.step (rs : RBS) : SOp → Option (RBS × Bool)
  | .add x w => rs.add x w
  | .remove x => rs.remove x
  | .contains x => (rs.contains x).map fun b => (rs, b)

/-- Final state and answers (`none`: some call panicked). -/
def RB.runS : RB → List SOp → Option (RB × List Bool)
  | r, [] => some (r, [])
  | r, op :: ops =>
    match r.stepS op with
    | none => none
    | some (r', b) => (RB.runS r' ops).map fun (r'', bs) => (r'', b :: bs)

def RBS.run : RBS → List SOp → Option (RBS × List Bool)
  | rs, [] => some (rs, [])
  | rs, op :: ops =>
    match rs.step op with
    | none => none
    | some (rs', b) => (RBS.run rs' ops).map fun (rs'', bs) => (rs'', b :: bs)

theorem step_over_skip {r : RB} {rs : RBS} (h : Rel r rs) (hi : r.Inv) (op : SOp)
    (hx : op.arg < 4294967296) :
    ∃ r' rs' b, r.stepS op = some (r', b) ∧ rs.step op = some (rs', b) ∧ Rel r' rs' ∧ r'.Inv := by
  cases op with
  | add x w =>
    obtain ⟨r', ok, h1, h2, _⟩ := RB.add_spec r hi x hx
    obtain ⟨rs', h3, h4⟩ := add_sim h x w h1
    exact ⟨r', rs', ok, h1, h3, h4, h2⟩
  | remove x =>
    obtain ⟨r', ok, h1, h2, _⟩ := RB.remove_spec r hi x hx
    obtain ⟨rs', h3, h4⟩ := remove_sim h x h1
    exact ⟨r', rs', ok, h1, h3, h4, h2⟩
  | contains x =>
    refine ⟨r, rs, decide (x ∈ r.toList), ?_, ?_, h, hi⟩
    · simp only [RB.stepS, RB.contains_spec r hi x, Option.map_some]
    · simp only [RBS.step, contains_sim h x, RB.contains_spec r hi x, Option.map_some]

theorem run_over_skip : ∀ (ops : List SOp) {r : RB} {rs : RBS}, Rel r rs → r.Inv →
    (∀ op ∈ ops, op.arg < 4294967296) →
    ∃ r' rs' outs, RB.runS r ops = some (r', outs) ∧ RBS.run rs ops = some (rs', outs) ∧
      Rel r' rs' ∧ r'.Inv := by
  intro ops
  induction ops with
  | nil => intro r rs h hi _; exact ⟨r, rs, [], rfl, rfl, h, hi⟩
  | cons op ops ih =>
    intro r rs h hi hx
    obtain ⟨r1, rs1, b, h1, h2, h3, h4⟩ := step_over_skip h hi op (hx op (by simp))
    obtain ⟨r2, rs2, outs, h5, h6, h7, h8⟩ := ih h3 h4 (fun o ho => hx o (by simp [ho]))
    refine ⟨r2, rs2, b :: outs, ?_, ?_, h7, h8⟩
    · simp only [RB.runS, h1, h5, Option.map_some]
    · simp only [RBS.run, h2, h6, Option.map_some]

end Golib.C03
