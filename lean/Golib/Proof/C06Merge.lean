/-
C06 helper lemmas: `mergeScopes` (repaired) turns a scope list sorted by `stop` into a
strictly increasing, pairwise disjoint list with the same union.

The array loop `mergeLoop true` is shown to simulate a zipper (`zipLoop`: reversed
processed prefix, current element, rest); the invariant is proved on the zipper.
-/
import Golib.Model.C06Replace

set_option linter.unusedSimpArgs false
set_option linter.unusedVariables false

namespace Golib.C05
def Scope.NonEmpty (s : Scope) : Prop := s.start < s.stop
end Golib.C05

namespace Golib.C06
open Golib Golib.C05

/-- Byte position `x` lies inside some scope of `l`. -/
def covered (l : List Scope) (x : Int) : Prop := ∃ s ∈ l, s.start ≤ x ∧ x < s.stop

/-- Emission order of `find`: non-decreasing end positions. -/
def SortedByStop (l : List Scope) : Prop := l.Pairwise fun a b => a.stop ≤ b.stop

/-- Pairwise disjoint and in increasing order. -/
def Disjoint (l : List Scope) : Prop := l.Pairwise fun a b => a.stop ≤ b.start

def AllNonEmpty (l : List Scope) : Prop := ∀ s ∈ l, Scope.NonEmpty s

/-! ### hull -/

theorem hull_stop (a b : Scope) (h : a.stop ≤ b.stop) : (hull a b).stop = b.stop := by
  obtain ⟨as, ae⟩ := a; obtain ⟨bs, be⟩ := b
  simp only [hull] at *
  split <;> split <;> simp only [] at * <;> omega

theorem hull_start (a b : Scope) : (hull a b).start = min a.start b.start := by
  obtain ⟨as, ae⟩ := a; obtain ⟨bs, be⟩ := b
  simp only [hull] at *
  split <;> split <;> simp only [] at * <;> omega

theorem hull_cover (a b : Scope) (ha : a.NonEmpty) (hb : b.NonEmpty) (hs : a.stop ≤ b.stop)
    (ho : a.stop > b.start) (x : Int) :
    ((hull a b).start ≤ x ∧ x < (hull a b).stop) ↔
      ((a.start ≤ x ∧ x < a.stop) ∨ (b.start ≤ x ∧ x < b.stop)) := by
  rw [hull_stop a b hs, hull_start]
  unfold Scope.NonEmpty at ha hb
  omega

theorem hull_nonEmpty (a b : Scope) (hb : b.NonEmpty) (hs : a.stop ≤ b.stop) : (hull a b).NonEmpty := by
  unfold Scope.NonEmpty at *
  rw [hull_stop a b hs, hull_start]; omega

/-! ### the zipper -/

def zipLoop : Nat → List Scope → Scope → List Scope → Option (List Scope)
  | 0, _, _, _ => none
  | _ + 1, pre, cur, [] => some (pre.reverse ++ [cur])
  | fuel + 1, pre, cur, b :: rest =>
    if cur.stop > b.start then
      match pre with
      | [] => zipLoop fuel [] (hull cur b) rest
      | p :: ps => zipLoop fuel ps p (hull cur b :: rest)
    else zipLoop fuel (cur :: pre) b rest

theorem merge_delete (pre : List Scope) (cur b h : Scope) (rest : List Scope) :
    ((pre.reverse ++ cur :: b :: rest).set pre.length h).take (pre.length + 1)
      ++ (pre.reverse ++ cur :: b :: rest).drop (pre.length + 2) = pre.reverse ++ h :: rest := by
  apply List.ext_getElem?; intro i
  simp only [List.getElem?_take, List.getElem?_drop, List.getElem?_set, List.getElem?_append,
    List.length_take, List.length_set, List.length_append, List.length_reverse, List.length_cons,
    List.getElem?_cons]
  grind

theorem mergeLoop_eq_zip (fuel : Nat) : ∀ (pre : List Scope) (cur : Scope) (rest : List Scope),
    mergeLoop true fuel pre.length (pre.reverse ++ cur :: rest) = zipLoop fuel pre cur rest := by
  induction fuel with
  | zero => intros; rfl
  | succ fuel ih =>
    intro pre cur rest
    have hlen : (pre.reverse ++ cur :: rest).length = pre.length + 1 + rest.length := by
      simp; omega
    have hi : (pre.reverse ++ cur :: rest)[pre.length]? = some cur := by
      rw [List.getElem?_append_right (by simp)]; simp
    cases rest with
    | nil =>
      simp only [mergeLoop, zipLoop, hlen, List.length_nil]
      simp
    | cons b rest =>
      have hi1 : (pre.reverse ++ cur :: b :: rest)[pre.length + 1]? = some b := by
        rw [List.getElem?_append_right (by simp)]; simp
      have hlt : pre.length + 1 < (pre.reverse ++ cur :: b :: rest).length := by
        rw [hlen]; simp
      simp only [mergeLoop, zipLoop, hlt, if_true, hi, hi1]
      by_cases ho : cur.stop > b.start
      · simp only [ho, if_true, merge_delete]
        cases pre with
        | nil =>
          have := ih [] (hull cur b) rest
          simpa using this
        | cons p ps =>
          have := ih ps p (hull cur b :: rest)
          simp only [List.length_cons, List.reverse_cons, List.append_assoc, List.singleton_append,
            true_and, Nat.succ_pos, if_true, Nat.add_sub_cancel, gt_iff_lt, Nat.zero_lt_succ] at this ⊢
          exact this
      · simp only [ho, if_false]
        have := ih (cur :: pre) b rest
        simp only [List.length_cons, List.reverse_cons, List.append_assoc, List.singleton_append] at this
        exact this

/-- Invariant of the zipper. -/
structure ZInv (pre : List Scope) (cur : Scope) (rest : List Scope) : Prop where
  ne : AllNonEmpty (pre.reverse ++ cur :: rest)
  sorted : SortedByStop (pre.reverse ++ cur :: rest)
  disj : Disjoint (pre.reverse ++ [cur])

theorem covered_append (l1 l2 : List Scope) (x : Int) :
    covered (l1 ++ l2) x ↔ covered l1 x ∨ covered l2 x := by
  simp only [covered, List.mem_append]
  constructor
  · rintro ⟨s, hs | hs, h⟩
    · exact Or.inl ⟨s, hs, h⟩
    · exact Or.inr ⟨s, hs, h⟩
  · rintro (⟨s, hs, h⟩ | ⟨s, hs, h⟩)
    · exact ⟨s, Or.inl hs, h⟩
    · exact ⟨s, Or.inr hs, h⟩

theorem covered_cons (a : Scope) (l : List Scope) (x : Int) :
    covered (a :: l) x ↔ (a.start ≤ x ∧ x < a.stop) ∨ covered l x := by
  simp only [covered, List.mem_cons]
  constructor
  · rintro ⟨s, hs | hs, h⟩
    · subst hs; exact Or.inl h
    · exact Or.inr ⟨s, hs, h⟩
  · rintro (h | ⟨s, hs, h⟩)
    · exact ⟨a, Or.inl rfl, h⟩
    · exact ⟨s, Or.inr hs, h⟩

/-- What `mergeScopes` must deliver. -/
structure Merged (orig r : List Scope) : Prop where
  disj : Disjoint r
  ne : AllNonEmpty r
  cover : ∀ x, covered r x ↔ covered orig x
  /-- every input scope lies inside one result scope -/
  inside : ∀ o ∈ orig, ∃ s ∈ r, s.start ≤ o.start ∧ o.stop ≤ s.stop
  /-- every result scope starts where some input scope starts -/
  starts : ∀ s ∈ r, ∃ o ∈ orig, o.start = s.start ∧ o.stop ≤ s.stop
  /-- every result scope ends where some input scope ends -/
  stops : ∀ s ∈ r, ∃ o ∈ orig, o.stop = s.stop

theorem zip_spec (fuel : Nat) : ∀ (pre : List Scope) (cur : Scope) (rest : List Scope),
    pre.length + 2 * rest.length + 1 ≤ fuel → ZInv pre cur rest →
    ∃ r, zipLoop fuel pre cur rest = some r ∧ Merged (pre.reverse ++ cur :: rest) r := by
  induction fuel with
  | zero => intro pre cur rest h; omega
  | succ fuel ih =>
    intro pre cur rest hf inv
    cases rest with
    | nil =>
      exact ⟨pre.reverse ++ [cur], rfl, inv.disj, inv.ne, fun x => Iff.rfl,
        fun o ho => ⟨o, ho, Int.le_refl _, Int.le_refl _⟩, fun s hs => ⟨s, hs, rfl, Int.le_refl _⟩,
        fun s hs => ⟨s, hs, rfl⟩⟩
    | cons b rest =>
      have hne := inv.ne
      have hsorted := inv.sorted
      have hcur : cur.NonEmpty := hne cur (by simp)
      have hb : b.NonEmpty := hne b (by simp)
      have hcb : cur.stop ≤ b.stop := by
        have := hsorted
        simp only [SortedByStop, List.pairwise_append, List.pairwise_cons] at this
        exact this.2.1.1 b (by simp)
      simp only [zipLoop]
      by_cases ho : cur.stop > b.start
      · simp only [ho, if_true]
        have hhs := hull_stop cur b hcb
        have hhn := hull_nonEmpty cur b hb hcb
        -- the array after the merge
        have hne' : AllNonEmpty (pre.reverse ++ hull cur b :: rest) := by
          intro s hs
          simp only [List.mem_append, List.mem_cons, List.mem_reverse] at hs
          rcases hs with hs | hs | hs
          · exact hne s (by simp [hs])
          · subst hs; exact hhn
          · exact hne s (by simp [hs])
        have hsorted' : SortedByStop (pre.reverse ++ hull cur b :: rest) := by
          simp only [SortedByStop, List.pairwise_append, List.pairwise_cons, List.mem_cons,
            List.mem_reverse] at hsorted ⊢
          obtain ⟨h1, ⟨h2, h3, h4⟩, h5⟩ := hsorted
          refine ⟨h1, ⟨?_, h4⟩, ?_⟩
          · intro a ha; rw [hhs]; exact h3 a ha
          · intro a ha c hc
            rcases hc with hc | hc
            · subst hc; rw [hhs]; exact h5 a ha b (Or.inr (Or.inl rfl))
            · exact h5 a ha c (Or.inr (Or.inr hc))
        have hcov : ∀ x, covered (pre.reverse ++ hull cur b :: rest) x ↔
            covered (pre.reverse ++ cur :: b :: rest) x := by
          intro x
          simp only [covered_append, covered_cons, hull_cover cur b hcur hb hcb ho x]
          grind
        have hins : ∀ r : List Scope, (∀ o ∈ pre.reverse ++ hull cur b :: rest, ∃ s ∈ r, s.start ≤ o.start ∧ o.stop ≤ s.stop) →
            ∀ o ∈ pre.reverse ++ cur :: b :: rest, ∃ s ∈ r, s.start ≤ o.start ∧ o.stop ≤ s.stop := by
          intro r h o ho
          have hh := h (hull cur b) (by simp)
          have hst := hull_start cur b
          simp only [List.mem_append, List.mem_cons, List.mem_reverse] at ho
          rcases ho with ho | ho | ho | ho
          · exact h o (by simp [ho])
          · subst ho; obtain ⟨s, hs, h1, h2⟩ := hh; exact ⟨s, hs, by omega, by omega⟩
          · subst ho; obtain ⟨s, hs, h1, h2⟩ := hh; exact ⟨s, hs, by omega, by omega⟩
          · exact h o (by simp [ho])
        have hsts : ∀ r : List Scope, (∀ s ∈ r, ∃ o ∈ pre.reverse ++ hull cur b :: rest, o.start = s.start ∧ o.stop ≤ s.stop) →
            ∀ s ∈ r, ∃ o ∈ pre.reverse ++ cur :: b :: rest, o.start = s.start ∧ o.stop ≤ s.stop := by
          intro r h s hs
          obtain ⟨o, ho, h1, h2⟩ := h s hs
          have hst := hull_start cur b
          simp only [List.mem_append, List.mem_cons, List.mem_reverse] at ho
          rcases ho with ho | ho | ho
          · exact ⟨o, by simp [ho], h1, h2⟩
          · subst ho
            by_cases hc : cur.start ≤ b.start
            · exact ⟨cur, by simp, by omega, by omega⟩
            · exact ⟨b, by simp, by omega, by omega⟩
          · exact ⟨o, by simp [ho], h1, h2⟩
        have hstp : ∀ r : List Scope, (∀ s ∈ r, ∃ o ∈ pre.reverse ++ hull cur b :: rest, o.stop = s.stop) →
            ∀ s ∈ r, ∃ o ∈ pre.reverse ++ cur :: b :: rest, o.stop = s.stop := by
          intro r h s hs
          obtain ⟨o, ho, h1⟩ := h s hs
          simp only [List.mem_append, List.mem_cons, List.mem_reverse] at ho
          rcases ho with ho | ho | ho
          · exact ⟨o, by simp [ho], h1⟩
          · subst ho; exact ⟨b, by simp, by rw [← h1, hhs]⟩
          · exact ⟨o, by simp [ho], h1⟩
        have hf' : pre.length + 2 * rest.length + 2 ≤ fuel := by
          simp only [List.length_cons] at hf; omega
        cases pre with
        | nil =>
          have inv' : ZInv [] (hull cur b) rest := ⟨hne', hsorted', by simp [Disjoint]⟩
          obtain ⟨r, hr, hm⟩ := ih [] (hull cur b) rest (by simp only [List.length_nil] at hf' ⊢; omega) inv'
          exact ⟨r, hr, hm.disj, hm.ne, fun x => (hm.cover x).trans (hcov x),
            by simpa using hins r (by simpa using hm.inside), by simpa using hsts r (by simpa using hm.starts),
            by simpa using hstp r (by simpa using hm.stops)⟩
        | cons p ps =>
          have hd := inv.disj
          have inv' : ZInv ps p (hull cur b :: rest) := by
            refine ⟨?_, ?_, ?_⟩
            · simpa using hne'
            · simpa [SortedByStop] using hsorted'
            · simp only [Disjoint, List.reverse_cons, List.append_assoc, List.pairwise_append] at hd ⊢
              refine ⟨hd.1, by simp, fun a ha c hc => hd.2.2 a ha c ?_⟩
              simp only [List.mem_singleton] at hc
              simp [hc]
          obtain ⟨r, hr, hm⟩ := ih ps p (hull cur b :: rest)
            (by simp only [List.length_cons] at hf' ⊢; omega) inv'
          refine ⟨r, hr, hm.disj, hm.ne, fun x => ?_, ?_, ?_, ?_⟩
          · have := hcov x
            simp only [List.reverse_cons, List.append_assoc, List.singleton_append] at this ⊢
            exact (hm.cover x).trans this
          · have := hins r (by simpa using hm.inside)
            simpa using this
          · have := hsts r (by simpa using hm.starts)
            simpa using this
          · have := hstp r (by simpa using hm.stops)
            simpa using this
      · simp only [ho, if_false]
        have hle : cur.stop ≤ b.start := by omega
        have inv' : ZInv (cur :: pre) b rest := by
          refine ⟨?_, ?_, ?_⟩
          · simpa using hne
          · simpa [SortedByStop] using hsorted
          · have hd := inv.disj
            simp only [Disjoint, List.reverse_cons, List.append_assoc, List.singleton_append,
              List.pairwise_append, List.pairwise_cons] at hd ⊢
            refine ⟨hd.1, ?_, ?_⟩
            · simp [hle]
            · intro a ha c hc
              have h1 := hd.2.2 a ha cur (by simp)
              simp only [List.mem_cons, List.not_mem_nil, or_false] at hc
              rcases hc with hc | hc
              · subst hc; exact h1
              · subst hc
                have : Scope.NonEmpty cur := hcur
                unfold Scope.NonEmpty at this
                omega
        obtain ⟨r, hr, hm⟩ := ih (cur :: pre) b rest
          (by simp only [List.length_cons] at hf ⊢; omega) inv'
        refine ⟨r, hr, hm.disj, hm.ne, fun x => ?_, ?_, ?_, ?_⟩
        · have := hm.cover x
          simpa using this
        · simpa using hm.inside
        · simpa using hm.starts
        · simpa using hm.stops

/-- `mergeScopes` (repaired) on a list sorted by `stop` with non-empty scopes: no panic,
the result is disjoint and increasing and has the same union. -/
theorem mergeScopes_spec (l : List Scope) (hs : SortedByStop l) (hne : AllNonEmpty l) :
    ∃ r, mergeScopes l = some r ∧ Merged l r := by
  cases l with
  | nil =>
    refine ⟨[], ?_, ?_⟩
    · simp [mergeScopes, mergeScopesWith, mergeLoop]
    · exact ⟨by simp [Disjoint], by simp [AllNonEmpty], fun x => Iff.rfl, by simp, by simp, by simp⟩
  | cons a rest =>
    have h := mergeLoop_eq_zip (2 * (a :: rest).length + 1) [] a rest
    simp only [List.length_nil, List.reverse_nil, List.nil_append] at h
    obtain ⟨r, hr, hm⟩ := zip_spec (2 * (a :: rest).length + 1) [] a rest
      (by simp only [List.length_cons, List.length_nil]; omega)
      ⟨by simpa using hne, by simpa using hs, by simp [Disjoint]⟩
    refine ⟨r, ?_, by simpa using hm⟩
    simp only [mergeScopes, mergeScopesWith, h, hr]

/-- Scopes of the result stay inside any window that contains all input scopes. -/
theorem merged_bounds {l r : List Scope} (hm : Merged l r) (lo hi : Int)
    (hb : ∀ s ∈ l, lo ≤ s.start ∧ s.stop ≤ hi) : ∀ s ∈ r, lo ≤ s.start ∧ s.stop ≤ hi := by
  intro s hs
  have hne : s.start < s.stop := hm.ne s hs
  obtain ⟨a, ha, h1, _⟩ := (hm.cover s.start).1 ⟨s, hs, Int.le_refl _, hne⟩
  obtain ⟨b, hb', _, h2⟩ := (hm.cover (s.stop - 1)).1 ⟨s, hs, by omega, by omega⟩
  have := hb a ha; have := hb b hb'
  omega

end Golib.C06
