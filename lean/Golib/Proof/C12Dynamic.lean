/-
C12 — atomicity for DYNAMIC programs (decision trees): a goroutine chooses its next call
by a function of its local state (`Policy`: goroutine, local state ↦ the body of the next
call, or `none` = stop), so not only the arguments but the control flow — which method is
called next, whether another call is made at all — may depend on the results of the
earlier calls.  `fuel` bounds the number of calls of a goroutine (depth of the tree).

The machine is the generic machine of `C12Conc` plus one silent step `load`: a goroutine
whose current call is finished loads the body chosen by the policy.  Every concurrent
execution equals the sequential history that performs, for each critical-section entry of
`t` in entry order, the call the policy chooses from `t`'s sequential local state.
Generalises `Proof/C12Programs.lean` (fixed lists of calls).
-/
import Golib.Proof.C12Programs
import Golib.Proof.C12Order

namespace Golib.C12

variable {σ μ : Type}

/-- goroutine `t` in local state `l` calls `pol t l` next (`none`: it stops) -/
abbrev Policy (σ μ : Type) := Nat → μ → Option (List (Act σ μ))

structure DConf (σ μ : Type) where
  c : Conf σ μ
  fuel : Nat → Nat

/-- goroutine `t` starts the call `b` -/
def Conf.load (c : Conf σ μ) (t : Nat) (b : List (Act σ μ)) : Conf σ μ :=
  { c with th := upd c.th t ⟨(c.th t).mode, b, (c.th t).loc⟩ }

inductive DStep (pol : Policy σ μ) : DConf σ μ → DConf σ μ → Prop
  | act {c c' : Conf σ μ} {fu : Nat → Nat} : Step c c' → DStep pol ⟨c, fu⟩ ⟨c', fu⟩
  | load {c : Conf σ μ} {fu : Nat → Nat} (t : Nat) (b : List (Act σ μ)) (n : Nat) :
      (c.th t).rest = [] → fu t = n + 1 → pol t (c.th t).loc = some b →
      DStep pol ⟨c, fu⟩ ⟨c.load t b, upd fu t n⟩

inductive DReach (pol : Policy σ μ) (d₀ : DConf σ μ) : DConf σ μ → Prop
  | refl : DReach pol d₀ d₀
  | step {d d'} : DReach pol d₀ d → DStep pol d d' → DReach pol d₀ d'

/-- nobody has started anything; goroutine `t` may make at most `fuel t` calls -/
def DConf.init (s₀ : σ) (init : Nat → μ) (fuel : Nat → Nat) : DConf σ μ :=
  ⟨Conf.init s₀ (fun _ => []) init, fuel⟩

/-- Goroutine `t` performs the call its policy chooses from its sequential local state. -/
def seqStepD (pol : Policy σ μ) (q : SeqSt σ μ) (t : Nat) : SeqSt σ μ :=
  match pol t (q.loc t) with
  | some b =>
    { sh := (runActs b q.sh (q.loc t)).1
      loc := upd q.loc t (runActs b q.sh (q.loc t)).2
      idx := upd q.idx t (q.idx t + 1) }
  | none => q

def seqExecD (pol : Policy σ μ) (init : Nat → μ) (s₀ : σ) (order : List Nat) : SeqSt σ μ :=
  order.foldl (seqStepD pol) ⟨s₀, init, fun _ => 0⟩

theorem seqExecD_append (pol : Policy σ μ) (init : Nat → μ) (s₀ : σ) (o : List Nat) (t : Nat) :
    seqExecD pol init s₀ (o ++ [t]) = seqStepD pol (seqExecD pol init s₀ o) t := by
  simp [seqExecD, List.foldl_append]

section
variable (pol : Policy σ μ) (init : Nat → μ) (s₀ : σ)

/-- What relates goroutine `t` to the sequential history `Q`: either it has not yet entered
the section of the call the policy chose (`pre`), or it is inside / behind the section of
its latest call (`post`; also the initial situation). -/
def ThreadOKD (c : Conf σ μ) (Q : SeqSt σ μ) (t : Nat) : Prop :=
  wellLockedFrom (c.th t).mode (evs (c.th t).rest) = true ∧
  (((c.th t).mode = .free ∧ oneAcq (evs (c.th t).rest) ∧
      ∃ b, pol t (Q.loc t) = some b ∧
        ∀ s, runActs (c.th t).rest s (c.th t).loc = runActs b s (Q.loc t))
   ∨
   (noAcq (evs (c.th t).rest) ∧
      Q.loc t = (runActs (c.th t).rest c.sh (c.th t).loc).2 ∧
      ((c.th t).mode = .w → (runActs (c.th t).rest c.sh (c.th t).loc).1 = Q.sh)))

structure DInv (d : DConf σ μ) : Prop where
  lock : LockInv d.c
  thr : ∀ t, ThreadOKD pol d.c (seqExecD pol init s₀ d.c.order) t
  shFree : (∀ t, (d.c.th t).mode ≠ .w) → d.c.sh = (seqExecD pol init s₀ d.c.order).sh

theorem DInv.initial (fuel : Nat → Nat) : DInv pol init s₀ (DConf.init s₀ init fuel) :=
  { lock := LockInv.init s₀ _ init (fun _ => rfl)
    thr := fun t => by
      refine ⟨rfl, Or.inr ⟨?_, rfl, ?_⟩⟩
      · intro x hx; cases hx
      · intro hm; simp [DConf.init, Conf.init] at hm
    shFree := fun _ => rfl }

theorem seqStepD_other {Q : SeqSt σ μ} {t u : Nat} (h : u ≠ t) :
    (seqStepD pol Q t).loc u = Q.loc u := by
  unfold seqStepD
  split <;> simp [upd, h]

theorem DInv.act (hp : ∀ t l b, pol t l = some b → CallOK b) {c c' : Conf σ μ} {fu : Nat → Nat}
    (hi : DInv pol init s₀ ⟨c, fu⟩) (hs : Step c c') : DInv pol init s₀ ⟨c', fu⟩ := by
  have hlock' : LockInv c' := hi.lock.step hs
  cases hs with | mk t a as hrest hen =>
  have hthr0 := hi.thr
  have hshF0 := hi.shFree
  simp only [] at hthr0 hshF0
  generalize hQ : seqExecD pol init s₀ c.order = Q at hthr0 hshF0
  have hthr : ∀ u, ThreadOKD pol c Q u := hthr0
  have hshF : (∀ u, (c.th u).mode ≠ .w) → c.sh = Q.sh := hshF0
  obtain ⟨hwl, hcase⟩ := hthr t
  rw [hrest] at hwl hcase
  simp only [evs, List.map_cons] at hwl
  obtain ⟨m', hck, hwl'⟩ := wellLockedFrom_cons hwl
  have hnext := check_next hck
  have hself := after_th_self c t a as
  have hother : ∀ u, u ≠ t → (c.after t a as).th u = c.th u := fun u hu => after_th_other c a as hu
  have hsh : (c.after t a as).sh = (a.apply c.sh (c.th t).loc).1 := rfl
  have hwlself : wellLockedFrom ((c.after t a as).th t).mode (evs ((c.after t a as).th t).rest) = true := by
    rw [hself]; show wellLockedFrom ((c.th t).mode.next a.ev) (evs as) = true; rw [hnext]; exact hwl'
  have keep : ∀ (Q' : SeqSt σ μ) (u : Nat), u ≠ t → Q'.loc u = Q.loc u →
      ((c.th u).mode = .w → Q'.sh = Q.sh ∧ (c.after t a as).sh = c.sh) →
      ((c.after t a as).sh ≠ c.sh → (c.th u).mode = .free) →
      ThreadOKD pol (c.after t a as) Q' u := by
    intro Q' u hut hl hwsame hchg
    obtain ⟨hwlu, hcu⟩ := hthr u
    refine ⟨by rw [hother u hut]; exact hwlu, ?_⟩
    rw [hother u hut, hl]
    rcases hcu with hpre | ⟨hna, hloc, hw⟩
    · exact Or.inl hpre
    · refine Or.inr ⟨hna, ?_, ?_⟩
      · by_cases hsame : (c.after t a as).sh = c.sh
        · rw [hsame]; exact hloc
        · have hfree := hchg hsame
          rw [hfree] at hwlu
          rw [hloc]
          exact ((runActs_quiet hwlu hna (by simp) c.sh (c.th u).loc).2 rfl _).symm
      · intro hmw
        obtain ⟨e1, e2⟩ := hwsame hmw
        rw [e1, e2]; exact hw hmw
  by_cases hacq : a.ev.isAcquire = true
  · ------------------------------------------------------------ enters a critical section
    have hord : (c.after t a as).order = c.order ++ [t] := by simp [Conf.after, hacq]
    have hpre := hcase.resolve_right (by
      rintro ⟨hna, _, _⟩
      have := (noAcq_cons (by simpa [evs] using hna)).1
      simp [hacq] at this)
    obtain ⟨hmode, h1, b, hb, hrun⟩ := hpre
    have hnoacq : noAcq (evs as) := oneAcq_cons_acq (by simpa [evs] using h1) hacq
    have happ : a.apply c.sh (c.th t).loc = (c.sh, (c.th t).loc) := acquire_apply a _ _ hacq
    have hnow : ∀ u, (c.th u).mode ≠ .w := by
      intro u
      cases he : a.ev <;> simp_all [Ev.isAcquire, enabled]
    have hshq : c.sh = Q.sh := hshF hnow
    have hsh' : (c.after t a as).sh = c.sh := by rw [hsh, happ]
    have hpq : runActs b Q.sh (Q.loc t) = runActs as c.sh (c.th t).loc := by
      rw [← hrun, runActs_cons, ← hshq, happ]
    have hQ' : seqExecD pol init s₀ (c.after t a as).order = seqStepD pol Q t := by
      rw [hord, seqExecD_append, hQ]
    have hQsh : (seqStepD pol Q t).sh = (runActs as c.sh (c.th t).loc).1 := by
      simp only [seqStepD, hb, hpq]
    have hQloc : (seqStepD pol Q t).loc t = (runActs as c.sh (c.th t).loc).2 := by
      simp only [seqStepD, hb, upd, hpq, if_true]
    refine { lock := hlock', thr := ?_, shFree := ?_ }
    · intro u
      show ThreadOKD pol (c.after t a as) (seqExecD pol init s₀ (c.after t a as).order) u
      rw [hQ']
      by_cases hut : u = t
      · subst hut
        refine ⟨hwlself, Or.inr ?_⟩
        rw [hself, hQloc, hQsh, hsh']
        exact ⟨hnoacq, by simp [happ], fun _ => by simp [happ]⟩
      · exact keep _ u hut (seqStepD_other pol hut)
          (fun hmw => absurd hmw (hnow u)) (fun hne => absurd hsh' hne)
    · intro hall
      show (c.after t a as).sh = (seqExecD pol init s₀ (c.after t a as).order).sh
      rw [hQ', hQsh, hsh']
      have hm'w : m' ≠ .w := by
        have := hall t
        simp only [] at this
        rw [hself] at this
        simpa [hnext] using this
      exact ((runActs_quiet hwl' hnoacq hm'w c.sh (c.th t).loc).1).symm
  · ------------------------------------------------------------ any other action
    have hacq' : a.ev.isAcquire = false := by simpa using hacq
    have hord : (c.after t a as).order = c.order := by simp [Conf.after, hacq']
    have hQ' : seqExecD pol init s₀ (c.after t a as).order = Q := by rw [hord, hQ]
    rcases hcase with ⟨hmode, h1, b, hb, hrun⟩ | ⟨hna, hloc, hw⟩
    · ---------------------------------------- before its section: goroutine-local computation
      have hev : a.ev = .callFn := by
        rw [hmode] at hck
        cases he : a.ev <;> simp_all [Mode.check, Ev.isAcquire]
      have happ : ∀ x, a.apply x (c.th t).loc = (x, a.g (c.th t).loc) := fun x => by
        simp [Act.apply, hev]
      have hsame : (c.after t a as).sh = c.sh := by rw [hsh, happ]
      have hm'free : m' = .free := by
        rw [hmode, hev] at hck; simpa [Mode.check] using hck.symm
      refine { lock := hlock', thr := ?_, shFree := ?_ }
      · intro u
        show ThreadOKD pol (c.after t a as) (seqExecD pol init s₀ (c.after t a as).order) u
        rw [hQ']
        by_cases hut : u = t
        · subst hut
          refine ⟨hwlself, Or.inl ?_⟩
          rw [hself]
          refine ⟨by simp [hnext, hm'free],
            oneAcq_cons_nacq (by simpa [evs] using h1) hacq', b, hb, fun s => ?_⟩
          simp only []
          rw [← hrun s, runActs_cons]
          simp only [happ]
        · exact keep Q u hut rfl (fun _ => ⟨rfl, hsame⟩) (fun hne => absurd hsame hne)
      · intro hall
        show (c.after t a as).sh = (seqExecD pol init s₀ (c.after t a as).order).sh
        rw [hQ', hsame]
        apply hshF
        intro u
        by_cases hut : u = t
        · rw [hut, hmode]; simp
        · have := hall u
          simp only [] at this
          rwa [hother u hut] at this
    · ---------------------------------------- inside or behind its section
      have hnoacq : noAcq (evs as) := (noAcq_cons (by simpa [evs] using hna)).2
      have hK : runActs (a :: as) c.sh (c.th t).loc
          = runActs as (a.apply c.sh (c.th t).loc).1 (a.apply c.sh (c.th t).loc).2 := runActs_cons _ _ _ _
      have hchg : (a.apply c.sh (c.th t).loc).1 ≠ c.sh → (c.th t).mode = .w := by
        intro hne
        have hwr : a.ev.writes = true := by
          cases hb : a.ev.writes
          · exact absurd (apply_fst_of_not_writes a _ _ hb) hne
          · rfl
        have hacc : a.ev.isAccess = true := by
          cases he : a.ev <;> simp_all [Ev.writes, Ev.isAccess]
        exact (hi.lock.access_mode hrest hacc).2 hwr
      refine { lock := hlock', thr := ?_, shFree := ?_ }
      · intro u
        show ThreadOKD pol (c.after t a as) (seqExecD pol init s₀ (c.after t a as).order) u
        rw [hQ']
        by_cases hut : u = t
        · subst hut
          refine ⟨hwlself, Or.inr ?_⟩
          rw [hself, hsh]
          refine ⟨hnoacq, by rw [hloc, hK], fun hmw => ?_⟩
          have hmw0 : (c.th u).mode = .w := by
            simp only [hnext] at hmw
            subst hmw
            exact check_to_w hck hacq'
          have := hw hmw0
          rwa [hK] at this
        · refine keep Q u hut rfl (fun hmw => ⟨rfl, ?_⟩) (fun hne => ?_)
          · have htfree := hi.lock.excl u t hut hmw
            apply Classical.byContradiction
            intro hne
            have := hchg (by rwa [hsh] at hne)
            rw [htfree] at this
            cases this
          · exact hi.lock.excl t u (Ne.symm hut) (hchg (by rwa [hsh] at hne))
      · intro hall
        show (c.after t a as).sh = (seqExecD pol init s₀ (c.after t a as).order).sh
        rw [hQ', hsh]
        by_cases hmw : (c.th t).mode = .w
        · have hm'f : m' ≠ .w := by
            have := hall t
            simp only [] at this
            rw [hself] at this
            simpa [hnext] using this
          have hev : a.ev = .unlock := by
            rw [hmw] at hck
            cases he : a.ev <;> simp_all [Mode.check]
          have hm'free : m' = .free := by
            rw [hmw, hev] at hck; simpa [Mode.check] using hck.symm
          have happ : a.apply c.sh (c.th t).loc = (c.sh, (c.th t).loc) := by
            simp [Act.apply, hev]
          have h1 := hw hmw
          rw [hK, happ] at h1
          rw [happ, ← h1]
          rw [hm'free] at hwl'
          exact ((runActs_quiet hwl' hnoacq (by simp) c.sh (c.th t).loc).1).symm
        · have hall0 : ∀ u, (c.th u).mode ≠ .w := by
            intro u
            by_cases hut : u = t
            · exact hut ▸ hmw
            · have := hall u
              simp only [] at this
              rwa [hother u hut] at this
          have hsame : (a.apply c.sh (c.th t).loc).1 = c.sh := by
            apply Classical.byContradiction
            intro hne
            exact hmw (hchg hne)
          rw [hsame]
          exact hshF hall0

theorem load_th_self (c : Conf σ μ) (t : Nat) (b : List (Act σ μ)) :
    (c.load t b).th t = ⟨(c.th t).mode, b, (c.th t).loc⟩ := by
  simp [Conf.load, upd]

theorem load_th_other (c : Conf σ μ) {t u : Nat} (b : List (Act σ μ)) (h : u ≠ t) :
    (c.load t b).th u = c.th u := by
  simp [Conf.load, upd, h]

theorem DInv.load (hp : ∀ t l b, pol t l = some b → CallOK b) {c : Conf σ μ} {fu : Nat → Nat}
    (hi : DInv pol init s₀ ⟨c, fu⟩) (t : Nat) (b : List (Act σ μ)) (n : Nat)
    (hrest : (c.th t).rest = []) (hb : pol t (c.th t).loc = some b) :
    DInv pol init s₀ ⟨c.load t b, upd fu t n⟩ := by
  have hok := hp t _ b hb
  obtain ⟨hwl, hcase⟩ := hi.thr t
  simp only [] at hwl hcase
  rw [hrest] at hwl hcase
  have hmode : (c.th t).mode = .free := by simpa [evs, wellLockedFrom] using hwl
  have hmodes : ∀ u, ((c.load t b).th u).mode = (c.th u).mode := by
    intro u
    by_cases hut : u = t
    · subst hut; rw [load_th_self]
    · rw [load_th_other c b hut]
  have hQloc : (seqExecD pol init s₀ c.order).loc t = (c.th t).loc := by
    rcases hcase with ⟨_, h1, _⟩ | ⟨_, hloc, _⟩
    · exact absurd rfl (oneAcq_ne_nil (by simpa [evs] using h1))
    · simpa [runActs] using hloc
  refine { lock := ?_, thr := ?_, shFree := ?_ }
  · constructor
    · intro u
      by_cases hut : u = t
      · subst hut
        show wellLockedFrom ((c.load u b).th u).mode (evs ((c.load u b).th u).rest) = true
        rw [load_th_self]
        show wellLockedFrom (c.th u).mode (evs b) = true
        rw [hmode]; exact hok.1
      · show wellLockedFrom ((c.load t b).th u).mode (evs ((c.load t b).th u).rest) = true
        rw [load_th_other c b hut]; exact hi.lock.wl u
    · intro x y hxy hx
      show ((c.load t b).th y).mode = .free
      rw [hmodes] at hx ⊢
      exact hi.lock.excl x y hxy hx
  · intro u
    show ThreadOKD pol (c.load t b) (seqExecD pol init s₀ c.order) u
    by_cases hut : u = t
    · subst hut
      unfold ThreadOKD
      rw [load_th_self]
      refine ⟨by show wellLockedFrom (c.th u).mode (evs b) = true; rw [hmode]; exact hok.1, Or.inl ?_⟩
      refine ⟨hmode, hok.2, b, by rw [hQloc]; exact hb, fun s => by rw [hQloc]⟩
    · have := hi.thr u
      unfold ThreadOKD at this ⊢
      rw [load_th_other c b hut]
      exact this
  · intro hall
    show c.sh = (seqExecD pol init s₀ c.order).sh
    apply hi.shFree
    intro u
    have := hall u
    simp only [] at this
    rwa [hmodes] at this

theorem DInv.reach (hp : ∀ t l b, pol t l = some b → CallOK b) (fuel : Nat → Nat) {d : DConf σ μ}
    (hr : DReach pol (DConf.init s₀ init fuel) d) : DInv pol init s₀ d := by
  induction hr with
  | refl => exact DInv.initial pol init s₀ fuel
  | step _ hs ih =>
    cases hs with
    | act hst => exact ih.act pol init s₀ hp hst
    | load t b n hrest _ hb => exact ih.load pol init s₀ hp t b n hrest hb

/-- the entry log only grows (dynamic programs) -/
theorem DReach.order_prefix {d₁ d₂ : DConf σ μ} (hr : DReach pol d₁ d₂) :
    d₁.c.order <+: d₂.c.order := by
  induction hr with
  | refl => exact List.prefix_refl _
  | step _ hs ih =>
    cases hs with
    | act hst => exact ih.trans hst.order_prefix
    | load t b n _ _ _ => exact ih

/-- the calls a goroutine may still make never increase, and every `load` costs one -/
theorem DReach.fuel_le {d₁ d₂ : DConf σ μ} (hr : DReach pol d₁ d₂) (t : Nat) :
    d₂.fuel t ≤ d₁.fuel t := by
  induction hr with
  | refl => exact Nat.le_refl _
  | step _ hs ih =>
    cases hs with
    | act hst => exact ih
    | load u b n _ hfu _ =>
      have ih' := ih
      simp only [] at ih'
      simp only [upd]
      split
      · rename_i h; subst h; omega
      · exact ih'

end

end Golib.C12
