/-
Arithmetic helper lemmas for C10 (SyncRing): window positions, the index mask, the
bit-length loop and the capacity rounding of `Init`.
-/
import Golib.Model.C10Sync

set_option linter.unusedSimpArgs false
set_option linter.unusedVariables false

namespace Golib.C10

/-! ### window positions -/

/-- `winPos H c i` lies in the window `[H, H+c)` and is congruent to `i`. -/
theorem winPos_spec (H c i : Nat) (hc : 0 < c) (hi : i < c) :
    H ≤ winPos H c i ∧ winPos H c i < H + c ∧ winPos H c i % c = i := by
  have hdm := Nat.div_add_mod H c
  have ha : H % c < c := Nat.mod_lt _ hc
  generalize hk : H / c = k at hdm
  have hM : H - H % c = c * k := by omega
  simp only [winPos]
  split
  · refine ⟨by omega, by omega, ?_⟩
    rw [hM, Nat.mul_add_mod, Nat.mod_eq_of_lt hi]
  · refine ⟨by omega, by omega, ?_⟩
    rw [hM, Nat.add_assoc, Nat.mul_add_mod, Nat.add_mod_left, Nat.mod_eq_of_lt hi]

/-- The position in the window with a given residue is unique. -/
theorem winPos_unique (H c p : Nat) (hc : 0 < c) (h1 : H ≤ p) (h2 : p < H + c) :
    winPos H c (p % c) = p := by
  have ha : H % c < c := Nat.mod_lt _ hc
  have hle : H % c ≤ H := Nat.mod_le _ _
  obtain ⟨d, rfl⟩ : ∃ d, p = H + d := ⟨p - H, by omega⟩
  have hd : d < c := by omega
  have hmod : (H + d) % c = (H % c + d) % c := by
    rw [Nat.add_mod, Nat.mod_eq_of_lt hd]
  rw [hmod]
  by_cases hlt : H % c + d < c
  · rw [Nat.mod_eq_of_lt hlt]
    simp only [winPos]
    split <;> omega
  · have : (H % c + d) % c = H % c + d - c := by
      rw [Nat.mod_eq_sub_mod (by omega), Nat.mod_eq_of_lt (by omega)]
    rw [this]
    simp only [winPos]
    split <;> omega

theorem winPos_zero (c i : Nat) (hc : 0 < c) (hi : i < c) : winPos 0 c i = i := by
  have := winPos_unique 0 c i hc (by omega) (by omega)
  rwa [Nat.mod_eq_of_lt hi] at this

/-! ### the index mask -/

theorem two32_eq : two32 = 2 ^ 32 := by decide

/-- `pos & mask` for a power-of-two capacity: the residue modulo the capacity, also
after the position counter has wrapped (`c ∣ 2^32`). -/
theorem land_mask (x e : Nat) (he : e ≤ 32) : (x % two32) &&& (2 ^ e - 1) = x % 2 ^ e := by
  rw [Nat.and_two_pow_sub_one_eq_mod, two32_eq]
  exact Nat.mod_mod_of_dvd _ (Nat.pow_dvd_pow 2 he)

/-! ### bit length and capacity rounding -/

theorem bitLenLoop_spec (L : Nat) : ∀ x pos, 2 ^ L ≤ x → x < 2 ^ (L + 1) →
    bitLenLoop x pos = pos + L + 1 := by
  induction L with
  | zero =>
    intro x pos h1 h2
    have : x = 1 := by omega
    subst this
    rw [bitLenLoop]; simp only [Nat.one_ne_zero, dite_false]
    rw [bitLenLoop]; simp
  | succ L ih =>
    intro x pos h1 h2
    have hx : x ≠ 0 := by
      have : 0 < 2 ^ (L + 1) := Nat.pow_pos (by decide)
      omega
    rw [bitLenLoop]; simp only [hx, dite_false]
    have hp : 2 ^ (L + 1) = 2 * 2 ^ L := by rw [Nat.pow_succ]; omega
    have hp2 : 2 ^ (L + 1 + 1) = 2 * 2 ^ (L + 1) := by rw [Nat.pow_succ]; omega
    rw [ih (x >>> 1) (pos + 1)]
    · omega
    · simp only [Nat.shiftRight_eq_div_pow, Nat.pow_one]; omega
    · simp only [Nat.shiftRight_eq_div_pow, Nat.pow_one]; omega

/-- least power of two that is at least `n` -/
def IsLeastPow2Ge (c n : Nat) : Prop :=
  (∃ e, c = 2 ^ e) ∧ n ≤ c ∧ ∀ e', n ≤ 2 ^ e' → c ≤ 2 ^ e'

theorem pow2_and_pred (e : Nat) : 2 ^ e &&& (2 ^ e - 1) = 0 := by
  rw [Nat.and_two_pow_sub_one_eq_mod, Nat.mod_self]

theorem nonpow2_and_pred (c j : Nat) (h1 : 2 ^ j < c) (h2 : c < 2 ^ (j + 1)) :
    c &&& (c - 1) > 0 := by
  have b1 : c.testBit j = true :=
    Nat.testBit_of_two_pow_le_and_two_pow_add_one_gt (Nat.le_of_lt h1) h2
  have b2 : (c - 1).testBit j = true :=
    Nat.testBit_of_two_pow_le_and_two_pow_add_one_gt (by omega) (by omega)
  have b3 : (c &&& (c - 1)).testBit j = true := by rw [Nat.testBit_and, b1, b2]; rfl
  have := Nat.ge_two_pow_of_testBit b3
  have : 0 < 2 ^ j := Nat.pow_pos (by decide)
  omega

/-- `Init`'s capacity for every admissible request: the least power of two that is at
least `max 2 n`; it is `2^e` with `1 ≤ e ≤ 31`. -/
theorem syncCap_spec (n : Int) (h1 : 1 ≤ n) (h2 : n ≤ 2147483648) :
    ∃ c e, syncCap n = some c ∧ c = 2 ^ e ∧ 1 ≤ e ∧ e ≤ 31 ∧ IsLeastPow2Ge c (max 2 n.toNat) := by
  obtain ⟨m, rfl⟩ := Int.eq_ofNat_of_zero_le (by omega : 0 ≤ n)
  have hm1 : 1 ≤ m := by omega
  have hm2 : m ≤ 2147483648 := by omega
  have hg : ¬ ((m : Int) ≤ 0 ∨ (m : Int) > 2147483648) := by omega
  simp only [syncCap, hg, if_false, Int.toNat_natCast]
  by_cases hone : (1 : Int) = m
  · have : m = 1 := by omega
    subst this
    refine ⟨2, 1, by simp, by decide, by omega, by omega, ⟨1, by decide⟩, by decide, ?_⟩
    intro e' he'
    cases e' with
    | zero => simp at he'
    | succ k =>
      have : 2 ^ (k + 1) = 2 * 2 ^ k := by rw [Nat.pow_succ]; omega
      have : 0 < 2 ^ k := Nat.pow_pos (by decide)
      omega
  · simp only [hone, if_false]
    have hm : m % two32 = m := Nat.mod_eq_of_lt (by simp only [two32]; omega)
    have hpred : (m + two32 - 1) % two32 = m - 1 := by simp only [two32]; omega
    rw [hm, hpred]
    have hmge : 2 ≤ m := by omega
    have hmax : max 2 m = m := by omega
    rw [hmax]
    have hm0 : m ≠ 0 := by omega
    have hlo := Nat.log2_self_le hm0
    have hhi := @Nat.lt_log2_self m
    generalize m.log2 = j at hlo hhi
    have hj1 : 1 ≤ j := by
      cases j with
      | zero => simp at hhi; omega
      | succ k => omega
    have hj31 : j ≤ 31 := by
      false_or_by_contra
      have : 2 ^ 32 ≤ 2 ^ j := Nat.pow_le_pow_right (by decide) (by omega)
      omega
    by_cases hp : m = 2 ^ j
    · -- already a power of two
      have hz : m &&& (m - 1) = 0 := by rw [hp]; exact pow2_and_pred j
      simp only [hz, Nat.lt_irrefl, if_false]
      refine ⟨m, j, rfl, hp, hj1, hj31, ⟨j, hp⟩, Nat.le_refl _, fun e' he' => he'⟩
    · have hgt : 2 ^ j < m := by omega
      have hnz := nonpow2_and_pred m j hgt hhi
      simp only [hnz, if_true]
      have hj30 : j + 1 ≤ 31 := by
        false_or_by_contra
        have : j = 31 := by omega
        subst this
        omega
      have hbl : bitLenLoop m 0 = j + 1 := by rw [bitLenLoop_spec j m 0 hlo hhi]; omega
      have hround : roundupPowOfTwo m = 2 ^ (j + 1) := by
        simp only [roundupPowOfTwo, hbl, Nat.shiftLeft_eq, Nat.one_mul]
        apply Nat.mod_eq_of_lt
        have : 2 ^ (j + 1) ≤ 2 ^ 31 := Nat.pow_le_pow_right (by decide) hj30
        simp only [two32]; omega
      refine ⟨2 ^ (j + 1), j + 1, by rw [hround], rfl, by omega, hj30, ⟨j + 1, rfl⟩,
        Nat.le_of_lt hhi, ?_⟩
      intro e' he'
      apply Nat.pow_le_pow_right (by decide)
      false_or_by_contra
      have : 2 ^ e' ≤ 2 ^ j := Nat.pow_le_pow_right (by decide) (by omega)
      omega

end Golib.C10
