/-
Specification-level facts about the executable AES-GCM of `Golib/Model/C08Gcm.lean` and the
CTR counter of `Golib/Model/C09Enc.lean`:

* `toNatBE (ofNatBE len n) = n % 256^len`; `inc32` keeps the first 12 bytes of a counter
  block and increments the last 4 as a big-endian number modulo 2^32; the CTR-mode counter
  block is the full 128-bit big-endian sum `(iv + i) mod 2^128`.
* `gfMul x y` (the SP 800-38D bit loop) is `Σ_i x_i · (y·α^i)` (`gfMul_eq_sum`), and, in
  natural bit order, the carry-less product reduced modulo
  `x^128 + x^7 + x^2 + x + 1` (`gfMul_is_clmul_mod`).
-/
import Golib.Model.C09Enc
import Golib.Proof.C08GcmInv
import Golib.Proof.C08AesPoly

namespace Golib.C08
open AES GCM

/-! ### big-endian conversions -/

theorem toNatBE_append_single (xs : List Nat) (y : Nat) :
    toNatBE (xs ++ [y]) = toNatBE xs * 256 + y % 256 := by
  simp [toNatBE, List.foldl_append]

theorem ofNatBE_succ (len n : Nat) : ofNatBE (len + 1) n = ofNatBE len (n / 256) ++ [n % 256] := by
  unfold ofNatBE
  rw [List.range_succ, List.map_append]
  congr 1
  · apply List.map_congr_left
    intro i hi
    have hi' : i < len := List.mem_range.mp hi
    have e : 8 * (len + 1 - 1 - i) = 8 + 8 * (len - 1 - i) := by omega
    have e8 : n >>> 8 = n / 256 := Nat.shiftRight_eq_div_pow n 8
    rw [e, Nat.shiftRight_add, e8]
  · simp

theorem toNatBE_ofNatBE_mod : ∀ (len n : Nat), toNatBE (ofNatBE len n) = n % 256 ^ len
  | 0, n => by simp [ofNatBE, toNatBE, Nat.mod_one]
  | len + 1, n => by
    rw [ofNatBE_succ, toNatBE_append_single, toNatBE_ofNatBE_mod len (n / 256), Nat.mod_mod,
      Nat.pow_succ, Nat.mul_comm (256 ^ len) 256, Nat.mod_mul]
    omega

theorem toNatBE_ofNatBE (len n : Nat) (h : n < 256 ^ len) : toNatBE (ofNatBE len n) = n := by
  rw [toNatBE_ofNatBE_mod, Nat.mod_eq_of_lt h]

/-! ### counters -/

/-- `inc32`: 16-byte block, first 12 bytes unchanged, last 4 bytes `+1 mod 2^32` (big endian). -/
theorem inc32_wraps_low32 (cb : Bytes) (h : cb.length = 16) :
    (GCM.inc32 cb).length = 16 ∧ (GCM.inc32 cb).take 12 = cb.take 12 ∧
      GCM.toNatBE ((GCM.inc32 cb).drop 12) = (GCM.toNatBE (cb.drop 12) + 1) % 2 ^ 32 := by
  have h12 : (cb.take 12).length = 12 := by rw [List.length_take, h]; rfl
  unfold inc32
  refine ⟨?_, ?_, ?_⟩
  · rw [List.length_append, h12, ofNatBE_length]
  · exact List.take_left' h12
  · rw [List.drop_left' h12]
    exact toNatBE_ofNatBE 4 _ (Nat.mod_lt _ (by decide))

/-- the CTR-mode counter block (`cipher.NewCTR`): the full 128-bit big-endian counter. -/
theorem ctrBlock_is_be128 (iv : Bytes) (i : Nat) :
    GCM.toNatBE (Golib.C09.Enc.ctrBlock iv i) = (GCM.toNatBE iv + i) % 2 ^ 128 ∧
      (Golib.C09.Enc.ctrBlock iv i).length = 16 := by
  unfold Golib.C09.Enc.ctrBlock
  exact ⟨toNatBE_ofNatBE 16 _ (Nat.mod_lt _ (by decide)), ofNatBE_length _ _⟩

theorem ctrBlock_eq (iv : Bytes) (i : Nat) :
    Golib.C09.Enc.ctrBlock iv i = GCM.ofNatBE 16 ((GCM.toNatBE iv + i) % 2 ^ 128) := rfl

/-! ### GHASH multiplication, level 1: the loop is `Σ_i x_i · (y·α^i)` -/

/-- multiplication by `α` in the reflected representation of SP 800-38D -/
def mulX (v : Nat) : Nat := if v % 2 = 1 then (v >>> 1) ^^^ GCM.rPoly else v >>> 1

theorem gfMul_fold (x y : Nat) : ∀ n,
    (List.range n).foldl (fun (zv : Nat × Nat) i =>
      let z := zv.1
      let v := zv.2
      let z' := if (x >>> (127 - i)) % 2 = 1 then z ^^^ v else z
      let v' := if v % 2 = 1 then (v >>> 1) ^^^ rPoly else v >>> 1
      (z', v')) (0, y) =
    ((List.range n).foldl (fun z i =>
        if (x >>> (127 - i)) % 2 = 1 then z ^^^ Nat.repeat mulX i y else z) 0,
      Nat.repeat mulX n y) := by
  intro n
  induction n with
  | zero => rfl
  | succ n ih =>
    rw [List.range_succ, List.foldl_append, List.foldl_append, ih]
    rfl

/-- `gfMul x y = Σ_{i<128} x_i · (y·α^i)`, `x_i` = bit `i` of `x` counted from the most
significant of 128 (`Nat.repeat mulX i y` is `mulX` applied `i` times to `y`). -/
theorem gfMul_eq_sum (x y : Nat) :
    GCM.gfMul x y = (List.range 128).foldl (fun z i =>
      if (x >>> (127 - i)) % 2 = 1 then z ^^^ Nat.repeat mulX i y else z) 0 := by
  unfold gfMul
  rw [gfMul_fold x y 128]

/-! ### GHASH multiplication, level 2: carry-less product modulo `x^128 + x^7 + x^2 + x + 1`

Natural-order polynomials over GF(2) as `Nat` (bit `i` = coefficient of `x^i`); the generic
machinery (`clmulN`, `red`, `xpow`, `xsum`, `ofBits`) is in `C08AesPoly`. -/

/-- reversal of the low 128 bits -/
def rev128 (n : Nat) : Nat := ofBits (fun j => n.testBit (127 - j)) 128

/-- `x^128 + x^7 + x^2 + x + 1` -/
def polyP : Nat := 2 ^ 128 + 2 ^ 7 + 2 ^ 2 + 2 + 1

/-- carry-less (GF(2)[x]) product of two 128-bit polynomials: `Σ_{i<128} a_i · (b·x^i)` -/
def clmul (a b : Nat) : Nat :=
  (List.range 128).foldl (fun z i => if a.testBit i then z ^^^ (b <<< i) else z) 0

/-- remainder of a polynomial of degree `< 255` modulo `polyP`: for `i = 254, …, 128`,
if the coefficient of `x^i` is set, xor `polyP <<< (i - 128)`. -/
def pmod (p : Nat) : Nat := red 128 polyP 127 p

theorem pmod_unfold (p : Nat) :
    pmod p = (List.range 127).foldr
      (fun j q => if q.testBit (128 + j) then q ^^^ (polyP <<< (128 + j - 128)) else q) p := rfl

theorem clmul_eq (a b : Nat) : clmul a b = clmulN 128 a b := rfl

/-- `pmod` really is "the remainder modulo `polyP`": it is xor-linear, the identity on
polynomials of degree `< 128`, kills the multiples `x^i·polyP`, and returns degree `< 128`. -/
theorem pmod_spec :
    (∀ p q, pmod (p ^^^ q) = pmod p ^^^ pmod q) ∧ (∀ p, p < 2 ^ 128 → pmod p = p) ∧
      (∀ i, i < 127 → pmod (polyP <<< i) = 0) ∧ (∀ p, p < 2 ^ 255 → pmod p < 2 ^ 128) :=
  ⟨red_xor 128 polyP 127, fun p hp => red_of_lt 128 polyP p hp 127,
    fun i hi => red_P_shiftLeft 128 polyP (by decide) (by decide) i 127 hi,
    fun p hp => red_lt 128 polyP (by decide) (by decide) 127 p hp⟩

theorem testBit_rev128 (n j : Nat) :
    (rev128 n).testBit j = (decide (j < 128) && n.testBit (127 - j)) := testBit_ofBits _ _ _

theorem rev128_lt (n : Nat) : rev128 n < 2 ^ 128 := ofBits_lt _ _

theorem rev128_xor (a b : Nat) : rev128 (a ^^^ b) = rev128 a ^^^ rev128 b := by
  apply Nat.eq_of_testBit_eq
  intro j
  simp only [testBit_rev128, Nat.testBit_xor]
  cases decide (j < 128) <;> simp

theorem rev128_zero : rev128 0 = 0 := by
  apply Nat.eq_of_testBit_eq
  intro j
  simp [testBit_rev128]

theorem rev128_rev128 (n : Nat) (h : n < 2 ^ 128) : rev128 (rev128 n) = n := by
  apply Nat.eq_of_testBit_eq
  intro j
  simp only [testBit_rev128]
  by_cases hj : j < 128
  · have e : 127 - (127 - j) = j := by omega
    have h2 : 127 - j < 128 := by omega
    simp [hj, h2, e]
  · have hf : n.testBit j = false := testBit_eq_false_of_lt h (Nat.le_of_not_lt hj)
    simp [hj, hf]

/-! #### `mulX` is multiplication by `x` modulo `polyP` on the reversed representation -/

theorem rev128_shiftRight_one (v : Nat) (hv : v < 2 ^ 128) :
    rev128 (v >>> 1) = (rev128 v <<< 1) ^^^ (if v.testBit 0 then 2 ^ 128 else 0) := by
  apply Nat.eq_of_testBit_eq
  intro j
  have hc : (if v.testBit 0 then 2 ^ 128 else 0).testBit j = (v.testBit 0 && decide (128 = j)) := by
    cases v.testBit 0
    · simp
    · simp only [↓reduceIte, Bool.true_and]; exact Nat.testBit_two_pow
  rw [Nat.testBit_xor, hc, testBit_rev128, Nat.testBit_shiftLeft, testBit_rev128,
    Nat.testBit_shiftRight]
  by_cases h0 : j = 0
  · subst h0
    have : v.testBit 128 = false := Nat.testBit_lt_two_pow hv
    simp [this]
  · by_cases h1 : j < 128
    · have e : 1 + (127 - j) = 127 - (j - 1) := by omega
      have h2 : j - 1 < 128 := by omega
      have h3 : j ≥ 1 := by omega
      have h4 : ¬ 128 = j := by omega
      simp [h1, h2, h3, h4, e]
    · by_cases h2 : j = 128
      · subst h2
        simp
      · have h3 : ¬ j - 1 < 128 := by omega
        have h4 : ¬ 128 = j := by omega
        simp [h1, h3, h4]

theorem rPoly_lt : rPoly < 2 ^ 128 := by decide
/-- the reduction constant `R = 11100001‖0^120` is `x^7+x^2+x+1` reversed -/
theorem rev128_rPoly : rev128 rPoly = 0x87 := by decide +kernel
theorem polyP_eq : polyP = 2 ^ 128 ^^^ 0x87 := by decide

theorem mulX_lt (v : Nat) (hv : v < 2 ^ 128) : mulX v < 2 ^ 128 := by
  have h1 : v >>> 1 < 2 ^ 128 := Nat.lt_of_le_of_lt (Nat.shiftRight_le v 1) hv
  unfold mulX
  split
  · exact Nat.xor_lt_two_pow h1 rPoly_lt
  · exact h1

/-- `mulX v` is `x·v mod polyP` in natural bit order -/
theorem rev128_mulX (v : Nat) (hv : v < 2 ^ 128) :
    rev128 (mulX v) = pstep 128 polyP 128 ((rev128 v) <<< 1) := by
  have hb : ((rev128 v) <<< 1).testBit 128 = v.testBit 0 := by
    rw [Nat.testBit_shiftLeft, testBit_rev128]; simp
  have h0 : v.testBit 0 = decide (v % 2 = 1) := Nat.testBit_zero v
  unfold mulX pstep
  rw [hb]
  by_cases hv0 : v % 2 = 1
  · have ht : v.testBit 0 = true := by rw [h0]; simp [hv0]
    rw [if_pos hv0, if_pos ht, rev128_xor, rev128_rPoly, rev128_shiftRight_one v hv, if_pos ht,
      Nat.sub_self, Nat.shiftLeft_zero, polyP_eq, Nat.xor_assoc]
  · have ht : v.testBit 0 = false := by rw [h0]; simp [hv0]
    rw [if_neg hv0, ht, rev128_shiftRight_one v hv, ht]
    simp

theorem rev128_repeat_mulX (y : Nat) (hy : y < 2 ^ 128) : ∀ i,
    Nat.repeat mulX i y < 2 ^ 128 ∧ rev128 (Nat.repeat mulX i y) = xpow 128 polyP i (rev128 y)
  | 0 => ⟨hy, rfl⟩
  | i + 1 => by
    obtain ⟨h1, h2⟩ := rev128_repeat_mulX y hy i
    refine ⟨mulX_lt _ h1, ?_⟩
    show rev128 (mulX (Nat.repeat mulX i y)) =
      pstep 128 polyP 128 ((xpow 128 polyP i (rev128 y)) <<< 1)
    rw [rev128_mulX _ h1, h2]

/-! #### assembling -/

theorem shiftRight_mod_two (x k : Nat) : ((x >>> k) % 2 = 1) = (x.testBit k = true) := by
  rw [Nat.testBit_eq_decide_div_mod_eq, Nat.shiftRight_eq_div_pow]; simp

theorem gfMul_eq_xsum (x y : Nat) :
    gfMul x y =
      xsum (fun i => x.testBit (127 - i)) (fun i => Nat.repeat mulX i y) 0 (List.range 128) := by
  rw [gfMul_eq_sum]
  simp only [xsum, shiftRight_mod_two]

theorem gfMul_lt (x y : Nat) (hy : y < 2 ^ 128) : gfMul x y < 2 ^ 128 := by
  rw [gfMul_eq_xsum]
  exact xsum_lt 128 _ _ _ _ (Nat.two_pow_pos _) (fun i _ => (rev128_repeat_mulX y hy i).1)

/-- in natural bit order, `gfMul` is the carry-less product modulo `polyP` -/
theorem rev128_gfMul (x y : Nat) (hy : y < 2 ^ 128) :
    rev128 (gfMul x y) = pmod (clmul (rev128 x) (rev128 y)) := by
  rw [gfMul_eq_xsum, clmul_eq, clmulN_eq_xsum, xsum_map rev128 rev128_xor, rev128_zero, pmod,
    xsum_map (red 128 polyP 127) (red_xor 128 polyP 127), red_zero]
  apply xsum_congr
  intro i hi
  have hi' : i < 128 := List.mem_range.mp hi
  refine ⟨?_, ?_⟩
  · simp [testBit_rev128, hi']
  · show _ = red 128 polyP 127 (rev128 y <<< i)
    rw [red_shiftLeft_of_lt 128 polyP _ i 127 (rev128_lt y) (by omega)]
    exact (rev128_repeat_mulX y hy i).2

set_option linter.unusedVariables false in
/-- **GHASH multiplication is multiplication in GF(2^128) = GF(2)[x]/(x^128+x^7+x^2+x+1)**
on the bit-reflected representation of SP 800-38D (`hx` is not needed: only the low 128
bits of `x` are read). -/
theorem gfMul_is_clmul_mod (x y : Nat) (hx : x < 2 ^ 128) (hy : y < 2 ^ 128) :
    GCM.gfMul x y = rev128 (pmod (clmul (rev128 x) (rev128 y))) := by
  rw [← rev128_gfMul x y hy, rev128_rev128 _ (gfMul_lt x y hy)]

end Golib.C08
