/-
C16 helper lemmas, part 5: the one-memory model (`Model/C16Heap.lean`).
Primitive facts about slice headers into one heap (`view`, `s[i]`, `s[i] = v`, `append`),
the frame condition (`Frame`: a method writes only inside its receiver's backing array or
into freshly allocated cells) and what it gives for every OTHER header (`Frame.other`).
-/
import Golib.Proof.C16Refine
import Golib.Model.C16Heap

namespace Golib.C16

/-- the header lies inside the heap -/
def Wf (H : Heap) (h : Hdr) : Prop := h.len ≤ h.cap ∧ h.base + h.cap ≤ H.length

/-- the backing arrays `[base, base+cap)` share no cell -/
def Disj (a b : Hdr) : Prop :=
  a.cap = 0 ∨ b.cap = 0 ∨ a.base + a.cap ≤ b.base ∨ b.base + b.cap ≤ a.base

theorem Disj.symm {a b : Hdr} (h : Disj a b) : Disj b a := by
  unfold Disj at *; omega

theorem view_getElem? (H : Heap) (h : Hdr) (i : Nat) :
    (h.view H)[i]? = if i < h.len then H[h.base + i]? else none := by
  simp only [Hdr.view, List.getElem?_take, List.getElem?_drop]

theorem view_length (H : Heap) (h : Hdr) (hw : Wf H h) : (h.view H).length = h.len := by
  unfold Wf at hw
  simp only [Hdr.view, List.length_take, List.length_drop]; omega

theorem hrd_eq (H : Heap) (h : Hdr) (i : Nat) : hrd H h i = (h.view H)[i]? := by
  rw [view_getElem?]; rfl

/-- two heaps that agree on the cells of a header give the same view -/
theorem view_congr (H H' : Heap) (h : Hdr)
    (hc : ∀ p, h.base ≤ p → p < h.base + h.len → H'[p]? = H[p]?) : h.view H' = h.view H := by
  apply List.ext_getElem?; intro i
  simp only [view_getElem?]
  split
  · exact hc _ (by omega) (by omega)
  · rfl

theorem hwr_some (H : Heap) (h : Hdr) (i : Nat) (v : W) (hw : Wf H h) (hi : i < h.len) :
    hwr H h i v = some (H.set (h.base + i) v) := by
  unfold Wf at hw
  simp only [hwr]; rw [if_pos]; omega

theorem view_set_in (H : Heap) (h : Hdr) (i : Nat) (v : W) (hw : Wf H h) (hi : i < h.len) :
    h.view (H.set (h.base + i) v) = (h.view H).set i v := by
  have hvl := view_length H h hw
  unfold Wf at hw
  apply List.ext_getElem?; intro k
  simp only [view_getElem?, List.getElem?_set, hvl]
  by_cases hk : k < h.len
  · simp only [hk, if_true]
    by_cases hik : i = k
    · subst hik
      rw [if_pos rfl, if_pos rfl, if_pos (by omega), if_pos hi]
    · rw [if_neg (by omega), if_neg hik]
  · simp only [hk, if_false]
    by_cases hik : i = k
    · omega
    · rw [if_neg hik]

/-! ### the frame condition -/

/-- What one method call on the receiver header `h` (becoming `h'`) may do to the heap:
the heap only grows, every old cell outside the receiver's backing array keeps its value, and
the receiver's new backing array is the old one or lies entirely in fresh cells. -/
structure Frame (H : Heap) (h : Hdr) (H' : Heap) (h' : Hdr) : Prop where
  len_le : H.length ≤ H'.length
  outside : ∀ p, p < H.length → ¬ (h.base ≤ p ∧ p < h.base + h.cap) → H'[p]? = H[p]?
  region : (h'.base = h.base ∧ h'.cap = h.cap) ∨ H.length ≤ h'.base
  wf : Wf H' h'

theorem Frame.refl (H : Heap) (h : Hdr) (hw : Wf H h) : Frame H h H h :=
  ⟨Nat.le_refl _, fun _ _ _ => rfl, .inl ⟨rfl, rfl⟩, hw⟩

theorem Frame.trans {H H1 H2 : Heap} {h h1 h2 : Hdr} (hw : Wf H h)
    (f1 : Frame H h H1 h1) (f2 : Frame H1 h1 H2 h2) : Frame H h H2 h2 := by
  unfold Wf at hw
  refine ⟨Nat.le_trans f1.len_le f2.len_le, ?_, ?_, f2.wf⟩
  · intro p hp hout
    rw [f2.outside p (by have := f1.len_le; omega) ?_, f1.outside p hp hout]
    rcases f1.region with ⟨hb, hc⟩ | hfresh
    · rw [hb, hc]; exact hout
    · omega
  · rcases f2.region with ⟨hb, hc⟩ | hfresh
    · rcases f1.region with ⟨hb1, hc1⟩ | hf1
      · left; omega
      · right; omega
    · right; have := f1.len_le; omega

/-- **Non-interference, header level**: a call framed on `h` leaves the view of every
well-formed header `o` whose backing array is disjoint from `h`'s exactly as it was, keeps `o`
well-formed, and `o` is still disjoint from the receiver's new backing array. -/
theorem Frame.other {H H' : Heap} {h h' o : Hdr} (f : Frame H h H' h') (ho : Wf H o)
    (hd : Disj h o) : o.view H' = o.view H ∧ Wf H' o ∧ Disj h' o := by
  unfold Wf at ho
  have hl := f.len_le
  refine ⟨?_, ?_, ?_⟩
  · apply view_congr
    intro p hp1 hp2
    apply f.outside p (by omega)
    unfold Disj at hd; omega
  · unfold Wf; omega
  · unfold Disj at hd ⊢
    rcases f.region with ⟨hb, hc⟩ | hfresh
    · rw [hb, hc]; exact hd
    · omega

/-! ### `s[i] = v` and `append` are framed -/

theorem hwr_frame (H : Heap) (h : Hdr) (i : Nat) (v : W) (hw : Wf H h) (hi : i < h.len) :
    Frame H h (H.set (h.base + i) v) h := by
  have hw' := hw
  unfold Wf at hw
  refine ⟨by simp, ?_, .inl ⟨rfl, rfl⟩, ?_⟩
  · intro p _ hout
    rw [List.getElem?_set_ne]; omega
  · unfold Wf; simp; omega

theorem happend_spec (grow : Nat → Nat → Nat) (H : Heap) (h : Hdr) (vs : List W) (hw : Wf H h) :
    (happend grow H h vs).2.view (happend grow H h vs).1 = h.view H ++ vs ∧
    Frame H h (happend grow H h vs).1 (happend grow H h vs).2 ∧
    (happend grow H h vs).2.len = h.len + vs.length := by
  have hw' := hw
  have hvl := view_length H h hw'
  unfold Wf at hw
  have hmin : min (h.base + h.len) H.length = h.base + h.len := by omega
  unfold happend
  simp only []
  by_cases hc : h.len + vs.length ≤ h.cap
  · simp only [hc, if_true]
    refine ⟨?_, ⟨?_, ?_, .inl ⟨rfl, rfl⟩, ?_⟩, trivial⟩
    · apply List.ext_getElem?; intro k
      simp only [view_getElem?, List.getElem?_append, List.getElem?_take, List.getElem?_drop,
        List.length_take, List.length_append, List.length_drop, hvl, hmin]
      by_cases h1 : k < h.len
      · have : h.base + k < h.base + h.len := by omega
        simp [h1, this]; rw [if_pos (by omega), if_pos (by omega)]
      · have h2 : ¬ h.base + k < h.base + h.len := by omega
        have h3 : h.base + k - (h.base + h.len) = k - h.len := by omega
        simp only [h1, h2, if_false, h3]
        by_cases h4 : k < h.len + vs.length
        · have : h.base + k < h.base + h.len + vs.length := by omega
          simp [h4, this]
        · have : ¬ h.base + k < h.base + h.len + vs.length := by omega
          simp only [h4, this, if_false]
          rw [List.getElem?_eq_none]; omega
    · simp only [List.length_append, List.length_take, List.length_drop]; omega
    · intro p hp hout
      simp only [List.getElem?_append, List.getElem?_take, List.getElem?_drop,
        List.length_take, List.length_append, hmin]
      by_cases h1 : p < h.base + h.len
      · simp [h1]; omega
      · have h2 : ¬ p < h.base + h.len + vs.length := by omega
        simp only [h1, h2, if_false]
        congr 1; omega
    · unfold Wf
      simp only [List.length_append, List.length_take, List.length_drop]; omega
  · simp only [hc, if_false]
    refine ⟨?_, ⟨?_, ?_, .inr (Nat.le_refl _), ?_⟩, trivial⟩
    · apply List.ext_getElem?; intro k
      simp only [view_getElem?, List.getElem?_append, List.length_append, List.length_replicate, hvl]
      grind
    · simp
    · intro p hp _
      rw [List.getElem?_append_left hp]
    · unfold Wf
      simp only [List.length_append, List.length_replicate, hvl]; omega

end Golib.C16
