/-
C02 helper lemmas, part 3: the representation invariant, the abstraction to a sorted
association list, node values.
-/
import Golib.Proof.C02Tower

set_option linter.unusedSectionVars false
set_option linter.unusedSimpArgs false

namespace Golib.C02

variable {K V : Type} [DecidableEq K] {cmp : K → K → Int}

/-! ### the specification: a key-ascending association list -/

/-- Insert or replace. -/
def OMap.set (cmp : K → K → Int) (m : List (K × V)) (k : K) (v : V) : List (K × V) :=
  m.filter (fun p => decide (cmp p.1 k < 0)) ++ (k, v) :: m.filter (fun p => decide (cmp k p.1 < 0))

def OMap.erase (cmp : K → K → Int) (m : List (K × V)) (k : K) : List (K × V) :=
  m.filter (fun p => decide (cmp p.1 k < 0)) ++ m.filter (fun p => decide (cmp k p.1 < 0))

def OMap.get (m : List (K × V)) (k : K) : Option V := (m.find? (fun p => decide (p.1 = k))).map (·.2)

/-! Weak-order comparators (`WeakCmp`): a key addresses the binding whose stored key is
equivalent to it (`cmp k' k = 0`); replacing a value keeps the stored key. -/

/-- The stored key equivalent to `k`. -/
def OMap.keyW (cmp : K → K → Int) (m : List (K × V)) (k : K) : Option K :=
  (m.find? (fun p => cmp p.1 k == 0)).map (·.1)

/-- The value of the binding whose key is equivalent to `k`. -/
def OMap.getW (cmp : K → K → Int) (m : List (K × V)) (k : K) : Option V :=
  (m.find? (fun p => cmp p.1 k == 0)).map (·.2)

/-- Insert, or replace the value of the equivalent binding (its stored key is kept). -/
def OMap.setW (cmp : K → K → Int) (m : List (K × V)) (k : K) (v : V) : List (K × V) :=
  m.filter (fun p => decide (cmp p.1 k < 0)) ++ ((OMap.keyW cmp m k).getD k, v) ::
    m.filter (fun p => decide (cmp k p.1 < 0))

/-- The bindings with key `≥ start`. -/
def OMap.from (cmp : K → K → Int) (m : List (K × V)) (start : K) : List (K × V) :=
  m.filter (fun p => !decide (cmp p.1 start < 0))

/-- The bindings with key in `[start, end)`. -/
def OMap.between (cmp : K → K → Int) (m : List (K × V)) (start end_ : K) : List (K × V) :=
  m.filter (fun p => !decide (cmp p.1 start < 0) && decide (cmp p.1 end_ < 0))

/-- What a callback that answers `false` on its `n`-th call (`0`: never) has received. -/
def stopAfter {α : Type} (n : Nat) (xs : List α) : List α := if n = 0 then xs else xs.take n

/-! ### node values -/

theorem getVal_isSome {vals : List (K × V)} {k : K} :
    (getVal vals k).isSome = true ↔ k ∈ vals.map Prod.fst := by
  induction vals with
  | nil => simp [getVal]
  | cons p rest ih =>
    obtain ⟨a, b⟩ := p
    unfold getVal
    by_cases h : a = k
    · simp [h]
    · simp only [h, if_false, List.map_cons, List.mem_cons]
      rw [ih]; constructor
      · exact Or.inr
      · rintro (e | e)
        · exact absurd e.symm h
        · exact e

theorem getVal_setVal (vals : List (K × V)) (n k : K) (v : V) :
    getVal (setVal vals n v) k = if k = n then some v else getVal vals k := by
  induction vals with
  | nil => simp only [setVal, getVal]; by_cases h : n = k <;> simp [h, eq_comm]
  | cons p rest ih =>
    obtain ⟨a, b⟩ := p
    unfold setVal
    by_cases h : a = n
    · subst h
      simp only [if_true, getVal]
      by_cases h2 : a = k
      · simp [h2]
      · simp [h2, Ne.symm h2]
    · simp only [h, if_false, getVal]
      by_cases h2 : a = k
      · subst h2; simp [h]
      · simp only [h2, if_false]; exact ih

theorem map_fst_setVal_of_mem {vals : List (K × V)} {n : K} (v : V) (h : n ∈ vals.map Prod.fst) :
    (setVal vals n v).map Prod.fst = vals.map Prod.fst := by
  induction vals with
  | nil => simp at h
  | cons p rest ih =>
    obtain ⟨a, b⟩ := p
    unfold setVal
    by_cases h1 : a = n
    · simp [h1]
    · simp only [h1, if_false, List.map_cons]
      rw [ih]
      simp only [List.map_cons, List.mem_cons] at h
      rcases h with e | e
      · exact absurd e.symm h1
      · exact e

theorem getVal_eraseVal {vals : List (K × V)} (hnd : (vals.map Prod.fst).Nodup) (n k : K) :
    getVal (eraseVal vals n) k = if k = n then none else getVal vals k := by
  induction vals with
  | nil => simp [eraseVal, getVal]
  | cons p rest ih =>
    obtain ⟨a, b⟩ := p
    simp only [List.map_cons, List.nodup_cons] at hnd
    unfold eraseVal
    by_cases h : a = n
    · subst h
      simp only [if_true]
      by_cases h2 : k = a
      · subst h2
        simp only [if_true]
        cases hg : getVal rest k with
        | none => rfl
        | some v =>
          have : k ∈ rest.map Prod.fst := getVal_isSome.mp (by simp [hg])
          exact absurd this hnd.1
      · simp [h2, getVal, Ne.symm h2]
    · simp only [h, if_false, getVal]
      by_cases h2 : a = k
      · subst h2; simp [h]
      · simp only [h2, if_false]; exact ih hnd.2

theorem map_fst_eraseVal_sublist (vals : List (K × V)) (n : K) :
    ((eraseVal vals n).map Prod.fst).Sublist (vals.map Prod.fst) := by
  induction vals with
  | nil => simp [eraseVal]
  | cons p rest ih =>
    obtain ⟨a, b⟩ := p
    unfold eraseVal
    by_cases h : a = n
    · simp [h]
    · simp only [h, if_false, List.map_cons]; exact ih.cons_cons _

/-! ### the invariant -/

/-- The level-0 chain. -/
def chain0 (s : SL K V) : List K := s.lv.headD []

/-- The abstraction: the level-0 chain with the node values. -/
def toMap (s : SL K V) : List (K × V) :=
  (chain0 s).filterMap (fun k => (getVal s.vals k).map (fun v => (k, v)))

/-- Representation invariant of an initialised list. -/
structure Inv (cmp : K → K → Int) (s : SL K V) : Prop where
  len32 : s.lv.length = maxLevel
  tower : Tower cmp s.lv
  lvl : 1 ≤ s.level ∧ s.level ≤ maxLevel
  above : ∀ i, s.level ≤ i → i < maxLevel → s.lv[i]? = some []
  top : s.level = 1 ∨ ∃ l, s.lv[s.level - 1]? = some l ∧ l ≠ []
  len : s.len = ((chain0 s).length : Int)
  vals : ∀ k, k ∈ s.vals.map Prod.fst ↔ k ∈ chain0 s
  valsNodup : (s.vals.map Prod.fst).Nodup
  rand : s.hasRand = true

theorem Inv.lv_cons (h : Inv cmp s) : ∃ rest, s.lv = chain0 s :: rest := by
  have := h.len32
  unfold chain0
  cases hl : s.lv with
  | nil => rw [hl] at this; simp [maxLevel] at this
  | cons l rest => exact ⟨rest, rfl⟩

theorem Inv.sorted0 (h : Inv cmp s) : Sorted cmp (chain0 s) := by
  obtain ⟨rest, hr⟩ := h.lv_cons
  exact h.tower.1 _ (by rw [hr]; simp)

theorem Inv.sub0 (h : Inv cmp s) : ∀ l ∈ s.lv, l.Sublist (chain0 s) := by
  obtain ⟨rest, hr⟩ := h.lv_cons
  intro l hl
  rw [hr] at hl
  rcases List.mem_cons.mp hl with rfl | hl
  · exact List.Sublist.refl _
  · have ht := h.tower; rw [hr] at ht
    exact ht.sub_head l hl

theorem Inv.init (cmp : K → K → Int) : Inv cmp (SL.init : SL K V) := by
  refine ⟨by simp [SL.init], ⟨?_, ?_⟩, by simp [SL.init, maxLevel], ?_, Or.inl rfl, by simp [SL.init, chain0, maxLevel],
    by simp [SL.init, chain0, maxLevel], by simp [SL.init], rfl⟩
  · intro l hl
    have : l = [] := by simpa [SL.init] using (List.eq_of_mem_replicate hl)
    subst this; exact List.Pairwise.nil
  · simp only [SL.init]
    rw [List.pairwise_replicate]
    exact Or.inr (List.Sublist.refl _)
  · intro i _ hi
    simp [SL.init, hi]

theorem findSome?_of_all {α β : Type} {f : α → Option β} {b : β} :
    ∀ {l : List α}, (∀ a ∈ l, f a = none ∨ f a = some b) → (∃ a ∈ l, f a = some b) →
      l.findSome? f = some b := by
  intro l
  induction l with
  | nil => intro _ ⟨a, ha, _⟩; cases ha
  | cons x xs ih =>
    intro hall ⟨a, ha, hfa⟩
    rw [List.findSome?_cons]
    rcases hall x (by simp) with hx | hx
    · rw [hx]
      simp only []
      refine ih (fun a ha => hall a (by simp [ha])) ?_
      rcases List.mem_cons.mp ha with rfl | ha
      · rw [hx] at hfa; cases hfa
      · exact ⟨a, ha, hfa⟩
    · rw [hx]

/-- What every search needs from the invariant. -/
theorem Inv.search_prep (hc : WeakCmp cmp) (h : Inv cmp s) (key : K) :
    ∃ ls, s.levelsDown = some ls ∧ Down cmp ls ∧
      hitIn cmp key ls = findEq cmp key (chain0 s) ∧
      (ls.map (pred cmp key)).reverse = (s.lv.take s.level).map (pred cmp key) ∧
      descend cmp key ls none = pred cmp key (chain0 s) := by
  obtain ⟨rest, hr⟩ := h.lv_cons
  have hle : s.level ≤ s.lv.length := by rw [h.len32]; exact h.lvl.2
  refine ⟨(s.lv.take s.level).reverse, by simp [SL.levelsDown, hle], h.tower.down _, ?_, ?_, ?_⟩
  · obtain ⟨n, hn⟩ : ∃ n, s.level = n + 1 := ⟨s.level - 1, by have := h.lvl.1; omega⟩
    have hmem : chain0 s ∈ (s.lv.take s.level).reverse := by rw [hr, hn]; simp
    have hsub : ∀ l ∈ (s.lv.take s.level).reverse, l.Sublist (chain0 s) :=
      fun l hl => h.sub0 l (List.mem_of_mem_take (List.mem_reverse.mp hl))
    unfold hitIn
    cases hf : findEq cmp key (chain0 s) with
    | none =>
      rw [List.findSome?_eq_none_iff]
      intro l hl
      rw [findEq_sublist hc h.sorted0 (hsub l hl), hf]
    | some n =>
      apply findSome?_of_all
      · intro l hl
        rw [findEq_sublist hc h.sorted0 (hsub l hl), hf]
        simp only []
        by_cases hnl : n ∈ l <;> simp [hnl]
      · exact ⟨chain0 s, hmem, hf⟩
  · rw [List.map_reverse, List.reverse_reverse]
  · obtain ⟨n, hn⟩ : ∃ n, s.level = n + 1 := ⟨s.level - 1, by have := h.lvl.1; omega⟩
    rw [hr, hn]
    simp [descend, List.take_succ_cons, List.foldl_append]

/-! ### abstraction lemmas -/

/-- `f` maps a key to a binding of that key. -/
def KeyPres (f : K → Option (K × V)) : Prop := ∀ k p, f k = some p → p.1 = k

theorem filter_filterMap_key {f : K → Option (K × V)} (hf : KeyPres f) (q : K → Bool) (l : List K) :
    (l.filterMap f).filter (fun p => q p.1) = (l.filter q).filterMap f := by
  induction l with
  | nil => rfl
  | cons x xs ih =>
    cases hfx : f x with
    | none =>
      by_cases hq : q x
      · simp [List.filterMap_cons, hfx, List.filter_cons, hq, ih]
      · simp [List.filterMap_cons, hfx, List.filter_cons, hq, ih]
    | some p =>
      have hp : p.1 = x := hf x p hfx
      by_cases hq : q x
      · simp [List.filterMap_cons, hfx, List.filter_cons, hq, hp, ih]
      · simp [List.filterMap_cons, hfx, List.filter_cons, hq, hp, ih]

theorem omap_set_filterMap {f : K → Option (K × V)} (hf : KeyPres f) (key : K) (val : V) (l : List K) :
    OMap.set cmp (l.filterMap f) key val =
      (lo cmp key l).filterMap f ++ (key, val) :: (gt cmp key l).filterMap f := by
  unfold OMap.set lo gt
  rw [filter_filterMap_key hf (fun x => decide (cmp x key < 0)),
      filter_filterMap_key hf (fun x => decide (cmp key x < 0))]

theorem omap_erase_filterMap {f : K → Option (K × V)} (hf : KeyPres f) (key : K) (l : List K) :
    OMap.erase cmp (l.filterMap f) key =
      (lo cmp key l).filterMap f ++ (gt cmp key l).filterMap f := by
  unfold OMap.erase lo gt
  rw [filter_filterMap_key hf (fun x => decide (cmp x key < 0)),
      filter_filterMap_key hf (fun x => decide (cmp key x < 0))]

theorem filterMap_congr_mem {α β : Type} {f g : α → Option β} {l : List α} (h : ∀ x ∈ l, f x = g x) :
    l.filterMap f = l.filterMap g := by
  induction l with
  | nil => rfl
  | cons x xs ih =>
    simp only [List.filterMap_cons, h x (by simp)]
    rw [ih (fun y hy => h y (by simp [hy]))]

/-- The abstraction function reads node values. -/
def valOf (vals : List (K × V)) : K → Option (K × V) := fun k => (getVal vals k).map (fun v => (k, v))

theorem valOf_keyPres (vals : List (K × V)) : KeyPres (valOf vals) := by
  intro k p h
  unfold valOf at h
  cases hg : getVal vals k with
  | none => simp [hg] at h
  | some v => simp [hg] at h; rw [← h]

theorem toMap_eq (s : SL K V) : toMap s = (chain0 s).filterMap (valOf s.vals) := rfl

end Golib.C02
