/-
C04 helper lemmas, part 2: the sift loops of `adjustment.go` on a Go slice (`sliceOps`):
`down`, `up`, `fix`, `build` restore the heap order, keep the multiset and never panic.
-/
import Golib.Proof.C04Order

set_option linter.unusedSimpArgs false
set_option linter.unusedVariables false

namespace Golib.C04

/-- Value at a position (positions beyond the slice read as `0`; never used there). -/
def nthN (s : List Int) (i : Nat) : Int := (s[i]?).getD 0

def swapN (s : List Int) (i j : Nat) : List Int := (s.set i (nthN s j)).set j (nthN s i)

theorem nth_cast (s : List Int) (i : Nat) (h : i < s.length) : nth s (i : Int) = some (nthN s i) := by
  simp [nth, nthN, List.getElem?_eq_getElem h]

theorem less_cast (cmp : Int → Int → Bool) (s : List Int) (j i : Nat) (hj : j < s.length) (hi : i < s.length) :
    (sliceOps cmp).less s (j : Int) (i : Int) = some (s, cmp (nthN s j) (nthN s i)) := by
  simp [sliceOps, nth_cast s j hj, nth_cast s i hi]

theorem swapL_cast (s : List Int) (i j : Nat) (hi : i < s.length) (hj : j < s.length) :
    swapL s (i : Int) (j : Int) = some (swapN s i j) := by
  simp [swapL, nth_cast s i hi, nth_cast s j hj, swapN]

theorem swap_cast (cmp : Int → Int → Bool) (s : List Int) (i j : Nat) (hi : i < s.length) (hj : j < s.length) :
    (sliceOps cmp).swap s (i : Int) (j : Int) = some (swapN s i j) := by
  simp [sliceOps, swapL_cast s i j hi hj]

@[simp] theorem swapN_length (s : List Int) (i j : Nat) : (swapN s i j).length = s.length := by
  simp [swapN]

theorem nthN_swapN (s : List Int) (i j : Nat) (hi : i < s.length) (hj : j < s.length) :
    nthN (swapN s i j) = swapF (nthN s) i j := by
  funext k
  simp only [nthN, swapN, swapF, List.getElem?_set, List.length_set]
  by_cases hkj : k = j
  · subst hkj; simp [hj]
  · by_cases hki : k = i
    · subst hki; simp [hi, Ne.symm hkj]; intro h; exact absurd h hkj
    · simp [hkj, hki, Ne.symm hkj, Ne.symm hki]

theorem swapN_perm (s : List Int) (i j : Nat) (hi : i < s.length) (hj : j < s.length) :
    (swapN s i j).Perm s := by
  rw [List.perm_iff_count]
  intro a
  have e1 : s[i]? = some (nthN s i) := by simp [nthN, List.getElem?_eq_getElem hi]
  have e2 : s[j]? = some (nthN s j) := by simp [nthN, List.getElem?_eq_getElem hj]
  by_cases hij : i = j
  · subst hij
    simp only [swapN]
    rw [List.set_set]
    have g1 : nthN s i = s[i] := by simp [nthN, List.getElem?_eq_getElem hi]
    have : s.set i (nthN s i) = s := by rw [g1]; exact List.set_getElem_self hi
    rw [this]
  · have hi' := hi; have hj' := hj
    simp only [swapN]
    rw [List.count_set (by simpa using hj), List.count_set hi]
    simp only [List.getElem_set, hij, if_false]
    have c1 : 0 < s.count (nthN s i) := List.count_pos_iff.2 (by simp [nthN, List.getElem?_eq_getElem hi])
    have c2 : 0 < s.count (nthN s j) := List.count_pos_iff.2 (by simp [nthN, List.getElem?_eq_getElem hj])
    have g1 : s[i] = nthN s i := by simp [nthN, List.getElem?_eq_getElem hi]
    have g2 : s[j] = nthN s j := by simp [nthN, List.getElem?_eq_getElem hj]
    rw [g1, g2]
    by_cases h1 : nthN s i = a <;> by_cases h2 : nthN s j = a <;> simp [h1, h2, beq_iff_eq] <;> (try subst h1) <;> (try subst h2) <;> omega

theorem tdiv_cast (j : Nat) : Int.tdiv ((j : Int) - 1) 2 = ((par j : Nat) : Int) := by
  unfold par
  cases j with
  | zero => decide
  | succ k =>
    have : ((k + 1 : Nat) : Int) - 1 = (k : Int) := by omega
    rw [this]
    simp only [Nat.add_sub_cancel]
    exact (Int.ofNat_tdiv k 2).symm ▸ rfl


/-- What `down` guarantees: see `down_spec`. -/
def DownPost (cmp : Int → Int → Bool) (s : List Int) (i n lo : Nat) (strict : Bool)
    (s' : List Int) (i' : Nat) : Prop :=
  s'.length = s.length ∧ s'.Perm s ∧ (∀ k, n ≤ k → nthN s' k = nthN s k) ∧ i ≤ i' ∧
  (if strict = true ∨ i < i' then HeapOn cmp (nthN s') lo n
   else s' = s ∧ ∀ c, c < n → 1 ≤ c → par c = i → cmp (nthN s c) (nthN s i) = false)

theorem down_spec {cmp} (hs : SWO cmp) : ∀ (fuel : Nat) (s : List Int) (i n lo : Nat) (strict : Bool),
    n ≤ s.length → lo ≤ i → i ≤ n → n < i + fuel → DownPre cmp (nthN s) i n lo strict →
    ∃ (s' : List Int) (i' : Nat), down (sliceOps cmp) fuel s (i : Int) (n : Int) = some (s', (i' : Int)) ∧
      DownPost cmp s i n lo strict s' i' := by
  intro fuel
  induction fuel with
  | zero => intro s i n lo strict _ _ h1 h2; omega
  | succ f ih =>
    intro s i n lo strict hn hlo hin hfuel hpre
    rw [down]
    by_cases hstop : n ≤ 2 * i + 1
    · -- no child inside the prefix
      have : (2 * (i : Int) + 1 ≥ (n : Int) ∨ 2 * (i : Int) + 1 < 0) := by left; omega
      simp only [this, if_true]
      refine ⟨s, i, rfl, rfl, List.Perm.refl _, fun _ _ => rfl, Nat.le_refl _, ?_⟩
      have hch : ∀ c, c < n → 1 ≤ c → par c = i → cmp (nthN s c) (nthN s i) = false := by
        intro c hc hc1 hpc; unfold par at hpc; omega
      by_cases hst : strict = true
      · subst hst; simp only [true_or, if_true]; exact downPre_stop hpre hch
      · have : ¬ (strict = true ∨ i < i) := by simp [hst]
        simp only [this, if_false]; exact ⟨trivial, hch⟩
    · have hj1 : 2 * i + 1 < n := by omega
      have : ¬ (2 * (i : Int) + 1 ≥ (n : Int) ∨ 2 * (i : Int) + 1 < 0) := by omega
      simp only [this, if_false]
      have e1 : (2 * (i : Int) + 1) = ((2 * i + 1 : Nat) : Int) := by omega
      have e2 : (2 * (i : Int) + 1 + 1) = ((2 * i + 2 : Nat) : Int) := by omega
      have hi_lt : i < s.length := by omega
      -- the chosen child `j`
      obtain ⟨j, hjdef, hjn, hjpar, hj1', hmin, hsel⟩ :
          ∃ j, (j = 2 * i + 1 ∨ j = 2 * i + 2) ∧ j < n ∧ par j = i ∧ 1 ≤ j ∧
            (∀ c, c < n → 1 ≤ c → par c = i → cmp (nthN s c) (nthN s j) = false) ∧
            (if 2 * (i : Int) + 1 + 1 < (n : Int) then (sliceOps cmp).less s (2 * (i : Int) + 1 + 1) (2 * (i : Int) + 1)
              else some (s, false)) = some (s, decide (j = 2 * i + 2)) := by
        by_cases h2 : 2 * i + 2 < n
        · have : (((2 * i + 2 : Nat) : Int) < (n : Int)) := by omega
          rw [e2, e1, if_pos this]
          rw [less_cast cmp s (2 * i + 2) (2 * i + 1) (by omega) (by omega)]
          cases hb : cmp (nthN s (2 * i + 2)) (nthN s (2 * i + 1)) with
          | true =>
            refine ⟨2 * i + 2, Or.inr rfl, h2, by unfold par; omega, by omega, ?_, by simp⟩
            intro c hc hc1 hpc
            have : c = 2 * i + 1 ∨ c = 2 * i + 2 := by unfold par at hpc; omega
            rcases this with rfl | rfl
            · exact hs.asymm hb
            · exact hs.irrefl _
          | false =>
            refine ⟨2 * i + 1, Or.inl rfl, by omega, by unfold par; omega, by omega, ?_, by simp⟩
            intro c hc hc1 hpc
            have : c = 2 * i + 1 ∨ c = 2 * i + 2 := by unfold par at hpc; omega
            rcases this with rfl | rfl
            · exact hs.irrefl _
            · exact hb
        · have : ¬ (2 * (i : Int) + 1 + 1 < (n : Int)) := by omega
          rw [if_neg this]
          refine ⟨2 * i + 1, Or.inl rfl, by omega, by unfold par; omega, by omega, ?_, by simp⟩
          intro c hc hc1 hpc
          have : c = 2 * i + 1 := by unfold par at hpc; omega
          subst this; exact hs.irrefl _
      rw [hsel]
      simp only []
      have ej : (if decide (j = 2 * i + 2) = true then 2 * (i : Int) + 1 + 1 else 2 * (i : Int) + 1) = (j : Int) := by
        rcases hjdef with rfl | rfl
        · simp
        · simp; omega
      rw [ej, less_cast cmp s j i (by omega) hi_lt]
      cases hlt : cmp (nthN s j) (nthN s i) with
      | false =>
        simp only []
        refine ⟨s, i, rfl, rfl, List.Perm.refl _, fun _ _ => rfl, Nat.le_refl _, ?_⟩
        have hch : ∀ c, c < n → 1 ≤ c → par c = i → cmp (nthN s c) (nthN s i) = false := by
          intro c hc hc1 hpc
          exact hs.negTrans hlt (hmin c hc hc1 hpc)
        by_cases hst : strict = true
        · subst hst; simp only [true_or, if_true]; exact downPre_stop hpre hch
        · have : ¬ (strict = true ∨ i < i) := by simp [hst]
          simp only [this, if_false]; exact ⟨trivial, hch⟩
      | true =>
        simp only []
        rw [swap_cast cmp s i j hi_lt (by omega)]
        simp only []
        have hij : i < j := by unfold par at hjpar; omega
        have hpre' : DownPre cmp (nthN (swapN s i j)) j n lo true := by
          rw [nthN_swapN s i j hi_lt (by omega)]
          exact downPre_step hs hpre hlo hjn hjpar hj1' hlt hmin
        obtain ⟨s', i', hrun, hlen, hperm, htail, hle, hpost⟩ :=
          ih (swapN s i j) j n lo true (by simpa using hn) (by omega) (by omega) (by omega) hpre'
        refine ⟨s', i', hrun, by simpa using hlen, hperm.trans (swapN_perm s i j hi_lt (by omega)), ?_, by omega, ?_⟩
        · intro k hk
          rw [htail k hk, nthN_swapN s i j hi_lt (by omega)]
          have : k ≠ j := by omega
          have : k ≠ i := by omega
          simp [swapF, *]
        · have : strict = true ∨ i < i' := Or.inr (by omega)
          simp only [this, if_true]
          simpa using hpost

/-- `up` from `j`: heap order restored on the first `n` positions, multiset kept, no panic. -/
theorem up_spec {cmp} (hs : SWO cmp) : ∀ (fuel : Nat) (s : List Int) (j n : Nat),
    n ≤ s.length → j < n → j < fuel → UpPre cmp (nthN s) j n →
    ∃ s', up (sliceOps cmp) fuel s (j : Int) = some s' ∧
      s'.length = s.length ∧ s'.Perm s ∧ (∀ k, n ≤ k → nthN s' k = nthN s k) ∧
      HeapOn cmp (nthN s') 0 n := by
  intro fuel
  induction fuel with
  | zero => intro s j n _ _ h; omega
  | succ f ih =>
    intro s j n hn hj hfuel hpre
    rw [up]
    simp only [tdiv_cast]
    by_cases hj0 : j = 0
    · subst hj0
      have : ((par 0 : Nat) : Int) = ((0 : Nat) : Int) := by simp [par]
      simp only [this, if_true]
      exact ⟨s, rfl, rfl, List.Perm.refl _, fun _ _ => rfl, upPre_stop hpre (Or.inl rfl)⟩
    · have hpj : par j < j := by unfold par; omega
      have : ¬ (((par j : Nat) : Int) = (j : Int)) := by omega
      simp only [this, if_false]
      rw [less_cast cmp s j (par j) (by omega) (by omega)]
      cases hlt : cmp (nthN s j) (nthN s (par j)) with
      | false =>
        simp only []
        exact ⟨s, rfl, rfl, List.Perm.refl _, fun _ _ => rfl, upPre_stop hpre (Or.inr hlt)⟩
      | true =>
        simp only []
        rw [swap_cast cmp s (par j) j (by omega) (by omega)]
        simp only []
        have hpre' : UpPre cmp (nthN (swapN s (par j) j)) (par j) n := by
          rw [nthN_swapN s (par j) j (by omega) (by omega)]
          exact upPre_step hs hpre hj (by omega) hlt
        obtain ⟨s', hrun, hlen, hperm, htail, hheap⟩ :=
          ih (swapN s (par j) j) (par j) n (by simpa using hn) (by omega) (by omega) hpre'
        refine ⟨s', hrun, by simpa using hlen, hperm.trans (swapN_perm s (par j) j (by omega) (by omega)), ?_, hheap⟩
        intro k hk
        rw [htail k hk, nthN_swapN s (par j) j (by omega) (by omega)]
        have : k ≠ j := by omega
        have : k ≠ par j := by omega
        simp [swapF, *]

end Golib.C04
