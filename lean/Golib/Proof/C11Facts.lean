/-
C11 — obligations tying the model's program-counter order to the source.
`Golib.Gen.C11.{push,pop,len}Ops` is rewritten by the go/ast extractor on every run
from listz/sync_list.go (accesses in source order).  Each obligation RUNS the model's
`step` function for one thread alone and compares the accesses it performs with the
extracted list, so a reordering in the source (for instance undoing the F7 repair:
StorePointer(&l.tail) before AddInt64(&l.len, 1)) no longer checks.
-/
import Golib.Gen.FactsC11
import Golib.Model.C11List

namespace Golib.C11

/-- Successful `Push` alone on an empty list: the source order up to the `return`
(everything before `runtime.Gosched()`, which is only reached on the retry path). -/
theorem facts_push_success_path :
    soloSrc .addThenStore (init [] [[.push 5]]) 5 = Gen.C11.pushOps.takeWhile (· ≠ .gosched) := by
  decide

/-- The retry path of `Push` (next ≠ nil observed): load, load, Gosched, and again. -/
theorem facts_push_retry_path :
    soloSrc .addThenStore
      { chain := [0, 7], head := 0, tail := 0, len := 0, crashed := false,
        threads := [mkThread [.push 5]] } 4
      = (Gen.C11.pushOps.take 2 ++ Gen.C11.pushOps.filter (· = .gosched)) ++ Gen.C11.pushOps.take 1 := by
  decide

/-- `Gosched` is the last access of the loop body and occurs once. -/
theorem facts_push_gosched_last : Gen.C11.pushOps.getLast? = some .gosched ∧
    Gen.C11.pushOps.count .gosched = 1 := by decide

/-- Successful `Pop` alone on a one-element list: the whole source order. -/
theorem facts_pop_success_path :
    soloSrc .addThenStore (init [9] [[.pop]]) 7 = Gen.C11.popOps := by decide

/-- `Len`. -/
theorem facts_len : soloSrc .addThenStore (init [9] [[.len]]) 1 = Gen.C11.lenOps := by decide

/-- Control skeletons of `Push`, `Pop`, `Len` as the model has them: `Push` is ONE loop with
one branch (the link CAS) and one return; `Pop` is straight-line with two branches (empty /
CAS) and three returns; `Len` is one return.  No helper calls, no second loop, no `else`. -/
theorem facts_ctl :
    Gen.C11.pushCtl = [.loop, .cond "if", .ret] ∧
    Gen.C11.popCtl = [.cond "if", .ret, .cond "if", .ret, .ret] ∧
    Gen.C11.lenCtl = [.ret] := by
  decide

/-- `PopWait(d)` as the model has it: `d < 0` → loop of (`Pop`, return if ok, `Gosched`);
otherwise one `Pop` (return if ok); `d == 0` → return false; else a ticker and a loop of
(receive a tick, `Pop`, return if ok, return false if `now.Sub(begin) >= d`): exactly TWO
exits in the ticker loop, the successful `Pop` first. -/
theorem facts_popwait_shape :
    Gen.C11.popWaitOps =
      [.cond "d < 0", .loop, .callPop, .ret, .gosched, .callPop, .ret, .cond "d == 0", .ret,
       .ticker, .loop, .other "recv ticker.C", .callPop, .ret, .cond "now.Sub(begin) >= d", .ret] := by
  decide

/-- The model's `PopWait(d<0)` alone on an empty list: the failing prefix of `Pop`
(load head, load tail), `Gosched`, and again; `PopWait(0)` performs exactly `Pop`. -/
theorem facts_popwait_model :
    soloSrc .addThenStore (init [] [[.popWait true]]) 6 =
      Gen.C11.popOps.take 2 ++ [.gosched] ++ Gen.C11.popOps.take 2 ++ [.gosched] ∧
    soloSrc .addThenStore (init [9] [[.popWait false]]) 7 = Gen.C11.popOps ∧
    soloSrc .addThenStore (init [9] [[.popWait true]]) 7 = Gen.C11.popOps ∧
    (run .addThenStore (init [] [[.popWait false]]) [0, 0]).2.map (·.ret) = [none, some (.pop 0 false)] ∧
    -- PopWait(d>0), expiry on the first tick, empty list: Pop, tick, Pop, return false
    soloSrc .addThenStore (init [] [[.popWaitT 1]]) 5 =
      Gen.C11.popOps.take 2 ++ [.ticker] ++ Gen.C11.popOps.take 2 ∧
    (run .addThenStore (init [] [[.popWaitT 1]]) [0, 0, 0, 0, 0]).2.map (·.ret) =
      [none, none, none, none, some (.pop 0 false)] ∧
    soloSrc .addThenStore (init [9] [[.popWaitT 1]]) 7 = Gen.C11.popOps := by
  decide

end Golib.C11
