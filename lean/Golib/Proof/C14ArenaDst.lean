/-
C14 helper lemmas, part 10: the dst-style functions (`Diff`/`Intersect`/`Unique`/`UniqueByKey`/
`Filter`) on ONE arena.  If `dst`'s window starts at or before the window of the first slice
(the layouts that "dst is the prefix s[:0] of an input" generalises to), or lies entirely behind
it, the write cursor `dst.off + j` never reaches a cell of `s1` that is still to be read
(`j ≤ i`), so the result is the selection of the ORIGINAL `s1`; all writes stay inside
`[dst.off, dst.off + cap(dst))`.  With `dst = nil` the result is memory of its own, the arena
is not written, and the result is nil exactly when nothing was selected.
-/
import Golib.Proof.C14Arena

namespace Golib.C14

/-- what `dst` holds -/
def AOut.content (A : List Int) : AOut → List Int
  | .inA w j => (A.drop w.off).take j
  | .own xs _ => xs

/-- the content of a result -/
def ARes.content (A : List Int) : ARes → List Int
  | .win off len => (A.drop off).take len
  | .fresh xs _ => xs

theorem ares_content_res (A : List Int) (o : AOut) : (o.res).content A = o.content A := by
  cases o <;> rfl

/-- the still unread cells `s1[i .. i+f)` -/
def unread (A : List Int) (s1 : Win) (i f : Nat) : List Int := (A.drop (s1.off + i)).take f

theorem unread_succ (A : List Int) (s1 : Win) (i f : Nat) (h : s1.off + i < A.length) :
    A[s1.off + i]? = some A[s1.off + i] ∧
    unread A s1 i (f + 1) = A[s1.off + i] :: unread A s1 (i + 1) f := by
  refine ⟨List.getElem?_eq_getElem h, ?_⟩
  simp only [unread]
  rw [List.drop_eq_getElem_cons h, List.take_succ_cons]
  rfl

/-- detached destination: the arena is never written again -/
theorem aselLoop_own {σ : Type} (sel : σ → Int → σ × Bool) (s1 : Win) :
    ∀ (f i : Nat) (st : σ) (A : List Int) (xs : List Int) (n : Bool),
      s1.off + i + f ≤ A.length →
      aselLoop sel s1 f i st A (.own xs n) =
        some (A, .own (xs ++ selSpec sel st (unread A s1 i f))
          (n && (selSpec sel st (unread A s1 i f)).isEmpty)) := by
  intro f
  induction f with
  | zero => intro i st A xs n _; simp [aselLoop, unread, selSpec]
  | succ f ih =>
    intro i st A xs n h
    obtain ⟨hv, hu⟩ := unread_succ A s1 i f (by omega)
    simp only [aselLoop, hv, hu, selSpec]
    cases ht : (sel st A[s1.off + i]).2
    · have : sel st A[s1.off + i] = ((sel st A[s1.off + i]).1, false) := by rw [← ht]
      rw [this]
      simp only [Bool.false_eq_true, if_false]
      exact ih (i + 1) _ A xs n (by omega)
    · have : sel st A[s1.off + i] = ((sel st A[s1.off + i]).1, true) := by rw [← ht]
      rw [this]
      simp only [if_true, apush]
      rw [ih (i + 1) _ A _ false (by omega)]
      simp

/-- `dst` starts at or before `s1`, or lies entirely behind it -/
def SafeDst (w s1 : Win) : Prop := w.off ≤ s1.off ∨ s1.off + s1.len ≤ w.off

/-- outside `dst`'s capacity region nothing changes -/
def FrameW (w : Win) (A A' : List Int) : Prop :=
  A'.length = A.length ∧ ∀ p, ¬ (w.off ≤ p ∧ p < w.off + w.cap) → A'[p]? = A[p]?

theorem take_drop_set_succ (A : List Int) (off j : Nat) (v : Int) (h : off + j < A.length) :
    ((A.set (off + j) v).drop off).take (j + 1) = (A.drop off).take j ++ [v] := by
  apply List.ext_getElem?; intro k
  simp only [List.getElem?_take, List.getElem?_drop, List.getElem?_set, List.getElem?_append,
    List.length_take, List.length_drop]
  grind

theorem unread_set (A : List Int) (s1 : Win) (i f c : Nat) (v : Int)
    (hc : c < s1.off + i ∨ s1.off + i + f ≤ c) :
    unread (A.set c v) s1 i f = unread A s1 i f := by
  apply List.ext_getElem?; intro k
  simp only [unread, List.getElem?_take, List.getElem?_drop, List.getElem?_set]
  grind

/-- destination inside the arena at a safe position, write cursor not ahead of the read cursor -/
theorem aselLoop_inA {σ : Type} (sel : σ → Int → σ × Bool) (s1 w : Win) (hsafe : SafeDst w s1) :
    ∀ (f i : Nat) (st : σ) (A : List Int) (j : Nat),
      f + i = s1.len → s1.off + s1.len ≤ A.length → w.off + w.cap ≤ A.length → j ≤ i →
      ∃ A' o', aselLoop sel s1 f i st A (.inA w j) = some (A', o') ∧
        o'.content A' = (A.drop w.off).take j ++ selSpec sel st (unread A s1 i f) ∧
        FrameW w A A' := by
  intro f
  induction f with
  | zero =>
    intro i st A j _ _ _ _
    exact ⟨A, _, rfl, by simp [AOut.content, unread, selSpec], rfl, fun _ _ => rfl⟩
  | succ f ih =>
    intro i st A j hf hs1 hw hj
    obtain ⟨hv, hu⟩ := unread_succ A s1 i f (by omega)
    simp only [aselLoop, hv, hu, selSpec]
    cases ht : (sel st A[s1.off + i]).2
    · have : sel st A[s1.off + i] = ((sel st A[s1.off + i]).1, false) := by rw [← ht]
      rw [this]
      simp only [Bool.false_eq_true, if_false]
      exact ih (i + 1) _ A j (by omega) hs1 hw (by omega)
    · have : sel st A[s1.off + i] = ((sel st A[s1.off + i]).1, true) := by rw [← ht]
      rw [this]
      simp only [if_true, apush]
      by_cases hc : j < w.cap
      · simp only [hc, if_true]
        have hcell : w.off + j < s1.off + (i + 1) ∨ s1.off + (i + 1) + f ≤ w.off + j := by
          unfold SafeDst at hsafe; omega
        obtain ⟨A', o', hl, hcont, hfr⟩ := ih (i + 1) (sel st A[s1.off + i]).1 (A.set (w.off + j) A[s1.off + i]) (j + 1)
          (by omega) (by simpa using hs1) (by simpa using hw) (by omega)
        refine ⟨A', o', hl, ?_, ?_⟩
        · rw [hcont, take_drop_set_succ A w.off j _ (by omega), unread_set A s1 (i + 1) f _ _ hcell]
          simp
        · obtain ⟨h1, h2⟩ := hfr
          refine ⟨by simpa using h1, fun p hp => ?_⟩
          rw [h2 p hp, List.getElem?_set_ne]
          omega
      · simp only [hc, if_false]
        rw [aselLoop_own sel s1 f (i + 1) _ A _ false (by omega)]
        exact ⟨A, _, rfl, by simp [AOut.content], rfl, fun _ _ => rfl⟩

/-- What a dst-style call guarantees on the arena. -/
structure ArenaDstOk (sel : List Int) (A : List Int) (dst : Option Win) (A' : List Int) (res : ARes) : Prop where
  result : res.content A' = sel
  frame : match dst with
    | none => A' = A ∧ res = .fresh sel sel.isEmpty
    | some w => FrameW w A A'

/-- the generic loop started as the Go functions start it -/
theorem aselLoop_spec {σ : Type} (sel : σ → Int → σ × Bool) (st : σ) (A : List Int) (dst : Option Win)
    (s1 : Win) (hs1 : s1.off + s1.len ≤ A.length)
    (hd : ∀ w, dst = some w → w.off + w.cap ≤ A.length ∧ SafeDst w s1) :
    ∃ A' res, afinish (aselLoop sel s1 s1.len 0 st A (AOut.init dst)) = some (A', res) ∧
      ArenaDstOk (selSpec sel st (s1.read A)) A dst A' res := by
  have hu : unread A s1 0 s1.len = s1.read A := by simp [unread, Win.read]
  cases dst with
  | none =>
    simp only [AOut.init]
    rw [aselLoop_own sel s1 s1.len 0 st A [] true (by omega), hu]
    exact ⟨A, _, rfl, by simp [afinish, AOut.res, ARes.content], by simp [AOut.res]⟩
  | some w =>
    obtain ⟨hw, hsafe⟩ := hd w rfl
    obtain ⟨A', o', hl, hc, hfr⟩ := aselLoop_inA sel s1 w hsafe s1.len 0 st A 0 (by omega) hs1 hw (by omega)
    simp only [AOut.init]
    refine ⟨A', o'.res, by simp [afinish, hl], ?_, hfr⟩
    rw [ares_content_res, hc, hu]; simp

theorem arenaDstOk_init (A : List Int) (dst : Option Win) :
    ArenaDstOk [] A dst A (AOut.init dst).res := by
  cases dst with
  | none => exact ⟨rfl, rfl, rfl⟩
  | some w => exact ⟨by simp [AOut.init, AOut.res, ARes.content], rfl, fun _ _ => rfl⟩

/-- `append(dst, s1...)` (memmove of a snapshot): right for EVERY layout -/
theorem apushAll_spec (A : List Int) (dst : Option Win) (src : List Int)
    (hd : ∀ w, dst = some w → w.off + w.cap ≤ A.length) :
    ArenaDstOk src A dst (apushAll A (AOut.init dst) src).1 (apushAll A (AOut.init dst) src).2.res := by
  cases dst with
  | none =>
    simp only [AOut.init, apushAll]
    exact ⟨by simp [AOut.res, ARes.content], rfl, by simp [AOut.res]⟩
  | some w =>
    have hw := hd w rfl
    simp only [AOut.init, apushAll]
    by_cases hc : 0 + src.length ≤ w.cap
    · simp only [hc, if_true]
      refine ⟨?_, ?_, ?_⟩
      · simp only [AOut.res, ARes.content, Nat.add_zero, Nat.zero_add]
        rw [List.append_assoc, List.drop_append_of_le_length (by simp; omega),
          List.drop_of_length_le (by simp; omega)]
        simp
      · simp only [List.length_append, List.length_take, List.length_drop]; omega
      · intro p hp
        simp only [List.getElem?_append, List.getElem?_take, List.getElem?_drop, List.length_take,
          List.length_append, Nat.add_zero]
        have hmin : min w.off A.length = w.off := by omega
        rw [hmin]
        by_cases h1 : p < w.off
        · simp [h1]; intro h; omega
        · have h2 : ¬ p < w.off + src.length := by omega
          simp only [h1, h2, if_false]
          congr 1; omega
    · simp only [hc, if_false]
      exact ⟨by simp [AOut.res, ARes.content], rfl, fun _ _ => rfl⟩

theorem filterA_spec (p : Int → Bool) (A : List Int) (dst : Option Win) (s1 : Win)
    (hs1 : s1.off + s1.len ≤ A.length)
    (hd : ∀ w, dst = some w → w.off + w.cap ≤ A.length ∧ SafeDst w s1) :
    ∃ A' res, filterA p A dst s1 = some (A', res) ∧ ArenaDstOk ((s1.read A).filter p) A dst A' res := by
  have := aselLoop_spec (statelessSel p) () A dst s1 hs1 hd
  rwa [selSpec_stateless] at this

theorem diffA_spec (E : ElemEq) (A : List Int) (dst : Option Win) (s1 s2 : Win) (hs1 : s1.off + s1.len ≤ A.length)
    (hd : ∀ w, dst = some w → w.off + w.cap ≤ A.length ∧ SafeDst w s1) :
    ∃ A' res, diffA E A dst s1 s2 = some (A', res) ∧
      ArenaDstOk ((s1.read A).filter fun v => !memE E (s2.read A) v) A dst A' res := by
  unfold diffA
  by_cases h1 : s1.len = 0
  · simp only [h1, if_true]
    have : s1.read A = [] := read_nil_of_len A s1 h1
    rw [this]
    exact ⟨A, _, rfl, arenaDstOk_init A dst⟩
  · by_cases h2 : s2.len = 0
    · simp only [h1, h2, if_false, if_true, afinish, Option.map_some]
      have h2' : s2.read A = [] := read_nil_of_len A s2 h2
      have hf : ((s1.read A).filter fun v => !memE E ([] : List Int) v) = s1.read A :=
        List.filter_eq_self.mpr (by simp [memE_nil])
      rw [h2', hf]
      exact ⟨_, _, rfl, apushAll_spec A dst (s1.read A) (fun w hw => (hd w hw).1)⟩
    · simp only [h1, h2, if_false]
      have := aselLoop_spec (statelessSel fun v => !memE E (s2.read A) v) () A dst s1 hs1 hd
      rwa [selSpec_stateless] at this

theorem intersectA_spec (E : ElemEq) (A : List Int) (dst : Option Win) (s1 s2 : Win) (hs1 : s1.off + s1.len ≤ A.length)
    (hd : ∀ w, dst = some w → w.off + w.cap ≤ A.length ∧ SafeDst w s1) :
    ∃ A' res, intersectA E A dst s1 s2 = some (A', res) ∧
      ArenaDstOk ((s1.read A).filter fun v => memE E (s2.read A) v) A dst A' res := by
  unfold intersectA
  by_cases h0 : s1.len = 0 ∨ s2.len = 0
  · simp only [h0, if_true]
    have : ((s1.read A).filter fun v => memE E (s2.read A) v) = [] := by
      rcases h0 with h0 | h0
      · rw [read_nil_of_len A s1 h0]; rfl
      · rw [read_nil_of_len A s2 h0]; simp [memE_nil]
    rw [this]
    exact ⟨A, _, rfl, arenaDstOk_init A dst⟩
  · simp only [h0, if_false]
    have := aselLoop_spec (statelessSel fun v => memE E (s2.read A) v) () A dst s1 hs1 hd
    rwa [selSpec_stateless] at this

theorem uniqueByKeyA_spec (E : ElemEq) (key : Int → Int) (A : List Int) (dst : Option Win) (s1 : Win)
    (hs1 : s1.off + s1.len ≤ A.length)
    (hd : ∀ w, dst = some w → w.off + w.cap ≤ A.length ∧ SafeDst w s1) :
    ∃ A' res, uniqueByKeyA E key A dst s1 = some (A', res) ∧
      ArenaDstOk (firstOccE E key [] (s1.read A)) A dst A' res := by
  unfold uniqueByKeyA
  by_cases h1 : s1.len = 0
  · simp only [h1, if_true]
    rw [read_nil_of_len A s1 h1]
    exact ⟨A, _, rfl, by simpa [firstOccE] using arenaDstOk_init A dst⟩
  · simp only [h1, if_false]
    have := aselLoop_spec (uniqueSelE E key) ([], 0) A dst s1 hs1 hd
    rwa [show (([] : List Int), 0) = (([] : List Int), ([] : List Int).length) from rfl, selSpec_uniqueE] at this

end Golib.C14
