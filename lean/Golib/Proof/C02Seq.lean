/-
C02 helper lemmas: held `iter.Seq2` values (closures over the list object, `Model/C02Skip.lean`
"held iter.Seq2 values"): every way of ranging one is a function of the current abstract state.
-/
import Golib.Proof.C02Refine

namespace Golib.C02
variable {K V : Type} [DecidableEq K]

theorem range_eq_weak (cfg : Cfg K V) (hc : WeakCmp cfg.cmp) (hf : cfg.fixed = true) {s : SL K V}
    (hg : Good cfg s) (n : Nat) : s.range cfg n = some (stopAfter n (toMap s)) := by
  obtain ⟨s', out, h1, _, h3, _⟩ := step_sim_weak cfg hc hf hg (.all n)
  simp only [SL.step] at h1
  simp only [OMap.stepW] at h3
  cases hr : s.range cfg n with
  | none => rw [hr] at h1; cases h1
  | some xs =>
    rw [hr] at h1
    simp only [Option.map_some, Option.some.injEq, Prod.mk.injEq] at h1
    obtain ⟨_, h1⟩ := h1
    rw [← h1] at h3
    simp only [Prod.mk.injEq, Out.kvs.injEq] at h3
    rw [h3.2]


theorem seqTwice_eq (cfg : Cfg K V) (hc : WeakCmp cfg.cmp) (hf : cfg.fixed = true) {s : SL K V}
    (hg : Good cfg s) (j : Nat) : s.seqTwice cfg j = some (stopAfter j (toMap s), toMap s) := by
  unfold SL.seqTwice
  rw [range_eq_weak cfg hc hf hg j, range_eq_weak cfg hc hf hg 0]
  simp [stopAfter]

theorem pull2_eq (cfg : Cfg K V) (hc : WeakCmp cfg.cmp) (hf : cfg.fixed = true) {s : SL K V}
    (hg : Good cfg s) (a : Nat) : s.pull2 cfg a = some (stopAfter a (toMap s), toMap s) := by
  unfold SL.pull2
  rw [range_eq_weak cfg hc hf hg a, range_eq_weak cfg hc hf hg 0]
  simp [stopAfter]

theorem mapM_const_some {α β : Type} (b : β) : ∀ (l : List α), l.mapM (fun _ => some b) = some (List.replicate l.length b)
  | [] => rfl
  | _ :: xs => by
    rw [List.mapM_cons, mapM_const_some b xs]
    rfl

theorem seqNest_eq (cfg : Cfg K V) (hc : WeakCmp cfg.cmp) (hf : cfg.fixed = true) {s : SL K V}
    (hg : Good cfg s) (j : Nat) :
    s.seqNest cfg j = some (stopAfter j (toMap s),
      List.replicate (stopAfter j (toMap s)).length (toMap s).length) := by
  unfold SL.seqNest
  rw [range_eq_weak cfg hc hf hg j, range_eq_weak cfg hc hf hg 0]
  simp only [Option.map_some]
  have : stopAfter 0 (toMap s) = toMap s := by simp [stopAfter]
  rw [this, mapM_const_some]
  rfl

end Golib.C02
