/-
Tie proofs for the regenerated translation of `algz/dp.go` (`Golib/Gen/TransC18.lean`):
`Knapsack` equals the hand-written model `Golib.C18.knapsackGo`, `slicesPool.Get/Put` equal the
value-level pool.  The scripts only use the shape "read two cells, compare, write one cell, count
down": renamed locals, `i--` vs `i -= 1`, reordered independent statements keep them passing.
-/
import Golib.Gen.TransC18
import Golib.Model.C18Knap

namespace Golib.C18.Trans
open Golib.GoSem Golib.Gen.Trans.C18

/-- The generated structure for Go's `knapsack[T]` (the name `knapsack` is the model function here). -/
abbrev GK (α : Type) := _root_.Golib.Gen.Trans.C18.knapsack α

/-- A table cell of the generated code as the model's cell. -/
def toCell {α : Type} (k : GK α) : Cell α := (k.score, k.items)

/-- The breaker `Knapsack` uses: element 0 of the variadic list, when there is one (it may be nil). -/
def brOf {α : Type} : List (Option (List α → List α → Bool)) → Option (List α → List α → Bool)
  | [] => none
  | b :: _ => b

/-- `none` (the model's panic) is `.panic`. -/
def ofOpt {α : Type} : Option α → Res α
  | some a => .ok a
  | none => .panic

theorem idx_eq {α : Type} (s : List α) (i : Int) (n : Nat) (hi : i = (n : Int)) (h : n < s.length) :
    GoSem.idx s i = .ok s[n] := by
  subst hi; exact idx_ofNat s n h

theorem idx_big {α : Type} (s : List α) (i : Int) (h : (s.length : Int) ≤ i) : GoSem.idx s i = .panic := by
  have h0 : ¬ i < 0 := by omega
  have h1 : s.length ≤ i.toNat := by omega
  simp [GoSem.idx, h0, List.getElem?_eq_none h1]

theorem idx_neg {α : Type} (s : List α) (i : Int) (h : i < 0) : GoSem.idx s i = .panic := by
  simp [GoSem.idx, h]

theorem setIdx_eq {α : Type} (s : List α) (i : Int) (n : Nat) (v : α) (hi : i = (n : Int))
    (h : n < s.length) : GoSem.setIdx s i v = .ok (s.set n v) := by
  subst hi; simp [setIdx_natCast, h]

theorem slice00 {α : Type} (s : List α) : GoSem.slice s 0 (0 : Int) = .ok [] := by
  simp [GoSem.slice]

theorem slice0n {α : Type} (s : List α) (n : Nat) (h : n ≤ s.length) :
    GoSem.slice s 0 (n : Int) = .ok (s.take n) := by
  simp [GoSem.slice, h]

theorem toCell_set {α : Type} (dp : List (GK α)) (i : Nat) (k : GK α) :
    (dp.set i k).map toCell = (dp.map toCell).set i (toCell k) := by
  simp [List.map_set]

section
variable {T : Type} [Inhabited T]


/-- The generated inner loop behind a FIXED argument order.  The translator lists the loop-carried
locals in source order under their source names, so reordering the independent statements
`w := weightFunc(item)` / `value := valueFunc(item)` permutes the two `Int` parameters and renaming them
changes the binder names: the first alternative (named `w`, `value`) survives a reordering, the second
(positional) a renaming. -/
@[reducible] def loop2C (fuel : Nat) (br : Option (List T → List T → Bool)) (item : T) (w value : Int)
    (dp : List (GK T)) (tmp : List T) (i : Int) : Res (List (GK T) × List T × Int) := by
  first
  | exact Knapsack_loop2 (w := w) (value := value) fuel br item dp tmp i
  | exact Knapsack_loop2 fuel br item w value dp tmp i

/-- The inner loop `for i := maxWeight; i >= w; i--` for `w = wn ≥ 0`, started at `i = wn + n - 1` with
all its indices inside the table: it ends normally, and the table it leaves is the model's. -/
theorem loop2_ok (br : Option (List T → List T → Bool)) (item : T) (wn : Nat) (value : Int) :
    ∀ (n fuel : Nat) (dp : List (GK T)) (tmp : List T) (i : Int),
      n + 1 ≤ fuel → wn + n ≤ dp.length → i = (wn : Int) + (n : Int) - 1 →
      ∃ dp' tmp', loop2C fuel br item (wn : Int) value dp tmp i = .ok (dp', tmp', (wn : Int) - 1)
        ∧ dp'.length = dp.length
        ∧ kInner br item wn value n (dp.map toCell) = some (dp'.map toCell) := by
  intro n
  induction n with
  | zero =>
    intro fuel dp tmp i hf _ hi
    obtain ⟨f, rfl⟩ : ∃ f, fuel = f + 1 := ⟨fuel - 1, by omega⟩
    have hi' : i = (wn : Int) - 1 := by omega
    subst hi'
    have hc : ¬ ((wn : Int) - 1 ≥ (wn : Int)) := by omega
    refine ⟨dp, tmp, ?_, rfl, rfl⟩
    unfold loop2C Knapsack_loop2
    simp only [hc, decide_false, Bool.false_eq_true, if_false]
  | succ k ih =>
    intro fuel dp tmp i hf hlen hi
    obtain ⟨f, rfl⟩ : ∃ f, fuel = f + 1 := ⟨fuel - 1, by omega⟩
    have hc : i ≥ (wn : Int) := by omega
    have hk : k < dp.length := by omega
    have hwk : wn + k < dp.length := by omega
    have hiw : i - (wn : Int) = (k : Int) := by omega
    have hii : i = ((wn + k : Nat) : Int) := by omega
    have hnext : i - 1 = (wn : Int) + (k : Int) - 1 := by omega
    -- the model's step
    have hstep : ∀ dp1 : List (GK T), dp1.length = dp.length →
        kStep br item wn value k (dp.map toCell) = some (dp1.map toCell) →
        ∀ tmp1, ∃ dp' tmp', loop2C f br item (wn : Int) value dp1 tmp1 (i - 1)
            = .ok (dp', tmp', (wn : Int) - 1)
          ∧ dp'.length = dp.length
          ∧ kInner br item wn value (k + 1) (dp.map toCell) = some (dp'.map toCell) := by
      intro dp1 hl1 hs tmp1
      obtain ⟨dp', tmp', h1, h2, h3⟩ := ih f dp1 tmp1 (i - 1) (by omega) (by omega) hnext
      exact ⟨dp', tmp', h1, by omega, by simp only [kInner, hs, h3]⟩
    have hsrc : (dp.map toCell)[k]? = some (toCell dp[k]) := by
      simp [List.getElem?_map, List.getElem?_eq_getElem hk]
    have hcur : (dp.map toCell)[wn + k]? = some (toCell dp[wn + k]) := by
      simp [List.getElem?_map, List.getElem?_eq_getElem hwk]
    unfold loop2C Knapsack_loop2
    simp only [hc, decide_true, if_true, hiw, idx_eq dp (k : Int) k rfl hk, idx_eq dp i (wn + k) hii hwk,
      bind, pure, Res.bind_ok', slice00, List.nil_append]
    by_cases h1 : dp[k].score + value > dp[wn + k].score
    · -- strictly better: overwrite the cell
      have hset : ∀ v, GoSem.setIdx dp i v = .ok (dp.set (wn + k) v) := fun v => setIdx_eq dp i _ v hii hwk
      have hl : (wn + k) < (dp.set (wn + k) ({ dp[wn + k] with items := dp[k].items ++ [item] })).length := by
        simpa using hwk
      simp only [h1, decide_true, if_true, hset, Res.bind_ok', idx_eq _ i (wn + k) hii hl,
        setIdx_eq _ i (wn + k) _ hii hl, List.getElem_set_self, List.set_set]
      apply hstep
      · simp
      · simp only [kStep, hsrc, hcur, toCell, toCell_set]
        simp [h1]
    · simp only [h1, decide_false, Bool.false_eq_true, if_false]
      by_cases h2 : dp[k].score + value = dp[wn + k].score
      · cases br with
        | none =>
          simp only [Option.isSome_none, Bool.and_false, Bool.false_eq_true, if_false, Res.bind_ok']
          apply hstep dp rfl
          simp only [kStep, hsrc, hcur, toCell]
          simp [h2]
        | some g =>
          have hset : ∀ v, GoSem.setIdx dp i v = .ok (dp.set (wn + k) v) := fun v => setIdx_eq dp i _ v hii hwk
          have hl : (wn + k) < (dp.set (wn + k) ({ dp[wn + k] with items := dp[k].items ++ [item] })).length := by
            simpa using hwk
          by_cases h3 : g dp[wn + k].items (dp[k].items ++ [item]) = true
          · simp only [h2, beq_self_eq_true, Option.isSome_some, Bool.and_self, if_true, Res.bind_ok', h3,
              hset, idx_eq _ i (wn + k) hii hl, setIdx_eq _ i (wn + k) _ hii hl, List.getElem_set_self,
              List.set_set]
            apply hstep
            · simp
            · simp only [kStep, hsrc, hcur, toCell, toCell_set]
              simp [h2, h3]
          · simp only [h2, beq_self_eq_true, Option.isSome_some, Bool.and_self, if_true, Res.bind_ok', h3,
              Bool.false_eq_true, if_false]
            apply hstep dp rfl
            simp only [kStep, hsrc, hcur, toCell]
            simp [h2, h3]
      · have h2' : ¬ ((dp[k].score + value == dp[wn + k].score) = true) := by simpa using h2
        simp only [h2', Bool.false_and, Bool.false_eq_true, if_false, Res.bind_ok']
        apply hstep dp rfl
        simp only [kStep, hsrc, hcur, toCell]
        simp [h1, h2]

/-- The inner loop when `w > i` already at the start: no iteration. -/
theorem loop2_exit (br : Option (List T → List T → Bool)) (item : T) (w value : Int) (f : Nat)
    (dp : List (GK T)) (tmp : List T) (i : Int) (h : i < w) :
    loop2C (f + 1) br item w value dp tmp i = .ok (dp, tmp, i) := by
  have hc : ¬ (i ≥ w) := by omega
  unfold loop2C Knapsack_loop2
  simp only [hc, decide_false, Bool.false_eq_true, if_false]

/-- The inner loop for a negative weight: the first read `dp[i-w]` is behind the table. -/
theorem loop2_negw (br : Option (List T → List T → Bool)) (item : T) (w value : Int) (f : Nat)
    (dp : List (GK T)) (tmp : List T) (i : Int) (hw : w < 0) (hi : (dp.length : Int) ≤ i + 1) (h0 : 0 ≤ i) :
    loop2C (f + 1) br item w value dp tmp i = .panic := by
  have hc : i ≥ w := by omega
  unfold loop2C Knapsack_loop2
  simp only [hc, decide_true, if_true, idx_big dp (i - w) (by omega), bind, Res.bind_panic']

/-- The outer loop over the items (`all = pre ++ rest`, `pre` already done): a negative weight in
`rest` panics, otherwise the table it leaves is the model's. -/
theorem loop1_ok (br : Option (List T → List T → Bool)) (W : Nat) (wf vf : T → Int) (all : List T) :
    ∀ (rest pre : List T) (fuel : Nat) (dp : List (GK T)) (tmp : List T),
      all = pre ++ rest → rest.length + 1 ≤ fuel → dp.length = W + 1 →
      (rest.any (fun x => decide (wf x < 0)) = true →
        Knapsack_loop1 fuel all (W : Int) wf vf br (pre.length : Int) dp tmp = .panic) ∧
      (rest.any (fun x => decide (wf x < 0)) = false →
        ∃ dp' tmp', Knapsack_loop1 fuel all (W : Int) wf vf br (pre.length : Int) dp tmp = .ok (dp', tmp')
          ∧ dp'.length = W + 1
          ∧ kItems br (fun x => (wf x).toNat) vf W rest (dp.map toCell) = some (dp'.map toCell)) := by
  intro rest
  induction rest with
  | nil =>
    intro pre fuel dp tmp hall hf hlen
    obtain ⟨f, rfl⟩ : ∃ f, fuel = f + 1 := ⟨fuel - 1, by omega⟩
    have hc : ¬ ((pre.length : Int) < (Int.ofNat all.length)) := by
      subst hall; simp
    refine ⟨by simp, fun _ => ⟨dp, tmp, ?_, hlen, rfl⟩⟩
    unfold Knapsack_loop1
    simp only [hc, decide_false, Bool.false_eq_true, if_false]
  | cons x xs ih =>
    intro pre fuel dp tmp hall hf hlen
    obtain ⟨f, rfl⟩ : ∃ f, fuel = f + 1 := ⟨fuel - 1, by omega⟩
    have hlt : pre.length < all.length := by subst hall; simp
    have hc : (pre.length : Int) < (Int.ofNat all.length) := by simpa using hlt
    have hx : all[pre.length] = x := by subst hall; simp
    have hnext : ((pre.length : Int) + 1) = ((pre ++ [x]).length : Int) := by simp
    have hall' : all = (pre ++ [x]) ++ xs := by simp [hall]
    have hfuel : (W : Int).toNat + 2 = ((W : Int).toNat + 1) + 1 := rfl
    unfold Knapsack_loop1
    simp only [hc, decide_true, if_true, idx_eq all (pre.length : Int) pre.length rfl hlt, hx, bind,
      Res.bind_ok']
    by_cases hw : wf x < 0
    · -- negative weight: the inner loop panics at once
      refine ⟨fun _ => ?_, fun h => ?_⟩
      · have hneg := loop2_negw br x (wf x) (vf x) ((W : Int).toNat + 1) dp tmp (W : Int) hw
          (by omega) (by omega)
        unfold loop2C at hneg
        rw [hfuel, hneg]
        rfl
      · simp [hw] at h
    · obtain ⟨wn, hwn⟩ : ∃ wn : Nat, wf x = (wn : Int) := ⟨(wf x).toNat, by omega⟩
      have hany : (x :: xs).any (fun x => decide (wf x < 0)) = xs.any (fun x => decide (wf x < 0)) := by
        simp [hw]
      -- the inner loop ends normally with the model's table
      have hin : ∃ dp1 tmp1 i1, loop2C ((W : Int).toNat + 2) br x (wf x) (vf x) dp tmp (W : Int)
            = .ok (dp1, tmp1, i1) ∧ dp1.length = W + 1
            ∧ kInner br x wn (vf x) (W + 1 - wn) (dp.map toCell) = some (dp1.map toCell) := by
        rw [hwn]
        by_cases hbig : wn ≤ W
        · obtain ⟨dp1, tmp1, h1, h2, h3⟩ := loop2_ok br x wn (vf x) (W + 1 - wn)
            ((W : Int).toNat + 2) dp tmp (W : Int) (by omega) (by omega) (by omega)
          exact ⟨dp1, tmp1, _, h1, by omega, h3⟩
        · have hz : W + 1 - wn = 0 := by omega
          rw [hfuel, loop2_exit br x (wn : Int) (vf x) _ dp tmp (W : Int) (by omega), hz]
          exact ⟨dp, tmp, _, rfl, hlen, rfl⟩
      obtain ⟨dp1, tmp1, i1, h1, h2, h3⟩ := hin
      unfold loop2C at h1
      obtain ⟨ihp, iho⟩ := ih (pre ++ [x]) f dp1 tmp1 hall' (by simp at hf ⊢; omega) h2
      have htoNat : (wf x).toNat = wn := by omega
      simp only [h1, Res.bind_ok', hnext, hany]
      refine ⟨ihp, fun h => ?_⟩
      obtain ⟨dp', tmp', e1, e2, e3⟩ := iho h
      exact ⟨dp', tmp', e1, e2, by simp only [kItems, htoNat, h3, e3]⟩

/-- **Tie**: the regenerated `Knapsack` is the hand-written model `knapsackGo` for every limit
`maxWeight ≥ 0`, every item list, every weight/value function and every variadic breaker list
(`[]` and `[nil, …]`: no breaker) — it panics exactly where the model is `none` (a negative weight),
and the fuel never runs out. -/
theorem trans_knapsack (maxWeight : Int) (h0 : 0 ≤ maxWeight) (items : List T) (wf vf : T → Int)
    (tb : List (Option (List T → List T → Bool))) :
    Golib.Gen.Trans.C18.Knapsack maxWeight items wf vf tb
      = ofOpt (knapsackGo (brOf tb) wf vf maxWeight items) := by
  obtain ⟨W, rfl⟩ : ∃ W : Nat, maxWeight = (W : Int) := ⟨maxWeight.toNat, by omega⟩
  have hbr : (if decide ((Int.ofNat tb.length) > (0 : Int)) then
        (GoSem.idx tb (0 : Int) >>= fun e1 => (pure e1 : Res _)) else pure none) = .ok (brOf tb) := by
    cases tb with
    | nil => simp [brOf]
    | cons b r =>
      simp [brOf, GoSem.idx]
  have hmk : ∀ z : GK T, GoSem.makeSlice z ((W : Int) + 1) = .ok (List.replicate (W + 1) z) := by
    intro z
    have : ((W : Int) + 1) = ((W + 1 : Nat) : Int) := by omega
    rw [this, makeSlice_natCast]
  have hW : ¬ ((W : Int) < 0) := by omega
  obtain ⟨hp, ho⟩ := loop1_ok (brOf tb) W wf vf items items [] (items.length + 1)
    (List.replicate (W + 1) ({ score := 0, items := [] } : GK T)) [] rfl (by omega) (by simp)
  have hrep : (List.replicate (W + 1) ({ score := 0, items := [] } : GK T)).map toCell
      = List.replicate (W + 1) ((0 : Int), ([] : List T)) := by simp [toCell]
  unfold Golib.Gen.Trans.C18.Knapsack
  simp only [bind, pure] at hbr ⊢
  simp only [hbr, Res.bind_ok', hmk]
  cases hany : items.any (fun x => decide (wf x < 0)) with
  | true =>
    have := hp hany
    simp only [List.length_nil, Int.natCast_zero] at this
    simp only [this, Res.bind_panic', knapsackGo, hW, hany, false_or, if_true, ofOpt]
  | false =>
    obtain ⟨dp', tmp', e1, e2, e3⟩ := ho hany
    simp only [List.length_nil, Int.natCast_zero] at e1
    rw [hrep] at e3
    have hWl : W < dp'.length := by omega
    simp only [e1, Res.bind_ok', idx_eq dp' (W : Int) W rfl hWl, knapsackGo, hW, hany, false_or,
      Bool.false_eq_true, if_false, Golib.C18.knapsack, Int.toNat_natCast, e3, List.getElem?_map,
      List.getElem?_eq_getElem hWl, Option.map_some, toCell, ofOpt]

/-! ### `slicesPool` (value level: the pool is the list of recycled slices, last = top) -/

theorem trans_pool_put (p : slicesPool T) (s : List T) :
    slicesPool_Put p s = .ok { entries := p.entries ++ [s] } := rfl

/-- `Get` on an empty pool allocates (`[]`, pool unchanged); otherwise it pops the LAST entry and
returns it re-sliced to length 0. -/
theorem trans_pool_get (p : slicesPool T) (c : Int) :
    slicesPool_Get p c = .ok ([], { entries := p.entries.dropLast }) := by
  unfold slicesPool_Get
  cases hp : p.entries.length with
  | zero =>
    have : p.entries = [] := List.eq_nil_of_length_eq_zero hp
    have hp' : p = { entries := [] } := by cases p; simp_all
    subst hp'
    simp [GoSem.makeSlice]
  | succ n =>
    have hne : ¬ ((Int.ofNat (n + 1)) == (0 : Int)) = true := by simp; omega
    have hlast : (Int.ofNat (n + 1) - 1) = ((n : Nat) : Int) := by simp
    have hn : n < p.entries.length := by omega
    simp only [hne, if_false, Bool.false_eq_true, bind, hlast, idx_eq p.entries (n : Int) n rfl hn,
      Res.bind_ok', slice0n p.entries n (by omega), slice00]
    congr 2
    rw [List.dropLast_eq_take, hp]; rfl

end
end Golib.C18.Trans
