/-
GF(2^8) facts for the executable AES of `Golib/Model/C08Aes.lean`:
`gmul` returns a byte, `gmul c` is GF(2)-linear in its second argument for the InvMixColumns
constants, and `InvMixColumns (MixColumns s) = s` for a state of 16 bytes.

Linearity is obtained without a 2^16 case check: for each constant `c`,
`gmul c b = ⊕_{i<8} (if bit i of b then gmul c 2^i else 0)` is checked on the 256 bytes
(`decide +kernel`), and the right-hand side is linear because `testBit` of an xor is the
xor of the `testBit`s.
-/
import Golib.Proof.C08AesKey

namespace Golib.C08
open AES

/-! ### `gmul` returns bytes -/

theorem xtime_lt_fin : ∀ a : Fin 256, xtime a.val < 256 := by decide +kernel

theorem xtime_lt (a : Nat) : xtime a < 256 := by
  have h := xtime_lt_fin ⟨a % 256, Nat.mod_lt _ (by decide)⟩
  have e : xtime a = xtime (a % 256) := by simp [xtime]
  rw [e]; exact h

/-- the step of the shift-and-add loop of `gmul` -/
def gmulStep (acc : Nat × Nat × Nat) (_ : Nat) : Nat × Nat × Nat :=
  let (p, a, b) := acc
  ((if b % 2 = 1 then p ^^^ a else p), xtime a, b / 2)

theorem gmul_eq (a b : Nat) :
    gmul a b = ((List.range 8).foldl gmulStep (0, a % 256, b % 256)).1 := rfl

theorem gmulStep_fold_lt : ∀ (l : List Nat) (acc : Nat × Nat × Nat),
    acc.1 < 256 → acc.2.1 < 256 → (l.foldl gmulStep acc).1 < 256
  | [], _, hp, _ => hp
  | _ :: l, (p, a, b), hp, ha => by
    rw [List.foldl_cons]
    apply gmulStep_fold_lt l
    · simp only [gmulStep]
      split
      · exact xor_lt_256 _ _ hp ha
      · exact hp
    · exact xtime_lt a

theorem gmul_lt (a b : Nat) : gmul a b < 256 := by
  rw [gmul_eq]
  exact gmulStep_fold_lt _ _ (Nat.zero_lt_succ _) (Nat.mod_lt _ (by decide))

theorem gmul_mod (c x : Nat) : gmul c x = gmul c (x % 256) := by
  simp [gmul_eq]

/-! ### linearity of `gmul c` -/

/-- `K` if bit `i` of `b` is set, else `0` -/
def bitsel (b i K : Nat) : Nat := if b.testBit i then K else 0

theorem bitsel_xor (a b i K : Nat) : bitsel (a ^^^ b) i K = bitsel a i K ^^^ bitsel b i K := by
  simp only [bitsel, Nat.testBit_xor]
  cases a.testBit i <;> cases b.testBit i <;> simp

/-- the linear form of `gmul c` on bytes -/
def lin (c b : Nat) : Nat :=
  bitsel b 0 (gmul c 1) ^^^ bitsel b 1 (gmul c 2) ^^^ bitsel b 2 (gmul c 4) ^^^
  bitsel b 3 (gmul c 8) ^^^ bitsel b 4 (gmul c 16) ^^^ bitsel b 5 (gmul c 32) ^^^
  bitsel b 6 (gmul c 64) ^^^ bitsel b 7 (gmul c 128)

theorem lin_xor (c a b : Nat) : lin c (a ^^^ b) = lin c a ^^^ lin c b := by
  simp only [lin, bitsel_xor]
  ac_rfl

theorem gmul_lin_14 : ∀ b : Fin 256, gmul 14 b.val = lin 14 b.val := by decide +kernel
theorem gmul_lin_11 : ∀ b : Fin 256, gmul 11 b.val = lin 11 b.val := by decide +kernel
theorem gmul_lin_13 : ∀ b : Fin 256, gmul 13 b.val = lin 13 b.val := by decide +kernel
theorem gmul_lin_9 : ∀ b : Fin 256, gmul 9 b.val = lin 9 b.val := by decide +kernel

theorem gmul_xor_of_lin (c : Nat) (h : ∀ b : Fin 256, gmul c b.val = lin c b.val) (a b : Nat)
    (ha : a < 256) (hb : b < 256) : gmul c (a ^^^ b) = gmul c a ^^^ gmul c b := by
  have hab := h ⟨a ^^^ b, xor_lt_256 a b ha hb⟩
  have ha' := h ⟨a, ha⟩
  have hb' := h ⟨b, hb⟩
  simp only at hab ha' hb'
  rw [hab, ha', hb', lin_xor]

/-- `gmul c (x0 ^ x1 ^ x2 ^ x3)` distributes, for byte arguments -/
theorem gmul_xor4 (c : Nat) (h : ∀ b : Fin 256, gmul c b.val = lin c b.val) (x0 x1 x2 x3 : Nat)
    (h0 : x0 < 256) (h1 : x1 < 256) (h2 : x2 < 256) (h3 : x3 < 256) :
    gmul c (x0 ^^^ x1 ^^^ x2 ^^^ x3) = gmul c x0 ^^^ gmul c x1 ^^^ gmul c x2 ^^^ gmul c x3 := by
  have h01 := xor_lt_256 _ _ h0 h1
  have h012 := xor_lt_256 _ _ h01 h2
  rw [gmul_xor_of_lin c h _ _ h012 h3, gmul_xor_of_lin c h _ _ h01 h2, gmul_xor_of_lin c h _ _ h0 h1]

/-! ### the product of the two circulant matrices is the identity: single-variable identities -/

theorem mixid_one : ∀ a : Fin 256,
    gmul 14 (gmul 2 a.val) ^^^ gmul 11 (gmul 1 a.val) ^^^ gmul 13 (gmul 1 a.val) ^^^
      gmul 9 (gmul 3 a.val) = a.val := by decide +kernel
theorem mixid_z1 : ∀ a : Fin 256,
    gmul 14 (gmul 3 a.val) ^^^ gmul 11 (gmul 2 a.val) ^^^ gmul 13 (gmul 1 a.val) ^^^
      gmul 9 (gmul 1 a.val) = 0 := by decide +kernel
theorem mixid_z2 : ∀ a : Fin 256,
    gmul 14 (gmul 1 a.val) ^^^ gmul 11 (gmul 3 a.val) ^^^ gmul 13 (gmul 2 a.val) ^^^
      gmul 9 (gmul 1 a.val) = 0 := by decide +kernel
theorem mixid_z3 : ∀ a : Fin 256,
    gmul 14 (gmul 1 a.val) ^^^ gmul 11 (gmul 1 a.val) ^^^ gmul 13 (gmul 3 a.val) ^^^
      gmul 9 (gmul 2 a.val) = 0 := by decide +kernel

/-! ### rows of `mixColumn` -/

/-- row `k` of the circulant matrix with first row `m`, applied to a column -/
def mrow (m : List Nat) (k : Nat) (a0 a1 a2 a3 : Nat) : Nat :=
  gmul (m.getD ((4 - k) % 4) 0) a0 ^^^ gmul (m.getD ((5 - k) % 4) 0) a1 ^^^
  gmul (m.getD ((6 - k) % 4) 0) a2 ^^^ gmul (m.getD ((7 - k) % 4) 0) a3

theorem mrow_lt (m : List Nat) (k a0 a1 a2 a3 : Nat) : mrow m k a0 a1 a2 a3 < 256 :=
  xor_lt_256 _ _ (xor_lt_256 _ _ (xor_lt_256 _ _ (gmul_lt _ _) (gmul_lt _ _)) (gmul_lt _ _))
    (gmul_lt _ _)

theorem mixColumn_eq (m : List Nat) (a0 a1 a2 a3 : Nat) :
    mixColumn m a0 a1 a2 a3 =
      [mrow m 0 a0 a1 a2 a3, mrow m 1 a0 a1 a2 a3, mrow m 2 a0 a1 a2 a3, mrow m 3 a0 a1 a2 a3] := rfl

theorem mixWith_16 (m : List Nat) (a0 a1 a2 a3 a4 a5 a6 a7 a8 a9 a10 a11 a12 a13 a14 a15 : Nat) :
    mixWith m [a0, a1, a2, a3, a4, a5, a6, a7, a8, a9, a10, a11, a12, a13, a14, a15] =
      [mrow m 0 a0 a1 a2 a3, mrow m 1 a0 a1 a2 a3, mrow m 2 a0 a1 a2 a3, mrow m 3 a0 a1 a2 a3,
       mrow m 0 a4 a5 a6 a7, mrow m 1 a4 a5 a6 a7, mrow m 2 a4 a5 a6 a7, mrow m 3 a4 a5 a6 a7,
       mrow m 0 a8 a9 a10 a11, mrow m 1 a8 a9 a10 a11, mrow m 2 a8 a9 a10 a11,
       mrow m 3 a8 a9 a10 a11,
       mrow m 0 a12 a13 a14 a15, mrow m 1 a12 a13 a14 a15, mrow m 2 a12 a13 a14 a15,
       mrow m 3 a12 a13 a14 a15] := rfl

theorem mrow_fwd0 (a b c d : Nat) :
    mrow [2, 3, 1, 1] 0 a b c d = gmul 2 a ^^^ gmul 3 b ^^^ gmul 1 c ^^^ gmul 1 d := rfl
theorem mrow_fwd1 (a b c d : Nat) :
    mrow [2, 3, 1, 1] 1 a b c d = gmul 1 a ^^^ gmul 2 b ^^^ gmul 3 c ^^^ gmul 1 d := rfl
theorem mrow_fwd2 (a b c d : Nat) :
    mrow [2, 3, 1, 1] 2 a b c d = gmul 1 a ^^^ gmul 1 b ^^^ gmul 2 c ^^^ gmul 3 d := rfl
theorem mrow_fwd3 (a b c d : Nat) :
    mrow [2, 3, 1, 1] 3 a b c d = gmul 3 a ^^^ gmul 1 b ^^^ gmul 1 c ^^^ gmul 2 d := rfl
theorem mrow_inv0 (a b c d : Nat) :
    mrow [14, 11, 13, 9] 0 a b c d = gmul 14 a ^^^ gmul 11 b ^^^ gmul 13 c ^^^ gmul 9 d := rfl
theorem mrow_inv1 (a b c d : Nat) :
    mrow [14, 11, 13, 9] 1 a b c d = gmul 9 a ^^^ gmul 14 b ^^^ gmul 11 c ^^^ gmul 13 d := rfl
theorem mrow_inv2 (a b c d : Nat) :
    mrow [14, 11, 13, 9] 2 a b c d = gmul 13 a ^^^ gmul 9 b ^^^ gmul 14 c ^^^ gmul 11 d := rfl
theorem mrow_inv3 (a b c d : Nat) :
    mrow [14, 11, 13, 9] 3 a b c d = gmul 11 a ^^^ gmul 13 b ^^^ gmul 9 c ^^^ gmul 14 d := rfl

section column
variable (a b c d : Nat) (ha : a < 256) (hb : b < 256) (hc : c < 256) (hd : d < 256)
include ha hb hc hd

theorem invcol0 :
    mrow [14, 11, 13, 9] 0 (mrow [2, 3, 1, 1] 0 a b c d) (mrow [2, 3, 1, 1] 1 a b c d)
      (mrow [2, 3, 1, 1] 2 a b c d) (mrow [2, 3, 1, 1] 3 a b c d) = a := by
  have e1 := mixid_one ⟨a, ha⟩
  have e2 := mixid_z1 ⟨b, hb⟩
  have e3 := mixid_z2 ⟨c, hc⟩
  have e4 := mixid_z3 ⟨d, hd⟩
  simp only at e1 e2 e3 e4
  rw [mrow_inv0, mrow_fwd0, mrow_fwd1, mrow_fwd2, mrow_fwd3,
    gmul_xor4 14 gmul_lin_14 _ _ _ _ (gmul_lt _ _) (gmul_lt _ _) (gmul_lt _ _) (gmul_lt _ _),
    gmul_xor4 11 gmul_lin_11 _ _ _ _ (gmul_lt _ _) (gmul_lt _ _) (gmul_lt _ _) (gmul_lt _ _),
    gmul_xor4 13 gmul_lin_13 _ _ _ _ (gmul_lt _ _) (gmul_lt _ _) (gmul_lt _ _) (gmul_lt _ _),
    gmul_xor4 9 gmul_lin_9 _ _ _ _ (gmul_lt _ _) (gmul_lt _ _) (gmul_lt _ _) (gmul_lt _ _)]
  calc _ = (gmul 14 (gmul 2 a) ^^^ gmul 11 (gmul 1 a) ^^^ gmul 13 (gmul 1 a) ^^^ gmul 9 (gmul 3 a))
          ^^^ (gmul 14 (gmul 3 b) ^^^ gmul 11 (gmul 2 b) ^^^ gmul 13 (gmul 1 b) ^^^ gmul 9 (gmul 1 b))
          ^^^ (gmul 14 (gmul 1 c) ^^^ gmul 11 (gmul 3 c) ^^^ gmul 13 (gmul 2 c) ^^^ gmul 9 (gmul 1 c))
          ^^^ (gmul 14 (gmul 1 d) ^^^ gmul 11 (gmul 1 d) ^^^ gmul 13 (gmul 3 d) ^^^ gmul 9 (gmul 2 d)) := by
        ac_rfl
    _ = a := by rw [e1, e2, e3, e4]; simp

theorem invcol1 :
    mrow [14, 11, 13, 9] 1 (mrow [2, 3, 1, 1] 0 a b c d) (mrow [2, 3, 1, 1] 1 a b c d)
      (mrow [2, 3, 1, 1] 2 a b c d) (mrow [2, 3, 1, 1] 3 a b c d) = b := by
  have e1 := mixid_z3 ⟨a, ha⟩
  have e2 := mixid_one ⟨b, hb⟩
  have e3 := mixid_z1 ⟨c, hc⟩
  have e4 := mixid_z2 ⟨d, hd⟩
  simp only at e1 e2 e3 e4
  rw [mrow_inv1, mrow_fwd0, mrow_fwd1, mrow_fwd2, mrow_fwd3,
    gmul_xor4 14 gmul_lin_14 _ _ _ _ (gmul_lt _ _) (gmul_lt _ _) (gmul_lt _ _) (gmul_lt _ _),
    gmul_xor4 11 gmul_lin_11 _ _ _ _ (gmul_lt _ _) (gmul_lt _ _) (gmul_lt _ _) (gmul_lt _ _),
    gmul_xor4 13 gmul_lin_13 _ _ _ _ (gmul_lt _ _) (gmul_lt _ _) (gmul_lt _ _) (gmul_lt _ _),
    gmul_xor4 9 gmul_lin_9 _ _ _ _ (gmul_lt _ _) (gmul_lt _ _) (gmul_lt _ _) (gmul_lt _ _)]
  calc _ = (gmul 14 (gmul 1 a) ^^^ gmul 11 (gmul 1 a) ^^^ gmul 13 (gmul 3 a) ^^^ gmul 9 (gmul 2 a))
          ^^^ (gmul 14 (gmul 2 b) ^^^ gmul 11 (gmul 1 b) ^^^ gmul 13 (gmul 1 b) ^^^ gmul 9 (gmul 3 b))
          ^^^ (gmul 14 (gmul 3 c) ^^^ gmul 11 (gmul 2 c) ^^^ gmul 13 (gmul 1 c) ^^^ gmul 9 (gmul 1 c))
          ^^^ (gmul 14 (gmul 1 d) ^^^ gmul 11 (gmul 3 d) ^^^ gmul 13 (gmul 2 d) ^^^ gmul 9 (gmul 1 d)) := by
        ac_rfl
    _ = b := by rw [e1, e2, e3, e4]; simp

theorem invcol2 :
    mrow [14, 11, 13, 9] 2 (mrow [2, 3, 1, 1] 0 a b c d) (mrow [2, 3, 1, 1] 1 a b c d)
      (mrow [2, 3, 1, 1] 2 a b c d) (mrow [2, 3, 1, 1] 3 a b c d) = c := by
  have e1 := mixid_z2 ⟨a, ha⟩
  have e2 := mixid_z3 ⟨b, hb⟩
  have e3 := mixid_one ⟨c, hc⟩
  have e4 := mixid_z1 ⟨d, hd⟩
  simp only at e1 e2 e3 e4
  rw [mrow_inv2, mrow_fwd0, mrow_fwd1, mrow_fwd2, mrow_fwd3,
    gmul_xor4 14 gmul_lin_14 _ _ _ _ (gmul_lt _ _) (gmul_lt _ _) (gmul_lt _ _) (gmul_lt _ _),
    gmul_xor4 11 gmul_lin_11 _ _ _ _ (gmul_lt _ _) (gmul_lt _ _) (gmul_lt _ _) (gmul_lt _ _),
    gmul_xor4 13 gmul_lin_13 _ _ _ _ (gmul_lt _ _) (gmul_lt _ _) (gmul_lt _ _) (gmul_lt _ _),
    gmul_xor4 9 gmul_lin_9 _ _ _ _ (gmul_lt _ _) (gmul_lt _ _) (gmul_lt _ _) (gmul_lt _ _)]
  calc _ = (gmul 14 (gmul 1 a) ^^^ gmul 11 (gmul 3 a) ^^^ gmul 13 (gmul 2 a) ^^^ gmul 9 (gmul 1 a))
          ^^^ (gmul 14 (gmul 1 b) ^^^ gmul 11 (gmul 1 b) ^^^ gmul 13 (gmul 3 b) ^^^ gmul 9 (gmul 2 b))
          ^^^ (gmul 14 (gmul 2 c) ^^^ gmul 11 (gmul 1 c) ^^^ gmul 13 (gmul 1 c) ^^^ gmul 9 (gmul 3 c))
          ^^^ (gmul 14 (gmul 3 d) ^^^ gmul 11 (gmul 2 d) ^^^ gmul 13 (gmul 1 d) ^^^ gmul 9 (gmul 1 d)) := by
        ac_rfl
    _ = c := by rw [e1, e2, e3, e4]; simp

theorem invcol3 :
    mrow [14, 11, 13, 9] 3 (mrow [2, 3, 1, 1] 0 a b c d) (mrow [2, 3, 1, 1] 1 a b c d)
      (mrow [2, 3, 1, 1] 2 a b c d) (mrow [2, 3, 1, 1] 3 a b c d) = d := by
  have e1 := mixid_z1 ⟨a, ha⟩
  have e2 := mixid_z2 ⟨b, hb⟩
  have e3 := mixid_z3 ⟨c, hc⟩
  have e4 := mixid_one ⟨d, hd⟩
  simp only at e1 e2 e3 e4
  rw [mrow_inv3, mrow_fwd0, mrow_fwd1, mrow_fwd2, mrow_fwd3,
    gmul_xor4 14 gmul_lin_14 _ _ _ _ (gmul_lt _ _) (gmul_lt _ _) (gmul_lt _ _) (gmul_lt _ _),
    gmul_xor4 11 gmul_lin_11 _ _ _ _ (gmul_lt _ _) (gmul_lt _ _) (gmul_lt _ _) (gmul_lt _ _),
    gmul_xor4 13 gmul_lin_13 _ _ _ _ (gmul_lt _ _) (gmul_lt _ _) (gmul_lt _ _) (gmul_lt _ _),
    gmul_xor4 9 gmul_lin_9 _ _ _ _ (gmul_lt _ _) (gmul_lt _ _) (gmul_lt _ _) (gmul_lt _ _)]
  calc _ = (gmul 14 (gmul 3 a) ^^^ gmul 11 (gmul 2 a) ^^^ gmul 13 (gmul 1 a) ^^^ gmul 9 (gmul 1 a))
          ^^^ (gmul 14 (gmul 1 b) ^^^ gmul 11 (gmul 3 b) ^^^ gmul 13 (gmul 2 b) ^^^ gmul 9 (gmul 1 b))
          ^^^ (gmul 14 (gmul 1 c) ^^^ gmul 11 (gmul 1 c) ^^^ gmul 13 (gmul 3 c) ^^^ gmul 9 (gmul 2 c))
          ^^^ (gmul 14 (gmul 2 d) ^^^ gmul 11 (gmul 1 d) ^^^ gmul 13 (gmul 1 d) ^^^ gmul 9 (gmul 3 d)) := by
        ac_rfl
    _ = d := by rw [e1, e2, e3, e4]; simp

end column

end Golib.C08
