/-
FindDpSolvers, heap level (continued): the two loops, the passes, the whole run.
-/
import Golib.Proof.C18SolvH

namespace Golib.C18

variable {α : Type}

section
variable (br : Option (List α → List α → Bool)) (maxV : Int) (allowOver : Bool) (grow : Nat → Nat)

theorem NoAlias.setOv {st : HSt α} (h : NoAlias st) (o : Int) : NoAlias { st with overflow := o } :=
  { kd := h.kd, kt := h.kt, inj_dp := h.inj_dp, inj_tmp := h.inj_tmp, dp_tmp := h.dp_tmp,
    nd_pool := h.nd_pool, dp_pool := h.dp_pool, tmp_pool := h.tmp_pool, b_dp := h.b_dp,
    b_tmp := h.b_tmp, b_pool := h.b_pool }

theorem Sim.setOv {st : HSt α} {v : VSt α} (h : Sim st v) (o : Int) :
    Sim { st with overflow := o } { v with overflow := o } :=
  { ov := rfl, kdp := h.kdp, ktmp := h.ktmp, rdp := h.rdp, rtmp := h.rtmp }

/-- One step of the first loop at both levels. -/
theorem hStep1_spec (x : α) (value : Int) (st : HSt α) (v : VSt α) (k : Int) (s : Slice) (val : List α)
    (hna : NoAlias st) (hs : Sim st v) (hl : alLookup k st.dp = some s)
    (hr : readS st.heap s = some val) :
    ∃ st', hStep1 br maxV allowOver grow x value st (k, s) = some st' ∧ NoAlias st' ∧
      Sim st' (vStep1 br maxV allowOver x value v (k, val)) ∧ st'.dp = st.dp ∧
      (vStep1 br maxV allowOver x value v (k, val)).dp = v.dp := by
  simp only [hStep1, vStep1]
  rw [← hs.ov]
  by_cases hA : k + value > maxV ∧ (allowOver = false ∨ (st.overflow > 0 ∧ k + value > st.overflow))
  · rw [if_pos hA, if_pos hA]
    exact ⟨st, rfl, hna, hs, rfl, rfl⟩
  · rw [if_neg hA, if_neg hA]
    -- the state after the overshoot bookkeeping
    obtain ⟨st1, v1, hst1, hv1, hna1, hs1, hdp1, hvdp1, hheap1⟩ :
        ∃ (st1 : HSt α) (v1 : VSt α),
          (if k + value > maxV then { st with overflow := k + value } else st) = st1 ∧
          (if k + value > maxV then { v with overflow := k + value } else v) = v1 ∧
          NoAlias st1 ∧ Sim st1 v1 ∧ st1.dp = st.dp ∧ v1.dp = v.dp ∧ st1.heap = st.heap := by
      by_cases hgt : k + value > maxV
      · rw [if_pos hgt, if_pos hgt]
        exact ⟨_, _, rfl, rfl, hna.setOv _, hs.setOv _, rfl, rfl, rfl⟩
      · rw [if_neg hgt, if_neg hgt]
        exact ⟨_, _, rfl, rfl, hna, hs, rfl, rfl, rfl⟩
    rw [hst1, hv1]
    have hl1 : alLookup k st1.dp = some s := by rw [hdp1]; exact hl
    have hr1 : readS st1.heap s = some val := by rw [hheap1]; exact hr
    obtain ⟨st4, ns, hbn, hb⟩ := buildNew_spec grow x st1 s val hna1 hr1
    cases hlo : alLookup (k + value) st1.dp with
    | none =>
      rw [lookup_none_of_keys hs1.kdp hlo]
      simp only [hbn]
      obtain ⟨a1, a2⟩ := hb.accept hna1 hs1 (k + value)
      exact ⟨_, rfl, a1, a2, by simp only [hb.dp, hdp1], hvdp1⟩
    | some old =>
      obtain ⟨oldv, hov, hor⟩ := hs1.rdp _ _ hlo
      rw [hov]
      cases br with
      | none => exact ⟨st1, rfl, hna1, hs1, hdp1, hvdp1⟩
      | some b =>
        simp only [hbn]
        have hor4 : readS st4.heap old = some oldv := by rw [hb.read_dp hna1 hlo]; exact hor
        simp only [hor4, hb.rd]
        by_cases hbb : b oldv (val ++ [x]) = true
        · simp only [hbb, if_true]
          obtain ⟨a1, a2⟩ := hb.accept hna1 hs1 (k + value)
          exact ⟨_, rfl, a1, a2, by simp only [hb.dp, hdp1], hvdp1⟩
        · simp only [hbb]
          obtain ⟨a1, a2⟩ := hb.reject hna1 hs1
          exact ⟨_, rfl, a1, a2, by simp only [poolPut, hb.dp, hdp1], hvdp1⟩

/-- The first loop, by induction on the key order (the entries are looked up in `dp`, which
the loop does not modify). -/
theorem hLoop1_spec (x : α) (value : Int) : ∀ (ks : List Int) (st : HSt α) (v : VSt α),
    NoAlias st → Sim st v →
    ∃ st', foldlM? (hStep1 br maxV allowOver grow x value) (entriesIn st.dp ks) st = some st' ∧
      NoAlias st' ∧ Sim st' ((entriesIn v.dp ks).foldl (vStep1 br maxV allowOver x value) v)
  | [], st, v, hna, hs => ⟨st, rfl, hna, hs⟩
  | k :: ks, st, v, hna, hs => by
    cases hl : alLookup k st.dp with
    | none =>
      have hv := lookup_none_of_keys hs.kdp hl
      have e1 : entriesIn st.dp (k :: ks) = entriesIn st.dp ks := by simp [entriesIn, hl]
      have e2 : entriesIn v.dp (k :: ks) = entriesIn v.dp ks := by simp [entriesIn, hv]
      rw [e1, e2]
      exact hLoop1_spec x value ks st v hna hs
    | some s =>
      obtain ⟨val, hv, hr⟩ := hs.rdp k s hl
      have e1 : entriesIn st.dp (k :: ks) = (k, s) :: entriesIn st.dp ks := by simp [entriesIn, hl]
      have e2 : entriesIn v.dp (k :: ks) = (k, val) :: entriesIn v.dp ks := by simp [entriesIn, hv]
      rw [e1, e2]
      obtain ⟨st1, h1, hna1, hs1, hdp1, hvdp1⟩ :=
        hStep1_spec br maxV allowOver grow x value st v k s val hna hs hl hr
      obtain ⟨st', h2, hna', hs'⟩ := hLoop1_spec x value ks st1 _ hna1 hs1
      rw [hdp1] at h2
      rw [hvdp1] at hs'
      refine ⟨st', ?_, hna', ?_⟩
      · simp only [foldlM?, h1]; exact h2
      · simp only [List.foldl_cons]; exact hs'

end

/-- One step of the second loop at both levels: `old` goes to the pool, the slice moves
from `dpTmp` to `dp`. -/
theorem hStep2_spec (st : HSt α) (v : VSt α) (k : Int) (s : Slice) (val : List α)
    (hna : NoAlias st) (hs : Sim st v) (hl : alLookup k st.tmp = some s)
    (hr : readS st.heap s = some val) :
    NoAlias (hStep2 st (k, s)) ∧ Sim (hStep2 st (k, s)) (vStep2 v (k, val)) ∧
      (hStep2 st (k, s)).heap = st.heap := by
  -- the state after the optional Put
  obtain ⟨st1, hunf, hdp, htmp, hheap, hov, hpool⟩ : ∃ st1 : HSt α,
      hStep2 st (k, s) = { st1 with dp := alInsert k s st1.dp, tmp := alErase k st1.tmp } ∧
      st1.dp = st.dp ∧ st1.tmp = st.tmp ∧ st1.heap = st.heap ∧ st1.overflow = st.overflow ∧
      (poolBufs st1 = poolBufs st ∧ alLookup k st.dp = none ∨
        ∃ old, alLookup k st.dp = some old ∧ poolBufs st1 = poolBufs st ++ [old.buf]) := by
    cases ho : alLookup k st.dp with
    | none => exact ⟨st, by simp only [hStep2, ho], rfl, rfl, rfl, rfl, Or.inl ⟨rfl, rfl⟩⟩
    | some old =>
      exact ⟨poolPut st old, by simp only [hStep2, ho], rfl, rfl, rfl, rfl,
        Or.inr ⟨old, rfl, by simp [poolBufs, poolPut]⟩⟩
  rw [hunf]
  have hmemP : ∀ b, b ∈ poolBufs st1 → b ∈ poolBufs st ∨ ∃ old, alLookup k st.dp = some old ∧ b = old.buf := by
    intro b hb
    rcases hpool with ⟨hp, _⟩ | ⟨old, ho, hp⟩
    · left; rw [← hp]; exact hb
    · rw [hp, List.mem_append] at hb
      rcases hb with hb | hb
      · exact Or.inl hb
      · right; exact ⟨old, ho, by simpa using hb⟩
  refine ⟨?_, ?_, hheap⟩
  · refine { kd := by simp only [hdp]; exact nodup_keys_alInsert _ _ _ hna.kd
             kt := by simp only [htmp]; exact nodup_keys_alErase _ _ hna.kt
             inj_dp := ?_, inj_tmp := ?_, dp_tmp := ?_, nd_pool := ?_, dp_pool := ?_, tmp_pool := ?_,
             b_dp := ?_, b_tmp := ?_, b_pool := ?_ }
    · intro k1 k2 s1 s2 h1 h2 he
      simp only [hdp, alLookup_alInsert] at h1 h2
      split at h1 <;> split at h2
      · omega
      · cases h1; exact absurd he.symm (hna.dp_tmp k2 k _ _ h2 hl)
      · cases h2; exact absurd he (hna.dp_tmp k1 k _ _ h1 hl)
      · exact hna.inj_dp k1 k2 s1 s2 h1 h2 he
    · intro k1 k2 s1 s2 h1 h2 he
      simp only [htmp, alLookup_alErase _ _ _ hna.kt] at h1 h2
      split at h1
      · cases h1
      · split at h2
        · cases h2
        · exact hna.inj_tmp k1 k2 s1 s2 h1 h2 he
    · intro k1 k2 s1 s2 h1 h2
      simp only [hdp, alLookup_alInsert] at h1
      simp only [htmp, alLookup_alErase _ _ _ hna.kt] at h2
      split at h2
      · cases h2
      · rename_i hk2
        split at h1
        · cases h1
          intro he
          exact hk2 (hna.inj_tmp k k2 _ _ hl h2 he)
        · exact hna.dp_tmp k1 k2 s1 s2 h1 h2
    · rcases hpool with ⟨hp, _⟩ | ⟨old, ho, hp⟩
      · change (poolBufs st1).Nodup; rw [hp]; exact hna.nd_pool
      · change (poolBufs st1).Nodup; rw [hp, List.nodup_append]
        refine ⟨hna.nd_pool, by simp, ?_⟩
        intro a ha b hb
        simp only [List.mem_singleton] at hb
        subst hb; intro e; subst e
        exact hna.dp_pool k old ho ha
    · intro k1 s1 h1 hm
      simp only [hdp, alLookup_alInsert] at h1
      rcases hmemP _ hm with hm | ⟨old, ho, hb⟩
      · split at h1
        · cases h1; exact hna.tmp_pool k _ hl hm
        · exact hna.dp_pool k1 s1 h1 hm
      · split at h1
        · cases h1; exact hna.dp_tmp k k old _ ho hl hb.symm
        · rename_i hk1
          exact hk1 (hna.inj_dp k k1 old s1 ho h1 hb.symm)
    · intro k2 s2 h2 hm
      simp only [htmp, alLookup_alErase _ _ _ hna.kt] at h2
      split at h2
      · cases h2
      · rcases hmemP _ hm with hm | ⟨old, ho, hb⟩
        · exact hna.tmp_pool k2 s2 h2 hm
        · exact hna.dp_tmp k k2 old s2 ho h2 hb.symm
    · intro k1 s1 h1
      simp only [hdp, alLookup_alInsert] at h1
      simp only [hheap]
      split at h1
      · cases h1; exact hna.b_tmp k _ hl
      · exact hna.b_dp k1 s1 h1
    · intro k2 s2 h2
      simp only [htmp, alLookup_alErase _ _ _ hna.kt] at h2
      simp only [hheap]
      split at h2
      · cases h2
      · exact hna.b_tmp k2 s2 h2
    · intro b hm
      simp only [hheap]
      rcases hmemP b hm with hm | ⟨old, ho, hb⟩
      · exact hna.b_pool b hm
      · rw [hb]; exact hna.b_dp k old ho
  · have hvk : (keys v.tmp).Nodup := hs.ktmp ▸ hna.kt
    refine { ov := by simp only [vStep2, hov]; exact hs.ov
             kdp := by simp only [vStep2, hdp]; exact keys_alInsert_congr _ _ _ _ _ hs.kdp
             ktmp := by simp only [vStep2, htmp]; exact keys_alErase_congr _ _ _ hs.ktmp
             rdp := ?_, rtmp := ?_ }
    · intro k1 s1 h1
      simp only [hdp, alLookup_alInsert] at h1
      simp only [vStep2, alLookup_alInsert, hheap]
      split at h1
      · rename_i hk; cases h1; exact ⟨val, by rw [if_pos hk], hr⟩
      · rename_i hk
        obtain ⟨val1, hv1, hr1⟩ := hs.rdp k1 s1 h1
        exact ⟨val1, by rw [if_neg hk]; exact hv1, hr1⟩
    · intro k2 s2 h2
      simp only [htmp, alLookup_alErase _ _ _ hna.kt] at h2
      simp only [vStep2, alLookup_alErase _ _ _ hvk, hheap]
      split at h2
      · cases h2
      · rename_i hk
        obtain ⟨val2, hv2, hr2⟩ := hs.rtmp k2 s2 h2
        exact ⟨val2, by rw [if_neg hk]; exact hv2, hr2⟩

/-- The second loop by induction on a duplicate-free key order; the entries were looked up
in the `dpTmp` of the start of the loop (`tmp0`/`vtmp0`), of which the not-yet-visited part
is still present. -/
theorem hLoop2_spec (tmp0 : List (Int × Slice)) (vtmp0 : List (Int × List α)) :
    ∀ (ks : List Int), ks.Nodup → ∀ (st : HSt α) (v : VSt α), NoAlias st → Sim st v →
    (∀ k ∈ ks, alLookup k st.tmp = alLookup k tmp0) →
    (∀ k ∈ ks, alLookup k v.tmp = alLookup k vtmp0) →
    NoAlias ((entriesIn tmp0 ks).foldl hStep2 st) ∧
      Sim ((entriesIn tmp0 ks).foldl hStep2 st) ((entriesIn vtmp0 ks).foldl vStep2 v)
  | [], _, st, v, hna, hs, _, _ => ⟨hna, hs⟩
  | k :: ks, hnd, st, v, hna, hs, h1, h2 => by
    have hnd' := (List.nodup_cons.mp hnd)
    have hk1 := h1 k (by simp)
    have hk2 := h2 k (by simp)
    cases hl : alLookup k tmp0 with
    | none =>
      have hv : alLookup k vtmp0 = none := by
        rw [← hk2]; exact lookup_none_of_keys hs.ktmp (by rw [hk1]; exact hl)
      have e1 : entriesIn tmp0 (k :: ks) = entriesIn tmp0 ks := by simp [entriesIn, hl]
      have e2 : entriesIn vtmp0 (k :: ks) = entriesIn vtmp0 ks := by simp [entriesIn, hv]
      rw [e1, e2]
      exact hLoop2_spec tmp0 vtmp0 ks hnd'.2 st v hna hs
        (fun k' hk' => h1 k' (List.mem_cons_of_mem _ hk')) (fun k' hk' => h2 k' (List.mem_cons_of_mem _ hk'))
    | some s =>
      have hls : alLookup k st.tmp = some s := by rw [hk1]; exact hl
      obtain ⟨val, hv, hr⟩ := hs.rtmp k s hls
      have hv0 : alLookup k vtmp0 = some val := by rw [← hk2]; exact hv
      have e1 : entriesIn tmp0 (k :: ks) = (k, s) :: entriesIn tmp0 ks := by simp [entriesIn, hl]
      have e2 : entriesIn vtmp0 (k :: ks) = (k, val) :: entriesIn vtmp0 ks := by simp [entriesIn, hv0]
      rw [e1, e2]
      obtain ⟨a1, a2, _⟩ := hStep2_spec st v k s val hna hs hls hr
      simp only [List.foldl_cons]
      have hvk : (keys v.tmp).Nodup := hs.ktmp ▸ hna.kt
      refine hLoop2_spec tmp0 vtmp0 ks hnd'.2 _ _ a1 a2 ?_ ?_
      · intro k' hk'
        have hne : k ≠ k' := fun e => hnd'.1 (e ▸ hk')
        have : (hStep2 st (k, s)).tmp = alErase k st.tmp := by
          simp only [hStep2]; cases alLookup k st.dp <;> rfl
        rw [this, alLookup_alErase _ _ _ hna.kt, if_neg hne]
        exact h1 k' (List.mem_cons_of_mem _ hk')
      · intro k' hk'
        have hne : k ≠ k' := fun e => hnd'.1 (e ▸ hk')
        simp only [vStep2]
        rw [alLookup_alErase _ _ _ hvk, if_neg hne]
        exact h2 k' (List.mem_cons_of_mem _ hk')

section
variable (br : Option (List α → List α → Bool)) (maxV : Int) (allowOver : Bool) (grow : Nat → Nat)
variable (vf : α → Int) (ord1 ord2 : Nat → List Int → List Int)
variable (hord2 : ∀ i l, (ord2 i l).Perm l)

include hord2 in
theorem hPass_spec (i : Nat) (x : α) (st : HSt α) (v : VSt α) (hna : NoAlias st) (hs : Sim st v) :
    ∃ st', hPass br maxV allowOver grow vf ord1 ord2 i x st = some st' ∧ NoAlias st' ∧
      Sim st' (vPass br maxV allowOver vf ord1 ord2 i x v) := by
  unfold hPass vPass
  have hk : st.dp.map (·.1) = v.dp.map (·.1) := hs.kdp
  obtain ⟨st1, h1, hna1, hs1⟩ := hLoop1_spec br maxV allowOver grow x (vf x)
    (ord1 i (st.dp.map (·.1))) st v hna hs
  rw [h1]
  simp only []
  rw [← hk]
  generalize (entriesIn v.dp (ord1 i (st.dp.map (·.1)))).foldl (vStep1 br maxV allowOver x (vf x)) v = v1
    at hs1 ⊢
  have hk1 : st1.tmp.map (·.1) = v1.tmp.map (·.1) := hs1.ktmp
  rw [← hk1]
  have hnd : (ord2 i (st1.tmp.map (·.1))).Nodup := (hord2 i _).nodup_iff.mpr hna1.kt
  obtain ⟨a1, a2⟩ := hLoop2_spec st1.tmp v1.tmp _ hnd st1 v1 hna1 hs1 (fun _ _ => rfl) (fun _ _ => rfl)
  exact ⟨_, rfl, a1, a2⟩

include hord2 in
theorem hItems_spec : ∀ (items : List α) (i : Nat) (st : HSt α) (v : VSt α), NoAlias st → Sim st v →
    ∃ st', hItems br maxV allowOver grow vf ord1 ord2 i items st = some st' ∧ NoAlias st' ∧
      Sim st' (vItems br maxV allowOver vf ord1 ord2 i items v)
  | [], _, st, v, hna, hs => ⟨st, rfl, hna, hs⟩
  | x :: xs, i, st, v, hna, hs => by
    obtain ⟨st1, h1, hna1, hs1⟩ := hPass_spec br maxV allowOver grow vf ord1 ord2 hord2 i x st v hna hs
    obtain ⟨st', h2, hna', hs'⟩ := hItems_spec xs (i + 1) st1 _ hna1 hs1
    exact ⟨st', by simp only [hItems, h1]; exact h2, hna', by simpa only [vItems] using hs'⟩

theorem noAlias_init : NoAlias (hInit : HSt α) :=
  { kd := by simp [hInit, keys], kt := by simp [hInit, keys]
    inj_dp := by
      intro k1 k2 s1 s2 h1 h2 _
      simp only [hInit, alLookup] at h1 h2
      split at h1 <;> split at h2 <;> simp_all <;> omega
    inj_tmp := by intro k1 k2 s1 s2 h1; simp [hInit, alLookup] at h1
    dp_tmp := by intro k1 k2 s1 s2 _ h2; simp [hInit, alLookup] at h2
    nd_pool := by simp [poolBufs, hInit]
    dp_pool := by intro k s _; simp [poolBufs, hInit]
    tmp_pool := by intro k s h; simp [hInit, alLookup] at h
    b_dp := by
      intro k s h
      simp only [hInit, alLookup] at h
      split at h
      · cases h; simp [hInit]
      · cases h
    b_tmp := by intro k s h; simp [hInit, alLookup] at h
    b_pool := by intro b h; simp [poolBufs, hInit] at h }

theorem sim_init : Sim (hInit : HSt α) { dp := [(0, [])], tmp := [], overflow := 0 } :=
  { ov := rfl, kdp := rfl, ktmp := rfl
    rdp := by
      intro k s h
      simp only [hInit, alLookup] at h ⊢
      split at h
      · rename_i hk; cases h; exact ⟨[], by rw [if_pos hk], by simp [readS]⟩
      · cases h
    rtmp := by intro k s h; simp [hInit, alLookup] at h }

/-- Reading the map through the heap gives the value-level map. -/
theorem readMap_of_sim (heap : Heap α) : ∀ (hm : List (Int × Slice)) (vm : List (Int × List α)),
    keys hm = keys vm → (keys hm).Nodup →
    (∀ k s, alLookup k hm = some s → ∃ val, alLookup k vm = some val ∧ readS heap s = some val) →
    readMap heap hm = some vm
  | [], [], _, _, _ => rfl
  | [], _ :: _, hk, _, _ => by simp [keys] at hk
  | _ :: _, [], hk, _, _ => by simp [keys] at hk
  | (k, s) :: r, (k', val) :: r', hk, hnd, hrel => by
    simp only [keys, List.map_cons, List.cons.injEq] at hk
    obtain ⟨rfl, hk⟩ := hk
    simp only [keys, List.map_cons, List.nodup_cons] at hnd
    obtain ⟨val', hv, hr⟩ := hrel k s (by simp [alLookup])
    simp only [alLookup, if_true] at hv
    cases hv
    have ih := readMap_of_sim heap r r' hk hnd.2 (by
      intro k1 s1 h1
      have hne : k ≠ k1 := by
        intro e; subst e
        exact hnd.1 (List.mem_map.mpr ⟨(k, s1), alLookup_some_mem h1, rfl⟩)
      obtain ⟨v1, hv1, hr1⟩ := hrel k1 s1 (by simp only [alLookup, if_neg hne]; exact h1)
      simp only [alLookup, if_neg hne] at hv1
      exact ⟨v1, hv1, hr1⟩)
    simp only [readMap, hr, ih]

include hord2 in
theorem solversH_spec (items : List α) :
    ∃ st, solversH br maxV allowOver grow vf ord1 ord2 items = some st ∧ NoAlias st ∧
      readMap st.heap st.dp = some (solversV br maxV allowOver vf ord1 ord2 items) := by
  obtain ⟨st, h, hna, hs⟩ := hItems_spec br maxV allowOver grow vf ord1 ord2 hord2 items 0 hInit _
    noAlias_init sim_init
  exact ⟨st, h, hna, readMap_of_sim st.heap st.dp _ hs.kdp hna.kd hs.rdp⟩

end
end Golib.C18
