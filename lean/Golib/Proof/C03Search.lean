/-
C03 helper lemmas, part 1: `search` is the lower bound of a sorted array.
-/
import Golib.Model.C03Roaring

namespace Golib.C03

/-- Strictly ascending. -/
def Sorted (a : Array Nat) : Prop := a.toList.Pairwise (· < ·)

theorem Sorted.lt {a : Array Nat} (h : Sorted a) {i j u v : Nat}
    (hi : a[i]? = some u) (hj : a[j]? = some v) (hij : i < j) : u < v := by
  unfold Sorted at h
  rw [List.pairwise_iff_getElem] at h
  obtain ⟨hi', rfl⟩ := Array.getElem?_eq_some_iff.mp hi
  obtain ⟨hj', rfl⟩ := Array.getElem?_eq_some_iff.mp hj
  exact h i j (by simpa using hi') (by simpa using hj') hij

/-- `p` is the lower bound of `x` in `a`: everything before is `< x`, everything from `p` on is `≥ x`. -/
def LowerBound (a : Array Nat) (x p : Nat) : Prop :=
  p ≤ a.size ∧ (∀ i v, i < p → a[i]? = some v → v < x) ∧ (∀ i v, p ≤ i → a[i]? = some v → x ≤ v)

theorem searchLoop_spec (a : Array Nat) (x : Nat) (hs : Sorted a) :
    ∀ fuel low high, low ≤ high → high ≤ a.size → high - low < fuel →
      (∀ i v, i < low → a[i]? = some v → v < x) →
      (∀ i v, high ≤ i → a[i]? = some v → x ≤ v) →
      ∃ p, searchLoop a x fuel low high = some p ∧ LowerBound a x p := by
  intro fuel
  induction fuel with
  | zero => intro low high _ _ h; omega
  | succ fuel ih =>
    intro low high hlh hhs hf hlo hhi
    unfold searchLoop
    by_cases hlt : low < high
    · simp only [hlt, if_true]
      have hmid : (low + high) >>> 1 = (low + high) / 2 := by simp [Nat.shiftRight_eq_div_pow]
      rw [hmid]
      have hm1 : low ≤ (low + high) / 2 := by omega
      have hm2 : (low + high) / 2 < high := by omega
      have hmsz : (low + high) / 2 < a.size := by omega
      have hget : a[(low + high) / 2]? = some a[(low + high) / 2] := Array.getElem?_eq_getElem hmsz
      rw [hget]
      simp only []
      by_cases hv : a[(low + high) / 2] < x
      · simp only [hv, if_true]
        apply ih _ _ (by omega) hhs (by omega) _ hhi
        intro i v hi hiv
        by_cases hieq : i = (low + high) / 2
        · subst hieq; rw [hget] at hiv; cases hiv; exact hv
        · have := hs.lt hiv hget (by omega); omega
      · simp only [hv, if_false]
        apply ih _ _ (by omega) (by omega) (by omega) hlo
        intro i v hi hiv
        by_cases hieq : i = (low + high) / 2
        · subst hieq; rw [hget] at hiv; cases hiv; omega
        · have := hs.lt hget hiv (by omega); omega
    · simp only [hlt, if_false]
      have : low = high := by omega
      subst this
      exact ⟨low, rfl, hhs, hlo, hhi⟩

/-- `search` never panics on a sorted array and returns the lower bound. -/
theorem search_spec (a : Array Nat) (x : Nat) (hs : Sorted a) :
    ∃ p, search a x = some p ∧ LowerBound a x p := by
  unfold search
  apply searchLoop_spec a x hs _ _ _ (Nat.zero_le _) (Nat.le_refl _) (by omega)
  · intro i v hi; omega
  · intro i v hi hiv
    have := (Array.getElem?_eq_some_iff.mp hiv).1
    omega

/-- The membership test both `Add`/`Remove`/`Contains` make at the lower bound. -/
theorem lowerBound_hit_iff {a : Array Nat} {x p : Nat} (hs : Sorted a) (hp : LowerBound a x p) :
    (decide (p < a.size) && a[p]? == some x) = true ↔ x ∈ a.toList := by
  obtain ⟨hle, hlo, hhi⟩ := hp
  constructor
  · intro h
    simp only [Bool.and_eq_true, decide_eq_true_eq, beq_iff_eq] at h
    have := List.mem_of_getElem? (l := a.toList) (i := p) (by simpa using h.2)
    exact this
  · intro h
    obtain ⟨i, hi, hix⟩ := List.getElem_of_mem h
    have hi' : i < a.size := by simpa using hi
    have hget : a[i]? = some x := by
      rw [Array.getElem?_eq_getElem hi']; simpa using hix
    have h1 : ¬ i < p := fun hlt => by have := hlo i x hlt hget; omega
    by_cases hpi : p = i
    · subst hpi; simp only [hi', decide_true, hget, Bool.true_and, beq_self_eq_true]
    · have hpi' : p < i := by omega
      have hpsz : p < a.size := by omega
      have hgp : a[p]? = some a[p] := Array.getElem?_eq_getElem hpsz
      have h2 := hhi p _ (Nat.le_refl _) hgp
      have h3 := hs.lt hgp hget hpi'
      omega

end Golib.C03
