/-
C11 — the emitted history: linearization events and returns as an explicit event
sequence (no ghost state in the definitions), and what is proved about it.

`trace s σ` lists, step by step, the linearization event of the step (if the step is a
linearization point) followed by the return event of the step (if a call returns).
The linearization event is read off the IMPLEMENTATION state only:
  * `Push(v)` of thread `i` linearizes at its `StorePointer(&l.tail, node)`  → `push i v`;
  * a `Pop` of thread `i` linearizes at its successful `CAS(&l.head, head, next)` and the
    event carries the value stored in node `next` at that instant            → `pop i x`.
`lins` is the subsequence of linearization events.

Proved (for every schedule):
  * `replay_lins`     the lin sequence is a legal run of the sequential FIFO queue from the
                      initial content and ends in exactly what the list stores;
  * pure corollaries of legality: conservation (`q0 ++ pushed = popped ++ q1`: every pushed
    value is popped at most once, in push-lin order, or remains; nothing is invented) and
    prefix-closure (a value is popped only after its push linearized);
  * `accepts_trace`   per thread, the lin/ret events follow the protocol of the thread's
                      program: calls return in program order; a `Push(v)` has exactly one
                      lin event `push v` (before its return, after the previous return of
                      the thread); a `Pop`/`PopWait` that returns `(x, true)` has exactly one
                      lin event `pop x` with the SAME value before its return; a call that
                      returns `(_, false)` has none; `PopWait(d<0)` never returns false;
                      `Len` has none.  Since a lin event of thread `i` is a step of thread
                      `i` inside the call, it lies between invocation and response
                      (real-time order).
-/
import Golib.Proof.C11Lin

namespace Golib.C11

inductive Lin where
  | push (tid : Nat) (v : Int)
  | pop (tid : Nat) (v : Int)
deriving DecidableEq, Repr

inductive TEv where
  | lin (l : Lin)
  | ret (tid : Nat) (r : Ret)
deriving DecidableEq, Repr

/-- The linearization event of the step thread `i` is about to perform in `s`. -/
def linOf (s : State) (i : Nat) : Option Lin :=
  match s.threads[i]? with
  | none => none
  | some th =>
    match th.pc with
    | .pushStore v _ => some (.push i v)
    | .popCAS h (some n) => if s.head = h then (s.chain[n]?).map (Lin.pop i) else none
    | _ => none

/-- The events of one step: lin event (if any), then return event (if any). -/
def evs (s : State) (i : Nat) : List TEv :=
  (linOf s i).toList.map TEv.lin ++ ((step .addThenStore s i).2.ret).toList.map (TEv.ret i)

def trace : State → List Nat → List TEv
  | _, [] => []
  | s, i :: σ => evs s i ++ trace (step .addThenStore s i).1 σ

def TEv.lin? : TEv → Option Lin
  | .lin l => some l
  | .ret _ _ => none

/-- The sequence of linearization events of a run. -/
def lins (s : State) (σ : List Nat) : List Lin := (trace s σ).filterMap TEv.lin?

theorem lins_nil (s : State) : lins s [] = [] := rfl

theorem lins_cons (s : State) (i : Nat) (σ : List Nat) :
    lins s (i :: σ) = (linOf s i).toList ++ lins (step .addThenStore s i).1 σ := by
  simp only [lins, trace, evs, List.filterMap_append]
  congr 1
  cases linOf s i <;> cases (step .addThenStore s i).2.ret <;> simp [TEv.lin?]

/-! ### the sequential FIFO specification -/

/-- One operation of the sequential FIFO queue; `none` = illegal (a pop that does not
return the oldest element, or pops from an empty queue). -/
def Lin.apply (q : List Int) : Lin → Option (List Int)
  | .push _ v => some (q ++ [v])
  | .pop _ v =>
    match q with
    | x :: r => if x = v then some r else none
    | [] => none

/-- Run a sequence of operations on the sequential queue. -/
def replay : List Int → List Lin → Option (List Int)
  | q, [] => some q
  | q, l :: ls => (l.apply q).bind fun q' => replay q' ls

def Lin.pushed? : Lin → Option Int
  | .push _ v => some v
  | .pop _ _ => none

def Lin.popped? : Lin → Option Int
  | .push _ _ => none
  | .pop _ v => some v

def pushedVals (l : List Lin) : List Int := l.filterMap Lin.pushed?
def poppedVals (l : List Lin) : List Int := l.filterMap Lin.popped?

theorem replay_append {q0 : List Int} {l1 l2 : List Lin} :
    replay q0 (l1 ++ l2) = (replay q0 l1).bind fun q => replay q l2 := by
  induction l1 generalizing q0 with
  | nil => rfl
  | cons a l1 ih =>
    simp only [List.cons_append, replay]
    cases a.apply q0 with
    | none => rfl
    | some q => simp only [Option.bind_some]; exact ih

/-- Conservation: in a legal FIFO run, initial content followed by the pushed values (in
push order) = the popped values (in pop order) followed by the final content. -/
theorem replay_conservation {q0 q1 : List Int} {l : List Lin} (h : replay q0 l = some q1) :
    q0 ++ pushedVals l = poppedVals l ++ q1 := by
  induction l generalizing q0 with
  | nil => simp only [replay, Option.some.injEq] at h; subst h; simp [pushedVals, poppedVals]
  | cons a l ih =>
    simp only [replay] at h
    cases a with
    | push j v =>
      simp only [Lin.apply, Option.bind_some] at h
      have := ih h
      simp only [pushedVals, poppedVals, List.filterMap_cons, Lin.pushed?, Lin.popped?] at this ⊢
      rw [← this]; simp
    | pop j v =>
      cases q0 with
      | nil => simp [Lin.apply] at h
      | cons x r =>
        simp only [Lin.apply] at h
        by_cases e : x = v
        · subst e
          simp only [if_true, Option.bind_some] at h
          have := ih h
          simp only [pushedVals, poppedVals, List.filterMap_cons, Lin.pushed?, Lin.popped?] at this ⊢
          rw [List.cons_append, this]; rfl
        · simp [e] at h

/-- Every prefix of a legal run is legal. -/
theorem replay_take {q0 q1 : List Int} {l : List Lin} (h : replay q0 l = some q1) (k : Nat) :
    ∃ qm, replay q0 (l.take k) = some qm := by
  have e : l = l.take k ++ l.drop k := (List.take_append_drop k l).symm
  rw [e, replay_append] at h
  cases hq : replay q0 (l.take k) with
  | none => rw [hq] at h; simp at h
  | some qm => exact ⟨qm, rfl⟩

/-- At every point of a legal run the values popped so far are a prefix of the initial
content followed by the values pushed SO FAR: a value is popped only after its push. -/
theorem replay_popped_prefix {q0 q1 : List Int} {l : List Lin} (h : replay q0 l = some q1)
    (k : Nat) : poppedVals (l.take k) <+: q0 ++ pushedVals (l.take k) := by
  obtain ⟨qm, hq⟩ := replay_take h k
  exact ⟨qm, (replay_conservation hq).symm⟩

/-! ### the implementation's lin sequence is a legal FIFO run -/

def Lin.applyOpt (q : List Int) : Option Lin → Option (List Int)
  | none => some q
  | some l => l.apply q

/-- One step: the lin event read off the implementation state is legal on the ghost queue
and produces the ghost queue of the next state. -/
theorem lin_step {s : State} {g : Ghost} (hG : GInv s g) (i : Nat) :
    Lin.applyOpt g.q (linOf s i) = some (gstep s g i).q := by
  unfold linOf gstep
  cases hth : s.threads[i]? with
  | none => rfl
  | some th =>
    dsimp only
    have hloc := hG.inv.locals th (List.mem_of_getElem? hth)
    cases hpc : th.pc with
    | pushStore v n => rfl
    | popCAS h n =>
      simp only [hpc, PcOk] at hloc
      obtain ⟨_, hlt, rfl⟩ := hloc
      dsimp only
      by_cases hc : s.head = h
      · simp only [if_pos hc]
        obtain ⟨x, rest, hq, hx⟩ := (lin_pop_facts hG hth).1 h _ hpc hc
        have hch : s.chain[h + 1]? = some x := by
          rw [hG.intact (h + 1) (by omega)]; exact hx
        rw [hch, hq]
        simp [Lin.applyOpt, Lin.apply]
      · simp only [if_neg hc]; rfl
    | pushCAS v t => dsimp only; split <;> rfl
    | _ => rfl

theorem replay_lins_gen {s : State} {g : Ghost} (hG : GInv s g) (σ : List Nat) :
    replay g.q (lins s σ) = some (lrun s g σ).2.q := by
  induction σ generalizing s g with
  | nil => rfl
  | cons i σ ih =>
    rw [lins_cons, replay_append, lrun]
    have h1 := lin_step hG i
    have h2 : replay g.q (linOf s i).toList = some (gstep s g i).q := by
      cases hl : linOf s i with
      | none => rw [hl] at h1; simpa [Lin.applyOpt, replay] using h1
      | some l =>
        rw [hl] at h1
        simp only [Lin.applyOpt] at h1
        simp [replay, h1]
    rw [h2, Option.bind_some]
    exact ih (ginv_step hG i)

/-- The lin sequence of every run is a legal FIFO run from the initial content to what the
list stores at the end. -/
theorem replay_lins (vals : List Int) (progs : List (List Call)) (σ : List Nat) :
    replay vals (lins (init vals progs) σ)
      = some (stored (run .addThenStore (init vals progs) σ).1) := by
  have h := replay_lins_gen (ginv_init vals progs) σ
  have hG := ginv_lrun (ginv_init vals progs) σ
  rw [← lrun_fst (init vals progs) (ginit vals progs) σ, stored_eq_q hG]
  exact h

/-! ### per-thread protocol of the lin / return events -/

inductive Phase where
  | idle                 -- the current call has not linearized
  | pushed               -- `Push` linearized (its return is the same step)
  | popped (x : Int)     -- a `Pop` linearized, taking `x`
deriving DecidableEq, Repr

def isPushCall : Call → Bool
  | .push _ => true
  | _ => false

def isPopCall : Call → Bool
  | .pop => true
  | .popWait _ => true
  | .popWaitT _ => true
  | _ => false

/-- calls that may return `(zero, false)`: `Pop` and `PopWait(0)`, not `PopWait(d<0)` -/
def mayFail : Call → Bool
  | .pop => true
  | .popWait false => true
  | .popWaitT _ => true
  | _ => false

/-- One event of the thread itself.  State = (calls not yet returned, current one first;
phase of the current call).  `none` = the event is not allowed there. -/
def autoOwn (st : List Call × Phase) (e : TEv) : Option (List Call × Phase) :=
  match st.1 with
  | [] => none
  | c :: p =>
    match e with
    | .lin (.push _ w) => if c = .push w ∧ st.2 = .idle then some (c :: p, .pushed) else none
    | .lin (.pop _ x) => if isPopCall c = true ∧ st.2 = .idle then some (c :: p, .popped x) else none
    | .ret _ .push => if isPushCall c = true ∧ st.2 = .pushed then some (p, .idle) else none
    | .ret _ (.pop y true) => if isPopCall c = true ∧ st.2 = .popped y then some (p, .idle) else none
    | .ret _ (.pop _ false) => if mayFail c = true ∧ st.2 = .idle then some (p, .idle) else none
    | .ret _ (.len _) => if c = .len ∧ st.2 = .idle then some (p, .idle) else none
    | .ret _ .panic => none

def TEv.tid : TEv → Nat
  | .lin (.push j _) => j
  | .lin (.pop j _) => j
  | .ret j _ => j

def auto (i : Nat) (st : List Call × Phase) (e : TEv) : Option (List Call × Phase) :=
  if e.tid = i then autoOwn st e else some st

/-- Thread `i`'s protocol automaton run over an event sequence. -/
def accepts (i : Nat) : List Call × Phase → List TEv → Option (List Call × Phase)
  | st, [] => some st
  | st, e :: es => (auto i st e).bind fun st' => accepts i st' es

theorem accepts_append {i : Nat} {st : List Call × Phase} {l1 l2 : List TEv} :
    accepts i st (l1 ++ l2) = (accepts i st l1).bind fun st' => accepts i st' l2 := by
  induction l1 generalizing st with
  | nil => rfl
  | cons a l1 ih =>
    simp only [List.cons_append, accepts]
    cases auto i st a with
    | none => rfl
    | some q => simp only [Option.bind_some]; exact ih

/-- the call a thread is executing fits its program counter (a fact about the thread alone) -/
def CurOk (th : Thread) : Prop :=
  match th.pc with
  | .idle => th.cur = none ∧ th.prog = []
  | .pushLoadTail v => th.cur = some (.push v)
  | .pushLoadNext v _ => th.cur = some (.push v)
  | .pushCAS v _ => th.cur = some (.push v)
  | .pushAdd v _ => th.cur = some (.push v)
  | .pushStore v _ => th.cur = some (.push v)
  | .pushYield v => th.cur = some (.push v)
  | .popYield => th.cur = some (.popWait true)
  | .lenLoad => th.cur = some .len
  | _ => ∃ c, th.cur = some c ∧ isPopCall c = true

theorem CurOk_finish (th : Thread) : CurOk th.finish := by
  unfold Thread.finish
  cases th.prog with
  | nil => simp [CurOk]
  | cons c r => cases c <;> simp [CurOk, start, isPopCall]

theorem finish_todo (th : Thread) : th.finish.cur.toList ++ th.finish.prog = th.prog := by
  unfold Thread.finish
  cases th.prog <;> simp

/-- what thread `i`'s automaton state has to be, given the thread and the ghost -/
structure AOk (g : Ghost) (i : Nat) (th : Thread) (st : List Call × Phase) : Prop where
  todo : st.1 = th.cur.toList ++ th.prog
  cur : CurOk th
  post : isPopPost th.pc = true → ∃ x, g.pend[i]? = some (some x) ∧ st.2 = .popped x
  npost : isPopPost th.pc = false → st.2 = .idle

theorem AOk_finish {g : Ghost} {i : Nat} {th : Thread} {p : List Call} (hp : p = th.prog) :
    AOk g i th.finish (p, .idle) :=
  ⟨by rw [hp]; exact (finish_todo th).symm, CurOk_finish th,
   fun h => by rw [(finish_not_counted th).2.2] at h; exact absurd h (by simp), fun _ => rfl⟩

/-- a step that only moves the program counter inside the same call, with no event -/
theorem AOk_setPc {g g' : Ghost} {i : Nat} {th : Thread} {st : List Call × Phase} {pc' : Pc}
    (hA : AOk g i th st) (hc : CurOk { th with pc := pc' }) (hp : isPopPost pc' = isPopPost th.pc)
    (hg : g'.pend[i]? = g.pend[i]?) : AOk g' i { th with pc := pc' } st :=
  ⟨hA.todo, hc, fun h => by rw [hg]; exact hA.post (by rw [← hp]; exact h),
   fun h => hA.npost (by rw [← hp]; exact h)⟩

/-- same, when the tick counter changes too -/
theorem AOk_setPcTicks {g : Ghost} {i : Nat} {th : Thread} {st : List Call × Phase} {pc' : Pc}
    {k : Nat} (hA : AOk g i th st) (hc : CurOk { th with pc := pc', ticks := k })
    (hp : isPopPost pc' = isPopPost th.pc) : AOk g i { th with pc := pc', ticks := k } st :=
  ⟨hA.todo, hc, fun h => hA.post (by rw [← hp]; exact h),
   fun h => hA.npost (by rw [← hp]; exact h)⟩

theorem step_threads_ne (s : State) {i j : Nat} (hij : j ≠ i) :
    (step .addThenStore s i).1.threads[j]? = s.threads[j]? := by
  have hne : i ≠ j := fun e => hij e.symm
  unfold step
  cases hth : s.threads[i]? with
  | none => rfl
  | some th =>
    dsimp only
    cases th.pc <;> (try dsimp only) <;> (try unfold State.popFail) <;> (repeat' split) <;>
      (try simp only [State.setPc, State.fin, List.getElem?_set_ne hne])

theorem gstep_pend_ne (s : State) (g : Ghost) {i j : Nat} (hij : j ≠ i) :
    (gstep s g i).pend[j]? = g.pend[j]? := by
  have hne : i ≠ j := fun e => hij e.symm
  unfold gstep
  cases hth : s.threads[i]? with
  | none => rfl
  | some th =>
    dsimp only
    cases th.pc <;> (try dsimp only) <;> (repeat' split) <;>
      (try simp only [List.getElem?_set_ne hne])

theorem evs_tid (s : State) (i : Nat) : ∀ e ∈ evs s i, e.tid = i := by
  intro e he
  simp only [evs, List.mem_append, List.mem_map] at he
  rcases he with ⟨l, hl, rfl⟩ | ⟨r, _, rfl⟩
  · simp only [Option.mem_toList] at hl
    unfold linOf at hl
    cases hth : s.threads[i]? with
    | none => rw [hth] at hl; simp at hl
    | some th =>
      rw [hth] at hl
      dsimp only at hl
      cases hpc : th.pc with
      | pushStore v n => rw [hpc] at hl; simp only [Option.some.injEq] at hl; subst hl; rfl
      | popCAS h n =>
        rw [hpc] at hl
        cases n with
        | none => simp at hl
        | some n =>
          dsimp only at hl
          split at hl
          · cases hc : s.chain[n]? with
            | none => rw [hc] at hl; simp at hl
            | some x => rw [hc] at hl; simp only [Option.map_some, Option.some.injEq] at hl; subst hl; rfl
          · simp at hl
      | _ => rw [hpc] at hl; simp at hl
  · rfl

/-- events of another thread do not move thread `j`'s automaton -/
theorem accepts_other {j : Nat} {st : List Call × Phase} {l : List TEv}
    (h : ∀ e ∈ l, e.tid ≠ j) : accepts j st l = some st := by
  induction l with
  | nil => rfl
  | cons a l ih =>
    simp only [accepts, auto]
    rw [if_neg (h a (List.mem_cons_self ..))]
    simp only [Option.bind_some]
    exact ih fun e he => h e (List.mem_cons_of_mem _ he)

theorem spin_cur {th : Thread} (h : th.spin = true) : th.cur = some (.popWait true) := by
  unfold Thread.spin at h
  exact eq_of_beq h

theorem mayFail_of_not_spin {th : Thread} {cc : Call} (hc : th.cur = some cc)
    (hp : isPopCall cc = true) (h : ¬ th.spin = true) : mayFail cc = true := by
  cases cc with
  | popWait b =>
    cases b with
    | false => rfl
    | true => exact absurd (by unfold Thread.spin; rw [hc]; rfl) h
  | pop => rfl
  | popWaitT k => rfl
  | push v => simp [isPopCall] at hp
  | len => simp [isPopCall] at hp

/-- a failed inner `Pop`: either no event (`PopWait(d<0)` retries) or the return `(0,false)`
of a call that may fail -/
theorem auto_popFail {s : State} {g : Ghost} {i : Nat} {th : Thread} {c : List Call} {p : Phase}
    (hilt : i < s.threads.length) (hA : AOk g i th (c, p)) (hnp : isPopPost th.pc = false)
    (hc : ∃ cc, th.cur = some cc ∧ isPopCall cc = true) (acc : Acc) :
    ∃ st' th', (s.popFail i th acc).1.threads[i]? = some th' ∧
      accepts i (c, p) (((s.popFail i th acc).2.ret).toList.map (TEv.ret i)) = some st' ∧
      AOk g i th' st' := by
  unfold State.popFail
  by_cases hsp : th.spin = true
  · simp only [hsp, if_true]
    refine ⟨(c, p), { th with pc := .popYield }, by simp only [State.setPc]; exact List.getElem?_set_self hilt,
      rfl, AOk_setPc hA ?_ (by rw [hnp]; rfl) rfl⟩
    simp only [CurOk]; exact spin_cur hsp
  · simp only [hsp]
    by_cases htk : 0 < th.ticks
    · simp only [htk, if_true]
      refine ⟨(c, p), { th with pc := .popTick, ticks := th.ticks - 1 },
        List.getElem?_set_self hilt, rfl, AOk_setPcTicks hA ?_ (by rw [hnp]; rfl)⟩
      simp only [CurOk]; exact hc
    simp only [htk]
    obtain ⟨cc, hcur, hpop⟩ := hc
    have htodo : c = cc :: th.prog := by have := hA.todo; simp only [hcur] at this; simpa using this
    have hp : p = .idle := hA.npost hnp
    subst htodo hp
    refine ⟨(th.prog, .idle), th.finish, by simp only [State.fin]; exact List.getElem?_set_self hilt,
      ?_, AOk_finish rfl⟩
    simp [accepts, auto, autoOwn, TEv.tid, mayFail_of_not_spin hcur hpop hsp]

syntax "same_call" : tactic
set_option hygiene false in
macro_rules
  | `(tactic| same_call) => `(tactic|
      (have hc := hA.cur; simp only [CurOk, hpc] at hc ⊢; exact hc))

syntax "quiet_step" : tactic
set_option hygiene false in
macro_rules
  | `(tactic| quiet_step) => `(tactic|
      exact ⟨_, _, by simp only [State.setPc]; exact List.getElem?_set_self hilt, rfl,
        AOk_setPc hA (by same_call) (by simp only [hpc, isPopPost]) rfl⟩)

set_option maxHeartbeats 1000000 in
/-- One step of thread `i`: its own automaton accepts the events of the step. -/
theorem auto_own_step {s : State} {g : Ghost} (hG : GInv s g) {i : Nat} {th : Thread}
    (hth : s.threads[i]? = some th) {st : List Call × Phase} (hA : AOk g i th st) :
    ∃ st' th', (step .addThenStore s i).1.threads[i]? = some th' ∧
      accepts i st (evs s i) = some st' ∧ AOk (gstep s g i) i th' st' := by
  have hilt := lt_of_getElem?_some hth
  have hgl := hG.locals i th hth
  have hloc := hG.inv.locals th (List.mem_of_getElem? hth)
  have hplen := hG.pend_len
  obtain ⟨c, p⟩ := st
  unfold evs linOf gstep step
  rw [hth]; dsimp only
  cases hpc : th.pc with
  | idle =>
    dsimp only
    exact ⟨(c, p), th, hth, rfl, hA⟩
  | pushLoadTail v => dsimp only; quiet_step
  | pushLoadNext v t => dsimp only; split <;> quiet_step
  | pushCAS v t => dsimp only; split <;> quiet_step
  | pushAdd v n => dsimp only; quiet_step
  | pushYield v => dsimp only; quiet_step
  | popLoadHead => dsimp only; quiet_step
  | popLoadNext h => dsimp only; quiet_step
  | popTick => dsimp only; quiet_step
  | popYield =>
    dsimp only
    have hc := hA.cur
    simp only [CurOk, hpc] at hc
    exact ⟨_, _, by simp only [State.setPc]; exact List.getElem?_set_self hilt, rfl,
      AOk_setPc hA (by simp only [CurOk]; exact ⟨_, hc, rfl⟩) (by simp only [hpc, isPopPost]) rfl⟩
  | popClear n v => dsimp only; quiet_step
  | popRead n =>
    dsimp only
    simp only [hpc, GOk] at hgl
    obtain ⟨x, h1, h2, h3⟩ := hgl
    rw [h3]
    dsimp only
    quiet_step
  | pushStore v n =>
    dsimp only
    have hcur : th.cur = some (.push v) := by have := hA.cur; simp only [CurOk, hpc] at this; exact this
    have htodo : c = .push v :: th.prog := by have := hA.todo; simp only [hcur] at this; simpa using this
    have hp : p = .idle := hA.npost (by simp [hpc, isPopPost])
    subst htodo hp
    refine ⟨(th.prog, .idle), th.finish, by simp only [State.fin]; exact List.getElem?_set_self hilt,
      ?_, AOk_finish rfl⟩
    simp [accepts, auto, autoOwn, TEv.tid, isPushCall]
  | lenLoad =>
    dsimp only
    have hcur : th.cur = some .len := by have := hA.cur; simp only [CurOk, hpc] at this; exact this
    have htodo : c = .len :: th.prog := by have := hA.todo; simp only [hcur] at this; simpa using this
    have hp : p = .idle := hA.npost (by simp [hpc, isPopPost])
    subst htodo hp
    refine ⟨(th.prog, .idle), th.finish, by simp only [State.fin]; exact List.getElem?_set_self hilt,
      ?_, AOk_finish rfl⟩
    simp [accepts, auto, autoOwn, TEv.tid]
  | popAdd v =>
    dsimp only
    simp only [hpc, GOk] at hgl
    obtain ⟨x, hx, hp⟩ := hA.post (by simp [hpc, isPopPost])
    rw [hgl] at hx
    simp only [Option.some.injEq] at hx
    subst hx
    have hcur : ∃ cc, th.cur = some cc ∧ isPopCall cc = true := by
      have := hA.cur; simp only [CurOk, hpc] at this; exact this
    obtain ⟨cc, hcur, hpop⟩ := hcur
    have htodo : c = cc :: th.prog := by have := hA.todo; simp only [hcur] at this; simpa using this
    subst htodo hp
    refine ⟨(th.prog, .idle), th.finish, by simp only [State.fin]; exact List.getElem?_set_self hilt,
      ?_, AOk_finish rfl⟩
    simp [accepts, auto, autoOwn, TEv.tid, hpop]
  | popLoadTail h =>
    dsimp only
    have hcur : ∃ cc, th.cur = some cc ∧ isPopCall cc = true := by
      have := hA.cur; simp only [CurOk, hpc] at this; exact this
    split
    · exact auto_popFail hilt hA (by simp [hpc, isPopPost]) hcur _
    · quiet_step
  | popCAS h n =>
    dsimp only
    simp only [hpc, PcOk] at hloc
    obtain ⟨_, hlt, rfl⟩ := hloc
    have hcur : ∃ cc, th.cur = some cc ∧ isPopCall cc = true := by
      have := hA.cur; simp only [CurOk, hpc] at this; exact this
    dsimp only
    by_cases hc : s.head = h
    · simp only [if_pos hc]
      obtain ⟨x, rest, hq, hx⟩ := (lin_pop_facts hG hth).1 h _ hpc hc
      have hch : s.chain[h + 1]? = some x := by
        rw [hG.intact (h + 1) (by omega)]; exact hx
      rw [hch, hq]
      obtain ⟨cc, hcur, hpop⟩ := hcur
      have htodo : c = cc :: th.prog := by have := hA.todo; simp only [hcur] at this; simpa using this
      have hp : p = .idle := hA.npost (by simp [hpc, isPopPost])
      subst htodo hp
      refine ⟨(cc :: th.prog, .popped x), { th with pc := .popRead (h + 1) },
        by simp only [State.setPc]; exact List.getElem?_set_self hilt, ?_, ?_, ?_, ?_, ?_⟩
      · simp [accepts, auto, autoOwn, TEv.tid, hpop]
      · simp [hcur]
      · simp only [CurOk]; exact ⟨cc, hcur, hpop⟩
      · intro _
        exact ⟨x, by simp only [List.head?_cons]; exact List.getElem?_set_self (by omega), rfl⟩
      · intro h; simp [isPopPost] at h
    · simp only [if_neg hc]
      exact auto_popFail hilt hA (by simp [hpc, isPopPost]) hcur _

theorem accepts_trace_gen {s : State} {g : Ghost} (hG : GInv s g) {j : Nat} {th : Thread}
    {st : List Call × Phase} (hth : s.threads[j]? = some th) (hA : AOk g j th st) (σ : List Nat) :
    ∃ st' th', (lrun s g σ).1.threads[j]? = some th' ∧ accepts j st (trace s σ) = some st' ∧
      AOk (lrun s g σ).2 j th' st' := by
  induction σ generalizing s g th st with
  | nil => exact ⟨st, th, hth, rfl, hA⟩
  | cons i σ ih =>
    simp only [trace, lrun]
    rw [accepts_append]
    by_cases e : i = j
    · subst e
      obtain ⟨st', th', h1, h2, h3⟩ := auto_own_step hG hth hA
      rw [h2]
      exact ih (ginv_step hG i) h1 h3
    · rw [accepts_other (fun e' he => by rw [evs_tid s i e' he]; exact e)]
      have hji : j ≠ i := fun h => e h.symm
      have h1 : (step .addThenStore s i).1.threads[j]? = some th := by
        rw [step_threads_ne s hji]; exact hth
      exact ih (ginv_step hG i) h1
        ⟨hA.todo, hA.cur, fun h => by rw [gstep_pend_ne s g hji]; exact hA.post h, hA.npost⟩

/-- Per thread, the lin / return events of every run follow the protocol of the thread's
program, and what the automaton has left is what the thread has left. -/
theorem accepts_trace (vals : List Int) (progs : List (List Call)) (σ : List Nat) (j : Nat)
    (pr : List Call) (hj : progs[j]? = some pr) :
    ∃ st' th', (run .addThenStore (init vals progs) σ).1.threads[j]? = some th' ∧
      accepts j (pr, .idle) (trace (init vals progs) σ) = some st' ∧
      st'.1 = th'.cur.toList ++ th'.prog ∧ (isPopPost th'.pc = false → st'.2 = .idle) := by
  have hth : (init vals progs).threads[j]? = some (mkThread pr) := by
    simp [init, List.getElem?_map, hj]
  have hA : AOk (ginit vals progs) j (mkThread pr) (pr, .idle) := AOk_finish rfl
  obtain ⟨st', th', h1, h2, h3⟩ := accepts_trace_gen (ginv_init vals progs) hth hA σ
  rw [lrun_fst] at h1
  exact ⟨st', th', h1, h2, h3.todo, h3.npost⟩

/-! ### the head index counts the linearized pops -/

theorem head_step {s : State} (hI : Inv s) (i : Nat) :
    (step .addThenStore s i).1.head = s.head + (poppedVals (linOf s i).toList).length := by
  unfold step linOf
  cases hth : s.threads[i]? with
  | none => rfl
  | some th =>
    have hloc := hI.locals th (List.mem_of_getElem? hth)
    have hlen := hI.chain_len
    dsimp only
    cases hpc : th.pc with
    | popCAS h n =>
      simp only [hpc, PcOk] at hloc
      obtain ⟨_, hlt, rfl⟩ := hloc
      dsimp only
      by_cases hc : s.head = h
      · simp only [if_pos hc]
        have hx : h + 1 < s.chain.length := by omega
        rw [List.getElem?_eq_getElem hx]
        simp [State.setPc, poppedVals, Lin.popped?, hc]
      · simp only [if_neg hc]
        unfold State.popFail
        (repeat' split) <;> simp [State.setPc, State.fin, poppedVals]
    | popLoadTail h =>
      dsimp only
      unfold State.popFail
      (repeat' split) <;> simp [State.setPc, State.fin, poppedVals]
    | pushStore v n => simp [State.fin, poppedVals, Lin.popped?]
    | pushCAS v t => dsimp only; split <;> simp [State.setPc, poppedVals]
    | pushLoadNext v t => dsimp only; split <;> simp [State.setPc, poppedVals]
    | popRead n => dsimp only; split <;> simp [State.setPc, poppedVals]
    | _ => simp [State.setPc, State.fin, poppedVals]

/-- `head` = initial head + number of pop linearization events so far: the head pointer
moves only at a successful `Pop`'s linearization point, by one node. -/
theorem head_counts_pops {s : State} (hI : Inv s) (σ : List Nat) :
    (run .addThenStore s σ).1.head = s.head + (poppedVals (lins s σ)).length := by
  induction σ generalizing s with
  | nil => simp [run, lins_nil, poppedVals]
  | cons i σ ih =>
    rw [lins_cons]
    simp only [run]
    rw [ih (inv_step hI i), head_step hI i]
    simp only [poppedVals, List.filterMap_append, List.length_append]
    omega

/-! ### what a thread takes from the list it returns -/

/-- the value a call holds between its linearization point and its return -/
def Phase.vals : Phase → List Int
  | .popped x => [x]
  | _ => []

/-- value removed from the list by a linearization event of thread `j` -/
def TEv.linPop? (j : Nat) : TEv → Option Int
  | .lin (.pop k x) => if k = j then some x else none
  | _ => none

/-- value delivered to the caller by a return `(x, true)` of thread `j` -/
def TEv.retTrue? (j : Nat) : TEv → Option Int
  | .ret k (.pop x true) => if k = j then some x else none
  | _ => none

theorem autoOwn_conservation {j : Nat} {st st1 : List Call × Phase} {e : TEv}
    (h : autoOwn st e = some st1) (ht : e.tid = j) :
    st.2.vals ++ (e.linPop? j).toList = (e.retTrue? j).toList ++ st1.2.vals := by
  obtain ⟨c, p⟩ := st
  unfold autoOwn at h
  cases c with
  | nil => simp at h
  | cons c0 rest =>
    dsimp only at h
    cases e with
    | lin l =>
      cases l with
      | push k w =>
        dsimp only at h
        split at h
        · rename_i hc; obtain rfl := Option.some.inj h
          simp [Phase.vals, hc.2, TEv.linPop?, TEv.retTrue?]
        · simp at h
      | pop k x =>
        dsimp only at h
        simp only [TEv.tid] at ht
        split at h
        · rename_i hc; obtain rfl := Option.some.inj h
          simp [Phase.vals, hc.2, TEv.linPop?, TEv.retTrue?, ht]
        · simp at h
    | ret k r =>
      simp only [TEv.tid] at ht
      cases r with
      | push =>
        dsimp only at h
        split at h
        · rename_i hc; obtain rfl := Option.some.inj h
          simp [Phase.vals, hc.2, TEv.linPop?, TEv.retTrue?]
        · simp at h
      | pop y b =>
        cases b with
        | true =>
          dsimp only at h
          split at h
          · rename_i hc; obtain rfl := Option.some.inj h
            simp [Phase.vals, hc.2, TEv.linPop?, TEv.retTrue?, ht]
          · simp at h
        | false =>
          dsimp only at h
          split at h
          · rename_i hc; obtain rfl := Option.some.inj h
            simp [Phase.vals, hc.2, TEv.linPop?, TEv.retTrue?]
          · simp at h
      | len n =>
        dsimp only at h
        split at h
        · rename_i hc; obtain rfl := Option.some.inj h
          simp [Phase.vals, hc.2, TEv.linPop?, TEv.retTrue?]
        · simp at h
      | panic => simp at h

theorem not_own_none {j : Nat} {e : TEv} (ht : e.tid ≠ j) :
    e.linPop? j = none ∧ e.retTrue? j = none := by
  cases e with
  | lin l => cases l <;> simp_all [TEv.tid, TEv.linPop?, TEv.retTrue?]
  | ret k r =>
    cases r with
    | pop v ok => cases ok <;> simp_all [TEv.tid, TEv.linPop?, TEv.retTrue?]
    | _ => simp_all [TEv.tid, TEv.linPop?, TEv.retTrue?]

/-- Whatever event sequence thread `j`'s automaton accepts: (value held at the start) ++
(values its lin events removed from the list) = (values its calls returned with `true`) ++
(value held at the end). -/
theorem accepts_conservation {j : Nat} {st st' : List Call × Phase} {es : List TEv}
    (h : accepts j st es = some st') :
    st.2.vals ++ es.filterMap (TEv.linPop? j) = es.filterMap (TEv.retTrue? j) ++ st'.2.vals := by
  induction es generalizing st with
  | nil => simp only [accepts, Option.some.injEq] at h; subst h; simp
  | cons e es ih =>
    simp only [accepts] at h
    cases h1 : auto j st e with
    | none => rw [h1] at h; simp at h
    | some st1 =>
      rw [h1, Option.bind_some] at h
      have ih' := ih h
      unfold auto at h1
      by_cases ht : e.tid = j
      · rw [if_pos ht] at h1
        have hc := autoOwn_conservation h1 ht
        simp only [List.filterMap_cons]
        cases hl : e.linPop? j <;> cases hr : e.retTrue? j <;> rw [hl, hr] at hc <;>
          simp only [Option.toList, List.append_nil, List.nil_append] at hc <;>
          simp only [] <;> grind
      · rw [if_neg ht] at h1
        obtain rfl := Option.some.inj h1
        have := not_own_none ht
        simp only [List.filterMap_cons, this.1, this.2]
        exact ih'

/-! ### every completed call with the linearization events it performed -/

def Lin.tid : Lin → Nat
  | .push k _ => k
  | .pop k _ => k

/-- Thread `j`'s completed calls in order, each as (the lin events the thread emitted since
its previous return, the return).  `acc` = lin events of the call in progress. -/
def segs (j : Nat) : List Lin → List TEv → List (List Lin × Ret)
  | _, [] => []
  | acc, .lin l :: es => if l.tid = j then segs j (acc ++ [l]) es else segs j acc es
  | acc, .ret k r :: es => if k = j then (acc, r) :: segs j [] es else segs j acc es

/-- What a completed call may have done to the abstract queue, given what it returned:
`Push(v)` exactly one append of `v`; `(x, true)` exactly one removal, of `x`; `(_, false)`
and `Len` NOTHING — no successful head CAS, no publication. -/
def SegOk (j : Nat) : List Lin × Ret → Prop
  | (ls, .push) => ∃ v, ls = [.push j v]
  | (ls, .pop x true) => ls = [.pop j x]
  | (ls, .pop _ false) => ls = []
  | (ls, .len _) => ls = []
  | (_, .panic) => False

/-- lin events of the call in progress, as recorded by the automaton state -/
def accOf (j : Nat) (st : List Call × Phase) : List Lin :=
  match st.2 with
  | .idle => []
  | .popped x => [.pop j x]
  | .pushed =>
    match st.1 with
    | .push v :: _ => [.push j v]
    | _ => []

theorem segs_ok {j : Nat} {st st' : List Call × Phase} {es : List TEv}
    (h : accepts j st es = some st') : ∀ sg ∈ segs j (accOf j st) es, SegOk j sg := by
  induction es generalizing st with
  | nil => intro sg hsg; simp [segs] at hsg
  | cons e es ih =>
    simp only [accepts] at h
    cases h1 : auto j st e with
    | none => rw [h1] at h; simp at h
    | some st1 =>
      rw [h1, Option.bind_some] at h
      have ih' := ih h
      unfold auto at h1
      by_cases ht : e.tid = j
      · rw [if_pos ht] at h1
        obtain ⟨c, p⟩ := st
        unfold autoOwn at h1
        cases c with
        | nil => simp at h1
        | cons c0 rest =>
          dsimp only at h1
          cases e with
          | lin l =>
            cases l with
            | push k w =>
              simp only [TEv.tid] at ht
              dsimp only at h1
              split at h1
              · rename_i hc; obtain rfl := Option.some.inj h1
                obtain ⟨hc1, hc2⟩ := hc
                subst hc1 hc2 ht
                simpa [segs, Lin.tid, accOf] using ih'
              · simp at h1
            | pop k x =>
              simp only [TEv.tid] at ht
              dsimp only at h1
              split at h1
              · rename_i hc; obtain rfl := Option.some.inj h1
                obtain ⟨_, hc2⟩ := hc
                subst hc2 ht
                simpa [segs, Lin.tid, accOf] using ih'
              · simp at h1
          | ret k r =>
            simp only [TEv.tid] at ht
            subst ht
            cases r with
            | push =>
              dsimp only at h1
              split at h1
              · rename_i hc; obtain rfl := Option.some.inj h1
                obtain ⟨hc1, hc2⟩ := hc
                subst hc2
                intro sg hsg
                simp only [segs, if_true, List.mem_cons] at hsg
                rcases hsg with rfl | hsg
                · cases c0 <;> simp [isPushCall] at hc1
                  simp [SegOk, accOf]
                · exact ih' sg (by simpa [accOf] using hsg)
              · simp at h1
            | pop y b =>
              cases b with
              | true =>
                dsimp only at h1
                split at h1
                · rename_i hc; obtain rfl := Option.some.inj h1
                  obtain ⟨_, hc2⟩ := hc
                  subst hc2
                  intro sg hsg
                  simp only [segs, if_true, List.mem_cons] at hsg
                  rcases hsg with rfl | hsg
                  · simp [SegOk, accOf]
                  · exact ih' sg (by simpa [accOf] using hsg)
                · simp at h1
              | false =>
                dsimp only at h1
                split at h1
                · rename_i hc; obtain rfl := Option.some.inj h1
                  obtain ⟨_, hc2⟩ := hc
                  subst hc2
                  intro sg hsg
                  simp only [segs, if_true, List.mem_cons] at hsg
                  rcases hsg with rfl | hsg
                  · simp [SegOk, accOf]
                  · exact ih' sg (by simpa [accOf] using hsg)
                · simp at h1
            | len n =>
              dsimp only at h1
              split at h1
              · rename_i hc; obtain rfl := Option.some.inj h1
                obtain ⟨_, hc2⟩ := hc
                subst hc2
                intro sg hsg
                simp only [segs, if_true, List.mem_cons] at hsg
                rcases hsg with rfl | hsg
                · simp [SegOk, accOf]
                · exact ih' sg (by simpa [accOf] using hsg)
              · simp at h1
            | panic => simp at h1
      · rw [if_neg ht] at h1
        obtain rfl := Option.some.inj h1
        intro sg hsg
        apply ih' sg
        cases e with
        | lin l =>
          have : l.tid ≠ j := by cases l <;> simpa [TEv.tid, Lin.tid] using ht
          simpa [segs, this] using hsg
        | ret k r =>
          have : k ≠ j := by simpa [TEv.tid] using ht
          simpa [segs, this] using hsg

end Golib.C11
