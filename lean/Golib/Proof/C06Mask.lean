/-
C06: the rune-wise reading of `ReplaceWithMask`.  The result of the (repaired) code is the
text in which every rune that starts inside a pattern occurrence is replaced by the mask
rune and every other rune keeps its bytes; the rune count (`utf8.RuneCountInString`) is
preserved.  Decoding facts are in `C06Mask1.lean`.
-/
import Golib.Proof.C06Mask1

set_option linter.unusedSimpArgs false
set_option linter.unusedVariables false

namespace Golib.C06
open Golib Golib.C05

/-- Rune-wise specification of ReplaceWithMask: walk the decoded text; a rune whose first byte is
covered becomes the mask rune (`WriteRune(mask)`), every other rune keeps its bytes. -/
def maskSteps (text : List Nat) (mask : Int) (cov : Nat → Bool) : List Step → Nat → List Nat
  | [], _ => []
  | (_, w) :: rest, off =>
    (if cov off then Utf8.encodeRune mask else (text.drop off).take w) ++ maskSteps text mask cov rest (off + w)

/-! ### list plumbing for `maskSteps` -/

theorem maskSteps_append (text : List Nat) (mask : Int) (cov : Nat → Bool) :
    ∀ (A B : List Step) (off : Nat), maskSteps text mask cov (A ++ B) off
      = maskSteps text mask cov A off ++ maskSteps text mask cov B (off + wsum A) := by
  intro A
  induction A with
  | nil => intro B off; simp [maskSteps, wsum_nil]
  | cons st A ih =>
    intro B off
    obtain ⟨r, w⟩ := st
    simp only [List.cons_append, maskSteps, ih, wsum_cons, List.append_assoc, Nat.add_assoc]

theorem maskSteps_congr (text : List Nat) (mask : Int) (cov cov' : Nat → Bool) :
    ∀ (A : List Step) (off : Nat), (∀ j, off ≤ j → cov j = cov' j) →
      maskSteps text mask cov A off = maskSteps text mask cov' A off := by
  intro A
  induction A with
  | nil => intros; rfl
  | cons st A ih =>
    intro off h
    obtain ⟨r, w⟩ := st
    simp only [maskSteps, h off (Nat.le_refl _)]
    rw [ih (off + w) (fun j hj => h j (by omega))]

theorem maskSteps_uncov (text : List Nat) (mask : Int) (cov : Nat → Bool) :
    ∀ (A : List Step) (off : Nat), (∀ st ∈ A, 1 ≤ st.2) →
      (∀ j, off ≤ j → j < off + wsum A → cov j = false) →
      maskSteps text mask cov A off = (text.drop off).take (wsum A) := by
  intro A
  induction A with
  | nil => intros; simp [maskSteps, wsum_nil]
  | cons st A ih =>
    intro off hpos h
    obtain ⟨r, w⟩ := st
    have hw : 1 ≤ w := hpos (r, w) (by simp)
    rw [wsum_cons] at h
    simp only [] at h
    have hc : cov off = false := h off (Nat.le_refl _) (by omega)
    simp only [maskSteps, hc, wsum_cons]
    rw [ih (off + w) (fun st hst => hpos st (by simp [hst])) (fun j h1 h2 => h j (by omega) (by omega))]
    apply List.ext_getElem?; intro i
    simp only [List.getElem?_take, List.getElem?_drop, List.getElem?_append, List.length_take,
      List.length_drop]
    grind

theorem maskRunes_succ (n : Nat) (mask : Int) :
    maskRunes (n + 1) mask = Utf8.encodeRune mask ++ maskRunes n mask := by
  simp [maskRunes, List.replicate_succ]

theorem maskSteps_cov (text : List Nat) (mask : Int) (cov : Nat → Bool) :
    ∀ (A : List Step) (off : Nat), (∀ st ∈ A, 1 ≤ st.2) →
      (∀ j, off ≤ j → j < off + wsum A → cov j = true) →
      maskSteps text mask cov A off = maskRunes A.length mask := by
  intro A
  induction A with
  | nil => intros; simp [maskSteps, maskRunes]
  | cons st A ih =>
    intro off hpos h
    obtain ⟨r, w⟩ := st
    have hw : 1 ≤ w := hpos (r, w) (by simp)
    rw [wsum_cons] at h
    simp only [] at h
    have hc : cov off = true := h off (Nat.le_refl _) (by omega)
    simp only [maskSteps, hc, if_true, List.length_cons, maskRunes_succ]
    rw [ih (off + w) (fun st hst => hpos st (by simp [hst])) (fun j h1 h2 => h j (by omega) (by omega))]

theorem coveredB_cons (s : Scope) (ss : List Scope) (j : Nat) :
    coveredB (s :: ss) j = (decide (s.start ≤ (j : Int) ∧ (j : Int) < s.stop) || coveredB ss j) := by
  simp [coveredB]

theorem coveredB_before (n : Nat) (ss : List Scope) (stop : Int) (hf : Fits n stop ss) (j : Nat)
    (hj : (j : Int) < stop) : coveredB ss j = false := by
  have hstarts := fits_starts n ss stop hf
  simp only [coveredB, List.any_eq_false, decide_eq_true_eq]
  intro t ht
  have := hstarts t ht
  omega

/-! ### the assembled output, rune by rune -/

theorem assemble_eq_maskSteps (text : List Nat) (mask : Int) (hb : Bytes text) :
    ∀ (r : List Scope) (begin : Nat) (X Y : List Step),
      decodeAll text = X ++ Y → wsum X = begin → Fits text.length (begin : Int) r →
      (∀ s ∈ r, Boundary text s.start.toNat ∧ Boundary text s.stop.toNat) →
      assemble text (maskFill text mask) begin r = maskSteps text mask (coveredB r) Y begin := by
  intro r
  induction r with
  | nil =>
    intro begin X Y h hX hf _
    have hpos : ∀ st ∈ Y, 1 ≤ st.2 := fun st hst => (decodeAll_wf text hb st (by rw [h]; simp [hst])).2
    have hlen : wsum X + wsum Y = text.length := by
      rw [← wsum_append, ← h]; exact decodeAll_widths text hb
    simp only [assemble]
    rw [maskSteps_uncov text mask _ Y begin hpos (fun j _ _ => by simp [coveredB])]
    rw [List.take_of_length_le (by simp only [List.length_drop]; omega)]
  | cons s ss ih =>
    intro begin X Y h hX hf hbd
    subst hX
    obtain ⟨h0, h1, h2, h3, h4⟩ := hf
    obtain ⟨a, ha⟩ := Int.eq_ofNat_of_zero_le (show 0 ≤ s.start by omega)
    obtain ⟨b, hb'⟩ := Int.eq_ofNat_of_zero_le (show 0 ≤ s.stop by omega)
    obtain ⟨hba, hbb⟩ := hbd s (by simp)
    rw [ha, Int.toNat_natCast] at hba
    rw [hb', Int.toNat_natCast] at hbb
    have hpos : ∀ st ∈ decodeAll text, 1 ≤ st.2 := fun st hst => (decodeAll_wf text hb st hst).2
    -- the gap `[begin, a)` and the scope `[a, b)` are windows of steps
    obtain ⟨G, Y1, hY, hG⟩ := boundary_split text hb X Y a h hba (by omega)
    have h' : decodeAll text = (X ++ G) ++ Y1 := by rw [h, hY, List.append_assoc]
    have hXG : wsum (X ++ G) = a := by rw [wsum_append]; omega
    obtain ⟨W, Y2, hY1, hW⟩ := boundary_split text hb (X ++ G) Y1 b h' hbb (by omega)
    have h'' : decodeAll text = (X ++ G ++ W) ++ Y2 := by
      rw [h', hY1]; simp only [List.append_assoc]
    have hXGW : wsum (X ++ G ++ W) = b := by rw [wsum_append, hXG]; omega
    have hposG : ∀ st ∈ G, 1 ≤ st.2 := fun st hst => hpos st (by rw [h']; simp [hst])
    have hposW : ∀ st ∈ W, 1 ≤ st.2 := fun st hst => hpos st (by rw [h'']; simp [hst])
    -- the scope's bytes decode to exactly `W`
    have hwin : decodeAll ((text.take b).drop a) = W := by
      have d1 := (decodeAll_drop text hb (X ++ G) (W ++ Y2) (by rw [h', hY1])).1
      rw [hXG] at d1
      have d2 := decodeAll_take W (text.drop a) Y2 (hb.drop a) d1
      rw [List.drop_take]
      have : b - a = wsum W := by omega
      rw [this]; exact d2
    have hfill : maskFill text mask s = maskRunes W.length mask := by
      simp only [maskFill, hb', ha, Int.toNat_natCast]
      rw [runeCount_eq _ ((hb.take b).drop a), hwin]
    simp only [assemble, ha, hb', Int.toNat_natCast]
    rw [hY, hY1, maskSteps_append, maskSteps_append, hG, hfill]
    have e1 : wsum X + (a - wsum X) = a := by omega
    have e2 : a + wsum W = b := by omega
    rw [e1, e2]
    have k1 : maskSteps text mask (coveredB (s :: ss)) G (wsum X) = (text.take a).drop (wsum X) := by
      rw [maskSteps_uncov text mask _ G (wsum X) hposG]
      · rw [hG, List.drop_take]
      · intro j hj1 hj2
        rw [coveredB_cons, coveredB_before text.length ss s.stop h4 j (by omega)]
        simp only [Bool.or_false, decide_eq_false_iff_not]; omega
    have k2 : maskSteps text mask (coveredB (s :: ss)) W a = maskRunes W.length mask := by
      apply maskSteps_cov text mask _ W a hposW
      intro j hj1 hj2
      rw [coveredB_cons]
      have : decide (s.start ≤ (j : Int) ∧ (j : Int) < s.stop) = true := by
        simp only [decide_eq_true_eq]; omega
      rw [this, Bool.true_or]
    have k3 : maskSteps text mask (coveredB (s :: ss)) Y2 b = maskSteps text mask (coveredB ss) Y2 b := by
      apply maskSteps_congr
      intro j hj
      rw [coveredB_cons]
      have : decide (s.start ≤ (j : Int) ∧ (j : Int) < s.stop) = false := by
        simp only [decide_eq_false_iff_not]; omega
      rw [this, Bool.false_or]
    rw [k1, k2, k3, List.append_assoc]
    congr 2
    exact ih b (X ++ G ++ W) Y2 h'' hXGW (by rw [← hb']; exact h4)
      (fun t ht => hbd t (by simp [ht]))

/-! ### the result has one rune per rune of the text -/

theorem decodeAll_step (bs : List Nat) (hb : Bytes bs) (hne : bs ≠ []) :
    decodeAll bs = decodeStep bs :: decodeAll (bs.drop (decodeStep bs).2) := by
  cases bs with
  | nil => exact absurd rfl hne
  | cons b rest => exact decodeAll_cons b rest hb

theorem encodeRune_head (mask : Int) :
    ∃ m M', Utf8.encodeRune mask = m :: M' ∧ Utf8.isCont m = false := by
  obtain ⟨r0, hr0, hlen, _, hstep⟩ := encodeRune_step mask
  cases hM : Utf8.encodeRune mask with
  | nil => rw [hM] at hlen; simp at hlen
  | cons m M' =>
    refine ⟨m, M', rfl, ?_⟩
    have := hstep []
    rw [hM] at this
    apply decodeStep_first_not_cont m (M' ++ [])
    rw [← List.cons_append, this]; exact hr0

theorem maskSteps_bytes (text : List Nat) (mask : Int) (cov : Nat → Bool) (hb : Bytes text) :
    ∀ (Y : List Step) (off : Nat), Bytes (maskSteps text mask cov Y off) := by
  intro Y
  induction Y with
  | nil => intro off x hx; simp [maskSteps] at hx
  | cons st Y ih =>
    intro off
    obtain ⟨r, w⟩ := st
    simp only [maskSteps]
    apply Bytes.append _ (ih _)
    split
    · exact (encodeRune_step mask).choose_spec.2.2.1
    · exact (hb.drop off).take w

/-- Every run of continuation bytes at the front of the output is also at the front of the text:
the first replaced rune starts with a non-continuation byte. -/
theorem maskSteps_rel (text : List Nat) (mask : Int) (cov : Nat → Bool) :
    ∀ (Y : List Step) (off k : Nat), k ≤ (maskSteps text mask cov Y off).length →
      (∀ x ∈ (maskSteps text mask cov Y off).take k, Utf8.isCont x = true) →
      (text.drop off).take k = (maskSteps text mask cov Y off).take k := by
  intro Y
  induction Y with
  | nil =>
    intro off k hk _
    simp only [maskSteps, List.length_nil] at hk ⊢
    have : k = 0 := by omega
    subst this; simp
  | cons st Y ih =>
    intro off k hk hall
    obtain ⟨r, w⟩ := st
    simp only [maskSteps] at hk hall ⊢
    by_cases hc : cov off = true
    · rw [if_pos hc] at hk hall ⊢
      obtain ⟨m, M', hM, hm⟩ := encodeRune_head mask
      rw [hM] at hall ⊢
      cases k with
      | zero => simp
      | succ k =>
        exfalso
        have := hall m (by simp)
        rw [hm] at this
        exact Bool.false_ne_true this
    · rw [if_neg hc] at hk hall ⊢
      rw [List.take_append] at hall ⊢
      have hi := ih (off + w) (k - ((text.drop off).take w).length)
        (by simp only [List.length_append] at hk; omega)
        (fun x hx => hall x (List.mem_append_right _ hx))
      rw [← hi]
      apply List.ext_getElem?; intro i
      simp only [List.getElem?_take, List.getElem?_drop, List.getElem?_append, List.length_take,
        List.length_drop]
      grind

theorem maskSteps_decode_length (text : List Nat) (mask : Int) (cov : Nat → Bool) (hb : Bytes text) :
    ∀ (Y X : List Step), decodeAll text = X ++ Y →
      (decodeAll (maskSteps text mask cov Y (wsum X))).length = Y.length := by
  intro Y
  induction Y with
  | nil => intro X _; simp [maskSteps, decodeAll_nil]
  | cons st Y ih =>
    intro X h
    obtain ⟨r, w⟩ := st
    have d := (decodeAll_drop text hb X ((r, w) :: Y) h).1
    cases hT : text.drop (wsum X) with
    | nil => rw [hT, decodeAll_nil] at d; simp at d
    | cons b rest =>
      have hbT : Bytes (b :: rest) := by rw [← hT]; exact hb.drop _
      have hc256 : b < 256 := hbT b (by simp)
      rw [hT, decodeAll_cons b rest hbT, List.cons.injEq] at d
      obtain ⟨hst, _⟩ := d
      have hw := decodeStep_spec b rest hbT
      rw [hst] at hw
      simp only [List.length_cons] at hw
      have h2 : decodeAll text = (X ++ [(r, w)]) ++ Y := by rw [h]; simp
      have hi := ih (X ++ [(r, w)]) h2
      have hws : wsum (X ++ [(r, w)]) = wsum X + w := by simp [wsum_append, wsum_cons, wsum_nil]
      rw [hws] at hi
      have hbR := maskSteps_bytes text mask cov hb Y (wsum X + w)
      have hrel := maskSteps_rel text mask cov Y (wsum X + w)
      simp only [maskSteps, List.length_cons]
      generalize maskSteps text mask cov Y (wsum X + w) = R' at hi hbR hrel
      by_cases hc : cov (wsum X) = true
      · rw [if_pos hc]
        obtain ⟨r0, hr0, hlen, hbM, hstep⟩ := encodeRune_step mask
        have hne : Utf8.encodeRune mask ++ R' ≠ [] := by
          intro hnil
          have := congrArg List.length hnil
          simp only [List.length_append, List.length_nil] at this; omega
        rw [decodeAll_step _ (hbM.append hbR) hne, hstep R']
        simp only [List.length_cons, List.drop_left, hi]
      · rw [if_neg hc, hT]
        obtain ⟨w', rfl⟩ : ∃ w', w = w' + 1 := ⟨w - 1, by omega⟩
        rw [List.take_succ_cons, List.cons_append]
        have hbK : Bytes (b :: (rest.take w' ++ R')) := by
          have := ((hbT.take (w' + 1))).append hbR
          rw [List.take_succ_cons, List.cons_append] at this
          exact this
        have hstep : decodeStep (b :: (rest.take w' ++ R')) = (r, w' + 1) := by
          by_cases hr : 0 ≤ r
          · exact decodeStep_stable b rest R' r (w' + 1) hc256 hst hr
          · -- an invalid byte: width 1, and it stays invalid in front of the new suffix
            have hw1 : w' = 0 := by
              rcases decodeStep_cases b rest hbT with ⟨_, h1⟩ | ⟨_, h1⟩ | ⟨_, r1, w1, h1, _, _, h4, _⟩
              · rw [h1] at hst; simp only [Prod.mk.injEq] at hst; omega
              · rw [h1] at hst; simp only [Prod.mk.injEq] at hst; omega
              · rw [h1] at hst; simp only [Prod.mk.injEq] at hst; omega
            subst hw1
            simp only [List.take_zero, List.nil_append] at hbK ⊢
            apply decodeStep_invalid_agree b rest R' r 1 hbK hst (by omega) hbT
            intro k hk hall
            have := hrel k hk hall
            rw [← this, ← List.drop_drop, hT]
            simp
        rw [decodeAll_cons b _ hbK, hstep]
        simp only [List.length_cons]
        have : (b :: (rest.take w' ++ R')).drop (w' + 1) = R' := by
          rw [List.drop_succ_cons]
          have hl : (rest.take w').length = w' := by rw [List.length_take]; omega
          conv => lhs; arg 1; rw [← hl]
          exact List.drop_left
        rw [this, hi]

/-- The rune count of the rune-wise result is the rune count of the text (any `cov`). -/
theorem maskSteps_runeCount (text : List Nat) (mask : Int) (cov : Nat → Bool) (hb : Bytes text) :
    Utf8.runeCount (maskSteps text mask cov (decodeAll text) 0) = Utf8.runeCount text := by
  rw [runeCount_eq _ (maskSteps_bytes text mask cov hb _ 0), runeCount_eq text hb]
  exact maskSteps_decode_length text mask cov hb (decodeAll text) [] rfl

/-! ### a rune is covered as a whole -/

/-- No step boundary lies strictly inside a step. -/
theorem boundary_not_inside (text : List Nat) (X Y : List Step) (r : Int) (w x : Nat)
    (h : decodeAll text = X ++ (r, w) :: Y) (hx : Boundary text x) : x ≤ wsum X ∨ wsum X + w ≤ x := by
  obtain ⟨X', Y', h1, h2⟩ := hx
  rw [h] at h1
  rcases List.append_eq_append_iff.1 h1 with ⟨a, e1, e2⟩ | ⟨c, e1, e2⟩
  · cases a with
    | nil => left; rw [← h2, e1]; simp
    | cons st a =>
      right
      rw [List.cons_append, List.cons.injEq] at e2
      rw [← h2, e1, wsum_append, wsum_cons, ← e2.1]
      simp only []; omega
  · left; rw [← h2, e1, wsum_append]; omega

/-- If all scope ends are step boundaries, every byte of a rune is covered iff its first byte is. -/
theorem coveredB_whole_rune (text : List Nat) (scopes : List Scope)
    (hbd : ∀ s ∈ scopes, 0 ≤ s.start ∧ 0 ≤ s.stop ∧ Boundary text s.start.toNat ∧ Boundary text s.stop.toNat)
    (X Y : List Step) (r : Int) (w : Nat) (h : decodeAll text = X ++ (r, w) :: Y)
    (j : Nat) (hj1 : wsum X ≤ j) (hj2 : j < wsum X + w) :
    coveredB scopes (wsum X) = coveredB scopes j := by
  have key : ∀ s ∈ scopes, (s.start ≤ ((wsum X : Nat) : Int) ∧ ((wsum X : Nat) : Int) < s.stop) ↔
      (s.start ≤ (j : Int) ∧ (j : Int) < s.stop) := by
    intro s hs
    obtain ⟨p1, p2, b1, b2⟩ := hbd s hs
    have c1 := boundary_not_inside text X Y r w _ h b1
    have c2 := boundary_not_inside text X Y r w _ h b2
    omega
  have h1 := coveredB_iff scopes (wsum X)
  have h2 := coveredB_iff scopes j
  have h3 : covered scopes ((wsum X : Nat) : Int) ↔ covered scopes (j : Int) := by
    constructor
    · rintro ⟨s, hs, hc⟩; exact ⟨s, hs, (key s hs).1 hc⟩
    · rintro ⟨s, hs, hc⟩; exact ⟨s, hs, (key s hs).2 hc⟩
  cases hA : coveredB scopes (wsum X) <;> cases hB : coveredB scopes j <;> simp_all

/-! ### the theorem -/

/-- `ReplaceWithMask`, rune by rune: no panic; the result is the decoded text with every rune that
starts inside a pattern occurrence (`scopes` = what `find` reports, see `c06_find_fact`) written
as the mask rune and every other rune's bytes kept; the rune count is preserved. -/
theorem mask_runewise (pats : List (List Nat)) (text : List Nat) (mask : Int)
    (hp : ∀ p ∈ pats, Bytes p) (ht : Bytes text) (t : Trie) (hbuilt : Trie.ofPatterns pats = some t) :
    ∃ scopes, t.find text = some scopes ∧
      replaceWithMask t text mask = some (maskSteps text mask (coveredB scopes) (decodeAll text) 0) ∧
      Utf8.runeCount (maskSteps text mask (coveredB scopes) (decodeAll text) 0) = Utf8.runeCount text := by
  obtain ⟨hfind, hs, hocc⟩ := find_sound pats text hp ht t hbuilt
  have hbnd := find_boundaries pats text hp ht t hbuilt
  generalize findSpec t.pats (decodeAll text) [] 0 = scopes at hfind hs hocc hbnd
  have hne : AllNonEmpty scopes := fun s hs => (hocc s hs).2.1
  have hb : ∀ s ∈ scopes, 0 ≤ s.start ∧ s.stop ≤ text.length := fun s hs => ⟨(hocc s hs).1, (hocc s hs).2.2.1⟩
  obtain ⟨r, hr, hm⟩ := mergeScopes_spec scopes hs hne
  have hfits : Fits text.length 0 r :=
    fits_of_disjoint text.length r 0 (Int.le_refl _) (by omega) hm.disj hm.ne
      (merged_bounds hm 0 text.length hb)
  have hrb : ∀ s ∈ r, Boundary text s.start.toNat ∧ Boundary text s.stop.toNat := by
    intro s hsr
    obtain ⟨o1, ho1, e1, _⟩ := hm.starts s hsr
    obtain ⟨o2, ho2, e2⟩ := hm.stops s hsr
    rw [← e1, ← e2]
    exact ⟨(hbnd o1 ho1).2.2.1, (hbnd o2 ho2).2.2.2⟩
  refine ⟨scopes, hfind, ?_, maskSteps_runeCount text mask _ ht⟩
  have h := maskLoop_spec text mask r 0 [] hfits
  simp only [replaceWithMask, replaceWithMaskWith, hfind]
  simp only [mergeScopes] at hr
  simp only [hr, h, List.nil_append, Int.toNat_zero]
  rw [assemble_eq_maskSteps text mask ht r 0 [] (decodeAll text) rfl rfl (by simpa using hfits) hrb]
  congr 1
  apply maskSteps_congr
  intro j _
  have h1 := coveredB_iff r j
  have h2 := coveredB_iff scopes j
  have h3 := hm.cover (j : Int)
  cases hA : coveredB r j <;> cases hB : coveredB scopes j <;> simp_all

/-- The scopes in `mask_runewise` are those of `find`; with them a rune is covered as a whole:
for a step of width `w` at byte offset `off`, all of `off … off+w-1` are covered iff `off` is. -/
theorem mask_rune_covered_whole (pats : List (List Nat)) (text : List Nat)
    (hp : ∀ p ∈ pats, Bytes p) (ht : Bytes text) (t : Trie) (hbuilt : Trie.ofPatterns pats = some t)
    (scopes : List Scope) (hfind : t.find text = some scopes)
    (X Y : List Step) (r : Int) (w : Nat) (h : decodeAll text = X ++ (r, w) :: Y)
    (j : Nat) (hj1 : wsum X ≤ j) (hj2 : j < wsum X + w) :
    coveredB scopes (wsum X) = coveredB scopes j := by
  obtain ⟨hfind', _, _⟩ := find_sound pats text hp ht t hbuilt
  have hbnd := find_boundaries pats text hp ht t hbuilt
  rw [hfind] at hfind'
  cases hfind'
  exact coveredB_whole_rune text _ hbnd X Y r w h j hj1 hj2

/-- Non-vacuity: pattern `é` (C3 A9), text `a é <stray 80> é`, mask `*`: both `é` are masked,
the ASCII byte and the invalid byte are kept; 4 runes before and after. -/
example : (Trie.ofPatterns [[0xC3, 0xA9]]).bind
      (fun t => replaceWithMask t [97, 0xC3, 0xA9, 0x80, 0xC3, 0xA9] 42) = some [97, 42, 0x80, 42] ∧
    (Trie.ofPatterns [[0xC3, 0xA9]]).bind (fun t => t.find [97, 0xC3, 0xA9, 0x80, 0xC3, 0xA9])
      = some [⟨1, 3⟩, ⟨4, 6⟩] ∧
    maskSteps [97, 0xC3, 0xA9, 0x80, 0xC3, 0xA9] 42 (coveredB [⟨1, 3⟩, ⟨4, 6⟩])
      (decodeAll [97, 0xC3, 0xA9, 0x80, 0xC3, 0xA9]) 0 = [97, 42, 0x80, 42] ∧
    Utf8.runeCount [97, 0xC3, 0xA9, 0x80, 0xC3, 0xA9] = 4 ∧ Utf8.runeCount [97, 42, 0x80, 42] = 4 := by
  refine ⟨by decide +kernel, by decide +kernel, by decide +kernel, by decide +kernel, by decide +kernel⟩

end Golib.C06
