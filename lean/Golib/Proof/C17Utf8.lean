/-
UTF-8 lemmas needed by the C17 proofs, about the shared prelude `Golib.Utf8`
(decode ∘ encode, sizes, the `for range` decoding of an encoded rune list).
Core-only.  (C07 proves similar facts in `Proof/Utf8.lean`; duplication is deliberate so
the two properties build independently.)
-/
import Golib.Prelude.Utf8

namespace Golib.Utf8

theorem decodeRune_size (b : Nat) (t : List Nat) :
    1 ≤ (decodeRune (b :: t)).2 ∧ (decodeRune (b :: t)).2 ≤ t.length + 1 := by
  rcases t with _ | ⟨b1, _ | ⟨b2, _ | ⟨b3, t⟩⟩⟩ <;> simp only [decodeRune] <;>
    (repeat' split) <;> simp only [List.length_cons, List.length_nil] <;> omega


theorem leader1 (b : Nat) (h : b < 0x80) : leader b = some (1, 0, 0) := by
  unfold leader; simp [h]

theorem leader2 (b : Nat) (h1 : 0xC2 ≤ b) (h2 : b ≤ 0xDF) : leader b = some (2, 0x80, 0xBF) := by
  unfold leader
  rw [if_neg (by omega), if_neg (by omega), if_pos (by omega)]

theorem dec2 (n : Nat) (rest : List Nat) (h1 : 0x80 ≤ n) (h2 : n < 0x800) :
    decodeRune ((0xC0 + n / 64) :: (0x80 + n % 64) :: rest) = ((n : Int), 2) := by
  simp only [decodeRune, leader2 (0xC0 + n/64) (by omega) (by omega)]
  rw [if_pos (by omega)]
  congr 1
  congr 1
  omega

theorem leader3 (b : Nat) (h1 : 0xE0 ≤ b) (h2 : b ≤ 0xEF) : 
   leader b = some (3, if b = 0xE0 then 0xA0 else 0x80, if b = 0xED then 0x9F else 0xBF) := by
  unfold leader
  rw [if_neg (by omega), if_neg (by omega), if_neg (by omega)]
  repeat' split
  all_goals first | rfl | omega 

theorem decode3 (b0 b1 b2 lo hi : Nat) (rest : List Nat) (hl : leader b0 = some (3, lo, hi))
    (h1 : lo ≤ b1) (h2 : b1 ≤ hi) (h3 : isCont b2 = true) :
    decodeRune (b0 :: b1 :: b2 :: rest) = ((((b0 % 16) * 4096 + (b1 % 64) * 64 + b2 % 64 : Nat) : Int), 3) := by
  simp only [decodeRune, hl]
  rw [if_pos ⟨h1, h2, h3⟩]

theorem decode4 (b0 b1 b2 b3 lo hi : Nat) (rest : List Nat) (hl : leader b0 = some (4, lo, hi))
    (h1 : lo ≤ b1) (h2 : b1 ≤ hi) (h3 : isCont b2 = true) (h4 : isCont b3 = true) :
    decodeRune (b0 :: b1 :: b2 :: b3 :: rest) =
      ((((b0 % 8) * 262144 + (b1 % 64) * 4096 + (b2 % 64) * 64 + b3 % 64 : Nat) : Int), 4) := by
  simp only [decodeRune, hl]
  rw [if_pos ⟨h1, h2, h3, h4⟩]

theorem isCont_low (x : Nat) : isCont (0x80 + x % 64) = true := by
  simp [isCont]; omega

theorem dec3 (n : Nat) (rest : List Nat) (h1 : 0x800 ≤ n) (h2 : n < 0x10000) (h3 : ¬ (0xD800 ≤ n ∧ n ≤ 0xDFFF)) :
    decodeRune ((0xE0 + n / 4096) :: (0x80 + n / 64 % 64) :: (0x80 + n % 64) :: rest) = ((n : Int), 3) := by
  rw [decode3 _ _ _ _ _ rest (leader3 (0xE0 + n/4096) (by omega) (by omega)) (by split <;> omega)
    (by split <;> omega) (isCont_low _)]
  simp only [Prod.mk.injEq, and_true]; omega

theorem leader4 (b : Nat) (h1 : 0xF0 ≤ b) (h2 : b ≤ 0xF4) : 
   leader b = some (4, if b = 0xF0 then 0x90 else 0x80, if b = 0xF4 then 0x8F else 0xBF) := by
  unfold leader
  rw [if_neg (by omega), if_neg (by omega), if_neg (by omega), if_neg (by omega), if_neg (by omega), if_neg (by omega), if_neg (by omega)]
  repeat' split
  all_goals first | rfl | omega 

theorem dec4 (n : Nat) (rest : List Nat) (h1 : 0x10000 ≤ n) (h2 : n ≤ 0x10FFFF) :
    decodeRune ((0xF0 + n / 262144) :: (0x80 + n / 4096 % 64) :: (0x80 + n / 64 % 64) :: (0x80 + n % 64) :: rest) = ((n : Int), 4) := by
  rw [decode4 _ _ _ _ _ _ rest (leader4 (0xF0 + n/262144) (by omega) (by omega)) (by split <;> omega)
    (by split <;> omega) (isCont_low _) (isCont_low _)]
  simp only [Prod.mk.injEq, and_true]; omega

/-! ### `encodeRune` by size class -/

theorem validRune_iff (r : Int) :
    validRune r = true ↔ (0 ≤ r ∧ r < 0xD800) ∨ (0xDFFF < r ∧ r ≤ 0x10FFFF) := by
  simp only [validRune, maxRune, Bool.or_eq_true, Bool.and_eq_true, decide_eq_true_eq]
  constructor
  · rintro (h | ⟨h1, h2⟩)
    · exact Or.inl h
    · exact Or.inr ⟨h1, of_decide_eq_true h2⟩
  · rintro (h | ⟨h1, h2⟩)
    · exact Or.inl h
    · exact Or.inr ⟨h1, decide_eq_true h2⟩

theorem encodeRune_1 (n : Nat) (h : n < 0x80) : encodeRune (n : Int) = [n] := by
  unfold encodeRune
  rw [if_neg (by omega), if_pos (by omega)]; simp

theorem encodeRune_2 (n : Nat) (h1 : 0x80 ≤ n) (h2 : n < 0x800) :
    encodeRune (n : Int) = [0xC0 + n / 64, 0x80 + n % 64] := by
  unfold encodeRune
  rw [if_neg (by omega), if_neg (by omega), if_pos (by omega)]; simp

theorem encodeRune_3 (n : Nat) (h1 : 0x800 ≤ n) (h2 : n < 0x10000)
    (h3 : ¬ (0xD800 ≤ n ∧ n ≤ 0xDFFF)) :
    encodeRune (n : Int) = [0xE0 + n / 4096, 0x80 + n / 64 % 64, 0x80 + n % 64] := by
  unfold encodeRune
  rw [if_neg (by omega), if_neg (by omega), if_neg (by omega), if_neg, if_pos (by omega)]; simp
  simp [isSurrogate, maxRune]; omega

theorem encodeRune_4 (n : Nat) (h1 : 0x10000 ≤ n) (h2 : n ≤ 0x10FFFF) :
    encodeRune (n : Int) =
      [0xF0 + n / 262144, 0x80 + n / 4096 % 64, 0x80 + n / 64 % 64, 0x80 + n % 64] := by
  unfold encodeRune
  rw [if_neg (by omega), if_neg (by omega), if_neg (by omega), if_neg, if_neg (by omega)]; simp
  simp [isSurrogate, maxRune]; omega

theorem encodeRune_invalid (r : Int) (h : validRune r = false) :
    encodeRune r = [0xEF, 0xBF, 0xBD] := by
  have h' : ¬ ((0 ≤ r ∧ r < 0xD800) ∨ (0xDFFF < r ∧ r ≤ 0x10FFFF)) := by
    rw [← validRune_iff]; simp [h]
  unfold encodeRune
  by_cases h0 : r < 0
  · rw [if_pos h0]
  · rw [if_neg h0, if_neg (by omega), if_neg (by omega), if_pos]
    simp [isSurrogate, maxRune]; omega

/-- Size classes of a valid rune, as a case split usable by `rcases`. -/
theorem validRune_cases (r : Int) (h : validRune r = true) :
    ∃ n : Nat, r = n ∧
      ((n < 0x80 ∧ encodeRune r = [n]) ∨
       (0x80 ≤ n ∧ n < 0x800 ∧ encodeRune r = [0xC0 + n / 64, 0x80 + n % 64]) ∨
       (0x800 ≤ n ∧ n < 0x10000 ∧ ¬ (0xD800 ≤ n ∧ n ≤ 0xDFFF) ∧
          encodeRune r = [0xE0 + n / 4096, 0x80 + n / 64 % 64, 0x80 + n % 64]) ∨
       (0x10000 ≤ n ∧ n ≤ 0x10FFFF ∧ encodeRune r =
          [0xF0 + n / 262144, 0x80 + n / 4096 % 64, 0x80 + n / 64 % 64, 0x80 + n % 64])) := by
  rw [validRune_iff] at h
  obtain ⟨n, rfl⟩ : ∃ n : Nat, r = n := ⟨r.toNat, by omega⟩
  refine ⟨n, rfl, ?_⟩
  by_cases h1 : n < 0x80
  · exact Or.inl ⟨h1, encodeRune_1 n h1⟩
  by_cases h2 : n < 0x800
  · exact Or.inr (Or.inl ⟨by omega, h2, encodeRune_2 n (by omega) h2⟩)
  by_cases h3 : n < 0x10000
  · exact Or.inr (Or.inr (Or.inl ⟨by omega, h3, by omega, encodeRune_3 n (by omega) h3 (by omega)⟩))
  · exact Or.inr (Or.inr (Or.inr ⟨by omega, by omega, encodeRune_4 n (by omega) (by omega)⟩))

/-- `DecodeRune(EncodeRune(r) ++ rest) = (r, len)` for every valid rune. -/
theorem decodeRune_encodeRune (r : Int) (rest : List Nat) (h : validRune r = true) :
    decodeRune (encodeRune r ++ rest) = (r, (encodeRune r).length) := by
  obtain ⟨n, rfl, h1 | h2 | h3 | h4⟩ := validRune_cases r h
  · rw [h1.2]; simp only [List.cons_append, List.nil_append, decodeRune, leader1 n h1.1, List.length_cons, List.length_nil]
  · rw [h2.2.2]; exact dec2 n rest h2.1 h2.2.1
  · rw [h3.2.2.2]; exact dec3 n rest h3.1 h3.2.1 h3.2.2.1
  · rw [h4.2.2]; exact dec4 n rest h4.1 h4.2.1

theorem encodeRune_ne_nil (r : Int) : encodeRune r ≠ [] := by
  by_cases h : validRune r = true
  · obtain ⟨n, rfl, h1 | h2 | h3 | h4⟩ := validRune_cases _ h
    · rw [h1.2]; simp
    · rw [h2.2.2]; simp
    · rw [h3.2.2.2]; simp
    · rw [h4.2.2]; simp
  · rw [encodeRune_invalid r (by simpa using h)]; simp

theorem encodeRune_length_pos (r : Int) : 0 < (encodeRune r).length :=
  List.length_pos_iff.mpr (encodeRune_ne_nil r)

/-- The first byte of an encoded valid rune decides between the ASCII fast path and the
decoder, exactly as `if b < utf8.RuneSelf` does. -/
theorem encodeRune_head (r : Int) (h : validRune r = true) :
    ∃ b t, encodeRune r = b :: t ∧ (b < 0x80 → t = [] ∧ r = (b : Int) ) ∧ (¬ b < 0x80 → 0x80 ≤ r) := by
  obtain ⟨n, rfl, h1 | h2 | h3 | h4⟩ := validRune_cases r h
  · exact ⟨n, [], h1.2, fun _ => ⟨rfl, rfl⟩, fun hb => absurd h1.1 hb⟩
  · exact ⟨_, _, h2.2.2, fun hb => by omega, fun _ => by omega⟩
  · exact ⟨_, _, h3.2.2.2, fun hb => by omega, fun _ => by omega⟩
  · exact ⟨_, _, h4.2.2, fun hb => by omega, fun _ => by omega⟩

/-! ### The `for range` loop over an encoded rune list -/

/-- What `for i, v := range string(rs)` yields from byte offset `off` on. -/
def rangeSpec : Nat → List Int → List (Nat × Int × Nat)
  | _, [] => []
  | off, r :: rs => (off, r, (encodeRune r).length) :: rangeSpec (off + (encodeRune r).length) rs

theorem encode_cons (r : Int) (rs : List Int) : encode (r :: rs) = encodeRune r ++ encode rs := by
  simp [encode]

theorem encode_nil : encode [] = [] := rfl

theorem encode_append (a b : List Int) : encode (a ++ b) = encode a ++ encode b := by
  simp [encode]

theorem rangeDecode_go_step (fuel off : Nat) (r : Int) (rest : List Nat) (h : validRune r = true) :
    rangeDecode.go (fuel + 1) off (encodeRune r ++ rest) =
      (off, r, (encodeRune r).length) :: rangeDecode.go fuel (off + (encodeRune r).length) rest := by
  obtain ⟨b, t, hbt⟩ := List.exists_cons_of_ne_nil (encodeRune_ne_nil r)
  have hd := decodeRune_encodeRune r rest h
  have hp := encodeRune_length_pos r
  rw [hbt] at hd ⊢
  simp only [List.cons_append] at hd ⊢
  simp only [rangeDecode.go, hd]
  rw [if_neg (by rw [hbt] at hp; omega)]
  congr 2
  rw [← List.cons_append, List.drop_left]

theorem rangeDecode_go_encode (rs : List Int) (hv : ∀ r ∈ rs, validRune r = true) :
    ∀ (fuel off : Nat), (encode rs).length ≤ fuel → rangeDecode.go fuel off (encode rs) = rangeSpec off rs := by
  induction rs with
  | nil => intro fuel off _; cases fuel <;> simp [encode_nil, rangeDecode.go, rangeSpec]
  | cons r rs ih =>
    intro fuel off hf
    rw [encode_cons] at hf ⊢
    have hp := encodeRune_length_pos r
    rw [List.length_append] at hf
    obtain ⟨f, rfl⟩ : ∃ f, fuel = f + 1 := ⟨fuel - 1, by omega⟩
    rw [rangeDecode_go_step f off r _ (hv r (by simp)), rangeSpec,
      ih (fun x hx => hv x (by simp [hx])) f _ (by omega)]

theorem rangeDecode_encode (rs : List Int) (hv : ∀ r ∈ rs, validRune r = true) :
    rangeDecode (encode rs) = rangeSpec 0 rs :=
  rangeDecode_go_encode rs hv _ 0 (Nat.le_refl _)

theorem rangeSpec_runes (off : Nat) (rs : List Int) : (rangeSpec off rs).map (·.2.1) = rs := by
  induction rs generalizing off with
  | nil => rfl
  | cons r rs ih => simp [rangeSpec, ih]

theorem rangeSpec_length (off : Nat) (rs : List Int) : (rangeSpec off rs).length = rs.length := by
  induction rs generalizing off with
  | nil => rfl
  | cons r rs ih => simp [rangeSpec, ih]

/-- `[]rune(string(rs)) = rs` for valid runes. -/
theorem runes_encode (rs : List Int) (hv : ∀ r ∈ rs, validRune r = true) : runes (encode rs) = rs := by
  rw [runes, rangeDecode_encode rs hv, rangeSpec_runes]

/-- `utf8.RuneCountInString(string(rs)) = len(rs)`. -/
theorem runeCount_encode (rs : List Int) (hv : ∀ r ∈ rs, validRune r = true) :
    runeCount (encode rs) = rs.length := by
  rw [runeCount, rangeDecode_encode rs hv, rangeSpec_length]

end Golib.Utf8
