/-
C07: backslash-free input is returned unchanged by the functional parsers.
-/
import Golib.Proof.C07Cursor

namespace Golib.C07
open Golib

/-- On a suffix that does not start with a backslash an iteration stops or skips one byte. -/
def HeadLit (dec : Bytes → Dec) : Prop :=
  ∀ t : Bytes, t[0]? ≠ some 92 → dec t = .stop ∨ dec t = .skip 1

theorem parseFun_no_backslash {dec : Bytes → Dec} (hd : HeadLit dec) :
    ∀ s : Bytes, 92 ∉ s → parseFun dec s = s
  | [], _ => parseFun_nil dec
  | c :: rest, h => by
    have hc : c ≠ 92 := fun e => h (by simp [e])
    have hr : 92 ∉ rest := fun m => h (by simp [m])
    rw [parseFun]
    simp only [reduceCtorEq, dite_false]
    rcases hd (c :: rest) (by simpa using hc) with h1 | h1
    · rw [h1]
    · rw [h1]
      simp [parseFun_no_backslash hd rest hr]

theorem octal_headLit : HeadLit octalDec := by
  intro t h; unfold octalDec; split
  · exact Or.inl rfl
  · simp

theorem hex_headLit : HeadLit hexDec := by
  intro t h; unfold hexDec; split
  · exact Or.inl rfl
  · simp

theorem unicode_headLit : HeadLit unicodeDec := by
  intro t h; unfold unicodeDec; split
  · exact Or.inl rfl
  · simp

theorem utf16_headLit : HeadLit utf16DecF := by
  intro t h; unfold utf16DecF; split
  · exact Or.inl rfl
  · simp

end Golib.C07
