/-
C12 — the finite-map reading of the association list `KV` and the sequential
semantics of the SafeKV bodies (`seqCall`) in terms of it.
-/
import Golib.Model.C12KV

namespace Golib.C12

theorem KV.get_nil (k : Int) : KV.get [] k = none := rfl

theorem KV.get_cons (p : Int × Int) (m : KV) (k : Int) :
    KV.get (p :: m) k = if k = p.1 then some p.2 else KV.get m k := by
  obtain ⟨a, b⟩ := p
  simp only [KV.get, List.lookup_cons]
  by_cases h : k = a
  · simp [h]
  · have : (k == a) = false := by simpa using h
    simp [h, this]

theorem KV.get_append_single (m : KV) (k v k' : Int) :
    KV.get (m ++ [(k, v)]) k' = (KV.get m k').or (if k' = k then some v else none) := by
  induction m with
  | nil => simp [KV.get_cons, KV.get_nil]
  | cons p m ih =>
    simp only [List.cons_append, KV.get_cons, ih]
    by_cases h : k' = p.1 <;> simp [h]

theorem KV.get_replace (m : KV) (k v k' : Int) :
    KV.get (m.map (fun p => if p.1 == k then (k, v) else p)) k'
      = if k' = k then (KV.get m k).map (fun _ => v) else KV.get m k' := by
  induction m with
  | nil => simp [KV.get_nil]
  | cons p m ih =>
    simp only [List.map_cons, KV.get_cons, ih]
    by_cases hp : p.1 = k
    · by_cases hk : k' = k
      · simp [hp, hk]
      · have : k' ≠ p.1 := hp ▸ hk
        simp [hp, hk]
    · by_cases hk : k' = k
      · have : ¬ k = p.1 := fun h => hp h.symm
        simp [hp, hk, this]
      · simp [hp, hk]

/-- `m[k] = v` on the finite-map reading. -/
theorem KV.get_set (m : KV) (k v k' : Int) :
    (m.set k v).get k' = if k' = k then some v else m.get k' := by
  unfold KV.set
  by_cases h : (m.get k).isSome = true
  · simp only [h, if_true, KV.get_replace]
    by_cases hk : k' = k
    · obtain ⟨x, hx⟩ := Option.isSome_iff_exists.1 h
      simp [hk, hx]
    · simp [hk]
  · simp only [h, Bool.false_eq_true, if_false]
    rw [KV.get_append_single]
    by_cases hk : k' = k
    · have : m.get k = none := by simpa using h
      simp [hk, this]
    · simp [hk]

/-- `delete(m, k)` on the finite-map reading. -/
theorem KV.get_del (m : KV) (k k' : Int) :
    (m.del k).get k' = if k' = k then none else m.get k' := by
  induction m with
  | nil => simp [KV.del, KV.get_nil]
  | cons p m ih =>
    unfold KV.del at ih ⊢
    by_cases hp : p.1 = k
    · simp only [List.filter_cons, hp, bne_self_eq_false, Bool.false_eq_true, if_false, ih, KV.get_cons]
      by_cases hk : k' = k <;> simp [hk]
    · have : (p.1 != k) = true := by simpa using hp
      simp only [List.filter_cons, this, if_true, KV.get_cons, ih]
      by_cases hk : k' = k
      · have : ¬ k = p.1 := fun h => hp h.symm
        simp [hk, this]
      · simp [hk]

theorem KV.get_foldl_del (ks : List Int) (m : KV) (k' : Int) :
    (ks.foldl KV.del m).get k' = if k' ∈ ks then none else m.get k' := by
  induction ks generalizing m with
  | nil => simp
  | cons k ks ih =>
    simp only [List.foldl_cons, ih, KV.get_del, List.mem_cons]
    by_cases h1 : k' ∈ ks <;> by_cases h2 : k' = k <;> simp [h1, h2]

/-- `SetX` on an absent key changes nothing at all (not even the iteration order). -/
theorem seqCall_setX_absent (s : KV) (k v : Int) (h : s.get k = none) :
    seqCall (.setX k v) s = (s, { val := 0, ok := false }) := by
  simp [seqCall, body, runActs, Act.apply, aLock, aUnlock, rdLookup, rd, wr, Call.init, h]

theorem seqCall_setNx (s : KV) (k v : Int) :
    seqCall (.setNx k v) s =
      (if (s.get k).isSome then s else s.set k v,
       { val := (s.get k).getD 0, ok := (s.get k).isSome }) := by
  by_cases h : (s.get k).isSome = true <;>
    simp [seqCall, body, runActs, Act.apply, aLock, aUnlock, rdLookup, rd, wr, Call.init, h]

theorem mem_of_lookup {β : Type} {l : List (Nat × β)} {k : Nat} {v : β}
    (h : List.lookup k l = some v) : (k, v) ∈ l := by
  induction l with
  | nil => simp [List.lookup] at h
  | cons p l ih =>
    obtain ⟨a, b⟩ := p
    rw [List.lookup_cons] at h
    by_cases hk : k = a
    · subst hk
      simp at h
      simp [h]
    · have : (k == a) = false := by simpa using hk
      simp only [this] at h
      exact List.mem_cons_of_mem _ (ih h)

/-- Sequential history of `SetNx(k, ·)` calls once the key is present: nobody wins. -/
theorem seqExec_setNx_present (k : Int) (vals : Nat → Int) (o : List Nat) (s : KV)
    (h : (s.get k).isSome = true) :
    ∀ p ∈ (seqExec (fun t => body (.setNx k (vals t))) (fun _ => ({} : Loc)) o s).2, p.2.ok = true := by
  induction o generalizing s with
  | nil => intro p hp; simp [seqExec] at hp
  | cons t ts ih =>
    have e : runActs (body (.setNx k (vals t))) s ({} : Loc) = seqCall (.setNx k (vals t)) s := rfl
    intro p hp
    simp only [seqExec, e, seqCall_setNx, h, if_true, List.mem_cons] at hp
    rcases hp with rfl | hp
    · rfl
    · exact ih s h p hp

/-- … and on an absent key: the first call wins, all later ones lose. -/
theorem seqExec_setNx_absent (k : Int) (vals : Nat → Int) (t : Nat) (ts : List Nat) (s : KV)
    (h : s.get k = none) :
    ∃ r rest, (seqExec (fun t => body (.setNx k (vals t))) (fun _ => ({} : Loc)) (t :: ts) s).2
        = (t, r) :: rest ∧ r.ok = false ∧ ∀ p ∈ rest, p.2.ok = true := by
  have e : runActs (body (.setNx k (vals t))) s ({} : Loc) = seqCall (.setNx k (vals t)) s := rfl
  refine ⟨_, _, by simp only [seqExec, e, seqCall_setNx]; rfl, by simp [h], ?_⟩
  simp only [h, Option.isSome_none, Bool.false_eq_true, if_false]
  exact seqExec_setNx_present k vals ts _ (by simp [KV.get_set])

end Golib.C12
