/-
C14 helper lemmas, part 2: `Diff/Intersect/Unique/UniqueByKey/Filter` return the selection
defined on the ORIGINAL first slice, for every dst layout (nil, fresh, `s1[:k]`, `s2[:k]`).
-/
import Golib.Proof.C14Sel

namespace Golib.C14

theorem init_loc_in1 (d : Dst) (n1 n2 : Bool) :
    (Out.init d n1 n2).loc = .in1 ↔ (d = .alias1 ∧ n1 = false) := by
  cases d <;> cases n1 <;> cases n2 <;> simp [Out.init]

theorem init_loc_own (d : Dst) (n1 n2 : Bool) (h : d = .nil ∨ d = .fresh) :
    (Out.init d n1 n2).loc = .own := by
  rcases h with rfl | rfl <;> simp [Out.init]

theorem init_content (d : Dst) (n1 n2 : Bool) (M : Mem) : Out.content M (Out.init d n1 n2) = [] := by
  cases d <;> cases n1 <;> cases n2 <;> simp [Out.init, Out.content, Out.result]

theorem init_j (d : Dst) (n1 n2 : Bool) : (Out.init d n1 n2).j = 0 := by
  cases d <;> cases n1 <;> cases n2 <;> simp [Out.init]

/-- What every dst-style function guarantees. -/
structure DstOk (sel : List Int) (d : Dst) (n1 : Bool) (M : Mem) (r : DstRes) : Prop where
  result : r.res.xs = sel
  s1_kept : (d ≠ .alias1 ∨ n1 = true) → r.mem.m1 = M.m1
  s1_len : r.mem.m1.length = M.m1.length
  s2_kept : d ≠ .alias2 → r.mem.m2 = M.m2
  untouched : (d = .nil ∨ d = .fresh) → r.mem = M

/-- The generic loop started as the Go functions start it (`dst = dst[:0]`, read cursor 0). -/
theorem dstLoop_spec {σ : Type} (sel : σ → Int → σ × Bool) (st : σ) (d : Dst) (n1 n2 : Bool) (M : Mem) :
    ∃ r, finish (selLoop sel M.m1.length 0 st M (Out.init d n1 n2)) = some r ∧
      DstOk (selSpec sel st M.m1) d n1 M r := by
  by_cases hl : (Out.init d n1 n2).loc = .in1
  · obtain ⟨M', o', hs, hl', _, hlen, hm2, htake⟩ :=
      selLoop_in1 sel M.m1.length 0 st M _ hl (by rw [init_j]; omega) (by omega)
    refine ⟨⟨M', o'.result M'⟩, by simp [finish, hs], ?_⟩
    have hd := (init_loc_in1 d n1 n2).mp hl
    refine ⟨?_, ?_, hlen, fun _ => hm2, ?_⟩
    · simp only [Out.result, hl', htake, init_j]; simp
    · rintro (h | h)
      · exact absurd hd.1 h
      · rw [hd.2] at h; cases h
    · rintro (h | h) <;> rw [hd.1] at h <;> cases h
  · obtain ⟨M', o', hs, hm1, hc, hown⟩ := selLoop_not_in1 sel M.m1.length 0 st M _ hl (by omega)
    refine ⟨⟨M', o'.result M'⟩, by simp [finish, hs], ?_⟩
    refine ⟨?_, fun _ => hm1, by rw [hm1], ?_, ?_⟩
    · have : (o'.result M').xs = Out.content M' o' := rfl
      rw [this, hc, init_content]; simp
    · intro hd
      have : (Out.init d n1 n2).loc = .own := by
        cases d <;> cases n1 <;> cases n2 <;> simp_all [Out.init]
      rw [hown this]
    · intro hd
      exact hown (init_loc_own d n1 n2 hd)

theorem dstOk_early (d : Dst) (n1 n2 : Bool) (M : Mem) :
    DstOk [] d n1 M ⟨M, (Out.init d n1 n2).result M⟩ :=
  ⟨init_content d n1 n2 M, fun _ => rfl, rfl, fun _ => rfl, fun _ => rfl⟩

theorem filter_spec (p : Int → Bool) (d : Dst) (n1 : Bool) (M : Mem) :
    ∃ r, filter p d n1 M = some r ∧ DstOk (M.m1.filter p) d n1 M r := by
  have := dstLoop_spec (statelessSel p) () d n1 true M
  rwa [selSpec_stateless] at this

theorem diff_spec (d : Dst) (n1 n2 : Bool) (M : Mem) :
    ∃ r, diff d n1 n2 M = some r ∧ DstOk (M.m1.filter fun v => !M.m2.contains v) d n1 M r := by
  unfold diff
  by_cases h1 : M.m1.length = 0
  · have : M.m1 = [] := List.length_eq_zero_iff.mp h1
    simp only [this, List.filter_nil, List.length_nil, if_true]
    exact ⟨_, rfl, by simpa [this] using dstOk_early d n1 n2 M⟩
  · by_cases h2 : M.m2.length = 0
    · have h2' : M.m2 = [] := List.length_eq_zero_iff.mp h2
      simp only [h1, h2, if_false, if_true, pushAll]
      have := dstLoop_spec (σ := Unit) (fun _ _ => ((), true)) () d n1 n2 M
      rw [selSpec_all] at this
      have hf : (M.m1.filter fun _ => true) = M.m1 := List.filter_eq_self.mpr (by simp)
      simpa [h2', hf] using this
    · simp only [h1, h2, if_false]
      have := dstLoop_spec (statelessSel fun v => !M.m2.contains v) () d n1 n2 M
      rwa [selSpec_stateless] at this

theorem intersect_spec (d : Dst) (n1 n2 : Bool) (M : Mem) :
    ∃ r, intersect d n1 n2 M = some r ∧ DstOk (M.m1.filter fun v => M.m2.contains v) d n1 M r := by
  unfold intersect
  by_cases h : M.m1.length = 0 ∨ M.m2.length = 0
  · simp only [h, if_true]
    refine ⟨_, rfl, ?_⟩
    have : (M.m1.filter fun v => M.m2.contains v) = [] := by
      rcases h with h | h
      · simp [List.length_eq_zero_iff.mp h]
      · simp [List.length_eq_zero_iff.mp h]
    rw [this]; exact dstOk_early d n1 n2 M
  · simp only [h, if_false]
    have := dstLoop_spec (statelessSel fun v => M.m2.contains v) () d n1 n2 M
    rwa [selSpec_stateless] at this

theorem uniqueByKey_spec (key : Int → Int) (d : Dst) (n1 : Bool) (M : Mem) :
    ∃ r, uniqueByKey key d n1 M = some r ∧ DstOk (firstOcc key [] M.m1) d n1 M r := by
  unfold uniqueByKey
  by_cases h1 : M.m1.length = 0
  · have : M.m1 = [] := List.length_eq_zero_iff.mp h1
    simp only [this, firstOcc, List.length_nil, if_true]
    exact ⟨_, rfl, by simpa [this] using dstOk_early d n1 true M⟩
  · simp only [h1, if_false]
    have := dstLoop_spec (uniqueSel key) ([], 0) d n1 true M
    rwa [show (([] : List Int), 0) = (([] : List Int), ([] : List Int).length) from rfl,
      selSpec_unique] at this

end Golib.C14
