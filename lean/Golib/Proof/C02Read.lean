/-
C02 helper lemmas, part 8: the read operations and the enumerations.
-/
import Golib.Proof.C02RemoveInv

set_option linter.unusedSectionVars false
set_option linter.unusedSimpArgs false

namespace Golib.C02

variable {K V : Type} [DecidableEq K] {cmp : K → K → Int}

/-! ### the abstraction under the invariant -/

theorem Inv.valOf_some (h : Inv cmp s) {k : K} (hk : k ∈ chain0 s) : ∃ v, getVal s.vals k = some v :=
  Option.isSome_iff_exists.mp (getVal_isSome.mpr ((h.vals k).mpr hk))

theorem filterMap_valOf_keys (vals : List (K × V)) :
    ∀ (l : List K), (∀ k ∈ l, ∃ v, getVal vals k = some v) →
      (l.filterMap (valOf vals)).map Prod.fst = l := by
  intro l
  induction l with
  | nil => intro _; rfl
  | cons x xs ih =>
    intro h
    obtain ⟨v, hv⟩ := h x (by simp)
    have : valOf vals x = some (x, v) := by simp [valOf, hv]
    rw [List.filterMap_cons, this]
    simp only [List.map_cons]
    rw [ih (fun k hk => h k (by simp [hk]))]

theorem Inv.toMap_keys (h : Inv cmp s) : (toMap s).map Prod.fst = chain0 s :=
  filterMap_valOf_keys s.vals _ (fun _ hk => h.valOf_some hk)

/-- The abstraction is strictly ascending by key: it is a sorted map with unique keys. -/
theorem Inv.toMap_sorted {s : SL K V} (h : Inv cmp s) :
    (toMap s).Pairwise (fun (a b : K × V) => cmp a.1 b.1 < 0) := by
  have := h.sorted0
  rw [← h.toMap_keys] at this
  exact List.pairwise_map.mp this

theorem Inv.len_eq (h : Inv cmp s) : s.len = ((toMap s).length : Int) := by
  rw [h.len, ← h.toMap_keys, List.length_map]

theorem Inv.len_zero_iff (h : Inv cmp s) : (s.len == 0) = true ↔ chain0 s = [] := by
  rw [h.len]; simp [List.length_eq_zero_iff]

/-! ### GetNode / Get / Head / node.Next -/

theorem getNode_spec (cfg : Cfg K V) (hc : WeakCmp cfg.cmp) {s : SL K V} (h : Inv cfg.cmp s) (key : K) :
    s.getNode cfg key = some (findEq cfg.cmp key (chain0 s)) := by
  obtain ⟨ls, h1, h2, h3, _, _⟩ := h.search_prep hc key
  unfold SL.getNode
  simp only [h1]
  rw [findLoop_spec hc key ls none h2 (fun l _ c hcn => by cases hcn), h3]

theorem get_spec (cfg : Cfg K V) (hc : WeakCmp cfg.cmp) {s : SL K V} (h : Inv cfg.cmp s) (key : K) :
    s.get cfg key = some (match OMap.getW cfg.cmp (toMap s) key with
      | some v => (v, true)
      | none => (cfg.zeroV, false)) := by
  unfold SL.get
  rw [getNode_spec cfg hc h, h.getW_toMap]
  cases hf : findEq cfg.cmp key (chain0 s) with
  | none => rfl
  | some n =>
    obtain ⟨v, hv⟩ := h.valOf_some (findEq_some hf).1
    simp [hv]

theorem head_spec {s : SL K V} (h : Inv cmp s) : s.head = some ((toMap s).head?.map Prod.fst) := by
  obtain ⟨rest, hr⟩ := h.lv_cons
  have hk := h.toMap_keys
  unfold SL.head
  by_cases hz : (s.len == 0) = true
  · have := h.len_zero_iff.mp hz
    rw [this] at hk
    have : toMap s = [] := by simpa using hk
    simp [hz, this]
  · rw [if_neg hz, hr]
    simp only []
    rw [← hk]; cases toMap s <;> simp

theorem nodeNext_spec (hc : WeakCmp cmp) {s : SL K V} (h : Inv cmp s) {n : K} (hn : n ∈ chain0 s) :
    s.nodeNext n = some ((gt cmp n (chain0 s)).head?) := by
  obtain ⟨rest, hr⟩ := h.lv_cons
  unfold SL.nodeNext
  rw [hr]; simp only []
  rw [afterNode_spec hc h.sorted0 hn]; rfl

/-! ### Keys / Values -/

theorem keys_spec (cfg : Cfg K V) {s : SL K V} (h : Inv cfg.cmp s) :
    s.keys cfg = some ((toMap s).map Prod.fst) := by
  obtain ⟨rest, hr⟩ := h.lv_cons
  rw [h.toMap_keys]
  unfold SL.keys
  by_cases hz : (s.len == 0) = true
  · simp [hz, h.len_zero_iff.mp hz]
  · rw [if_neg hz, hr]
    simp only [fillSlice]
    rw [h.len]
    simp

theorem valuesOf_spec (vals : List (K × V)) :
    ∀ (l : List K), (∀ k ∈ l, ∃ v, getVal vals k = some v) →
      valuesOf vals l = some ((l.filterMap (valOf vals)).map Prod.snd) := by
  intro l
  induction l with
  | nil => intro _; rfl
  | cons x xs ih =>
    intro h
    obtain ⟨v, hv⟩ := h x (by simp)
    have : valOf vals x = some (x, v) := by simp [valOf, hv]
    unfold valuesOf
    rw [hv, ih (fun k hk => h k (by simp [hk])), List.filterMap_cons, this]
    rfl

theorem values_spec (cfg : Cfg K V) {s : SL K V} (h : Inv cfg.cmp s) :
    s.values cfg = some ((toMap s).map Prod.snd) := by
  obtain ⟨rest, hr⟩ := h.lv_cons
  unfold SL.values
  by_cases hz : (s.len == 0) = true
  · have := h.len_zero_iff.mp hz
    simp [hz, toMap_eq, this]
  · rw [if_neg hz, hr]
    simp only []
    rw [valuesOf_spec s.vals _ (fun _ hk => h.valOf_some hk)]
    simp only [fillSlice]
    rw [h.len_eq, toMap_eq]
    simp

/-! ### the enumeration loop -/

/-- What a sink that has seen `n` calls still accepts of `items`. -/
def cut {α : Type} (stop n : Nat) (items : List α) : List α :=
  if n < stop then items.take (stop - n) else items

/-- The bound `RangeWithRange` adds: stop at the first key `≥ end`. -/
def bounded (cmp : K → K → Int) (end_ : Option K) (items : List (K × V)) : List (K × V) :=
  match end_ with
  | none => items
  | some e => items.takeWhile (fun p => decide (cmp p.1 e < 0))

theorem rangeChain_spec (end_ : Option K) (vals : List (K × V)) :
    ∀ (ks : List K) (sk : Sink K V), (∀ k ∈ ks, ∃ v, getVal vals k = some v) → sk.n ≠ sk.stop ∨ sk.stop = 0 →
      ∃ sk', rangeChain cmp end_ vals ks sk = some sk' ∧
        sk'.out = sk.out ++ cut sk.stop sk.n (bounded cmp end_ (ks.filterMap (valOf vals))) := by
  intro ks
  induction ks with
  | nil =>
    intro sk _ _
    refine ⟨sk, rfl, ?_⟩
    cases end_ <;> simp [bounded, cut]
  | cons k rest ih =>
    intro sk hv hsk
    obtain ⟨v, hkv⟩ := hv k (by simp)
    have hvo : valOf vals k = some (k, v) := by simp [valOf, hkv]
    unfold rangeChain
    rw [hkv]; simp only []
    rw [List.filterMap_cons, hvo]; simp only []
    -- the bound
    have hcall : ∀ (cont : Bool), cont = true →
        ∃ sk', (match Sink.call sk k v with
          | (s', true) => rangeChain cmp end_ vals rest s'
          | (s', false) => some s') = some sk' ∧
          sk'.out = sk.out ++ cut sk.stop sk.n ((k, v) :: bounded cmp end_ (rest.filterMap (valOf vals))) := by
      intro _ _
      unfold Sink.call
      by_cases hstop : sk.n + 1 = sk.stop
      · have : (sk.n + 1 == sk.stop) = true := by simp [hstop]
        simp only [this, Bool.not_true]
        refine ⟨_, rfl, ?_⟩
        have h1 : sk.n < sk.stop := by omega
        have h2 : sk.stop - sk.n = 1 := by omega
        simp [Sink.out, cut, h1, h2]
      · have : (sk.n + 1 == sk.stop) = false := by simp [hstop]
        simp only [this, Bool.not_false]
        obtain ⟨sk', h1, h2⟩ := ih ⟨(k, v) :: sk.acc, sk.n + 1, sk.stop⟩ (fun x hx => hv x (by simp [hx]))
          (by simp only []; rcases hsk with h | h
              · left; omega
              · right; exact h)
        refine ⟨sk', h1, ?_⟩
        rw [h2]
        simp only [Sink.out, List.reverse_cons, List.append_assoc, List.singleton_append]
        congr 1
        unfold cut
        by_cases hlt : sk.n < sk.stop
        · have hlt' : sk.n + 1 < sk.stop := by omega
          have : sk.stop - sk.n = (sk.stop - (sk.n + 1)) + 1 := by omega
          simp [hlt, hlt', this]
        · have hlt' : ¬ sk.n + 1 < sk.stop := by omega
          simp [hlt, hlt']
    cases end_ with
    | none =>
      simp only [callBounded, bounded] at hcall ⊢
      exact hcall true rfl
    | some e =>
      simp only [callBounded, bounded]
      by_cases hge : cmp k e ≥ 0
      · have hnl : ¬ cmp k e < 0 := by omega
        simp only [hge, if_true]
        refine ⟨sk, rfl, ?_⟩
        simp [List.takeWhile_cons, hnl, cut]
      · have hl : cmp k e < 0 := by omega
        simp only [hge, if_false]
        rw [List.takeWhile_cons]
        simp only [hl, decide_true, if_true]
        simp only [bounded] at hcall
        exact hcall true rfl

theorem cut_new {α : Type} (stop : Nat) (items : List α) : cut stop 0 items = stopAfter stop items := by
  unfold cut stopAfter
  by_cases h : stop = 0
  · simp [h]
  · have : 0 < stop := by omega
    simp [h, this]

theorem range_spec (cfg : Cfg K V) {s : SL K V} (h : Inv cfg.cmp s) (stop : Nat) :
    s.range cfg stop = some (stopAfter stop (toMap s)) := by
  obtain ⟨rest, hr⟩ := h.lv_cons
  unfold SL.range
  by_cases hz : (s.len == 0) = true
  · have := h.len_zero_iff.mp hz
    simp [hz, toMap_eq, this, stopAfter]
  · rw [if_neg hz, hr]
    simp only []
    obtain ⟨sk', h1, h2⟩ := rangeChain_spec (cmp := cfg.cmp) none s.vals (chain0 s) (Sink.new stop)
      (fun _ hk => h.valOf_some hk) (by simp [Sink.new]; omega)
    rw [h1]
    show some sk'.out = _
    rw [h2]
    simp only [Sink.new, Sink.out, List.reverse_nil, List.nil_append, bounded, cut_new]
    rfl

theorem omap_from_toMap (s : SL K V) (start : K) :
    OMap.from cmp (toMap s) start = (ge cmp start (chain0 s)).filterMap (valOf s.vals) := by
  unfold OMap.from ge
  rw [toMap_eq, filter_filterMap_key (valOf_keyPres _) (fun x => !decide (cmp x start < 0))]

/-- `RangeWithStart` (`end_ = none`) / `RangeWithRange` on an initialised list. -/
theorem rangeFrom_spec (cfg : Cfg K V) (hc : WeakCmp cfg.cmp) {s : SL K V} (h : Inv cfg.cmp s)
    (start : K) (end_ : Option K) (stop : Nat) :
    s.rangeFrom cfg start end_ stop =
      some (stopAfter stop (bounded cfg.cmp end_ (OMap.from cfg.cmp (toMap s) start))) := by
  obtain ⟨rest, hr⟩ := h.lv_cons
  obtain ⟨ls, h1, h2, h3, _, h5⟩ := h.search_prep hc start
  have hs0 := h.sorted0
  rw [omap_from_toMap]
  unfold SL.rangeFrom
  by_cases hz : (s.len == 0) = true
  · have := h.len_zero_iff.mp hz
    by_cases hf : (cfg.fixed && cfg.lazy) = true
    · simp only [hf, hz, Bool.and_self, if_true, this]
      cases end_ <;> simp [ge, bounded, stopAfter]
    · -- no guard (`SkipListWithCmp`, or the unrepaired code): the loops give the same (empty) answer
      have hf' : (cfg.fixed && cfg.lazy) = false := by simpa using hf
      simp only [hf', Bool.false_and, Bool.false_eq_true, if_false, h1]
      rw [startLoop_spec hc start ls none h2 (fun l _ c hcn => by cases hcn), h3, this]
      have hfn : findEq cfg.cmp start [] = none := rfl
      simp only [hfn, h5]
      rw [hr, this]
      simp [pred, lo, lastOr, after, rangeChain, Sink.new, Sink.out, ge]
      cases end_ <;> simp [bounded, stopAfter]
  · have hz' : ¬ ((cfg.fixed && cfg.lazy && (s.len == 0)) = true) := by simp [hz]
    rw [if_neg hz']
    simp only [h1]
    rw [startLoop_spec hc start ls none h2 (fun l _ c hcn => by cases hcn), h3]
    have hvals : ∀ k ∈ ge cfg.cmp start (chain0 s), ∃ v, getVal s.vals k = some v :=
      fun k hk => h.valOf_some (mem_ge.mp hk).1
    obtain ⟨sk', hk1, hk2⟩ := rangeChain_spec (cmp := cfg.cmp) end_ s.vals (ge cfg.cmp start (chain0 s))
      (Sink.new stop) hvals (by simp [Sink.new]; omega)
    have hout : sk'.out = stopAfter stop
        (bounded cfg.cmp end_ ((ge cfg.cmp start (chain0 s)).filterMap (valOf s.vals))) := by
      rw [hk2]; simp [Sink.new, Sink.out, cut_new]
    cases hf : findEq cfg.cmp start (chain0 s) with
    | some n =>
      obtain ⟨hk, hnk⟩ := findEq_some hf
      simp only []
      rw [hr]; simp only []
      rw [ge_of_equiv hc hs0 hk hnk] at hk1
      unfold rangeChain at hk1
      obtain ⟨v, hv⟩ := h.valOf_some hk
      rw [hv] at hk1 ⊢
      simp only [] at hk1 ⊢
      rw [afterNode_spec hc hs0 hk, ← gt_congr hc hnk]
      cases hcb : callBounded cfg.cmp end_ (Sink.new stop) n v with
      | mk sk go =>
        rw [hcb] at hk1
        cases go with
        | true => simp only [] at hk1 ⊢; rw [hk1, ← hout]; rfl
        | false => simp only [] at hk1 ⊢; cases hk1; rw [← hout]
    | none =>
      simp only [h5]
      rw [hr]; simp only []
      rw [(upto_after_pred hc start hs0).2]
      simp only []
      rw [hk1, ← hout]; rfl

/-- On a sorted map, stopping at the first key `≥ end` yields exactly the keys in `[start, end)`. -/
theorem takeWhile_eq_filter (hc : WeakCmp cmp) (e : K) :
    ∀ (m : List (K × V)), m.Pairwise (fun a b => cmp a.1 b.1 < 0) →
      m.takeWhile (fun p => decide (cmp p.1 e < 0)) = m.filter (fun p => decide (cmp p.1 e < 0)) := by
  intro m
  induction m with
  | nil => intro _; rfl
  | cons x xs ih =>
    intro hs
    by_cases hx : cmp x.1 e < 0
    · simp [List.takeWhile_cons, List.filter_cons, hx, ih (List.pairwise_cons.mp hs).2]
    · simp only [List.takeWhile_cons, List.filter_cons, hx, decide_false, Bool.false_eq_true, if_false]
      symm; rw [List.filter_eq_nil_iff]
      intro y hy
      have := (List.pairwise_cons.mp hs).1 y hy
      simp only [decide_eq_true_eq]
      intro hlt; exact hx (hc.trans _ _ _ this hlt)

theorem bounded_from_eq_between (hc : WeakCmp cmp) {s : SL K V} (h : Inv cmp s) (start e : K) :
    bounded cmp (some e) (OMap.from cmp (toMap s) start) = OMap.between cmp (toMap s) start e := by
  unfold bounded OMap.from OMap.between
  simp only []
  rw [takeWhile_eq_filter hc e _ (h.toMap_sorted.sublist List.filter_sublist), List.filter_filter]
  apply List.filter_congr; intro p _; rw [Bool.and_comm]

end Golib.C02
