/-
C17: SnakeToCamelCase / CamelCaseToSnake on ARBITRARY byte strings equal the byte-level
specifications `snakeB` / `camelB` (Model/C17Large.lean).  Generalises `snakeLoop_spec` /
`camelLoop_spec` (ASCII only) of C17Case.lean: the non-ASCII branch advances by the decoded
size and leaves the bytes in the pending run.
-/
import Golib.Proof.C17Case
import Golib.Model.C17Large

namespace Golib.C17
open Golib.Utf8

theorem finish_pre (str pre buf : List Nat) (start : Nat) (hs : str = pre) (hst : start ≤ pre.length)
    (hb : buf = [] → start = 0) : finish str buf start = some (buf ++ pre.drop start) := by
  subst hs
  unfold finish
  by_cases hbe : buf = []
  · subst hbe; rw [hb rfl]; simp
  · rw [if_neg (by simpa using hbe)]
    split
    · rw [sliceFrom_le _ _ hst]; simp
    · have : str.drop start = [] := List.drop_eq_nil_of_le (by omega)
      simp [this]

theorem camelLoop_specB (str : List Nat) :
    ∀ (n : Nat) (rest pre : List Nat) (fuel start : Nat) (buf : List Nat),
      str = pre ++ rest → start ≤ pre.length → (buf = [] → start = 0) →
      rest.length < fuel → rest.length ≤ n →
      camelLoop str fuel pre.length start buf
        = some (buf ++ pre.drop start ++ camelB n rest (decide (0 < pre.length))) := by
  intro n
  induction n with
  | zero =>
    intro rest pre fuel start buf hs hst hb hf hn
    have : rest = [] := List.eq_nil_of_length_eq_zero (by omega)
    subst this
    obtain ⟨f, rfl⟩ : ∃ f, fuel = f + 1 := ⟨fuel - 1, by omega⟩
    simp only [List.append_nil] at hs
    rw [camelLoop, if_neg (by rw [hs]; omega), finish_pre str pre buf start hs hst hb]
    simp [camelB]
  | succ n ih =>
    intro rest pre fuel start buf hs hst hb hf hn
    obtain ⟨f, rfl⟩ : ∃ f, fuel = f + 1 := ⟨fuel - 1, by omega⟩
    cases rest with
    | nil =>
      simp only [List.append_nil] at hs
      rw [camelLoop, if_neg (by rw [hs]; omega), finish_pre str pre buf start hs hst hb]
      simp [camelB]
    | cons b t =>
      have hlt : pre.length < str.length := by rw [hs]; simp
      have hget : str[pre.length]? = some b := by rw [hs]; simp
      have hs' : str = (pre ++ [b]) ++ t := by rw [hs]; simp
      have hl' : (pre ++ [b]).length = pre.length + 1 := by simp
      have hfl : flush str buf start pre.length = some (buf ++ pre.drop start) := by
        rw [hs]; exact flush_prefix pre (b :: t) buf start hst
      have hdrop : (pre ++ [b]).drop start = pre.drop start ++ [b] := by
        rw [List.drop_append_of_le_length hst]
      simp only [List.length_cons] at hf hn
      rw [camelLoop, if_pos hlt, hget]
      simp only []
      by_cases hb80 : b < 0x80
      · rw [if_pos hb80]
        by_cases hup : 65 ≤ b ∧ b ≤ 90
        · rw [if_pos hup, hfl]
          simp only []
          rw [← hl', ih t (pre ++ [b]) f _ _ hs' (Nat.le_refl _) (by simp) (by omega) (by omega)]
          by_cases hp : 0 < pre.length
          · simp [camelB, hb80, hup, hp, List.append_assoc]
          · simp [camelB, hb80, hup, hp, List.append_assoc]
        · rw [if_neg hup, ← hl', ih t (pre ++ [b]) f start buf hs' (by omega) hb (by omega) (by omega)]
          simp [camelB, hb80, hup, hdrop, List.append_assoc]
      · rw [if_neg hb80, sliceFrom_le _ _ (Nat.le_of_lt hlt)]
        simp only []
        have hdr : str.drop pre.length = b :: t := by rw [hs]; simp
        rw [hdr]
        obtain ⟨h1, h2⟩ := decodeRune_size b t
        generalize hsz : (decodeRune (b :: t)).2 = sz at h1 h2
        have hs2 : str = (pre ++ (b :: t).take sz) ++ (b :: t).drop sz := by
          rw [hs, List.append_assoc, List.take_append_drop]
        have hl2 : (pre ++ (b :: t).take sz).length = pre.length + sz := by
          simp only [List.length_append, List.length_take, List.length_cons]; omega
        have hdl : ((b :: t).drop sz).length = t.length + 1 - sz := by simp
        rw [← hl2, ih ((b :: t).drop sz) (pre ++ (b :: t).take sz) f start buf hs2 (by omega) hb
          (by omega) (by omega)]
        have hd2 : (pre ++ (b :: t).take sz).drop start = pre.drop start ++ (b :: t).take sz := by
          rw [List.drop_append_of_le_length hst]
        have hpos : decide (0 < (pre ++ (b :: t).take sz).length) = true := by
          rw [hl2]; simp; omega
        rw [hd2, hpos]
        simp only [camelB, hb80, if_false, hsz, List.append_assoc]

theorem camelToSnake_bytes (x : List Nat) : camelToSnake x = some (camelB x.length x false) := by
  unfold camelToSnake
  have := camelLoop_specB x x.length x [] (x.length + 1) 0 [] (by simp) (by simp) (fun _ => rfl)
    (by omega) (Nat.le_refl _)
  simpa using this

theorem snakeLoop_specB (str : List Nat) :
    ∀ (n : Nat) (rest pre : List Nat) (fuel start : Nat) (fu : Bool) (buf : List Nat),
      str = pre ++ rest → start ≤ pre.length → (buf = [] → start = 0) →
      rest.length < fuel → rest.length ≤ n →
      snakeLoop str fuel pre.length start fu buf
        = some (buf ++ pre.drop start ++ snakeB n rest fu (decide (0 < pre.length))) := by
  intro n
  induction n with
  | zero =>
    intro rest pre fuel start fu buf hs hst hb hf hn
    have : rest = [] := List.eq_nil_of_length_eq_zero (by omega)
    subst this
    obtain ⟨f, rfl⟩ : ∃ f, fuel = f + 1 := ⟨fuel - 1, by omega⟩
    simp only [List.append_nil] at hs
    rw [snakeLoop, if_neg (by rw [hs]; omega), finish_pre str pre buf start hs hst hb]
    simp [snakeB]
  | succ n ih =>
    intro rest pre fuel start fu buf hs hst hb hf hn
    obtain ⟨f, rfl⟩ : ∃ f, fuel = f + 1 := ⟨fuel - 1, by omega⟩
    cases rest with
    | nil =>
      simp only [List.append_nil] at hs
      rw [snakeLoop, if_neg (by rw [hs]; omega), finish_pre str pre buf start hs hst hb]
      simp [snakeB]
    | cons b t =>
      have hlt : pre.length < str.length := by rw [hs]; simp
      have hget : str[pre.length]? = some b := by rw [hs]; simp
      have hs' : str = (pre ++ [b]) ++ t := by rw [hs]; simp
      have hl' : (pre ++ [b]).length = pre.length + 1 := by simp
      have hfl : flush str buf start pre.length = some (buf ++ pre.drop start) := by
        rw [hs]; exact flush_prefix pre (b :: t) buf start hst
      have hdrop : (pre ++ [b]).drop start = pre.drop start ++ [b] := by
        rw [List.drop_append_of_le_length hst]
      simp only [List.length_cons] at hf hn
      rw [snakeLoop, if_pos hlt, hget]
      simp only []
      by_cases hb80 : b < 0x80
      · rw [if_pos hb80]
        cases fu with
        | true =>
          simp only [if_true]
          by_cases hlow : 97 ≤ b ∧ b ≤ 122
          · rw [if_pos hlow, hfl]
            simp only []
            rw [← hl', ih t (pre ++ [b]) f _ false _ hs' (Nat.le_refl _) (by simp) (by omega) (by omega)]
            simp [snakeB, hb80, hlow, List.append_assoc]
          · rw [if_neg hlow, ← hl', ih t (pre ++ [b]) f start false buf hs' (by omega) hb (by omega) (by omega)]
            simp [snakeB, hb80, hlow, hdrop, List.append_assoc]
        | false =>
          simp only [Bool.false_eq_true, if_false]
          by_cases hund : 0 < pre.length ∧ b = 95
          · rw [if_pos hund, hfl]
            simp only []
            have hne : buf ++ pre.drop start ≠ [] := by
              intro h
              have h1 := (List.append_eq_nil_iff.mp h)
              have := hb h1.1
              subst this
              have : pre = [] := by simpa using h1.2
              rw [this] at hund; simp at hund
            rw [← hl', ih t (pre ++ [b]) f _ true _ hs' (Nat.le_refl _) (fun h => absurd h hne) (by omega) (by omega)]
            simp [snakeB, hund, List.append_assoc]
          · rw [if_neg hund, ← hl', ih t (pre ++ [b]) f start false buf hs' (by omega) hb (by omega) (by omega)]
            have : ¬ (decide (0 < pre.length) = true ∧ b = 95) := by simpa using hund
            simp [snakeB, hb80, hdrop, List.append_assoc]
            intro h1 h2; exact absurd ⟨h1, h2⟩ hund
      · rw [if_neg hb80, sliceFrom_le _ _ (Nat.le_of_lt hlt)]
        simp only []
        have hdr : str.drop pre.length = b :: t := by rw [hs]; simp
        rw [hdr]
        obtain ⟨h1, h2⟩ := decodeRune_size b t
        generalize hsz : (decodeRune (b :: t)).2 = sz at h1 h2
        have hs2 : str = (pre ++ (b :: t).take sz) ++ (b :: t).drop sz := by
          rw [hs, List.append_assoc, List.take_append_drop]
        have hl2 : (pre ++ (b :: t).take sz).length = pre.length + sz := by
          simp only [List.length_append, List.length_take, List.length_cons]; omega
        have hdl : ((b :: t).drop sz).length = t.length + 1 - sz := by simp
        rw [← hl2, ih ((b :: t).drop sz) (pre ++ (b :: t).take sz) f start false buf hs2 (by omega) hb
          (by omega) (by omega)]
        have hd2 : (pre ++ (b :: t).take sz).drop start = pre.drop start ++ (b :: t).take sz := by
          rw [List.drop_append_of_le_length hst]
        have hpos : decide (0 < (pre ++ (b :: t).take sz).length) = true := by
          rw [hl2]; simp; omega
        rw [hd2, hpos]
        simp only [snakeB, hb80, if_false, hsz, List.append_assoc]

theorem snakeToCamel_bytes (x : List Nat) (fu : Bool) :
    snakeToCamel x fu = some (snakeB x.length x fu false) := by
  unfold snakeToCamel
  have := snakeLoop_specB x x.length x [] (x.length + 1) 0 fu [] (by simp) (by simp) (fun _ => rfl)
    (by omega) (Nat.le_refl _)
  simpa using this

end Golib.C17
