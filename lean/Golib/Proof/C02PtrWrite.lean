/-
C02 pointer model, part 4: the writing methods (`set` in its three modes, `node.SetValue`,
`Remove`, `Clear`) of the pointer model refine those of the levels-as-lists model.
-/
import Golib.Proof.C02PtrHeights

set_option linter.unusedSectionVars false
set_option linter.unusedSimpArgs false
set_option linter.unusedVariables false

namespace Golib.C02

variable {K V : Type} [DecidableEq K]

/-- A chain only reads the heap. -/
theorem ChainK.congr_nodes {p p' : PSL K V} {f : K → Nat} {i : Nat} {st : Option Nat} {ks : List K}
    (h : ChainK p f i st ks) (e : p'.nodes = p.nodes) : ChainK p' f i st ks :=
  h.mono (fun _ _ => rfl) (fun k _ nd hn => ⟨nd, by rw [e]; exact hn, rfl, rfl⟩)

/-! ### `node.val = val` -/

theorem node_setVal {p : PSL K V} {a : Nat} {nd : PNode K V} (hn : p.nodes[a]? = some nd) (v : V)
    {b : Nat} {nd0 : PNode K V} (hb : p.nodes[b]? = some nd0) :
    ∃ nd', (p.nodes.setIfInBounds a { nd with val := v })[b]? = some nd' ∧ nd'.key = nd0.key ∧
      nd'.next = nd0.next ∧ nd'.val = if b = a then v else nd0.val := by
  have ha := (Array.getElem?_eq_some_iff.mp hn).1
  rw [Array.getElem?_setIfInBounds]
  by_cases e : a = b
  · subst e
    rw [hn] at hb; cases hb
    exact ⟨{ nd with val := v }, by simp [ha], rfl, rfl, by simp⟩
  · rw [if_neg e]
    exact ⟨nd0, hb, rfl, rfl, by simp [Ne.symm e]⟩

/-- Writing a node's value: the abstraction follows `setVal`. -/
theorem absF_setVal {f : K → Nat} {p : PSL K V} {s : SL K V} (ha : AbsF f p s) {n : K}
    (hn : n ∈ chain0 s) {rest : List (List K)} (hr : s.lv = chain0 s :: rest)
    {nd : PNode K V} (hnd : p.nodes[f n]? = some nd) (v : V) :
    AbsF f { p with nodes := p.nodes.setIfInBounds (f n) { nd with val := v } }
      { s with vals := setVal s.vals n v } := by
  refine ⟨ha.level, ha.len, ha.rand, ha.headNone, ha.headSize, ?_, ?_⟩
  · intro i l hl
    obtain ⟨st, h1, h2⟩ := ha.chains i l hl
    refine ⟨st, h1, h2.mono (fun _ _ => rfl) ?_⟩
    intro k _ nd0 hk
    obtain ⟨nd', a1, a2, a3, _⟩ := node_setVal hnd v hk
    exact ⟨nd', a1, a2, by rw [a3]⟩
  · intro k hk nd' hk'
    have hk0 : k ∈ chain0 s := hk
    obtain ⟨st, c1, c2⟩ := ha.chainZero hr
    obtain ⟨ndk, _, k1, _, _⟩ := c2.node k hk0
    obtain ⟨nd'', a1, _, _, a4⟩ := node_setVal hnd v k1
    have e : nd' = nd'' := by
      have := hk'.symm.trans a1; exact Option.some.inj this
    subst e
    show getVal (setVal s.vals n v) k = some nd'.val
    rw [getVal_setVal, a4]
    by_cases hkn : k = n
    · subst hkn; simp
    · have : f k ≠ f n := fun e => hkn (c2.inj c2 hk0 hn e)
      simp only [hkn, this, if_false]
      exact ha.vals k hk0 ndk k1

/-- Writing a node's value changes no tower. -/
theorem hts_setVal {f : K → Nat} {p : PSL K V} {s : SL K V} (hh : Hts f p s) {n : K}
    {nd : PNode K V} (hnd : p.nodes[f n]? = some nd) (v : V) :
    Hts f { p with nodes := p.nodes.setIfInBounds (f n) { nd with val := v } }
      { s with vals := setVal s.vals n v } := by
  intro k hk nd' hk'
  have hk0 : k ∈ chain0 s := hk
  have hlt : f k < p.nodes.size := by
    have := (Array.getElem?_eq_some_iff.mp hk').1
    simpa using this
  have hk1 : p.nodes[f k]? = some p.nodes[f k] := Array.getElem?_eq_getElem hlt
  obtain ⟨nd'', a1, _, a3, _⟩ := node_setVal hnd v hk1
  have e : nd' = nd'' := Option.some.inj (hk'.symm.trans a1)
  subst e
  rw [a3]
  exact hh k hk0 _ hk1

/-! ### `Init()` -/

theorem absF_doInit (f : K → Nat) (p : PSL K V) : AbsF f p.doInit (SL.init : SL K V) := by
  refine ⟨rfl, rfl, rfl, by simp [PSL.doInit, SL.init, maxLevel], ?_, ?_, ?_⟩
  · intro h hh; simp only [PSL.doInit, Option.some.injEq] at hh; subst hh; simp [SL.init]
  · intro i l hl
    simp only [SL.init] at hl
    have hi : i < maxLevel := by
      rcases Nat.lt_or_ge i maxLevel with h | hge
      · exact h
      · rw [List.getElem?_eq_none (by simp; omega)] at hl; cases hl
    have : l = [] := by
      rw [List.getElem?_replicate] at hl; simp [hi] at hl; exact hl
    subst this
    exact ⟨none, by simp [PSL.nextOf, PSL.doInit, hi], trivial⟩
  · intro k hk; simp [chain0, SL.init, maxLevel] at hk

/-! ### `set` on an initialised list -/

theorem AbsF.head_ne_none {f : K → Nat} {p : PSL K V} {s : SL K V} (ha : AbsF f p s) {cmp : K → K → Int}
    (hi : Inv cmp s) : p.head.isNone = false := by
  obtain ⟨rest, hr⟩ := hi.lv_cons
  cases hh : p.head with
  | none => have := ha.headNone.mp hh; rw [hr] at this; cases this
  | some _ => rfl

theorem ptr_lazy_noop {f : K → Nat} {p : PSL K V} {s : SL K V} (ha : AbsF f p s) {cmp : K → K → Int}
    (hi : Inv cmp s) (b : Bool) : (if (b && p.head.isNone) = true then p.doInit else p) = p := by
  simp [ha.head_ne_none hi]

/-- The search of `set`/`Remove` under the invariant, on both sides. -/
theorem AbsF.setLoop_inv {f : K → Nat} {p : PSL K V} {s : SL K V} (ha : AbsF f p s) {cmp : K → K → Int}
    (hc : WeakCmp cmp) (hi : Inv cmp s) (key : K) :
    match findEq cmp key (chain0 s) with
    | some n => p.setLoop cmp key p.level none (Array.replicate maxLevel none) = some (.inl (f n))
    | none => ∃ updP, p.setLoop cmp key p.level none (Array.replicate maxLevel none) = some (.inr updP) ∧
        UpdRel f 0 ((s.lv.take s.level).map (pred cmp key)) updP := by
  obtain ⟨ls, l1, l2, l3, l4, _⟩ := hi.search_prep hc key
  obtain ⟨hle, hls⟩ := levelsDown_some l1
  have hsl := setLoop_spec hc key ls none [] l2 (fun l _ c hcn => by cases hcn)
  rw [l3, l4, List.append_nil, hls] at hsl
  have hlvl : s.level ≤ maxLevel := hi.lvl.2
  have hsim := ha.setLoop_sim (hi.lv_nodup hc) cmp key s.level hle none []
    (Array.replicate maxLevel none)
  rw [ha.level]
  cases hf : findEq cmp key (chain0 s) with
  | some n =>
    rw [hf] at hsl
    exact hsim (.inl n) (UpdRel.nil f hlvl) hsl
  | none =>
    rw [hf] at hsl
    exact hsim (.inr _) (UpdRel.nil f hlvl) hsl

/-- The insertion block of `set` (after the search found no equivalent key, `mode ≠ 1`, a random
source exists): grow by at most one level, allocate the node, link it. -/
def PSL.insertAt (p : PSL K V) (key : K) (val : V) (upd : Array (Option Ptr)) (h : Nat) :
    Option (PSL K V × Bool) :=
  let grow := h > p.level
  if grow && p.level ≥ upd.size then none
  else
    let level := if grow then p.level + 1 else h
    let upd := if grow then upd.setIfInBounds p.level (some none) else upd
    let p := if grow then { p with level := level } else p
    let id := p.nodes.size
    let p := { p with nodes := p.nodes.push ⟨key, val, Array.replicate level none⟩ }
    match PSL.linkLoop id upd level 0 p with
    | none => none
    | some p' => some ({ p' with len := p'.len + 1 }, true)

/-- `update` extended by `&s.head` at the new top level. -/
theorem UpdRel.grow {f : K → Nat} {upd : List (Option K)} {updP : Array (Option Ptr)}
    (h : UpdRel f 0 upd updP) (hlen : upd.length < maxLevel) :
    UpdRel f 0 (upd ++ [none]) (updP.setIfInBounds upd.length (some none)) := by
  obtain ⟨h1, h2, h3⟩ := h
  refine ⟨by simpa using h1, by simp; omega, ?_⟩
  intro j u hj
  simp only [Nat.zero_add]
  rw [Array.getElem?_setIfInBounds]
  by_cases hjl : j < upd.length
  · rw [List.getElem?_append_left hjl] at hj
    rw [if_neg (by omega)]
    simpa using h3 j u hj
  · have hje : j = upd.length := by
      rcases Nat.lt_or_ge upd.length j with h | h
      · rw [List.getElem?_eq_none (by simp; omega)] at hj; cases hj
      · omega
    subst hje
    rw [List.getElem?_append_right (Nat.le_refl _)] at hj
    simp only [Nat.sub_self, List.getElem?_cons_zero, Option.some.injEq] at hj
    subst hj
    simp [h1]; omega

/-- Changing the key-to-node map off the cursors keeps `UpdRel`. -/
theorem UpdRel.congr {f f' : K → Nat} {n : Nat} {upd : List (Option K)} {updP : Array (Option Ptr)}
    (h : UpdRel f n upd updP) (hf : ∀ u ∈ upd, u.map f' = u.map f) : UpdRel f' n upd updP := by
  obtain ⟨h1, h2, h3⟩ := h
  refine ⟨h1, h2, ?_⟩
  intro j u hj
  rw [hf u (List.mem_of_getElem? hj)]
  exact h3 j u hj

theorem insert_ptr (cfg : Cfg K V) (hc : WeakCmp cfg.cmp) {f : K → Nat} {p : PSL K V} {s : SL K V}
    (ha : AbsF f p s) (hi : Inv cfg.cmp s) {key : K} (hkw : ∀ y ∈ chain0 s, cfg.cmp y key ≠ 0) (val : V)
    {ht : Nat} (h1 : 1 ≤ ht) (h2 : ht ≤ maxLevel) {updP : Array (Option Ptr)}
    (hu : UpdRel f 0 ((s.lv.take s.level).map (pred cfg.cmp key)) updP) :
    ∃ p', p.insertAt key val updP ht = some (p', true) ∧
      AbsF (fun k => if k = key then p.nodes.size else f k) p' (inserted cfg.cmp s key val ht) ∧
      (Hts f p s → Hts (fun k => if k = key then p.nodes.size else f k) p' (inserted cfg.cmp s key val ht)) := by
  obtain ⟨rest, hr⟩ := hi.lv_cons
  have hlen := hi.len32
  have hlvl := hi.lvl
  have hnd := hi.lv_nodup hc
  have hknot : ∀ l ∈ s.lv, key ∉ l := fun l hl hm =>
    hkw key ((hi.sub0 l hl).subset hm) (hc.refl key)
  obtain ⟨hd, hh⟩ : ∃ hd, p.head = some hd := by
    cases hh : p.head with
    | none => have := ha.headNone.mp hh; rw [hr] at this; cases this
    | some hd => exact ⟨hd, rfl⟩
  -- the two `update`s
  let H := newHeight s ht
  let upd0 := (s.lv.take s.level).map (pred cfg.cmp key)
  have hl0 : upd0.length = s.level := by simp [upd0]; omega
  let upd1 := if ht > s.level then upd0 ++ [none] else upd0
  let updP1 := if ht > p.level then updP.setIfInBounds p.level (some none) else updP
  have hH : H ≤ maxLevel := by simp only [H, newHeight]; split <;> omega
  have hu1 : UpdRel f 0 upd1 updP1 := by
    simp only [upd1, updP1, ha.level]
    by_cases hg : ht > s.level
    · simp only [hg, if_true]
      have := hu.grow (by rw [hl0]; omega)
      rw [hl0] at this; exact this
    · simp only [hg, if_false]; exact hu
  -- `splice` on the list side
  have hspl : splice key H s.lv upd1 = some (insTop cfg.cmp key H s.lv) := by
    simp only [H, upd1, newHeight]
    by_cases hg : ht > s.level
    · simp only [hg, if_true]
      have hlt : s.level < maxLevel := by omega
      apply splice_spec hc key (s.level + 1) s.lv _ (by omega) (by simp [upd0]; omega) hi.tower.1
      intro i hi'
      by_cases hil : i < s.level
      · rw [List.getElem?_append_left (by rw [hl0]; exact hil)]
        simp [upd0, List.getElem?_take, hil]
      · have hie : i = s.level := by omega
        subst hie
        rw [List.getElem?_append_right (by rw [hl0]; exact Nat.le_refl _)]
        rw [hi.above s.level (Nat.le_refl _) hlt, hl0]
        simp [pred, lo, lastOr]
    · simp only [hg, if_false]
      apply splice_spec hc key ht s.lv _ (by omega) (by rw [hl0]; omega) hi.tower.1
      intro i hi'
      simp [upd0, List.getElem?_take]; omega
  -- the new key-to-node map
  let newId := p.nodes.size
  let f' : K → Nat := fun k => if k = key then newId else f k
  have hf'key : f' key = newId := by simp [f']
  have hf'off : ∀ k, k ≠ key → f' k = f k := fun k hk => by simp [f', hk]
  have hu1' : UpdRel f' 0 upd1 updP1 := by
    refine hu1.congr ?_
    intro u hu
    cases u with
    | none => rfl
    | some c =>
      have hck : c ≠ key := by
        have hmem : some c ∈ upd0 ++ [none] := by
          simp only [upd1] at hu
          split at hu
          · exact hu
          · exact List.mem_append_left _ hu
        rcases List.mem_append.mp hmem with hm | hm
        · obtain ⟨l, _, hl⟩ := List.mem_map.mp hm
          have := (pred_curOK (cmp := cfg.cmp) key l c hl).2
          intro e; subst e; exact hc.irrefl c this
        · simp at hm
      simp [hf'off c hck]
  -- the state after the allocation
  let pA : PSL K V :=
    { (if ht > p.level then { p with level := p.level + 1 } else p) with
      nodes := p.nodes.push ⟨key, val, Array.replicate H none⟩ }
  have hpA_head : pA.head = some hd := by
    simp only [pA]; split <;> exact hh
  have hpA_next : ∀ j x, p.nextOf none j = some x → pA.nextOf none j = some x := by
    intro j x hx
    simp only [PSL.nextOf, hh] at hx
    simp only [PSL.nextOf, hpA_head]; exact hx
  have hpA_node : ∀ (a : Nat) (nd : PNode K V), p.nodes[a]? = some nd → pA.nodes[a]? = some nd := by
    intro a nd hn
    have hlt := (Array.getElem?_eq_some_iff.mp hn).1
    show (p.nodes.push _)[a]? = some nd
    rw [Array.getElem?_push, if_neg (by omega)]; exact hn
  have hpA_new : pA.nodes[newId]? = some ⟨key, val, Array.replicate H none⟩ := by
    show (p.nodes.push _)[p.nodes.size]? = _
    simp
  have hchA : ∀ j l, s.lv[j]? = some l → l.Nodup ∧ (∀ k ∈ l, f' k ≠ f' key) ∧
      ∃ st, pA.nextOf none (0 + j) = some st ∧ ChainK pA f' (0 + j) st l := by
    intro j l hl
    have hlm : l ∈ s.lv := List.mem_of_getElem? hl
    obtain ⟨st, c1, c2⟩ := ha.chains j l hl
    have hoff : ∀ k ∈ l, f' k = f k := fun k hk => hf'off k (fun e => hknot l hlm (e ▸ hk))
    refine ⟨hnd l hlm, ?_, st, by rw [Nat.zero_add]; exact hpA_next j st c1, ?_⟩
    · intro k hk
      rw [hoff k hk, hf'key]
      have := c2.lt_size hk
      simp only [newId]; omega
    · rw [Nat.zero_add]
      refine c2.mono hoff ?_
      intro k hk nd hn
      exact ⟨nd, hpA_node _ nd hn, rfl, rfl⟩
  -- the link loop
  rw [← hf'key] at hpA_new
  obtain ⟨p', q1, q2, q3⟩ := linkLoop_sim hu1' H 0 pA s.lv _ (by simpa using hspl) hchA
    ⟨_, hpA_new, rfl, by simp⟩
  rw [hf'key] at q1 hpA_new
  have hlevel : pA.level = (if ht > s.level then s.level + 1 else s.level) := by
    simp only [pA, ha.level]; split <;> simp [ha.level]
  refine ⟨{ p' with len := p'.len + 1 }, ?_, ?_, ?_⟩
  · unfold PSL.insertAt
    have hsz : updP.size = maxLevel := hu.1
    by_cases hg : ht > p.level
    · have hng : ¬ (p.level ≥ updP.size) := by rw [hsz, ha.level]; rw [ha.level] at hg; omega
      have hHe : H = p.level + 1 := by simp only [H, newHeight, ← ha.level, hg, if_true]
      simp only [hg, decide_true, Bool.true_and, hng, decide_false, Bool.false_eq_true, if_false, if_true]
      simp only [pA, updP1, hg, if_true, hHe] at q1
      rw [q1]
    · have hHe : H = ht := by simp only [H, newHeight, ← ha.level, hg, if_false]
      simp only [hg, decide_false, Bool.false_and, Bool.false_eq_true, if_false]
      simp only [pA, updP1, hg, if_false, hHe] at q1
      rw [q1]
  · obtain ⟨hinv', hc0, _⟩ := Inv.of_inserted hc hi hkw val h1 h2
    obtain ⟨hd', g1, g2, _⟩ := q2.head hd hpA_head
    refine ⟨?_, ?_, ?_, ?_, ?_, ?_, ?_⟩
    · show p'.level = _
      rw [q2.level, hlevel]; rfl
    · show p'.len + 1 = s.len + 1
      rw [q2.len]; simp only [pA]; split <;> simp [ha.len]
    · show p'.hasRand = s.hasRand
      rw [q2.rand]; simp only [pA]; split <;> exact ha.rand
    · show p'.head = none ↔ insTop cfg.cmp key H s.lv = []
      rw [g1]
      constructor
      · intro e; cases e
      · intro e
        have := congrArg List.length e
        rw [length_insTop, hlen] at this; simp [maxLevel] at this
    · intro h0 hh0
      show h0.size = (insTop cfg.cmp key H s.lv).length
      have : p'.head = some h0 := hh0
      rw [g1] at this; cases this
      rw [length_insTop, g2, ha.headSize hd hh]
    · intro j l hl
      obtain ⟨st, b1, b2⟩ := q3 j l hl
      rw [Nat.zero_add] at b1 b2
      exact ⟨st, b1, b2.congr_nodes rfl⟩
    · intro k hk nd hn
      have hk' : k ∈ ins cfg.cmp key (chain0 s) := by rw [← hc0]; exact hk
      rw [mem_ins hc hi.sorted0] at hk'
      show getVal ((key, val) :: s.vals) k = some nd.val
      have hn' : p'.nodes[f' k]? = some nd := hn
      rcases hk' with rfl | hk'
      · obtain ⟨nd', a1, _, a3, _⟩ := q2.node _ _ hpA_new
        rw [hf'key] at hn'
        rw [a1] at hn'; cases hn'
        simp [getVal, a3]
      · have hkk : k ≠ key := fun e => hknot _ (by rw [hr]; simp) (e ▸ hk')
        obtain ⟨st, c1, c2⟩ := ha.chainZero hr
        obtain ⟨ndk, _, k1, _, _⟩ := c2.node k hk'
        obtain ⟨nd', a1, _, a3, _⟩ := q2.node _ _ (hpA_node _ _ k1)
        rw [hf'off k hkk, a1] at hn'; cases hn'
        rw [a3]
        simp only [getVal, if_neg (Ne.symm hkk)]
        exact ha.vals k hk' ndk k1

  · intro hH k hk nd hn
    obtain ⟨_, hc0, _⟩ := Inv.of_inserted hc hi hkw val h1 h2
    have hk' : k ∈ ins cfg.cmp key (chain0 s) := by rw [← hc0]; exact hk
    rw [mem_ins hc hi.sorted0] at hk'
    have hn' : p'.nodes[f' k]? = some nd := hn
    show nd.next.size = cntMem k (insTop cfg.cmp key H s.lv)
    rcases hk' with rfl | hk'
    · obtain ⟨nd', a1, _, _, a4, _⟩ := q2.node _ _ hpA_new
      rw [hf'key] at hn'
      rw [a1] at hn'; cases hn'
      rw [a4, cntMem_insTop_key hc H s.lv hi.tower.1 hknot (by omega)]
      simp
    · have hkk : k ≠ key := fun e => hknot _ (by rw [hr]; simp) (e ▸ hk')
      obtain ⟨st, c1, c2⟩ := ha.chainZero hr
      obtain ⟨ndk, _, k1, _, _⟩ := c2.node k hk'
      obtain ⟨nd', a1, _, _, a4, _⟩ := q2.node _ _ (hpA_node _ _ k1)
      rw [hf'off k hkk, a1] at hn'; cases hn'
      rw [a4, cntMem_insTop_ne hc hkk H s.lv hi.tower.1]
      exact hH k hk' ndk k1

/-- `set` (every mode, every drawn height) on an initialised list. -/
theorem setH_ptr_inv (cfg : Cfg K V) (hc : WeakCmp cfg.cmp) {f : K → Nat} {p : PSL K V} {s : SL K V}
    (ha : AbsF f p s) (hi : Inv cfg.cmp s) (key : K) (val : V) (mode ht : Nat) (h1 : 1 ≤ ht)
    (h2 : ht ≤ maxLevel) {s' : SL K V} {b : Bool} (hs : s.setH cfg key val mode ht = some (s', b)) :
    ∃ p' f', p.setH cfg key val mode ht = some (p', b) ∧ AbsF f' p' s' ∧ (Hts f p s → Hts f' p' s') := by
  obtain ⟨rest, hr⟩ := hi.lv_cons
  have hloop := ha.setLoop_inv hc hi key
  cases hf : findEq cfg.cmp key (chain0 s) with
  | some n =>
    rw [hf] at hloop
    simp only [] at hloop
    obtain ⟨hn, _⟩ := findEq_some hf
    rw [setH_found cfg hc hi hf] at hs
    obtain ⟨st, c1, c2⟩ := ha.chainZero hr
    obtain ⟨nd, _, n1, _, _⟩ := c2.node n hn
    unfold PSL.setH
    simp only [ptr_lazy_noop ha hi, hloop]
    by_cases hm : mode = 2
    · subst hm
      simp only [if_true, Option.some.injEq, Prod.mk.injEq] at hs
      obtain ⟨rfl, rfl⟩ := hs
      exact ⟨p, f, by simp, ha, id⟩
    · simp only [hm, if_false, Option.some.injEq, Prod.mk.injEq] at hs
      obtain ⟨rfl, rfl⟩ := hs
      have hm' : (mode == 2) = false := by simp [hm]
      simp only [hm', Bool.false_eq_true, if_false, n1]
      exact ⟨_, f, rfl, absF_setVal ha hn hr n1 val, fun hH => hts_setVal hH n1 val⟩
  | none =>
    rw [hf] at hloop
    simp only [] at hloop
    obtain ⟨updP, hl1, hl2⟩ := hloop
    have hkw := findEq_none.mp hf
    rw [setH_absent cfg hc hi hf val mode ht h2] at hs
    unfold PSL.setH
    simp only [ptr_lazy_noop ha hi, hl1]
    by_cases hm : mode = 1
    · subst hm
      simp only [if_true, Option.some.injEq, Prod.mk.injEq] at hs
      obtain ⟨rfl, rfl⟩ := hs
      exact ⟨p, f, by simp, ha, id⟩
    · simp only [hm, if_false, Option.some.injEq, Prod.mk.injEq] at hs
      obtain ⟨rfl, rfl⟩ := hs
      have hm' : (mode == 1) = false := by simp [hm]
      have hrand : p.hasRand = true := ha.rand.trans hi.rand
      obtain ⟨p', q1, q2, q3⟩ := insert_ptr cfg hc ha hi hkw val h1 h2 hl2
      refine ⟨p', _, ?_, q2, q3⟩
      show (if (mode == 1) = true then some (p, false)
        else if (!p.hasRand) = true then none else p.insertAt key val updP ht) = _
      rw [hm', hrand]
      exact q1

/-- A zero-value `SkipList` initialises itself in `set`. -/
theorem setH_ptr_zero (cfg : Cfg K V) (hl : cfg.lazy = true) {p : PSL K V} (hh : p.head = none)
    (key : K) (val : V) (mode ht : Nat) :
    p.setH cfg key val mode ht = p.doInit.setH cfg key val mode ht := by
  simp [PSL.setH, hl, hh, PSL.doInit]

theorem hts_doInit (f : K → Nat) (p : PSL K V) : Hts f p.doInit (SL.init : SL K V) := by
  intro k hk; simp [chain0, SL.init, maxLevel] at hk

/-- `set` from every reachable state, with the tower heights. -/
theorem set_ptr_h (cfg : Cfg K V) (hc : WeakCmp cfg.cmp) {f : K → Nat} {p : PSL K V} {s : SL K V}
    (ha : AbsF f p s) (hg : Good cfg s) (key : K) (val : V) (mode r : Nat) {s' : SL K V} {b : Bool}
    (hs : s.set cfg key val mode r = some (s', b)) :
    ∃ p' f', p.set cfg key val mode r = some (p', b) ∧ AbsF f' p' s' ∧ (Hts f p s → Hts f' p' s') := by
  obtain ⟨hr1, hr2⟩ := randomLevel_range r
  rcases hg with hi | ⟨hl, rfl⟩
  · exact setH_ptr_inv cfg hc ha hi key val mode _ hr1 hr2 hs
  · have hh : p.head = none := ha.headNone.mpr rfl
    rw [zero_set cfg hl] at hs
    unfold PSL.set
    rw [setH_ptr_zero cfg hl hh]
    obtain ⟨p', f', q1, q2, q3⟩ :=
      setH_ptr_inv cfg hc (absF_doInit f p) (Inv.init cfg.cmp) key val mode _ hr1 hr2 hs
    exact ⟨p', f', q1, q2, fun _ => q3 (hts_doInit f p)⟩

/-- `set` from every reachable state. -/
theorem set_ptr (cfg : Cfg K V) (hc : WeakCmp cfg.cmp) {p : PSL K V} {s : SL K V} (hab : Abs p s)
    (hg : Good cfg s) (key : K) (val : V) (mode r : Nat) {s' : SL K V} {b : Bool}
    (hs : s.set cfg key val mode r = some (s', b)) :
    ∃ p', p.set cfg key val mode r = some (p', b) ∧ Abs p' s' := by
  obtain ⟨f, ha⟩ := hab
  obtain ⟨p', f', q1, q2, _⟩ := set_ptr_h cfg hc ha hg key val mode r hs
  exact ⟨p', q1, f', q2⟩

/-- `node.SetValue(val)` on the node of a live key. -/
theorem setNodeValue_ptr {cmp : K → K → Int} {f : K → Nat} {p : PSL K V} {s : SL K V} (ha : AbsF f p s)
    (hi : Inv cmp s) {n : K} (hn : n ∈ chain0 s) (val : V) :
    AbsF f (p.setNodeValue (f n) val) (s.setNodeValue n val) := by
  obtain ⟨rest, hr⟩ := hi.lv_cons
  obtain ⟨st, c1, c2⟩ := ha.chainZero hr
  obtain ⟨nd, _, n1, _, _⟩ := c2.node n hn
  simp only [PSL.setNodeValue, n1, SL.setNodeValue]
  exact absF_setVal ha hn hr n1 val

/-! ### Clear -/

theorem clear_ptr (cfg : Cfg K V) {f : K → Nat} {p : PSL K V} {s : SL K V} (ha : AbsF f p s) :
    AbsF f (p.clear cfg) (s.clear cfg) := by
  have hiff : p.head.isNone = s.lv.isEmpty := by
    cases hh : p.head with
    | none => rw [ha.headNone.mp hh]; rfl
    | some hd =>
      cases hl : s.lv with
      | nil => rw [ha.headNone.mpr hl] at hh; cases hh
      | cons _ _ => rfl
  unfold PSL.clear SL.clear
  rw [hiff]
  split
  · exact ha
  · refine ⟨rfl, rfl, ha.rand, by simp [maxLevel], ?_, ?_, ?_⟩
    · intro h hh; simp only [Option.some.injEq] at hh; subst hh; simp
    · intro i l hl
      simp only [] at hl
      have hi : i < maxLevel := by
        rcases Nat.lt_or_ge i maxLevel with h | hge
        · exact h
        · rw [List.getElem?_eq_none (by simp; omega)] at hl; cases hl
      have : l = [] := by
        rw [List.getElem?_replicate] at hl; simp [hi] at hl; exact hl
      subst this
      exact ⟨none, by simp [PSL.nextOf, hi], trivial⟩
    · intro k hk; simp [chain0, maxLevel] at hk

/-! ### Remove -/

/-- `Remove` on an initialised list. -/
theorem remove_ptr_inv_full (cfg : Cfg K V) (hc : WeakCmp cfg.cmp) {f : K → Nat} {p : PSL K V} {s : SL K V}
    (ha : AbsF f p s) (hi : Inv cfg.cmp s) (key : K) {s' : SL K V} {v : V} {b : Bool}
    (hs : s.remove cfg key = some (s', v, b)) :
    ∃ p', p.remove cfg key = some (p', v, b) ∧ AbsF f p' s' ∧ (Hts f p s → Hts f p' s') ∧
      -- the unlinked node stays on the heap with its key and value, and an empty tower
      (∀ n, findEq cfg.cmp key (chain0 s) = some n →
        ∃ nd', p'.nodes[f n]? = some nd' ∧ nd'.key = n ∧ nd'.val = v ∧ nd'.next = #[]) := by
  obtain ⟨rest, hr⟩ := hi.lv_cons
  have hnd := hi.lv_nodup hc
  have hlen := hi.len32
  have hlvl := hi.lvl
  obtain ⟨ls, l1, l2, _, l4, l5⟩ := hi.search_prep hc key
  obtain ⟨hle, hls⟩ := levelsDown_some l1
  have hspec := removeLoop_spec hc key ls none 0 [] l2 (fun l _ c hcn => by cases hcn)
  rw [l4, l5, List.append_nil] at hspec
  simp only [if_true] at hspec
  rw [hls] at hspec
  obtain ⟨updP, hloop, hu⟩ := ha.removeLoop_sim hnd cfg.cmp key s.level hle none 0 []
    (Array.replicate maxLevel none) _ _ _ (UpdRel.nil f hlvl.2) hspec
  simp only [Option.map_none] at hloop
  have hplev : p.level = s.level := ha.level
  replace hloop : PSL.removeLoop cfg.cmp p key p.level none 0 (Array.replicate maxLevel none) =
      some (Option.map f (pred cfg.cmp key (chain0 s)), cntHit cfg.cmp key (List.take s.level s.lv).reverse,
        updP) := by
    rw [hplev]; exact hloop
  cases hf : findEq cfg.cmp key (chain0 s) with
  | none =>
    rw [remove_absent cfg hc hi hf] at hs
    simp only [Option.some.injEq, Prod.mk.injEq] at hs
    obtain ⟨rfl, rfl, rfl⟩ := hs
    rw [hi.cntHit_zero hc hf] at hloop
    exact ⟨p, by simp [PSL.remove, hloop], ha, id, fun n hn => by cases hn⟩
  | some n =>
    obtain ⟨hn, hnk⟩ := findEq_some hf
    obtain ⟨val, lvl, r1, r2, r3⟩ := remove_found cfg hc hi hf
    rw [r3] at hs
    simp only [Option.some.injEq, Prod.mk.injEq] at hs
    obtain ⟨rfl, rfl, rfl⟩ := hs
    rw [hi.cntHit_eq hc hf] at hloop
    have hn0 : heightOf s n ≠ 0 := fun e => (hi.heightOf_eq_zero n).mp e hn
    have hnle := hi.heightOf_le n
    obtain ⟨hpre, hpost⟩ := tower_prefix n hi.tower
    have hs0 := hi.sorted0
    -- `cur.next[0]` is the node of `n`
    obtain ⟨st0, c1, c2⟩ := ha.chainZero hr
    rw [pred_congr hc hnk] at hloop hu
    have haf0 : after (pred cfg.cmp n (chain0 s)) (chain0 s) = some (n :: gt cfg.cmp n (chain0 s)) := by
      rw [(upto_after_pred hc n hs0).2, ge_of_mem hc hs0 hn]
    obtain ⟨st', d1, d2⟩ := c2.after c1 haf0
    obtain ⟨d0, nd, nxn, n1, n2, n3, _⟩ := chainK_cons.mp d2
    subst d0
    have hval : nd.val = val := by
      have := ha.vals n hn nd n1
      rw [r1] at this; exact (Option.some.inj this).symm
    -- the unlink loop
    have hch : ∀ j l, s.lv[j]? = some l → l.Nodup ∧
        ∃ st, p.nextOf none (0 + j) = some st ∧ ChainK p f (0 + j) st l := by
      intro j l hl
      obtain ⟨st, a1, a2⟩ := ha.chains j l hl
      exact ⟨hnd l (List.mem_of_getElem? hl), st, by rw [Nat.zero_add]; exact a1, by rw [Nat.zero_add]; exact a2⟩
    have hup : ∀ j l, j < heightOf s n → s.lv[j]? = some l →
        ∃ u, ((s.lv.take s.level).map (pred cfg.cmp n))[0 + j]? = some u ∧
          upto u l = some (lo cfg.cmp n l) ∧ after u l = some (n :: gt cfg.cmp n l) := by
      intro j l hj hl
      have hlm : l ∈ s.lv := List.mem_of_getElem? hl
      have hsl : Sorted cfg.cmp l := hi.tower.1 l hlm
      have hnl : n ∈ l := by
        apply hpre
        unfold heightOf at hj
        rw [List.mem_iff_getElem?]
        exact ⟨j, by rw [List.getElem?_take]; simp [hj, hl]⟩
      refine ⟨pred cfg.cmp n l, ?_, (upto_after_pred hc n hsl).1, ?_⟩
      · rw [Nat.zero_add, List.getElem?_map, List.getElem?_take, if_pos (by omega), hl]; rfl
      · rw [(upto_after_pred hc n hsl).2, ge_of_mem hc hsl hnl]
    obtain ⟨p1, q1, q2, q3⟩ := unlinkLoop_sim cfg.cmp hu (heightOf s n) 0 p s.lv (by omega) hch hup
    -- `cur.next = nil`
    obtain ⟨nd1, m1, m2, m3, _, _⟩ := q2.node (f n) nd n1
    let p2 : PSL K V := { p1 with nodes := p1.nodes.setIfInBounds (f n) { nd1 with next := #[] } }
    -- `n` is on no chain of the new towers
    have hnot : ∀ (j : Nat) (l' : List K), (delTop cfg.cmp n (heightOf s n) s.lv)[j]? = some l' →
        n ∉ l' ∧ ∃ l : List K, s.lv[j]? = some l ∧ ∀ k ∈ l', k ∈ l := by
      intro j l' hl'
      rw [getElem?_delTop] at hl'
      by_cases hj : j < heightOf s n
      · rw [if_pos hj] at hl'
        cases hl : s.lv[j]? with
        | none => rw [hl] at hl'; cases hl'
        | some l =>
          rw [hl] at hl'
          simp only [Option.map_some, Option.some.injEq] at hl'; subst hl'
          refine ⟨?_, l, rfl, ?_⟩
          · intro hm
            unfold del at hm
            rcases List.mem_append.mp hm with h | h
            · exact hc.irrefl n (mem_lo.mp h).2
            · exact hc.irrefl n (mem_gt.mp h).2
          · intro k hk
            unfold del at hk
            rcases List.mem_append.mp hk with h | h
            · exact (mem_lo.mp h).1
            · exact (mem_gt.mp h).1
      · rw [if_neg hj] at hl'
        refine ⟨?_, l', hl', fun k hk => hk⟩
        apply hpost
        rw [List.mem_iff_getElem?]
        refine ⟨j - heightOf s n, ?_⟩
        unfold heightOf at hj ⊢
        rw [List.getElem?_drop, ← hl']; congr 1; omega
    have hch2 : ∀ j l', (delTop cfg.cmp n (heightOf s n) s.lv)[j]? = some l' →
        ∃ st, p2.nextOf none j = some st ∧ ChainK p2 f j st l' := by
      intro j l' hl'
      obtain ⟨st, b1, b2⟩ := q3 j l' hl'
      rw [Nat.zero_add] at b1 b2
      obtain ⟨hnl, l, hl, hsub⟩ := hnot j l' hl'
      obtain ⟨stl, e1, e2⟩ := ha.chains j l hl
      refine ⟨st, b1, b2.mono (fun _ _ => rfl) ?_⟩
      intro k hk ndk hndk
      have hne : f n ≠ f k := by
        intro e
        have : n = k := c2.inj e2 hn (hsub k hk) e
        exact hnl (this ▸ hk)
      refine ⟨ndk, ?_, rfl, rfl⟩
      show (p1.nodes.setIfInBounds (f n) _)[f k]? = some ndk
      rw [Array.getElem?_setIfInBounds, if_neg hne]; exact hndk
    -- the new level
    have hlev2 : p2.level = s.level := by show p1.level = _; rw [q2.level, ha.level]
    have hshr : (if heightOf s n ≥ p2.level then p2.shrink p2.level else some p2.level) = some lvl := by
      rw [hlev2]
      unfold levelAfter at r2
      split
      · rename_i hge
        rw [if_pos hge] at r2
        exact shrink_sim hch2 _ _ r2
      · rename_i hge
        rw [if_neg hge] at r2; exact r2
    obtain ⟨hd, hh⟩ : ∃ hd, p.head = some hd := by
      cases hh : p.head with
      | none => have := ha.headNone.mp hh; rw [hr] at this; cases this
      | some hd => exact ⟨hd, rfl⟩
    obtain ⟨hd1, g1, g2, _⟩ := q2.head hd hh
    obtain ⟨_, hc0, _⟩ := Inv.of_removed hc hi hn r2
    refine ⟨{ p2 with level := lvl, len := p2.len - 1 }, ?_, ?_, ?_, ?_⟩
    · unfold PSL.remove
      simp only [hloop]
      have hb : (heightOf s n == 0) = false := by simp [hn0]
      simp only [hb, Bool.false_eq_true, if_false, d1, n1, q1, m1]
      show (match (if heightOf s n ≥ p2.level then p2.shrink p2.level else some p2.level) with
        | none => none
        | some lvl => some ({ p2 with level := lvl, len := p2.len - 1 }, nd.val, true)) = _
      rw [hshr, hval]
    · refine ⟨rfl, ?_, ?_, ?_, ?_, ?_, ?_⟩
      · show p1.len - 1 = s.len - 1
        rw [q2.len, ha.len]
      · show p1.hasRand = s.hasRand
        rw [q2.rand, ha.rand]
      · show p1.head = none ↔ delTop cfg.cmp n (heightOf s n) s.lv = []
        rw [g1]
        constructor
        · intro e; cases e
        · intro e
          have := congrArg List.length e
          rw [length_delTop, hlen] at this; simp [maxLevel] at this
      · intro h0 hh0
        have : p1.head = some h0 := hh0
        rw [g1] at this; cases this
        show hd1.size = (delTop cfg.cmp n (heightOf s n) s.lv).length
        rw [length_delTop, g2, ha.headSize hd hh]
      · intro j l' hl'
        obtain ⟨st, b1, b2⟩ := hch2 j l' hl'
        exact ⟨st, b1, b2.congr_nodes rfl⟩
      · intro k hk ndk hndk
        have hk' : k ∈ del cfg.cmp n (chain0 s) := by rw [← hc0]; exact hk
        obtain ⟨hkn, hk0⟩ := (mem_del hc hs0 hn).mp hk'
        show getVal (eraseVal s.vals n) k = some ndk.val
        rw [getVal_eraseVal hi.valsNodup, if_neg hkn]
        obtain ⟨nk, _, k1, _, _⟩ := c2.node k hk0
        obtain ⟨nk1, a1, _, a3, _, _⟩ := q2.node (f k) nk k1
        have hne : f n ≠ f k := fun e => hkn (c2.inj c2 hn hk0 e).symm
        have hndk' : (p1.nodes.setIfInBounds (f n) { nd1 with next := #[] })[f k]? = some ndk := hndk
        rw [Array.getElem?_setIfInBounds, if_neg hne, a1] at hndk'
        cases hndk'
        rw [a3]
        exact ha.vals k hk0 nk k1

    · intro hH k hk ndk hndk
      have hk' : k ∈ del cfg.cmp n (chain0 s) := by rw [← hc0]; exact hk
      obtain ⟨hkn, hk0⟩ := (mem_del hc hs0 hn).mp hk'
      obtain ⟨nk, _, k1, _, _⟩ := c2.node k hk0
      obtain ⟨nk1, a1, _, _, a4, _⟩ := q2.node (f k) nk k1
      have hne : f n ≠ f k := fun e => hkn (c2.inj c2 hn hk0 e).symm
      have hndk' : (p1.nodes.setIfInBounds (f n) { nd1 with next := #[] })[f k]? = some ndk := hndk
      rw [Array.getElem?_setIfInBounds, if_neg hne, a1] at hndk'
      cases hndk'
      show ndk.next.size = cntMem k (delTop cfg.cmp n (heightOf s n) s.lv)
      rw [a4, cntMem_delTop_ne hc hkn (heightOf s n) s.lv
        (fun l hl => ⟨hi.tower.1 l (List.mem_of_mem_take hl), hpre l hl⟩)]
      exact hH k hk0 nk k1
    · intro n' hn'
      simp only [Option.some.injEq] at hn'
      subst hn'
      have hlt := (Array.getElem?_eq_some_iff.mp m1).1
      refine ⟨{ nd1 with next := #[] }, ?_, ?_, ?_, rfl⟩
      · show (p1.nodes.setIfInBounds (f n) _)[f n]? = _
        simp [Array.getElem?_setIfInBounds, hlt]
      · show nd1.key = n
        rw [m2, n2]
      · show nd1.val = val
        rw [m3, hval]

/-- `Remove` on an initialised list. -/
theorem remove_ptr_inv (cfg : Cfg K V) (hc : WeakCmp cfg.cmp) {f : K → Nat} {p : PSL K V} {s : SL K V}
    (ha : AbsF f p s) (hi : Inv cfg.cmp s) (key : K) {s' : SL K V} {v : V} {b : Bool}
    (hs : s.remove cfg key = some (s', v, b)) :
    ∃ p', p.remove cfg key = some (p', v, b) ∧ AbsF f p' s' ∧ (Hts f p s → Hts f p' s') := by
  obtain ⟨p', h1, h2, h3, _⟩ := remove_ptr_inv_full cfg hc ha hi key hs
  exact ⟨p', h1, h2, h3⟩

/-- `Remove` from every reachable state, with the tower heights. -/
theorem remove_ptr_h (cfg : Cfg K V) (hc : WeakCmp cfg.cmp) {f : K → Nat} {p : PSL K V} {s : SL K V}
    (ha : AbsF f p s) (hg : Good cfg s) (key : K) {s' : SL K V} {v : V} {b : Bool}
    (hs : s.remove cfg key = some (s', v, b)) :
    ∃ p', p.remove cfg key = some (p', v, b) ∧ AbsF f p' s' ∧ (Hts f p s → Hts f p' s') := by
  rcases hg with hi | ⟨hl, rfl⟩
  · exact remove_ptr_inv cfg hc ha hi key hs
  · have hlv : p.level = 0 := ha.level
    simp [SL.remove, SL.levelsDown, SL.zero, removeLoop] at hs
    obtain ⟨rfl, rfl, rfl⟩ := hs
    exact ⟨p, by simp [PSL.remove, hlv, PSL.removeLoop], ha, id⟩

/-- `Remove` from every reachable state. -/
theorem remove_ptr (cfg : Cfg K V) (hc : WeakCmp cfg.cmp) {p : PSL K V} {s : SL K V} (hab : Abs p s)
    (hg : Good cfg s) (key : K) {s' : SL K V} {v : V} {b : Bool}
    (hs : s.remove cfg key = some (s', v, b)) :
    ∃ p', p.remove cfg key = some (p', v, b) ∧ Abs p' s' := by
  obtain ⟨f, ha⟩ := hab
  obtain ⟨p', h1, h2, _⟩ := remove_ptr_h cfg hc ha hg key hs
  exact ⟨p', h1, f, h2⟩

/-- `Clear()` leaves no live node. -/
theorem clear_hts (cfg : Cfg K V) {f : K → Nat} {p : PSL K V} {s : SL K V} (hh : Hts f p s) :
    Hts f (p.clear cfg) (s.clear cfg) := by
  unfold SL.clear
  split
  · unfold PSL.clear
    split
    · exact hh
    · intro k hk nd hn; exact hh k hk nd hn
  · intro k hk; simp [chain0, maxLevel] at hk

/-- `node.SetValue` changes no tower. -/
theorem setNodeValue_hts {cmp : K → K → Int} {f : K → Nat} {p : PSL K V} {s : SL K V} (ha : AbsF f p s)
    (hh : Hts f p s) (hi : Inv cmp s) {n : K} (hn : n ∈ chain0 s) (val : V) :
    Hts f (p.setNodeValue (f n) val) (s.setNodeValue n val) := by
  obtain ⟨rest, hr⟩ := hi.lv_cons
  obtain ⟨st, c1, c2⟩ := ha.chainZero hr
  obtain ⟨nd, _, n1, _, _⟩ := c2.node n hn
  simp only [PSL.setNodeValue, n1, SL.setNodeValue]
  exact hts_setVal hh n1 val

end Golib.C02
