/-
C03 helper lemmas, part 5: `container.Add / Remove / Contains / Len` against the member
list, under the container invariant.  Core-only.
-/
import Golib.Proof.C03Array

namespace Golib.C03

theorem mem_members_bmp (n : Int) (w : Array Word) (m : Nat) :
    m ∈ (Container.bmp n w).members ↔ wordsBit w m = true := by
  simp only [Container.members, List.mem_filter, List.mem_range]
  constructor
  · exact fun h => h.2
  · intro h
    refine ⟨?_, h⟩
    unfold wordsBit at h
    cases hg : w[m / 64]? with
    | none => rw [hg] at h; cases h
    | some v =>
      have := (Array.getElem?_eq_some_iff.mp hg).1
      omega

theorem members_bmp_sorted (n : Int) (w : Array Word) :
    (Container.bmp n w).members.Pairwise (· < ·) :=
  List.Pairwise.filter _ List.pairwise_lt_range

theorem Container.members_sorted (c : Container) (h : c.Inv0) : c.members.Pairwise (· < ·) := by
  cases c with
  | arr v => exact h.1
  | bmp n w => exact members_bmp_sorted n w

theorem Container.members_nodup (c : Container) (h : c.Inv0) : c.members.Nodup :=
  nodup_of_lt (c.members_sorted h)

theorem Container.members_lt (c : Container) (h : c.Inv0) : ∀ m ∈ c.members, m < 65536 := by
  cases c with
  | arr v => exact h.2.1
  | bmp n w =>
    intro m hm
    simp only [Container.members, List.mem_filter, List.mem_range] at hm
    have := h.1
    omega

theorem Container.len_eq (c : Container) (h : c.Inv0) : c.len = (c.members.length : Int) := by
  cases c with
  | arr v => simp [Container.len, Container.members]
  | bmp n w => exact h.2

theorem Container.inv_iff (c : Container) : c.Inv ↔ c.Inv0 ∧ c.len ≠ 0 := by
  cases c with
  | arr v =>
    simp only [Container.Inv, Container.Inv0, Container.len]
    constructor
    · rintro ⟨a, b, c, d⟩; exact ⟨⟨a, b, d⟩, by omega⟩
    · rintro ⟨⟨a, b, d⟩, c⟩; exact ⟨a, b, by omega, d⟩
  | bmp n w =>
    simp only [Container.Inv, Container.Inv0, Container.len]
    constructor
    · rintro ⟨a, b, c⟩; exact ⟨⟨a, b⟩, by omega⟩
    · rintro ⟨⟨a, b⟩, c⟩; exact ⟨a, b, by omega⟩

theorem Container.Inv.inv0 {c : Container} (h : c.Inv) : c.Inv0 := ((c.inv_iff).mp h).1

theorem Container.inv_of_mem {c : Container} (h : c.Inv0) {x : Nat} (hx : x ∈ c.members) : c.Inv := by
  refine (c.inv_iff).mpr ⟨h, ?_⟩
  rw [c.len_eq h]
  have : 0 < c.members.length := List.length_pos_of_mem hx
  omega

theorem Container.members_ne_nil {c : Container} (h : c.Inv) : c.members ≠ [] := by
  have h0 := h.inv0
  have := ((c.inv_iff).mp h).2
  rw [c.len_eq h0] at this
  intro e; rw [e] at this; exact this rfl

theorem Container.contains_spec (c : Container) (h : c.Inv0) (x : Nat) :
    c.contains x = some (decide (x ∈ c.members)) := by
  cases c with
  | arr v => exact arrContains_spec v x h.1
  | bmp n w =>
    simp only [Container.contains, bitmapContains_eq, Option.some.injEq]
    have := mem_members_bmp n w x
    cases hb : wordsBit w x <;> simp_all

theorem Container.add_spec (c : Container) (h : c.Inv0) (x : Nat) (hx : x < 65536) :
    ∃ c1 c' ok, c.add x = some (c1, c', ok) ∧ c'.Inv ∧ ok = !decide (x ∈ c.members) ∧
      ∀ y, y ∈ c'.members ↔ (y = x ∨ y ∈ c.members) := by
  cases c with
  | arr v =>
    obtain ⟨hs, hb, hsz⟩ := h
    by_cases hmem : x ∈ v.toList
    · refine ⟨.arr v, .arr v, false, ?_, ?_, by simp [Container.members, hmem], ?_⟩
      · simp only [Container.add, arrAdd_hit v x hs hmem]
      · exact Container.inv_of_mem (c := .arr v) ⟨hs, hb, hsz⟩ hmem
      · intro y; simp only [Container.members]
        constructor
        · exact fun h => Or.inr h
        · rintro (rfl | h)
          · exact hmem
          · exact h
    · by_cases hsmall : v.size < threshold
      · obtain ⟨v', hadd, hs', hsz', hm'⟩ := arrAdd_small v x hs hmem hsmall
        refine ⟨.arr v', .arr v', true, ?_, ?_, by simp [Container.members, hmem], hm'⟩
        · simp only [Container.add, hadd]
        · refine ⟨hs', ?_, by omega, by unfold threshold at hsmall; omega⟩
          intro y hy
          rcases (hm' y).mp hy with rfl | hy
          · exact hx
          · exact hb y hy
      · have hsz4 : v.size = threshold := by unfold threshold at *; omega
        obtain ⟨w, hadd, hwsz, hbits⟩ := arrAdd_convert v x hs hb hsz4 hx hmem
        have hm' : ∀ y, y ∈ (Container.bmp 4097 w).members ↔ (y = x ∨ y ∈ v.toList) := by
          intro y; rw [mem_members_bmp, hbits]; simp
        refine ⟨.arr v, .bmp 4097 w, true, ?_, ?_, by simp [Container.members, hmem], hm'⟩
        · simp only [Container.add, hadd]
        · have hlen := length_insert (nodup_of_lt hs) (nodup_of_lt (members_bmp_sorted 4097 w)) hmem hm'
          have hvl : v.toList.length = 4096 := by simpa [threshold] using hsz4
          refine ⟨hwsz, ?_, by decide⟩
          show (4097 : Int) = ((Container.bmp 4097 w).members.length : Int)
          omega
  | bmp n w =>
    obtain ⟨hsz, hn⟩ := h
    obtain ⟨w', hadd, hsz', hbits⟩ := bitmapAdd_spec w x (by omega)
    have hm' : ∀ k y, y ∈ (Container.bmp k w').members ↔ (y = x ∨ y ∈ (Container.bmp n w).members) := by
      intro k y; rw [mem_members_bmp, mem_members_bmp, hbits]; simp
    have hwb : wordsBit w x = decide (x ∈ (Container.bmp n w).members) := by
      have := mem_members_bmp n w x
      cases hb : wordsBit w x <;> simp_all
    refine ⟨.bmp (if (!wordsBit w x) = true then n + 1 else n) w',
      .bmp (if (!wordsBit w x) = true then n + 1 else n) w', !wordsBit w x,
      by simp only [Container.add, hadd], ?_, by rw [hwb], hm' _⟩
    refine Container.inv_of_mem (x := x) ⟨by omega, ?_⟩ ((hm' _ x).mpr (Or.inl rfl))
    show _ = ((Container.bmp 0 w').members.length : Int)
    by_cases hmem : x ∈ (Container.bmp n w).members
    · have hl := length_same (nodup_of_lt (members_bmp_sorted n w)) (nodup_of_lt (members_bmp_sorted 0 w'))
        (by intro y; rw [hm' 0 y]; constructor
            · rintro (rfl | h)
              · exact hmem
              · exact h
            · exact fun h => Or.inr h)
      simp only [hwb, hmem, decide_true, Bool.not_true, Bool.false_eq_true, if_false]
      rw [hl]; exact hn
    · have hl := length_insert (nodup_of_lt (members_bmp_sorted n w)) (nodup_of_lt (members_bmp_sorted 0 w'))
        hmem (hm' 0)
      simp only [hwb, hmem, decide_false, Bool.not_false, if_true]
      rw [hl, hn]; simp [Container.members]

theorem Container.remove_spec (c : Container) (h : c.Inv0) (x : Nat) :
    ∃ c' ok, c.remove x = some (c', ok) ∧ c'.Inv0 ∧ ok = decide (x ∈ c.members) ∧
      ∀ y, y ∈ c'.members ↔ (y ≠ x ∧ y ∈ c.members) := by
  cases c with
  | arr v =>
    obtain ⟨hs, hb, hsz⟩ := h
    by_cases hmem : x ∈ v.toList
    · obtain ⟨v', hrm, hs', hsz', hm'⟩ := arrRemove_hit v x hs hmem
      refine ⟨.arr v', true, by simp only [Container.remove, hrm], ⟨hs', ?_, by omega⟩,
        by simp [Container.members, hmem], hm'⟩
      intro y hy
      exact hb y ((hm' y).mp hy).2
    · refine ⟨.arr v, false, by simp only [Container.remove, arrRemove_miss v x hs hmem], ⟨hs, hb, hsz⟩,
        by simp [Container.members, hmem], ?_⟩
      intro y; simp only [Container.members]
      constructor
      · exact fun h => ⟨fun e => hmem (e ▸ h), h⟩
      · exact fun h => h.2
  | bmp n w =>
    obtain ⟨hsz, hn⟩ := h
    obtain ⟨w', hrm, hsz', hbits⟩ := bitmapRemove_spec w x
    have hm' : ∀ k y, y ∈ (Container.bmp k w').members ↔ (y ≠ x ∧ y ∈ (Container.bmp n w).members) := by
      intro k y; rw [mem_members_bmp, mem_members_bmp, hbits]; simp
    have hwb : wordsBit w x = decide (x ∈ (Container.bmp n w).members) := by
      have := mem_members_bmp n w x
      cases hb : wordsBit w x <;> simp_all
    refine ⟨.bmp (if wordsBit w x = true then n - 1 else n) w', wordsBit w x,
      by simp only [Container.remove, hrm], ⟨by omega, ?_⟩, hwb, hm' _⟩
    show _ = ((Container.bmp 0 w').members.length : Int)
    by_cases hmem : x ∈ (Container.bmp n w).members
    · have hl := length_erase (nodup_of_lt (members_bmp_sorted n w)) (nodup_of_lt (members_bmp_sorted 0 w'))
        hmem (hm' 0)
      simp only [hwb, hmem, decide_true, if_true]
      have : n = ((Container.bmp n w).members.length : Int) := hn
      omega
    · have hl := length_same (nodup_of_lt (members_bmp_sorted n w)) (nodup_of_lt (members_bmp_sorted 0 w'))
        (by intro y; rw [hm' 0 y]; constructor
            · exact fun h => h.2
            · exact fun h => ⟨fun e => hmem (e ▸ h), h⟩)
      simp only [hwb, hmem, decide_false, Bool.false_eq_true, if_false]
      rw [hl]; exact hn

end Golib.C03
