/-
The executable AES of `Golib/Model/C08Aes.lean` satisfies the block-cipher hypotheses of
the C08/C09 property theorems: for every key of 16/24/32 bytes, `Cipher` and `InvCipher`
map blocks to 16-byte blocks, and `InvCipher (Cipher blk) = blk` for every 16-byte block.

Ingredients: the key-expansion invariant (`C08AesKey`), `InvMixColumns ∘ MixColumns = id`
on bytes (`C08AesMix`), `InvShiftRows ∘ ShiftRows = id` on 16 elements, the S-box tables
are inverse permutations (256-case kernel check), xor with a round key is an involution,
and an induction over the list of round keys.
-/
import Golib.Proof.C08AesMix

namespace Golib.C08
open AES

/-! ### the single operations -/

theorem invSubByte_lt_fin : ∀ b : Fin 256, invSubByte b.val < 256 := by decide +kernel

theorem invSubByte_lt (a : Nat) : invSubByte a < 256 := by
  have h := invSubByte_lt_fin ⟨a % 256, Nat.mod_lt _ (by decide)⟩
  have e : invSubByte a = invSubByte (a % 256) := by simp [invSubByte]
  rw [e]; exact h

theorem invSubByte_subByte_fin : ∀ b : Fin 256, invSubByte (subByte b.val) = b.val := by
  decide +kernel

theorem invSubByte_subByte (b : Nat) (h : b < 256) : invSubByte (subByte b) = b :=
  invSubByte_subByte_fin ⟨b, h⟩

theorem invSubBytes_subBytes : ∀ (s : List Nat), IsBytes s → invSubBytes (subBytes s) = s
  | [], _ => by simp [invSubBytes, subBytes]
  | a :: s, hs => by
    have ih := invSubBytes_subBytes s (fun y hy => hs y (List.mem_cons_of_mem _ hy))
    simp only [invSubBytes, subBytes, List.map_cons] at ih ⊢
    rw [ih, invSubByte_subByte a (hs a List.mem_cons_self)]

theorem subBytes_isBytes (s : List Nat) : IsBytes (subBytes s) := by
  intro y hy
  obtain ⟨z, _, rfl⟩ := List.mem_map.mp hy
  exact subByte_lt z

theorem invSubBytes_isBytes (s : List Nat) : IsBytes (invSubBytes s) := by
  intro y hy
  obtain ⟨z, _, rfl⟩ := List.mem_map.mp hy
  exact invSubByte_lt z

theorem at16_lt (s : List Nat) (hs : IsBytes s) (i : Nat) : at16 s i < 256 := by
  unfold at16
  rw [List.getD_eq_getElem?_getD]
  cases h : s[i]? with
  | none => simp
  | some v => exact hs v (List.mem_of_getElem? h)

theorem shiftRows_isBytes (s : List Nat) (hs : IsBytes s) : IsBytes (shiftRows s) := by
  intro y hy
  obtain ⟨i, _, rfl⟩ := List.mem_map.mp hy
  exact at16_lt s hs _

theorem invShiftRows_isBytes (s : List Nat) (hs : IsBytes s) : IsBytes (invShiftRows s) := by
  intro y hy
  obtain ⟨i, _, rfl⟩ := List.mem_map.mp hy
  exact at16_lt s hs _

theorem mixWith_isBytes (m s : List Nat) : IsBytes (mixWith m s) := by
  intro y hy
  obtain ⟨c, _, hy⟩ := List.mem_flatMap.mp hy
  rw [mixColumn_eq] at hy
  simp only [List.mem_cons, List.not_mem_nil, or_false] at hy
  rcases hy with rfl | rfl | rfl | rfl <;> exact mrow_lt _ _ _ _ _ _

theorem xorBlock_isBytes (a b : List Nat) (ha : IsBytes a) (hb : IsBytes b) :
    IsBytes (xorBlock a b) :=
  xorBlock_allP (P := (· < 256)) xor_lt_256 a b ha hb

theorem exists16 (s : List Nat) (h : s.length = 16) :
    ∃ a0 a1 a2 a3 a4 a5 a6 a7 a8 a9 a10 a11 a12 a13 a14 a15 : Nat,
      s = [a0, a1, a2, a3, a4, a5, a6, a7, a8, a9, a10, a11, a12, a13, a14, a15] := by
  match s, h with
  | [a0, a1, a2, a3, a4, a5, a6, a7, a8, a9, a10, a11, a12, a13, a14, a15], _ =>
    exact ⟨a0, a1, a2, a3, a4, a5, a6, a7, a8, a9, a10, a11, a12, a13, a14, a15, rfl⟩

theorem invShiftRows_shiftRows (s : List Nat) (h : s.length = 16) :
    invShiftRows (shiftRows s) = s := by
  obtain ⟨a0, a1, a2, a3, a4, a5, a6, a7, a8, a9, a10, a11, a12, a13, a14, a15, rfl⟩ :=
    exists16 s h
  rfl

theorem invMixColumns_mixColumns (s : List Nat) (h : s.length = 16) (hs : IsBytes s) :
    invMixColumns (mixColumns s) = s := by
  obtain ⟨a0, a1, a2, a3, a4, a5, a6, a7, a8, a9, a10, a11, a12, a13, a14, a15, rfl⟩ :=
    exists16 s h
  have h0 := hs a0 (by simp)
  have h1 := hs a1 (by simp)
  have h2 := hs a2 (by simp)
  have h3 := hs a3 (by simp)
  have h4 := hs a4 (by simp)
  have h5 := hs a5 (by simp)
  have h6 := hs a6 (by simp)
  have h7 := hs a7 (by simp)
  have h8 := hs a8 (by simp)
  have h9 := hs a9 (by simp)
  have h10 := hs a10 (by simp)
  have h11 := hs a11 (by simp)
  have h12 := hs a12 (by simp)
  have h13 := hs a13 (by simp)
  have h14 := hs a14 (by simp)
  have h15 := hs a15 (by simp)
  rw [mixColumns, invMixColumns, mixWith_16, mixWith_16,
    invcol0 a0 a1 a2 a3 h0 h1 h2 h3, invcol1 a0 a1 a2 a3 h0 h1 h2 h3,
    invcol2 a0 a1 a2 a3 h0 h1 h2 h3, invcol3 a0 a1 a2 a3 h0 h1 h2 h3,
    invcol0 a4 a5 a6 a7 h4 h5 h6 h7, invcol1 a4 a5 a6 a7 h4 h5 h6 h7,
    invcol2 a4 a5 a6 a7 h4 h5 h6 h7, invcol3 a4 a5 a6 a7 h4 h5 h6 h7,
    invcol0 a8 a9 a10 a11 h8 h9 h10 h11, invcol1 a8 a9 a10 a11 h8 h9 h10 h11,
    invcol2 a8 a9 a10 a11 h8 h9 h10 h11, invcol3 a8 a9 a10 a11 h8 h9 h10 h11,
    invcol0 a12 a13 a14 a15 h12 h13 h14 h15, invcol1 a12 a13 a14 a15 h12 h13 h14 h15,
    invcol2 a12 a13 a14 a15 h12 h13 h14 h15, invcol3 a12 a13 a14 a15 h12 h13 h14 h15]

/-! ### blocks of bytes and the two round functions -/

/-- a block of 16 bytes -/
def BB (x : List Nat) : Prop := x.length = 16 ∧ IsBytes x

theorem bb_sr_sb (s : List Nat) : BB (shiftRows (subBytes s)) :=
  ⟨shiftRows_length _, shiftRows_isBytes _ (subBytes_isBytes s)⟩

theorem bb_mix (m s : List Nat) : BB (mixWith m s) := ⟨mixWith_length m s, mixWith_isBytes m s⟩

theorem bb_xor {a k : List Nat} (ha : BB a) (hk : BB k) : BB (xorBlock a k) :=
  ⟨by rw [xorBlock_length, ha.1, hk.1]; rfl, xorBlock_isBytes a k ha.2 hk.2⟩

theorem bb_isb_isr (s : List Nat) : BB (invSubBytes (invShiftRows s)) :=
  ⟨by rw [invSubBytes_length, invShiftRows_length], invSubBytes_isBytes _⟩

/-- one full encryption round with round key `k` -/
def encRound (k s : List Nat) : List Nat := xorBlock (mixColumns (shiftRows (subBytes s))) k
/-- one full decryption round with round key `k` -/
def decRound (k t : List Nat) : List Nat :=
  invMixColumns (xorBlock (invSubBytes (invShiftRows t)) k)

theorem bb_encRound {k : List Nat} (hk : BB k) (s : List Nat) : BB (encRound k s) :=
  bb_xor (bb_mix _ _) hk

/-- `InvSubBytes ∘ InvShiftRows` undoes `ShiftRows ∘ SubBytes` -/
theorem unSubShift (s : List Nat) (hs : BB s) :
    invSubBytes (invShiftRows (shiftRows (subBytes s))) = s := by
  rw [invShiftRows_shiftRows _ (by rw [subBytes_length]; exact hs.1), invSubBytes_subBytes s hs.2]

/-- a decryption round undoes an encryption round (in the "shifted" form of `InvCipher`) -/
theorem decRound_encRound (k s : List Nat) (hk : BB k) :
    decRound k (shiftRows (subBytes (encRound k s))) = shiftRows (subBytes s) := by
  have hm : BB (mixColumns (shiftRows (subBytes s))) := bb_mix _ _
  unfold decRound
  rw [unSubShift _ (bb_encRound hk s)]
  unfold encRound
  rw [xorBlock_cancel _ _ (by rw [hm.1, hk.1]; exact Nat.le_refl _)]
  exact invMixColumns_mixColumns _ (bb_sr_sb s).1 (bb_sr_sb s).2

theorem bb_encFold : ∀ (ks : List (List Nat)) (s : List Nat), (∀ k ∈ ks, BB k) → BB s →
    BB (ks.foldl (fun s k => encRound k s) s)
  | [], _, _, hs => hs
  | k :: ks, s, hks, _ => by
    rw [List.foldl_cons]
    exact bb_encFold ks _ (fun k' hk' => hks k' (List.mem_cons_of_mem _ hk'))
      (bb_encRound (hks k List.mem_cons_self) s)

/-- the decryption rounds, with the round keys in reverse order, undo the encryption rounds -/
theorem decFold_encFold : ∀ (ks : List (List Nat)) (s : List Nat), (∀ k ∈ ks, BB k) →
    ks.reverse.foldl (fun t k => decRound k t)
      (shiftRows (subBytes (ks.foldl (fun s k => encRound k s) s))) = shiftRows (subBytes s)
  | [], _, _ => rfl
  | k :: ks, s, hks => by
    have hk : BB k := hks k List.mem_cons_self
    have hks' : ∀ k' ∈ ks, BB k' := fun k' hk' => hks k' (List.mem_cons_of_mem _ hk')
    rw [List.foldl_cons, List.reverse_cons, List.foldl_append,
      decFold_encFold ks (encRound k s) hks']
    exact decRound_encRound k s hk

/-! ### the ciphers as folds over the round-key list -/

theorem range_map_reverse {α : Type} (g : Nat → α) (n : Nat) :
    ((List.range n).map g).reverse = (List.range n).map (fun r => g (n - 1 - r)) := by
  apply List.ext_getElem
  · simp
  · intro i h1 h2
    simp only [List.length_reverse, List.length_map, List.length_range] at h1
    simp [List.getElem_reverse]

/-- the middle round keys `k_1 … k_{Nr-1}` -/
def midKeys (key : List Nat) : List (List Nat) :=
  (List.range (numRounds key - 1)).map fun r => roundKey (expandKey key) (r + 1)

theorem encryptBlock_eq (key blk : List Nat) :
    encryptBlock key blk =
      xorBlock (shiftRows (subBytes ((midKeys key).foldl (fun s k => encRound k s)
        (xorBlock blk (roundKey (expandKey key) 0))))) (roundKey (expandKey key) (numRounds key)) := by
  simp only [midKeys, List.foldl_map]
  rfl

theorem decryptBlock_eq (key blk : List Nat) (hnr : 2 ≤ numRounds key) :
    decryptBlock key blk =
      xorBlock (invSubBytes (invShiftRows ((midKeys key).reverse.foldl (fun t k => decRound k t)
        (xorBlock blk (roundKey (expandKey key) (numRounds key)))))) (roundKey (expandKey key) 0) := by
  have e : (midKeys key).reverse =
      (List.range (numRounds key - 1)).map fun r => roundKey (expandKey key) (numRounds key - 1 - r) := by
    rw [midKeys, range_map_reverse]
    apply List.map_congr_left
    intro r hr
    have hr' : r < numRounds key - 1 := List.mem_range.mp hr
    have : numRounds key - 1 - 1 - r + 1 = numRounds key - 1 - r := by omega
    simp only [this]
  rw [e, List.foldl_map]
  rfl

theorem numRounds_ge (key : Bytes) (hk : keyOK key = true) : 2 ≤ numRounds key := by
  have := keyOK_cases hk
  simp only [numRounds]; omega

theorem midKeys_bb (key : Bytes) (hk : keyOK key = true) (hkb : IsBytes key) :
    ∀ k ∈ midKeys key, BB k := by
  intro k hk'
  obtain ⟨r, hr, rfl⟩ := List.mem_map.mp hk'
  have hr' : r < numRounds key - 1 := List.mem_range.mp hr
  exact roundKey_block closed_byte key hk hkb (r + 1) (by omega)

/-! ### deliverables -/

/-- `Cipher` returns 16 elements for a valid key (no hypothesis on the block is needed). -/
theorem aes_encrypt_length' (key blk : Bytes) (hk : keyOK key = true) :
    (AES.encryptBlock key blk).length = 16 := encryptBlock_length key blk hk

set_option linter.unusedVariables false in
/-- the same with the (unnecessary) block-length hypothesis, as the property files state it -/
theorem aes_encrypt_length (key blk : Bytes) (hk : keyOK key = true) (hb : blk.length = 16) :
    (AES.encryptBlock key blk).length = 16 := encryptBlock_length key blk hk

/-- `InvCipher` returns 16 elements for a valid key (no hypothesis on the block is needed). -/
theorem aes_decrypt_length (key blk : Bytes) (hk : keyOK key = true) :
    (AES.decryptBlock key blk).length = 16 := decryptBlock_length key blk hk

/-- `Cipher` returns bytes for a valid key of bytes (no hypothesis on the block is needed). -/
theorem aes_encrypt_isBytes (key blk : Bytes) (hk : keyOK key = true) (hkb : IsBytes key) :
    IsBytes (AES.encryptBlock key blk) := by
  rw [encryptBlock_eq]
  exact (bb_xor (bb_sr_sb _) (roundKey_block closed_byte key hk hkb _ (Nat.le_refl _))).2

/-- `InvCipher` returns bytes for a valid key of bytes (no hypothesis on the block is needed). -/
theorem aes_decrypt_isBytes (key blk : Bytes) (hk : keyOK key = true) (hkb : IsBytes key) :
    IsBytes (AES.decryptBlock key blk) := by
  rw [decryptBlock_eq key blk (numRounds_ge key hk)]
  exact (bb_xor (bb_isb_isr _) (roundKey_block closed_byte key hk hkb _ (Nat.zero_le _))).2

set_option linter.unusedVariables false in
/-- (`hb`, `hbb` are not needed: see `aes_encrypt_length'`, `aes_encrypt_isBytes`) -/
theorem aes_encrypt_block (key blk : Bytes) (hk : keyOK key = true) (hkb : IsBytes key)
    (hb : blk.length = 16) (hbb : IsBytes blk) :
    (AES.encryptBlock key blk).length = 16 ∧ IsBytes (AES.encryptBlock key blk) :=
  ⟨encryptBlock_length key blk hk, aes_encrypt_isBytes key blk hk hkb⟩

set_option linter.unusedVariables false in
/-- (`hb`, `hbb` are not needed: see `aes_decrypt_length`, `aes_decrypt_isBytes`) -/
theorem aes_decrypt_block (key blk : Bytes) (hk : keyOK key = true) (hkb : IsBytes key)
    (hb : blk.length = 16) (hbb : IsBytes blk) :
    (AES.decryptBlock key blk).length = 16 ∧ IsBytes (AES.decryptBlock key blk) :=
  ⟨decryptBlock_length key blk hk, aes_decrypt_isBytes key blk hk hkb⟩

/-- the main one: InvCipher inverts Cipher for every valid key and every block -/
theorem aes_decrypt_encrypt (key blk : Bytes) (hk : keyOK key = true) (hkb : IsBytes key)
    (hb : blk.length = 16) (hbb : IsBytes blk) :
    AES.decryptBlock key (AES.encryptBlock key blk) = blk := by
  have hk0 : BB (roundKey (expandKey key) 0) :=
    roundKey_block closed_byte key hk hkb 0 (Nat.zero_le _)
  have hkN : BB (roundKey (expandKey key) (numRounds key)) :=
    roundKey_block closed_byte key hk hkb _ (Nat.le_refl _)
  have hmid := midKeys_bb key hk hkb
  have hs0 : BB (xorBlock blk (roundKey (expandKey key) 0)) := bb_xor ⟨hb, hbb⟩ hk0
  rw [decryptBlock_eq key _ (numRounds_ge key hk), encryptBlock_eq,
    xorBlock_cancel _ _ (by rw [shiftRows_length, hkN.1]; exact Nat.le_refl _),
    decFold_encFold (midKeys key) _ hmid, unSubShift _ hs0,
    xorBlock_cancel _ _ (by rw [hb, hk0.1]; exact Nat.le_refl _)]

end Golib.C08
