/-
C01 — ring values are independent unless they share their slot array, and `Init` makes the
ring value it is called on independent of every other one.
-/
import Golib.Model.C01Heap

namespace Golib.C01

theorem wf_lt {w : World} (h : w.WF) {y : Nat} {r : RingVal} (hy : w.vars[y]? = some r) :
    r.arr < w.heap.length := h r (List.mem_of_getElem? hy)

/-- `x.Init(cap)`: the ring value becomes a fresh empty ring on a NEW array; every other
ring value keeps its fields and its array content, and none of them refers to the new
array — whatever was copied from or to `x` before. -/
theorem init_fresh {w : World} (h : w.WF) {x : Nat} (hx : x < w.vars.length) (cap : Nat) :
    let w' := w.init x cap
    w'.WF ∧
    w'.view x = some ({ head := 0, tail := 0, cap := cap, arr := w.heap.length }, freshSlots cap) ∧
    (∀ y r, y ≠ x → w.vars[y]? = some r →
      w'.vars[y]? = some r ∧ w'.view y = w.view y ∧ r.arr ≠ w.heap.length) := by
  intro w'
  refine ⟨?_, ?_, ?_⟩
  · intro r hr
    simp only [w', World.init, List.length_append, List.length_singleton] at hr ⊢
    rcases List.mem_or_eq_of_mem_set hr with hm | rfl
    · have := h r hm; omega
    · simp
  · simp only [w', World.view, World.init, List.getElem?_set_self hx]
    simp
  · intro y r hy hr
    have hlt := wf_lt h hr
    have hv : w'.vars[y]? = some r := by
      simp only [w', World.init]
      rw [List.getElem?_set_ne (fun e => hy e.symm)]; exact hr
    refine ⟨hv, ?_, by omega⟩
    simp only [World.view, hv, hr]
    simp only [w', World.init]
    rw [List.getElem?_append_left hlt]

/-- a call on ring value `x` changes only `x`'s counters and the array `x` refers to: every
ring value on a DIFFERENT array is untouched; the call's result and `x`'s new state are a
function of `x`'s view alone (definition of `World.call`). -/
theorem call_frame (M : Nat) {w : World} (h : w.WF) (x : Nat) (call : Call) :
    (w.call M x call).1.WF ∧
    ∀ y r rx, y ≠ x → w.vars[y]? = some r → w.vars[x]? = some rx → r.arr ≠ rx.arr →
      (w.call M x call).1.vars[y]? = some r ∧ (w.call M x call).1.view y = w.view y := by
  unfold World.call
  cases hx : w.vars[x]? with
  | none =>
    simp only []
    exact ⟨h, fun y r rx _ hr hrx => by simp at hrx⟩
  | some rx =>
    cases hs : w.heap[rx.arr]? with
    | none =>
      simp only [hs]
      exact ⟨h, fun y r rx' _ hr _ _ => ⟨hr, trivial⟩⟩
    | some slots =>
      cases hc : runCall { M := M, cap := rx.cap } 8
          { head := rx.head, tail := rx.tail, slots := slots, threads := [mkThread [call]], crashed := false } 0 with
      | none =>
        simp only [hs, hc]
        exact ⟨h, fun y r rx' _ hr _ _ => ⟨hr, trivial⟩⟩
      | some p =>
        obtain ⟨s1, ret⟩ := p
        simp only [hs, hc]
        refine ⟨?_, ?_⟩
        · intro r hr
          simp only [List.length_set] at hr ⊢
          rcases List.mem_or_eq_of_mem_set hr with hm | rfl
          · exact h r hm
          · exact wf_lt (r := rx) h hx
        · intro y r rx' hy hr hrx hne
          obtain rfl := Option.some.inj hrx
          have hv : (w.vars.set x { rx with head := s1.head, tail := s1.tail })[y]? = some r := by
            rw [List.getElem?_set_ne (fun e => hy e.symm)]; exact hr
          refine ⟨hv, ?_⟩
          simp only [World.view, hv, hr]
          rw [List.getElem?_set_ne (fun e => hne e.symm)]

/-- a struct copy shares the array: the copy has the same view (so calls on one are visible
through the other until one of them is `Init`-ed — which `init_fresh` then separates) -/
theorem copy_view {w : World} {x y : Nat} {r : RingVal} (hx : w.vars[x]? = some r)
    (hy : y < w.vars.length) : (w.copy x y).view y = w.view x ∧ (w.copy x y).heap = w.heap := by
  constructor
  · simp only [World.copy, hx, World.view, List.getElem?_set_self hy]
  · simp only [World.copy, hx]

end Golib.C01
