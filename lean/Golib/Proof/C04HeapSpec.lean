/-
C04 helper lemmas, part 11: the specification of `Heap[T]` with `*Element[T]` handles — a pair of
multisets of handles with a value per handle — and the proof that the model refines it along
every operation sequence.

Spec state (`HSpec`): for each of the two heaps the list of LIVE handles (order irrelevant: the
relation to the model is `List.Perm`), the value of every handle, the allocation counter, the
comparator of each heap (given to `New`, replaced by every `Init`).
A spec step is given by
* `specPre s op`   — what the client must respect (only: the comparator given to `Init` is a
  strict weak order; `PushElement` takes a detached, allocated element; a value changed through
  `setFix h e v` belongs to no OTHER heap),
* `specOK s op r`  — which results `r` are allowed (`Pop`/`Peek`: nil iff empty, else a live
  handle no live handle precedes; `PopAll`: the values, each once, sorted),
* `specStep s op r` — the next state (`Remove(e)`: the live handles minus `e`, which is the
  identity for stale and foreign handles; `Fix`: nothing but the value changes).
-/
import Golib.Proof.C04HeapInit

set_option linter.unusedSimpArgs false
set_option linter.unusedVariables false

namespace Golib.C04
open Golib.C13 (PM IM)

structure HSpec where
  live  : Fin 2 → List Nat
  val   : Nat → Int
  fresh : Nat
  cmp   : Fin 2 → Int → Int → Bool

def HSpec.zero (cmp : Int → Int → Bool) : HSpec :=
  { live := fun _ => [], val := fun _ => 0, fresh := 0, cmp := fun _ => cmp }

/-- replace the live handles of heap `h` -/
def HSpec.setLive (s : HSpec) (h : Fin 2) (l : List Nat) : Fin 2 → List Nat :=
  fun h' => if h' = h then l else s.live h'

def specPre (s : HSpec) : HOp → Prop
  | .init _ c _ => SWO c
  | .pushElem _ e => e < s.fresh ∧ ∀ h', e ∉ s.live h'
  | .setFix h e _ => ∀ h', h' ≠ h → e ∉ s.live h'
  | .setRemove h e _ => ∀ h', h' ≠ h → e ∉ s.live h'
  | _ => True

/-- `e` is live in `h` and no live element of `h` precedes it (in `h`'s comparator). -/
def IsMin (s : HSpec) (h : Fin 2) (e : Nat) : Prop :=
  e ∈ s.live h ∧ ∀ y, y ∈ s.live h → s.cmp h (s.val y) (s.val e) = false

def MinRet (s : HSpec) (h : Fin 2) (r : HRet) : Prop :=
  (s.live h = [] ∧ r = .handle none) ∨ ∃ e, r = .handle (some e) ∧ IsMin s h e

/-- the spec state after `Pop` returned `e` -/
def specPop (s : HSpec) (h : Fin 2) (e : Nat) : HSpec :=
  { s with live := s.setLive h ((s.live h).erase e) }

/-- the spec state after the successive `Pop` results `es` -/
def specPops (s : HSpec) (h : Fin 2) : List Nat → HSpec
  | [] => s
  | e :: es => specPops (specPop s h e) h es

/-- `es` are the results of `k` successive `Pop`s (fewer iff the heap ran empty): each is a live
handle no live handle precedes at its turn. An interrupted `PopAll` is specified as exactly that. -/
def PopsOK (s : HSpec) (h : Fin 2) : Nat → List Nat → Prop
  | 0, es => es = []
  | _ + 1, [] => s.live h = []
  | k + 1, e :: es => IsMin s h e ∧ PopsOK (specPop s h e) h k es

def specOK (s : HSpec) : HOp → HRet → Prop
  | .init _ _ _, r => r = .unit
  | .push _ _, r => r = .handle (some s.fresh)
  | .pushElem _ _, r => r = .unit
  | .pop h, r => MinRet s h r
  | .peek h, r => MinRet s h r
  | .len h, r => r = .len (s.live h).length
  | .remove _ _, r => r = .unit
  | .fix _ _, r => r = .unit
  | .setFix _ _ _, r => r = .unit
  | .setRemove _ _ _, r => r = .unit
  | .popAll h, r => ∃ xs, r = .vals xs ∧ xs.Perm ((s.live h).map s.val) ∧
      xs.Pairwise (fun a b => s.cmp h b a = false)
  | .popAllN h k, r => ∃ es, r = .popped es ∧ PopsOK s h k es

def specStep (s : HSpec) : HOp → HRet → HSpec
  | .init h c vs, _ =>
    { live := s.setLive h (List.range' s.fresh vs.length),
      val := fun e => if s.fresh ≤ e ∧ e < s.fresh + vs.length then vs.getD (e - s.fresh) 0 else s.val e,
      fresh := s.fresh + vs.length,
      cmp := fun h' => if h' = h then c else s.cmp h' }
  | .push h x, _ =>
    { s with live := s.setLive h (s.fresh :: s.live h),
             val := fun e => if e = s.fresh then x else s.val e,
             fresh := s.fresh + 1 }
  | .pushElem h e, _ => { s with live := s.setLive h (e :: s.live h) }
  | .pop h, .handle (some e) => specPop s h e
  | .popAllN h _, .popped es => specPops s h es
  | .remove h e, _ => { s with live := s.setLive h ((s.live h).erase e) }
  | .setFix _ e v, _ => { s with val := fun x => if x = e then v else s.val x }
  | .setRemove h e v, _ =>
    { s with val := fun x => if x = e then v else s.val x, live := s.setLive h ((s.live h).erase e) }
  | .popAll h, _ => { s with live := s.setLive h [] }
  | _, _ => s

/-- The refinement relation: the invariant of the memory, `h.values` holds exactly the live
handles of `h`, `h.cmp` is the spec's comparator of `h` and a strict weak order. -/
structure Rel (st : HState) (s : HSpec) : Prop where
  ok : MemOK st.cmp st.m
  live : ∀ h : Fin 2, (st.m.arr h.val).Perm (s.live h)
  val : ∀ e, st.m.val.get e = s.val e
  fresh : st.m.fresh = s.fresh
  cmpEq : ∀ h : Fin 2, st.cmp h.val = s.cmp h
  swo : ∀ h : Fin 2, SWO (s.cmp h)

/-- Along `ops`, as long as the client respects the preconditions (judged on the spec state):
no operation panics, its result is one the spec allows, and the relation holds again. -/
def Refines : List HOp → HState → HSpec → Prop
  | [], _, _ => True
  | op :: ops, st, s =>
    specPre s op → ∃ st' r, stepH st op = some (st', r) ∧ specOK s op r ∧
      Rel st' (specStep s op r) ∧ Refines ops st' (specStep s op r)

/-! ### the empty memory -/

theorem memOK_zero (cm : Nat → Int → Int → Bool) : MemOK cm HMem.zero := by
  have harr : ∀ h, HMem.zero.arr h = [] := by intro h; unfold HMem.arr HMem.zero; split <;> rfl
  refine ⟨⟨?_, ?_, ?_, ?_⟩, ?_, ?_⟩
  · intro h _; exact ⟨by rw [harr]; exact List.nodup_nil, by intro k e hk; rw [harr] at hk; simp at hk⟩
  · intro e h _; rw [harr]; simp [HMem.zero, PM.get_empty]
  · intro e h he; simp [HMem.zero, PM.get_empty] at he
  · intro h _ e he; rw [harr] at he; cases he
  · intro e _ hf; simp [HMem.zero] at hf
  · intro h _; unfold HeapOrd; rw [harr]; exact heap_nil _

theorem rel_zero {cmp} (hs : SWO cmp) : Rel (HState.zero cmp) (HSpec.zero cmp) := by
  refine ⟨memOK_zero _, ?_, ?_, rfl, ?_, fun _ => hs⟩
  · intro h
    have : HMem.zero.arr h.val = [] := by unfold HMem.arr HMem.zero; split <;> rfl
    show (HMem.zero.arr h.val).Perm []
    rw [this]
  · intro e; simp [HState.zero, HMem.zero, HSpec.zero, IM.get_empty]
  · intro h; simp [HState.zero, HState.cmp, HSpec.zero]

/-! ### one step -/

theorem fin_oth {h h' : Fin 2} (hne : h' ≠ h) : h'.val = oth h.val := by
  rcases eq_or_oth h.isLt h'.isLt with e | e
  · exact absurd (Fin.ext e) hne
  · exact e

theorem memOK_congr {cm cm' : Nat → Int → Int → Bool} {m : HMem} (h : MemOK cm m)
    (e : ∀ h, h < 2 → cm' h = cm h) : MemOK cm' m :=
  ⟨h.core, h.left, fun h' hh' => by rw [e h' hh']; exact h.ord h' hh'⟩

/-- the state after an operation that does not touch the comparators -/
theorem rel_mk {st : HState} {m' : HMem} {s s' : HSpec} (R : Rel st s) (h : Fin 2)
    (hok : MemOK st.cmp m')
    (hl : (m'.arr h.val).Perm (s'.live h)) (ho : m'.arr (oth h.val) = st.m.arr (oth h.val))
    (hs : ∀ h' : Fin 2, h' ≠ h → s'.live h' = s.live h')
    (hv : ∀ e, m'.val.get e = s'.val e) (hf : m'.fresh = s'.fresh) (hc : s'.cmp = s.cmp) :
    Rel { st with m := m' } s' := by
  refine ⟨hok, ?_, hv, hf, fun h' => by rw [hc]; exact R.cmpEq h', fun h' => by rw [hc]; exact R.swo h'⟩
  intro h'
  show (m'.arr h'.val).Perm (s'.live h')
  by_cases hne : h' = h
  · subst hne; exact hl
  · rw [hs h' hne, fin_oth hne, ho, ← fin_oth hne]; exact R.live h'

theorem setLive_self (s : HSpec) (h : Fin 2) (l : List Nat) : s.setLive h l h = l := by
  simp [HSpec.setLive]

theorem setLive_other (s : HSpec) (h : Fin 2) (l : List Nat) (h' : Fin 2) (hne : h' ≠ h) :
    s.setLive h l h' = s.live h' := by
  simp [HSpec.setLive, hne]

theorem mem_live_iff {st : HState} {s : HSpec} (R : Rel st s) (h : Fin 2) (e : Nat) :
    e ∈ s.live h ↔ st.m.own.get e = some h.val :=
  ((R.live h).mem_iff).symm.trans (R.ok.core.own e h.val h.isLt).symm

theorem own_none_of_dead {st : HState} {s : HSpec} (R : Rel st s) {e : Nat}
    (hd : ∀ h', e ∉ s.live h') : st.m.own.get e = none := by
  cases ho : st.m.own.get e with
  | none => rfl
  | some h' =>
    have hh' := R.ok.core.ownR e h' ho
    exact absurd ((mem_live_iff R ⟨h', hh'⟩ e).2 ho) (hd ⟨h', hh'⟩)

theorem perm_erase_of_cons {a : Nat} {l l' : List Nat} (h : (a :: l').Perm l) : l'.Perm (l.erase a) := by
  have := h.erase a
  simpa using this

/-- changing the value of an element that is in no heap keeps the invariant -/
theorem memOK_setVal_dead {cm} {m : HMem} (hok : MemOK cm m) {e : Nat} (v : Int)
    (hd : ∀ h, h < 2 → e ∉ m.arr h) : MemOK cm ({ m with val := m.val.set e v } : HMem) := by
  have hc0 := hok.core
  refine ⟨⟨fun h' hh' => ⟨(hc0.idx h' hh').nodup, (hc0.idx h' hh').index⟩, hc0.own, hc0.ownR, hc0.ltf⟩,
    hok.left, ?_⟩
  intro h hh
  rw [heapOrd_iff]
  refine ordAt_congr (m := m) rfl ?_ ((heapOrd_iff (cm h) m h).1 (hok.ord h hh))
  intro x hx
  show (m.val.set e v).get x = _
  rw [IM.get_set]
  have : x ≠ e := fun hxe => hd h hh (hxe ▸ hx)
  simp [this]

theorem swo_of {st : HState} {s : HSpec} (R : Rel st s) (h : Fin 2) : SWO (st.cmp h.val) := by
  rw [R.cmpEq h]; exact R.swo h

theorem minRet_of {st : HState} {s : HSpec} (R : Rel st s) (h : Fin 2)
    (hne : st.m.arr h.val ≠ []) : IsMin s h (elemAt st.m h.val 0) := by
  have hpos : 0 < (st.m.arr h.val).length := List.length_pos_iff.2 hne
  refine ⟨(R.live h).mem_iff.1 (elemAt_mem hpos), ?_⟩
  intro y hy
  have := heapOrd_root_min (swo_of R h) (R.ok.ord h.val h.isLt) y ((R.live h).mem_iff.2 hy)
  rwa [R.val, R.val, R.cmpEq h] at this

theorem live_nil_iff {st : HState} {s : HSpec} (R : Rel st s) (h : Fin 2) :
    st.m.arr h.val = [] ↔ s.live h = [] := by
  constructor
  · intro h0; have := R.live h; rw [h0] at this; exact List.Perm.nil_eq this |>.symm
  · intro h0; have := R.live h; rw [h0] at this; exact List.Perm.eq_nil this

theorem rel_pop {st : HState} {s : HSpec} (R : Rel st s) (h : Fin 2) :
    (st.m.arr h.val = [] → st.m.pop (st.cmp h.val) h.val = some (st.m, none) ∧ s.live h = []) ∧
    (st.m.arr h.val ≠ [] → ∃ m' e, st.m.pop (st.cmp h.val) h.val = some (m', some e) ∧ IsMin s h e ∧
      Rel { st with m := m' } (specPop s h e)) := by
  have hok := R.ok
  refine ⟨fun h0 => ⟨(pop_spec (swo_of R h) h.isLt hok).1 h0, (live_nil_iff R h).1 h0⟩, fun h0 => ?_⟩
  obtain ⟨m', hrun, hrm⟩ := (pop_spec (swo_of R h) h.isLt hok).2 h0
  refine ⟨m', _, hrun, minRet_of R h h0, ?_⟩
  refine rel_mk R h hrm.ok ?_ hrm.other (fun h' hne => setLive_other s h _ h' hne) ?_ ?_ rfl
  · simp only [specPop, setLive_self]
    exact perm_erase_of_cons (hrm.perm.trans (R.live h))
  · intro e; rw [hrm.val]; exact R.val e
  · rw [hrm.fresh]; exact R.fresh

/-- `PopAll` left after `k` elements = `k` `Pop`s, in the model and in the spec. -/
theorem rel_popAllK (h : Fin 2) : ∀ (k : Nat) (st : HState) (s : HSpec), Rel st s →
    ∃ m' es, HMem.popAllK (st.cmp h.val) h.val k st.m = some (m', es) ∧ PopsOK s h k es ∧
      Rel { st with m := m' } (specPops s h es) := by
  intro k
  induction k with
  | zero => intro st s R; exact ⟨st.m, [], rfl, rfl, R⟩
  | succ k ih =>
    intro st s R
    by_cases h0 : st.m.arr h.val = []
    · obtain ⟨hrun, hl⟩ := (rel_pop R h).1 h0
      exact ⟨st.m, [], by simp [HMem.popAllK, hrun], hl, R⟩
    · obtain ⟨m1, e, hrun, hmin, R1⟩ := (rel_pop R h).2 h0
      obtain ⟨m2, es, hrun2, hok2, R2⟩ := ih { st with m := m1 } _ R1
      have hrun2' : HMem.popAllK (st.cmp h.val) h.val k m1 = some (m2, es) := hrun2
      exact ⟨m2, e :: es, by simp [HMem.popAllK, hrun, hrun2'], ⟨hmin, hok2⟩, R2⟩

theorem step_refines {st : HState} {s : HSpec} (R : Rel st s) (op : HOp)
    (hpre : specPre s op) :
    ∃ st' r, stepH st op = some (st', r) ∧ specOK s op r ∧ Rel st' (specStep s op r) := by
  have hok := R.ok
  cases op with
  | init h c vs =>
    have hsc : SWO c := hpre
    obtain ⟨m', hrun, hok', hperm, hoth, hfresh, hval⟩ := init_spec hsc h.isLt hok vs
    refine ⟨{ st.setCmp h.val c with m := m' }, .unit, by simp [stepH, hrun], rfl, ?_⟩
    have hcmp : ∀ h' : Fin 2, ({ st.setCmp h.val c with m := m' } : HState).cmp h'.val
        = if h' = h then c else st.cmp h'.val := by
      intro h'
      have h2 : h'.val = 0 ∨ h'.val = 1 := lt2_cases h'.isLt
      have h3 : h.val = 0 ∨ h.val = 1 := lt2_cases h.isLt
      by_cases e : h' = h
      · subst e; rcases h2 with h2 | h2 <;> simp [HState.cmp, HState.setCmp, h2]
      · have : h'.val ≠ h.val := fun hh => e (Fin.ext hh)
        rcases h2 with h2 | h2 <;> rcases h3 with h3 | h3 <;>
          simp [HState.cmp, HState.setCmp, h2, h3, e] <;> omega
    refine ⟨?_, ?_, ?_, ?_, ?_, ?_⟩
    · refine memOK_congr hok' ?_
      intro h' hh'
      have := hcmp ⟨h', hh'⟩
      simp only at this
      rw [this]
      by_cases e : (⟨h', hh'⟩ : Fin 2) = h
      · have e' : h' = h.val := by rw [← e]
        simp [e, updC, e']
      · have e' : h' ≠ h.val := fun hh => e (Fin.ext hh)
        simp [e, updC, e']
    · intro h'
      show (m'.arr h'.val).Perm _
      by_cases hne : h' = h
      · subst hne; simp only [specStep, setLive_self]; rw [← R.fresh]; exact hperm
      · simp only [specStep, setLive_other s h _ h' hne]
        rw [fin_oth hne, hoth, ← fin_oth hne]; exact R.live h'
    · intro e; show m'.val.get e = _; rw [hval e]; simp only [specStep, R.fresh, R.val]
    · show m'.fresh = _; simp only [specStep]; rw [hfresh, R.fresh]
    · intro h'
      rw [hcmp h']
      simp only [specStep]
      by_cases e : h' = h <;> simp [e, R.cmpEq h']
    · intro h'
      simp only [specStep]
      by_cases e : h' = h
      · simp [e]; exact hsc
      · simp [e]; exact R.swo h'
  | push h x =>
    obtain ⟨m', hrun, hok', hperm, hoth, hval, hfresh⟩ := push_spec (swo_of R h) h.isLt hok x
    refine ⟨{ st with m := m' }, .handle (some st.m.fresh), by simp [stepH, hrun],
      by simp [specOK, R.fresh], ?_⟩
    refine rel_mk R h hok' ?_ hoth (fun h' hne => setLive_other s h _ h' hne) ?_ ?_ rfl
    · simp only [specStep, setLive_self]; rw [← R.fresh]
      exact hperm.trans (List.Perm.cons _ (R.live h))
    · intro e; rw [hval, IM.get_set]; simp only [specStep, R.fresh, R.val]
    · simp only [specStep]; rw [hfresh, R.fresh]
  | pushElem h e =>
    obtain ⟨hf, hd⟩ := hpre
    have hown := own_none_of_dead R hd
    obtain ⟨m', hrun, hok', hperm, hoth, hval, hfresh⟩ :=
      pushElement_core (swo_of R h) h.isLt hok.core (fun x _ hxf hxo => hok.left x trivial hxf hxo) hok.ord
        (by rw [R.fresh]; exact hf) hown
    refine ⟨{ st with m := m' }, .unit, by simp [stepH, hrun], rfl, ?_⟩
    refine rel_mk R h hok' ?_ hoth (fun h' hne => setLive_other s h _ h' hne) ?_ ?_ rfl
    · simp only [specStep, setLive_self]
      exact hperm.trans (List.Perm.cons _ (R.live h))
    · intro e'; rw [hval]; exact R.val e'
    · rw [hfresh]; exact R.fresh
  | pop h =>
    by_cases h0 : st.m.arr h.val = []
    · refine ⟨{ st with m := st.m }, .handle none,
        by simp [stepH, (pop_spec (swo_of R h) h.isLt hok).1 h0], ?_, R⟩
      exact Or.inl ⟨(live_nil_iff R h).1 h0, rfl⟩
    · obtain ⟨m', hrun, hrm⟩ := (pop_spec (swo_of R h) h.isLt hok).2 h0
      refine ⟨{ st with m := m' }, .handle (some (elemAt st.m h.val 0)), by simp [stepH, hrun], ?_, ?_⟩
      · exact Or.inr ⟨_, rfl, minRet_of R h h0⟩
      · refine rel_mk R h hrm.ok ?_ hrm.other (fun h' hne => setLive_other s h _ h' hne) ?_ ?_ rfl
        · simp only [specStep, specPop, setLive_self]
          exact perm_erase_of_cons (hrm.perm.trans (R.live h))
        · intro e; rw [hrm.val]; exact R.val e
        · rw [hrm.fresh]; exact R.fresh
  | peek h =>
    by_cases h0 : st.m.arr h.val = []
    · refine ⟨st, .handle none, by simp [stepH, (peek_spec st.m h.val).1 h0], ?_, R⟩
      exact Or.inl ⟨(live_nil_iff R h).1 h0, rfl⟩
    · refine ⟨st, .handle (some (elemAt st.m h.val 0)), by simp [stepH, (peek_spec st.m h.val).2 h0], ?_, R⟩
      exact Or.inr ⟨_, rfl, minRet_of R h h0⟩
  | len h =>
    refine ⟨st, .len (st.m.arr h.val).length, rfl, ?_, R⟩
    simp [specOK, (R.live h).length_eq]
  | remove h e =>
    by_cases hown : st.m.own.get e = some h.val
    · obtain ⟨m', hrun, hrm⟩ := remove_spec (swo_of R h) h.isLt hok hown
      refine ⟨{ st with m := m' }, .unit, by simp [stepH, hrun], rfl, ?_⟩
      refine rel_mk R h hrm.ok ?_ hrm.other (fun h' hne => setLive_other s h _ h' hne) ?_ ?_ rfl
      · simp only [specStep, setLive_self]
        exact perm_erase_of_cons (hrm.perm.trans (R.live h))
      · intro e'; rw [hrm.val]; exact R.val e'
      · rw [hrm.fresh]; exact R.fresh
    · have hrun := (heap_handles_ignored (st.cmp h.val) st.m h.val e hown).1
      refine ⟨{ st with m := st.m }, .unit, by simp [stepH, hrun], rfl, ?_⟩
      have hnot : e ∉ s.live h := fun he => hown ((mem_live_iff R h e).1 he)
      refine rel_mk R h hok ?_ rfl (fun h' hne => setLive_other s h _ h' hne) R.val R.fresh rfl
      simp only [specStep, setLive_self]
      rw [List.erase_of_not_mem hnot]; exact R.live h
  | fix h e =>
    by_cases hown : st.m.own.get e = some h.val
    · obtain ⟨m', hrun, hok', hperm, hoth, hval, hfresh⟩ :=
        fixElem_spec (val' := st.m.val) (swo_of R h) h.isLt hok (fun _ _ => rfl) hown
      have hrun' : st.m.fixElem (st.cmp h.val) h.val e = some m' := hrun
      refine ⟨{ st with m := m' }, .unit, by simp [stepH, hrun'], rfl, ?_⟩
      refine rel_mk R h hok' (hperm.trans (R.live h)) hoth (fun _ _ => rfl) ?_ ?_ rfl
      · intro e'; rw [hval]; exact R.val e'
      · rw [hfresh]; exact R.fresh
    · have hrun := (heap_handles_ignored (st.cmp h.val) st.m h.val e hown).2
      exact ⟨{ st with m := st.m }, .unit, by simp [stepH, hrun], rfl, R⟩
  | setFix h e v =>
    have hvalS : ∀ (m' : HMem), m'.val = st.m.val.set e v →
        ∀ x, m'.val.get x = (specStep s (.setFix h e v) .unit).val x := by
      intro m' hm' x
      rw [hm', IM.get_set]; simp only [specStep, R.val]
    by_cases hown : st.m.own.get e = some h.val
    · obtain ⟨m', hrun, hok', hperm, hoth, hval, hfresh⟩ :=
        fixElem_spec (val' := st.m.val.set e v) (swo_of R h) h.isLt hok
          (fun x hx => by rw [IM.get_set]; simp [hx]) hown
      refine ⟨{ st with m := m' }, .unit, by simp [stepH, hrun], rfl, ?_⟩
      refine rel_mk R h hok' (hperm.trans (R.live h)) hoth (fun _ _ => rfl) (hvalS m' hval) ?_ rfl
      rw [hfresh]; exact R.fresh
    · let m1 : HMem := { st.m with val := st.m.val.set e v }
      have hrun : m1.fixElem (st.cmp h.val) h.val e = some m1 :=
        (heap_handles_ignored (st.cmp h.val) m1 h.val e hown).2
      have hdead : ∀ h', h' < 2 → e ∉ st.m.arr h' := by
        intro h' hh' he
        by_cases hne : (⟨h', hh'⟩ : Fin 2) = h
        · exact hown (by rw [← hne]; exact (hok.core.own e h' hh').2 he)
        · exact hpre ⟨h', hh'⟩ hne ((R.live ⟨h', hh'⟩).mem_iff.1 he)
      have hstep : stepH st (.setFix h e v) = some ({ st with m := m1 }, .unit) := by
        show (m1.fixElem (st.cmp h.val) h.val e).map (fun m2 => (({ st with m := m2 } : HState), HRet.unit)) = _
        rw [hrun]; rfl
      refine ⟨{ st with m := m1 }, .unit, hstep, rfl, ?_⟩
      exact ⟨memOK_setVal_dead hok v hdead, R.live, hvalS m1 rfl, R.fresh, R.cmpEq, R.swo⟩
  | setRemove h e v =>
    have hvalS : ∀ (m' : HMem), m'.val = st.m.val.set e v →
        ∀ x, m'.val.get x = (specStep s (.setRemove h e v) .unit).val x := by
      intro m' hm' x
      rw [hm', IM.get_set]; simp only [specStep, R.val]
    by_cases hown : st.m.own.get e = some h.val
    · obtain ⟨m', hrun, hok', hperm, hoth, hval, hfresh, _, _⟩ :=
        remove_change_spec (val' := st.m.val.set e v) (swo_of R h) h.isLt hok
          (fun x hx => by rw [IM.get_set]; simp [hx]) hown
      refine ⟨{ st with m := m' }, .unit, by simp [stepH, hrun], rfl, ?_⟩
      refine rel_mk R h hok' ?_ hoth (fun h' hne => by simp only [specStep]; exact setLive_other s h _ h' hne)
        (hvalS m' hval) ?_ rfl
      · simp only [specStep, setLive_self]
        exact perm_erase_of_cons (hperm.trans (R.live h))
      · rw [hfresh]; exact R.fresh
    · let m1 : HMem := { st.m with val := st.m.val.set e v }
      have hrun : m1.remove (st.cmp h.val) h.val e = some m1 :=
        (heap_handles_ignored (st.cmp h.val) m1 h.val e hown).1
      have hdead : ∀ h', h' < 2 → e ∉ st.m.arr h' := by
        intro h' hh' he
        by_cases hne : (⟨h', hh'⟩ : Fin 2) = h
        · exact hown (by rw [← hne]; exact (hok.core.own e h' hh').2 he)
        · exact hpre ⟨h', hh'⟩ hne ((R.live ⟨h', hh'⟩).mem_iff.1 he)
      have hstep : stepH st (.setRemove h e v) = some ({ st with m := m1 }, .unit) := by
        show (m1.remove (st.cmp h.val) h.val e).map (fun m2 => (({ st with m := m2 } : HState), HRet.unit)) = _
        rw [hrun]; rfl
      refine ⟨{ st with m := m1 }, .unit, hstep, rfl, ?_⟩
      have hnot : e ∉ s.live h := fun he => hown ((mem_live_iff R h e).1 he)
      refine ⟨memOK_setVal_dead hok v hdead, ?_, hvalS m1 rfl, R.fresh, R.cmpEq, R.swo⟩
      intro h'
      show (st.m.arr h'.val).Perm _
      simp only [specStep]
      by_cases hne : h' = h
      · subst hne; rw [setLive_self, List.erase_of_not_mem hnot]; exact R.live h'
      · rw [setLive_other s h _ h' hne]; exact R.live h'
  | popAll h =>
    obtain ⟨m', xs, hrun, hok', hemp, hoth, hval, hfresh, hperm, hsorted⟩ :=
      popAll_spec (swo_of R h) h.isLt (st.m.arr h.val).length st.m rfl hok
    refine ⟨{ st with m := m' }, .vals xs, by simp [stepH, hrun], ⟨xs, rfl, ?_, ?_⟩, ?_⟩
    · refine hperm.trans ?_
      have : (st.m.arr h.val).map st.m.val.get = (st.m.arr h.val).map s.val :=
        List.map_congr_left (fun e _ => R.val e)
      rw [this]; exact (R.live h).map _
    · rw [← R.cmpEq h]; exact hsorted
    · refine rel_mk R h hok' ?_ hoth (fun h' hne => setLive_other s h _ h' hne) ?_ ?_ rfl
      · simp only [specStep, setLive_self]; rw [hemp]
      · intro e; rw [hval]; exact R.val e
      · rw [hfresh]; exact R.fresh
  | popAllN h k =>
    obtain ⟨m', es, hrun, hpok, R'⟩ := rel_popAllK h k st s R
    exact ⟨{ st with m := m' }, .popped es, by simp [stepH, hrun], ⟨es, rfl, hpok⟩, R'⟩

/-- The refinement along every operation sequence. -/
theorem refines_all : ∀ (ops : List HOp) (st : HState) (s : HSpec),
    Rel st s → Refines ops st s := by
  intro ops
  induction ops with
  | nil => intro st s _; trivial
  | cons op ops ih =>
    intro st s R hpre
    obtain ⟨st', r, hrun, hokr, R'⟩ := step_refines R op hpre
    exact ⟨st', r, hrun, hokr, R', ih st' _ R'⟩

end Golib.C04
