/-
C01 — the 32-bit machine and the ghost machine along whole schedules: `run32` (simulation
by induction over the schedule under BoundedLag), the single-thread case (no hypothesis),
and what transfers to the 32-bit machine.
-/
import Golib.Proof.C01U32
import Golib.Proof.C01Lin

namespace Golib.C01
open Golib.C01.Util

/-- BoundedLag in a state: EVERY thread's stale loaded ticket is within `2^32 − cap` of the
current counter. -/
def BoundedLag (cap : Nat) (s : State) : Prop := ∀ th ∈ s.threads, Lag cap s th.pc

/-- BoundedLag along the ghost run from `s` over `σ`: whenever a thread takes a step, ITS
stale ticket is within `2^32 − cap` of the current counter (implied by `BoundedLag` in
every state the run passes through: `lagRun_of_bounded`). -/
def LagRun (c : Cfg) : State → List Nat → Prop
  | _, [] => True
  | s, i :: σ => (∀ th, s.threads[i]? = some th → Lag c.cap s th.pc) ∧ LagRun c (step c s i).1 σ

theorem lagRun_of_bounded (c : Cfg) (s : State) (σ : List Nat)
    (h : ∀ σ1 σ2, σ = σ1 ++ σ2 → BoundedLag c.cap (run c s σ1).1) : LagRun c s σ := by
  induction σ generalizing s with
  | nil => trivial
  | cons i σ ih =>
    refine ⟨fun th hth => h [] (i :: σ) rfl th (List.mem_of_getElem? hth), ih _ ?_⟩
    intro σ1 σ2 e
    have := h (i :: σ1) σ2 (by rw [e]; rfl)
    simpa [run] using this

/-- executable version of `Lag` / `LagRun` (for concrete witnesses) -/
def lagB (cap : Nat) (s : State) : Pc → Bool
  | .pushLoadSeq _ pos => decide (s.tail - pos ≤ W32 - cap)
  | .pushCAS _ pos _ => decide (s.tail - pos ≤ W32 - cap)
  | .popLoadSeq pos => decide (s.head - pos ≤ W32 - cap)
  | .popCAS pos _ => decide (s.head - pos ≤ W32 - cap)
  | .lenLoadHead t => decide (s.tail - t ≤ W32 - cap)
  | .fullLoadHead t => decide (s.tail - t < W32 - cap)
  | .emptyLoadTail h => decide (s.head - h < W32 - cap)
  | _ => true

theorem lag_of_lagB {cap : Nat} {s : State} {pc : Pc} (h : lagB cap s pc = true) : Lag cap s pc := by
  cases pc <;> simp only [lagB, decide_eq_true_eq] at h <;> simp only [Lag] <;> exact h

def lagRunB (c : Cfg) : State → List Nat → Bool
  | _, [] => true
  | s, i :: σ =>
    (match s.threads[i]? with
     | none => true
     | some th => lagB c.cap s th.pc) && lagRunB c (step c s i).1 σ

theorem lagRun_of_lagRunB (c : Cfg) (s : State) (σ : List Nat) (h : lagRunB c s σ = true) :
    LagRun c s σ := by
  induction σ generalizing s with
  | nil => trivial
  | cons i σ ih =>
    simp only [lagRunB, Bool.and_eq_true] at h
    refine ⟨?_, ih _ h.2⟩
    intro th hth
    have h1 := h.1
    rw [hth] at h1
    exact lag_of_lagB h1

/-- Simulation: along every schedule on which BoundedLag holds, the 32-bit machine started
in the wrapped state passes through exactly the wrapped states of the ghost machine and
emits the same events (same thread, same return value, accesses equal up to wrapping):
the two machines take the same branches. -/
theorem run32 {k : Nat} (hk1 : 1 ≤ k) (hk : k ≤ 31) {s : State}
    (hI : Inv { M := 0, cap := 2 ^ k } s) (σ : List Nat) (hl : LagRun { M := 0, cap := 2 ^ k } s σ) :
    run { M := W32, cap := 2 ^ k } (wrapState s) σ =
      (wrapState (run { M := 0, cap := 2 ^ k } s σ).1, (run { M := 0, cap := 2 ^ k } s σ).2.map wrapEvent) := by
  induction σ generalizing s with
  | nil => rfl
  | cons i σ ih =>
    obtain ⟨h1, h2⟩ := hl
    have g := ghost_pow k hk1
    simp only [run]
    rw [step32 hk1 hk hI i h1]
    simp only [wrapRes]
    rw [ih (inv_step g hI i) h2]
    rfl

theorem wrap_mkThread (p : List Call) : wrapThread (mkThread p) = mkThread p := by
  have := wrap_finish { pc := .idle, prog := p }
  simpa [mkThread, wrapThread, wrapPc] using this

/-- the initial states correspond -/
theorem wrap_initAt (cap r : Nat) (progs : List (List Call)) :
    wrapState (initAt { M := 0, cap := cap } r progs) = initAt { M := W32, cap := cap } r progs := by
  simp only [wrapState, initAt, Cfg.norm, Nat.mod_zero, List.map_map]
  congr 1
  apply List.map_congr_left
  intro p _
  exact wrap_mkThread p

/-! ### a single thread: no hypothesis needed -/

/-- the thread's loaded ticket IS the current counter -/
def Fresh (s : State) : Pc → Prop
  | .pushLoadSeq _ pos => pos = s.tail
  | .pushCAS _ pos _ => pos = s.tail
  | .popLoadSeq pos => pos = s.head
  | .popCAS pos _ => pos = s.head
  | .lenLoadHead t => t = s.tail
  | .fullLoadHead t => t = s.tail
  | .emptyLoadTail h => h = s.head
  | _ => True

structure Solo (s : State) : Prop where
  len : s.threads.length ≤ 1
  fresh : ∀ th ∈ s.threads, Fresh s th.pc

theorem fresh_finish (s : State) (th : Thread) : Fresh s th.finish.pc := by
  rcases finish_pc_cases th with h | ⟨v, h⟩ | h | h | h | h <;> rw [h] <;> simp [Fresh]

theorem solo_set {s s' : State} (hS : Solo s) {i : Nat} {th X : Thread} (hth : s.threads[i]? = some th)
    (hthr : s'.threads = s.threads.set i X) (hX : Fresh s' X.pc) : Solo s' := by
  have hl := hS.len
  have hilt : i < s.threads.length := by
    by_cases h : i < s.threads.length
    · exact h
    · rw [List.getElem?_eq_none (Nat.le_of_not_lt h)] at hth; simp at hth
  refine ⟨by rw [hthr, List.length_set]; exact hl, ?_⟩
  intro b hb
  rw [hthr] at hb
  rcases mem_set_cases hb with rfl | ⟨j, hji, hj⟩
  · exact hX
  · exfalso
    have hjlt : j < s.threads.length := by
      by_cases h : j < s.threads.length
      · exact h
      · rw [List.getElem?_eq_none (Nat.le_of_not_lt h)] at hj; simp at hj
    omega

/-- a single thread always works with fresh tickets (any ticket width) -/
theorem solo_step (c : Cfg) {s : State} (hS : Solo s) (i : Nat) : Solo (step c s i).1 := by
  unfold step
  cases hth : s.threads[i]? with
  | none => exact hS
  | some th =>
    have hf := hS.fresh th (List.mem_of_getElem? hth)
    simp only []
    cases hpc : th.pc <;> dsimp only <;> (repeat' split) <;>
      first
      | exact hS
      | exact solo_set hS hth (X := th.finish) rfl (fresh_finish _ _)
      | exact solo_set hS hth (X := { th with pc := .idle }) rfl (by simp [Fresh])
      | (refine solo_set hS hth (X := { th with pc := _ }) rfl ?_
         rw [hpc] at hf
         simp only [Fresh, State.setPc] at hf ⊢ <;> first | exact hf | rfl)

theorem solo_run (c : Cfg) {s : State} (hS : Solo s) (σ : List Nat) : Solo (run c s σ).1 := by
  induction σ generalizing s with
  | nil => exact hS
  | cons i σ ih => simp only [run]; exact ih (solo_step c hS i)

theorem solo_initAt (c : Cfg) (r : Nat) (prog : List Call) : Solo (initAt c r [prog]) := by
  refine ⟨by simp [initAt], ?_⟩
  intro th hth
  simp only [initAt, List.map_cons, List.map_nil, List.mem_singleton] at hth
  subst hth
  exact fresh_finish _ _

theorem solo_lag {cap : Nat} (hcap : cap < W32) {s : State} (hS : Solo s) : BoundedLag cap s := by
  intro th hth
  have hf := hS.fresh th hth
  cases hpc : th.pc <;> rw [hpc] at hf <;> simp only [Fresh] at hf <;> simp only [Lag] <;> omega

theorem solo_lagRun (c : Cfg) (hcap : c.cap < W32) {s : State} (hS : Solo s) (σ : List Nat) :
    LagRun c s σ := by
  induction σ generalizing s with
  | nil => trivial
  | cons i σ ih =>
    exact ⟨fun th hth => solo_lag hcap hS th (List.mem_of_getElem? hth), ih (solo_step c hS i)⟩

/-! ### what the wrapped state still shows -/

theorem plainSlot_wrap {k : Nat} (hk : k ≤ 32) (pc : Pc) :
    plainSlot { M := W32, cap := 2 ^ k } (wrapPc pc) = plainSlot { M := 0, cap := 2 ^ k } pc := by
  cases pc <;> simp only [wrapPc, plainSlot] <;> rw [idx_wrap hk]

theorem wrapEvent_obs (e : Event) : (wrapEvent e).tid = e.tid ∧ (wrapEvent e).ret = e.ret := ⟨rfl, rfl⟩

end Golib.C01
