/-
C11 — the inductive invariant of the SyncList machine (repaired statement order) and
its preservation by every step of every thread.  Helper lemmas for Props/C11.lean.
-/
import Golib.Model.C11List

namespace Golib.C11

/-! ### counting threads by program counter -/

def cnt (p : Pc → Bool) (l : List Thread) : Nat := l.countP fun th => p th.pc

theorem cnt_set {p : Pc → Bool} {l : List Thread} {i : Nat} {th : Thread} (h : l[i]? = some th)
    (th' : Thread) :
    cnt p (l.set i th') + (p th.pc).toNat = cnt p l + (p th'.pc).toNat := by
  induction l generalizing i with
  | nil => simp at h
  | cons a l ih =>
    cases i with
    | zero =>
      simp only [List.getElem?_cons_zero, Option.some.injEq] at h
      subst h
      simp only [cnt, List.set_cons_zero, List.countP_cons]
      cases p a.pc <;> cases p th'.pc <;> simp <;> omega
    | succ i =>
      simp only [List.getElem?_cons_succ] at h
      have := ih h
      simp only [cnt, List.set_cons_succ, List.countP_cons] at this ⊢
      omega

theorem cnt_pos {p : Pc → Bool} {l : List Thread} {i : Nat} {th : Thread} (h : l[i]? = some th)
    (hp : p th.pc = true) : 1 ≤ cnt p l := by
  induction l generalizing i with
  | nil => simp at h
  | cons a l ih =>
    cases i with
    | zero =>
      simp only [List.getElem?_cons_zero, Option.some.injEq] at h
      subst h
      simp [cnt, hp]
    | succ i =>
      simp only [List.getElem?_cons_succ] at h
      have := ih h
      simp only [cnt, List.countP_cons] at this ⊢
      omega

/-- Two different threads satisfying `p` make the count at least two. -/
theorem cnt_two {p : Pc → Bool} {l : List Thread} {i j : Nat} {a b : Thread} (hij : i ≠ j)
    (hi : l[i]? = some a) (hj : l[j]? = some b) (ha : p a.pc = true) (hb : p b.pc = true) :
    2 ≤ cnt p l := by
  induction l generalizing i j with
  | nil => simp at hi
  | cons x l ih =>
    cases i with
    | zero =>
      cases j with
      | zero => exact absurd rfl hij
      | succ j =>
        simp only [List.getElem?_cons_zero, Option.some.injEq] at hi
        simp only [List.getElem?_cons_succ] at hj
        subst hi
        have := cnt_pos (p := p) hj hb
        simp only [cnt, List.countP_cons, ha, if_true] at this ⊢
        omega
    | succ i =>
      cases j with
      | zero =>
        simp only [List.getElem?_cons_zero, Option.some.injEq] at hj
        simp only [List.getElem?_cons_succ] at hi
        subst hj
        have := cnt_pos (p := p) hi ha
        simp only [cnt, List.countP_cons, hb, if_true] at this ⊢
        omega
      | succ j =>
        simp only [List.getElem?_cons_succ] at hi hj
        have := ih (by omega) hi hj
        simp only [cnt, List.countP_cons] at this ⊢
        omega

/-- Every element of `l.set i c` is `c` or sits in `l` at an index other than `i`. -/
theorem mem_set_cases {l : List Thread} {i : Nat} {b c : Thread} (hb : b ∈ l.set i c) :
    b = c ∨ ∃ j, j ≠ i ∧ l[j]? = some b := by
  obtain ⟨j, hj⟩ := List.getElem?_of_mem hb
  by_cases hij : i = j
  · subst hij
    by_cases hlt : i < l.length
    · rw [List.getElem?_set_self hlt] at hj
      left; exact (Option.some.inj hj).symm
    · rw [List.getElem?_eq_none (by simp; omega)] at hj
      simp at hj
  · rw [List.getElem?_set_ne hij] at hj
    right; exact ⟨j, fun h => hij h.symm, hj⟩

/-! ### the invariant -/

def isPushPost : Pc → Bool
  | .pushAdd _ _ => true
  | .pushStore _ _ => true
  | _ => false

def isPushStore : Pc → Bool
  | .pushStore _ _ => true
  | _ => false

def isPopPost : Pc → Bool
  | .popRead _ => true
  | .popClear _ _ => true
  | .popAdd _ => true
  | _ => false

/-- What a thread's locals are known to satisfy (`hd`, `tl`, `ln` = head, tail, chain length). -/
def PcOk (hd tl ln : Nat) : Pc → Prop
  | .pushLoadNext _ t => t ≤ tl
  | .pushCAS _ t => t ≤ tl
  | .pushAdd _ n => n + 1 = ln ∧ n = tl + 1
  | .pushStore _ n => n + 1 = ln ∧ n = tl + 1
  | .popLoadTail h => h ≤ hd
  | .popLoadNext h => h ≤ hd ∧ h < tl
  | .popCAS h n => h ≤ hd ∧ h < tl ∧ n = some (h + 1)
  | .popRead n => n ≤ hd
  | .popClear n _ => n ≤ hd
  | _ => True

structure Inv (s : State) : Prop where
  head_le_tail : s.head ≤ s.tail
  /-- the chain is the published part plus at most one linked-but-unpublished node -/
  chain_len : s.tail + 1 + cnt isPushPost s.threads = s.chain.length
  one_publisher : cnt isPushPost s.threads ≤ 1
  /-- the counter: published − popped, plus increments whose publication is pending, plus
  pops whose decrement is pending -/
  len_eq : s.len = (s.tail : Int) - s.head + cnt isPushStore s.threads + cnt isPopPost s.threads
  not_crashed : s.crashed = false
  locals : ∀ th ∈ s.threads, PcOk s.head s.tail s.chain.length th.pc

theorem PcOk_mono {hd tl ln hd' tl' ln' : Nat} {pc : Pc} (h1 : hd ≤ hd') (h2 : tl ≤ tl')
    (h3 : isPushPost pc = true → tl' = tl ∧ ln' = ln) (h : PcOk hd tl ln pc) :
    PcOk hd' tl' ln' pc := by
  cases pc <;> simp only [PcOk, isPushPost, forall_const, false_implies, Bool.false_eq_true] at * <;>
    first | omega | exact ⟨by omega, by omega, h.2.2⟩

theorem finish_pc_cases (th : Thread) :
    th.finish.pc = .idle ∨ (∃ v, th.finish.pc = .pushLoadTail v) ∨ th.finish.pc = .popLoadHead ∨
      th.finish.pc = .lenLoad := by
  unfold Thread.finish
  cases th.prog with
  | nil => simp
  | cons c r => cases c <;> simp [start]

theorem finish_not_counted (th : Thread) :
    isPushPost th.finish.pc = false ∧ isPushStore th.finish.pc = false ∧
      isPopPost th.finish.pc = false := by
  rcases finish_pc_cases th with h | ⟨v, h⟩ | h | h <;> rw [h] <;> simp [isPushPost, isPushStore, isPopPost]

theorem finish_ok (th : Thread) (hd tl ln : Nat) : PcOk hd tl ln th.finish.pc := by
  rcases finish_pc_cases th with h | ⟨v, h⟩ | h | h <;> rw [h] <;> simp [PcOk]

theorem inv_init (vals : List Int) (progs : List (List Call)) : Inv (init vals progs) := by
  have hc : ∀ (p : Pc → Bool), (∀ th : Thread, p th.finish.pc = false) →
      cnt p (progs.map mkThread) = 0 := by
    intro p hp
    simp only [cnt, List.countP_eq_zero, List.mem_map]
    rintro th ⟨pr, _, rfl⟩
    simp [mkThread, hp]
  have h1 := hc isPushPost fun th => (finish_not_counted th).1
  have h2 := hc isPushStore fun th => (finish_not_counted th).2.1
  have h3 := hc isPopPost fun th => (finish_not_counted th).2.2
  refine ⟨by simp [init], ?_, ?_, ?_, rfl, ?_⟩
  · simp only [init, h1, List.length_cons]
  · simp only [init, h1]; omega
  · simp only [init, h2, h3]; simp
  · intro th hth
    simp only [init, List.mem_map] at hth
    obtain ⟨pr, _, rfl⟩ := hth
    exact finish_ok _ _ _ _

theorem locals_update {s : State} {i : Nat} {th th' : Thread} {hd' tl' ln' : Nat}
    (hloc : ∀ b ∈ s.threads, PcOk s.head s.tail s.chain.length b.pc)
    (hth : s.threads[i]? = some th) (h1 : s.head ≤ hd') (h2 : s.tail ≤ tl')
    (h3 : (tl' = s.tail ∧ ln' = s.chain.length) ∨
          (isPushPost th.pc = true ∧ cnt isPushPost s.threads ≤ 1) ∨
          cnt isPushPost s.threads = 0)
    (hnew : PcOk hd' tl' ln' th'.pc) :
    ∀ b ∈ s.threads.set i th', PcOk hd' tl' ln' b.pc := by
  intro b hb
  rcases mem_set_cases hb with rfl | ⟨j, hji, hj⟩
  · exact hnew
  · refine PcOk_mono h1 h2 ?_ (hloc b (List.mem_of_getElem? hj))
    intro hbp
    rcases h3 with h | ⟨hp, hc⟩ | h0
    · exact h
    · exfalso
      have := cnt_two (p := isPushPost) hji hj hth hbp hp
      omega
    · exfalso
      have := cnt_pos (p := isPushPost) hj hbp
      omega

/-- instantiate the three count equations for the new thread value and evaluate them -/
syntax "counts " term : tactic
set_option hygiene false in
macro_rules
  | `(tactic| counts $t) => `(tactic|
      (have hP := cP $t; have hS := cS $t; have hO := cO $t
       simp only [hpc, hfin.1, hfin.2.1, hfin.2.2] at hP hS hO
       simp only [isPushPost, isPushStore, isPopPost, Bool.toNat_false, Bool.toNat_true,
         Nat.add_zero] at hP hS hO))

/-- A failed inner `Pop` (return false, or go to the `Gosched` of `PopWait(d<0)`) of a thread
whose pc is not counted anywhere preserves the invariant. -/
theorem inv_popFail {s : State} (hI : Inv s) {i : Nat} {th : Thread}
    (hth : s.threads[i]? = some th)
    (hpc : isPushPost th.pc = false ∧ isPushStore th.pc = false ∧ isPopPost th.pc = false)
    (acc : Acc) : Inv (s.popFail i th acc).1 := by
  obtain ⟨hht, hlen, hone, hcnt, hcr, hlocs⟩ := hI
  have hfin := finish_not_counted th
  have cP := fun th' => cnt_set (p := isPushPost) hth th'
  have cS := fun th' => cnt_set (p := isPushStore) hth th'
  have cO := fun th' => cnt_set (p := isPopPost) hth th'
  unfold State.popFail
  split
  · have hP := cP { th with pc := .popYield }
    have hS := cS { th with pc := .popYield }
    have hO := cO { th with pc := .popYield }
    simp only [hpc.1, hpc.2.1, hpc.2.2] at hP hS hO
    simp only [isPushPost, isPushStore, isPopPost, Bool.toNat_false, Nat.add_zero] at hP hS hO
    refine ⟨?_, ?_, ?_, ?_, ?_, ?_⟩ <;> simp only [State.setPc]
    · exact hht
    · omega
    · omega
    · omega
    · exact hcr
    · exact locals_update hlocs hth (Nat.le_refl _) (Nat.le_refl _) (Or.inl ⟨rfl, rfl⟩)
        (by simp only [PcOk])
  split
  · have hP := cP { th with pc := .popTick, ticks := th.ticks - 1 }
    have hS := cS { th with pc := .popTick, ticks := th.ticks - 1 }
    have hO := cO { th with pc := .popTick, ticks := th.ticks - 1 }
    simp only [hpc.1, hpc.2.1, hpc.2.2] at hP hS hO
    simp only [isPushPost, isPushStore, isPopPost, Bool.toNat_false, Nat.add_zero] at hP hS hO
    refine ⟨?_, ?_, ?_, ?_, ?_, ?_⟩ <;> simp only []
    · exact hht
    · omega
    · omega
    · omega
    · exact hcr
    · exact locals_update hlocs hth (Nat.le_refl _) (Nat.le_refl _) (Or.inl ⟨rfl, rfl⟩)
        (by simp only [PcOk])
  · have hP := cP th.finish
    have hS := cS th.finish
    have hO := cO th.finish
    simp only [hpc.1, hpc.2.1, hpc.2.2, hfin.1, hfin.2.1, hfin.2.2, Bool.toNat_false,
      Nat.add_zero] at hP hS hO
    refine ⟨?_, ?_, ?_, ?_, ?_, ?_⟩ <;> simp only [State.fin]
    · exact hht
    · omega
    · omega
    · omega
    · exact hcr
    · exact locals_update hlocs hth (Nat.le_refl _) (Nat.le_refl _) (Or.inl ⟨rfl, rfl⟩)
        (finish_ok _ _ _ _)

set_option maxHeartbeats 1000000 in
/-- Every step of every thread preserves the invariant (repaired statement order). -/
theorem inv_step {s : State} (hI : Inv s) (i : Nat) : Inv (step .addThenStore s i).1 := by
  unfold step
  cases hth : s.threads[i]? with
  | none => exact hI
  | some th =>
    have hmem : th ∈ s.threads := List.mem_of_getElem? hth
    have hloc := hI.locals th hmem
    obtain ⟨hht, hlen, hone, hcnt, hcr, hlocs⟩ := hI
    have hfin := finish_not_counted th
    have cP := fun th' => cnt_set (p := isPushPost) hth th'
    have cS := fun th' => cnt_set (p := isPushStore) hth th'
    have cO := fun th' => cnt_set (p := isPopPost) hth th'
    simp only []
    cases hpc : th.pc with
    | idle => exact ⟨hht, hlen, hone, hcnt, hcr, hlocs⟩
    | pushLoadTail v =>
      dsimp only
      counts { th with pc := .pushLoadNext v s.tail }
      refine ⟨?_, ?_, ?_, ?_, ?_, ?_⟩ <;> simp only [State.setPc]
      · exact hht
      · omega
      · omega
      · omega
      · exact hcr
      · exact locals_update hlocs hth (Nat.le_refl _) (Nat.le_refl _) (Or.inl ⟨rfl, rfl⟩)
          (by simp only [PcOk]; omega)
    | pushLoadNext v t =>
      dsimp only
      simp only [hpc, PcOk] at hloc
      split
      · counts { th with pc := .pushYield v }
        refine ⟨?_, ?_, ?_, ?_, ?_, ?_⟩ <;> simp only [State.setPc]
        · exact hht
        · omega
        · omega
        · omega
        · exact hcr
        · exact locals_update hlocs hth (Nat.le_refl _) (Nat.le_refl _) (Or.inl ⟨rfl, rfl⟩)
            (by simp only [PcOk])
      · counts { th with pc := .pushCAS v t }
        refine ⟨?_, ?_, ?_, ?_, ?_, ?_⟩ <;> simp only [State.setPc]
        · exact hht
        · omega
        · omega
        · omega
        · exact hcr
        · exact locals_update hlocs hth (Nat.le_refl _) (Nat.le_refl _) (Or.inl ⟨rfl, rfl⟩)
            (by simp only [PcOk]; omega)
    | pushCAS v t =>
      dsimp only
      simp only [hpc, PcOk] at hloc
      split
      · rename_i hcas
        counts { th with pc := .pushAdd v (t + 1) }
        have h0 : cnt isPushPost s.threads = 0 := by omega
        have ht : t = s.tail := by omega
        refine ⟨?_, ?_, ?_, ?_, ?_, ?_⟩ <;> simp only [State.setPc, List.length_append, List.length_singleton]
        · exact hht
        · omega
        · omega
        · omega
        · exact hcr
        · exact locals_update hlocs hth (Nat.le_refl _) (Nat.le_refl _) (Or.inr (Or.inr h0))
            (by simp only [PcOk]; omega)
      · counts { th with pc := .pushYield v }
        refine ⟨?_, ?_, ?_, ?_, ?_, ?_⟩ <;> simp only [State.setPc]
        · exact hht
        · omega
        · omega
        · omega
        · exact hcr
        · exact locals_update hlocs hth (Nat.le_refl _) (Nat.le_refl _) (Or.inl ⟨rfl, rfl⟩)
            (by simp only [PcOk])
    | pushAdd v n =>
      dsimp only
      simp only [hpc, PcOk] at hloc
      counts { th with pc := .pushStore v n }
      refine ⟨?_, ?_, ?_, ?_, ?_, ?_⟩ <;> simp only [State.setPc]
      · exact hht
      · omega
      · omega
      · omega
      · exact hcr
      · exact locals_update hlocs hth (Nat.le_refl _) (Nat.le_refl _) (Or.inl ⟨rfl, rfl⟩)
          (by simp only [PcOk]; omega)
    | pushStore v n =>
      dsimp only
      simp only [hpc, PcOk] at hloc
      counts th.finish
      have h1 := cnt_pos (p := isPushPost) hth (by simp only [hpc, isPushPost])
      refine ⟨?_, ?_, ?_, ?_, ?_, ?_⟩ <;> simp only [State.fin]
      · omega
      · omega
      · omega
      · omega
      · exact hcr
      · exact locals_update hlocs hth (Nat.le_refl _) (by omega)
          (Or.inr (Or.inl ⟨by simp only [hpc, isPushPost], hone⟩)) (finish_ok _ _ _ _)
    | pushYield v =>
      dsimp only
      counts { th with pc := .pushLoadTail v }
      refine ⟨?_, ?_, ?_, ?_, ?_, ?_⟩ <;> simp only [State.setPc]
      · exact hht
      · omega
      · omega
      · omega
      · exact hcr
      · exact locals_update hlocs hth (Nat.le_refl _) (Nat.le_refl _) (Or.inl ⟨rfl, rfl⟩)
          (by simp only [PcOk])
    | popLoadHead =>
      dsimp only
      counts { th with pc := .popLoadTail s.head }
      refine ⟨?_, ?_, ?_, ?_, ?_, ?_⟩ <;> simp only [State.setPc]
      · exact hht
      · omega
      · omega
      · omega
      · exact hcr
      · exact locals_update hlocs hth (Nat.le_refl _) (Nat.le_refl _) (Or.inl ⟨rfl, rfl⟩)
          (by simp only [PcOk]; omega)
    | popLoadTail h =>
      dsimp only
      simp only [hpc, PcOk] at hloc
      split
      · exact inv_popFail ⟨hht, hlen, hone, hcnt, hcr, hlocs⟩ hth
          (by simp [hpc, isPushPost, isPushStore, isPopPost]) _
      · counts { th with pc := .popLoadNext h }
        refine ⟨?_, ?_, ?_, ?_, ?_, ?_⟩ <;> simp only [State.setPc]
        · exact hht
        · omega
        · omega
        · omega
        · exact hcr
        · exact locals_update hlocs hth (Nat.le_refl _) (Nat.le_refl _) (Or.inl ⟨rfl, rfl⟩)
            (by simp only [PcOk]; omega)
    | popLoadNext h =>
      dsimp only
      simp only [hpc, PcOk] at hloc
      counts { th with pc := .popCAS h (if h + 1 < s.chain.length then some (h + 1) else none) }
      refine ⟨?_, ?_, ?_, ?_, ?_, ?_⟩ <;> simp only [State.setPc]
      · exact hht
      · omega
      · omega
      · omega
      · exact hcr
      · refine locals_update hlocs hth (Nat.le_refl _) (Nat.le_refl _) (Or.inl ⟨rfl, rfl⟩) ?_
        simp only [PcOk]
        have : h + 1 < s.chain.length := by omega
        simp only [this, if_true, and_true]
        omega
    | popCAS h n =>
      dsimp only
      simp only [hpc, PcOk] at hloc
      obtain ⟨_, hlt, rfl⟩ := hloc
      split
      · rename_i hhd
        simp only []
        counts { th with pc := .popRead (h + 1) }
        refine ⟨?_, ?_, ?_, ?_, ?_, ?_⟩ <;> simp only [State.setPc]
        · omega
        · omega
        · omega
        · omega
        · exact hcr
        · exact locals_update hlocs hth (by omega) (Nat.le_refl _) (Or.inl ⟨rfl, rfl⟩)
            (by simp only [PcOk]; omega)
      · exact inv_popFail ⟨hht, hlen, hone, hcnt, hcr, hlocs⟩ hth
          (by simp [hpc, isPushPost, isPushStore, isPopPost]) _
    | popRead n =>
      dsimp only
      simp only [hpc, PcOk] at hloc
      have hn : n < s.chain.length := by omega
      rw [List.getElem?_eq_getElem hn]
      simp only []
      counts { th with pc := .popClear n s.chain[n] }
      refine ⟨?_, ?_, ?_, ?_, ?_, ?_⟩ <;> simp only [State.setPc]
      · exact hht
      · omega
      · omega
      · omega
      · exact hcr
      · exact locals_update hlocs hth (Nat.le_refl _) (Nat.le_refl _) (Or.inl ⟨rfl, rfl⟩)
          (by simp only [PcOk]; omega)
    | popClear n v =>
      dsimp only
      simp only [hpc, PcOk] at hloc
      counts { th with pc := .popAdd v }
      refine ⟨?_, ?_, ?_, ?_, ?_, ?_⟩ <;> simp only [State.setPc, List.length_set]
      · exact hht
      · omega
      · omega
      · omega
      · exact hcr
      · exact locals_update hlocs hth (Nat.le_refl _) (Nat.le_refl _) (Or.inl ⟨rfl, by simp⟩)
          (by simp only [PcOk])
    | popAdd v =>
      dsimp only
      counts th.finish
      have h1 := cnt_pos (p := isPopPost) hth (by simp only [hpc, isPopPost])
      refine ⟨?_, ?_, ?_, ?_, ?_, ?_⟩ <;> simp only [State.fin]
      · exact hht
      · omega
      · omega
      · omega
      · exact hcr
      · exact locals_update hlocs hth (Nat.le_refl _) (Nat.le_refl _) (Or.inl ⟨rfl, rfl⟩)
          (finish_ok _ _ _ _)
    | popYield =>
      dsimp only
      counts { th with pc := .popLoadHead }
      refine ⟨?_, ?_, ?_, ?_, ?_, ?_⟩ <;> simp only [State.setPc]
      · exact hht
      · omega
      · omega
      · omega
      · exact hcr
      · exact locals_update hlocs hth (Nat.le_refl _) (Nat.le_refl _) (Or.inl ⟨rfl, rfl⟩)
          (by simp only [PcOk])
    | popTick =>
      dsimp only
      counts { th with pc := .popLoadHead }
      refine ⟨?_, ?_, ?_, ?_, ?_, ?_⟩ <;> simp only [State.setPc]
      · exact hht
      · omega
      · omega
      · omega
      · exact hcr
      · exact locals_update hlocs hth (Nat.le_refl _) (Nat.le_refl _) (Or.inl ⟨rfl, rfl⟩)
          (by simp only [PcOk])
    | lenLoad =>
      dsimp only
      counts th.finish
      refine ⟨?_, ?_, ?_, ?_, ?_, ?_⟩ <;> simp only [State.fin]
      · exact hht
      · omega
      · omega
      · omega
      · exact hcr
      · exact locals_update hlocs hth (Nat.le_refl _) (Nat.le_refl _) (Or.inl ⟨rfl, rfl⟩)
          (finish_ok _ _ _ _)

/-- The invariant holds after every schedule. -/
theorem inv_run {s : State} (hI : Inv s) (σ : List Nat) : Inv (run .addThenStore s σ).1 := by
  induction σ generalizing s with
  | nil => exact hI
  | cons i σ ih =>
    simp only [run]
    exact ih (inv_step hI i)

theorem cnt_eq_zero_of_all_idle {p : Pc → Bool} (hp : p .idle = false) {l : List Thread}
    (h : ∀ th ∈ l, th.pc = .idle) : cnt p l = 0 := by
  simp only [cnt, List.countP_eq_zero]
  intro th hth
  rw [h th hth, hp]
  simp

/-- values that a sequence of `Pop`s would return now (published, not yet popped) -/
def stored (s : State) : List Int := (s.chain.drop (s.head + 1)).take (s.tail - s.head)

theorem stored_length {s : State} (hI : Inv s) : (stored s).length = s.tail - s.head := by
  have h1 := hI.chain_len
  have h2 := hI.head_le_tail
  simp only [stored, List.length_take, List.length_drop]
  omega

end Golib.C11
