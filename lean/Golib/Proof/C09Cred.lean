/-
Helper lemmas for C09: `fillCred` is OpenSSL's EVP_BytesToKey (MD5, one round, 48 bytes).
-/
import Golib.Model.C09Crypt
import Golib.Proof.C08Wrap

namespace Golib.C09
open Golib.C08

/-- `md5.Sum` returns 16 bytes -/
def Md5Len (md5 : Bytes → Bytes) : Prop := ∀ x, (md5 x).length = 16

theorem copyInto_fits (dst src : Bytes) (h : src.length ≤ dst.length) :
    copyInto dst src = src ++ dst.drop src.length := by
  unfold copyInto
  have : min dst.length src.length = src.length := by omega
  rw [this, List.take_length]

theorem copyInto_length (dst src : Bytes) : (copyInto dst src).length = dst.length := by
  unfold copyInto
  simp only [List.length_append, List.length_take, List.length_drop]; omega

theorem sliceFrom_nat (s : Bytes) (n : Nat) (h : n ≤ s.length) :
    sliceFrom s (n : Int) = some (s.drop n) := by
  unfold sliceFrom
  have : (0 : Int) ≤ (n : Int) ∧ (n : Int) ≤ (s.length : Int) := by omega
  rw [if_pos this, Int.toNat_natCast]

theorem sliceTo_nat (s : Bytes) (n : Nat) (h : n ≤ s.length) :
    sliceTo s (n : Int) = some (s.take n) := by
  unfold sliceTo
  have : (0 : Int) ≤ (n : Int) ∧ (n : Int) ≤ (s.length : Int) := by omega
  rw [if_pos this, Int.toNat_natCast]

/-- the digest input of round `i`: `prevSum‖secret‖salt` (no `prevSum` in the first round) -/
def roundInput (i : Nat) (prev secret salt : Bytes) : Bytes :=
  (if i > 0 then prev else []) ++ secret ++ salt

/-- the three `copy` calls of one round leave exactly `roundInput` in `buf` -/
theorem round_buf (i : Nat) (buf0 prev secret salt : Bytes) (hp : prev.length = 16)
    (hb : buf0.length = (if i > 0 then 16 else 0) + secret.length + salt.length) :
    let n : Nat := if i > 0 then 16 else 0
    let buf1 := copyInto buf0 prev
    let buf2 := buf1.take n ++ copyInto (buf1.drop n) secret
    buf2.take (n + secret.length) ++ copyInto (buf2.drop (n + secret.length)) salt
      = roundInput i prev secret salt := by
  intro n buf1 buf2
  have hl1 : buf1.length = buf0.length := copyInto_length _ _
  by_cases hi : i > 0
  · have hn : n = 16 := by simp only [n, if_pos hi]
    have hb' : buf0.length = 16 + secret.length + salt.length := by simpa only [if_pos hi] using hb
    have e1 : buf1 = prev ++ buf0.drop 16 := by
      have := copyInto_fits buf0 prev (by omega)
      rw [hp] at this; exact this
    have e2 : buf1.take 16 = prev := by rw [e1, ← hp]; simp
    have e3 : buf1.drop 16 = buf0.drop 16 := by rw [e1, ← hp]; simp
    have e4 : buf2 = prev ++ (secret ++ (buf0.drop 16).drop secret.length) := by
      simp only [buf2, hn, e2, e3]
      rw [copyInto_fits _ secret (by simp; omega)]
    have hpl : (prev ++ secret).length = 16 + secret.length := by simp [hp]
    have e5 : buf2.take (16 + secret.length) = prev ++ secret := by
      rw [e4, ← List.append_assoc, ← hpl, List.take_left]
    have e6 : buf2.drop (16 + secret.length) = (buf0.drop 16).drop secret.length := by
      rw [e4, ← List.append_assoc, ← hpl, List.drop_left]
    rw [hn, e5, e6, copyInto_fits _ salt (by simp; omega)]
    have : ((buf0.drop 16).drop secret.length).drop salt.length = [] :=
      List.drop_eq_nil_of_le (by simp; omega)
    rw [this, List.append_nil]
    simp only [roundInput, if_pos hi, List.append_assoc]
  · have hn : n = 0 := by simp only [n, if_neg hi]
    have hb' : buf0.length = secret.length + salt.length := by
      have := hb; simp only [if_neg hi] at this; omega
    have e4 : buf2 = secret ++ buf1.drop secret.length := by
      simp only [buf2, hn, List.take_zero, List.nil_append, List.drop_zero]
      exact copyInto_fits _ secret (by omega)
    rw [hn, Nat.zero_add]
    have e5 : buf2.take secret.length = secret := by rw [e4]; simp
    have e6 : buf2.drop secret.length = buf1.drop secret.length := by rw [e4]; simp
    rw [e5, e6, copyInto_fits _ salt (by simp; omega)]
    have : (buf1.drop secret.length).drop salt.length = [] :=
      List.drop_eq_nil_of_le (by simp; omega)
    rw [this, List.append_nil]
    simp only [roundInput, if_neg hi, List.nil_append]

/-- one round of `fillCred`: never panics, digests `roundInput`, stores the digest at `cred[16i:]` -/
theorem fillCredRound_spec (md5 : Bytes → Bytes) (hmd : Md5Len md5) (secret salt : Bytes) (i : Nat)
    (st : CredSt) (hi : i ≤ 2)
    (hback : st.backing.length = 16 + secret.length + salt.length)
    (hprev : st.prevSum.length = 16) (hcred : st.cred.length = 48) :
    ∃ st', fillCredRound md5 secret salt i st = some st' ∧
      st'.backing.length = 16 + secret.length + salt.length ∧
      st'.prevSum.length = 16 ∧ st'.cred.length = 48 ∧
      st'.prevSum = md5 (roundInput i st.prevSum secret salt) ∧
      st'.cred = st.cred.take (16 * i) ++ md5 (roundInput i st.prevSum secret salt)
        ++ st.cred.drop (16 * (i + 1)) := by
  unfold fillCredRound
  simp only []
  generalize hn : (if i > 0 then 16 else 0 : Nat) = n
  have hn16 : n ≤ 16 := by rw [← hn]; split <;> omega
  have hlen0 : n + secret.length + salt.length ≤ st.backing.length := by omega
  rw [sliceTo_nat _ _ hlen0]
  simp only []
  have hb0 : (st.backing.take (n + secret.length + salt.length)).length
      = n + secret.length + salt.length := by simp; omega
  have hl1 : (copyInto (st.backing.take (n + secret.length + salt.length)) st.prevSum).length
      = n + secret.length + salt.length := by rw [copyInto_length, hb0]
  rw [sliceFrom_nat _ n (by omega)]
  simp only []
  have hl2 : ((copyInto (st.backing.take (n + secret.length + salt.length)) st.prevSum).take n ++
      copyInto ((copyInto (st.backing.take (n + secret.length + salt.length)) st.prevSum).drop n) secret).length
      = n + secret.length + salt.length := by
    simp only [List.length_append, List.length_take, copyInto_length, List.length_drop, hl1]; omega
  rw [sliceFrom_nat _ (n + secret.length) (by omega)]
  simp only []
  have hbuf := round_buf i (st.backing.take (n + secret.length + salt.length)) st.prevSum secret salt
    hprev (by rw [hb0, hn])
  simp only [hn] at hbuf
  rw [hbuf]
  rw [sliceFrom_nat _ (i * 16) (by omega)]
  simp only []
  have hsum : (md5 (roundInput i st.prevSum secret salt)).length = 16 := hmd _
  refine ⟨_, rfl, ?_, hsum, ?_, rfl, ?_⟩
  · simp only [List.length_append, List.length_drop]
    have : (roundInput i st.prevSum secret salt).length ≤ 16 + secret.length + salt.length := by
      unfold roundInput; split <;> simp <;> omega
    omega
  · simp only [List.length_append, List.length_take, copyInto_length, List.length_drop]; omega
  · simp only []
    rw [copyInto_fits _ _ (by rw [hmd]; simp; omega), hmd]
    have : (st.cred.drop (i * 16)).drop 16 = st.cred.drop (16 * (i + 1)) := by
      rw [List.drop_drop]; congr 1; omega
    rw [this, Nat.mul_comm i 16, List.append_assoc]

/-- OpenSSL `EVP_BytesToKey(MD5, count = 1)`: `D1 = MD5(secret‖salt)`, `Di = MD5(D(i-1)‖secret‖salt)` -/
def evpD1 (md5 : Bytes → Bytes) (secret salt : Bytes) : Bytes := md5 (secret ++ salt)
def evpD2 (md5 : Bytes → Bytes) (secret salt : Bytes) : Bytes :=
  md5 (evpD1 md5 secret salt ++ secret ++ salt)
def evpD3 (md5 : Bytes → Bytes) (secret salt : Bytes) : Bytes :=
  md5 (evpD2 md5 secret salt ++ secret ++ salt)
/-- 48 bytes of key material: key = first 32, IV = last 16 -/
def evp (md5 : Bytes → Bytes) (secret salt : Bytes) : Bytes :=
  evpD1 md5 secret salt ++ evpD2 md5 secret salt ++ evpD3 md5 secret salt

theorem evp_length (md5 : Bytes → Bytes) (hmd : Md5Len md5) (secret salt : Bytes) :
    (evp md5 secret salt).length = 48 := by
  have d1 : (evpD1 md5 secret salt).length = 16 := hmd _
  have d2 : (evpD2 md5 secret salt).length = 16 := hmd _
  have d3 : (evpD3 md5 secret salt).length = 16 := hmd _
  simp only [evp, List.length_append, d1, d2, d3]

theorem cred_assemble (c d1 d2 d3 : Bytes) (hc : c.length = 48)
    (h1 : d1.length = 16) (h2 : d2.length = 16) (_h3 : d3.length = 16) :
    ((c.take (16 * 0) ++ d1 ++ c.drop (16 * (0 + 1))).take (16 * 1) ++ d2 ++
        (c.take (16 * 0) ++ d1 ++ c.drop (16 * (0 + 1))).drop (16 * (1 + 1))).take (16 * 2) ++ d3 ++
      ((c.take (16 * 0) ++ d1 ++ c.drop (16 * (0 + 1))).take (16 * 1) ++ d2 ++
        (c.take (16 * 0) ++ d1 ++ c.drop (16 * (0 + 1))).drop (16 * (1 + 1))).drop (16 * (2 + 1))
      = d1 ++ d2 ++ d3 := by
  have e1 : c.take (16 * 0) ++ d1 ++ c.drop (16 * (0 + 1)) = d1 ++ c.drop 16 := by simp
  rw [e1]
  have e2 : (d1 ++ c.drop 16).take (16 * 1) = d1 := List.take_left' (by omega)
  have e3 : (d1 ++ c.drop 16).drop (16 * (1 + 1)) = c.drop 32 := by
    rw [show 16 * (1 + 1) = d1.length + 16 by omega, ← List.drop_drop, List.drop_left,
      List.drop_drop]
  rw [e2, e3]
  have e4 : (d1 ++ d2 ++ c.drop 32).take (16 * 2) = d1 ++ d2 :=
    List.take_left' (by simp; omega)
  have e5 : (d1 ++ d2 ++ c.drop 32).drop (16 * (2 + 1)) = [] := by
    apply List.drop_eq_nil_of_le; simp; omega
  rw [e4, e5, List.append_nil]

theorem fillCred_eq_evp (md5 : Bytes → Bytes) (hmd : Md5Len md5) (cred salt secret : Bytes)
    (hcred : cred.length = 48) :
    fillCred md5 cred salt secret = some (evp md5 secret salt) := by
  unfold fillCred
  simp only []
  obtain ⟨st1, h1, hb1, hpl1, hl1, hp1, hc1⟩ := fillCredRound_spec md5 hmd secret salt 0
    ⟨List.replicate (16 + secret.length + salt.length) 0, List.replicate 16 0, cred⟩
    (by omega) (by simp) (by simp) hcred
  rw [h1]; simp only []
  obtain ⟨st2, h2, hb2, hpl2, hl2, hp2, hc2⟩ := fillCredRound_spec md5 hmd secret salt 1 st1
    (by omega) hb1 hpl1 hl1
  rw [h2]; simp only []
  obtain ⟨st3, h3, _, _, _, _, hc3⟩ := fillCredRound_spec md5 hmd secret salt 2 st2
    (by omega) hb2 hpl2 hl2
  rw [h3]; simp only []
  -- assemble the three digests
  have r0 : roundInput 0 (List.replicate 16 0) secret salt = secret ++ salt := by simp [roundInput]
  simp only [r0] at hp1 hc1
  have e1 : st1.prevSum = evpD1 md5 secret salt := hp1
  have r1 : roundInput 1 st1.prevSum secret salt = evpD1 md5 secret salt ++ secret ++ salt := by
    simp [roundInput, e1]
  rw [r1] at hp2 hc2
  have e2 : st2.prevSum = evpD2 md5 secret salt := hp2
  have r2 : roundInput 2 st2.prevSum secret salt = evpD2 md5 secret salt ++ secret ++ salt := by
    simp [roundInput, e2]
  rw [r2] at hc3
  congr 1
  rw [hc3, hc2, hc1]
  exact cred_assemble cred _ _ _ hcred (hmd _) (hmd _) (hmd _)

theorem deriveCred_eq (md5 : Bytes → Bytes) (hmd : Md5Len md5) (salt secret : Bytes) :
    deriveCred md5 salt secret = some (evp md5 secret salt) :=
  fillCred_eq_evp md5 hmd _ salt secret (by simp [credLen])

end Golib.C09
