/-
The iteration orders used by the executable driver (`permute seed`) are permutations, i.e.
they satisfy the hypothesis `∀ i l, (ord i l).Perm l` of the solver theorems.
-/
import Golib.Model.C18

namespace Golib.C18

theorem perm_cons_eraseIdx {α : Type} (l : List α) (i : Nat) (h : i < l.length) :
    (l[i] :: l.eraseIdx i).Perm l := by
  induction l generalizing i with
  | nil => simp at h
  | cons a l ih =>
    cases i with
    | zero => simp
    | succ i =>
      simp only [List.getElem_cons_succ, List.eraseIdx_cons_succ]
      have := ih i (by simpa using h)
      exact (List.Perm.swap _ _ _).trans (this.cons a)

theorem permuteAux_perm {α : Type} : ∀ (n s : Nat) (l : List α), n = l.length →
    (permuteAux n s l).Perm l
  | 0, _, l, _ => List.Perm.refl _
  | n + 1, s, l, h => by
    have hpos : 0 < l.length := by omega
    have hi : (s / 65536) % l.length < l.length := Nat.mod_lt _ hpos
    simp only [permuteAux, List.getElem?_eq_getElem hi]
    have ih := permuteAux_perm n (lcg s) (l.eraseIdx ((s / 65536) % l.length))
      (by rw [List.length_eraseIdx_of_lt hi]; omega)
    exact (ih.cons _).trans (perm_cons_eraseIdx l _ hi)

theorem permute_perm {α : Type} (seed : Nat) (l : List α) : (permute seed l).Perm l :=
  permuteAux_perm _ _ l rfl

end Golib.C18
