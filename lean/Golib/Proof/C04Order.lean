/-
C04 helper lemmas, part 1: strict weak orders and the pure heap-order argument for one
sift step, on value functions `f : Nat → Int` (position ↦ value).
-/
import Golib.Model.C04Clients

set_option linter.unusedSimpArgs false
set_option linter.unusedVariables false

namespace Golib.C04

/-- Strict weak order: irreflexive, transitive, incomparability is transitive. -/
structure SWO (cmp : Int → Int → Bool) : Prop where
  irrefl : ∀ a, cmp a a = false
  trans  : ∀ a b c, cmp a b = true → cmp b c = true → cmp a c = true
  incomp : ∀ a b c, cmp a b = false → cmp b a = false → cmp b c = false → cmp c b = false →
             cmp a c = false ∧ cmp c a = false

theorem SWO.asymm {cmp} (h : SWO cmp) {a b : Int} (hab : cmp a b = true) : cmp b a = false := by
  cases hba : cmp b a with
  | false => rfl
  | true => have := h.trans a b a hab hba; rw [h.irrefl] at this; cases this

/-- `a ≤ b ≤ c → a ≤ c` where `x ≤ y` means `¬ cmp y x`. -/
theorem SWO.negTrans {cmp} (h : SWO cmp) {a b c : Int} (hab : cmp b a = false) (hbc : cmp c b = false) :
    cmp c a = false := by
  cases hca : cmp c a with
  | false => rfl
  | true =>
    cases h1 : cmp a b with
    | true => have := h.trans c a b hca h1; rw [hbc] at this; cases this
    | false =>
      cases h2 : cmp b c with
      | true => have := h.trans b c a h2 hca; rw [hab] at this; cases this
      | false => have := (h.incomp a b c h1 hab h2 hbc).2; rw [hca] at this; cases this

/-- `c < a ≤ b → ¬ b < c`… in the form used for siblings: `x < y`, `y ≤ z` give `x ≤ z` strictly. -/
theorem SWO.lt_of_lt_le {cmp} (h : SWO cmp) {x y z : Int} (hxy : cmp x y = true) (hyz : cmp z y = false) :
    cmp z x = false := by
  cases hzx : cmp z x with
  | false => rfl
  | true => have := h.trans z x y hzx hxy; rw [hyz] at this; cases this

/-- Parent index: `(j - 1) / 2` (truncating at `j = 0`). -/
def par (j : Nat) : Nat := (j - 1) / 2

/-- Pairs `(c, par c)` with `lo ≤ par c`, `c < n`, are in order. -/
def HeapOn (cmp : Int → Int → Bool) (f : Nat → Int) (lo n : Nat) : Prop :=
  ∀ c, c < n → 1 ≤ c → lo ≤ par c → cmp (f c) (f (par c)) = false

def swapF (f : Nat → Int) (i j : Nat) : Nat → Int :=
  fun k => if k = j then f i else if k = i then f j else f k

/-- Hypothesis of `down` at `i`: all pairs whose parent is not `i` are in order (the pair
`(i, par i)` only when `strict`), and the children of `i` do not precede `i`'s parent. -/
structure DownPre (cmp : Int → Int → Bool) (f : Nat → Int) (i n lo : Nat) (strict : Bool) : Prop where
  others : ∀ c, c < n → 1 ≤ c → lo ≤ par c → par c ≠ i → (strict = true ∨ c ≠ i) →
             cmp (f c) (f (par c)) = false
  grand  : 1 ≤ i → lo ≤ par i → ∀ c, c < n → 1 ≤ c → par c = i → cmp (f c) (f (par i)) = false

/-- One swap of `down` re-establishes its hypothesis one level lower (now strictly). -/
theorem downPre_step {cmp} (hs : SWO cmp) {f : Nat → Int} {i n lo j : Nat} {strict : Bool}
    (h : DownPre cmp f i n lo strict) (hlo : lo ≤ i) (hj : j < n) (hpar : par j = i) (hj1 : 1 ≤ j)
    (hlt : cmp (f j) (f i) = true)
    (hmin : ∀ c, c < n → 1 ≤ c → par c = i → cmp (f c) (f j) = false) :
    DownPre cmp (swapF f i j) j n lo true := by
  have hij : i < j := by unfold par at hpar; omega
  refine ⟨?_, ?_⟩
  · intro c hc hc1 hloc hpc _
    by_cases hcj : c = j
    · subst hcj
      simp only [swapF, hpar, if_true]
      have : i ≠ c := by omega
      simp only [this, if_false, if_true]
      exact hs.asymm hlt
    · by_cases hci : c = i
      · subst hci
        have hp1 : par c ≠ j := by unfold par; omega
        have hp2 : par c ≠ c := by unfold par; omega
        simp only [swapF, hcj, if_false, if_true, hp1, hp2]
        exact h.grand hc1 hloc j hj hj1 hpar
      · by_cases hpi : par c = i
        · simp only [swapF, hcj, hci, if_false, hpi, if_true]
          have : i ≠ j := by omega
          simp only [this, if_false, if_true]
          exact hmin c hc hc1 hpi
        · simp only [swapF, hcj, hci, if_false, hpc, hpi]
          exact h.others c hc hc1 hloc hpi (Or.inr hci)
  · intro _ _ c hc hc1 hpc
    have hcj : c ≠ j := by unfold par at hpc; omega
    have hci : c ≠ i := by unfold par at hpc; omega
    have : i ≠ j := by omega
    simp only [swapF, hcj, hci, if_false, hpar, if_true, this]
    have := h.others c hc hc1 (by rw [hpc]; omega) (by rw [hpc]; omega) (Or.inr hci)
    rw [hpc] at this; exact this

/-- When `down` stops at `i` (no child precedes `i`), the heap order holds. -/
theorem downPre_stop {cmp} {f : Nat → Int} {i n lo : Nat}
    (h : DownPre cmp f i n lo true)
    (hch : ∀ c, c < n → 1 ≤ c → par c = i → cmp (f c) (f i) = false) :
    HeapOn cmp f lo n := by
  intro c hc hc1 hloc
  by_cases hpi : par c = i
  · rw [hpi]; exact hch c hc hc1 hpi
  · exact h.others c hc hc1 hloc hpi (Or.inl rfl)

/-- Hypothesis of `up` at `j`: all pairs except `(j, par j)` are in order and the children of
`j` do not precede `j`'s parent. -/
structure UpPre (cmp : Int → Int → Bool) (f : Nat → Int) (j n : Nat) : Prop where
  others : ∀ c, c < n → 1 ≤ c → c ≠ j → cmp (f c) (f (par c)) = false
  grand  : 1 ≤ j → ∀ c, c < n → 1 ≤ c → par c = j → cmp (f c) (f (par j)) = false

theorem upPre_step {cmp} (hs : SWO cmp) {f : Nat → Int} {j n : Nat}
    (h : UpPre cmp f j n) (hj : j < n) (hj1 : 1 ≤ j) (hlt : cmp (f j) (f (par j)) = true) :
    UpPre cmp (swapF f (par j) j) (par j) n := by
  have hij : par j < j := by unfold par; omega
  refine ⟨?_, ?_⟩
  · intro c hc hc1 hci
    by_cases hcj : c = j
    · subst hcj
      have : par c ≠ c := by omega
      simp only [swapF, if_true, this, if_false]
      exact hs.asymm hlt
    · by_cases hpj : par c = j
      · simp only [swapF, hcj, hci, if_false, hpj, if_true]
        exact h.grand hj1 c hc hc1 hpj
      · by_cases hpi : par c = par j
        · have : par j ≠ j := by omega
          simp only [swapF, hcj, hci, if_false, hpi, this, if_true]
          have h1 := h.others c hc hc1 hcj
          rw [hpi] at h1
          -- f c ≥ f (par j) > f j
          cases hx : cmp (f c) (f j) with
          | false => rfl
          | true => have := hs.trans _ _ _ hx hlt; rw [h1] at this; cases this
        · simp only [swapF, hcj, hci, if_false, hpj, hpi]
          exact h.others c hc hc1 hcj
  · intro hi1 c hc hc1 hpc
    have hppj : par (par j) ≠ j := by unfold par; omega
    have hppi : par (par j) ≠ par j := by unfold par at hi1 ⊢; omega
    have hpi := h.others (par j) (by omega) hi1 (by omega)
    by_cases hcj : c = j
    · subst hcj
      simp only [swapF, if_true, hppj, hppi, if_false]
      exact hpi
    · have hci : c ≠ par j := by unfold par at hpc ⊢; omega
      simp only [swapF, hcj, hci, if_false, hppj, hppi]
      have h1 := h.others c hc hc1 hcj
      rw [hpc] at h1
      exact hs.negTrans hpi h1

theorem upPre_stop {cmp} {f : Nat → Int} {j n : Nat}
    (h : UpPre cmp f j n) (hstop : j = 0 ∨ cmp (f j) (f (par j)) = false) :
    HeapOn cmp f 0 n := by
  intro c hc hc1 _
  by_cases hcj : c = j
  · subst hcj
    rcases hstop with h0 | h0
    · omega
    · exact h0
  · exact h.others c hc hc1 hcj

end Golib.C04
