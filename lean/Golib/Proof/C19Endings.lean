/-
C19 — the ways a submitted function can END (`Outcome`: return, panic with a value,
`panic(nil)` under `GODEBUG=panicnil=1`, `runtime.Goexit()`): whatever the ending, the
deferred function of `Recover` runs `recover()` → (handler) → `l.w.Done()` → `<-l.c`, so the
token and the WaitGroup count come back (helper lemmas for `c19_endings`).
-/
import Golib.Proof.C19Fill
import Golib.Model.C19

namespace Golib.C19

/-- What the handler receives on behalf of a task when its deferred function runs: decided by
`recover()` alone. -/
def Outcome.handlerGets (o : Outcome) : List HVal :=
  match o.recovered with
  | none => []
  | some v => [.val v]

/-- `advN s i n` is the schedule "task `i` takes `n` steps". -/
theorem advN_eq_run (i : Nat) : ∀ (n : Nat) (s : St), advN s i n = s.run (List.replicate n (.adv i))
  | 0, _ => rfl
  | n + 1, s => by
    simp only [advN, List.replicate_succ, St.run]
    cases s.step (.adv i) with
    | none => rfl
    | some s' => exact advN_eq_run i n s'

/-- In a reachable state (invariant `Inv`), a task that has left its function — by ANY
ending — runs its three deferred statements to the end: token and WaitGroup count are given
back, nothing else changes. -/
theorem ending_returns_slot {n₀ : Nat} {s : St} (hi : Inv n₀ s) {i : Nat} {t : Task}
    (ht : s.tasks[i]? = some t) (hpc : t.pc = .recovering) :
    advN s i 3 = some { s with k := s.k - 1, wg := s.wg - 1,
                               tasks := s.tasks.set i { t with pc := .exited,
                                                               handled := t.handled ++ t.outcome.handlerGets } } ∧
    0 < s.k ∧ 0 < s.wg := by
  have hlen : i < s.tasks.length := (List.getElem?_eq_some_iff.1 ht).1
  obtain ⟨pc, outcome, starts, handled, hid⟩ := t
  simp only [] at hpc
  subst hpc
  have hk : 0 < s.k := holds_pos hi ht (by simp [Pc.holdsToken])
  have hwg : 0 < s.wg := inWg_pos hi ht (by simp [Pc.inWg])
  have hwg0 : s.wg ≠ 0 := by omega
  refine ⟨?_, hk, hwg⟩
  -- recover() → (handler): `recovering → cleanup`
  let t1 : Task := { pc := .cleanup, outcome := outcome, starts := starts,
                     handled := handled ++ outcome.handlerGets, hid := hid }
  have e1 : s.adv i = some { s with tasks := s.tasks.set i t1 } := by
    cases hrec : outcome.recovered <;> simp [St.adv, ht, hrec, t1, Outcome.handlerGets]
  have g1 : (s.tasks.set i t1)[i]? = some t1 := List.getElem?_set_self hlen
  -- l.w.Done(): `cleanup → wgDone`
  let t2 : Task := { t1 with pc := .wgDone }
  have e2 : St.adv { s with tasks := s.tasks.set i t1 } i =
      some { s with wg := s.wg - 1, tasks := s.tasks.set i t2 } := by
    simp only [St.adv, g1, t1, t2, if_neg hwg0, List.set_set]
  have g2 : (s.tasks.set i t2)[i]? = some t2 := List.getElem?_set_self hlen
  -- <-l.c: `wgDone → exited`
  have e3 : St.adv { s with wg := s.wg - 1, tasks := s.tasks.set i t2 } i =
      some { s with k := s.k - 1, wg := s.wg - 1, tasks := s.tasks.set i { t2 with pc := .exited } } := by
    simp only [St.adv, g2, t2, t1, if_pos hk, List.set_set]
  simp only [advN, St.step, e1, e2, e3]
  rfl

/-- The record of a task that ran alone from submit to exit. -/
def doneTask (cur : Nat) (o : Outcome) : Task :=
  { pc := .exited, outcome := o, starts := 1, handled := o.handlerGets, hid := cur }

/-- One submission run alone from submit to exit, for every ending: the state is as before
plus one exited task that was entered once; `k` and the WaitGroup counter are unchanged. -/
def oneTask (j : Nat) (o : Outcome) : List Label :=
  [.submit o, .adv j, .adv j, .adv j, .adv j, .adv j, .adv j, .adv j, .adv j]

theorem run_oneTask (s : St) (o : Outcome) (hk : s.k < s.n) :
    s.run (oneTask s.tasks.length o) = some { s with tasks := s.tasks ++ [doneTask s.cur o] } := by
  cases hrec : o.recovered <;>
    simp [oneTask, doneTask, St.run, St.step, St.adv, hk, hrec, Outcome.handlerGets]

/-- Any sequence of endings, one function after the other. -/
def seqTasks : Nat → List Outcome → List Label
  | _, [] => []
  | j, o :: os => oneTask j o ++ seqTasks (j + 1) os

theorem run_seqTasks (os : List Outcome) : ∀ (s : St), s.k < s.n →
    s.run (seqTasks s.tasks.length os) = some { s with tasks := s.tasks ++ os.map (doneTask s.cur) } := by
  induction os with
  | nil => intro s _; simp [seqTasks, St.run]
  | cons o os ih =>
    intro s hk
    simp only [seqTasks]
    rw [run_append, run_oneTask s o hk]
    simp only [Option.bind_some]
    have := ih { s with tasks := s.tasks ++ [doneTask s.cur o] } hk
    simp only [List.length_append, List.length_singleton] at this
    rw [this]
    simp

end Golib.C19
