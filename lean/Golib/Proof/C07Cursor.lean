/-
C07: the generic loop theorem.  If a loop body meets `BodySpec` with respect to a
decision function `dec` on the remaining suffix, the cursor program (`run`) computes
`parseFun dec`, never panics when `|dst| ≥ |src|`, and returns at most `|src|`.
Termination (`Progress`) needs no hypothesis on `dst`.
-/
import Golib.Proof.C07Basic

namespace Golib.C07
open Golib

/-- What has been produced so far, had the pending literal run been flushed. -/
def virt (src : Bytes) (s : St) : Bytes := s.dst.take s.e ++ (src.take s.i).drop s.f

/-- `e ≤ f ≤ i ≤ |src| ≤ |dst|`: the write cursor never passes the read cursor. -/
structure Inv (src : Bytes) (n : Nat) (s : St) : Prop where
  ef : s.e ≤ s.f
  fi : s.f ≤ s.i
  il : s.i ≤ src.length
  dl : s.dst.length = n
  sd : src.length ≤ n

/-- Post-condition of a `break` (and of the loop): only `e`, `f`, `dst` matter afterwards. -/
def Final (src : Bytes) (n : Nat) (s' : St) (out : Bytes) : Prop :=
  s'.e ≤ s'.f ∧ s'.f ≤ src.length ∧ s'.dst.length = n ∧ s'.dst.take s'.e ++ src.drop s'.f = out

def BodySpec (body : St → Option Step) (dec : Bytes → Dec) (src : Bytes) (n : Nat) : Prop :=
  ∀ s, Inv src n s → s.i < src.length →
    match dec (src.drop s.i) with
    | .stop => ∃ s', body s = some (.brk s') ∧ Final src n s' (virt src s ++ src.drop s.i)
    | .skip k => 0 < k ∧ s.i + k ≤ src.length ∧ ∃ s', body s = some (.cont s') ∧ Inv src n s' ∧
        s'.i = s.i + k ∧ virt src s' = virt src s ++ (src.drop s.i).take k
    | .emit bs k => 0 < k ∧ s.i + k ≤ src.length ∧ ∃ s', body s = some (.cont s') ∧ Inv src n s' ∧
        s'.i = s.i + k ∧ virt src s' = virt src s ++ bs

/-- Every `continue` advances the read cursor. -/
def Progress (body : St → Option Step) : Prop :=
  ∀ s s', body s = some (.cont s') → s.i < s'.i

theorem parseFun_nil (dec : Bytes → Dec) : parseFun dec [] = [] := by
  rw [parseFun]; simp

theorem loop_spec {body : St → Option Step} {dec : Bytes → Dec} {src : Bytes} {n : Nat}
    (hb : BodySpec body dec src n) :
    ∀ (fuel : Nat) (s : St), Inv src n s → src.length - s.i ≤ fuel →
      ∃ s', loop body src.length fuel s = .ok s' ∧
        Final src n s' (virt src s ++ parseFun dec (src.drop s.i)) := by
  intro fuel
  induction fuel with
  | zero =>
    intro s hi hf
    have hil := hi.il
    have : ¬ s.i < src.length := by omega
    have hie : s.i = src.length := by omega
    refine ⟨s, by unfold loop; simp [this], hi.ef, by have := hi.fi; omega, hi.dl, ?_⟩
    simp [virt, hie, parseFun_nil]
  | succ fuel ih =>
    intro s hi hf
    by_cases hlt : s.i < src.length
    · have hne : src.drop s.i ≠ [] := by
        intro h; have := congrArg List.length h; simp at this; omega
      have hs := hb s hi hlt
      unfold loop
      simp only [hlt, if_true]
      rw [parseFun]
      simp only [hne, dite_false]
      split at hs
      · obtain ⟨s', hbody, hfin⟩ := hs
        rename_i hd
        simp only [hbody, hd]
        exact ⟨s', rfl, hfin⟩
      · rename_i k hd
        obtain ⟨hk, hik, s', hbody, hinv, hi', hv⟩ := hs
        simp only [hbody, hd, hk, dite_true]
        obtain ⟨s'', hl, hfin⟩ := ih s' hinv (by omega)
        refine ⟨s'', hl, ?_⟩
        rw [hv, hi', List.append_assoc, ← List.drop_drop] at hfin
        exact hfin
      · rename_i bs k hd
        obtain ⟨hk, hik, s', hbody, hinv, hi', hv⟩ := hs
        simp only [hbody, hd, hk, dite_true]
        obtain ⟨s'', hl, hfin⟩ := ih s' hinv (by omega)
        refine ⟨s'', hl, ?_⟩
        rw [hv, hi', List.append_assoc, ← List.drop_drop] at hfin
        exact hfin
    · have hil := hi.il
      have hie : s.i = src.length := by omega
      refine ⟨s, by unfold loop; simp [hlt], hi.ef, by have := hi.fi; omega, hi.dl, ?_⟩
      simp [virt, hie, parseFun_nil]

theorem finish_spec {src : Bytes} {n : Nat} {s : St} {out : Bytes} (hsd : src.length ≤ n)
    (h : Final src n s out) :
    ∃ e dst, finish src s = .ok (e, dst) ∧ dst.length = n ∧ e ≤ src.length ∧ dst.take e = out := by
  obtain ⟨hef, hfl, hdl, hout⟩ := h
  obtain ⟨s1, hfl1, hl1, he1, -, -, ht1⟩ :=
    flush_spec (src := src) (s := { s with i := src.length }) hfl (Nat.le_refl _)
      (by simp only []; omega)
  simp only [List.take_length] at ht1
  refine ⟨s1.e, s1.dst, by simp [finish, hfl1], by rw [hl1]; exact hdl, ?_, by rw [ht1]; exact hout⟩
  simp only [] at he1; omega

/-- The cursor program computes the functional parser; no panic, result length ≤ |src|. -/
theorem run_spec {body : Bytes → St → Option Step} {dec : Bytes → Dec} {dst src : Bytes}
    (hsd : src.length ≤ dst.length) (hb : BodySpec (body src) dec src dst.length) :
    ∃ e dst', parse body dst src = .ok (e, dst') ∧ dst'.length = dst.length ∧ e ≤ src.length ∧
      dst'.take e = parseFun dec src := by
  have hinv : Inv src dst.length ⟨dst, 0, 0, 0⟩ := ⟨Nat.le_refl _, Nat.le_refl _, Nat.zero_le _, rfl, hsd⟩
  obtain ⟨s', hl, hfin⟩ := loop_spec hb (src.length + 1) _ hinv (by simp only []; omega)
  have hv : virt src ⟨dst, 0, 0, 0⟩ = [] := by simp [virt]
  rw [hv] at hfin
  simp only [List.nil_append, List.drop_zero] at hfin
  obtain ⟨e, dst', hf, hl', he, ht⟩ := finish_spec hsd hfin
  exact ⟨e, dst', by simp [parse, run, hl, hf], hl', he, ht⟩

theorem loop_no_fuel {body : St → Option Step} {n : Nat} (hp : Progress body) :
    ∀ (fuel : Nat) (s : St), n - s.i ≤ fuel → loop body n fuel s ≠ .fuel := by
  intro fuel
  induction fuel with
  | zero => intro s hf; unfold loop; have : ¬ s.i < n := by omega
            simp [this]
  | succ fuel ih =>
    intro s hf
    unfold loop
    by_cases hlt : s.i < n
    · simp only [hlt, if_true]
      cases hbs : body s with
      | none => simp
      | some st =>
        cases st with
        | brk s' => simp
        | cont s' =>
          have := hp s s' hbs
          simp only []
          exact ih s' (by omega)
    · simp [hlt]

/-- The fuel `|src| + 1` is never exhausted, whatever `dst` is. -/
theorem run_terminates {body : Bytes → St → Option Step} (hp : ∀ src, Progress (body src))
    (dst src : Bytes) : parse body dst src ≠ .fuel := by
  have := loop_no_fuel (hp src) (n := src.length) (src.length + 1) ⟨dst, 0, 0, 0⟩ (by simp only []; omega)
  unfold parse run
  split
  · unfold finish; split <;> simp
  · simp
  · rename_i h; exact absurd h this

end Golib.C07
