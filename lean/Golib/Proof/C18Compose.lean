/-
`FindDpSolvers(maxValue, …).Best(maxValue)` / `.BestAllowMinOverflow(maxValue)` end to end:
the composition of the solver-map theorems (`solversV_spec`) with the nearest-key theorems
(`best_spec`, `bestO_spec`).  This is the last sentence of the FindDpSolvers clause of the
property ("so Best yields the largest attainable total <= maxValue and BestAllowMinOverflow
the exact total if attainable, else the smallest overshoot").
-/
import Golib.Proof.C18SolvV
import Golib.Proof.C18Best

namespace Golib.C18

variable {α : Type}

theorem isum_nonneg (vf : α → Int) : ∀ (l : List α), (∀ x ∈ l, 0 ≤ vf x) → 0 ≤ isum vf l
  | [], _ => by simp [isum]
  | x :: r, h => by
    have h1 := h x (by simp)
    have h2 := isum_nonneg vf r (fun y hy => h y (List.mem_cons_of_mem _ hy))
    simp only [isum, List.map_cons, List.sum_cons] at h2 ⊢
    omega

/-- A non-empty set of integers bounded below has a least element. -/
theorem exists_least_above (P : Int → Prop) (lb : Int) (hlb : ∀ a, P a → lb < a) :
    ∀ (n : Nat), (∃ a, P a ∧ a ≤ lb + n) → ∃ t, P t ∧ ∀ a, P a → t ≤ a
  | 0, ⟨a, ha, hle⟩ => by have := hlb a ha; omega
  | n + 1, ⟨a, ha, hle⟩ => by
    by_cases h : ∃ b, P b ∧ b ≤ lb + n
    · exact exists_least_above P lb hlb n h
    · refine ⟨a, ha, fun b hb => ?_⟩
      have hb' : ¬ b ≤ lb + n := fun hle' => h ⟨b, hb, hle'⟩
      have : a ≤ lb + ((n + 1 : Nat) : Int) := hle
      omega

theorem exists_least (P : Int → Prop) (lb : Int) (hlb : ∀ a, P a → lb < a) (hne : ∃ a, P a) :
    ∃ t, P t ∧ ∀ a, P a → t ≤ a := by
  obtain ⟨a, ha⟩ := hne
  have h := hlb a ha
  refine exists_least_above P lb hlb (a - lb).toNat ⟨a, ha, ?_⟩
  omega

section
variable (br : Option (List α → List α → Bool)) (maxV : Int) (allowOver : Bool) (vf : α → Int)
variable (ord1 ord2 : Nat → List Int → List Int)
variable (hord1 : ∀ i l, (ord1 i l).Perm l) (hord2 : ∀ i l, (ord2 i l).Perm l)
variable (ord : List Int → List Int) (hord : ∀ l, (ord l).Perm l)

include hord1 hord2 in
/-- Facts about the solver map used by both compositions. -/
theorem solversV_keys_facts (items : List α) (hpos : ∀ x ∈ items, 0 < vf x) (hmax : 0 ≤ maxV)
    (hbig : maxV < maxInt) :
    let m := solversV br maxV allowOver vf ord1 ord2 items
    (0 : Int) ∈ keys m ∧ (∀ k ∈ keys m, maxV - k < maxInt) ∧
      (∀ e ∈ m, Att vf items e.1) := by
  obtain ⟨_, snd, comp, _, _⟩ := solversV_spec br maxV allowOver vf ord1 ord2 hord1 hord2 items
    (fun x hx => Int.le_of_lt (hpos x hx)) (fun _ => hpos)
  refine ⟨comp 0 ⟨[], List.nil_sublist _, by simp [isum]⟩ hmax, ?_, fun e he => ⟨e.2, snd e he⟩⟩
  intro k hk
  obtain ⟨e, he, rfl⟩ := List.mem_map.mp hk
  obtain ⟨hs, hsum⟩ := snd e he
  have : 0 ≤ isum vf e.2 :=
    isum_nonneg vf e.2 (fun x hx => Int.le_of_lt (hpos x (hs.subset hx)))
  omega

include hord1 hord2 hord in
/-- `FindDpSolvers(maxV, items, …).Best(maxV)`: never `nil`; a sub-selection whose total is
`≤ maxV` and is the largest attainable total `≤ maxV` — for all iteration orders, any
tie-breaker, with or without overshoot. -/
theorem best_of_solvers (items : List α) (hpos : ∀ x ∈ items, 0 < vf x) (hmax : 0 ≤ maxV)
    (hbig : maxV < maxInt) :
    ∃ sel, best ord (solversV br maxV allowOver vf ord1 ord2 items) maxV = some sel ∧
      sel.Sublist items ∧ isum vf sel ≤ maxV ∧
      ∀ t, Att vf items t → t ≤ maxV → t ≤ isum vf sel := by
  obtain ⟨nd, snd, comp, _, _⟩ := solversV_spec br maxV allowOver vf ord1 ord2 hord1 hord2 items
    (fun x hx => Int.le_of_lt (hpos x hx)) (fun _ => hpos)
  obtain ⟨h0, hb, _⟩ := solversV_keys_facts br maxV allowOver vf ord1 ord2 hord1 hord2 items hpos
    hmax hbig
  have hs := best_spec ord (solversV br maxV allowOver vf ord1 ord2 items) maxV nd (hord _) hb
  cases hbest : best ord (solversV br maxV allowOver vf ord1 ord2 items) maxV with
  | none =>
    rw [hbest] at hs
    obtain ⟨e, he, he0⟩ := List.mem_map.mp h0
    have := hs e he
    omega
  | some v =>
    rw [hbest] at hs
    obtain ⟨k, hk, hle, hmaxk⟩ := hs
    obtain ⟨hsub, hsum⟩ := snd (k, v) hk
    simp only [] at hsub hsum
    refine ⟨v, rfl, hsub, by omega, fun t ht htle => ?_⟩
    obtain ⟨e, he, rfl⟩ := List.mem_map.mp (comp t ht htle)
    have := hmaxk e he htle
    omega

include hord1 hord2 hord in
/-- `FindDpSolvers(maxV, items, valueFunc, true, …).BestAllowMinOverflow(maxV)`: never `nil`; a
sub-selection whose total is `maxV` if `maxV` is attainable; otherwise the smallest attainable
total above `maxV` if there is one; otherwise the largest attainable total. -/
theorem bestO_of_solvers (items : List α) (hpos : ∀ x ∈ items, 0 < vf x) (hmax : 0 ≤ maxV)
    (hbig : maxV < maxInt) :
    ∃ sel, bestO ord (solversV br maxV true vf ord1 ord2 items) maxV = some sel ∧
      sel.Sublist items ∧
      (Att vf items maxV → isum vf sel = maxV) ∧
      (¬ Att vf items maxV → (∃ a, Att vf items a ∧ maxV < a) →
        maxV < isum vf sel ∧ ∀ a, Att vf items a → maxV < a → isum vf sel ≤ a) ∧
      (¬ Att vf items maxV → (¬ ∃ a, Att vf items a ∧ maxV < a) →
        isum vf sel < maxV ∧ ∀ t, Att vf items t → t ≤ isum vf sel) := by
  obtain ⟨nd, snd, comp, _, least⟩ := solversV_spec br maxV true vf ord1 ord2 hord1 hord2 items
    (fun x hx => Int.le_of_lt (hpos x hx)) (fun _ => hpos)
  obtain ⟨h0, hb, hatt⟩ := solversV_keys_facts br maxV true vf ord1 ord2 hord1 hord2 items hpos
    hmax hbig
  have hs := bestO_spec ord (solversV br maxV true vf ord1 ord2 items) maxV nd (hord _) hb
  -- the least attainable total above `maxV` is a key whenever one exists
  have hleast : (∃ a, Att vf items a ∧ maxV < a) →
      ∃ t, t ∈ keys (solversV br maxV true vf ord1 ord2 items) ∧ maxV < t ∧
        ∀ a, Att vf items a → maxV < a → t ≤ a := by
    intro hex
    obtain ⟨t, ⟨ht1, ht2⟩, ht3⟩ := exists_least (fun a => Att vf items a ∧ maxV < a) maxV
      (fun a ha => ha.2) hex
    exact ⟨t, least rfl t ht1 ht2 (fun a ha hlt => ht3 a ⟨ha, hlt⟩), ht2,
      fun a ha hlt => ht3 a ⟨ha, hlt⟩⟩
  cases hbest : bestO ord (solversV br maxV true vf ord1 ord2 items) maxV with
  | none =>
    rw [hbest] at hs
    simp only [] at hs
    rw [hs] at h0
    simp [keys] at h0
  | some v =>
    rw [hbest] at hs
    obtain ⟨k, hk, hcase⟩ := hs
    obtain ⟨hsub, hsum⟩ := snd (k, v) hk
    simp only [] at hsub hsum
    have hkatt : Att vf items k := ⟨v, hsub, hsum⟩
    refine ⟨v, rfl, hsub, ?_, ?_, ?_⟩
    · intro hA
      rcases hcase with h | ⟨hnk, _, _⟩ | ⟨hnk, _, _⟩
      · omega
      · exact absurd (comp maxV hA (Int.le_refl _)) hnk
      · exact absurd (comp maxV hA (Int.le_refl _)) hnk
    · intro hnA hex
      rcases hcase with h | ⟨_, hlt, hmin⟩ | ⟨_, hall, _⟩
      · exact absurd (h ▸ hkatt) hnA
      · obtain ⟨t, htk, htlt, htmin⟩ := hleast hex
        obtain ⟨e, he, rfl⟩ := List.mem_map.mp htk
        have h1 := hmin e he htlt
        refine ⟨by omega, fun a ha hlt' => ?_⟩
        have := htmin a ha hlt'
        omega
      · obtain ⟨t, htk, htlt, _⟩ := hleast hex
        obtain ⟨e, he, rfl⟩ := List.mem_map.mp htk
        have := hall e he
        omega
    · intro hnA hnex
      rcases hcase with h | ⟨_, hlt, _⟩ | ⟨_, hall, hmaxk⟩
      · exact absurd (h ▸ hkatt) hnA
      · exact absurd ⟨k, hkatt, hlt⟩ hnex
      · have hklt := hall (k, v) hk
        simp only [] at hklt
        refine ⟨by omega, fun t ht => ?_⟩
        have htle : t ≤ maxV := by
          apply Int.not_lt.mp
          intro hlt
          exact hnex ⟨t, ht, hlt⟩
        obtain ⟨e, he, rfl⟩ := List.mem_map.mp (comp t ht htle)
        have := hmaxk e he
        omega

end
end Golib.C18
