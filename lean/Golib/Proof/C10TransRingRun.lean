/-
C10 — the refinement theorem carried over to the REGENERATED code: a driver `gstep`/`grun` that
executes an operation list by calling the definitions `go2lean` generates from `ringz/ring.go`
(`Golib/Gen/TransC10.lean`) is, through the ties of `Golib/Proof/C10TransRing.lean`, the
hand-written `Ring.step`/`Ring.run`; hence `c10_ring_refines` holds of it.  Nothing here looks
inside a generated definition: the scripts only use the tie theorems, so they are independent
of how the Go methods are written.
-/
import Golib.Proof.C10TransRing
import Golib.Proof.C10Refine

set_option linter.unusedSimpArgs false

namespace Golib.C10
open Golib.GoSem Golib.Proto

open Golib.Gen.Trans.C10 in
/-- One operation executed by the generated definitions: new receiver and the printed result
(the same printing as the model driver `Ring.step`). -/
def gstep (r : GRing) : Op → Res (GRing × String)
  | .push v => (Ring_Push r v).bind fun p => .ok (p.2, Proto.showBool p.1)
  | .pushx v => (Ring_PushWithExpand r v).bind fun r' => .ok (r', "ok")
  | .recap c => (Ring_Recap r c).bind fun p => .ok (p.2, Proto.showBool p.1)
  | .pop => (Ring_Pop r).bind fun p => .ok (p.2, s!"{p.1.1} {Proto.showBool p.1.2}")
  | .peek => (Ring_Peek r).bind fun p => .ok (r, s!"{p.1} {Proto.showBool p.2}")
  | .len => (Ring_Len r).bind fun n => .ok (r, toString n)
  | .cap => (Ring_Cap r).bind fun n => .ok (r, toString n)
  | .isEmpty => (Ring_IsEmpty r).bind fun b => .ok (r, Proto.showBool b)
  | .isFull => (Ring_IsFull r).bind fun b => .ok (r, Proto.showBool b)

/-- A whole operation list on the generated definitions; a panic anywhere is a panic. -/
def grun (r : GRing) : List Op → Res (GRing × List String)
  | [] => .ok (r, [])
  | op :: ops => (gstep r op).bind fun p => (grun p.1 ops).bind fun q => .ok (q.1, p.2 :: q.2)

theorem gstep_eq (r : GRing) (op : Op) :
    gstep r op = ofOpt (((toM r).step op).map fun p => (ofM p.1, p.2)) := by
  cases op <;>
    simp only [gstep, Ring.step, trans_Ring_Push, trans_Ring_PushWithExpand, trans_Ring_Recap,
      trans_Ring_Pop, trans_Ring_Peek, trans_Ring_Len, trans_Ring_Cap, trans_Ring_IsEmpty,
      trans_Ring_IsFull, ofOpt_map, ofOpt_some, Option.map_some, Option.map_map, Res.bind_assoc',
      Res.bind_ok', ofM_toM] <;>
    first
      | rfl
      | (generalize Ring.push _ _ = o; cases o <;> rfl)
      | (generalize Ring.pushWithExpand _ _ = o; cases o <;> rfl)
      | (generalize Ring.recap _ _ = o; cases o <;> rfl)
      | (generalize Ring.pop _ = o; cases o <;> rfl)
      | (generalize Ring.peek _ = o; cases o <;> rfl)
      | (generalize Ring.isFull? _ = o; cases o <;> rfl)

theorem grun_eq (r : GRing) (ops : List Op) :
    grun r ops = ofOpt (((toM r).run ops).map fun p => (ofM p.1, p.2)) := by
  induction ops generalizing r with
  | nil => rfl
  | cons op ops ih =>
    simp only [grun, Ring.run, gstep_eq]
    cases h : (toM r).step op with
    | none => rfl
    | some p =>
      obtain ⟨r1, o⟩ := p
      simp only [Option.map_some, ofOpt_some, Res.bind_ok', ih, toM_ofM]
      cases (r1.run ops) with
      | none => rfl
      | some q => rfl

end Golib.C10
