/-
C13 helper lemmas, part 9: `SList` index operations — `Remove(i)` (index walk with `before`
tracking, head/tail fix-up), `InsertNodeAt(i, e)` (clamped), `Swap(i, j)` (one walk collecting
both nodes) — against sequence semantics.
-/
import Golib.Proof.C13SList

set_option linter.unusedSimpArgs false
set_option linter.unusedVariables false

namespace Golib.C13

/-! ### reading a chain -/

theorem eq_nil_or_snoc' (L : List Nat) : L = [] ∨ ∃ L0 w, L = L0 ++ [w] := by
  rcases List.eq_nil_or_concat L with h | ⟨a, b, h⟩
  · exact Or.inl h
  · exact Or.inr ⟨a, b, by simpa using h⟩

theorem chainTo_head {nx : PM} {p : Ptr} {L : List Nat} (h : ChainTo nx p L none) : p = L.head? := by
  cases L with
  | nil => simpa [ChainTo] using h
  | cons x xs => simp only [ChainTo] at h; simp [h.1]

/-- The chain through `P ++ x :: Q`, cut at `x`. -/
theorem chainTo_mid {nx : PM} {p : Ptr} {P : List Nat} {x : Nat} {Q : List Nat}
    (h : ChainTo nx p (P ++ x :: Q) none) :
    ChainTo nx p P (some x) ∧ ChainTo nx (nx.get x) Q none := by
  obtain ⟨m, h1, h2⟩ := chainTo_append.1 h
  simp only [ChainTo] at h2
  exact ⟨h2.1 ▸ h1, h2.2⟩

/-- Last link of a non-empty prefix: `P' ++ [b]` reaching `some x` means `b.next = x`. -/
theorem chainTo_snoc {nx : PM} {p : Ptr} {P' : List Nat} {b : Nat} {q : Ptr}
    (h : ChainTo nx p (P' ++ [b]) q) : ChainTo nx p P' (some b) ∧ nx.get b = q := by
  obtain ⟨m, h1, h2⟩ := chainTo_append.1 h
  simp only [ChainTo] at h2
  exact ⟨h2.1 ▸ h1, h2.2⟩

/-! ### `Remove(i)` -/

/-- `for index := 0; index < i; index++ { before = e; e = e.next }` over a chain. -/
theorem advance2_spec {s : SSt} : ∀ (P : List Nat) (x : Nat) (Q : List Nat) (b p : Ptr),
    ChainTo s.next p (P ++ x :: Q) none →
    s.advance2 P.length b p = some (P.getLast?.or b, some x) := by
  intro P
  induction P with
  | nil =>
    intro x Q b p hc
    simp only [List.nil_append, ChainTo] at hc
    simp [SSt.advance2, hc.1]
  | cons y P' ih =>
    intro x Q b p hc
    simp only [List.cons_append, ChainTo] at hc
    simp only [List.length_cons, SSt.advance2, hc.1, Option.bind_eq_bind, Option.bind_some]
    rw [ih x Q (some y) _ hc.2]
    cases P' with
    | nil => simp
    | cons z zs =>
      have hw := List.getLast?_eq_some_getLast (l := z :: zs) (by simp)
      rw [List.getLast?_cons_cons, hw]; simp

theorem removeAt_out {s : SSt} {L : List Nat} (h : SInv s L) (i : Int)
    (hr : ¬ (0 ≤ i ∧ i < (L.length : Int))) : s.removeAt i = some (s, none) := by
  have : s.withinRange i = false := by
    simp only [SSt.withinRange, h.len]
    by_cases h0 : 0 ≤ i
    · have : ¬ (i < (L.length : Int)) := fun hh => hr ⟨h0, hh⟩
      simp [h0, this]
    · simp [h0]
  simp [SSt.removeAt, this]

/-- `Remove(i)` for `i = |P|` in `P ++ x :: Q`: unlinks exactly `x`, clears its `next`,
fixes `head` (when `P = []`) and `tail` (when `Q = []`). -/
theorem removeAt_in {s : SSt} {P : List Nat} {x : Nat} {Q : List Nat}
    (h : SInv s (P ++ x :: Q)) (i : Int) (hi : i = (P.length : Int)) :
    ∃ s', s.removeAt i = some (s', some x) ∧ SInv s' (P ++ Q) ∧
      s'.next.get x = none ∧ (∀ n, n ∉ P ++ x :: Q → s'.next.get n = s.next.get n) ∧
      s'.val = s.val ∧ s'.fresh = s.fresh := by
  obtain ⟨hc, ht, hl, hn⟩ := h
  have hwr : s.withinRange i = true := by
    simp [SSt.withinRange, hl, hi]; omega
  have hnat : i.toNat = P.length := by omega
  have hadv := advance2_spec (s := s) P x Q none s.head hc
  rw [← hnat] at hadv
  have hxP : x ∉ P := by simp [List.nodup_append] at hn; grind
  have hxQ : x ∉ Q := by simp [List.nodup_append] at hn; grind
  have hhead := chainTo_head hc
  obtain ⟨hc1, hc2⟩ := chainTo_mid hc
  have hndPQ : (P ++ Q).Nodup := by simp [List.nodup_append] at hn ⊢; grind
  rcases eq_nil_or_snoc' P with rfl | ⟨P', b, rfl⟩
  · -- removing the head
    have hh : s.head = some x := by simpa using hhead
    have hframe : ChainTo (s.next.set x none) (s.next.get x) Q none :=
      chainTo_frame (fun y hy => by
        have : y ≠ x := fun hh => hxQ (hh ▸ hy)
        simp [PM.get_set, this]) hc2
    cases Q with
    | nil =>
      have htl : s.tail = some x := by simpa using ht
      refine ⟨{ s with head := s.next.get x, tail := none, next := s.next.set x none, len := s.len - 1 },
        ?_, ⟨hframe, by simp, by simp [hl], hndPQ⟩, by simp [PM.get_set],
        fun n hn' => by
          have : n ≠ x := fun hh => hn' (by simp [hh])
          simp [PM.get_set, this], rfl, rfl⟩
      have hnat0 : i.toNat = 0 := by simpa using hnat
      simp [SSt.removeAt, hwr, hnat0, SSt.advance2, hh, htl]
    | cons q qs =>
      have htl : s.tail ≠ some x := by
        rw [ht]; simp [List.getLast?_cons_cons]
        intro hh
        exact hxQ (List.mem_of_getLast? hh)
      refine ⟨{ s with head := s.next.get x, next := s.next.set x none, len := s.len - 1 },
        ?_, ⟨hframe, by simpa [List.getLast?_cons_cons] using ht, by simp [hl] <;> omega, hndPQ⟩,
        by simp [PM.get_set],
        fun n hn' => by
          have : n ≠ x := fun hh => hn' (by simp [hh])
          simp [PM.get_set, this], rfl, rfl⟩
      have htl' : ¬ (some x = s.tail) := fun hh => htl hh.symm
      have hnat0 : i.toNat = 0 := by simpa using hnat
      simp [SSt.removeAt, hwr, hnat0, SSt.advance2, hh, htl']
  · -- removing a later node, predecessor `b`
    obtain ⟨hcP, hbx⟩ := chainTo_snoc hc1
    have hbx' : b ≠ x := by intro hh; apply hxP; simp [hh]
    have hbP' : b ∉ P' := by simp [List.nodup_append] at hn; grind
    have hxP' : x ∉ P' := fun hh => hxP (by simp [hh])
    have hbQ : b ∉ Q := by simp [List.nodup_append] at hn; grind
    have hne : ¬ (some x = s.head) := by
      rw [hhead]
      cases P' with
      | nil => simpa using Ne.symm hbx'
      | cons z zs =>
        simp
        intro hh; apply hxP; simp [hh]
    have hadv' : s.advance2 i.toNat none s.head = some (some b, some x) := by
      rw [hadv]; simp
    let nx' := (s.next.set b (s.next.get x)).set x none
    have hchain : ChainTo nx' s.head (P' ++ b :: Q) none := by
      rw [chainTo_append]
      refine ⟨some b, chainTo_frame (fun y hy => ?_) hcP, ?_⟩
      · have h1 : y ≠ b := fun hh => hbP' (hh ▸ hy)
        have h2 : y ≠ x := fun hh => hxP' (hh ▸ hy)
        simp [nx', PM.get_set, h1, h2]
      · simp only [ChainTo, true_and]
        have : nx'.get b = s.next.get x := by simp [nx', PM.get_set, hbx']
        rw [this]
        exact chainTo_frame (fun y hy => by
          have h1 : y ≠ b := fun hh => hbQ (hh ▸ hy)
          have h2 : y ≠ x := fun hh => hxQ (hh ▸ hy)
          simp [nx', PM.get_set, h1, h2]) hc2
    have hframe : ∀ n, n ∉ P' ++ [b] ++ x :: Q → nx'.get n = s.next.get n := by
      intro n hn'
      have h1 : n ≠ b := fun hh => hn' (by simp [hh])
      have h2 : n ≠ x := fun hh => hn' (by simp [hh])
      simp [nx', PM.get_set, h1, h2]
    cases Q with
    | nil =>
      have htl : s.tail = some x := by simpa using ht
      refine ⟨{ s with tail := some b, next := nx', len := s.len - 1 },
        ?_, ⟨by simpa using hchain, by simp, by simp [hl] <;> omega, hndPQ⟩, by simp [nx', PM.get_set],
        hframe, rfl, rfl⟩
      simp only [SSt.removeAt, hwr, Bool.not_true, Bool.false_eq_true, if_false, hadv',
        Option.bind_eq_bind, Option.bind_some, hne, htl, if_true, Option.pure_def]
      rfl
    | cons q qs =>
      have htl : ¬ (some x = s.tail) := by
        rw [ht]; simp [List.getLast?_append, List.getLast?_cons_cons]
        intro hh
        exact hxQ (List.mem_of_getLast? hh.symm)
      refine ⟨{ s with next := nx', len := s.len - 1 },
        ?_, ⟨by simpa using hchain, ?_, by simp [hl] <;> omega, hndPQ⟩, by simp [nx', PM.get_set],
        hframe, rfl, rfl⟩
      · simp only [SSt.removeAt, hwr, Bool.not_true, Bool.false_eq_true, if_false, hadv',
          Option.bind_eq_bind, Option.bind_some, hne, htl, Option.pure_def]
        rfl
      · rw [ht]; simp [List.getLast?_append, List.getLast?_cons_cons]

/-! ### `InsertNodeAt(i, e)` -/

theorem pushFrontNode_frame (s : SSt) (e : Nat) :
    (s.pushFrontNode e).val = s.val ∧ (s.pushFrontNode e).fresh = s.fresh ∧
      ∀ n, n ≠ e → (s.pushFrontNode e).next.get n = s.next.get n := by
  unfold SSt.pushFrontNode
  simp only []
  split <;> exact ⟨rfl, rfl, fun n hn => by simp [PM.get_set, hn]⟩

/-- `InsertNodeAt(i, e)` for a node `e` outside the list with `e.next == nil`: the index is
clamped (`i ≤ 0` ↦ front, `i ≥ Len()` ↦ back), the node lands at position `i`. -/
theorem insertNodeAt_sinv {s : SSt} {L : List Nat} (i : Int) (e : Nat) (h : SInv s L) (he : e ∉ L)
    (hnil : s.next.get e = none) :
    ∃ s', s.insertNodeAt i e = some s' ∧ SInv s' (L.take i.toNat ++ e :: L.drop i.toNat) ∧
      s'.val = s.val ∧ s'.fresh = s.fresh ∧
      ∀ n, n ∉ e :: L → s'.next.get n = s.next.get n := by
  by_cases h0 : i ≤ 0
  · have : i.toNat = 0 := by omega
    rw [this]
    have f := pushFrontNode_frame s e
    refine ⟨s.pushFrontNode e, by simp [SSt.insertNodeAt, h0], by simpa using pushFrontNode_sinv e h he,
      f.1, f.2.1, fun n hn => f.2.2 n (fun hh => hn (by simp [hh]))⟩
  · by_cases h1 : i ≥ s.len
    · obtain ⟨s', r1, r2, r3, r4, r5⟩ := pushBackNode_sinv e h he hnil
      have hlen : L.length ≤ i.toNat := by have := h.len; omega
      rw [List.take_of_length_le hlen, List.drop_eq_nil_of_le hlen]
      exact ⟨s', by simp [SSt.insertNodeAt, h0, h1, r1], r2, r3, r4,
        fun n hn => r5 n (by simp at hn ⊢; grind)⟩
    · -- 0 < i < len: walk to the predecessor
      obtain ⟨hc, ht, hl, hn⟩ := h
      have hi : i.toNat < L.length := by omega
      have hi0 : 0 < i.toNat := by omega
      -- L = P' ++ b :: Q with |P'| = i-1
      have hsplit : L = L.take (i.toNat - 1) ++ (L[i.toNat - 1]'(by omega)) :: L.drop i.toNat := by
        have := List.take_append_drop (i.toNat - 1) L
        rw [List.drop_eq_getElem_cons (by omega)] at this
        rw [show i.toNat - 1 + 1 = i.toNat by omega] at this
        exact this.symm
      generalize hP' : L.take (i.toNat - 1) = P' at hsplit
      generalize hb : L[i.toNat - 1]'(by omega) = b at hsplit
      generalize hQ : L.drop i.toNat = Q at hsplit
      have hP'len : P'.length = i.toNat - 1 := by rw [← hP']; simp; omega
      have htake : L.take i.toNat = P' ++ [b] := by
        rw [hsplit, List.take_append, hP'len]
        have : i.toNat - (i.toNat - 1) = 1 := by omega
        rw [List.take_of_length_le (by omega), this]; simp
      have hQne : Q ≠ [] := by
        intro hh; rw [hh] at hQ
        have := congrArg List.length hQ; simp at this; omega
      have hadv : s.advance (i - 1).toNat s.head = some (some b) := by
        rw [advance_spec (i - 1).toNat s.head L hc (by omega)]
        rw [show (i - 1).toNat = i.toNat - 1 by omega]
        rw [List.drop_eq_getElem_cons (by omega)]; simp [hb]
      rw [htake]
      subst hsplit
      obtain ⟨hc1, hc2⟩ := chainTo_mid hc
      have heb : e ≠ b := by intro hh; apply he; simp [hh]
      have heP' : e ∉ P' := fun hh => he (by simp [hh])
      have heQ : e ∉ Q := fun hh => he (by simp [hh])
      have hbP' : b ∉ P' := by simp [List.nodup_append] at hn; grind
      have hbQ : b ∉ Q := by simp [List.nodup_append] at hn; grind
      let nx' := (s.next.set e (s.next.get b)).set b (some e)
      refine ⟨{ s with next := nx', len := s.len + 1 }, ?_, ⟨?_, ?_, ?_, ?_⟩, rfl, rfl, ?_⟩
      · simp only [SSt.insertNodeAt, h0, h1, if_false, hadv, Option.bind_eq_bind, Option.bind_some,
          Option.pure_def]
        rfl
      · show ChainTo nx' s.head (P' ++ [b] ++ e :: Q) none
        rw [List.append_assoc, chainTo_append]
        refine ⟨some b, chainTo_frame (fun y hy => ?_) hc1, ?_⟩
        · have h1 : y ≠ b := fun hh => hbP' (hh ▸ hy)
          have h2 : y ≠ e := fun hh => heP' (hh ▸ hy)
          simp [nx', PM.get_set, h1, h2]
        · simp only [List.singleton_append, ChainTo, true_and]
          have e1 : nx'.get b = some e := by simp [nx', PM.get_set]
          have e2 : nx'.get e = s.next.get b := by simp [nx', PM.get_set, heb]
          rw [e1, e2]
          refine ⟨rfl, chainTo_frame (fun y hy => ?_) hc2⟩
          have h1 : y ≠ b := fun hh => hbQ (hh ▸ hy)
          have h2 : y ≠ e := fun hh => heQ (hh ▸ hy)
          simp [nx', PM.get_set, h1, h2]
      · show s.tail = _
        rw [ht]
        obtain ⟨q, qs, rfl⟩ := List.exists_cons_of_ne_nil hQne
        simp [List.getLast?_append, List.getLast?_cons_cons]
      · show s.len + 1 = _
        rw [hl]; simp; omega
      · have := hn
        simp [List.nodup_append] at this he ⊢; grind
      · intro n hn'
        have h1 : n ≠ b := fun hh => hn' (by simp [hh])
        have h2 : n ≠ e := fun hh => hn' (by simp [hh])
        simp [nx', PM.get_set, h1, h2]

/-! ### `Swap(i, j)` -/

/-- The walk of `Swap`: started at index `k` with what was collected so far, it stops right
after index `max i j`, having collected the nodes at `i` and `j`; `fuel ≥ max i j + 1 - k`
iterations suffice. -/
theorem swapLoop_spec {s : SSt} {L : List Nat} (i j : Nat) (hij : i ≠ j) (hi : i < L.length)
    (hj : j < L.length) : ∀ (d k f : Nat) (ce : Ptr), k + d = max i j + 1 → d ≤ f →
    ChainTo s.next ce (L.drop k) none →
    s.swapLoop i j f k ce (if i < k then L[i]? else none) (if j < k then L[j]? else none)
      = some (L[i]?, L[j]?) := by
  intro d
  induction d with
  | zero =>
    intro k f ce hk hf hc
    have h1 : i < k := by omega
    have h2 : j < k := by omega
    have e1 : L[i]? = some L[i] := List.getElem?_eq_getElem hi
    have e2 : L[j]? = some L[j] := List.getElem?_eq_getElem hj
    simp only [h1, h2, if_true, e1, e2]
    cases f <;> simp [SSt.swapLoop]
  | succ d ih =>
    intro k f ce hk hf hc
    obtain ⟨f', rfl⟩ : ∃ f', f = f' + 1 := ⟨f - 1, by omega⟩
    have hkM : k ≤ max i j := by omega
    have hkL : k < L.length := by omega
    have hnone : (if i < k then L[i]? else none) = none ∨ (if j < k then L[j]? else none) = none := by
      by_cases h1 : i < k
      · right
        have : ¬ j < k := by omega
        simp [this]
      · left; simp [h1]
    rw [List.drop_eq_getElem_cons hkL] at hc
    simp only [ChainTo] at hc
    have hce : ce = L[k]? := by rw [hc.1, List.getElem?_eq_getElem hkL]
    have hrec := ih (k + 1) f' (s.next.get L[k]) (by omega) (by omega) hc.2
    simp only [SSt.swapLoop, hnone, if_true, hc.1]
    have hcast : ((k : Int) + 1) = ((k + 1 : Nat) : Int) := by simp
    rw [hcast]
    have hLk : L[k]? = some L[k] := List.getElem?_eq_getElem hkL
    by_cases hki : k = i
    · subst hki
      have a2 : (j < k + 1) = (j < k) := by apply propext; omega
      have b1 : k < k + 1 := by omega
      have b2 : ¬ k < k := by omega
      simp only [a2, b1, if_true] at hrec
      simp only [eq_self, if_true, b2, if_false]
      rw [← hLk]; exact hrec
    · have hki' : ¬ ((k : Int) = (i : Int)) := by omega
      have a1 : (i < k + 1) = (i < k) := by apply propext; omega
      by_cases hkj : k = j
      · subst hkj
        have b1 : k < k + 1 := by omega
        have b2 : ¬ k < k := by omega
        simp only [a1, b1, if_true] at hrec
        simp only [hki', eq_self, if_true, if_false, b2]
        rw [← hLk]; exact hrec
      · have hkj' : ¬ ((k : Int) = (j : Int)) := by omega
        have a2 : (j < k + 1) = (j < k) := by apply propext; omega
        simp only [a1, a2] at hrec
        simp only [hki', hkj', if_false]
        exact hrec

theorem swap_out {s : SSt} {L : List Nat} (h : SInv s L) (i j : Int)
    (hr : ¬ ((0 ≤ i ∧ i < (L.length : Int)) ∧ (0 ≤ j ∧ j < (L.length : Int)) ∧ i ≠ j)) :
    s.swap i j = some s := by
  have : (s.withinRange i && s.withinRange j && decide (i ≠ j)) = false := by
    simp only [SSt.withinRange, h.len]
    by_cases h1 : 0 ≤ i <;> by_cases h2 : i < (L.length : Int) <;> by_cases h3 : 0 ≤ j <;>
      by_cases h4 : j < (L.length : Int) <;> by_cases h5 : i = j <;> simp_all
  simp only [SSt.swap, this]; rfl

/-- `Swap(i, j)` in range, `i ≠ j`: exchanges the values of the two nodes, no link changes. -/
theorem swap_in {s : SSt} {L : List Nat} (h : SInv s L) (i j : Nat) (hij : i ≠ j) (hi : i < L.length)
    (hj : j < L.length) :
    ∃ s', s.swap i j = some s' ∧ SInv s' L ∧ s'.next = s.next ∧ s'.fresh = s.fresh ∧
      s'.val = (s.val.set L[i] (s.val.get L[j])).set L[j] (s.val.get L[i]) := by
  obtain ⟨hc, ht, hl, hn⟩ := h
  have hwr : (s.withinRange i && s.withinRange j && decide ((i : Int) ≠ (j : Int))) = true := by
    simp [SSt.withinRange, hl]; omega
  have hloop := swapLoop_spec (s := s) (L := L) i j hij hi hj (max i j + 1) 0 (s.len.toNat + 1) s.head
    (by omega) (by rw [hl]; simp; omega) (by simpa using hc)
  simp only [Nat.not_lt_zero, if_false] at hloop
  refine ⟨{ s with val := (s.val.set L[i] (s.val.get L[j])).set L[j] (s.val.get L[i]) }, ?_,
    ⟨hc, ht, hl, hn⟩, rfl, rfl, rfl⟩
  simp only [SSt.swap, hwr, if_true]
  have h0 : ((0 : Nat) : Int) = 0 := rfl
  rw [← h0, hloop]
  simp [List.getElem?_eq_getElem hi, List.getElem?_eq_getElem hj]

end Golib.C13
