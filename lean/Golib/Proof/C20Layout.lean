/-
Helper lemmas for C20: the bit layout of an ID.  `compose` is stated in the model on
`BitVec 64` with `&&&`, `<<<`, `|||` as Go computes it; here it is shown to equal
`(ms mod 2^41) * 2^rb + r` on integers, from which the layout facts follow.
-/
import Golib.Model.C20Id

set_option linter.unusedSimpArgs false
set_option linter.unusedVariables false

namespace Golib.C20

theorem newIdGen_fields (req : Int) :
    let g := newIdGen req
    2 ≤ g.randBit ∧ g.randBit ≤ 22 ∧ g.randMax = 2 ^ g.randBit.toNat ∧ g.timeMask = 2 ^ 41 - 1 ∧
    g.timeShift = g.randBit ∧ (2 ≤ req → req ≤ 22 → g.randBit = req) ∧
    (req ≤ 1 → g.randBit = 16) ∧ (22 < req → g.randBit = 22) := by
  simp only [newIdGen]
  refine ⟨by split <;> split <;> omega, by split <;> split <;> omega, trivial, trivial, trivial,
    ?_, ?_, ?_⟩
  · intro h1 h2; split <;> split <;> omega
  · intro h1; split <;> (try split) <;> omega
  · intro h1; split <;> (try split) <;> omega

/-- time field: `ms & (2^41 - 1)` as a natural number -/
theorem and_mask_toNat (ms : Int) :
    (BitVec.ofInt 64 ms &&& BitVec.ofInt 64 (2 ^ 41 - 1)).toNat = (ms % 2 ^ 41).toNat := by
  rw [BitVec.toNat_and, BitVec.toNat_ofInt, BitVec.toNat_ofInt]
  have h1 : (((2 : Int) ^ 41 - 1) % ((2 ^ 64 : Nat) : Int)).toNat = 2 ^ 41 - 1 := by decide
  rw [h1, Nat.and_two_pow_sub_one_eq_mod]
  have h2 : (0 : Int) ≤ ms % ((2 ^ 64 : Nat) : Int) := Int.emod_nonneg _ (by decide)
  have h3 : ((2 : Int) ^ 41) = ((2 ^ 41 : Nat) : Int) := by decide
  rw [h3]
  omega

theorem compose_eq (g : IdGen) (ms r : Int) (rb : Nat)
    (hmask : g.timeMask = 2 ^ 41 - 1) (hshift : g.timeShift = rb) (hrb : rb ≤ 22)
    (hr0 : 0 ≤ r) (hr1 : r < 2 ^ rb) :
    compose g ms r = (ms % 2 ^ 41) * 2 ^ rb + r := by
  obtain ⟨rn, rfl⟩ := Int.eq_ofNat_of_zero_le hr0
  have hrn : rn < 2 ^ rb := by
    have : ((2 : Int) ^ rb) = ((2 ^ rb : Nat) : Int) := by simp
    rw [this] at hr1; omega
  have ht0 : 0 ≤ ms % 2 ^ 41 := Int.emod_nonneg _ (by decide)
  have ht1 : ms % 2 ^ 41 < 2 ^ 41 := Int.emod_lt_of_pos _ (by decide)
  obtain ⟨t, ht⟩ := Int.eq_ofNat_of_zero_le ht0
  have htlt : t < 2 ^ 41 := by omega
  have hpow : (2 : Nat) ^ rb ≤ 2 ^ 22 := Nat.pow_le_pow_right (by decide) hrb
  have hprod : t * 2 ^ rb + rn < 2 ^ 63 := by
    have : t * 2 ^ rb ≤ (2 ^ 41 - 1) * 2 ^ rb := Nat.mul_le_mul_right _ (by omega)
    have : (2 ^ 41 - 1) * 2 ^ rb ≤ (2 ^ 41 - 1) * 2 ^ 22 := Nat.mul_le_mul_left _ hpow
    have : rn < 2 ^ 22 := by omega
    omega
  have hnat : ((((BitVec.ofInt 64 ms &&& BitVec.ofInt 64 g.timeMask) <<< g.timeShift.toNat)
      ||| BitVec.ofInt 64 (rn : Int)).toNat) = t * 2 ^ rb + rn := by
    rw [BitVec.toNat_or, BitVec.toNat_shiftLeft, hmask, and_mask_toNat, ht, hshift]
    simp only [Int.toNat_natCast, BitVec.toNat_ofInt]
    have hrn' : ((rn : Int) % ((2 ^ 64 : Nat) : Int)).toNat = rn := by
      have : rn < 2 ^ 64 := by omega
      omega
    rw [hrn', Nat.shiftLeft_eq]
    have : t * 2 ^ rb % 2 ^ 64 = t * 2 ^ rb := Nat.mod_eq_of_lt (by omega)
    rw [this, ← Nat.shiftLeft_eq, ← Nat.shiftLeft_add_eq_or_of_lt hrn]
  rw [compose, BitVec.toInt_eq_toNat_of_lt (by rw [hnat]; omega), hnat, ht]
  simp

/-- The layout facts for any generator whose fields are as `NewIdGenerator` sets them. -/
theorem layout_of_fields (g : IdGen) (rb : Nat) (hrb : g.randBit = rb) (hrb22 : rb ≤ 22)
    (hmax : g.randMax = 2 ^ rb) (hmask : g.timeMask = 2 ^ 41 - 1) (hshift : g.timeShift = rb)
    (ms r : Int) (hr0 : 0 ≤ r) (hr1 : r < g.randMax) :
    0 ≤ compose g ms r ∧ compose g ms r < 2 ^ 63 ∧
    compose g ms r / 2 ^ rb = ms % 2 ^ 41 ∧ compose g ms r % 2 ^ rb = r ∧
    (∀ ms' r', 0 ≤ r' → r' < g.randMax → ms % 2 ^ 41 < ms' % 2 ^ 41 →
      compose g ms r < compose g ms' r') := by
  have hr1' : r < 2 ^ rb := by rw [← hmax]; exact hr1
  have hid : compose g ms r = (ms % 2 ^ 41) * 2 ^ rb + r :=
    compose_eq g ms r rb hmask hshift hrb22 hr0 hr1'
  have ht0 : 0 ≤ ms % 2 ^ 41 := Int.emod_nonneg _ (by decide)
  have ht1 : ms % 2 ^ 41 < 2 ^ 41 := Int.emod_lt_of_pos _ (by decide)
  have hcast : ((2 : Int) ^ rb) = ((2 ^ rb : Nat) : Int) := by simp
  have hp : (0 : Int) < 2 ^ rb := by rw [hcast]; exact Int.natCast_pos.mpr (Nat.pow_pos (by decide))
  have hp22 : (2 : Int) ^ rb ≤ 2 ^ 22 := by
    rw [hcast]
    have := Nat.pow_le_pow_right (n := 2) (by decide) hrb22
    omega
  refine ⟨?_, ?_, ?_, ?_, ?_⟩
  · rw [hid]; exact Int.add_nonneg (Int.mul_nonneg ht0 (Int.le_of_lt hp)) hr0
  · rw [hid]
    have : (ms % 2 ^ 41) * 2 ^ rb ≤ (2 ^ 41 - 1) * 2 ^ rb :=
      Int.mul_le_mul_of_nonneg_right (by omega) (Int.le_of_lt hp)
    have : ((2 : Int) ^ 41 - 1) * 2 ^ rb ≤ (2 ^ 41 - 1) * 2 ^ 22 :=
      Int.mul_le_mul_of_nonneg_left hp22 (by decide)
    omega
  · rw [hid, Int.add_comm, Int.add_mul_ediv_right _ _ (by omega), Int.ediv_eq_zero_of_lt hr0 hr1']
    simp
  · rw [hid, Int.add_comm, Int.add_mul_emod_self_right, Int.emod_eq_of_lt hr0 hr1']
  · intro ms' r' hr0' hr1'' hlt
    have hid' : compose g ms' r' = (ms' % 2 ^ 41) * 2 ^ rb + r' :=
      compose_eq g ms' r' rb hmask hshift hrb22 hr0' (by rw [← hmax]; exact hr1'')
    rw [hid, hid']
    have : (ms % 2 ^ 41 + 1) * 2 ^ rb ≤ (ms' % 2 ^ 41) * 2 ^ rb :=
      Int.mul_le_mul_of_nonneg_right (by omega) (Int.le_of_lt hp)
    rw [Int.add_mul] at this
    omega

end Golib.C20
