/-
Helper lemmas for C17: the cursor step `advance`, no-panic (and fuel sufficiency) of
every loop for arbitrary byte strings, and the loop invariants that connect the byte
cursors to rune indices when the string is the encoding of a rune list.
-/
import Golib.Model.C17Strs
import Golib.Proof.C17Utf8

namespace Golib.C17
open Golib.Utf8

/-! ### `advance` -/

/-- On every byte string the cursor step succeeds, moves forward and stays in range. -/
theorem advance_lt (s : List Nat) (i : Nat) (h : i < s.length) :
    ∃ i', advance s i = some i' ∧ i < i' ∧ i' ≤ s.length := by
  unfold advance
  rw [List.getElem?_eq_getElem h]
  simp only []
  split
  · exact ⟨i + 1, rfl, by omega, by omega⟩
  · have hs : sliceFrom s i = some (s.drop i) := by simp [sliceFrom]; omega
    rw [hs]
    simp only []
    have hd : s.drop i = s[i] :: s.drop (i + 1) := List.drop_eq_getElem_cons h
    have := decodeRune_size s[i] (s.drop (i + 1))
    rw [← hd] at this
    refine ⟨_, rfl, by omega, ?_⟩
    have hl : (s.drop (i + 1)).length = s.length - (i + 1) := List.length_drop
    omega

/-- On an encoded valid rune the cursor step advances by exactly the rune's length. -/
theorem advance_encode (pre post : List Nat) (r : Int) (h : validRune r = true) :
    advance (pre ++ (encodeRune r ++ post)) pre.length = some (pre.length + (encodeRune r).length) := by
  obtain ⟨b, t, hbt, h1, h2⟩ := encodeRune_head r h
  unfold advance
  have hg : (pre ++ (encodeRune r ++ post))[pre.length]? = some b := by
    rw [List.getElem?_append_right (Nat.le_refl _), hbt]; simp
  rw [hg]
  simp only []
  split
  · rename_i hb
    rw [hbt, (h1 hb).1]; rfl
  · have hs : sliceFrom (pre ++ (encodeRune r ++ post)) pre.length = some (encodeRune r ++ post) := by
      simp [sliceFrom]
    rw [hs]
    simp only []
    rw [decodeRune_encodeRune r post h]

/-! ### Slices -/

theorem sliceFrom_le (s : List Nat) (i : Nat) (h : i ≤ s.length) : sliceFrom s i = some (s.drop i) := by
  simp [sliceFrom, h]

theorem sliceTo_le (s : List Nat) (i : Nat) (h : i ≤ s.length) : sliceTo s i = some (s.take i) := by
  simp [sliceTo, h]

theorem slice_le (s : List Nat) (a b : Nat) (h1 : a ≤ b) (h2 : b ≤ s.length) :
    slice s a b = some ((s.drop a).take (b - a)) := by
  simp [slice, h1, h2]

theorem slice_append3 (p1 p2 q : List Nat) :
    slice (p1 ++ p2 ++ q) p1.length (p1 ++ p2).length = some p2 := by
  rw [slice_le _ _ _ (by simp) (by simp)]
  simp [List.append_assoc]

/-! ### Sub -/

/-- `Sub` never panics and never runs out of fuel, on every byte string and all integers. -/
theorem subLoop_some (s : List Nat) (start length : Int) :
    ∀ (fuel i count : Nat) (begin : Int), i ≤ s.length → s.length - i < fuel →
      (begin < 0 ∨ begin ≤ (i : Int)) →
      ∃ r, subLoop s start length fuel i count begin = some r := by
  intro fuel
  induction fuel with
  | zero => intro i count begin _ h; omega
  | succ fuel ih =>
    intro i count begin hi hf hb
    rw [subLoop]
    by_cases hlt : i < s.length
    · rw [if_pos hlt]
      obtain ⟨i', ha, h1, h2⟩ := advance_lt s i hlt
      split
      · split
        · exact ⟨_, sliceFrom_le s i hi⟩
        · rw [ha]; exact ih i' _ _ h2 (by omega) (Or.inr (by omega))
      · split
        · rename_i hc
          unfold sliceI
          rw [if_pos hc.1]
          exact ⟨_, slice_le _ _ _ (by omega) hi⟩
        · rw [ha]; exact ih i' _ _ h2 (by omega) (by omega)
    · rw [if_neg hlt]
      split
      · exact ⟨_, rfl⟩
      · rename_i hc
        unfold sliceFromI
        rw [if_pos (by omega)]
        exact ⟨_, sliceFrom_le _ _ (by omega)⟩

theorem sub_some (s : List Nat) (start length : Int) : ∃ r, sub s start length = some r := by
  unfold sub
  split
  · exact ⟨_, rfl⟩
  · split
    · exact ⟨_, rfl⟩
    · exact subLoop_some s start length _ 0 0 (-1) (by omega) (by omega) (Or.inl (by omega))

theorem encode_length_cons_pos (p : List Nat) (r : Int) (rs : List Int) :
    p.length < (p ++ encode (r :: rs)).length := by
  have := encodeRune_length_pos r
  rw [encode_cons]; simp only [List.length_append]; omega

/-- Phase 2 of the `Sub` loop (`begin` is set, `k ≥ 1` runes taken so far). -/
theorem subLoop_phase2 (a n : Nat) :
    ∀ (rs : List Int), (∀ r ∈ rs, validRune r = true) →
    ∀ (p1 p2 : List Nat) (k fuel : Nat), (encode rs).length < fuel → 1 ≤ k → k ≤ n →
      subLoop (p1 ++ p2 ++ encode rs) a n fuel (p1 ++ p2).length (a + k) p1.length
        = some (p2 ++ encode (rs.take (n - k))) := by
  intro rs
  induction rs with
  | nil =>
    intro _ p1 p2 k fuel hf hk1 hk2
    obtain ⟨f, rfl⟩ : ∃ f, fuel = f + 1 := ⟨fuel - 1, by omega⟩
    rw [subLoop, if_neg (by simp [encode_nil]), if_neg (by omega)]
    simp [sliceFromI, sliceFrom, encode_nil]
  | cons r rs ih =>
    intro hv p1 p2 k fuel hf hk1 hk2
    obtain ⟨f, rfl⟩ : ∃ f, fuel = f + 1 := ⟨fuel - 1, by omega⟩
    have hr := hv r (by simp)
    rw [subLoop, if_pos (encode_length_cons_pos _ r rs), if_neg (by omega)]
    by_cases hkn : k = n
    · subst hkn
      rw [if_pos ⟨by omega, by omega⟩]
      simp only [sliceI, Int.toNat_natCast, Nat.sub_self, List.take_zero, encode_nil, List.append_nil]
      rw [if_pos (by omega)]
      exact slice_append3 p1 p2 _
    · rw [if_neg (by omega)]
      rw [encode_cons, advance_encode (p1 ++ p2) (encode rs) r hr]
      simp only []
      have e1 : p1 ++ p2 ++ (encodeRune r ++ encode rs) = p1 ++ (p2 ++ encodeRune r) ++ encode rs := by
        simp [List.append_assoc]
      have e2 : (p1 ++ p2).length + (encodeRune r).length = (p1 ++ (p2 ++ encodeRune r)).length := by
        simp [List.length_append]; omega
      rw [e1, e2, Nat.add_assoc]
      have hf' : (encode rs).length < f := by
        rw [encode_cons, List.length_append] at hf
        have := encodeRune_length_pos r; omega
      rw [ih (fun x hx => hv x (by simp [hx])) p1 (p2 ++ encodeRune r) (k + 1) f hf' (by omega) (by omega)]
      obtain ⟨m, hm⟩ : ∃ m, n - k = m + 1 := ⟨n - k - 1, by omega⟩
      rw [hm, List.take_succ_cons, encode_cons, show n - (k + 1) = m by omega]
      simp [List.append_assoc]

/-- Phase 1 of the `Sub` loop with a bounded length `n ≥ 1`. -/
theorem subLoop_phase1 (a n : Nat) (hn : 1 ≤ n) :
    ∀ (rs : List Int), (∀ r ∈ rs, validRune r = true) →
    ∀ (p : List Nat) (count fuel : Nat), (encode rs).length < fuel → count ≤ a →
      subLoop (p ++ encode rs) a n fuel p.length count (-1)
        = some (encode ((rs.drop (a - count)).take n)) := by
  intro rs
  induction rs with
  | nil =>
    intro _ p count fuel hf hc
    obtain ⟨f, rfl⟩ : ∃ f, fuel = f + 1 := ⟨fuel - 1, by omega⟩
    rw [subLoop, if_neg (by simp [encode_nil]), if_pos (by omega)]
    simp [encode_nil]
  | cons r rs ih =>
    intro hv p count fuel hf hc
    obtain ⟨f, rfl⟩ : ∃ f, fuel = f + 1 := ⟨fuel - 1, by omega⟩
    have hr := hv r (by simp)
    have hf' : (encode rs).length < f := by
      rw [encode_cons, List.length_append] at hf
      have := encodeRune_length_pos r; omega
    rw [subLoop, if_pos (encode_length_cons_pos _ r rs)]
    by_cases hca : count = a
    · subst hca
      rw [if_pos rfl, if_neg (by omega)]
      rw [encode_cons, advance_encode p (encode rs) r hr]
      simp only []
      have e1 : p ++ (encodeRune r ++ encode rs) = p ++ encodeRune r ++ encode rs := by
        simp [List.append_assoc]
      have e2 : p.length + (encodeRune r).length = (p ++ encodeRune r).length := by simp
      rw [e1, e2]
      rw [subLoop_phase2 count n rs (fun x hx => hv x (by simp [hx])) p (encodeRune r) 1 f hf' (by omega) hn]
      obtain ⟨m, rfl⟩ : ∃ m, n = m + 1 := ⟨n - 1, by omega⟩
      simp [encode_cons]
    · rw [if_neg (by omega), if_neg (by omega)]
      rw [encode_cons, advance_encode p (encode rs) r hr]
      simp only []
      have e1 : p ++ (encodeRune r ++ encode rs) = p ++ encodeRune r ++ encode rs := by
        simp [List.append_assoc]
      have e2 : p.length + (encodeRune r).length = (p ++ encodeRune r).length := by simp
      rw [e1, e2, ih (fun x hx => hv x (by simp [hx])) (p ++ encodeRune r) (count + 1) f hf' (by omega)]
      obtain ⟨m, hm⟩ : ∃ m, a - count = m + 1 := ⟨a - count - 1, by omega⟩
      rw [hm, List.drop_succ_cons, show a - (count + 1) = m by omega]

/-- The `Sub` loop with `length = -1` (to the end). -/
theorem subLoop_toEnd (a : Nat) :
    ∀ (rs : List Int), (∀ r ∈ rs, validRune r = true) →
    ∀ (p : List Nat) (count fuel : Nat), (encode rs).length < fuel → count ≤ a →
      subLoop (p ++ encode rs) a (-1) fuel p.length count (-1)
        = some (encode (rs.drop (a - count))) := by
  intro rs
  induction rs with
  | nil =>
    intro _ p count fuel hf hc
    obtain ⟨f, rfl⟩ : ∃ f, fuel = f + 1 := ⟨fuel - 1, by omega⟩
    rw [subLoop, if_neg (by simp [encode_nil]), if_pos (by omega)]
    simp [encode_nil]
  | cons r rs ih =>
    intro hv p count fuel hf hc
    obtain ⟨f, rfl⟩ : ∃ f, fuel = f + 1 := ⟨fuel - 1, by omega⟩
    have hr := hv r (by simp)
    have hf' : (encode rs).length < f := by
      rw [encode_cons, List.length_append] at hf
      have := encodeRune_length_pos r; omega
    rw [subLoop, if_pos (encode_length_cons_pos _ r rs)]
    by_cases hca : count = a
    · subst hca
      rw [if_pos rfl, if_pos rfl, sliceFrom_le _ _ (by simp)]
      simp
    · rw [if_neg (by omega), if_neg (by omega)]
      rw [encode_cons, advance_encode p (encode rs) r hr]
      simp only []
      have e1 : p ++ (encodeRune r ++ encode rs) = p ++ encodeRune r ++ encode rs := by
        simp [List.append_assoc]
      have e2 : p.length + (encodeRune r).length = (p ++ encodeRune r).length := by simp
      rw [e1, e2, ih (fun x hx => hv x (by simp [hx])) (p ++ encodeRune r) (count + 1) f hf' (by omega)]
      obtain ⟨m, hm⟩ : ∃ m, a - count = m + 1 := ⟨a - count - 1, by omega⟩
      rw [hm, List.drop_succ_cons, show a - (count + 1) = m by omega]

theorem encode_eq_nil (rs : List Int) (h : encode rs = []) : rs = [] := by
  cases rs with
  | nil => rfl
  | cons r rs =>
    rw [encode_cons] at h
    exact absurd (List.append_eq_nil_iff.mp h).1 (encodeRune_ne_nil r)

/-! ### No panic: Mask, UcFirst/LcFirst, Rev -/

theorem maskLoop_some (s : List Nat) (start end_ : Int) :
    ∀ (fuel i count si ei : Nat), i ≤ s.length → s.length - i < fuel → si ≤ s.length → ei ≤ s.length →
      ∃ si' ei', maskLoop s start end_ fuel i count si ei = some (si', ei') ∧
        si' ≤ s.length ∧ ei' ≤ s.length := by
  intro fuel
  induction fuel with
  | zero => intro i count si ei _ h; omega
  | succ fuel ih =>
    intro i count si ei hi hf hs he
    rw [maskLoop]
    by_cases hlt : i < s.length
    · rw [if_pos hlt]
      obtain ⟨i', ha, h1, h2⟩ := advance_lt s i hlt
      simp only [ha]
      apply ih i' _ _ _ h2 (by omega)
      · split <;> omega
      · split
        · omega
        · split <;> omega
    · rw [if_neg hlt]
      exact ⟨si, ei, rfl, hs, he⟩

theorem mask_some (str msk : List Nat) (start end_ : Int) : ∃ r, mask str msk start end_ = some r := by
  unfold mask
  simp only []
  split
  · exact ⟨_, rfl⟩
  split
  · exact ⟨_, rfl⟩
  · split
    · exact ⟨_, rfl⟩
    · obtain ⟨si, ei, hl, h1, h2⟩ := maskLoop_some str start (↑(runeCount str) - end_)
        (str.length + 1) 0 0 0 0 (by omega) (by omega) (by omega) (by omega)
      rw [hl]
      simp only []
      rw [sliceTo_le _ _ h1, sliceFrom_le _ _ (by split <;> omega)]
      exact ⟨_, rfl⟩

theorem ucFirst_some (s : List Nat) : ∃ r, ucFirst s = some r := by
  unfold ucFirst
  cases s with
  | nil => exact ⟨_, rfl⟩
  | cons b t =>
    simp only [List.length_cons, Nat.add_one_ne_zero, if_false, List.getElem?_cons_zero]
    split
    · exact ⟨_, by simp [sliceFrom]; rfl⟩
    · exact ⟨_, rfl⟩

theorem lcFirst_some (s : List Nat) : ∃ r, lcFirst s = some r := by
  unfold lcFirst
  cases s with
  | nil => exact ⟨_, rfl⟩
  | cons b t =>
    simp only [List.length_cons, Nat.add_one_ne_zero, if_false, List.getElem?_cons_zero]
    split
    · exact ⟨_, by simp [sliceFrom]; rfl⟩
    · exact ⟨_, rfl⟩

theorem revLoop_some :
    ∀ (fuel : Nat) (rs : List Int) (i j : Int), 0 ≤ i → j < rs.length → -1 ≤ j - i → j - i + 1 < fuel →
      ∃ r, revLoop fuel rs i j = some r := by
  intro fuel
  induction fuel with
  | zero =>
    intro rs i j h0 hj hm hf
    omega
  | succ fuel ih =>
    intro rs i j h0 hj hm hf
    rw [revLoop]
    by_cases hij : i < j
    · rw [if_pos hij]
      have hi' : i.toNat < rs.length := by omega
      have hj' : j.toNat < rs.length := by omega
      simp only [idxI, if_pos (show 0 ≤ j by omega), if_pos h0, List.getElem?_eq_getElem hi',
        List.getElem?_eq_getElem hj', setI]
      rw [if_pos ⟨h0, hi'⟩]
      simp only []
      rw [if_pos ⟨by omega, by simpa using hj'⟩]
      simp only []
      exact ih _ _ _ (by omega) (by simp; omega) (by omega) (by omega)
    · rw [if_neg hij]; exact ⟨_, rfl⟩

end Golib.C17
