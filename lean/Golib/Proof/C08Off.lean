/-
C08, off the documented contract: what `AESCBCEncrypt` / `AESCBCDecrypt` / the GCM wrappers do
when `dst` is NOT sized by the library's length helper.  Nothing here is demanded by the
property; the lemmas pin down the model's behaviour (which the correspondence check compares
with the real code on `fresh+K` / `fresh-K` / `inplace±K` layouts) and name the hazards.
-/
import Golib.Proof.C08Wrap

namespace Golib.C08

/-- `dst` shorter than the plaintext: `dst[len(plainText):]` panics. -/
theorem aesCBCEncrypt_short_dst (C : Cipher) (dst pt key iv : Bytes)
    (hk : keyOK key = true) (h : dst.length < pt.length) :
    aesCBCEncrypt C dst pt key iv = .panic := by
  unfold aesCBCEncrypt
  have hk' : ¬ (¬ keyOK key = true) := by simp [hk]
  rw [if_neg hk']
  simp only []
  have hcopy : (copyInto dst pt).length = dst.length := by
    unfold copyInto; simp; omega
  have : sliceFrom (copyInto dst pt) (pt.length : Int) = none := by
    unfold sliceFrom
    have : ¬ ((0 : Int) ≤ (pt.length : Int) ∧ (pt.length : Int) ≤ ((copyInto dst pt).length : Int)) := by
      rw [hcopy]; omega
    rw [if_neg this]
  rw [this]

/-- the buffer the model hands to `CryptBlocks` has the length of `dst` -/
theorem aesCBCEncrypt_unaligned_dst (C : Cipher) (dst pt key iv : Bytes)
    (hk : keyOK key = true) (hle : pt.length ≤ dst.length) (h : dst.length % 16 ≠ 0) :
    aesCBCEncrypt C dst pt key iv = .panic := by
  unfold aesCBCEncrypt
  have hk' : ¬ (¬ keyOK key = true) := by simp [hk]
  rw [if_neg hk']
  simp only []
  have hpr := padLen_range pt.length
  have hp : aesBlockSize - (pt.length &&& blockSizeMask) = padLen pt.length := by
    rw [and15]; rfl
  rw [hp, table_get _ hpr.2]
  have hcopy : copyInto dst pt = pt ++ dst.drop pt.length := by
    unfold copyInto
    have : min dst.length pt.length = pt.length := by omega
    rw [this, List.take_length]
  rw [hcopy]
  have hfrom : sliceFrom (pt ++ dst.drop pt.length) (pt.length : Int) = some (dst.drop pt.length) := by
    unfold sliceFrom
    have : (0 : Int) ≤ (pt.length : Int) ∧ (pt.length : Int) ≤ ((pt ++ dst.drop pt.length).length : Int) := by
      simp only [List.length_append, List.length_drop]; omega
    rw [if_pos this, Int.toNat_natCast, drop_append_len]
  rw [hfrom]
  simp only [take_append_len]
  generalize hb : pt ++ copyInto (dst.drop pt.length) (List.replicate (padLen pt.length) (padLen pt.length)) = buf
  have hbl : buf.length = dst.length := by
    rw [← hb]; unfold copyInto; simp; omega
  have hnone : cryptBlocksEnc (C.E key) iv buf buf = none := by
    unfold cryptBlocksEnc
    have : buf.length % 16 ≠ 0 := by rw [hbl]; exact h
    simp only [this, ne_eq, not_false_eq_true, if_true, ite_self]
  rw [hnone]

/-- THE SILENT HAZARD: a block-aligned, non-empty... or empty plaintext with `dst` of exactly the
plaintext's length (one block less than `AESCBCEncryptLen`): no room for the padding block, the
`copy` of the padding copies nothing, and the result is the CBC encryption of the UNPADDED
plaintext — no error, no panic. -/
theorem aesCBCEncrypt_no_room_for_padding (C : Cipher) (dst pt key iv : Bytes)
    (hk : keyOK key = true) (hiv : iv.length = 16) (hal : pt.length % 16 = 0)
    (hdst : dst.length = pt.length) :
    aesCBCEncrypt C dst pt key iv = .ok (cbcEncrypt (C.E key) iv pt) := by
  unfold aesCBCEncrypt
  have hk' : ¬ (¬ keyOK key = true) := by simp [hk]
  rw [if_neg hk']
  simp only []
  have hpr := padLen_range pt.length
  have hp : aesBlockSize - (pt.length &&& blockSizeMask) = padLen pt.length := by
    rw [and15]; rfl
  rw [hp, table_get _ hpr.2]
  have hcopy : copyInto dst pt = pt := by
    unfold copyInto
    have : min dst.length pt.length = pt.length := by omega
    rw [this, List.take_length]
    have : dst.drop pt.length = [] := List.drop_eq_nil_of_le (by omega)
    rw [this, List.append_nil]
  rw [hcopy]
  have hfrom : sliceFrom pt (pt.length : Int) = some [] := by
    unfold sliceFrom
    have : (0 : Int) ≤ (pt.length : Int) ∧ (pt.length : Int) ≤ (pt.length : Int) := by omega
    rw [if_pos this, Int.toNat_natCast, List.drop_length]
  rw [hfrom]
  have h0 : copyInto [] (List.replicate (padLen pt.length) (padLen pt.length)) = [] := by
    simp [copyInto]
  simp only [h0, List.take_length, List.append_nil]
  unfold cryptBlocksEnc
  have h1 : ¬ iv.length ≠ 16 := by simp [hiv]
  have h2 : ¬ pt.length % 16 ≠ 0 := by simp [hal]
  have h3 : ¬ pt.length < pt.length := by omega
  rw [if_neg h1, if_neg h2, if_neg h3]
  simp

/-- `AESCBCDecrypt` with a separate `dst` LONGER than the ciphertext: the un-padding looks at
the end of `dst` — bytes the decryption never wrote — not at the end of the decrypted text. -/
theorem aesCBCDecrypt_long_dst (C : Cipher) (dst ct key iv : Bytes)
    (hk : keyOK key = true) (hiv : iv.length = 16)
    (h16 : 16 ≤ ct.length) (hmul : ct.length % 16 = 0) (hlong : ct.length ≤ dst.length) :
    aesCBCDecrypt C (.fresh dst) ct key iv =
      match pkcs7UnPadding (cbcDecrypt (C.D key) iv ct ++ dst.drop ct.length) with
      | .ok n => .ok (n, cbcDecrypt (C.D key) iv ct ++ dst.drop ct.length)
      | .err e => .err e
      | .panic => .panic := by
  unfold aesCBCDecrypt
  have h1 : ¬ (ct.length < aesBlockSize ∨ ct.length &&& blockSizeMask ≠ 0) := by
    rw [and15]; simp only [aesBlockSize]; omega
  have hk' : ¬ (¬ keyOK key = true) := by simp [hk]
  rw [if_neg h1, if_neg hk']
  simp only [decryptBlocks, cryptBlocksDec]
  have a1 : ¬ iv.length ≠ 16 := by simp [hiv]
  have a2 : ¬ ct.length % 16 ≠ 0 := by simp [hmul]
  have a3 : ¬ dst.length < ct.length := by omega
  rw [if_neg a1, if_neg a2, if_neg a3]
  rfl

/-- … and with a `dst` SHORTER than the ciphertext `CryptBlocks` panics ("output smaller than input"). -/
theorem aesCBCDecrypt_short_dst (C : Cipher) (dst ct key iv : Bytes)
    (hk : keyOK key = true) (h16 : 16 ≤ ct.length) (hmul : ct.length % 16 = 0)
    (hshort : dst.length < ct.length) :
    aesCBCDecrypt C (.fresh dst) ct key iv = .panic := by
  unfold aesCBCDecrypt
  have h1 : ¬ (ct.length < aesBlockSize ∨ ct.length &&& blockSizeMask ≠ 0) := by
    rw [and15]; simp only [aesBlockSize]; omega
  have hk' : ¬ (¬ keyOK key = true) := by simp [hk]
  rw [if_neg h1, if_neg hk']
  have hnone : decryptBlocks (C.D key) (.fresh dst) iv ct = none := by
    simp only [decryptBlocks, cryptBlocksDec]
    have a2 : ¬ ct.length % 16 ≠ 0 := by simp [hmul]
    simp only [a2, hshort, if_true, if_false, ite_self]
  rw [hnone]

/-- GCM with a `dst` that is too short: `Seal`/`Open` append into a NEW array; `dst` keeps its
old content and no error is reported. -/
theorem aesGCM_short_dst (A : AEAD) (dst pt ct key nonce ad p : Bytes)
    (hk : keyOK key = true) (hn : nonce ≠ []) :
    (dst.length < (A.sealF key nonce pt ad).length →
      aesGCMEncrypt A dst pt key nonce ad = .ok dst) ∧
    (A.openF key nonce ct ad = some p → dst.length < p.length →
      aesGCMDecrypt A dst ct key nonce ad = .ok dst) := by
  have hk' : ¬ (¬ keyOK key = true) := by simp [hk]
  have hn' : ¬ nonce.length = 0 := fun h => hn (List.length_eq_zero_iff.mp h)
  constructor
  · intro h
    unfold aesGCMEncrypt appendInto
    rw [if_neg hk', if_neg hn', if_neg (by omega)]
  · intro ho h
    unfold aesGCMDecrypt appendInto
    rw [if_neg hk', if_neg hn', ho]
    simp only []
    rw [if_neg (by omega)]

end Golib.C08
