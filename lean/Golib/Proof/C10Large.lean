/-
C10 large stream: the bulk operations of the model (plain iterations of Push / Pop /
PushWithExpand) have the closed forms the linear-time driver computes on the spec.
-/
import Golib.Model.C10Large
import Golib.Proof.C10Refine

set_option linter.unusedSimpArgs false
set_option linter.unusedVariables false

namespace Golib.C10
open Golib.Proto

theorem seqFrom_succ (v : Int) (k : Nat) : seqFrom v (k + 1) = v :: seqFrom (v + 1) k := by
  simp only [seqFrom, List.range_succ_eq_map, List.map_cons, List.map_map]
  congr 1
  · simp
  · apply List.map_congr_left
    intro i _
    simp only [Function.comp]
    omega

theorem content_le_cap (r : Ring) (hi : r.Inv) : (r.content.length : Int) ≤ r.cap := by
  rw [content_length r hi]
  obtain ⟨hc, hl, hr⟩ := hi
  simp only [Ring.len, Ring.isEmpty, beq_iff_eq]
  split
  · omega
  · split <;> omega

theorem fillN_spec : ∀ (n : Nat) (r : Ring) (v : Int), r.Inv →
    ∃ r', Ring.fillN n r v = some (r', min n (r.cap - (r.content.length : Int)).toNat) ∧ r'.Inv ∧
      r'.cap = r.cap ∧
      r'.content = r.content ++ seqFrom v (min n (r.cap - (r.content.length : Int)).toNat) := by
  intro n
  induction n with
  | zero =>
    intro r v hi
    exact ⟨r, by simp [Ring.fillN], hi, rfl, by simp [seqFrom]⟩
  | succ n ih =>
    intro r v hi
    obtain ⟨r1, ok, hp, hi1, hc1, hok, hcont⟩ := push_spec r v hi
    obtain ⟨r2, h2, hi2, hc2, hcont2⟩ := ih r1 (v + 1) hi1
    have hle := content_le_cap r hi
    cases ok with
    | true =>
      have hlt : (r.content.length : Int) < r.cap := hok.mp rfl
      simp only [if_true] at hcont
      have hk : min (n + 1) (r.cap - (r.content.length : Int)).toNat
          = min n (r1.cap - (r1.content.length : Int)).toNat + 1 := by
        rw [hc1, hcont]; simp only [List.length_append, List.length_singleton]; omega
      refine ⟨r2, ?_, hi2, by rw [hc2, hc1], ?_⟩
      · simp only [Ring.fillN, hp, h2, if_true, hk]
      · rw [hcont2, hk, seqFrom_succ, hcont]; simp
    | false =>
      have hnlt : ¬ ((r.content.length : Int) < r.cap) := fun h => by simpa using hok.mpr h
      simp only [Bool.false_eq_true, if_false] at hcont
      have hk : min (n + 1) (r.cap - (r.content.length : Int)).toNat = 0 := by omega
      have hk1 : min n (r1.cap - (r1.content.length : Int)).toNat = 0 := by rw [hc1, hcont]; omega
      refine ⟨r2, ?_, hi2, by rw [hc2, hc1], ?_⟩
      · simp only [Ring.fillN, hp, h2, Bool.false_eq_true, if_false, hk, hk1]
      · rw [hcont2, hk1, hk, hcont]; simp [seqFrom]

theorem drainN_spec : ∀ (n : Nat) (r : Ring), r.Inv →
    ∃ r', Ring.drainN n r = some (r', r.content.take n) ∧ r'.Inv ∧ r'.cap = r.cap ∧
      r'.content = r.content.drop n := by
  intro n
  induction n with
  | zero => intro r hi; exact ⟨r, by simp [Ring.drainN], hi, rfl, by simp⟩
  | succ n ih =>
    intro r hi
    obtain ⟨r1, v, ok, hp, hi1, hc1, hs⟩ := pop_spec r hi
    obtain ⟨r2, h2, hi2, hc2, hcont2⟩ := ih r1 hi1
    rcases hs with ⟨rfl, hc⟩ | ⟨rfl, _, hc, rfl⟩
    · refine ⟨r2, ?_, hi2, by rw [hc2, hc1], ?_⟩
      · simp only [Ring.drainN, hp, h2, if_true, hc, List.take_succ_cons]
      · rw [hcont2, hc, List.drop_succ_cons]
    · refine ⟨r2, ?_, hi2, by rw [hc2], ?_⟩
      · simp only [Ring.drainN, hp, h2, Bool.false_eq_true, if_false, hc, List.take_nil]
      · rw [hcont2, hc]; simp

theorem xfillN_spec : ∀ (n : Nat) (r : Ring) (v : Int), r.Inv →
    ∃ r', Ring.xfillN n r v = some r' ∧ r'.Inv ∧
      r'.cap = growCap n (r.content.length : Int) r.cap ∧
      r'.content = r.content ++ seqFrom v n := by
  intro n
  induction n with
  | zero => intro r v hi; exact ⟨r, rfl, hi, rfl, by simp [seqFrom]⟩
  | succ n ih =>
    intro r v hi
    obtain ⟨r1, hp, hi1, hcont, hcap⟩ := pushWithExpand_spec r v hi
    obtain ⟨r2, h2, hi2, hc2, hcont2⟩ := ih r1 (v + 1) hi1
    refine ⟨r2, by simp only [Ring.xfillN, hp, h2], hi2, ?_, ?_⟩
    · rw [hc2, hcont, hcap]
      simp only [growCap, List.length_append, List.length_singleton, Int.natCast_add, Int.natCast_one]
    · rw [hcont2, hcont, seqFrom_succ]; simp

/-- One (bulk) operation of the model prints what the linear-time spec operation prints. -/
theorem lstep_refines (r : Ring) (hi : r.Inv) (op : LOp) :
    ∃ r', r.lstep op = some (r', (r.abs.lstep op).2) ∧ r'.Inv ∧ r'.abs = (r.abs.lstep op).1 := by
  cases op with
  | fill n v =>
    obtain ⟨r', h, hi', hc, hcont⟩ := fillN_spec n r v hi
    refine ⟨r', ?_, hi', ?_⟩
    · simp only [Ring.lstep, h, Option.map_some, BQ.lstep, BQ.fill, Ring.abs]
    · simp only [BQ.lstep, BQ.fill, Ring.abs, hcont, hc]
  | drain n =>
    obtain ⟨r', h, hi', hc, hcont⟩ := drainN_spec n r hi
    refine ⟨r', ?_, hi', ?_⟩
    · simp only [Ring.lstep, h, Option.map_some, BQ.lstep, BQ.drain, Ring.abs]
    · simp only [BQ.lstep, BQ.drain, Ring.abs, hcont, hc]
  | xfill n v =>
    obtain ⟨r', h, hi', hc, hcont⟩ := xfillN_spec n r v hi
    refine ⟨r', ?_, hi', ?_⟩
    · simp only [Ring.lstep, h, Option.map_some, BQ.lstep]
    · simp only [BQ.lstep, BQ.xfill, Ring.abs, hcont, hc]
  | one op => exact step_refines r hi op

end Golib.C10
