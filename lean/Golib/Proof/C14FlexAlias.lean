/-
C14 helper lemmas, part 12: `Prepend(v...)` with `v` a window of the receiver's own array
(repaired code, F17): in every case the prepended cells are the window as it was BEFORE the call.
-/
import Golib.Proof.C14FlexFast
import Golib.Model.C14FlexAlias

namespace Golib.C14

theorem shifted_eq (f : Flex) (n1 : Nat) (h : f.Inv) (hc : n1 + f.len ≤ f.cap) :
    f.shifted n1 = f.mem.take n1 ++ f.values ++ f.mem.drop (n1 + f.len) := by
  unfold Flex.Inv at h
  unfold Flex.cap at hc
  unfold Flex.shifted
  simp only []
  rw [copyTo_spec _ n1 _ (by simp [List.length_take]; omega)]
  simp only [Flex.values]
  congr 1
  apply List.ext_getElem?; intro k
  simp only [List.getElem?_take, List.getElem?_append, List.length_take, List.length_append,
    List.getElem?_drop, List.length_drop]
  grind

/-- `copy(f.Values, v)` after the shift, for ANY `v` of the right length: `Values = v ++ old Values` -/
theorem writeFront_spec (f : Flex) (n1 : Nat) (v : List Int) (hv : v.length = n1) (h : f.Inv)
    (hc : n1 + f.len ≤ f.cap) : (f.writeFront n1 v).Inv ∧ (f.writeFront n1 v).values = v ++ f.values := by
  have hs := shifted_eq f n1 h hc
  have hvl := length_values f h
  unfold Flex.Inv at h
  unfold Flex.cap at hc
  have hlen : (f.shifted n1).length = f.mem.length := by
    rw [hs]; simp [hvl]; omega
  simp only [Flex.writeFront]
  constructor
  · simp only [Flex.Inv, copyTo, List.length_append, List.length_take, List.length_drop, hlen]; omega
  · rw [copyTo_spec _ 0 _ (by simp [hv, hlen]; omega)]
    have hV : ((f.shifted n1).take (n1 + f.len)).drop (0 + n1) = f.mem.take f.len := by
      rw [hs]
      apply List.ext_getElem?; intro k
      simp only [List.getElem?_take, List.getElem?_append, List.length_take, List.length_append,
        List.getElem?_drop, Flex.values]
      grind
    simp only [Flex.values, hv, hV, List.take_zero, List.nil_append]
    rw [List.take_append_of_le_length (by simp [hv, List.length_take]; omega),
      List.take_of_length_le (by simp [hv, List.length_take]; omega)]

/-- a window lying entirely in the spare region `[nc, cap)` reads the same before and after the shift -/
theorem spare_window_unchanged (f : Flex) (a n1 : Nat) (h : f.Inv) (hc : n1 + f.len ≤ f.cap)
    (ha : n1 + f.len ≤ a) : ((f.shifted n1).drop a).take n1 = (f.mem.drop a).take n1 := by
  rw [shifted_eq f n1 h hc]
  have hvl := length_values f h
  unfold Flex.Inv at h
  unfold Flex.cap at hc
  apply List.ext_getElem?; intro k
  simp only [List.getElem?_take, List.getElem?_drop, List.getElem?_append, List.length_append,
    List.length_take, hvl]
  grind

/-- **repaired `Prepend` with an aliasing argument**: every state, every window (also reaching into
the spare capacity), reallocating or not: `Values = window ++ old Values` -/
theorem prependWin_spec (f : Flex) (a n1 : Nat) (h : f.Inv) (ha : a + n1 ≤ f.cap) :
    ∃ f', f.prependWin a n1 = some f' ∧ f'.Inv ∧ f'.values = (f.mem.drop a).take n1 ++ f.values := by
  have hwl : ((f.mem.drop a).take n1).length = n1 := by
    unfold Flex.cap at ha; simp [List.length_take, List.length_drop]; omega
  by_cases hc : n1 + f.len ≤ f.cap
  · simp only [Flex.prependWin, show ¬ (a + n1 > f.cap) by omega, if_false,
      show f.cap ≥ n1 + f.len by omega, if_true]
    by_cases ho : overlapsWin a n1 (n1 + f.len) = true
    · simp only [ho, if_true]
      obtain ⟨h1, h2⟩ := writeFront_spec f n1 _ hwl h hc
      exact ⟨_, rfl, h1, h2⟩
    · simp only [ho, Bool.false_eq_true, if_false]
      have hv : ((f.shifted n1).drop a).take n1 = (f.mem.drop a).take n1 := by
        simp only [overlapsWin, decide_eq_true_eq] at ho
        by_cases hn : n1 = 0
        · subst hn; simp
        · exact spare_window_unchanged f a n1 h hc (by omega)
      rw [hv]
      obtain ⟨h1, h2⟩ := writeFront_spec f n1 _ hwl h hc
      exact ⟨_, rfl, h1, h2⟩
  · have hp := prepend_spec f ((f.mem.drop a).take n1) h
    exact ⟨_, by simp only [Flex.prependWin, show ¬ (a + n1 > f.cap) by omega, if_false,
      show ¬ (f.cap ≥ n1 + f.len) by omega], hp.2, hp.1⟩

/-! ### the argument window's capacity (wave 8 B, seed C14-K) -/

/-- the code's address-range test is adequate: it does not look at the capacities -/
theorem ovCode_adequate : ovCode.Adequate := by
  intro a n1 k nc c _ _ _ hn ha
  simp only [ovCode, overlapsWin, decide_eq_true_eq]
  omega

/-- **`Prepend` with ANY adequate alias test, EVERY window `(offset, length, capacity)`** of the
receiver's array: no panic, `Values = window ++ old Values` -/
theorem prependWinG_spec (ov : OvTest) (hov : ov.Adequate) (f : Flex) (a n1 k : Nat) (h : f.Inv)
    (hk : a + n1 ≤ k) (hc' : k ≤ f.cap) :
    ∃ f', f.prependWinG ov a n1 k = some f' ∧ f'.Inv ∧ f'.values = (f.mem.drop a).take n1 ++ f.values := by
  have hwl : ((f.mem.drop a).take n1).length = n1 := by
    unfold Flex.cap at hc'; simp [List.length_take, List.length_drop]; omega
  by_cases hc : n1 + f.len ≤ f.cap
  · simp only [Flex.prependWinG, show ¬ (a + n1 > k ∨ k > f.cap) by omega, if_false,
      show f.cap ≥ n1 + f.len by omega, if_true]
    by_cases ho : ov a n1 k (n1 + f.len) f.cap = true
    · simp only [ho, if_true]
      obtain ⟨h1, h2⟩ := writeFront_spec f n1 _ hwl h hc
      exact ⟨_, rfl, h1, h2⟩
    · simp only [ho, Bool.false_eq_true, if_false]
      have hv : ((f.shifted n1).drop a).take n1 = (f.mem.drop a).take n1 := by
        by_cases hn : n1 = 0
        · subst hn; simp
        · by_cases ha : a < n1 + f.len
          · exact absurd (hov a n1 k (n1 + f.len) f.cap hk hc' hc (by omega) ha) ho
          · exact spare_window_unchanged f a n1 h hc (by omega)
      rw [hv]
      obtain ⟨h1, h2⟩ := writeFront_spec f n1 _ hwl h hc
      exact ⟨_, rfl, h1, h2⟩
  · have hp := prepend_spec f ((f.mem.drop a).take n1) h
    exact ⟨_, by simp only [Flex.prependWinG, show ¬ (a + n1 > k ∨ k > f.cap) by omega, if_false,
      show ¬ (f.cap ≥ n1 + f.len) by omega], hp.2, hp.1⟩

/-- the three-index model of the code is the two-index one: the window's capacity is not looked at -/
theorem prependWin3_eq (f : Flex) (a n1 k : Nat) (hk : a + n1 ≤ k) (hc : k ≤ f.cap) :
    f.prependWin3 a n1 k = f.prependWin a n1 := by
  simp only [Flex.prependWin3, Flex.prependWinG, Flex.prependWin, ovCode,
    show ¬ (a + n1 > k ∨ k > f.cap) by omega, show ¬ (a + n1 > f.cap) by omega, if_false]
  rfl

/-- outside `a + n1 ≤ k ≤ cap` the caller's slice expression panics -/
theorem prependWinG_bounds (ov : OvTest) (f : Flex) (a n1 k : Nat) (h : a + n1 > k ∨ k > f.cap) :
    f.prependWinG ov a n1 k = none := by
  simp only [Flex.prependWinG, h, if_true]

theorem appendWin3_spec (g : Nat → Nat → Nat) (f : Flex) (a n1 k : Nat) (h : f.Inv)
    (hk : a + n1 ≤ k) (hc : k ≤ f.cap) :
    ∃ f', f.appendWin3 g a n1 k = some f' ∧ f'.Inv ∧ f'.values = f.values ++ (f.mem.drop a).take n1 := by
  have hp := append_spec g f ((f.mem.drop a).take n1) h
  exact ⟨_, by simp only [Flex.appendWin3, show ¬ (a + n1 > k ∨ k > f.cap) by omega, if_false], hp.2, hp.1⟩

/-- the same-end-address test is NOT adequate: a clipped window inside the content ends elsewhere -/
theorem ovCapEnd_not_adequate : ¬ ovCapEnd.Adequate := by
  intro h
  have := h 3 2 5 8 16 (by omega) (by omega) (by omega) (by omega) (by omega)
  simp [ovCapEnd] at this

/-- … but it IS right for every window whose capacity reaches the end of the array (`f.Values[i:j]`),
which is why two-index windows alone do not tell the two tests apart -/
theorem prependWinG_capEnd_full (f : Flex) (a n1 : Nat) (h : f.Inv) (ha : a + n1 ≤ f.cap) :
    ∃ f', f.prependWinG ovCapEnd a n1 f.cap = some f' ∧ f'.Inv ∧
      f'.values = (f.mem.drop a).take n1 ++ f.values := by
  have hwl : ((f.mem.drop a).take n1).length = n1 := by
    unfold Flex.cap at ha; simp [List.length_take, List.length_drop]; omega
  by_cases hc : n1 + f.len ≤ f.cap
  · simp only [Flex.prependWinG, show ¬ (a + n1 > f.cap ∨ f.cap > f.cap) by omega, if_false,
      show f.cap ≥ n1 + f.len by omega, if_true]
    by_cases ho : ovCapEnd a n1 f.cap (n1 + f.len) f.cap = true
    · simp only [ho, if_true]
      obtain ⟨h1, h2⟩ := writeFront_spec f n1 _ hwl h hc
      exact ⟨_, rfl, h1, h2⟩
    · simp only [ho, Bool.false_eq_true, if_false]
      have hv : ((f.shifted n1).drop a).take n1 = (f.mem.drop a).take n1 := by
        by_cases hn : n1 = 0
        · subst hn; simp
        · exfalso; apply ho
          simp only [ovCapEnd, decide_eq_true_eq]
          exact ⟨by omega, by omega, trivial⟩
      rw [hv]
      obtain ⟨h1, h2⟩ := writeFront_spec f n1 _ hwl h hc
      exact ⟨_, rfl, h1, h2⟩
  · have hp := prepend_spec f ((f.mem.drop a).take n1) h
    exact ⟨_, by simp only [Flex.prependWinG, show ¬ (a + n1 > f.cap ∨ f.cap > f.cap) by omega, if_false,
      show ¬ (f.cap ≥ n1 + f.len) by omega], hp.2, hp.1⟩

end Golib.C14
