-- Root of the `Golib` library: models, proofs and property theorems.
import Golib.Proto
import Golib.Model.C10
