#!/bin/bash
# Builds the framework from files on disk only (offline): Lean project (models,
# proofs, oracle executable) and the Go harness against /repo.
set -e
cd "$(dirname "$0")"
export GOFLAGS=-mod=mod GOPROXY=off GOSUMDB=off GOTOOLCHAIN=local
mkdir -p go/.build evidence replays
tools/gen.sh "${VERIF_REPO:-/repo}"
( cd lean && lake build )
( cd go && go build -o .build/vcheck-setup ./cmd/vcheck )
echo setup ok
