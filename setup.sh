#!/bin/bash
# Builds the framework from files on disk only (offline): Lean project (models,
# proofs, oracle executable) and the Go harness against /repo.
set -e
cd "$(dirname "$0")"
export GOFLAGS=-mod=mod GOPROXY=off GOSUMDB=off GOTOOLCHAIN=local
mkdir -p go/.build evidence replays
tools/gen.sh "${VERIF_REPO:-/repo}"
( cd lean && lake build $(sed -n 's/^name = "\(oracle_C[0-9]*\)"/\1/p' lakefile.toml) ) || echo "setup: warning: some oracle executables did not build (each check rebuilds its own)"
# everything else is rebuilt by the checks themselves; a proof that depends on facts
# regenerated from the tree must not make the setup fail
( cd lean && lake build Golib ) || echo "setup: warning: some Lean modules did not build (each check reports its own obligations)"
( cd go && go build -o .build/vcheck-setup ./cmd/vcheck )
echo setup ok
