package core

import (
	"os"
	"path/filepath"
	"strings"

	"verifharness/internal/go2lean"
)

// Wave 8: the regenerated tie.  For a property with entries in tools/trans_targets.json the
// translator go2lean rewrites lean/Golib/Gen/Trans<ID>.lean from the tree under verification
// before the Lean build, so the tie theorems `cxx_trans_<f>` of Props/<ID>.lean are re-checked
// against what the code says now.  A target that cannot be translated becomes
// `def <f>_untranslatable : String := "<reason>"` (and no `def <f>`): its tie theorem no longer
// elaborates, which is reported like every other broken obligation.

func transTargetsPath(verif string) string { return filepath.Join(verif, "tools", "trans_targets.json") }

func transTargets(verif, id string) []go2lean.Target {
	tf, err := go2lean.LoadTargets(transTargetsPath(verif))
	if err != nil {
		return nil
	}
	return tf[id]
}

// lastTrans caches the translation made by LeanStage for the drift exemption.
var lastTrans = map[string]*go2lean.Result{}

func transResult(verif, repo, id string) *go2lean.Result {
	k := id + "\x00" + repo
	if r, ok := lastTrans[k]; ok {
		return r
	}
	ts := transTargets(verif, id)
	if len(ts) == 0 {
		return nil
	}
	r := go2lean.Generate(repo, ts, id)
	lastTrans[k] = r
	return r
}

// transStage regenerates Gen/Trans<ID>.lean (written only when changed); returns a note for
// the evidence and the obligations that are broken by an untranslatable target.
func transStage(ctx *Ctx, ld string) (string, []string) {
	id := ctx.Prop.ID
	if _, err := os.Stat(transTargetsPath(ctx.VerifDir)); err != nil {
		return "", nil
	}
	r := transResult(ctx.VerifDir, ctx.Repo, id)
	if r == nil {
		return "", nil
	}
	ch, err := writeFileIfChanged(filepath.Join(ld, "Golib", "Gen", "Trans"+id+".lean"), []byte(r.Lean))
	must(err)
	var bad, broken []string
	n := 0
	for _, f := range r.Funcs {
		if !f.IsTarget {
			continue
		}
		n++
		if !f.OK {
			bad = append(bad, f.Target.Name+": "+f.Reason)
			broken = append(broken, "go2lean cannot translate "+f.Key+" ("+f.Reason+"): tie theorem "+f.Target.Theorem+" cannot be checked")
		}
	}
	note := " go2lean: " + itoa(n) + " target(s) translated from the tree"
	if ch {
		note += ", Gen/Trans" + id + ".lean rewritten"
	} else {
		note += ", unchanged"
	}
	if len(bad) > 0 {
		note += "; NOT translatable: " + strings.Join(bad, " | ")
	}
	return note, broken
}

// transTies lists the tie theorems of the property ("theorem [function]").
func transTies(verif, id string) []string {
	var out []string
	for _, t := range transTargets(verif, id) {
		if t.Theorem != "" {
			out = append(out, t.Theorem+" ["+filepath.ToSlash(filepath.Dir(t.File))+":"+t.Name+"]")
		}
	}
	return out
}

func itoa(n int) string {
	if n == 0 {
		return "0"
	}
	s := ""
	for n > 0 {
		s = string(rune('0'+n%10)) + s
		n /= 10
	}
	return s
}

// transExempt: the functions of property id (drift keys "pkgdir:Name") whose translation is
// tied by an existing theorem of Props/<ID>.lean and which the translator accepts NOW.  They
// are left out of the hashed drift set of this property only: the theorem re-checked on the
// regenerated definition is the tie.
func transExempt(verif, repo, id string) map[string]bool {
	out := map[string]bool{}
	ts := transTargets(verif, id)
	if len(ts) == 0 {
		return out
	}
	thms, err := propsTheorems(verif, id)
	if err != nil {
		return out
	}
	have := map[string]bool{}
	for _, n := range thms {
		have[n] = true
		if i := strings.LastIndex(n, "."); i >= 0 {
			have[n[i+1:]] = true
		}
	}
	r := transResult(verif, repo, id)
	if r == nil {
		return out
	}
	for _, f := range r.Funcs {
		if f.IsTarget && f.OK && f.Target.Theorem != "" && have[f.Target.Theorem] {
			out[f.Key] = true
		}
	}
	return out
}
