// Package core is the property-independent part of the harness: case generation
// plumbing, the Lean stage (build, axiom audit), the correspondence diff between the
// real Go code and the Lean `oracle` executable, the independent property oracle,
// shrinking, known-findings handling, replay files and evidence.
package core

import (
	"fmt"
	"os"
	"path/filepath"
	"sort"
	"strings"
)

// Case is one unit of the line protocol: Lines[0] is the header
// "@ Cxx <kind> args…", every further line one operation.
type Case struct {
	Lines []string `json:"lines"`
	Seed  uint64   `json:"seed"`          // PRNG state the case was generated from (0: corpus/enumerated)
	Tag   string   `json:"tag,omitempty"` // generator stream, for the distribution printed in the evidence
}

// Failure is a violation of the property itself observed on the implementation.
// Key classifies it (compared with KNOWN_FINDINGS.txt), Desc is for humans.
type Failure struct {
	Key  string `json:"key"`
	Desc string `json:"desc"`
}

// Extra is an additional check with its own machinery (race detector run,
// exhaustive enumeration, extractor obligations …). It reports failures like Check.
type Extra struct {
	Name string
	// Run returns the number of evaluations it made, a short note for the
	// evidence, and the failures found (with a replay payload each).
	Run func(ctx *Ctx) (evals int, note string, fails []ExtraFailure)
	// Tiers in which it runs ("quick", "thorough"); empty = both.
	Tiers []string
}

type ExtraFailure struct {
	Failure
	Payload any // written into the replay file
	// NoInput marks a broken obligation (not a concrete failing input).
	NoInput bool
}

// Prop is what a property package registers.
type Prop struct {
	ID    string
	Title string
	// Number of generated cases per tier.
	Quick, Thorough int
	// Gen generates one case. All randomness must come from r.
	Gen func(r *Rand, tier string) Case
	// Corpus returns fixed cases run before the generated ones (minimised past
	// failures, boundary witnesses).
	Corpus func() []Case
	// Impl runs the real code; must return exactly len(c.Lines) output lines.
	Impl func(c Case) []string
	// Check evaluates the property's own predicate on the implementation's observed
	// behaviour, independently of the Lean model. nil = holds.
	Check func(c Case, out []string) *Failure
	// NonTrivial decides whether a case counts in distinct_nontrivial.
	NonTrivial func(c Case, out []string) bool
	Rule       string
	// Classify returns labels counted into the distribution printed in evidence.
	Classify func(c Case, out []string) []string
	// Facts regenerates lean/Golib/Gen/Facts<ID>.lean from the source tree (may be nil).
	Facts func(repo string) (string, error)
	// NoModel: lines whose model output is not compared (prefix match on the op
	// token), e.g. operations whose result depends on real randomness.
	Extras      []Extra
	Assumptions []string
	TrustedBase []string
	// KeepHeaderOnly: the shrinker may delete any op line (default true when the
	// case has more than two lines). Set NoShrink to disable.
	NoShrink bool
	// Shrink, if set, replaces the default line-deletion shrinker.
	Shrink func(c Case, fails func(Case) bool) Case
	// Parallel: Impl/Check are safe to run from several goroutines.
	Parallel bool
}

// ExtraHooks: property-independent Extras added at run time (wave 8: the `trans-diff` check of
// internal/transrt for properties that have go2lean targets).
var ExtraHooks []func(p *Prop, verif string) []Extra

var registry = map[string]*Prop{}

func Register(p *Prop) {
	if _, dup := registry[p.ID]; dup {
		panic("duplicate property " + p.ID)
	}
	registry[p.ID] = p
}

func Lookup(id string) *Prop { return registry[id] }

func IDs() []string {
	var ids []string
	for k := range registry {
		ids = append(ids, k)
	}
	sort.Strings(ids)
	return ids
}

// Ctx carries per-run settings to Extras.
type Ctx struct {
	Prop     *Prop
	Tier     string
	Seed     uint64
	Repo     string // source tree under verification (default /repo)
	VerifDir string // /verif
	Rand     *Rand
	Escalate int      // budget multiplier (>1 when the anchored code drifted, or a proof / the correspondence broke)
	Drift    []string // anchored files whose token stream differs from the blessed tree
}

// Guard runs f and maps a Go panic to the protocol word "panic".
func Guard(f func() string) (out string) {
	defer func() {
		if r := recover(); r != nil {
			out = "panic"
		}
	}()
	return f()
}

// Toks splits a protocol line.
func Toks(line string) []string { return strings.Fields(line) }

// RunOps is the usual shape of Impl: init from the header, then one step per op
// line; after a panic every further line answers "dead" (as the Lean drivers do).
func RunOps(c Case, init func(hdr []string) string, step func(toks []string) string) []string {
	out := make([]string, 0, len(c.Lines))
	hdr := Toks(c.Lines[0])
	if len(hdr) >= 2 {
		hdr = hdr[2:]
	}
	o := Guard(func() string { return init(hdr) })
	out = append(out, o)
	dead := o == "panic"
	for _, l := range c.Lines[1:] {
		if dead {
			out = append(out, "dead")
			continue
		}
		t := Toks(l)
		o := Guard(func() string { return step(t) })
		out = append(out, o)
		if o == "panic" {
			dead = true
		}
	}
	return out
}

func VerifDir() string {
	if d := os.Getenv("VERIF_DIR"); d != "" {
		return d
	}
	return "/verif"
}

func RepoDir() string {
	if d := os.Getenv("VERIF_REPO"); d != "" {
		return d
	}
	return "/repo"
}

func must(err error) {
	if err != nil {
		fmt.Fprintln(os.Stderr, "vcheck: internal error:", err)
		os.Exit(2)
	}
}

func writeFileIfChanged(path string, content []byte) (changed bool, err error) {
	old, err := os.ReadFile(path)
	if err == nil && string(old) == string(content) {
		return false, nil
	}
	if err := os.MkdirAll(filepath.Dir(path), 0o755); err != nil {
		return false, err
	}
	return true, os.WriteFile(path, content, 0o644)
}
