package core

import (
	"crypto/sha256"
	"encoding/json"
	"fmt"
	"go/ast"
	"go/parser"
	"go/scanner"
	"go/token"
	"os"
	"path/filepath"
	"sort"
	"strings"
)

// Source drift of the modelled functions.
//
// The Lean models are written by hand; what ties them to the code is (a) the
// correspondence run on every check and (b) this record of WHICH source text the models
// were validated against.  anchors.lock.json (written by `./check --bless` on a tree on
// which every check passed) holds, per property, a hash of the token stream (comments
// and layout ignored) of every function the property's model mirrors:
//
//   roots   = the functions and methods declared in the property's anchored files
//             (properties.jsonl: anchors.files) that the property's harness package
//             refers to by name (functions, or methods of the types it names);
//   set     = roots closed under "calls / refers to a function or method of
//             github.com/welllog/golib by name" (over-approximated by name).
//
// When a function of the set changes, appears or disappears, the tie "model = code" is
// no longer the one that was validated.  That is NOT treated as a failing input: the
// check first looks much harder (thorough-tier generators, thorough budget within a time
// cap, Extras scaled through ctx.Escalate) for a concrete input on which the property
// fails, and reports that as the violation.  When it finds none it still ends with
// `VIOLATION … no-failing-input-found`, naming the drifted functions, because the
// theorems are then about a model that is no longer shown to be the code
// (VERIF_DRIFT_POLICY=escalate turns that last step off).

const modPath = "github.com/welllog/golib"

type funcInfo struct {
	key   string // "pkgdir:Recv.Name" or "pkgdir:Name"
	pkg   string // directory relative to the repo root
	file  string
	name  string
	recv  string
	hash  string
	calls map[string]bool // names referred to inside the body (plain and selector idents)
	xpkg  map[string]bool // "pkgdir:Name" for selectors on golib imports
}

func tokenHashSrc(src []byte) string {
	fset := token.NewFileSet()
	f := fset.AddFile("x.go", fset.Base(), len(src))
	var s scanner.Scanner
	s.Init(f, src, nil, 0) // comments skipped
	h := sha256.New()
	for {
		_, tok, lit := s.Scan()
		if tok == token.EOF {
			break
		}
		if tok == token.SEMICOLON && lit == "\n" {
			continue
		}
		fmt.Fprintf(h, "%d:%s\x00", tok, lit)
	}
	return fmt.Sprintf("%x", h.Sum(nil)[:10])
}

func recvBase(e ast.Expr) string {
	for {
		switch t := e.(type) {
		case *ast.StarExpr:
			e = t.X
		case *ast.IndexExpr:
			e = t.X
		case *ast.IndexListExpr:
			e = t.X
		case *ast.ParenExpr:
			e = t.X
		case *ast.Ident:
			return t.Name
		default:
			return ""
		}
	}
}

// pkgTypes[dir] = names of the types declared in that package (filled by parsePkg).
var pkgTypes = map[string]map[string]bool{}

// parsePkg collects every function of one package directory of the repo.
func parsePkg(repo, dir string) map[string]*funcInfo {
	out := map[string]*funcInfo{}
	if pkgTypes[dir] == nil {
		pkgTypes[dir] = map[string]bool{}
	}
	ents, err := os.ReadDir(filepath.Join(repo, dir))
	if err != nil {
		return out
	}
	for _, e := range ents {
		n := e.Name()
		if e.IsDir() || !strings.HasSuffix(n, ".go") || strings.HasSuffix(n, "_test.go") {
			continue
		}
		path := filepath.Join(repo, dir, n)
		src, err := os.ReadFile(path)
		if err != nil {
			continue
		}
		fset := token.NewFileSet()
		f, err := parser.ParseFile(fset, path, src, parser.SkipObjectResolution)
		if err != nil {
			// a file that does not parse is a drift of everything in it
			out[dir+":<unparsable "+n+">"] = &funcInfo{key: dir + ":<unparsable " + n + ">", pkg: dir, file: filepath.Join(dir, n), name: "<unparsable>", hash: tokenHashSrc(src)}
			continue
		}
		imports := map[string]string{} // local name -> pkg dir
		for _, im := range f.Imports {
			p := strings.Trim(im.Path.Value, `"`)
			if !strings.HasPrefix(p, modPath+"/") {
				continue
			}
			d := strings.TrimPrefix(p, modPath+"/")
			local := filepath.Base(d)
			if im.Name != nil {
				local = im.Name.Name
			}
			imports[local] = d
		}
		for _, d := range f.Decls {
			if gd, ok := d.(*ast.GenDecl); ok && gd.Tok == token.TYPE {
				for _, sp := range gd.Specs {
					if ts, ok := sp.(*ast.TypeSpec); ok {
						pkgTypes[dir][ts.Name.Name] = true
					}
				}
			}
			fd, ok := d.(*ast.FuncDecl)
			if !ok {
				continue
			}
			fi := &funcInfo{pkg: dir, file: filepath.Join(dir, n), name: fd.Name.Name, calls: map[string]bool{}, xpkg: map[string]bool{}}
			if fd.Recv != nil && len(fd.Recv.List) > 0 {
				fi.recv = recvBase(fd.Recv.List[0].Type)
				fi.key = dir + ":" + fi.recv + "." + fi.name
			} else {
				fi.key = dir + ":" + fi.name
			}
			start := fset.Position(fd.Pos()).Offset
			end := fset.Position(fd.End()).Offset
			fi.hash = tokenHashSrc(src[start:end])
			ast.Inspect(fd, func(nd ast.Node) bool {
				switch x := nd.(type) {
				case *ast.SelectorExpr:
					if id, ok := x.X.(*ast.Ident); ok {
						if pd, ok := imports[id.Name]; ok {
							fi.xpkg[pd+":"+x.Sel.Name] = true
							return true
						}
					}
					fi.calls[x.Sel.Name] = true
				case *ast.Ident:
					fi.calls[x.Name] = true
				}
				return true
			})
			out[fi.key] = fi
		}
		// package-level var/const/type declarations matter too (tables, thresholds):
		// one pseudo-function per file holding everything that is not a function
		var rest []byte
		last := 0
		for _, d := range f.Decls {
			if fd, ok := d.(*ast.FuncDecl); ok {
				s := fset.Position(fd.Pos()).Offset
				if fd.Doc != nil {
					s = fset.Position(fd.Doc.Pos()).Offset
				}
				rest = append(rest, src[last:s]...)
				last = fset.Position(fd.End()).Offset
			}
		}
		rest = append(rest, src[last:]...)
		k := dir + ":<decls " + n + ">"
		out[k] = &funcInfo{key: k, pkg: dir, file: filepath.Join(dir, n), name: "<decls>", hash: tokenHashSrc(rest)}
	}
	return out
}

// harnessNames: every identifier and selector name used by the property's harness
// package (the functions, methods and types of the library it drives).
func harnessNames(verif, id string) map[string]bool {
	names := map[string]bool{}
	dir := filepath.Join(verif, "go", "props", strings.ToLower(id))
	ents, _ := os.ReadDir(dir)
	for _, e := range ents {
		if e.IsDir() {
			// e.g. c12/racer: a generated main package driving the same API
			sub, _ := os.ReadDir(filepath.Join(dir, e.Name()))
			for _, s := range sub {
				if strings.HasSuffix(s.Name(), ".go") {
					collectNames(filepath.Join(dir, e.Name(), s.Name()), names)
				}
			}
			continue
		}
		if strings.HasSuffix(e.Name(), ".go") {
			collectNames(filepath.Join(dir, e.Name()), names)
		}
	}
	return names
}

func collectNames(path string, names map[string]bool) {
	src, err := os.ReadFile(path)
	if err != nil {
		return
	}
	fset := token.NewFileSet()
	f, err := parser.ParseFile(fset, path, src, parser.SkipObjectResolution)
	if err != nil {
		return
	}
	ast.Inspect(f, func(nd ast.Node) bool {
		switch x := nd.(type) {
		case *ast.SelectorExpr:
			names[x.Sel.Name] = true
		case *ast.Ident:
			names[x.Name] = true
		case *ast.BasicLit:
			// method names used through reflection / protocol tables ("Push", "RangeWithStart")
			if x.Kind == token.STRING {
				s := strings.Trim(x.Value, "`\"")
				if len(s) > 0 && len(s) < 40 && !strings.ContainsAny(s, " \t\n%/\\") {
					names[s] = true
				}
			}
		}
		return true
	})
}

// modelledFuncs computes the function set of a property and its hashes.
func modelledFuncs(verif, repo, id string) map[string]string {
	files := anchorFiles(verif, id)
	anchored := map[string]bool{}
	pkgs := map[string]map[string]*funcInfo{}
	load := func(dir string) map[string]*funcInfo {
		if p, ok := pkgs[dir]; ok {
			return p
		}
		p := parsePkg(repo, dir)
		pkgs[dir] = p
		return p
	}
	for _, f := range files {
		anchored[f] = true
		load(filepath.Dir(f))
	}
	names := harnessNames(verif, id)
	set := map[string]*funcInfo{}
	var work []*funcInfo
	add := func(fi *funcInfo) {
		if fi == nil || set[fi.key] != nil {
			return
		}
		set[fi.key] = fi
		work = append(work, fi)
	}
	// roots
	for _, f := range files {
		for _, fi := range load(filepath.Dir(f)) {
			if fi.file != f {
				continue
			}
			if fi.name == "<decls>" || fi.name == "<unparsable>" {
				add(fi)
				continue
			}
			if names[fi.name] || (fi.recv != "" && names[fi.recv]) || fi.name == "init" {
				add(fi)
			}
		}
	}
	if len(set) == 0 { // nothing matched by name: fall back to everything in the anchored files
		for _, f := range files {
			for _, fi := range load(filepath.Dir(f)) {
				if fi.file == f {
					add(fi)
				}
			}
		}
	}
	// closure by name, within the package and across golib packages.  A method is only
	// reachable through a receiver type that is in scope: named by the harness, or
	// referred to by a function already in the set.
	inScope := map[string]map[string]bool{} // pkg -> type names
	scope := func(pkg, typ string) {
		if inScope[pkg] == nil {
			inScope[pkg] = map[string]bool{}
		}
		inScope[pkg][typ] = true
	}
	for dir := range pkgs {
		for t := range pkgTypes[dir] {
			if names[t] {
				scope(dir, t)
			}
		}
	}
	for _, fi := range set {
		if fi.recv != "" {
			scope(fi.pkg, fi.recv)
		}
	}
	changed := true
	for changed {
		changed = false
		before := len(set)
		nScope := 0
		for _, m := range inScope {
			nScope += len(m)
		}
		for _, fi := range set {
			// types referred to by this function come into scope
			for t := range pkgTypes[fi.pkg] {
				if fi.calls[t] {
					scope(fi.pkg, t)
				}
			}
			p := load(fi.pkg)
			for _, g := range p {
				if g.name == "<decls>" || g.name == "<unparsable>" || !fi.calls[g.name] {
					continue
				}
				if g.recv == "" || inScope[g.pkg][g.recv] {
					add(g)
				}
			}
			for k := range fi.xpkg {
				parts := strings.SplitN(k, ":", 2)
				q := load(parts[0])
				if pkgTypes[parts[0]][parts[1]] {
					scope(parts[0], parts[1])
				}
				for _, g := range q {
					if g.recv == "" && g.name == parts[1] {
						add(g)
					}
				}
				// methods of a type of another package: reachable by name once the type is in scope
				for _, g := range q {
					if g.recv != "" && inScope[g.pkg][g.recv] && fi.calls[g.name] {
						add(g)
					}
				}
			}
		}
		work = work[:0]
		n2 := 0
		for _, m := range inScope {
			n2 += len(m)
		}
		if len(set) != before || n2 != nScope {
			changed = true
		}
	}
	out := map[string]string{}
	for k, fi := range set {
		out[k] = fi.hash
	}
	return out
}

func anchorFiles(verif, id string) []string {
	b, err := os.ReadFile(filepath.Join(verif, "properties.jsonl"))
	if err != nil {
		return nil
	}
	for _, line := range strings.Split(string(b), "\n") {
		if strings.TrimSpace(line) == "" {
			continue
		}
		var rec struct {
			ID      string `json:"id"`
			Anchors struct {
				Files []string `json:"files"`
			} `json:"anchors"`
		}
		if json.Unmarshal([]byte(line), &rec) == nil && rec.ID == id {
			return rec.Anchors.Files
		}
	}
	return nil
}

func lockPath(verif string) string { return filepath.Join(verif, "anchors.lock.json") }

// Bless records the hash of EVERY function (and per-file declaration block) of the
// library tree.  The per-property function sets are computed at check time from the
// current harness and the current source, so changing a harness never needs a re-bless;
// only a commit to the library does.
func Bless(verif, repo string) error {
	all := map[string]string{}
	_ = filepath.Walk(repo, func(p string, info os.FileInfo, err error) error {
		if err != nil {
			return nil
		}
		if info.IsDir() {
			if strings.HasPrefix(info.Name(), ".") && p != repo {
				return filepath.SkipDir
			}
			rel, _ := filepath.Rel(repo, p)
			for k, fi := range parsePkg(repo, rel) {
				all[k] = fi.hash
			}
		}
		return nil
	})
	b, _ := json.MarshalIndent(map[string]any{"note": "token-stream hashes of every function of the library tree the checks were validated on (./check --bless); see go/internal/core/drift.go", "funcs": all}, "", " ")
	return os.WriteFile(lockPath(verif), append(b, '\n'), 0o644)
}

// Drift lists the modelled functions of property id whose token stream differs from the
// blessed one or which are new (nil when nothing changed or there is no lock file).
func Drift(verif, repo, id string) []string {
	c, _ := drift2(verif, repo, id)
	return c
}

// DriftTied lists the changed functions that are exempt from the drift ALARM because a tie
// theorem is re-checked on their regenerated translation. They still make the run look
// harder (enlarged search): the translation idealises `int` as unbounded, so a rewrite that
// introduces a 64-bit wrap-around passes the tie and must be found by the search.
func DriftTied(verif, repo, id string) []string {
	_, t := drift2(verif, repo, id)
	return t
}

func drift2(verif, repo, id string) (changedOut, tiedOut []string) {
	b, err := os.ReadFile(lockPath(verif))
	if err != nil {
		return nil, nil
	}
	var lock struct {
		Funcs map[string]string `json:"funcs"`
	}
	if json.Unmarshal(b, &lock) != nil || lock.Funcs == nil {
		return nil, nil
	}
	have := modelledFuncs(verif, repo, id)
	// wave 8: a function whose go2lean translation is tied by a theorem of Props/<id>.lean is
	// not hashed for this property (see trans.go)
	exempt := transExempt(verif, repo, id)
	var changed, tied []string
	for k, h := range have {
		dst := &changed
		if exempt[k] {
			dst = &tied
		}
		if w, ok := lock.Funcs[k]; !ok {
			*dst = append(*dst, k+" (new)")
		} else if w != h {
			*dst = append(*dst, k)
		}
	}
	sort.Strings(changed)
	sort.Strings(tied)
	return changed, tied
}
