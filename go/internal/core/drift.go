package core

import (
	"crypto/sha256"
	"encoding/json"
	"fmt"
	"go/scanner"
	"go/token"
	"os"
	"path/filepath"
	"sort"
	"strings"
)

// Anchor drift.  anchors.lock.json (written by `vcheck --bless` on a tree on which
// every check passed) holds, per property, a hash of the token stream (comments and
// layout ignored) of each source file the property is anchored in
// (properties.jsonl: anchors.files).  A different hash NEVER raises an alarm by
// itself: it only tells the check that the code it was validated against has
// changed, and the check then spends a larger budget on the tie and on the search
// (thorough-tier generators, more cases, Extras scaled through ctx.Escalate), so that a
// change which manifests only on large sizes or long histories is still found within a
// quick run.  On the unchanged tree nothing drifts and the quick budget applies.

func tokenHash(path string) (string, error) {
	src, err := os.ReadFile(path)
	if err != nil {
		return "", err
	}
	fset := token.NewFileSet()
	f := fset.AddFile(path, fset.Base(), len(src))
	var s scanner.Scanner
	s.Init(f, src, nil, 0) // comments skipped
	h := sha256.New()
	for {
		_, tok, lit := s.Scan()
		if tok == token.EOF {
			break
		}
		if tok == token.SEMICOLON && lit == "\n" {
			continue // automatically inserted
		}
		fmt.Fprintf(h, "%d:%s\x00", tok, lit)
	}
	return fmt.Sprintf("%x", h.Sum(nil)[:12]), nil
}

func anchorFiles(verif, id string) []string {
	b, err := os.ReadFile(filepath.Join(verif, "properties.jsonl"))
	if err != nil {
		return nil
	}
	for _, line := range strings.Split(string(b), "\n") {
		if strings.TrimSpace(line) == "" {
			continue
		}
		var rec struct {
			ID      string `json:"id"`
			Anchors struct {
				Files []string `json:"files"`
			} `json:"anchors"`
		}
		if json.Unmarshal([]byte(line), &rec) == nil && rec.ID == id {
			return rec.Anchors.Files
		}
	}
	return nil
}

func lockPath(verif string) string { return filepath.Join(verif, "anchors.lock.json") }

func currentHashes(repo string, files []string) map[string]string {
	m := map[string]string{}
	for _, f := range files {
		h, err := tokenHash(filepath.Join(repo, f))
		if err != nil {
			h = "missing"
		}
		m[f] = h
	}
	return m
}

// Bless records the anchor hashes of every registered property for the given tree.
func Bless(verif, repo string) error {
	all := map[string]map[string]string{}
	for _, id := range IDs() {
		all[id] = currentHashes(repo, anchorFiles(verif, id))
	}
	b, _ := json.MarshalIndent(all, "", " ")
	return os.WriteFile(lockPath(verif), append(b, '\n'), 0o644)
}

// Drift lists the anchored files of property id whose token stream differs from the
// blessed one (nil when there is no lock file or nothing changed).
func Drift(verif, repo, id string) []string {
	b, err := os.ReadFile(lockPath(verif))
	if err != nil {
		return nil
	}
	var all map[string]map[string]string
	if json.Unmarshal(b, &all) != nil {
		return nil
	}
	want := all[id]
	if want == nil {
		return nil
	}
	var changed []string
	for f, h := range currentHashes(repo, anchorFiles(verif, id)) {
		if want[f] != h {
			changed = append(changed, f)
		}
	}
	sort.Strings(changed)
	return changed
}
