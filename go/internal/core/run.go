package core

import (
	"crypto/sha256"
	"encoding/json"
	"fmt"
	"os"
	"path/filepath"
	"runtime"
	"sort"
	"strconv"
	"strings"
	"sync"
	"time"
)

type knownFinding struct {
	Prop, Key, Desc string
}

func loadKnown(verif string) []knownFinding {
	b, err := os.ReadFile(filepath.Join(verif, "KNOWN_FINDINGS.txt"))
	if err != nil {
		return nil
	}
	var ks []knownFinding
	for _, l := range strings.Split(string(b), "\n") {
		l = strings.TrimSpace(l)
		if !strings.HasPrefix(l, "known:") {
			continue // "fixed:" entries and comments suppress nothing
		}
		f := strings.Fields(strings.TrimPrefix(l, "known:"))
		k := knownFinding{}
		var rest []string
		for _, t := range f {
			switch {
			case strings.HasPrefix(t, "property=") && k.Prop == "":
				k.Prop = strings.TrimPrefix(t, "property=")
			case strings.HasPrefix(t, "key=") && k.Key == "":
				k.Key = strings.TrimPrefix(t, "key=")
			default:
				rest = append(rest, t)
			}
		}
		k.Desc = strings.Join(rest, " ")
		if k.Prop != "" && k.Key != "" {
			ks = append(ks, k)
		}
	}
	return ks
}

type replayFile struct {
	Property string   `json:"property"`
	Kind     string   `json:"kind"` // property-failure | correspondence | proof | extra
	Detail   string   `json:"detail"`
	Key      string   `json:"key,omitempty"`
	Lines    []string `json:"lines,omitempty"`
	Seed     uint64   `json:"case_seed,omitempty"`
	ImplOut  []string `json:"impl_out,omitempty"`
	ModelOut []string `json:"model_out,omitempty"`
	Broken   []string `json:"no_longer_checks,omitempty"`
	Payload  any      `json:"payload,omitempty"`
	RunSeed  uint64   `json:"run_seed"`
	Tier     string   `json:"tier"`
}

func writeReplay(verif string, r replayFile) string {
	dir := filepath.Join(verif, "replays")
	_ = os.MkdirAll(dir, 0o755)
	b, _ := json.MarshalIndent(r, "", " ")
	h := sha256.Sum256(b)
	name := fmt.Sprintf("%s-%s-%x.json", r.Property, r.Kind, h[:4])
	p := filepath.Join(dir, name)
	_ = os.WriteFile(p, b, 0o644)
	return p
}

type evidence struct {
	PropertyID  string         `json:"property_id"`
	Tier        string         `json:"tier"`
	Seed        int64          `json:"seed"`
	Level       string         `json:"level"`
	Coverage    map[string]any `json:"coverage"`
	Assumptions []string       `json:"assumptions"`
	WallS       float64        `json:"wall_s"`
	Violations  int            `json:"violations"`
}

func caseHash(c Case) string {
	h := sha256.Sum256([]byte(strings.Join(c.Lines, "\n")))
	return string(h[:12])
}

func eqLines(a, b []string) int {
	n := len(a)
	if len(b) < n {
		n = len(b)
	}
	for i := 0; i < n; i++ {
		if a[i] != b[i] {
			return i
		}
	}
	if len(a) != len(b) {
		return n
	}
	return -1
}

// shrinkLines is delta debugging on the operation lines (header kept).
func shrinkLines(c Case, fails func(Case) bool) Case {
	cur := c
	if len(cur.Lines) <= 2 {
		return cur
	}
	// truncate after the earliest failing prefix first
	lo, hi := 1, len(cur.Lines)
	for lo < hi {
		mid := (lo + hi) / 2
		t := Case{Lines: append([]string{}, cur.Lines[:mid]...), Seed: c.Seed, Tag: c.Tag}
		if fails(t) {
			hi = mid
		} else {
			lo = mid + 1
		}
	}
	if lo < len(cur.Lines) {
		t := Case{Lines: append([]string{}, cur.Lines[:lo]...), Seed: c.Seed, Tag: c.Tag}
		if fails(t) {
			cur = t
		}
	}
	chunk := (len(cur.Lines) - 1) / 2
	budget := 3000
	for chunk >= 1 && budget > 0 {
		removed := false
		for i := 1; i+chunk <= len(cur.Lines) && budget > 0; {
			budget--
			var nl []string
			nl = append(nl, cur.Lines[:i]...)
			nl = append(nl, cur.Lines[i+chunk:]...)
			t := Case{Lines: nl, Seed: c.Seed, Tag: c.Tag}
			if fails(t) {
				cur = t
				removed = true
			} else {
				i += chunk
			}
		}
		if chunk > 1 {
			chunk /= 2
		} else if !removed {
			break
		}
	}
	return cur
}

type caseResult struct {
	c    Case
	out  []string
	fail *Failure
}

func runImplAll(p *Prop, cases []Case) []caseResult {
	res := make([]caseResult, len(cases))
	work := func(i int) {
		c := cases[i]
		out := safeImpl(p, c)
		var f *Failure
		if isHang(out) {
			f = &Failure{Key: "hang", Desc: fmt.Sprintf("the implementation did not return within %s on this case (non-termination)", caseTimeout())}
		} else if p.Check != nil {
			f = safeCheck(p, c, out)
		}
		res[i] = caseResult{c, out, f}
	}
	if p.Parallel && len(cases) > 64 {
		var wg sync.WaitGroup
		nw := runtime.NumCPU()
		ch := make(chan int, 256)
		for w := 0; w < nw; w++ {
			wg.Add(1)
			go func() {
				defer wg.Done()
				for i := range ch {
					work(i)
				}
			}()
		}
		for i := range cases {
			ch <- i
		}
		close(ch)
		wg.Wait()
	} else {
		for i := range cases {
			work(i)
		}
	}
	return res
}

// caseTimeout bounds one Impl call: an operation of the real code that never returns
// (e.g. a cycle in a corrupted pointer structure) must not hang the check.
func caseTimeout() time.Duration {
	if v := os.Getenv("VERIF_CASE_TIMEOUT_S"); v != "" {
		if k, err := strconv.Atoi(v); err == nil && k > 0 {
			return time.Duration(k) * time.Second
		}
	}
	return 30 * time.Second
}

const hangWord = "hang: implementation did not return"

func safeImpl(p *Prop, c Case) []string {
	done := make(chan []string, 1)
	go func() { done <- safeImplInner(p, c) }()
	select {
	case out := <-done:
		return out
	case <-time.After(caseTimeout()):
		// the stuck goroutine cannot be killed; it is abandoned (the process exits at the end of the run)
		out := make([]string, len(c.Lines))
		for i := range out {
			out[i] = hangWord
		}
		return out
	}
}

func isHang(out []string) bool { return len(out) > 0 && out[0] == hangWord }

func safeImplInner(p *Prop, c Case) (out []string) {
	defer func() {
		if r := recover(); r != nil {
			out = make([]string, len(c.Lines))
			for i := range out {
				out[i] = fmt.Sprintf("harness-panic: %v", r)
			}
		}
	}()
	out = p.Impl(c)
	if len(out) != len(c.Lines) {
		o2 := make([]string, len(c.Lines))
		for i := range o2 {
			if i < len(out) {
				o2[i] = out[i]
			} else {
				o2[i] = "harness-missing-output"
			}
		}
		out = o2
	}
	return out
}

func safeCheck(p *Prop, c Case, out []string) (f *Failure) {
	defer func() {
		if r := recover(); r != nil {
			f = &Failure{Key: "oracle-crash", Desc: fmt.Sprintf("property oracle crashed: %v", r)}
		}
	}()
	return p.Check(c, out)
}

// Main is the entry point of vcheck.
func Main(args []string) int {
	if len(args) < 1 {
		fmt.Fprintln(os.Stderr, "usage: vcheck <Cxx> [quick|thorough] [--replay file]")
		return 64
	}
	if args[0] == "--bless" {
		if err := Bless(VerifDir(), RepoDir()); err != nil {
			fmt.Fprintln(os.Stderr, "vcheck: bless:", err)
			return 2
		}
		fmt.Println("anchors.lock.json written for", RepoDir())
		return 0
	}
	if args[0] == "--funcs" && len(args) > 1 {
		fs := modelledFuncs(VerifDir(), RepoDir(), args[1])
		var ks []string
		for k := range fs {
			ks = append(ks, k)
		}
		sort.Strings(ks)
		for _, k := range ks {
			fmt.Println(k)
		}
		return 0
	}
	id := args[0]
	p := Lookup(id)
	if p == nil {
		fmt.Fprintf(os.Stderr, "vcheck: unknown property %s (have %v)\n", id, IDs())
		return 64
	}
	tier := os.Getenv("VERIF_TIER")
	replay := ""
	for i := 1; i < len(args); i++ {
		switch args[i] {
		case "quick", "thorough":
			tier = args[i]
		case "--replay":
			if i+1 < len(args) {
				replay = args[i+1]
				i++
			}
		}
	}
	if tier != "thorough" {
		tier = "quick"
	}
	seed := uint64(1)
	if s := os.Getenv("VERIF_SEED"); s != "" {
		if v, err := strconv.ParseInt(s, 10, 64); err == nil {
			seed = uint64(v)
		}
	}
	ctx := &Ctx{Prop: p, Tier: tier, Seed: seed, Repo: RepoDir(), VerifDir: VerifDir(), Rand: NewRand(NewRand(seed).Uint64() ^ 0xd1342543de82ef95), Escalate: 1}
	if replay != "" {
		return doReplay(ctx, replay)
	}
	return runCheck(ctx)
}

func doReplay(ctx *Ctx, path string) int {
	p := ctx.Prop
	b, err := os.ReadFile(path)
	if err != nil {
		fmt.Fprintln(os.Stderr, "vcheck: ", err)
		return 2
	}
	var r replayFile
	if err := json.Unmarshal(b, &r); err != nil {
		fmt.Fprintln(os.Stderr, "vcheck: bad replay file:", err)
		return 2
	}
	fmt.Printf("replay %s kind=%s: %s\n", path, r.Kind, r.Detail)
	if len(r.Lines) == 0 {
		fmt.Println("this replay names obligations that no longer check (no concrete input):")
		for _, b := range r.Broken {
			fmt.Println("  ", b)
		}
		lr := LeanStage(ctx)
		if lr.ProofOK {
			fmt.Println("all obligations check now")
			return 0
		}
		for _, b := range lr.Broken {
			fmt.Println("  still broken:", b)
		}
		return 1
	}
	c := Case{Lines: r.Lines, Seed: r.Seed}
	out := safeImpl(p, c)
	bad := 0
	var model []string
	lr := LeanStage(ctx)
	if lr.OracleOK {
		if m, err := RunOracle(ctx.VerifDir, []Case{c}); err == nil {
			model = m[0]
		}
	}
	for i, l := range c.Lines {
		mo := "?"
		if model != nil {
			mo = model[i]
		}
		mark := " "
		if model != nil && mo != out[i] {
			mark = "≠"
			bad++
		}
		fmt.Printf("%s %-40s impl=%-30s model=%s\n", mark, l, out[i], mo)
	}
	if p.Check != nil {
		if f := safeCheck(p, c, out); f != nil {
			fmt.Printf("property oracle: FAIL key=%s %s\n", f.Key, f.Desc)
			bad++
		} else {
			fmt.Println("property oracle: holds on this case")
		}
	}
	if bad > 0 {
		return 1
	}
	return 0
}

func tierIn(tiers []string, t string) bool {
	if len(tiers) == 0 {
		return true
	}
	for _, x := range tiers {
		if x == t {
			return true
		}
	}
	return false
}

func runCheck(ctx *Ctx) int {
	t0 := time.Now()
	p := ctx.Prop
	verif := ctx.VerifDir
	known := loadKnown(verif)

	// ---- proof side
	lr := LeanStage(ctx)

	// ---- cases
	n := p.Quick
	if ctx.Tier == "thorough" {
		n = p.Thorough
	}
	if v := os.Getenv("VERIF_CASES"); v != "" {
		if k, err := strconv.Atoi(v); err == nil {
			n = k
		}
	}
	// anchor drift: the code differs from the tree the check was validated on — not an
	// alarm, but a reason to look harder (thorough generators, up to the thorough
	// budget within a time cap; Extras may scale with ctx.Escalate).
	drift := Drift(verif, ctx.Repo, p.ID)
	// changed functions whose regenerated translation is tied by a theorem: no alarm of their
	// own (the re-checked theorem is the tie), but the same enlarged search, with a smaller cap
	tiedDrift := DriftTied(verif, ctx.Repo, p.ID)
	genTier := ctx.Tier
	driftBudget := time.Duration(0)
	if len(drift)+len(tiedDrift) > 0 && ctx.Tier == "quick" && os.Getenv("VERIF_NO_DRIFT_ESCALATION") == "" {
		genTier = "thorough"
		ctx.Escalate = 10
		ctx.Drift = append(append([]string{}, drift...), tiedDrift...)
		if p.Thorough > n {
			n = p.Thorough
		}
		driftBudget = 150 * time.Second
		if len(drift) == 0 {
			driftBudget = 45 * time.Second
		}
		if v := os.Getenv("VERIF_DRIFT_BUDGET_S"); v != "" {
			if k, err := strconv.Atoi(v); err == nil && k > 0 {
				driftBudget = time.Duration(k) * time.Second
			}
		}
	}
	var corpusCases []Case
	if p.Corpus != nil {
		for _, c := range p.Corpus() {
			if c.Tag == "" {
				c.Tag = "corpus"
			}
			corpusCases = append(corpusCases, c)
		}
	}
	nCases := 0
	genBatch := func(k int) []Case {
		var cs []Case
		if p.Gen == nil {
			return cs
		}
		for i := 0; i < k; i++ {
			r := ctx.Rand.Fork()
			st := r.State()
			c := p.Gen(r, genTier)
			c.Seed = st
			cs = append(cs, c)
		}
		return cs
	}

	type found struct {
		f       Failure
		replay  string
		known   bool
		noInput bool
	}
	var founds []found
	seenKey := map[string]bool{}
	report := func(f Failure, rf replayFile, noInput bool) {
		if seenKey[f.Key] {
			return
		}
		seenKey[f.Key] = true
		for _, k := range known {
			if k.Prop == p.ID && k.Key == f.Key {
				fmt.Printf("KNOWN-FINDING: property=%s %s (key=%s)\n", p.ID, k.Desc, k.Key)
				founds = append(founds, found{f: f, known: true})
				return
			}
		}
		rf.Property = p.ID
		rf.RunSeed = ctx.Seed
		rf.Tier = ctx.Tier
		rf.Key = f.Key
		path := writeReplay(verif, rf)
		founds = append(founds, found{f: f, replay: path, noInput: noInput})
	}

	evals := 0
	distinct := map[string]bool{}
	nontrivial := 0
	dist := map[string]int{}
	var samples []any
	mismatches := 0
	var firstMismatch *replayFile

	process := func(cases []Case, compareModel bool) {
		results := runImplAll(p, cases)
		var model [][]string
		var merr error
		if compareModel && lr.OracleOK {
			model, merr = RunOracle(verif, cases)
			if merr != nil {
				lr.Broken = append(lr.Broken, "oracle run failed: "+merr.Error())
				lr.ProofOK = false
				model = nil
			}
		}
		for i, r := range results {
			evals++
			h := caseHash(r.c)
			if !distinct[h] {
				distinct[h] = true
				if p.NonTrivial == nil || p.NonTrivial(r.c, r.out) {
					nontrivial++
				}
			}
			if r.c.Tag != "" {
				dist["stream:"+r.c.Tag]++
			}
			if p.Classify != nil {
				for _, l := range p.Classify(r.c, r.out) {
					dist[l]++
				}
			}
			if len(samples) < 3 && len(r.c.Lines) > 1 {
				samples = append(samples, map[string]any{"lines": clip(r.c.Lines, 24), "impl_out": clip(r.out, 24)})
			}
			if r.fail != nil && !seenKey[r.fail.Key] {
				c := r.c
				if !p.NoShrink && r.fail.Key != "hang" {
					fails := func(t Case) bool {
						o := safeImpl(p, t)
						f := safeCheck(p, t, o)
						return f != nil && f.Key == r.fail.Key
					}
					if p.Shrink != nil {
						c = p.Shrink(c, fails)
					} else {
						c = shrinkLines(c, fails)
					}
				}
				o, f := r.out, r.fail
				if r.fail.Key != "hang" {
					o = safeImpl(p, c)
					f = safeCheck(p, c, o)
				}
				if f == nil {
					f = r.fail
					c = r.c
					o = r.out
				}
				report(*f, replayFile{Kind: "property-failure", Detail: f.Desc, Lines: c.Lines, Seed: c.Seed, ImplOut: o}, false)
			}
			if model != nil {
				if k := eqLines(r.out, model[i]); k >= 0 {
					mismatches++
					if firstMismatch == nil {
						c := r.c
						if !p.NoShrink && p.Shrink == nil && !isHang(r.out) {
							c = shrinkLines(c, func(t Case) bool {
								o := safeImpl(p, t)
								m, err := RunOracle(verif, []Case{t})
								return err == nil && eqLines(o, m[0]) >= 0
							})
						}
						o := safeImpl(p, c)
						var mo []string
						if m, err := RunOracle(verif, []Case{c}); err == nil {
							mo = m[0]
						}
						kk := eqLines(o, mo)
						det := "model and implementation differ"
						if kk >= 0 && kk < len(c.Lines) {
							var a, b string
							if kk < len(o) {
								a = o[kk]
							}
							if kk < len(mo) {
								b = mo[kk]
							}
							det = fmt.Sprintf("line %d %q: impl=%q model=%q", kk, c.Lines[kk], a, b)
						}
						firstMismatch = &replayFile{Kind: "correspondence", Detail: det, Lines: c.Lines, Seed: c.Seed, ImplOut: o, ModelOut: mo}
					}
				}
			}
		}
	}

	const batch = 20000
	process(corpusCases, true)
	nCases += len(corpusCases)
	genStart := time.Now()
	for done := 0; done < n; {
		k := n - done
		if k > batch {
			k = batch
		}
		if driftBudget > 0 {
			if k > 5000 {
				k = 5000
			}
			if done >= p.Quick && time.Since(genStart) > driftBudget {
				break
			}
		}
		cs := genBatch(k)
		process(cs, true)
		done += k
		nCases += k
		if p.Gen == nil {
			break
		}
	}

	// ---- extras (own machinery per property)
	extraNotes := map[string]string{}
	runExtras := func() {
		if os.Getenv("VERIF_NO_EXTRAS") != "" {
			// second attempt after an Extra killed the process (see ./check): the generated
			// stream alone must still be able to name the failing input
			return
		}
		extras := append([]Extra{}, p.Extras...)
		for _, h := range ExtraHooks {
			extras = append(extras, h(p, verif)...)
		}
		for _, e := range extras {
			if !tierIn(e.Tiers, ctx.Tier) {
				continue
			}
			ev, note, fails := e.Run(ctx)
			evals += ev
			extraNotes[e.Name] = note
			dist["extra:"+e.Name] += ev
			for _, f := range fails {
				report(f.Failure, replayFile{Kind: "extra", Detail: e.Name + ": " + f.Desc, Payload: f.Payload}, f.NoInput)
			}
		}
	}
	runExtras()

	unknown := func() int {
		k := 0
		for _, f := range founds {
			if !f.known {
				k++
			}
		}
		return k
	}

	// ---- a broken proof or correspondence: search harder for a failing input
	driftAlarm := len(drift) > 0 && os.Getenv("VERIF_DRIFT_POLICY") != "escalate"
	brokenTie := !lr.ProofOK || mismatches > 0
	escalated := 0
	if brokenTie && unknown() == 0 && p.Gen != nil {
		mult := 10
		if v := os.Getenv("VERIF_ESCALATE"); v != "" {
			if k, err := strconv.Atoi(v); err == nil {
				mult = k
			}
		}
		ctx.Escalate = mult
		deadline := time.Now().Add(4 * time.Minute)
		for round := 0; round < mult && unknown() == 0 && time.Now().Before(deadline); round++ {
			var more []Case
			for i := 0; i < n; i++ {
				r := ctx.Rand.Fork()
				st := r.State()
				c := p.Gen(r, genTier)
				c.Seed = st
				more = append(more, c)
			}
			escalated += len(more)
			process(more, false)
		}
	}

	// ---- verdict
	violations := 0
	for _, f := range founds {
		if f.known {
			continue
		}
		violations++
		if f.noInput {
			fmt.Printf("VIOLATION property=%s replay=%s no-failing-input-found\n", p.ID, f.replay)
		} else {
			fmt.Printf("VIOLATION property=%s replay=%s\n", p.ID, f.replay)
		}
	}
	if driftAlarm && !brokenTie && violations == 0 {
		// proofs build and the sampled correspondence agrees, but the modelled functions are
		// no longer the text the model was validated against, and the enlarged search found
		// no failing input: the property is no longer shown to hold of THIS code.
		rf := replayFile{Property: p.ID, Kind: "source-drift", RunSeed: ctx.Seed, Tier: ctx.Tier, Broken: drift,
			Detail: fmt.Sprintf("the source of %d modelled function(s) differs from the tree the model was validated on (anchors.lock.json): %s; the proofs are about the model, the correspondence run on %d cases and the property oracle found no disagreement and no failing input", len(drift), strings.Join(drift, ", "), nCases)}
		path := writeReplay(verif, rf)
		fmt.Printf("# %s\n", rf.Detail)
		fmt.Printf("VIOLATION property=%s replay=%s no-failing-input-found\n", p.ID, path)
		violations++
	}
	if brokenTie && violations == 0 {
		rf := replayFile{Property: p.ID, Kind: "proof", RunSeed: ctx.Seed, Tier: ctx.Tier, Broken: lr.Broken}
		if !lr.ProofOK {
			rf.Detail = "proof obligations no longer check: " + strings.Join(lr.Broken, " | ")
		}
		if firstMismatch != nil {
			rf.Kind = "correspondence"
			rf.Lines = firstMismatch.Lines
			rf.Seed = firstMismatch.Seed
			rf.ImplOut = firstMismatch.ImplOut
			rf.ModelOut = firstMismatch.ModelOut
			if rf.Detail != "" {
				rf.Detail += " ; "
			}
			rf.Detail += fmt.Sprintf("correspondence broken on %d case(s), first: %s", mismatches, firstMismatch.Detail)
		}
		path := writeReplay(verif, rf)
		fmt.Printf("# %s\n", rf.Detail)
		fmt.Printf("# searched %d further generated cases with the property oracle on the implementation: no failing input\n", escalated)
		fmt.Printf("VIOLATION property=%s replay=%s no-failing-input-found\n", p.ID, path)
		violations++
	}

	// ---- evidence
	var distKeys []string
	for k := range dist {
		distKeys = append(distKeys, k)
	}
	sort.Strings(distKeys)
	distOut := map[string]int{}
	for _, k := range distKeys {
		distOut[k] = dist[k]
	}
	if len(samples) == 0 {
		for _, t := range lr.Theorems {
			samples = append(samples, "theorem "+t)
			if len(samples) >= 3 {
				break
			}
		}
	}
	tb := append([]string{
		"Lean 4.33.0 kernel (thorough tier: leanchecker re-check)",
		"axioms allowed in property theorems: propext, Classical.choice, Quot.sound; no native_decide/bv_decide/sorry/own axioms",
		"model/code tie: correspondence diff (real Go code in-process vs compiled Lean model `oracle`) on the generated cases of this run, plus the independent property oracle",
		"Go toolchain as installed; harness, canonicalisers and extractor (own code)",
	}, p.TrustedBase...)
	cov := map[string]any{
		"obligations":                   lr.Obligations,
		"discharged":                    lr.Discharged,
		"checker_cmd":                   lr.CheckerCmd,
		"trusted_base":                  tb,
		"theorems":                      lr.Theorems,
		"axioms":                        lr.Axioms,
		"evaluations":                   evals,
		"distinct_nontrivial":           nontrivial,
		"rule":                          p.Rule,
		"samples":                       samples,
		"distribution":                  distOut,
		"correspondence_cases":          nCases,
		"correspondence_mismatches":     mismatches,
		"traces_validated_against_impl": nCases - mismatches,
		"escalated_search_cases":        escalated,
		"no_longer_checks":              lr.Broken,
		"lean_stage_wall_s":             lr.WallS,
		"extras":                        extraNotes,
		"repo":                          ctx.Repo,
	}
	if lr.Discharged == 0 {
		// nothing was discharged in this run (broken proof side): the proof-level keys
		// would claim a proof that does not exist; keep only the generic counts.
		delete(cov, "discharged")
		cov["discharged_none"] = true
	}
	if len(tiedDrift) > 0 {
		cov["tied_drift"] = tiedDrift
		cov["tied_drift_note"] = "these modelled functions differ from the validated tree but their go2lean translation is regenerated and the tie theorems were re-checked on it: no drift alarm; the enlarged search ran anyway (the translation idealises int as unbounded)"
	}
	if len(drift) > 0 {
		cov["anchor_drift"] = drift
		cov["anchor_drift_note"] = "modelled functions differ from the tree the model was validated on (anchors.lock.json): thorough-tier generators and an enlarged budget were used; if no failing input is found the run ends with VIOLATION … no-failing-input-found naming them"
	}
	if lr.FactsNote != "" {
		cov["facts"] = strings.TrimSpace(lr.FactsNote)
	}
	ev := evidence{PropertyID: p.ID, Tier: ctx.Tier, Seed: int64(ctx.Seed), Level: "proof", Coverage: cov,
		Assumptions: p.Assumptions, WallS: time.Since(t0).Seconds(), Violations: violations}
	if ev.Assumptions == nil {
		ev.Assumptions = []string{}
	}
	b, _ := json.MarshalIndent(ev, "", " ")
	// Evidence about a scratch tree (VERIF_REPO) never overwrites the evidence about /repo.
	evDir := "evidence"
	if ctx.Repo != "/repo" {
		evDir = "evidence-scratch"
	}
	_ = os.MkdirAll(filepath.Join(verif, evDir), 0o755)
	must(os.WriteFile(filepath.Join(verif, evDir, p.ID+".json"), b, 0o644))

	fmt.Printf("%s %s: theorems %d/%d audited, %d cases (%d distinct non-trivial), %d correspondence mismatches, %d violations, %.1fs\n",
		p.ID, ctx.Tier, lr.Discharged, lr.Obligations, evals, nontrivial, mismatches, violations, time.Since(t0).Seconds())
	if violations > 0 {
		return 1
	}
	return 0
}

func clip(xs []string, n int) []string {
	if len(xs) <= n {
		return xs
	}
	out := append([]string{}, xs[:n]...)
	return append(out, fmt.Sprintf("… (%d more)", len(xs)-n))
}
