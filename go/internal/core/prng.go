package core

// Rand is a splitmix64 generator. Every random choice of a run derives from one
// state seeded by VERIF_SEED, and every case records the state it started from,
// so a disagreement replays exactly.
type Rand struct{ s uint64 }

func NewRand(seed uint64) *Rand { return &Rand{s: seed} }

func (r *Rand) State() uint64 { return r.s }

func (r *Rand) Uint64() uint64 {
	r.s += 0x9e3779b97f4a7c15
	z := r.s
	z = (z ^ (z >> 30)) * 0xbf58476d1ce4e5b9
	z = (z ^ (z >> 27)) * 0x94d049bb133111eb
	return z ^ (z >> 31)
}

// Intn returns a value in [0,n). n must be > 0.
func (r *Rand) Intn(n int) int {
	if n <= 0 {
		return 0
	}
	return int(r.Uint64() % uint64(n))
}

// Range returns a value in [lo,hi].
func (r *Rand) Range(lo, hi int) int { return lo + r.Intn(hi-lo+1) }

func (r *Rand) Bool() bool { return r.Uint64()&1 == 1 }

// Chance is true with probability pct/100.
func (r *Rand) Chance(pct int) bool { return r.Intn(100) < pct }

// Fork derives an independent generator (for a case) and advances r.
func (r *Rand) Fork() *Rand { return &Rand{s: r.Uint64()} }

// Pick returns a weighted index: weights w[i] >= 0.
func (r *Rand) Pick(w ...int) int {
	t := 0
	for _, x := range w {
		t += x
	}
	k := r.Intn(t)
	for i, x := range w {
		if k < x {
			return i
		}
		k -= x
	}
	return len(w) - 1
}

func (r *Rand) Bytes(n int) []byte {
	b := make([]byte, n)
	for i := range b {
		b[i] = byte(r.Uint64())
	}
	return b
}
