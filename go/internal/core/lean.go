package core

import (
	"bytes"
	"fmt"
	"os"
	"os/exec"
	"path/filepath"
	"regexp"
	"strings"
	"syscall"
	"time"
)

// LeanResult is the outcome of the proof side of a run.
type LeanResult struct {
	OracleOK    bool     // the executable models built
	ProofOK     bool     // Golib.Props.<ID> built and every theorem passed the audit
	Theorems    []string // property theorems found in Props/<ID>.lean
	Obligations int
	Discharged  int
	Broken      []string // what no longer checks (theorem names / build errors / forbidden tokens)
	Log         string
	CheckerCmd  string
	Axioms      map[string][]string
	FactsNote   string
	WallS       float64
}

var allowedAxioms = map[string]bool{"propext": true, "Classical.choice": true, "Quot.sound": true}

var forbidden = regexp.MustCompile(`\bsorry\b|\badmit\b|^\s*axiom\s|\bnative_decide\b|\bbv_decide\b|\bimplemented_by\b|\bunsafe\s|maxHeartbeats\s+0\b|\bextern\b`)

func leanDir(verif string) string { return filepath.Join(verif, "lean") }

// withLeanLock serialises lake invocations across concurrently running checks.
func withLeanLock(verif string, f func()) {
	lk, err := os.OpenFile(filepath.Join(leanDir(verif), ".lake-lock"), os.O_CREATE|os.O_RDWR, 0o644)
	if err == nil {
		defer lk.Close()
		_ = syscall.Flock(int(lk.Fd()), syscall.LOCK_EX)
		defer syscall.Flock(int(lk.Fd()), syscall.LOCK_UN)
	}
	f()
}

func runIn(dir string, timeout time.Duration, name string, args ...string) (string, error) {
	cmd := exec.Command(name, args...)
	cmd.Dir = dir
	var buf bytes.Buffer
	cmd.Stdout = &buf
	cmd.Stderr = &buf
	if err := cmd.Start(); err != nil {
		return "", err
	}
	done := make(chan error, 1)
	go func() { done <- cmd.Wait() }()
	select {
	case err := <-done:
		return buf.String(), err
	case <-time.After(timeout):
		_ = cmd.Process.Kill()
		<-done
		return buf.String(), fmt.Errorf("timeout after %s", timeout)
	}
}

// stripLeanComments removes `--` line comments and `/- … -/` block comments
// (nesting handled) so the forbidden-token scan only sees code.
func stripLeanComments(src string) string {
	var out strings.Builder
	depth := 0
	i := 0
	inStr := false
	for i < len(src) {
		if depth == 0 && !inStr && src[i] == '"' {
			inStr = true
			out.WriteByte(src[i])
			i++
			continue
		}
		if inStr {
			if src[i] == '\\' && i+1 < len(src) {
				out.WriteByte(src[i])
				out.WriteByte(src[i+1])
				i += 2
				continue
			}
			if src[i] == '"' {
				inStr = false
			}
			out.WriteByte(src[i])
			i++
			continue
		}
		if i+1 < len(src) && src[i] == '/' && src[i+1] == '-' {
			depth++
			i += 2
			continue
		}
		if depth > 0 && i+1 < len(src) && src[i] == '-' && src[i+1] == '/' {
			depth--
			i += 2
			continue
		}
		if depth > 0 {
			if src[i] == '\n' {
				out.WriteByte('\n')
			}
			i++
			continue
		}
		if i+1 < len(src) && src[i] == '-' && src[i+1] == '-' {
			for i < len(src) && src[i] != '\n' {
				i++
			}
			continue
		}
		out.WriteByte(src[i])
		i++
	}
	return out.String()
}

var theoremRe = regexp.MustCompile(`(?m)^theorem\s+([A-Za-z0-9_.'!?]+)`)
var namespaceRe = regexp.MustCompile(`(?m)^namespace\s+([A-Za-z0-9_.]+)`)

// propsTheorems lists the fully qualified names of the theorems stated in
// Props/<ID>.lean (the property theorems; helper lemmas live elsewhere).
func propsTheorems(verif, id string) ([]string, error) {
	b, err := os.ReadFile(filepath.Join(leanDir(verif), "Golib", "Props", id+".lean"))
	if err != nil {
		return nil, err
	}
	src := stripLeanComments(string(b))
	ns := ""
	if m := namespaceRe.FindStringSubmatch(src); m != nil {
		ns = m[1] + "."
	}
	var names []string
	for _, m := range theoremRe.FindAllStringSubmatch(src, -1) {
		n := m[1]
		if strings.HasPrefix(n, "Golib.") {
			names = append(names, n)
		} else {
			names = append(names, ns+n)
		}
	}
	return names, nil
}

// scanForbidden greps every .lean file of the project (outside comments).
func scanForbidden(verif string) []string {
	var hits []string
	root := leanDir(verif)
	_ = filepath.Walk(root, func(p string, info os.FileInfo, err error) error {
		if err != nil {
			return nil
		}
		if info.IsDir() {
			if info.Name() == ".lake" {
				return filepath.SkipDir
			}
			return nil
		}
		if !strings.HasSuffix(p, ".lean") {
			return nil
		}
		b, err := os.ReadFile(p)
		if err != nil {
			return nil
		}
		for n, line := range strings.Split(stripLeanComments(string(b)), "\n") {
			if forbidden.MatchString(line) {
				rel, _ := filepath.Rel(root, p)
				hits = append(hits, fmt.Sprintf("%s:%d: %s", rel, n+1, strings.TrimSpace(line)))
			}
		}
		return nil
	})
	return hits
}

var axLine = regexp.MustCompile(`^'([^']+)' (depends on axioms: \[([^\]]*)\]|does not depend on any axioms)`)

// LeanStage regenerates facts, builds the oracle and the property theorems and
// audits the axioms every property theorem depends on.
func LeanStage(ctx *Ctx) *LeanResult {
	t0 := time.Now()
	p := ctx.Prop
	res := &LeanResult{Axioms: map[string][]string{}}
	verif := ctx.VerifDir
	ld := leanDir(verif)
	var log strings.Builder

	withLeanLock(verif, func() {
		// 1. regenerated facts
		if p.Facts != nil {
			content, err := p.Facts(ctx.Repo)
			if err != nil {
				// The extractor never stays silent: what it cannot parse becomes a
				// failing obligation.
				content = fmt.Sprintf("-- extractor failed: %v\nnamespace Golib.Gen.%s\ndef extractorOK : Bool := false\nend Golib.Gen.%s\n", err, p.ID, p.ID)
				res.FactsNote = "extractor error: " + err.Error()
			}
			ch, werr := writeFileIfChanged(filepath.Join(ld, "Golib", "Gen", "Facts"+p.ID+".lean"), []byte(content))
			must(werr)
			if ch {
				res.FactsNote += " facts file rewritten"
			} else {
				res.FactsNote += " facts unchanged"
			}
		}
		// 1b. wave 8: definitions regenerated from the tree by the translator go2lean
		tnote, tbroken := transStage(ctx, ld)
		res.FactsNote += tnote
		res.Broken = append(res.Broken, tbroken...)
		// 2. executable models
		currentOracle = "oracle_" + p.ID
		out, err := runIn(ld, 20*time.Minute, "lake", "build", currentOracle)
		log.WriteString(out)
		res.OracleOK = err == nil
		if err != nil {
			res.Broken = append(res.Broken, "lake build "+currentOracle+": "+firstError(out))
		}
		// 3. property theorems
		out, err = runIn(ld, 30*time.Minute, "lake", "build", "Golib.Props."+p.ID)
		log.WriteString(out)
		buildOK := err == nil
		if err != nil {
			res.Broken = append(res.Broken, "lake build Golib.Props."+p.ID+": "+firstError(out))
			if ties := transTies(verif, p.ID); len(ties) > 0 {
				res.Broken = append(res.Broken, "tie theorems not re-checked on the definitions regenerated from this tree: "+strings.Join(ties, ", "))
			}
		}
		names, terr := propsTheorems(verif, p.ID)
		if terr != nil {
			res.Broken = append(res.Broken, "cannot read Props/"+p.ID+".lean: "+terr.Error())
		}
		res.Theorems = names
		res.Obligations = len(names)
		if len(names) == 0 {
			res.Broken = append(res.Broken, "no property theorem found in Props/"+p.ID+".lean")
		}
		// 4. axiom audit
		if buildOK && len(names) > 0 {
			var a strings.Builder
			fmt.Fprintf(&a, "-- generated by vcheck on every run; do not edit\nimport Golib.Props.%s\n", p.ID)
			for _, n := range names {
				fmt.Fprintf(&a, "#print axioms %s\n", n)
			}
			af := filepath.Join(ld, "Audit", p.ID+".lean")
			_, werr := writeFileIfChanged(af, []byte(a.String()))
			must(werr)
			out, err := runIn(ld, 10*time.Minute, "lake", "env", "lean", filepath.Join("Audit", p.ID+".lean"))
			log.WriteString(out)
			if err != nil {
				res.Broken = append(res.Broken, "audit failed: "+firstError(out))
			}
			seen := map[string]bool{}
			// `#print axioms` may wrap long lists over several lines: join first.
			joined := regexp.MustCompile(`,\s*\n\s*`).ReplaceAllString(out, ", ")
			for _, line := range strings.Split(joined, "\n") {
				m := axLine.FindStringSubmatch(strings.TrimSpace(line))
				if m == nil {
					continue
				}
				name := m[1]
				seen[name] = true
				var axs []string
				if m[3] != "" {
					for _, a := range strings.Split(m[3], ",") {
						axs = append(axs, strings.TrimSpace(a))
					}
				}
				res.Axioms[name] = axs
				ok := true
				for _, a := range axs {
					if !allowedAxioms[a] {
						ok = false
					}
				}
				if ok {
					res.Discharged++
				} else {
					res.Broken = append(res.Broken, fmt.Sprintf("theorem %s depends on non-whitelisted axioms %v", name, axs))
				}
			}
			for _, n := range names {
				if !seen[n] {
					res.Broken = append(res.Broken, "theorem "+n+" not reported by the axiom audit")
				}
			}
		}
		// 5. forbidden tokens anywhere in the project
		for _, h := range scanForbidden(verif) {
			res.Broken = append(res.Broken, "forbidden token: "+h)
		}
		res.CheckerCmd = "cd lean && lake build oracle_" + p.ID + " Golib.Props." + p.ID + " && lake env lean Audit/" + p.ID + ".lean  (# print axioms ⊆ {propext, Classical.choice, Quot.sound}; grep for sorry/admit/axiom/native_decide/bv_decide/implemented_by/unsafe)"
		// 6. thorough: independent re-check of the compiled theorems
		if ctx.Tier == "thorough" && buildOK {
			out, err := runIn(ld, 30*time.Minute, "lake", "env", "leanchecker", "Golib.Props."+p.ID)
			log.WriteString(out)
			if err != nil {
				res.Broken = append(res.Broken, "leanchecker Golib.Props."+p.ID+": "+firstError(out))
			}
			res.CheckerCmd += " && lake env leanchecker Golib.Props." + p.ID
		}
	})
	res.ProofOK = len(res.Broken) == 0
	res.Log = log.String()
	res.WallS = time.Since(t0).Seconds()
	return res
}

func firstError(out string) string {
	for _, l := range strings.Split(out, "\n") {
		if strings.Contains(l, "error") {
			l = strings.TrimSpace(l)
			if len(l) > 300 {
				l = l[:300]
			}
			return l
		}
	}
	out = strings.TrimSpace(out)
	if len(out) > 300 {
		out = out[len(out)-300:]
	}
	return out
}

// RunOracle pipes the cases through the compiled Lean driver and returns, per
// case, the output lines.
// currentOracle is the executable of the property being checked (set by LeanStage):
// one executable per property, so that a model broken by facts regenerated from a
// changed tree cannot disturb the checks of other properties.
var currentOracle = "oracle"

func RunOracle(verif string, cases []Case) ([][]string, error) {
	exe := filepath.Join(leanDir(verif), ".lake", "build", "bin", currentOracle)
	var in bytes.Buffer
	total := 0
	for _, c := range cases {
		for _, l := range c.Lines {
			in.WriteString(l)
			in.WriteByte('\n')
			total++
		}
	}
	cmd := exec.Command(exe)
	cmd.Stdin = &in
	var out, errb bytes.Buffer
	cmd.Stdout = &out
	cmd.Stderr = &errb
	if err := cmd.Run(); err != nil {
		return nil, fmt.Errorf("oracle: %v: %s", err, errb.String())
	}
	lines := strings.Split(strings.TrimRight(out.String(), "\n"), "\n")
	if out.Len() == 0 {
		lines = nil
	}
	if len(lines) != total {
		return nil, fmt.Errorf("oracle printed %d lines for %d input lines", len(lines), total)
	}
	res := make([][]string, len(cases))
	k := 0
	for i, c := range cases {
		res[i] = lines[k : k+len(c.Lines)]
		k += len(c.Lines)
	}
	return res, nil
}
