// Package runtime is the shim for the parts of package runtime used by the scheduled
// scratch copies: Gosched is a plain yield step under the deterministic scheduler.
package runtime

import (
	rt "runtime"

	"verifharness/internal/sched"
)

func Gosched() {
	if sched.Active() {
		op := sched.Op{Kind: sched.KYield}
		if sched.Enter(&op) {
			return
		}
	}
	rt.Gosched()
}

// GOMAXPROCS: under the deterministic scheduler the number of Ps is an input chosen by
// the harness (sched.S.Procs); a query returns it, an attempt to change it is ignored.
func GOMAXPROCS(n int) int {
	if p := sched.Procs(); p > 0 {
		return p
	}
	return rt.GOMAXPROCS(n)
}
func NumCPU() int          { return rt.NumCPU() }
func NumGoroutine() int    { return rt.NumGoroutine() }
func KeepAlive(x any)      { rt.KeepAlive(x) }
func GC()                  { rt.GC() }
