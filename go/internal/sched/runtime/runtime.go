// Package runtime is the shim for the parts of package runtime used by the scheduled
// scratch copies: Gosched is a plain yield step under the deterministic scheduler.
package runtime

import (
	rt "runtime"

	"verifharness/internal/sched"
)

func Gosched() {
	if sched.Active() {
		op := sched.Op{Kind: sched.KYield}
		if sched.Enter(&op) {
			return
		}
	}
	rt.Gosched()
}

func GOMAXPROCS(n int) int { return rt.GOMAXPROCS(n) }
func NumCPU() int          { return rt.NumCPU() }
func NumGoroutine() int    { return rt.NumGoroutine() }
func KeepAlive(x any)      { rt.KeepAlive(x) }
func GC()                  { rt.GC() }
