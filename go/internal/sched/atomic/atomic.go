// Package atomic is a same-API shim for sync/atomic (the function forms and the typed
// values Int32/Int64/Uint32/Uint64/Uintptr/Bool/Pointer[T]/Value are all present).
// Under an active deterministic scheduler (package sched) every operation first parks
// the calling logical thread and reports (kind, address, operands, result); otherwise
// it is the real operation.
package atomic

import (
	ra "sync/atomic"
	"unsafe"

	"verifharness/internal/sched"
)

// ---- pointers

func LoadPointer(addr *unsafe.Pointer) unsafe.Pointer {
	if !sched.Active() {
		return ra.LoadPointer(addr)
	}
	op := &sched.Op{Kind: sched.KLoad, Addr: unsafe.Pointer(addr)}
	sched.Enter(op)
	v := ra.LoadPointer(addr)
	op.PRes = v
	return v
}

func StorePointer(addr *unsafe.Pointer, val unsafe.Pointer) {
	if !sched.Active() {
		ra.StorePointer(addr, val)
		return
	}
	op := &sched.Op{Kind: sched.KStore, Addr: unsafe.Pointer(addr), PNew: val}
	sched.Enter(op)
	ra.StorePointer(addr, val)
}

func SwapPointer(addr *unsafe.Pointer, new unsafe.Pointer) unsafe.Pointer {
	if !sched.Active() {
		return ra.SwapPointer(addr, new)
	}
	op := &sched.Op{Kind: sched.KSwap, Addr: unsafe.Pointer(addr), PNew: new}
	sched.Enter(op)
	v := ra.SwapPointer(addr, new)
	op.PRes = v
	return v
}

func CompareAndSwapPointer(addr *unsafe.Pointer, old, new unsafe.Pointer) bool {
	if !sched.Active() {
		return ra.CompareAndSwapPointer(addr, old, new)
	}
	op := &sched.Op{Kind: sched.KCAS, Addr: unsafe.Pointer(addr), POld: old, PNew: new}
	sched.Enter(op)
	ok := ra.CompareAndSwapPointer(addr, old, new)
	op.OK = ok
	return ok
}

// ---- integers (one generic body per operation; the real operation is passed in)

type integer interface {
	~int32 | ~int64 | ~uint32 | ~uint64 | ~uintptr
}

func load[T integer](w uint8, addr *T, real func(*T) T) T {
	if !sched.Active() {
		return real(addr)
	}
	op := &sched.Op{Kind: sched.KLoad, Width: w, Addr: unsafe.Pointer(addr)}
	sched.Enter(op)
	v := real(addr)
	op.Res = uint64(v)
	return v
}

func store[T integer](w uint8, addr *T, val T, real func(*T, T)) {
	if !sched.Active() {
		real(addr, val)
		return
	}
	op := &sched.Op{Kind: sched.KStore, Width: w, Addr: unsafe.Pointer(addr), New: uint64(val)}
	sched.Enter(op)
	real(addr, val)
}

func add[T integer](w uint8, addr *T, delta T, real func(*T, T) T) T {
	if !sched.Active() {
		return real(addr, delta)
	}
	op := &sched.Op{Kind: sched.KAdd, Width: w, Addr: unsafe.Pointer(addr), New: uint64(delta)}
	sched.Enter(op)
	v := real(addr, delta)
	op.Res = uint64(v)
	return v
}

func swap[T integer](w uint8, addr *T, new T, real func(*T, T) T) T {
	if !sched.Active() {
		return real(addr, new)
	}
	op := &sched.Op{Kind: sched.KSwap, Width: w, Addr: unsafe.Pointer(addr), New: uint64(new)}
	sched.Enter(op)
	v := real(addr, new)
	op.Res = uint64(v)
	return v
}

func cas[T integer](w uint8, addr *T, old, new T, real func(*T, T, T) bool) bool {
	if !sched.Active() {
		return real(addr, old, new)
	}
	op := &sched.Op{Kind: sched.KCAS, Width: w, Addr: unsafe.Pointer(addr), Old: uint64(old), New: uint64(new)}
	sched.Enter(op)
	ok := real(addr, old, new)
	op.OK = ok
	return ok
}

func LoadInt32(addr *int32) int32       { return load(32, addr, ra.LoadInt32) }
func LoadInt64(addr *int64) int64       { return load(64, addr, ra.LoadInt64) }
func LoadUint32(addr *uint32) uint32    { return load(32, addr, ra.LoadUint32) }
func LoadUint64(addr *uint64) uint64    { return load(64, addr, ra.LoadUint64) }
func LoadUintptr(addr *uintptr) uintptr { return load(64, addr, ra.LoadUintptr) }

func StoreInt32(addr *int32, v int32)       { store(32, addr, v, ra.StoreInt32) }
func StoreInt64(addr *int64, v int64)       { store(64, addr, v, ra.StoreInt64) }
func StoreUint32(addr *uint32, v uint32)    { store(32, addr, v, ra.StoreUint32) }
func StoreUint64(addr *uint64, v uint64)    { store(64, addr, v, ra.StoreUint64) }
func StoreUintptr(addr *uintptr, v uintptr) { store(64, addr, v, ra.StoreUintptr) }

func AddInt32(addr *int32, d int32) int32         { return add(32, addr, d, ra.AddInt32) }
func AddInt64(addr *int64, d int64) int64         { return add(64, addr, d, ra.AddInt64) }
func AddUint32(addr *uint32, d uint32) uint32     { return add(32, addr, d, ra.AddUint32) }
func AddUint64(addr *uint64, d uint64) uint64     { return add(64, addr, d, ra.AddUint64) }
func AddUintptr(addr *uintptr, d uintptr) uintptr { return add(64, addr, d, ra.AddUintptr) }

func SwapInt32(addr *int32, v int32) int32         { return swap(32, addr, v, ra.SwapInt32) }
func SwapInt64(addr *int64, v int64) int64         { return swap(64, addr, v, ra.SwapInt64) }
func SwapUint32(addr *uint32, v uint32) uint32     { return swap(32, addr, v, ra.SwapUint32) }
func SwapUint64(addr *uint64, v uint64) uint64     { return swap(64, addr, v, ra.SwapUint64) }
func SwapUintptr(addr *uintptr, v uintptr) uintptr { return swap(64, addr, v, ra.SwapUintptr) }

func CompareAndSwapInt32(addr *int32, o, n int32) bool {
	return cas(32, addr, o, n, ra.CompareAndSwapInt32)
}
func CompareAndSwapInt64(addr *int64, o, n int64) bool {
	return cas(64, addr, o, n, ra.CompareAndSwapInt64)
}
func CompareAndSwapUint32(addr *uint32, o, n uint32) bool {
	return cas(32, addr, o, n, ra.CompareAndSwapUint32)
}
func CompareAndSwapUint64(addr *uint64, o, n uint64) bool {
	return cas(64, addr, o, n, ra.CompareAndSwapUint64)
}
func CompareAndSwapUintptr(addr *uintptr, o, n uintptr) bool {
	return cas(64, addr, o, n, ra.CompareAndSwapUintptr)
}

// ---- typed values (same method sets as sync/atomic's)

type Int32 struct{ v int32 }

func (x *Int32) Load() int32                    { return LoadInt32(&x.v) }
func (x *Int32) Store(v int32)                  { StoreInt32(&x.v, v) }
func (x *Int32) Swap(v int32) int32             { return SwapInt32(&x.v, v) }
func (x *Int32) CompareAndSwap(o, n int32) bool { return CompareAndSwapInt32(&x.v, o, n) }
func (x *Int32) Add(d int32) int32              { return AddInt32(&x.v, d) }

type Int64 struct{ v int64 }

func (x *Int64) Load() int64                    { return LoadInt64(&x.v) }
func (x *Int64) Store(v int64)                  { StoreInt64(&x.v, v) }
func (x *Int64) Swap(v int64) int64             { return SwapInt64(&x.v, v) }
func (x *Int64) CompareAndSwap(o, n int64) bool { return CompareAndSwapInt64(&x.v, o, n) }
func (x *Int64) Add(d int64) int64              { return AddInt64(&x.v, d) }

type Uint32 struct{ v uint32 }

func (x *Uint32) Load() uint32                    { return LoadUint32(&x.v) }
func (x *Uint32) Store(v uint32)                  { StoreUint32(&x.v, v) }
func (x *Uint32) Swap(v uint32) uint32            { return SwapUint32(&x.v, v) }
func (x *Uint32) CompareAndSwap(o, n uint32) bool { return CompareAndSwapUint32(&x.v, o, n) }
func (x *Uint32) Add(d uint32) uint32             { return AddUint32(&x.v, d) }

type Uint64 struct{ v uint64 }

func (x *Uint64) Load() uint64                    { return LoadUint64(&x.v) }
func (x *Uint64) Store(v uint64)                  { StoreUint64(&x.v, v) }
func (x *Uint64) Swap(v uint64) uint64            { return SwapUint64(&x.v, v) }
func (x *Uint64) CompareAndSwap(o, n uint64) bool { return CompareAndSwapUint64(&x.v, o, n) }
func (x *Uint64) Add(d uint64) uint64             { return AddUint64(&x.v, d) }

type Uintptr struct{ v uintptr }

func (x *Uintptr) Load() uintptr                    { return LoadUintptr(&x.v) }
func (x *Uintptr) Store(v uintptr)                  { StoreUintptr(&x.v, v) }
func (x *Uintptr) Swap(v uintptr) uintptr           { return SwapUintptr(&x.v, v) }
func (x *Uintptr) CompareAndSwap(o, n uintptr) bool { return CompareAndSwapUintptr(&x.v, o, n) }
func (x *Uintptr) Add(d uintptr) uintptr            { return AddUintptr(&x.v, d) }

type Bool struct{ v uint32 }

func b32(b bool) uint32 {
	if b {
		return 1
	}
	return 0
}
func (x *Bool) Load() bool                    { return LoadUint32(&x.v) != 0 }
func (x *Bool) Store(v bool)                  { StoreUint32(&x.v, b32(v)) }
func (x *Bool) Swap(v bool) bool              { return SwapUint32(&x.v, b32(v)) != 0 }
func (x *Bool) CompareAndSwap(o, n bool) bool { return CompareAndSwapUint32(&x.v, b32(o), b32(n)) }

type Pointer[T any] struct {
	_ [0]*T
	v unsafe.Pointer
}

func (x *Pointer[T]) Load() *T     { return (*T)(LoadPointer(&x.v)) }
func (x *Pointer[T]) Store(v *T)   { StorePointer(&x.v, unsafe.Pointer(v)) }
func (x *Pointer[T]) Swap(v *T) *T { return (*T)(SwapPointer(&x.v, unsafe.Pointer(v))) }
func (x *Pointer[T]) CompareAndSwap(o, n *T) bool {
	return CompareAndSwapPointer(&x.v, unsafe.Pointer(o), unsafe.Pointer(n))
}

// Value is not intercepted (no scheduled code uses it); it is the real one.
type Value = ra.Value
