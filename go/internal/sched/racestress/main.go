// racestress hammers the UNMODIFIED lock-free queues of the tree under verification
// from many goroutines; it is built with -race by the C01/C11 checks, so every pair
// of conflicting unsynchronised accesses that occurs is reported by the race detector.
//
//	racestress list|ring <milliseconds>
package main

import (
	"fmt"
	"os"
	"strconv"
	"sync"
	"sync/atomic"
	"time"

	"github.com/welllog/golib/listz"
	"github.com/welllog/golib/ringz"
)

func main() {
	if len(os.Args) != 3 {
		fmt.Fprintln(os.Stderr, "usage: racestress list|ring <ms>")
		os.Exit(2)
	}
	ms, _ := strconv.Atoi(os.Args[2])
	deadline := time.Now().Add(time.Duration(ms) * time.Millisecond)
	var stop atomic.Bool
	var wg sync.WaitGroup
	var pushed, popped, negLen, badLen atomic.Int64
	run := func(f func(id int)) {
		for g := 0; g < 4; g++ {
			wg.Add(1)
			go func(id int) {
				defer wg.Done()
				for !stop.Load() {
					f(id)
				}
			}(g)
		}
	}
	switch os.Args[1] {
	case "list":
		l := listz.NewSync[[2]int]()
		run(func(id int) { l.Push([2]int{id, id}); pushed.Add(1) })
		run(func(id int) {
			if v, ok := l.Pop(); ok {
				if v[0] != v[1] {
					badLen.Add(1)
				}
				popped.Add(1)
			}
		})
		run(func(id int) {
			if l.Len() < 0 {
				negLen.Add(1)
			}
		})
		run(func(id int) {
			if id%2 == 0 {
				l.Push([2]int{id, id})
				pushed.Add(1)
			} else if id == 1 {
				if _, ok := l.PopWait(0); ok {
					popped.Add(1)
				}
			} else if _, ok := l.PopWait(2 * time.Millisecond); ok {
				// positive duration: the ticker-driven path (not modelled; race detection only)
				popped.Add(1)
			}
		})
	case "ring":
		r := ringz.NewSync[[2]int](8)
		run(func(id int) {
			if r.Push([2]int{id, id}) {
				pushed.Add(1)
			}
		})
		run(func(id int) {
			if v, ok := r.Pop(); ok {
				if v[0] != v[1] {
					badLen.Add(1)
				}
				popped.Add(1)
			}
		})
		run(func(id int) {
			if n := r.Len(); n < 0 || n > r.Cap() {
				badLen.Add(1)
			}
			_ = r.IsEmpty()
			_ = r.IsFull()
		})
	default:
		os.Exit(2)
	}
	for time.Now().Before(deadline) {
		time.Sleep(5 * time.Millisecond)
	}
	stop.Store(true)
	wg.Wait()
	fmt.Printf("pushed=%d popped=%d negative-len-samples=%d torn-or-out-of-range=%d\n", pushed.Load(), popped.Load(), negLen.Load(), badLen.Load())
}
