// racestress hammers the UNMODIFIED lock-free queues of the tree under verification
// from many goroutines; it is built with -race by the C01/C11 checks, so every pair
// of conflicting unsynchronised accesses that occurs is reported by the race detector.
//
//	racestress list|ring <milliseconds>
package main

import (
	"fmt"
	"os"
	"runtime"
	"strconv"
	"sync"
	"sync/atomic"
	"time"

	"github.com/welllog/golib/listz"
	"github.com/welllog/golib/ringz"
)

func main() {
	if len(os.Args) != 3 {
		fmt.Fprintln(os.Stderr, "usage: racestress list|ring <ms>")
		os.Exit(2)
	}
	ms, _ := strconv.Atoi(os.Args[2])
	deadline := time.Now().Add(time.Duration(ms) * time.Millisecond)
	var stop atomic.Bool
	var wg sync.WaitGroup
	var pushed, popped, negLen, badLen, confined atomic.Int64
	run := func(f func(id int)) {
		for g := 0; g < 4; g++ {
			wg.Add(1)
			go func(id int) {
				defer wg.Done()
				for !stop.Load() {
					f(id)
				}
			}(g)
		}
	}
	switch os.Args[1] {
	case "list":
		l := listz.NewSync[[2]int]()
		run(func(id int) { l.Push([2]int{id, id}); pushed.Add(1) })
		run(func(id int) {
			if v, ok := l.Pop(); ok {
				if v[0] != v[1] {
					badLen.Add(1)
				}
				popped.Add(1)
			}
		})
		run(func(id int) {
			if l.Len() < 0 {
				negLen.Add(1)
			}
		})
		run(func(id int) {
			if id%2 == 0 {
				l.Push([2]int{id, id})
				pushed.Add(1)
			} else if id == 1 {
				if _, ok := l.PopWait(0); ok {
					popped.Add(1)
				}
			} else if _, ok := l.PopWait(2 * time.Millisecond); ok {
				// positive duration: the ticker-driven path (not modelled; race detection only)
				popped.Add(1)
			}
		})
	case "list1":
		// one P: goroutines never run in parallel but are preempted at arbitrary
		// instructions.  Movers take values from the front of ONE list and put them back
		// at the end; afterwards the list must hold exactly the values it started with.
		runtime.GOMAXPROCS(1)
		const K = 64
		l := listz.NewSync[int]()
		for v := 1; v <= K; v++ {
			l.Push(v)
		}
		var moved atomic.Int64
		for g := 0; g < 8; g++ {
			wg.Add(1)
			go func() {
				defer wg.Done()
				for !stop.Load() {
					if v, ok := l.Pop(); ok {
						l.Push(v)
						moved.Add(1)
					}
					if l.Len() < 0 {
						negLen.Add(1)
					}
				}
			}()
		}
		for time.Now().Before(deadline) {
			time.Sleep(5 * time.Millisecond)
		}
		stop.Store(true)
		wg.Wait()
		n := l.Len()
		seen := map[int]int{}
		drained := 0
		for k := 0; k < 4*K; k++ {
			v, ok := l.Pop()
			if !ok {
				break
			}
			seen[v]++
			drained++
		}
		bad := 0
		for v := 1; v <= K; v++ {
			if seen[v] != 1 {
				bad++
			}
		}
		for v := range seen {
			if v < 1 || v > K {
				bad++
			}
		}
		fmt.Printf("moved=%d final-len=%d drained=%d accounting-violations=%d negative-len-samples=%d want=%d\n", moved.Load(), n, drained, bad, negLen.Load(), K)
		return
	case "ring":
		// EVERY method of SyncRing is called concurrently on every shared ring: small
		// capacities so that the consumers collide on the same head position and the
		// producers on the same tail position all the time (3 producers, 4 consumers, one
		// poller each for IsFull / IsEmpty / Len+Cap, one goroutine on the waiting forms).
		spawn := func(f func()) {
			wg.Add(1)
			go func() {
				defer wg.Done()
				for !stop.Load() {
					f()
				}
			}()
		}
		for _, capacity := range []int{2, 3, 4} {
			ring := ringz.NewSync[[2]int](capacity)
			r := &ring
			for g := 0; g < 3; g++ {
				id := g
				spawn(func() {
					if r.Push([2]int{id, id}) {
						pushed.Add(1)
					}
				})
			}
			for g := 0; g < 4; g++ {
				spawn(func() {
					if v, ok := r.Pop(); ok {
						if v[0] != v[1] {
							badLen.Add(1)
						}
						popped.Add(1)
					}
				})
			}
			spawn(func() { _ = r.IsFull() })
			spawn(func() { _ = r.IsEmpty() })
			spawn(func() {
				if n := r.Len(); n < 0 || n > r.Cap() {
					badLen.Add(1)
				}
			})
			spawn(func() {
				if r.PushWait([2]int{7, 7}, 0) {
					pushed.Add(1)
				}
				if v, ok := r.PopWait(0); ok {
					if v[0] != v[1] {
						badLen.Add(1)
					}
					popped.Add(1)
				}
				if v, ok := r.PopWait(time.Millisecond); ok {
					if v[0] != v[1] {
						badLen.Add(1)
					}
					popped.Add(1)
				}
			})
		}
		// several rings per goroutine (WAVE6 class 10): each goroutine owns three rings that
		// no other goroutine touches, uses them alternately and judges each against its own
		// bounded-FIFO model
		for g := 0; g < 2; g++ {
			caps := []int{2, 4, 8}
			rings := make([]ringz.SyncRing[[2]int], len(caps))
			models := make([][]int, len(caps))
			for i, c := range caps {
				rings[i] = ringz.NewSync[[2]int](c)
			}
			k := 0
			spawn(func() {
				k++
				i := k % len(rings)
				if k%5 < 3 {
					want := len(models[i]) < rings[i].Cap()
					if rings[i].Push([2]int{k, k}) != want {
						confined.Add(1)
					} else if want {
						models[i] = append(models[i], k)
					}
				} else {
					v, ok := rings[i].Pop()
					if ok != (len(models[i]) > 0) || (ok && (v[0] != models[i][0] || v[1] != v[0])) {
						confined.Add(1)
					}
					if ok && len(models[i]) > 0 {
						models[i] = models[i][1:]
					}
				}
				if rings[i].Len() != len(models[i]) {
					confined.Add(1)
				}
			})
		}
	default:
		os.Exit(2)
	}
	for time.Now().Before(deadline) {
		time.Sleep(5 * time.Millisecond)
	}
	stop.Store(true)
	wg.Wait()
	fmt.Printf("pushed=%d popped=%d negative-len-samples=%d torn-or-out-of-range=%d confined-mismatch=%d\n", pushed.Load(), popped.Load(), negLen.Load(), badLen.Load(), confined.Load())
}
