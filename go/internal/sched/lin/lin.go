// Package lin is a small linearizability checker specialised to FIFO queues
// (unbounded or bounded), used as the independent property oracle of C01 and C11.
//
// A history is a set of operations with invocation/response instants (indices of
// scheduler steps; all distinct).  The checker searches for a total order that
// (1) respects real-time precedence (a.Resp < b.Inv ⇒ a before b), (2) is a legal run
// of the sequential queue from Init, and (3) ends in Final when Final is known.
// Pending operations (no response) may take effect or not.  A completed operation that
// returned false is *justified* when some other operation overlaps it; otherwise it
// has to be linearised at an instant at which the queue was empty (Pop) / full (Push).
package lin

import (
	"fmt"
	"sort"
	"strings"
)

type Kind uint8

const (
	Push Kind = iota
	Pop
)

type Op struct {
	Thread  int
	Kind    Kind
	Val     int  // pushed value, or the value a successful Pop returned
	OK      bool // result (meaningless while Pending)
	Inv     int
	Resp    int // ignored while Pending
	Pending bool
}

func (o Op) String() string {
	k := "push"
	if o.Kind == Pop {
		k = "pop"
	}
	r := fmt.Sprintf("=%v", o.OK)
	if o.Pending {
		return fmt.Sprintf("t%d %s(%d) [%d,…) pending", o.Thread, k, o.Val, o.Inv)
	}
	return fmt.Sprintf("t%d %s(%d)%s [%d,%d]", o.Thread, k, o.Val, r, o.Inv, o.Resp)
}

type Spec struct {
	Cap        int   // 0 = unbounded
	Init       []int // initial content, oldest first
	Final      []int // content observed after the history (nil = not observed)
	FinalKnown bool
	// StrictFalse: a false return must be linearised at an empty/full instant even
	// when it is overlapped (not what the property asks; used by mutant experiments).
	StrictFalse bool
}

const inf = int(^uint(0) >> 1)

func overlaps(a, b Op) bool {
	ar, br := a.Resp, b.Resp
	if a.Pending {
		ar = inf
	}
	if b.Pending {
		br = inf
	}
	return a.Inv <= br && b.Inv <= ar
}

// Check returns "" when the history is linearizable, else a description.
// Histories of more than 62 operations are rejected (never generated).
func Check(ops []Op, sp Spec) string {
	// false returns that are overlapped are justified and impose nothing
	var req []Op
	for i, o := range ops {
		if !o.Pending && !o.OK && !sp.StrictFalse {
			ov := false
			for j, p := range ops {
				if i != j && overlaps(o, p) {
					ov = true
					break
				}
			}
			if ov {
				continue
			}
		}
		req = append(req, o)
	}
	if len(req) > 62 {
		return "history too long for the checker"
	}
	sort.SliceStable(req, func(i, j int) bool { return req[i].Inv < req[j].Inv })
	n := len(req)
	var must uint64
	for i, o := range req {
		if !o.Pending {
			must |= 1 << uint(i)
		}
	}
	seen := map[string]bool{}
	var q []int
	q = append(q, sp.Init...)
	key := func(mask uint64) string {
		var b strings.Builder
		fmt.Fprintf(&b, "%x|", mask)
		for _, v := range q {
			fmt.Fprintf(&b, "%d,", v)
		}
		return b.String()
	}
	eq := func(a, b []int) bool {
		if len(a) != len(b) {
			return false
		}
		for i := range a {
			if a[i] != b[i] {
				return false
			}
		}
		return true
	}
	var dfs func(mask uint64) bool
	dfs = func(mask uint64) bool {
		if mask&must == must && (!sp.FinalKnown || eq(q, sp.Final)) {
			return true
		}
		k := key(mask)
		if seen[k] {
			return false
		}
		seen[k] = true
		// earliest response among the completed operations not yet linearised
		minResp := inf
		for i := 0; i < n; i++ {
			if mask&(1<<uint(i)) == 0 && !req[i].Pending && req[i].Resp < minResp {
				minResp = req[i].Resp
			}
		}
		for i := 0; i < n; i++ {
			if mask&(1<<uint(i)) != 0 {
				continue
			}
			o := req[i]
			if o.Inv > minResp {
				continue // some completed operation responded before o was invoked
			}
			saved := q
			legal := false
			switch {
			case o.Kind == Push && (o.Pending || o.OK):
				if sp.Cap == 0 || len(q) < sp.Cap {
					q = append(append([]int{}, q...), o.Val)
					legal = true
				} else if o.Pending {
					legal = true // would have returned false
				}
			case o.Kind == Push: // completed, returned false, not overlapped
				legal = sp.Cap != 0 && len(q) == sp.Cap
			case o.Kind == Pop && o.Pending:
				if len(q) > 0 {
					q = append([]int{}, q[1:]...)
				}
				legal = true
			case o.Kind == Pop && o.OK:
				if len(q) > 0 && q[0] == o.Val {
					q = append([]int{}, q[1:]...)
					legal = true
				}
			default: // Pop returned false, not overlapped
				legal = len(q) == 0
			}
			if legal && dfs(mask|1<<uint(i)) {
				return true
			}
			q = saved
		}
		return false
	}
	if dfs(0) {
		return ""
	}
	var b strings.Builder
	b.WriteString("no linearization to a FIFO queue")
	if sp.Cap > 0 {
		fmt.Fprintf(&b, " of capacity %d", sp.Cap)
	}
	fmt.Fprintf(&b, " from %v", sp.Init)
	if sp.FinalKnown {
		fmt.Fprintf(&b, " ending in %v", sp.Final)
	}
	b.WriteString(":")
	for _, o := range req {
		b.WriteString(" {" + o.String() + "}")
	}
	return b.String()
}
