// Package sched is a deterministic scheduler for code whose calls to sync/atomic and
// runtime.Gosched were redirected (by an import-path rewrite of a scratch copy, see
// go/gen.sh) to the same-API shim packages sched/atomic and sched/runtime.
//
// One goroutine per logical thread.  Every shimmed atomic operation first parks the
// calling goroutine (Enter) and reports what it is about to do; the controller picks
// the thread that performs its parked operation next (Step).  Exactly one goroutine
// runs at any time, so an execution is a function of the schedule alone.  When no
// scheduler is active, or the caller is the controller itself, the shims fall through
// to the real sync/atomic.
package sched

import (
	"fmt"
	"runtime"
	"sync"
	"sync/atomic"
	"time"
	"unsafe"
)

type Kind uint8

const (
	KLoad Kind = iota + 1
	KStore
	KCAS
	KAdd
	KSwap
	KYield // runtime.Gosched
)

func (k Kind) String() string {
	switch k {
	case KLoad:
		return "load"
	case KStore:
		return "store"
	case KCAS:
		return "cas"
	case KAdd:
		return "add"
	case KSwap:
		return "swap"
	case KYield:
		return "yield"
	}
	return "?"
}

// Op describes one shimmed operation.  The shim fills the result fields after the
// operation was performed; the controller reads them once the thread parked again.
type Op struct {
	Kind  Kind
	Width uint8 // 0 = pointer, else 32 / 64
	Addr  unsafe.Pointer
	// integer operands and result (two's complement in a uint64)
	Old, New uint64 // CAS: old,new  Store/Swap: New  Add: New = delta
	Res      uint64 // Load: value  Add: new value  Swap: previous value
	// pointer operands and result
	POld, PNew, PRes unsafe.Pointer
	OK               bool // CAS outcome
}

type Status uint8

const (
	Parked   Status = iota // the thread performed its operation and parked at the next one
	Finished               // the thread's function returned
	Hang                   // the thread did not reach another shimmed operation in time
)

// Thread is a logical thread.
type Thread struct {
	ID      int
	s       *S
	resume  chan bool
	pending *Op
	done    bool
	Panic   any // non-nil when the thread function panicked
}

func (t *Thread) Done() bool { return t.done }

// Pending is the operation the thread is parked in front of (nil when finished).
func (t *Thread) Pending() *Op { return t.pending }

type S struct {
	Threads []*Thread
	ctl     chan struct{}
	cur     *Thread
	hung    bool
	Timeout time.Duration
	// expired[tid]: the deadline of every timed wait of thread tid counts as reached
	// (virtual time of the sched/time shim; set by the controller between steps)
	expired map[int]bool
	// ticks[tid]: remaining tick budget of thread tid's current timed wait (SetTicksSelf)
	ticks map[int]int
	// Procs, when > 0, is what the runtime shim's GOMAXPROCS reports while this scheduler
	// is active (a scheduler-chosen input: code that branches on GOMAXPROCS(0) == 1 is
	// then driven through that branch deterministically).
	Procs int
}

// Procs returns the GOMAXPROCS value chosen for the active scheduler (0 = none chosen).
func Procs() int {
	if s := active.Load(); s != nil {
		return s.Procs
	}
	return 0
}

// SetExpired makes the deadline of the timed waits of thread tid count as reached from
// now on (controller only, between steps).  It reports whether a scheduler is active.
func SetExpired(tid int) bool {
	s := active.Load()
	if s == nil {
		return false
	}
	if s.expired == nil {
		s.expired = map[int]bool{}
	}
	s.expired[tid] = true
	return true
}

// Controlled reports whether the caller is a logical thread running under the scheduler,
// and whether its deadline counts as reached.
func Controlled() (under, expired bool) {
	s := active.Load()
	if s == nil || s.cur == nil {
		return false, false
	}
	return true, s.expired[s.cur.ID]
}

// SetTicksSelf (called by a logical thread at the start of a timed call) gives the calling
// thread a tick budget: its next n deadline tests report "not reached", the one after that
// and all later ones "reached" — the deadline is observed on the (n+1)-th tick.  The budget
// is part of the case (replayable), unlike a controller-side `expire` line it can fall on the
// very tick on which the awaited event happens.
func SetTicksSelf(n int) {
	s := active.Load()
	if s == nil || s.cur == nil {
		return
	}
	if s.ticks == nil {
		s.ticks = map[int]int{}
	}
	s.ticks[s.cur.ID] = n
}

// DeadlineReached is the deadline test of the calling logical thread's timed wait: reached
// when the controller said `expire <tid>`, or when the thread's tick budget (if it has
// one) is used up; otherwise one tick of the budget is consumed.
func DeadlineReached() (under, reached bool) {
	s := active.Load()
	if s == nil || s.cur == nil {
		return false, false
	}
	id := s.cur.ID
	if s.expired[id] {
		return true, true
	}
	if n, ok := s.ticks[id]; ok {
		if n == 0 {
			return true, true
		}
		s.ticks[id] = n - 1
	}
	return true, false
}

var (
	mu     sync.Mutex // one active scheduler per process
	active atomic.Pointer[S]
)

// New activates a scheduler (blocks while another one is active).
func New() *S {
	mu.Lock()
	s := &S{ctl: make(chan struct{}), Timeout: 10 * time.Second}
	active.Store(s)
	return s
}

// Active reports whether shimmed operations are currently intercepted.
func Active() bool { return active.Load() != nil }

func (s *S) wait() bool {
	tm := time.NewTimer(s.Timeout)
	defer tm.Stop()
	select {
	case <-s.ctl:
		return true
	case <-tm.C:
		s.hung = true
		return false
	}
}

// Go starts a logical thread and runs it up to its first shimmed operation.
func (s *S) Go(f func(t *Thread)) *Thread {
	t := &Thread{ID: len(s.Threads), s: s, resume: make(chan bool)}
	s.Threads = append(s.Threads, t)
	if s.hung {
		t.done = true
		return t
	}
	s.cur = t
	go func() {
		defer func() {
			if r := recover(); r != nil {
				t.Panic = r
			}
			t.done = true
			t.pending = nil
			s.cur = nil
			s.ctl <- struct{}{}
		}()
		f(t)
	}()
	s.wait()
	return t
}

// Step lets thread tid perform the operation it is parked at and run on to its next
// shimmed operation (or to the end of its function).  It returns the performed
// operation with its results.
func (s *S) Step(tid int) (*Op, Status) {
	if tid < 0 || tid >= len(s.Threads) {
		return nil, Finished
	}
	t := s.Threads[tid]
	if t.done || s.hung {
		return nil, Finished
	}
	op := t.pending
	t.pending = nil
	s.cur = t
	t.resume <- true
	if !s.wait() {
		return op, Hang
	}
	if t.done {
		return op, Finished
	}
	return op, Parked
}

// Close aborts every thread that is still parked and deactivates the scheduler.
func (s *S) Close() {
	if !s.hung {
		for _, t := range s.Threads {
			if !t.done {
				s.cur = t
				t.resume <- false
				<-s.ctl
			}
		}
	}
	s.cur = nil
	active.Store(nil)
	mu.Unlock()
}

// Enter is called by the shims before the real operation.  It parks the calling
// logical thread until the controller schedules it.  It returns false when the call
// is not under scheduler control (no scheduler, or the controller's own call).
func Enter(op *Op) bool {
	s := active.Load()
	if s == nil {
		return false
	}
	t := s.cur
	if t == nil {
		return false
	}
	t.pending = op
	s.cur = nil
	s.ctl <- struct{}{}
	if !<-t.resume {
		runtime.Goexit()
	}
	return true
}

func (o *Op) String() string {
	if o == nil {
		return "<nil>"
	}
	return fmt.Sprintf("%s/%d@%p", o.Kind, o.Width, o.Addr)
}
