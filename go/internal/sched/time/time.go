// Package time is the shim for the parts of package time used by the waiting forms of
// the scheduled scratch copies (PushWait / PopWait of ringz/sync.go): NewTicker, Ticker.C,
// Ticker.Stop, Now, Time.Sub, Duration and its unit constants.
//
// Under the deterministic scheduler there is no clock.  Waiting for a tick only means
// "other threads may run meanwhile", which the scheduler can do anyway at the waiting
// thread's next atomic operation, so a receive from Ticker.C never blocks: the channel
// is kept filled.  What the clock decides — whether `now.Sub(begin) >= maxWait` holds on
// a tick — is a choice of the schedule: the controller line `expire <tid>` makes every
// later deadline test of thread <tid> succeed (time is monotone), until then Sub
// reports 0.  Outside scheduler control everything falls through to the real package.
package time

import (
	rt "time"

	"verifharness/internal/sched"
)

type Duration = rt.Duration

const (
	Nanosecond  = rt.Nanosecond
	Microsecond = rt.Microsecond
	Millisecond = rt.Millisecond
	Second      = rt.Second
	Minute      = rt.Minute
	Hour        = rt.Hour
)

// Time is a tick of a shim ticker (tk != nil), a virtual instant, or a real instant.
type Time struct {
	tk      *Ticker
	virtual bool
	real    rt.Time
}

func Now() Time {
	if under, _ := sched.Controlled(); under {
		return Time{virtual: true}
	}
	return Time{real: rt.Now()}
}

func Since(t Time) Duration { return Now().Sub(t) }

// Sub: the deadline test of a timed wait.  Under the scheduler the answer is 0 (deadline
// not reached) or the largest duration (reached), as the schedule decided for the calling
// thread; the tick's ticker is refilled so that the next receive does not block.
func (t Time) Sub(u Time) Duration {
	if t.tk != nil && t.tk.c != nil {
		select {
		case t.tk.c <- Time{tk: t.tk, virtual: true}:
		default:
		}
	}
	if t.virtual || u.virtual {
		if _, reached := sched.DeadlineReached(); reached {
			return Duration(1<<63 - 1)
		}
		return 0
	}
	return t.real.Sub(u.real)
}

type Ticker struct {
	C    <-chan Time
	c    chan Time // scheduler mode: kept filled
	real *rt.Ticker
	stop chan struct{}
}

func NewTicker(d Duration) *Ticker {
	if under, _ := sched.Controlled(); under {
		c := make(chan Time, 1)
		tk := &Ticker{C: c, c: c}
		c <- Time{tk: tk, virtual: true}
		return tk
	}
	c := make(chan Time, 1)
	tk := &Ticker{C: c, real: rt.NewTicker(d), stop: make(chan struct{})}
	go func() {
		for {
			select {
			case x := <-tk.real.C:
				select {
				case c <- Time{real: x}:
				default:
				}
			case <-tk.stop:
				return
			}
		}
	}()
	return tk
}

func (t *Ticker) Stop() {
	if t.real != nil {
		t.real.Stop()
		select {
		case <-t.stop:
		default:
			close(t.stop)
		}
	}
}
