package drive

import (
	"fmt"
)

// Factory builds a fresh object + threads for one execution.
type Factory func() *Exec

// RNG is the part of core.Rand the samplers need.
type RNG interface {
	Intn(n int) int
}

func enabled(e *Exec) []int {
	var en []int
	for i := 0; i < e.N(); i++ {
		if !e.Done(i) {
			en = append(en, i)
		}
	}
	return en
}

// DFS enumerates every schedule with at most `bound` preemptions (a switch away from
// a thread that is neither finished nor parked at a Gosched), by stateless
// re-execution.  Branching stops after maxDepth steps; from there (and after the last
// choice point) the run is completed by the `drain` line.  emit receives the schedule
// as protocol lines (`step t` …, `drain`, `final`); it returns false to stop.
func DFS(f Factory, bound, maxDepth, maxSchedules int, emit func(lines []string) bool) (schedules int, truncated bool) {
	type point struct {
		cands []int // candidate threads in exploration order
		costs []int // preemption cost of each
		pick  int   // index into cands currently taken
		pre   int   // preemptions used before this step
	}
	var stack []point
	for {
		last := -1
		pre := 0
		depth := 0
		var sched []int
		func() {
			e := f()
			defer e.Close()
			for !e.AllDone() && depth < maxDepth && !e.Hung {
				var p point
				if depth < len(stack) {
					p = stack[depth]
				} else {
					en := enabled(e)
					// order: continue the running thread first (unless it yields), then the
					// others in cyclic order after it
					var cands, costs []int
					lastOK := last >= 0 && !e.Done(last)
					lastYield := lastOK && e.PendingYield(last)
					if lastOK && !lastYield {
						cands = append(cands, last)
						costs = append(costs, 0)
					}
					for k := 1; k <= e.N(); k++ {
						t := (last + k + e.N()) % e.N()
						if last < 0 {
							t = k - 1
						}
						if e.Done(t) || (lastOK && t == last) {
							continue
						}
						c := 0
						if lastOK && !lastYield {
							c = 1
						}
						if pre+c > bound {
							continue
						}
						cands = append(cands, t)
						costs = append(costs, c)
					}
					if lastOK && lastYield && len(cands) == 0 {
						// only the yielding thread is left
						cands = append(cands, last)
						costs = append(costs, 0)
					}
					_ = en
					p = point{cands: cands, costs: costs, pick: 0, pre: pre}
					stack = append(stack, p)
				}
				t := p.cands[p.pick]
				pre = p.pre + p.costs[p.pick]
				e.Step(t)
				sched = append(sched, t)
				last = t
				depth++
			}
		}()
		lines := make([]string, 0, len(sched)+2)
		for _, t := range sched {
			lines = append(lines, stepLine(t))
		}
		lines = append(lines, "drain", "final")
		schedules++
		if !emit(lines) {
			return schedules, true
		}
		if schedules >= maxSchedules {
			return schedules, true
		}
		// backtrack: deepest point with an untried alternative
		stack = stack[:depth]
		for len(stack) > 0 {
			top := &stack[len(stack)-1]
			if top.pick+1 < len(top.cands) {
				top.pick++
				break
			}
			stack = stack[:len(stack)-1]
		}
		if len(stack) == 0 {
			return schedules, false
		}
	}
}

var stepLines [64]string

func init() {
	for i := range stepLines {
		stepLines[i] = fmt.Sprintf("step %d", i)
	}
}

func stepLine(t int) string {
	if t >= 0 && t < len(stepLines) {
		return stepLines[t]
	}
	return fmt.Sprintf("step %d", t)
}

// Sample draws one schedule by running the real code online (so that only enabled
// threads are chosen).  mode 0: uniform random walk; 1: sticky walk (switch with
// probability 1/4); 2: PCT-style (random priorities, `d` priority-change points).
// With probability ~1/5 the schedule is cut short (operations left pending) and, with
// probability ~1/8, steps of finished threads are interspersed.
func Sample(f Factory, r RNG, mode int, maxSteps int) []string {
	e := f()
	defer e.Close()
	var lines []string
	n := e.N()
	prio := make([]int, n)
	for i := range prio {
		prio[i] = r.Intn(1000) + 1000
	}
	change := map[int]bool{}
	if mode == 2 {
		d := r.Intn(4)
		for k := 0; k < d; k++ {
			change[r.Intn(maxSteps/2+1)] = true
		}
	}
	cut := -1
	if r.Intn(5) == 0 {
		cut = r.Intn(maxSteps/2 + 1)
	}
	noise := r.Intn(8) == 0
	last := -1
	lowered := 0
	for step := 0; step < maxSteps && !e.AllDone() && !e.Hung; step++ {
		if step == cut {
			break
		}
		en := enabled(e)
		var t int
		switch mode {
		case 0:
			t = en[r.Intn(len(en))]
		case 1:
			if last >= 0 && !e.Done(last) && !e.PendingYield(last) && r.Intn(4) != 0 {
				t = last
			} else {
				t = en[r.Intn(len(en))]
			}
		default:
			if change[step] && last >= 0 {
				lowered++
				prio[last] = 1000 - lowered
			}
			t = en[0]
			for _, c := range en {
				if prio[c] > prio[t] {
					t = c
				}
			}
			if e.PendingYield(t) && len(en) > 1 {
				// a spinning thread gives way (its priority drops below the others)
				lowered++
				prio[t] = 1000 - lowered
				t = en[0]
				for _, c := range en {
					if prio[c] > prio[t] {
						t = c
					}
				}
			}
		}
		if noise && r.Intn(6) == 0 {
			lines = append(lines, stepLine(r.Intn(n+1)))
			// keep the live execution in step with the emitted lines
			e.Line(lines[len(lines)-1])
			continue
		}
		e.Step(t)
		lines = append(lines, stepLine(t))
		last = t
	}
	if cut < 0 || r.Intn(2) == 0 {
		lines = append(lines, "drain", "final")
	} else if r.Intn(2) == 0 {
		lines = append(lines, "final")
	}
	return lines
}
