package drive

import (
	"bytes"
	"fmt"
	"os"
	"os/exec"
	"path/filepath"
	"strings"
	"time"
)

// RaceStress builds internal/sched/racestress with -race against the tree `repo`
// (the unmodified package, real scheduler) and runs it for ms milliseconds.
// It returns the program's summary line and the race reports (empty = none).
func RaceStress(verifDir, repo, which string, ms int) (summary string, races string, err error) {
	goDir := filepath.Join(verifDir, "go")
	mod, rerr := os.ReadFile(filepath.Join(goDir, "go.mod"))
	if rerr != nil {
		return "", "", rerr
	}
	var h uint32 = 2166136261
	for i := 0; i < len(repo); i++ {
		h = (h ^ uint32(repo[i])) * 16777619
	}
	build := filepath.Join(goDir, ".build")
	_ = os.MkdirAll(build, 0o755)
	modfile := filepath.Join(build, fmt.Sprintf("race-%08x.mod", h))
	newMod := strings.Replace(string(mod), "=> /repo", "=> "+repo, 1)
	if old, e := os.ReadFile(modfile); e != nil || string(old) != newMod {
		if e := os.WriteFile(modfile, []byte(newMod), 0o644); e != nil {
			return "", "", e
		}
	}
	if sum, e := os.ReadFile(filepath.Join(goDir, "go.sum")); e == nil {
		_ = os.WriteFile(strings.TrimSuffix(modfile, ".mod")+".sum", sum, 0o644)
	}
	bin := filepath.Join(build, fmt.Sprintf("racestress-%08x", h))
	cmd := exec.Command("go", "build", "-race", "-modfile="+modfile, "-o", bin, "./internal/sched/racestress")
	cmd.Dir = goDir
	var bo bytes.Buffer
	cmd.Stdout, cmd.Stderr = &bo, &bo
	if e := cmd.Run(); e != nil {
		return "", "", fmt.Errorf("go build -race: %v: %s", e, bo.String())
	}
	run := exec.Command(bin, which, fmt.Sprint(ms))
	run.Env = append(os.Environ(), "GORACE=halt_on_error=0 exitcode=0")
	var so, se bytes.Buffer
	run.Stdout, run.Stderr = &so, &se
	done := make(chan error, 1)
	if e := run.Start(); e != nil {
		return "", "", e
	}
	go func() { done <- run.Wait() }()
	select {
	case e := <-done:
		if e != nil {
			msg := se.String()
			if len(msg) > 3000 {
				msg = msg[:3000]
			}
			if strings.Contains(msg, "panic:") || strings.Contains(msg, "fatal error:") {
				return strings.TrimSpace(so.String()), "", &Crash{Output: msg}
			}
			return strings.TrimSpace(so.String()), se.String(), fmt.Errorf("racestress: %v", e)
		}
	case <-time.After(time.Duration(ms)*time.Millisecond + 60*time.Second):
		_ = run.Process.Kill()
		return "", "", fmt.Errorf("racestress timed out")
	}
	if strings.Contains(se.String(), "DATA RACE") {
		races = se.String()
		if len(races) > 4000 {
			races = races[:4000]
		}
	}
	return strings.TrimSpace(so.String()), races, nil
}

// Crash: the stress program itself died (panic / fatal error inside the real code).
type Crash struct{ Output string }

func (c *Crash) Error() string { return "stress program crashed: " + c.Output }
